(* P_Discovery3T.v -- C20 deepening 2, part 2: EXACT callback lists for the five remaining kinds
   (agent_added, agent_removed, computation_removed, replica_added, replica_removed), the order of
   callbacks of different kinds inside one handler, and the one-shot quirk of the two "removed"
   kinds -- per handler (any Discovery state, any message) and lifted to every step of every trace. *)
From PyDcop Require Import Base Net M_Discovery P_Discovery P_Discovery2 P_Discovery2A P_Discovery2C P_Discovery2R P_Discovery2T.
From Coq Require Import Lia.

Local Arguments bind : simpl never.

(* the events that are callbacks of kind k about item x *)
Definition iscb (k x : Z) (e : ev) : bool :=
  match e with EvCb _ _ k' x' _ => (k' =? k) && (x' =? x) | _ => false end.

Lemma fire_iscb_same own k x v l : filter (iscb k x) (fire own k x v l) = fire own k x v l.
Proof. unfold fire. induction l as [|p r IH]; simpl; auto. now rewrite !Z.eqb_refl, IH. Qed.
Lemma fire_all_iscb_same own k x v l : filter (iscb k x) (fire_all own k x v l) = fire_all own k x v l.
Proof. unfold fire_all. induction l as [|p r IH]; simpl; auto. now rewrite !Z.eqb_refl, IH. Qed.
Lemma fire_iscb_other own k x k' x' v l : (k', x') <> (k, x) -> filter (iscb k x) (fire own k' x' v l) = [].
Proof.
  intros Hne. unfold fire. induction l as [|p r IH]; simpl; auto.
  destruct ((k' =? k) && (x' =? x)) eqn:E; auto.
  apply andb_true_iff in E as [E1 E2]. apply Z.eqb_eq in E1, E2. subst. congruence.
Qed.
Lemma fire_all_iscb_other own k x k' x' v l : (k', x') <> (k, x) -> filter (iscb k x) (fire_all own k' x' v l) = [].
Proof.
  intros Hne. unfold fire_all. induction l as [|p r IH]; simpl; auto.
  destruct ((k' =? k) && (x' =? x)) eqn:E; auto.
  apply andb_true_iff in E as [E1 E2]. apply Z.eqb_eq in E1, E2. subst. congruence.
Qed.
Lemma catch_E r : rE (catch_value_error r) = rE r.
Proof. reflexivity. Qed.

Lemma exc_iscb k x n e : filter (iscb k x) (exc_ev n e) = [].
Proof. destruct e; reflexivity. Qed.

Ltac cblfix := unfold cbl in *;
  repeat match goal with H1 : ?t = Some ?c, H2 : ?t = Some ?l |- _ => rewrite H1 in H2; inversion H2; subst; clear H2 end;
  try congruence.

Definition cbs_of (k : Z) (t : list (Z * cbl)) : cbl := match zlookup k t with Some l => l | None => [] end.
Definition table_after (k : Z) (t : list (Z * cbl)) : list (Z * cbl) :=
  match zlookup k t with Some l => zset k (drop_oneshot l) t | None => t end.

Lemma table_after_same k t : zlookup k (table_after k t) = option_map drop_oneshot (zlookup k t).
Proof. unfold table_after. destruct (zlookup k t) eqn:E; simpl; [apply zlookup_zset_same|exact E]. Qed.
Lemma table_after_other k k' t : k' <> k -> zlookup k' (table_after k t) = zlookup k' t.
Proof. unfold table_after. intros H. destruct (zlookup k t); auto. now apply zlookup_zset_other. Qed.

(* ------------------------------------------------------------------ register_agent, closed form *)
Definition agent_added_evs (s : dstate) (x ad : Z) : list ev :=
  fire (d_own s) 1 x (Some ad) (cbs_of x (d_acbs s)) ++ fire_all (d_own s) 1 x (Some ad) (d_allcbs s).

Lemma reg_agent_exact s x ad p :
  let r := d_register_agent s x ad p in
  (va s x = Some ad /\ rE r = [] /\ d_acbs (rS r) = d_acbs s \/
   va s x <> Some ad /\ rE r = agent_added_evs s x ad /\ d_acbs (rS r) = table_after x (d_acbs s)) /\
  d_allcbs (rS r) = d_allcbs s /\ d_own (rS r) = d_own s /\ d_ccbs (rS r) = d_ccbs s /\ d_rcbs (rS r) = d_rcbs s /\
  d_comps (rS r) = d_comps s.
Proof.
  simpl. unfold d_register_agent, agent_added_evs, table_after, cbs_of, get_or_nil, va.
  destruct (zlookup x (d_agents s)) as [ad'|] eqn:El; simpl;
   [destruct (ad' =? ad) eqn:E; simpl;
     [apply Z.eqb_eq in E; subst; repeat split; auto
     |apply Z.eqb_neq in E; split; [right; split; [congruence|]|]; destruct p; simpl; dm; simpl; auto;
      cblfix; auto]
   |split; [right; split; [congruence|]|]; destruct p; simpl; dm; simpl; auto; cblfix; auto].
Qed.

Lemma agent_added_evs_filter s x ad : filter (iscb 1 x) (agent_added_evs s x ad) = agent_added_evs s x ad.
Proof. unfold agent_added_evs. now rewrite filter_app, fire_iscb_same, fire_all_iscb_same. Qed.
Lemma agent_added_evs_other s y ad k x : (1, y) <> (k, x) -> filter (iscb k x) (agent_added_evs s y ad) = [].
Proof. intros H. unfold agent_added_evs. now rewrite filter_app, fire_iscb_other, fire_all_iscb_other. Qed.
Lemma agent_added_evs_ctx s s' x ad :
  d_own s' = d_own s -> d_allcbs s' = d_allcbs s -> zlookup x (d_acbs s') = zlookup x (d_acbs s) ->
  agent_added_evs s' x ad = agent_added_evs s x ad.
Proof. unfold agent_added_evs, cbs_of. intros -> -> ->. reflexivity. Qed.

(* the answer to a '*' subscription: a list of (agent, address) without repeated agents *)
Lemma register_agents_exact x l : forall s, nodupk l ->
  let r := register_agents s l in
  d_allcbs (rS r) = d_allcbs s /\ d_own (rS r) = d_own s /\
  match zlookup x l with
  | Some ad => va (rS r) x = Some ad /\
      (va s x = Some ad /\ filter (iscb 1 x) (rE r) = [] /\ zlookup x (d_acbs (rS r)) = zlookup x (d_acbs s) \/
       va s x <> Some ad /\ filter (iscb 1 x) (rE r) = agent_added_evs s x ad /\
       zlookup x (d_acbs (rS r)) = option_map drop_oneshot (zlookup x (d_acbs s)))
  | None => va (rS r) x = va s x /\ filter (iscb 1 x) (rE r) = [] /\ zlookup x (d_acbs (rS r)) = zlookup x (d_acbs s)
  end.
Proof.
  induction l as [|[k v] t IH]; intros s Hnd; simpl; auto.
  rewrite bind_S, bind_E, reg_agent_X. inversion Hnd as [|? ? Hk Hnd']; subst.
  destruct (reg_agent_exact s k v false) as (HA & A2 & A3 & _). simpl in HA.
  pose proof (reg_agent_agents s k v false) as HG.
  specialize (IH (rS (d_register_agent s k v false)) Hnd'). simpl in IH. destruct IH as (I1 & I2 & I3).
  split; [congruence|]. split; [congruence|].
  change (zlookup x ((k, v) :: t)) with (if x =? k then Some v else zlookup x t). destruct (x =? k) eqn:E.
  - apply Z.eqb_eq in E. subst k.
    assert (En : zlookup x t = None) by (apply zlookup_notin; exact Hk).
    rewrite En in I3. destruct I3 as (J1 & J2 & J3). rewrite filter_app, J2, app_nil_r.
    split. { rewrite J1. unfold va. rewrite HG. apply zlookup_zset_same. }
    destruct HA as [(H1 & H2 & H3)|(H1 & H2 & H3)]; [left|right]; split; auto; rewrite H2.
    + split; auto. rewrite J3, H3. auto.
    + split; [apply agent_added_evs_filter|]. rewrite J3, H3. apply table_after_same.
  - apply Z.eqb_neq in E.
    assert (Ev : va (rS (d_register_agent s k v false)) x = va s x).
    { unfold va. rewrite HG. apply zlookup_zset_other. auto. }
    assert (Ec : zlookup x (d_acbs (rS (d_register_agent s k v false))) = zlookup x (d_acbs s)).
    { destruct HA as [(_ & _ & ->)|(_ & _ & ->)]; auto. apply table_after_other; auto. }
    assert (Ef : filter (iscb 1 x) (rE (d_register_agent s k v false)) = []).
    { destruct HA as [(_ & -> & _)|(_ & -> & _)]; auto. apply agent_added_evs_other. congruence. }
    rewrite filter_app, Ef. simpl.
    destruct (zlookup x t) as [ad|].
    + destruct I3 as (J1 & J2). split; auto.
      rewrite Ev, Ec in J2. rewrite (agent_added_evs_ctx s _ x ad A3 A2 Ec) in J2. exact J2.
    + rewrite Ev, Ec in I3. exact I3.
Qed.

(* ------------------------------------------------------------------ register_computation, closed form:
   agent_added callbacks (the agent of the computation becomes known through the address carried by
   the registration) come BEFORE the computation_added callbacks *)
Definition comp_added_evs (s : dstate) (c g : Z) : list ev := fire (d_own s) 3 c (Some g) (cbs_of c (d_ccbs s)).

Lemma reg_comp_exact s c ag addr p :
  let g := match ag with Some g => g | None => d_own s end in
  let r := d_register_computation s c ag addr p in
  is_none addr && negb (zmemk g (d_agents s)) = false ->
  let newag := match addr with Some ad => if zmemk g (d_agents s) then None else Some ad | None => None end in
  rE r = (match newag with Some ad => agent_added_evs s g ad | None => [] end)
         ++ (if option_eqb Z.eqb (vc s c) (Some g) then [] else comp_added_evs s c g) /\
  d_acbs (rS r) = (match newag with Some _ => table_after g (d_acbs s) | None => d_acbs s end) /\
  d_allcbs (rS r) = d_allcbs s /\
  d_ccbs (rS r) = (if option_eqb Z.eqb (vc s c) (Some g) then d_ccbs s else table_after c (d_ccbs s)) /\
  d_agents (rS r) = (match newag with Some ad => zset g ad (d_agents s) | None => d_agents s end).
Proof.
  simpl. intros H. unfold d_register_computation. rewrite H.
  set (g := match ag with Some g => g | None => d_own s end) in *.
  set (s1 := set_comps s (zset c g (d_comps s))).
  rewrite bind_E, bind_S.
  match goal with |- context[rX ?r] => set (r2 := r) end.
  set (newag := match addr with Some ad => if zmemk g (d_agents s) then None else Some ad | None => None end).
  assert (H2 : rX r2 = None /\ rE r2 = (match newag with Some ad => agent_added_evs s g ad | None => [] end) /\
               d_acbs (rS r2) = (match newag with Some _ => table_after g (d_acbs s) | None => d_acbs s end) /\
               d_allcbs (rS r2) = d_allcbs s /\ d_ccbs (rS r2) = d_ccbs s /\ d_own (rS r2) = d_own s /\
               d_agents (rS r2) = (match newag with Some ad => zset g ad (d_agents s) | None => d_agents s end)).
  { subst r2 newag. destruct addr as [ad|]; [|simpl; repeat split; auto].
    change (d_agents s1) with (d_agents s). destruct (zmemk g (d_agents s)) eqn:Ek; [simpl; repeat split; auto|].
    destruct (reg_agent_exact s1 g ad false) as (HA & A2 & A3 & A4 & _). simpl in HA.
    rewrite reg_agent_X, reg_agent_agents. destruct HA as [(HA & _)|(_ & HA1 & HA2)].
    - unfold va in HA. change (d_agents s1) with (d_agents s) in HA. apply zmemk_none in HA || (apply zmemk_some in HA; congruence).
    - rewrite HA1, HA2. repeat split; auto. }
  destruct H2 as (HX & HE & HA & HL & HC & HO & HG). rewrite HX, HE.
  unfold comp_added_evs, cbs_of, table_after, vc.
  destruct (option_eqb Z.eqb (zlookup c (d_comps s)) (Some g)); simpl.
  - repeat split; auto.
  - rewrite HC. destruct (zlookup c (d_ccbs s)) eqn:El; simpl; rewrite ?HC; repeat split; auto.
Qed.

(* ------------------------------------------------------------------ agent_added (kind 1) *)
Lemma reg_comp_agent_added s c ag addr p x ad :
  va (rS (d_register_computation s c ag addr p)) x = Some ad -> va s x <> Some ad ->
  filter (iscb 1 x) (rE (d_register_computation s c ag addr p)) = agent_added_evs s x ad /\
  zlookup x (d_acbs (rS (d_register_computation s c ag addr p))) = option_map drop_oneshot (zlookup x (d_acbs s)) /\
  d_allcbs (rS (d_register_computation s c ag addr p)) = d_allcbs s.
Proof.
  intros H1 H0.
  destruct (is_none addr && negb (zmemk (match ag with Some g => g | None => d_own s end) (d_agents s))) eqn:Hr.
  { exfalso. apply H0. revert H1. unfold d_register_computation. rewrite Hr. auto. }
  destruct (reg_comp_exact s c ag addr p Hr) as (HE & HA & HL & _ & HG).
  set (g := match ag with Some g => g | None => d_own s end) in *.
  unfold va in H1. rewrite HG in H1.
  destruct addr as [ad'|]; [|contradiction]. destruct (zmemk g (d_agents s)) eqn:Ek; [contradiction|].
  destruct (Z.eq_dec x g) as [->|Hne]; [|rewrite zlookup_zset_other in H1 by auto; contradiction].
  rewrite zlookup_zset_same in H1. inversion H1; subst ad'.
  rewrite HE, HA, filter_app, agent_added_evs_filter. split; [|split; [apply table_after_same|exact HL]].
  destruct (option_eqb Z.eqb (vc s c) (Some g)); [now rewrite app_nil_r|].
  unfold comp_added_evs. rewrite fire_iscb_other by congruence. now rewrite app_nil_r.
Qed.

Lemma agent_added_exact s m x ad :
  (forall l, m = MPubAgents l -> nodupk l) ->
  va (rS (disc_recv s m)) x = Some ad -> va s x <> Some ad ->
  filter (iscb 1 x) (rE (disc_recv s m)) = agent_added_evs s x ad /\
  zlookup x (d_acbs (rS (disc_recv s m))) = option_map drop_oneshot (zlookup x (d_acbs s)) /\
  d_allcbs (rS (disc_recv s m)) = d_allcbs s.
Proof.
  intros Hnd H1 H0.
  assert (Same : va (rS (disc_recv s m)) x = va s x \/ va (rS (disc_recv s m)) x = None ->
     filter (iscb 1 x) (rE (disc_recv s m)) = agent_added_evs s x ad /\
     zlookup x (d_acbs (rS (disc_recv s m))) = option_map drop_oneshot (zlookup x (d_acbs s)) /\
     d_allcbs (rS (disc_recv s m)) = d_allcbs s).
  { intros [E|E]; rewrite E in H1; [contradiction|discriminate]. }
  assert (RA : forall y ad' p, va (rS (d_register_agent s y ad' p)) x = Some ad ->
     filter (iscb 1 x) (rE (d_register_agent s y ad' p)) = agent_added_evs s x ad /\
     zlookup x (d_acbs (rS (d_register_agent s y ad' p))) = option_map drop_oneshot (zlookup x (d_acbs s)) /\
     d_allcbs (rS (d_register_agent s y ad' p)) = d_allcbs s).
  { intros y ad' p Hv. unfold va in Hv. rewrite reg_agent_agents in Hv.
    destruct (Z.eq_dec x y) as [->|Hne]; [|rewrite zlookup_zset_other in Hv by auto; contradiction].
    rewrite zlookup_zset_same in Hv. inversion Hv; subst ad'.
    destruct (reg_agent_exact s y ad p) as (HA & A2 & _). simpl in HA.
    destruct HA as [(HA & _)|(_ & HA1 & HA2)]; [contradiction|].
    rewrite HA1, HA2, agent_added_evs_filter. split; [auto|]. split; [apply table_after_same|exact A2]. }
  assert (UA : forall y p, va (rS (d_unregister_agent s y p)) x = va s x \/ va (rS (d_unregister_agent s y p)) x = None).
  { intros y p. unfold va. destruct (unreg_agent_agents s y p) as [->| ->]; auto.
    destruct (Z.eq_dec x y) as [->|Hne]; [right; apply zlookup_zdel_same|left; now apply zlookup_zdel_other]. }
  destruct m as [o|y ad'|l|y|y b|c g addr|c ag|c b|r g b|r b]; cbn [disc_recv] in *.
  - destruct (is_subop o) eqn:Es; [apply Same; left; unfold va; now rewrite subop_agents|].
    destruct o as [y ad'|y|c g addr|c g|r g|r g| | | | | | |]; simpl in *; try discriminate.
    + now apply RA.
    + apply Same. apply UA.
    + now apply reg_comp_agent_added.
    + apply Same. left. unfold va. now rewrite ?catch_S, unreg_comp_agents.
    + apply Same. left. unfold va. now rewrite reg_rep_agents.
    + apply Same. left. unfold va. now rewrite unreg_rep_agents.
  - now apply RA.
  - destruct (register_agents_exact x l s (Hnd l eq_refl)) as (A1 & A2 & A3). simpl in A3.
    destruct (zlookup x l) as [ad'|].
    + destruct A3 as (J1 & J2). rewrite J1 in H1. inversion H1; subst ad'.
      destruct J2 as [(J2 & _)|(_ & J3 & J4)]; [contradiction|]. auto.
    + destruct A3 as (J1 & _). apply Same. auto.
  - apply Same. apply UA.
  - apply Same. left; reflexivity.
  - now apply reg_comp_agent_added.
  - apply Same. left. unfold va. now rewrite ?catch_S, unreg_comp_agents.
  - apply Same. left; reflexivity.
  - apply Same. left. destruct b; cbn [disc_recv]; unfold va; [now rewrite reg_rep_agents|now rewrite unreg_rep_agents].
  - apply Same. left; reflexivity.
Qed.

(* ------------------------------------------------------------------ unregister_computation, closed form *)
Lemma unsub_comp_none_spec s c :
  let r := d_unsubscribe_comp s c None in
  rX r = None /\ rE r = [] /\ d_comps (rS r) = d_comps s /\ d_acbs (rS r) = d_acbs s /\ d_allcbs (rS r) = d_allcbs s /\
  d_own (rS r) = d_own s /\ d_agents (rS r) = d_agents s /\ cbs_of c (d_ccbs (rS r)) = [].
Proof.
  simpl. unfold d_unsubscribe_comp, unsub_cbs, cbs_of. unfold cbl in *.
  destruct (@zlookup (list (Z * bool)) c (d_ccbs s)) as [l|] eqn:El; simpl.
  - destruct l as [|q t]; simpl.
    + repeat split; auto. now rewrite El.
    + assert (Ef : filter (fun _ : Z * bool => false) t = []) by (clear; induction t; auto).
      rewrite Ef. simpl. repeat split; auto. now rewrite zlookup_zdel_same.
  - repeat split; auto. now rewrite El.
Qed.

Lemma unreg_comp_exact s c ag p k : vc s c = Some k -> (ag = None \/ ag = Some k) ->
  let r := d_unregister_computation s c ag p in
  rX r = None /\ rE r = fire (d_own s) 4 c ag (cbs_of c (d_ccbs s)) /\ vc (rS r) c = None /\
  (if p then cbs_of c (d_ccbs (rS r)) = [] else d_ccbs (rS r) = d_ccbs s) /\
  d_acbs (rS r) = d_acbs s /\ d_allcbs (rS r) = d_allcbs s /\ d_own (rS r) = d_own s /\ d_agents (rS r) = d_agents s.
Proof.
  intros Hv Hag. simpl. unfold d_unregister_computation. unfold vc in Hv. rewrite Hv.
  assert (Hg : (match ag with Some g => negb (k =? g) | None => false end) = false).
  { destruct Hag as [->| ->]; auto. now rewrite Z.eqb_refl. }
  rewrite Hg. unfold cbs_of, get_or_nil. unfold cbl in *.
  destruct p.
  - set (s1 := set_comps s (zdel c (d_comps s))).
    destruct (unsub_comp_none_spec s1 c) as (U1 & U2 & U3 & U4 & U5 & U6 & U7 & U8). simpl in *.
    rewrite !bind_X, !bind_E, !bind_S. simpl. rewrite U1, U2. simpl. rewrite app_nil_r.
    repeat split; auto. unfold vc. rewrite U3. apply zlookup_zdel_same.
  - simpl. repeat split; auto. apply zlookup_zdel_same.
Qed.

(* whatever happens, unregister_computation only fires computation_removed callbacks about c and leaves
   the agent tables alone *)
Lemma unreg_comp_shape s c ag p :
  let r := d_unregister_computation s c ag p in
  (exists l, rE r = fire (d_own s) 4 c ag l) /\
  d_acbs (rS r) = d_acbs s /\ d_allcbs (rS r) = d_allcbs s /\ d_own (rS r) = d_own s /\ d_agents (rS r) = d_agents s /\
  d_rcbs (rS r) = d_rcbs s.
Proof.
  simpl. unfold d_unregister_computation.
  destruct (zlookup c (d_comps s)) as [k|]; [|split; [exists []; reflexivity|auto]].
  destruct (match ag with Some g => negb (k =? g) | None => false end); [split; [exists []; reflexivity|auto]|].
  destruct p.
  - set (s1 := set_comps s (zdel c (d_comps s))).
    destruct (unsub_comp_none_spec s1 c) as (U1 & U2 & U3 & U4 & U5 & U6 & U7 & U8). simpl in *.
    rewrite !bind_E, !bind_S. simpl. rewrite U1, U2. simpl. rewrite app_nil_r.
    split; [eexists; reflexivity|]. repeat split; auto.
    unfold d_unsubscribe_comp. destruct (unsub_cbs (d_ccbs s1) c None) as [[t sd] er]. reflexivity.
  - simpl. split; [eexists; reflexivity|auto].
Qed.

Lemma unregister_all_shape l y k x : k <> 4 -> forall s,
  let r := unregister_all s l y in
  filter (iscb k x) (rE r) = [] /\
  d_acbs (rS r) = d_acbs s /\ d_allcbs (rS r) = d_allcbs s /\ d_own (rS r) = d_own s /\ d_agents (rS r) = d_agents s /\
  d_rcbs (rS r) = d_rcbs s.
Proof.
  intros Hk. induction l as [|c t IH]; intros s; simpl; [repeat split; auto|].
  destruct (unreg_comp_shape s c (Some y) false) as ((l0 & HE) & A1 & A2 & A3 & A4 & A5). simpl in *.
  rewrite bind_E, bind_S.
  assert (F0 : filter (iscb k x) (rE (d_unregister_computation s c (Some y) false)) = []).
  { rewrite HE. apply fire_iscb_other. congruence. }
  destruct (rX (d_unregister_computation s c (Some y) false)); [repeat split; auto|].
  destruct (IH (rS (d_unregister_computation s c (Some y) false))) as (B0 & B1 & B2 & B3 & B4 & B5).
  rewrite filter_app, F0, B0. repeat split; congruence.
Qed.

(* ------------------------------------------------------------------ unregister_agent, closed form *)
Definition agent_removed_evs (s : dstate) (y : Z) : list ev :=
  fire (d_own s) 2 y None (cbs_of y (d_acbs s)) ++ fire_all (d_own s) 2 y None (d_allcbs s).
Definition cascade_evs (s : dstate) (y : Z) : list ev :=
  flat_map (fun c => fire (d_own s) 4 c (Some y) (cbs_of c (d_ccbs s))) (agent_computations s y false).

Lemma agent_removed_evs_filter s x : filter (iscb 2 x) (agent_removed_evs s x) = agent_removed_evs s x.
Proof. unfold agent_removed_evs. now rewrite filter_app, fire_iscb_same, fire_all_iscb_same. Qed.
Lemma agent_removed_evs_other s y k x : (2, y) <> (k, x) -> filter (iscb k x) (agent_removed_evs s y) = [].
Proof. intros H. unfold agent_removed_evs. now rewrite filter_app, fire_iscb_other, fire_all_iscb_other. Qed.

(* the tail of unregister_agent: the agent entry itself *)
Definition ua_tail (s0 s1 : dstate) (y : Z) (p : bool) : R :=
  if zmemk y (d_agents s1) then
    let s2 := set_agents s1 (zdel y (d_agents s1)) in
    let outs := if p then [MUnpubAgent y] else [] in
    match zlookup y (d_acbs s2) with
    | Some l => (set_acbs s2 (zset y (drop_oneshot l) (d_acbs s2)), outs,
                 fire (d_own s0) 2 y None l ++ fire_all (d_own s0) 2 y None (d_allcbs s2), None)
    | None => (s2, outs, fire_all (d_own s0) 2 y None (d_allcbs s2), None)
    end
  else ret s1.
Definition ua_head (s : dstate) (y : Z) (p : bool) : R :=
  match agent_computations s y false with
  | [] => ret s
  | _ => if p then raise s 1 else unregister_all s (agent_computations s y false) y
  end.
Lemma unreg_agent_unfold s y p : d_unregister_agent s y p = bind (ua_head s y p) (fun s1 => ua_tail s s1 y p).
Proof. reflexivity. Qed.

Lemma unreg_agent_tail s0 s1 y p :
  let r := ua_tail s0 s1 y p in
  d_own s1 = d_own s0 ->
  rX r = None /\ d_comps (rS r) = d_comps s1 /\ d_ccbs (rS r) = d_ccbs s1 /\ d_allcbs (rS r) = d_allcbs s1 /\
  d_own (rS r) = d_own s1 /\ d_rcbs (rS r) = d_rcbs s1 /\
  if zmemk y (d_agents s1)
  then rE r = agent_removed_evs s1 y /\ d_acbs (rS r) = table_after y (d_acbs s1) /\ d_agents (rS r) = zdel y (d_agents s1)
  else rE r = [] /\ rS r = s1.
Proof.
  simpl. intros Ho. unfold ua_tail, agent_removed_evs, table_after, cbs_of. rewrite Ho.
  destruct (zmemk y (d_agents s1)); [|repeat split; auto]. simpl.
  destruct (zlookup y (d_acbs s1)); simpl; repeat split; auto.
Qed.

Lemma ua_head_shape s y p k x : k <> 4 ->
  let r := ua_head s y p in
  filter (iscb k x) (rE r) = [] /\ d_acbs (rS r) = d_acbs s /\ d_allcbs (rS r) = d_allcbs s /\
  d_own (rS r) = d_own s /\ d_agents (rS r) = d_agents s /\ d_rcbs (rS r) = d_rcbs s.
Proof.
  intros Hk. simpl. unfold ua_head. destruct (agent_computations s y false); [simpl; repeat split; auto|].
  destruct p; [simpl; repeat split; auto|]. apply unregister_all_shape; auto.
Qed.

Lemma unreg_agent_kind2 s y p x :
  let r := d_unregister_agent s y p in
  va s x <> None -> va (rS r) x = None ->
  x = y /\ filter (iscb 2 x) (rE r) = agent_removed_evs s x /\
  zlookup x (d_acbs (rS r)) = option_map drop_oneshot (zlookup x (d_acbs s)) /\ d_allcbs (rS r) = d_allcbs s.
Proof.
  simpl. rewrite unreg_agent_unfold.
  destruct (ua_head_shape s y p 2 x ltac:(discriminate)) as (F0 & B1 & B2 & B3 & B4 & _).
  rewrite bind_S, bind_E. destruct (rX (ua_head s y p)).
  { intros H0 H. unfold va in *. rewrite B4 in H. contradiction. }
  destruct (unreg_agent_tail s (rS (ua_head s y p)) y p B3) as (_ & _ & _ & T4 & _ & _ & T7). simpl in T7.
  rewrite B4 in T7. destruct (zmemk y (d_agents s)) eqn:Ek.
  - destruct T7 as (T7 & T8 & T9). intros H0 H. unfold va in *. rewrite T9 in H.
    destruct (Z.eq_dec x y) as [->|Hne]; [|rewrite zlookup_zdel_other in H by auto; contradiction].
    split; auto. rewrite T7, T8, T4, filter_app, F0. simpl.
    assert (Ee : agent_removed_evs (rS (ua_head s y p)) y = agent_removed_evs s y).
    { unfold agent_removed_evs. now rewrite B1, B2, B3. }
    rewrite Ee, agent_removed_evs_filter, B1, B2. split; auto. split; auto. apply table_after_same.
  - destruct T7 as (_ & T7). intros H0 H. unfold va in *. rewrite T7, B4 in H. contradiction.
Qed.

(* ------------------------------------------------------------------ agent_removed (kind 2) *)
Lemma agent_removed_exact s m x :
  va s x <> None -> va (rS (disc_recv s m)) x = None ->
  filter (iscb 2 x) (rE (disc_recv s m)) = agent_removed_evs s x /\
  zlookup x (d_acbs (rS (disc_recv s m))) = option_map drop_oneshot (zlookup x (d_acbs s)) /\
  d_allcbs (rS (disc_recv s m)) = d_allcbs s.
Proof.
  intros H0 H1.
  assert (Keep : va (rS (disc_recv s m)) x = va s x \/ (exists ad, va (rS (disc_recv s m)) x = Some ad) ->
     filter (iscb 2 x) (rE (disc_recv s m)) = agent_removed_evs s x /\
     zlookup x (d_acbs (rS (disc_recv s m))) = option_map drop_oneshot (zlookup x (d_acbs s)) /\
     d_allcbs (rS (disc_recv s m)) = d_allcbs s).
  { intros [E|[ad E]]; rewrite E in H1; [contradiction|discriminate]. }
  assert (RA : forall y ad p, va (rS (d_register_agent s y ad p)) x = va s x \/ exists ad', va (rS (d_register_agent s y ad p)) x = Some ad').
  { intros y ad p. unfold va. rewrite reg_agent_agents. destruct (Z.eq_dec x y) as [->|Hne].
    - right. eexists. apply zlookup_zset_same.
    - left. now apply zlookup_zset_other. }
  assert (RC : forall c ag addr p, va (rS (d_register_computation s c ag addr p)) x = va s x).
  { intros c ag addr p. unfold va. destruct (reg_comp_agents s c ag addr p) as [->|(g & ad & Hk & ->)]; auto.
    destruct (zset_new_lookup g ad (d_agents s) x Hk) as [E|E]; auto. contradiction. }
  destruct m as [o|y ad'|l|y|y b|c g addr|c ag|c b|r g b|r b]; cbn [disc_recv] in *.
  - destruct (is_subop o) eqn:Es; [apply Keep; left; unfold va; now rewrite subop_agents|].
    destruct o as [y ad'|y|c g addr|c g|r g|r g| | | | | | |]; simpl in *; try discriminate.
    + apply Keep. apply RA.
    + destruct (unreg_agent_kind2 s y true x H0 H1) as (_ & K). exact K.
    + apply Keep. left. apply RC.
    + apply Keep. left. unfold va. now rewrite ?catch_S, unreg_comp_agents.
    + apply Keep. left. unfold va. now rewrite reg_rep_agents.
    + apply Keep. left. unfold va. now rewrite unreg_rep_agents.
  - apply Keep. apply RA.
  - apply Keep. rewrite register_agents_va. destruct (lastb x l); eauto.
  - destruct (unreg_agent_kind2 s y false x H0 H1) as (_ & K). exact K.
  - apply Keep. left; reflexivity.
  - apply Keep. left. apply RC.
  - apply Keep. left. unfold va. now rewrite ?catch_S, unreg_comp_agents.
  - apply Keep. left; reflexivity.
  - apply Keep. left. destruct b; cbn [disc_recv]; unfold va; [now rewrite reg_rep_agents|now rewrite unreg_rep_agents].
  - apply Keep. left; reflexivity.
Qed.

(* ------------------------------------------------------------------ the cascade of unregister_agent *)
Lemma unregister_all_exact l y : forall s, NoDup l -> (forall c, In c l -> vc s c = Some y) ->
  let r := unregister_all s l y in
  rX r = None /\ rE r = flat_map (fun c => fire (d_own s) 4 c (Some y) (cbs_of c (d_ccbs s))) l /\
  (forall c, In c l -> vc (rS r) c = None) /\ (forall c, ~ In c l -> vc (rS r) c = vc s c) /\
  d_ccbs (rS r) = d_ccbs s.
Proof.
  induction l as [|c t IH]; intros s Hnd Hv; simpl.
  - repeat split; auto. intros c [].
  - inversion Hnd as [|? ? Hc Hnd']; subst.
    destruct (unreg_comp_exact s c (Some y) false y (Hv c (or_introl eq_refl)) (or_intror eq_refl))
      as (X1 & X2 & X3 & X4 & _ & _ & X7 & _). simpl in *.
    rewrite bind_X, bind_E, bind_S, X1.
    assert (Hv' : forall c', In c' t -> vc (rS (d_unregister_computation s c (Some y) false)) c' = Some y).
    { intros c' Hin. rewrite unreg_comp_other; [apply Hv; auto|]. intros ->. contradiction. }
    destruct (IH _ Hnd' Hv') as (I1 & I2 & I3 & I4 & I5). rewrite X7, X4 in I2. rewrite X2, I2.
    repeat split; auto.
    + intros c' [<-|Hin]; auto. destruct (in_dec Z.eq_dec c t) as [Hi|Hi]; [contradiction|].
      rewrite I4; auto.
    + intros c' Hn. rewrite I4 by tauto. apply unreg_comp_other. intros ->. tauto.
    + congruence.
Qed.

Lemma agent_computations_In s y c : nodupk (d_comps s) ->
  (In c (agent_computations s y false) <-> vc s c = Some y /\ 0 <= c).
Proof.
  intros Hnd. unfold agent_computations, vc. rewrite in_map_iff. split.
  - intros [[c' g] [<- Hp]]. apply filter_In in Hp as [Hin Hp]. simpl in *.
    apply andb_true_iff in Hp as [E1 E2]. apply Z.eqb_eq in E1. subst g. unfold is_technical in E2.
    split; [|destruct (c' <? 0) eqn:E; [discriminate|apply Z.ltb_ge in E; exact E]].
    rewrite <- (lastb_nodup c' (d_comps s) Hnd). clear E2.
    unfold nodupk in Hnd. induction (d_comps s) as [|[k v] r IH]; simpl in *; [contradiction|].
    inversion Hnd; subst. destruct Hin as [E|Hin].
    + inversion E; subst. destruct (lastb c' r) eqn:El; [|now rewrite Z.eqb_refl].
      exfalso. apply H1. rewrite (lastb_nodup c' r H2) in El. apply zlookup_In in El. apply in_map_iff. exists (c', z). auto.
    + now rewrite (IH H2 Hin).
  - intros [Hv Hc]. exists (c, y). split; auto. apply filter_In. split; [now apply zlookup_In|]. simpl.
    rewrite Z.eqb_refl. unfold is_technical. assert (E : (c <? 0) = false) by now apply Z.ltb_ge. now rewrite E.
Qed.

Lemma agent_computations_nodup s y b : nodupk (d_comps s) -> NoDup (agent_computations s y b).
Proof. intros H. unfold agent_computations. apply (nodupk_filter _ _ H). Qed.

(* ORDER inside the handler of unpublish_agent(y): first the computation_removed callbacks of every
   non-technical computation listed on y, in table order, then the agent_removed callbacks (the
   per-agent ones, then the '*' ones).  Quirk: the computation callbacks table is left alone (one-shot
   computation_removed callbacks are NOT discarded); the agent table drops its one-shot entries. *)
Lemma unpublish_agent_order s y : nodupk (d_comps s) ->
  let r := disc_recv s (MUnpubAgent y) in
  rX r = None /\
  rE r = cascade_evs s y ++ (if zmemk y (d_agents s) then agent_removed_evs s y else []) /\
  d_ccbs (rS r) = d_ccbs s /\
  d_acbs (rS r) = (if zmemk y (d_agents s) then table_after y (d_acbs s) else d_acbs s) /\
  (forall c, vc (rS r) c = if (0 <=? c) && option_eqb Z.eqb (vc s c) (Some y) then None else vc s c).
Proof.
  intros Hnd. cbn [disc_recv]. simpl. rewrite unreg_agent_unfold.
  assert (H1 : rX (ua_head s y false) = None /\ rE (ua_head s y false) = cascade_evs s y /\
               d_ccbs (rS (ua_head s y false)) = d_ccbs s /\
               (forall c, vc (rS (ua_head s y false)) c = if (0 <=? c) && option_eqb Z.eqb (vc s c) (Some y) then None else vc s c)).
  { assert (Hl := agent_computations_In s y).
    destruct (unregister_all_exact (agent_computations s y false) y s (agent_computations_nodup s y false Hnd)
                (fun c Hin => proj1 (proj1 (Hl c Hnd) Hin))) as (U1 & U2 & U3 & U4 & U5). simpl in *.
    assert (Eq : ua_head s y false = unregister_all s (agent_computations s y false) y).
    { unfold ua_head. destruct (agent_computations s y false); reflexivity. }
    rewrite Eq. repeat split; auto. intros c.
    destruct ((0 <=? c) && option_eqb Z.eqb (vc s c) (Some y)) eqn:E.
    - apply U3. apply Hl; auto. apply andb_true_iff in E as [E1 E2]. apply Z.leb_le in E1. split; auto.
      destruct (vc s c) as [k|]; simpl in E2; [|discriminate]. apply Z.eqb_eq in E2. congruence.
    - apply U4. intros Hin. apply Hl in Hin as [Hv Hc]; auto. rewrite Hv in E. simpl in E.
      rewrite Z.eqb_refl, andb_true_r in E. apply Z.leb_gt in E. lia. }
  destruct H1 as (H1 & H2 & H3 & H4).
  destruct (ua_head_shape s y false 2 0 ltac:(discriminate)) as (_ & B1 & B2 & B3 & B4 & _).
  destruct (unreg_agent_tail s (rS (ua_head s y false)) y false B3) as (T1 & T2 & T3 & _ & _ & _ & T7). simpl in T7.
  rewrite bind_X, bind_E, bind_S, H1, H2. rewrite B4 in T7. split; [exact T1|].
  destruct (zmemk y (d_agents s)).
  - destruct T7 as (T7 & T8 & T9). rewrite T7, T8, T3, H3, B1.
    assert (Ee : agent_removed_evs (rS (ua_head s y false)) y = agent_removed_evs s y).
    { unfold agent_removed_evs. now rewrite B1, B2, B3. }
    rewrite Ee. repeat split; auto. intros c. unfold vc in *. rewrite T2. apply H4.
  - destruct T7 as (T7 & T8). rewrite T7, T8, app_nil_r. repeat split; auto.
Qed.

(* ------------------------------------------------------------------ computation_removed (kind 4) *)
Lemma flat_map_fire4 own v (f : Z -> cbl) c l : NoDup l -> In c l ->
  filter (iscb 4 c) (flat_map (fun c' => fire own 4 c' v (f c')) l) = fire own 4 c v (f c).
Proof.
  induction l as [|c' t IH]; simpl; intros Hnd Hin; [contradiction|].
  inversion Hnd; subst. rewrite filter_app. destruct Hin as [->|Hin].
  - rewrite fire_iscb_same.
    assert (E : filter (iscb 4 c) (flat_map (fun c' => fire own 4 c' v (f c')) t) = []).
    { clear IH Hnd H2. induction t as [|c2 t2 IH2]; simpl; auto. rewrite filter_app.
      rewrite fire_iscb_other by (intros E; inversion E; subst; apply H1; left; auto).
      simpl. apply IH2. intros Hc. apply H1. right; auto. }
    now rewrite E, app_nil_r.
  - rewrite fire_iscb_other by (intros E; inversion E; subst; contradiction). simpl. auto.
Qed.

Lemma computation_removed_exact s m c k :
  nodupk (d_comps s) -> vc s c = Some k -> vc (rS (disc_recv s m)) c = None ->
  exists val, (val = None \/ val = Some k) /\
    filter (iscb 4 c) (rE (disc_recv s m)) = fire (d_own s) 4 c val (cbs_of c (d_ccbs s)) /\
    (* own operation: every callback for c is forgotten; notification: the table is left alone,
       one-shot callbacks included *)
    ((exists ag, m = MOp (OpUnregComp c ag)) /\ cbs_of c (d_ccbs (rS (disc_recv s m))) = [] \/
     (forall ag, m <> MOp (OpUnregComp c ag)) /\ d_ccbs (rS (disc_recv s m)) = d_ccbs s).
Proof.
  intros Hnd H0 H1.
  set (Goal := exists val, (val = None \/ val = Some k) /\
    filter (iscb 4 c) (rE (disc_recv s m)) = fire (d_own s) 4 c val (cbs_of c (d_ccbs s)) /\
    ((exists ag, m = MOp (OpUnregComp c ag)) /\ cbs_of c (d_ccbs (rS (disc_recv s m))) = [] \/
     (forall ag, m <> MOp (OpUnregComp c ag)) /\ d_ccbs (rS (disc_recv s m)) = d_ccbs s)).
  assert (Keep : vc (rS (disc_recv s m)) c = vc s c \/ (exists g, vc (rS (disc_recv s m)) c = Some g) -> Goal).
  { intros [E|[g E]]; rewrite E in H1; congruence. }
  assert (RC : forall c' ag addr p, vc (rS (d_register_computation s c' ag addr p)) c = vc s c \/
                                    exists g, vc (rS (d_register_computation s c' ag addr p)) c = Some g).
  { intros c' ag addr p. pose proof (reg_comp_gen s c' ag addr p) as H. simpl in H.
    destruct H as [(_ & -> & _)|(_ & _ & E & _)]; auto. unfold vc. rewrite E.
    destruct (Z.eq_dec c c') as [->|Hne]; [right; eexists; apply zlookup_zset_same|left; now apply zlookup_zset_other]. }
  assert (UC : forall ag p, vc (rS (d_unregister_computation s c ag p)) c = None ->
     rX (d_unregister_computation s c ag p) = None /\ (ag = None \/ ag = Some k) /\
     rE (d_unregister_computation s c ag p) = fire (d_own s) 4 c ag (cbs_of c (d_ccbs s)) /\
     (if p then cbs_of c (d_ccbs (rS (d_unregister_computation s c ag p))) = []
      else d_ccbs (rS (d_unregister_computation s c ag p)) = d_ccbs s)).
  { intros ag p Hv.
    assert (Hag : ag = None \/ ag = Some k).
    { destruct ag as [g|]; auto. destruct (Z.eq_dec g k) as [->|Hne]; auto. exfalso.
      revert Hv. unfold d_unregister_computation, vc in *. rewrite H0.
      assert (E : negb (k =? g) = true) by (apply negb_true_iff; apply Z.eqb_neq; congruence).
      rewrite E. simpl. rewrite H0. discriminate. }
    destruct (unreg_comp_exact s c ag p k H0 Hag) as (X1 & X2 & _ & X4 & _). auto. }
  destruct m as [o|y ad'|l|y|y b|c' g addr|c' ag|c' b|r g b|r b]; cbn [disc_recv] in *.
  - destruct (is_subop o) eqn:Es; [apply Keep; left; unfold vc; now rewrite subop_comps|].
    destruct o as [y ad'|y|c' g addr|c' g|r g|r g| | | | | | |]; simpl in *; try discriminate.
    + apply Keep. left. unfold vc. now rewrite reg_agent_comps.
    + apply Keep. left. unfold vc. now rewrite unreg_agent_comps_pub.
    + apply Keep. apply RC.
    + destruct (Z.eq_dec c' c) as [->|Hne]; [|apply Keep; left; apply unreg_comp_other; congruence].
      destruct (UC g true H1) as (_ & Hag & HE & HT). exists g. split; auto. split.
      * rewrite HE. apply fire_iscb_same.
      * left. split; eauto.
    + apply Keep. left. unfold vc. now rewrite reg_rep_comps.
    + apply Keep. left. unfold vc. now rewrite unreg_rep_comps.
  - apply Keep. left. unfold vc. now rewrite reg_agent_comps.
  - apply Keep. left. unfold vc. now rewrite register_agents_comps.
  - destruct (unpublish_agent_order s y Hnd) as (_ & HE & HC & _ & HV). cbn [disc_recv] in *.
    rewrite HV in H1. destruct ((0 <=? c) && option_eqb Z.eqb (vc s c) (Some y)) eqn:E; [|congruence].
    apply andb_true_iff in E as [E1 E2]. apply Z.leb_le in E1. rewrite H0 in E2. simpl in E2. apply Z.eqb_eq in E2. subst y.
    exists (Some k). split; auto. split; [|right; split; [discriminate|exact HC]].
    rewrite HE, filter_app. unfold cascade_evs. rewrite flat_map_fire4.
    + destruct (zmemk k (d_agents s)); [rewrite agent_removed_evs_other by discriminate|]; now rewrite app_nil_r.
    + now apply agent_computations_nodup.
    + apply agent_computations_In; auto.
  - apply Keep. left; reflexivity.
  - apply Keep. apply RC.
  - destruct (Z.eq_dec c' c) as [->|Hne]; [|apply Keep; left; apply unreg_comp_other; congruence].
    destruct (UC ag false H1) as (_ & Hag & HE & HT). exists ag. split; auto. split.
    + rewrite catch_E, HE. apply fire_iscb_same.
    + right. split; [discriminate|exact HT].
  - apply Keep. left; reflexivity.
  - apply Keep. left. destruct b; cbn [disc_recv]; unfold vc; [now rewrite reg_rep_comps|now rewrite unreg_rep_comps].
  - apply Keep. left; reflexivity.
Qed.

(* ------------------------------------------------------------------ replica_added (kind 5), replica_removed (kind 6) *)
Lemma reg_rep_exact s r g p : zmemk r (d_comps s) = true -> ~ In g (dreps s r) ->
  rE (d_register_replica s r g p) = fire (d_own s) 5 r (Some g) (cbs_of r (d_rcbs s)) /\
  d_rcbs (rS (d_register_replica s r g p)) = table_after r (d_rcbs s).
Proof.
  intros Hk Hn. unfold d_register_replica, dreps in *. rewrite Hk. simpl.
  destruct (zmem g (get_or_nil r (d_reps s))) eqn:Em; [apply zmem_In in Em; contradiction|]. simpl.
  unfold cbs_of, table_after. destruct (zlookup r (d_rcbs s)); simpl; auto.
Qed.

Lemma unreg_rep_exact s r g p : In g (dreps s r) ->
  rE (d_unregister_replica s r g p) = fire (d_own s) 6 r (Some g) (cbs_of r (d_rcbs s)) /\
  d_rcbs (rS (d_unregister_replica s r g p)) = d_rcbs s.
Proof.
  intros Hin. unfold d_unregister_replica, dreps, get_or_nil in *.
  destruct (zlookup r (d_reps s)) as [cur|]; [|contradiction].
  destruct (zmem g cur) eqn:Em; simpl.
  - unfold cbs_of, get_or_nil. unfold cbl in *. split; auto.
  - exfalso. assert (zmem g cur = true); [|congruence]. unfold zmem. apply existsb_exists. exists g. split; auto. apply Z.eqb_refl.
Qed.

Lemma unsub_rep_mono s r' cb r g : In g (dreps (rS (d_unsubscribe_rep s r' cb)) r) -> In g (dreps s r).
Proof.
  destruct (unsub_rep_spec s r' cb) as [E|[_ E]]; [unfold dreps; now rewrite E|].
  destruct (Z.eq_dec r r') as [->|Hne]; [|now rewrite E].
  unfold d_unsubscribe_rep. destruct (unsub_cbs (d_rcbs s) r' cb) as [[t sd] er]. destruct sd; simpl; auto.
  destruct (zmemk r' (d_reps s)); simpl; auto. unfold dreps, get_or_nil. simpl. rewrite zlookup_zdel_same. intros [].
Qed.

Lemma unsub_rep_E s r cb : rE (d_unsubscribe_rep s r cb) = [].
Proof.
  unfold d_unsubscribe_rep. destruct (unsub_cbs (d_rcbs s) r cb) as [[t sd] er]. destruct sd; simpl; auto.
  destruct (zmemk r (d_reps s)); reflexivity.
Qed.

Lemma replica_added_exact s m r g :
  In g (dreps (rS (disc_recv s m)) r) -> ~ In g (dreps s r) ->
  filter (iscb 5 r) (rE (disc_recv s m)) = fire (d_own s) 5 r (Some g) (cbs_of r (d_rcbs s)) /\
  zlookup r (d_rcbs (rS (disc_recv s m))) = option_map drop_oneshot (zlookup r (d_rcbs s)).
Proof.
  intros H1 H0.
  set (Goal := filter (iscb 5 r) (rE (disc_recv s m)) = fire (d_own s) 5 r (Some g) (cbs_of r (d_rcbs s)) /\
               zlookup r (d_rcbs (rS (disc_recv s m))) = option_map drop_oneshot (zlookup r (d_rcbs s))).
  assert (Same : d_reps (rS (disc_recv s m)) = d_reps s -> Goal).
  { intros E. unfold dreps in H1. rewrite E in H1. contradiction. }
  assert (Mono : (In g (dreps (rS (disc_recv s m)) r) -> In g (dreps s r)) -> Goal).
  { intros E. exfalso. auto. }
  assert (RR : forall r' g' p, In g (dreps (rS (d_register_replica s r' g' p)) r) ->
     filter (iscb 5 r) (rE (d_register_replica s r' g' p)) = fire (d_own s) 5 r (Some g) (cbs_of r (d_rcbs s)) /\
     zlookup r (d_rcbs (rS (d_register_replica s r' g' p))) = option_map drop_oneshot (zlookup r (d_rcbs s))).
  { intros r' g' p Hin. destruct (reg_rep_spec s r' g' p) as [(_ & E & _)|(Hk & _ & _ & H & _)].
    - rewrite E in Hin. contradiction.
    - apply H in Hin as [[-> ->]|Hin]; [|contradiction].
      destruct (reg_rep_exact s r' g' p Hk H0) as [-> ->]. rewrite fire_iscb_same. split; auto. apply table_after_same. }
  destruct m as [o|y ad'|l|y|y b|c' g' addr|c' ag|c' b|r' g' b|r' b]; cbn [disc_recv] in *.
  - destruct o as [y ad|y|c g' addr|c g'|r' g'|r' g'|y cb os|y cb|cb|c cb os|c cb|r' cb os|r' cb];
      try (apply Same; apply subop_reps; [reflexivity|intros; discriminate]); simpl in *.
    + apply Same. apply reg_agent_reps.
    + apply Same. apply unreg_agent_reps.
    + apply Same. apply reg_comp_reps.
    + apply Same. apply unreg_comp_reps.
    + now apply RR.
    + apply Mono. destruct (unreg_rep_spec s r' g' true) as (M & _). apply M.
    + apply Mono. apply unsub_rep_mono.
  - apply Same. apply reg_agent_reps.
  - apply Same. apply register_agents_reps.
  - apply Same. apply unreg_agent_reps.
  - apply Same. reflexivity.
  - apply Same. apply reg_comp_reps.
  - apply Same. apply unreg_comp_reps.
  - apply Same. reflexivity.
  - destruct b; cbn [disc_recv] in *; [now apply RR|].
    apply Mono. destruct (unreg_rep_spec s r' g' false) as (M & _). apply M.
  - apply Same. reflexivity.
Qed.

Lemma replica_removed_exact s m r g :
  In g (dreps s r) -> ~ In g (dreps (rS (disc_recv s m)) r) ->
  (* unsubscribe_replica(r) forgets the replicas of r without any callback *)
  ((exists cb, m = MOp (OpUnsubRep r cb)) /\ filter (iscb 6 r) (rE (disc_recv s m)) = []) \/
  (* a removal fires every registered callback; the table is left alone (one-shot ones included) *)
  (filter (iscb 6 r) (rE (disc_recv s m)) = fire (d_own s) 6 r (Some g) (cbs_of r (d_rcbs s)) /\
   d_rcbs (rS (disc_recv s m)) = d_rcbs s).
Proof.
  intros H0 H1.
  set (Goal := ((exists cb, m = MOp (OpUnsubRep r cb)) /\ filter (iscb 6 r) (rE (disc_recv s m)) = []) \/
    (filter (iscb 6 r) (rE (disc_recv s m)) = fire (d_own s) 6 r (Some g) (cbs_of r (d_rcbs s)) /\
     d_rcbs (rS (disc_recv s m)) = d_rcbs s)).
  assert (Same : d_reps (rS (disc_recv s m)) = d_reps s -> Goal).
  { intros E. exfalso. apply H1. unfold dreps. rewrite E. exact H0. }
  assert (Keep : (In g (dreps s r) -> In g (dreps (rS (disc_recv s m)) r)) -> Goal).
  { intros E. exfalso. auto. }
  assert (RR : forall r' g' p, In g (dreps s r) -> In g (dreps (rS (d_register_replica s r' g' p)) r)).
  { intros r' g' p Hin. destruct (reg_rep_spec s r' g' p) as [(_ & E & _)|(_ & _ & _ & H & _)]; [now rewrite E|].
    apply H. auto. }
  assert (UR : forall r' g' p, ~ In g (dreps (rS (d_unregister_replica s r' g' p)) r) ->
     filter (iscb 6 r) (rE (d_unregister_replica s r' g' p)) = fire (d_own s) 6 r (Some g) (cbs_of r (d_rcbs s)) /\
     d_rcbs (rS (d_unregister_replica s r' g' p)) = d_rcbs s).
  { intros r' g' p Hn. destruct (unreg_rep_spec s r' g' p) as (_ & M & _). simpl in M.
    destruct (Z.eq_dec r' r) as [->|Hr]; [destruct (Z.eq_dec g' g) as [->|Hg]|].
    - destruct (unreg_rep_exact s r g p H0) as [-> ->]. now rewrite fire_iscb_same.
    - exfalso. apply Hn. apply M; auto. congruence.
    - exfalso. apply Hn. apply M; auto. congruence. }
  destruct m as [o|y ad'|l|y|y b|c' g' addr|c' ag|c' b|r' g' b|r' b]; cbn [disc_recv] in *.
  - destruct o as [y ad|y|c g' addr|c g'|r' g'|r' g'|y cb os|y cb|cb|c cb os|c cb|r' cb os|r' cb];
      try (apply Same; apply subop_reps; [reflexivity|intros; discriminate]); simpl in *.
    + apply Same. apply reg_agent_reps.
    + apply Same. apply unreg_agent_reps.
    + apply Same. apply reg_comp_reps.
    + apply Same. apply unreg_comp_reps.
    + apply Keep. apply RR.
    + right. now apply UR.
    + destruct (Z.eq_dec r' r) as [->|Hne].
      * left. split; eauto. now rewrite unsub_rep_E.
      * apply Keep. destruct (unsub_rep_spec s r' cb) as [E|[_ E]]; [unfold dreps; now rewrite E|]. intros Hin. rewrite E; auto.
  - apply Same. apply reg_agent_reps.
  - apply Same. apply register_agents_reps.
  - apply Same. apply unreg_agent_reps.
  - apply Same. reflexivity.
  - apply Same. apply reg_comp_reps.
  - apply Same. apply unreg_comp_reps.
  - apply Same. reflexivity.
  - destruct b; cbn [disc_recv] in *; [apply Keep; apply RR|]. right. now apply UR.
  - apply Same. reflexivity.
Qed.

(* ORDER inside the handler of publish_computation(c, g, addr) (and of the operation
   register_computation): when the address makes agent g known, its agent_added callbacks (per-agent,
   then '*') come first, then the computation_added callbacks of c *)
Lemma publish_computation_order s c g addr :
  is_none addr && negb (zmemk g (d_agents s)) = false ->
  rE (disc_recv s (MPubComp c g addr)) =
    (match addr with
     | Some ad => if zmemk g (d_agents s) then [] else agent_added_evs s g ad
     | None => []
     end) ++ (if option_eqb Z.eqb (vc s c) (Some g) then [] else comp_added_evs s c g).
Proof.
  intros H. cbn [disc_recv]. destruct (reg_comp_exact s c (Some g) addr false H) as (HE & _). simpl in HE.
  rewrite HE. destruct addr; auto. destruct (zmemk g (d_agents s)); auto.
Qed.

(* ------------------------------------------------------------------ lifting to the steps of the network *)
Lemma step_view h (cf : config nst msg) act n : 0 < n ->
  let P := disc_proto h in
  n_disc (w_st (nodes (fst (step P cf act)) n)) = n_disc (w_st (nodes cf n)) \/
  exists s m q, act = Deliver s n /\ chan cf s n = m :: q /\
    n_disc (w_st (nodes (fst (step P cf act)) n)) = rS (disc_recv (n_disc (w_st (nodes cf n))) m) /\
    snd (step P cf act) = rE (disc_recv (n_disc (w_st (nodes cf n))) m)
                          ++ exc_ev n (rX (disc_recv (n_disc (w_st (nodes cf n))) m)).
Proof.
  intros Hn. simpl. destruct act as [k|s dst]; unfold step; cbn [p_recv p_start disc_proto].
  - left. destruct (w_running (nodes cf k)); simpl; auto.
    unfold disc_start. destruct (k <? 0); simpl; unfold upd_node; destruct (n =? k) eqn:E; simpl; auto;
      apply Z.eqb_eq in E; subst; auto.
  - destruct (chan cf s dst) as [|m q] eqn:Ec; simpl; [left; auto|].
    destruct (w_running (nodes cf dst)) eqn:Er.
    + unfold node_recv. destruct (Z.eq_dec n dst) as [<-|Hne].
      * right. exists s, m, q. split; auto. split; auto.
        assert (E0 : (n =? 0) = false) by (apply Z.eqb_neq; lia). rewrite E0.
        assert (E1 : (0 <? n) = true) by (apply Z.ltb_lt; lia). rewrite E1.
        destruct (disc_recv (n_disc (w_st (nodes cf n))) m) as [[[d1 o1] e1] x1] eqn:Ed. simpl.
        rewrite upd_node_same. simpl. auto.
      * left.
        destruct (dst =? 0); [destruct (dir_recv _ _ _) as [[[? ?] ?] ?]|destruct (0 <? dst); [destruct (disc_recv _ _) as [[[? ?] ?] ?]|]];
          simpl; rewrite upd_node_other by auto; auto.
    + left. simpl. unfold upd_node. destruct (n =? dst) eqn:E; simpl; auto. apply Z.eqb_eq in E; subst; auto.
Qed.

(* what the trace theorems need of a configuration; holds of every reachable one (below) *)
Definition wfcf (cf : config nst msg) : Prop :=
  (forall n, 0 < n -> nodupk (d_comps (n_disc (w_st (nodes cf n))))) /\
  (forall s d l, In (MPubAgents l) (chan cf s d) -> nodupk l).

Section Trace.
  Variable h : hist_t.
  Variable cf : config nst msg.
  Variable act : @action.
  Variable n : Z.
  Hypothesis n_pos : 0 < n.
  Hypothesis wf : wfcf cf.
  Notation P := (disc_proto h).
  Notation d := (n_disc (w_st (nodes cf n))).
  Notation d' := (n_disc (w_st (nodes (fst (step P cf act)) n))).
  Notation evs := (snd (step P cf act)).

  Lemma trace_agent_added x ad :
    zlookup x (d_agents d') = Some ad -> zlookup x (d_agents d) <> Some ad ->
    filter (iscb 1 x) evs = agent_added_evs d x ad /\
    zlookup x (d_acbs d') = option_map drop_oneshot (zlookup x (d_acbs d)) /\ d_allcbs d' = d_allcbs d.
  Proof.
    destruct (step_view h cf act n n_pos) as [E|(s & m & q & -> & Hc & E1 & E2)]; simpl in *.
    - rewrite E. contradiction.
    - rewrite E1, E2, filter_app, exc_iscb, app_nil_r. apply agent_added_exact.
      intros l ->. apply (proj2 wf s n l). rewrite Hc. left; auto.
  Qed.

  Lemma trace_agent_removed x :
    zlookup x (d_agents d) <> None -> zlookup x (d_agents d') = None ->
    filter (iscb 2 x) evs = agent_removed_evs d x /\
    zlookup x (d_acbs d') = option_map drop_oneshot (zlookup x (d_acbs d)) /\ d_allcbs d' = d_allcbs d.
  Proof.
    destruct (step_view h cf act n n_pos) as [E|(s & m & q & -> & Hc & E1 & E2)]; simpl in *.
    - rewrite E. contradiction.
    - rewrite E1, E2, filter_app, exc_iscb, app_nil_r. apply agent_removed_exact.
  Qed.

  Lemma trace_computation_removed c k :
    zlookup c (d_comps d) = Some k -> zlookup c (d_comps d') = None ->
    exists val, (val = None \/ val = Some k) /\
      filter (iscb 4 c) evs = fire (d_own d) 4 c val (cbs_of c (d_ccbs d)) /\
      (cbs_of c (d_ccbs d') = [] \/ d_ccbs d' = d_ccbs d).
  Proof.
    destruct (step_view h cf act n n_pos) as [E|(s & m & q & -> & Hc & E1 & E2)]; simpl in *.
    - rewrite E. congruence.
    - rewrite E1, E2, filter_app, exc_iscb, app_nil_r. intros H0 H1.
      destruct (computation_removed_exact d m c k (proj1 wf n n_pos) H0 H1) as (val & Hv & HE & HT).
      exists val. split; auto. split; auto. destruct HT as [[_ HT]|[_ HT]]; auto.
  Qed.

  Lemma trace_replica_added r g :
    In g (get_or_nil r (d_reps d')) -> ~ In g (get_or_nil r (d_reps d)) ->
    filter (iscb 5 r) evs = fire (d_own d) 5 r (Some g) (cbs_of r (d_rcbs d)) /\
    zlookup r (d_rcbs d') = option_map drop_oneshot (zlookup r (d_rcbs d)).
  Proof.
    destruct (step_view h cf act n n_pos) as [E|(s & m & q & -> & Hc & E1 & E2)]; simpl in *.
    - rewrite E. contradiction.
    - rewrite E1, E2, filter_app, exc_iscb, app_nil_r. apply replica_added_exact.
  Qed.

  Lemma trace_replica_removed r g :
    In g (get_or_nil r (d_reps d)) -> ~ In g (get_or_nil r (d_reps d')) ->
    filter (iscb 6 r) evs = [] \/
    (filter (iscb 6 r) evs = fire (d_own d) 6 r (Some g) (cbs_of r (d_rcbs d)) /\ d_rcbs d' = d_rcbs d).
  Proof.
    destruct (step_view h cf act n n_pos) as [E|(s & m & q & -> & Hc & E1 & E2)]; simpl in *.
    - rewrite E. contradiction.
    - rewrite E1, E2, filter_app, exc_iscb, app_nil_r. intros H0 H1.
      destruct (replica_removed_exact d m r g H0 H1) as [[_ H]|H]; auto.
  Qed.
End Trace.

(* ------------------------------------------------------------------ [wfcf] holds of every reachable configuration *)
Lemma unreg_comp_comps s c ag p :
  d_comps (rS (d_unregister_computation s c ag p)) = d_comps s \/
  d_comps (rS (d_unregister_computation s c ag p)) = zdel c (d_comps s).
Proof.
  unfold d_unregister_computation. dm; simpl; auto.
  right. rewrite !bind_S. simpl. dm; simpl; rewrite ?unsub_comp_comps; reflexivity.
Qed.

Lemma unregister_all_nodup l y : forall s, nodupk (d_comps s) -> nodupk (d_comps (rS (unregister_all s l y))).
Proof.
  induction l as [|c t IH]; intros s H; simpl; auto.
  assert (H1 : nodupk (d_comps (rS (d_unregister_computation s c (Some y) false)))).
  { destruct (unreg_comp_comps s c (Some y) false) as [->| ->]; auto. now apply nodupk_zdel. }
  rewrite bind_S. destruct (rX (d_unregister_computation s c (Some y) false)); auto.
Qed.

Lemma unregister_all_O l y : forall s, rO (unregister_all s l y) = [].
Proof.
  induction l as [|c t IH]; intros s; simpl; auto.
  assert (H1 : rO (d_unregister_computation s c (Some y) false) = []).
  { unfold d_unregister_computation. dm; reflexivity. }
  rewrite bind_O, H1. destruct (rX (d_unregister_computation s c (Some y) false)); auto. now rewrite IH.
Qed.

Lemma disc_recv_nodup_comps s m : nodupk (d_comps s) -> nodupk (d_comps (rS (disc_recv s m))).
Proof.
  intros H.
  assert (RC : forall c ag addr p, nodupk (d_comps (rS (d_register_computation s c ag addr p)))).
  { intros c ag addr p. pose proof (reg_comp_gen s c ag addr p) as HG. simpl in HG.
    destruct HG as [(_ & -> & _)|(_ & _ & -> & _)]; auto. now apply nodupk_zset. }
  assert (UC : forall c ag p, nodupk (d_comps (rS (d_unregister_computation s c ag p)))).
  { intros c ag p. destruct (unreg_comp_comps s c ag p) as [->| ->]; auto. now apply nodupk_zdel. }
  assert (UA : forall y p, nodupk (d_comps (rS (d_unregister_agent s y p)))).
  { intros y p. rewrite unreg_agent_unfold, bind_S.
    assert (H1 : nodupk (d_comps (rS (ua_head s y p)))).
    { unfold ua_head. destruct (agent_computations s y false); auto. destruct p; auto. now apply unregister_all_nodup. }
    destruct (rX (ua_head s y p)); auto.
    unfold ua_tail. dm; simpl; auto. }
  destruct m as [o|y ad'|l|y|y b|c' g addr|c' ag|c' b|r g b|r b]; cbn [disc_recv]; auto.
  - destruct (is_subop o) eqn:Es; [now rewrite subop_comps|].
    destruct o; simpl in *; try discriminate; auto.
    + now rewrite reg_agent_comps.
    + now rewrite reg_rep_comps.
    + now rewrite unreg_rep_comps.
  - now rewrite reg_agent_comps.
  - now rewrite register_agents_comps.
  - apply UC.
  - destruct b; cbn [disc_recv]; [now rewrite reg_rep_comps|now rewrite unreg_rep_comps].
Qed.

Definition is_pa (m : msg) : bool := match m with MPubAgents _ => true | _ => false end.

Ltac subout := intros H;
  unfold d_subscribe_agent, d_unsubscribe_agent, d_subscribe_all, d_subscribe_comp, d_subscribe_rep,
         d_unsubscribe_rep, sub_cbs, unsub_cbs in H;
  repeat match type of H with context[match ?e with _ => _ end] => destruct e end;
  simpl in H; intuition; subst; reflexivity.

Lemma disc_outs_no_pa s m x : In x (rO (disc_recv s m)) -> is_pa x = false.
Proof.
  assert (UA : forall y p, In x (rO (d_unregister_agent s y p)) -> is_pa x = false).
  { intros y p. rewrite unreg_agent_unfold, bind_O.
    assert (H1 : rO (ua_head s y p) = []).
    { unfold ua_head. destruct (agent_computations s y false); auto. destruct p; auto. apply unregister_all_O. }
    rewrite H1. destruct (rX (ua_head s y p)); [intros []|]. simpl.
    unfold ua_tail. dm; simpl; intuition; subst; auto. }
  assert (RC : forall c ag addr p, In x (rO (d_register_computation s c ag addr p)) -> is_pa x = false).
  { intros c ag addr p. pose proof (reg_comp_gen s c ag addr p) as HG. simpl in HG.
    destruct HG as [(_ & _ & ->)|(_ & _ & _ & ->)]; [intros []|]. destruct p; simpl; intuition; subst; auto. }
  destruct m as [o|y ad'|l|y|y b|c' g addr|c' ag|c' b|r g b|r b]; cbn [disc_recv]; simpl; try tauto; auto.
  - destruct o; simpl.
    + rewrite reg_agent_O. simpl. intuition; subst; auto.
    + apply UA.
    + apply RC.
    + intros H. apply unreg_comp_O in H as [->| ->]; auto.
    + intros H. apply reg_rep_O in H as ->; auto.
    + intros H. apply unreg_rep_O in H as ->; auto.
    + subout.
    + subout.
    + subout.
    + subout.
    + intros H. apply unsub_comp_O in H as ->; auto.
    + subout.
    + subout.
  - rewrite reg_agent_O. simpl. tauto.
  - rewrite register_agents_O. simpl. tauto.
  - apply UA.
  - apply RC.
  - intros H. apply unreg_comp_O in H as [->| ->]; auto.
  - destruct b; intros H; [apply reg_rep_O in H|apply unreg_rep_O in H]; subst; auto.
Qed.

Lemma dir_outs_pa st s m dst l : nodupk (d_agents (n_disc st)) ->
  In (dst, MPubAgents l) (rO (dir_recv st s m)) -> nodupk l.
Proof.
  intros Hnd H. apply dir_outs_class in H.
  destruct m as [o|y ad'|l0|y|y b|c' g addr|c' ag|c' b|r g b|r b]; try contradiction; try discriminate.
  - destruct H as [H|(c & [H|(ag & H)])]; discriminate.
  - destruct b; [|contradiction]. destruct (y =? STAR).
    + inversion H; subst. now apply nodupk_filter.
    + destruct H as (_ & ad & H & _). discriminate.
  - destruct H as (ad & H). discriminate.
  - destruct H as (c & [H|(ag' & H)]); discriminate.
  - destruct b; [|contradiction]. destruct H as (_ & g & ad & H). discriminate.
  - destruct b; [|contradiction]. destruct H as (_ & g & H & _). discriminate.
Qed.

Section Reach.
  Variable h : hist_t.
  Notation P := (disc_proto h).
  Notation cfg := (config nst msg).

  Definition RI (cf : cfg) : Prop :=
    wfcf cf /\ Binv (w_st (nodes cf 0)) /\
    (forall n s l, In (s, MPubAgents l) (w_held (nodes cf n)) -> nodupk l).

  Lemma RI_step act cf : RI cf -> RI (fst (step P cf act)).
  Proof.
    intros ([Hn Hc] & HB & Hh).
    destruct (step_cases h act cf) as [E|[(n & _ & Hr & outs & Ho & E)|[(s & d & m & q & _ & Hcd & Hr & st' & outs & evs & Hnr & E)|(s & d & m & q & _ & Hcd & Hr & E)]]];
      rewrite E; clear E.
    - exact (conj (conj Hn Hc) (conj HB Hh)).
    - split; [split|split]; simpl.
      + intros k Hk. unfold upd_node. destruct (k =? n) eqn:Ek; simpl; [apply Z.eqb_eq in Ek; subst|]; auto.
      + intros x y l Hz. apply reinject_all_In in Hz as [Hz|[-> Hz]].
        * rewrite send_all_spec in Hz. destruct (x =? n) eqn:Ex; [|eauto].
          apply in_app_or in Hz as [Hz|Hz]; [eauto|]. apply msgs_to_In in Hz.
          destruct Ho as [->|[_ ->]]; [contradiction|]. apply in_map_iff in Hz as [o [Eo _]]. discriminate.
        * unfold reinject in Hz. eauto.
      + unfold upd_node. destruct (0 =? n) eqn:Ek; simpl; [apply Z.eqb_eq in Ek; subst|]; exact HB.
      + intros k x l. unfold upd_node. destruct (k =? n) eqn:Ek; simpl; [contradiction|apply Hh].
    - assert (Hm : forall l, m = MPubAgents l -> nodupk l).
      { intros l ->. apply (Hc s d l). rewrite Hcd. left; auto. }
      unfold node_recv in Hnr.
      assert (Houts : forall y l, In (y, MPubAgents l) outs -> nodupk l).
      { intros y l Hin. destruct (d =? 0) eqn:E0.
        - apply Z.eqb_eq in E0. subst d.
          pose proof (dir_outs_pa (w_st (nodes cf 0)) s m y l (proj1 HB)) as Hd.
          destruct (dir_recv (w_st (nodes cf 0)) s m) as [[[st1 o1] e1] x1]. inversion Hnr; subst. auto.
        - destruct (0 <? d).
          + pose proof (disc_outs_no_pa (n_disc (w_st (nodes cf d))) m (MPubAgents l)) as Hd.
            destruct (disc_recv (n_disc (w_st (nodes cf d))) m) as [[[d1 o1] e1] x1]. inversion Hnr; subst.
            apply to_self_In in Hin as [_ Hin]. specialize (Hd Hin). discriminate.
          + inversion Hnr; subst. contradiction. }
      split; [split|split]; simpl.
      + intros k Hk. unfold upd_node. destruct (k =? d) eqn:Ek; simpl; [|auto].
        apply Z.eqb_eq in Ek. subst k.
        assert (E0 : (d =? 0) = false) by (apply Z.eqb_neq; lia). rewrite E0 in Hnr.
        assert (E1 : (0 <? d) = true) by (apply Z.ltb_lt; lia). rewrite E1 in Hnr.
        pose proof (disc_recv_nodup_comps (n_disc (w_st (nodes cf d))) m (Hn d Hk)) as Hd.
        destruct (disc_recv (n_disc (w_st (nodes cf d))) m) as [[[d1 o1] e1] x1]. inversion Hnr; subst. exact Hd.
      + intros x y l Hz. rewrite send_all_spec in Hz. destruct (x =? d) eqn:Ex.
        * apply in_app_or in Hz as [Hz|Hz].
          -- eapply upd_chan_In in Hz; eauto.
          -- apply msgs_to_In in Hz. eauto.
        * eapply upd_chan_In in Hz; eauto.
      + unfold upd_node. destruct (0 =? d) eqn:Ek; simpl; [|exact HB].
        apply Z.eqb_eq in Ek. subst d. simpl in Hnr.
        pose proof (Binv_recv (w_st (nodes cf 0)) s m HB) as Hd.
        destruct (dir_recv (w_st (nodes cf 0)) s m) as [[[st1 o1] e1] x1]. inversion Hnr; subst. exact Hd.
      + intros k x l. unfold upd_node. destruct (k =? d) eqn:Ek; simpl; [|apply Hh].
        apply Z.eqb_eq in Ek; subst k. apply Hh.
    - split; [split|split]; simpl.
      + intros k Hk. unfold upd_node. destruct (k =? d) eqn:Ek; simpl; [apply Z.eqb_eq in Ek; subst|]; auto.
      + intros x y l Hz. eapply upd_chan_In in Hz; eauto.
      + unfold upd_node. destruct (0 =? d) eqn:Ek; simpl; [apply Z.eqb_eq in Ek; subst|]; exact HB.
      + intros k x l. unfold upd_node. destruct (k =? d) eqn:Ek; simpl; [|apply Hh].
        apply Z.eqb_eq in Ek; subst k. intros Hz. apply in_app_or in Hz as [Hz|[Hz|[]]]; [eauto|].
        inversion Hz; subst. eapply Hc. rewrite Hcd. left; reflexivity.
  Qed.

  Lemma RI_init : RI (init P).
  Proof.
    split; [split|split].
    - intros n Hn. unfold nodupk. change (NoDup [-(100 + n); -1]). constructor; [intros [H|[]]; lia|].
      constructor; [intros []|constructor].
    - intros s d l [].
    - apply Binv_init.
    - intros n s l [].
  Qed.

  Lemma wfcf_reachable cf : reachable P cf -> wfcf cf.
  Proof.
    intros H. assert (HR : RI cf); [|apply HR].
    induction H; [apply RI_init|now apply RI_step].
  Qed.
End Reach.

(* the one-shot quirk, observable: subscriber 2 registers a ONE-SHOT callback (7) for computation 0
   which it already knows; the removal of 0 fires it (computation_removed) without discarding it,
   the next registration fires it again (computation_added) and only then discards it *)
Definition q_h : hist_t :=
  [(1, [OpRegAgent 1 1001; OpRegComp 0 (Some 1) (Some 1001); OpUnregComp 0 None; OpRegComp 0 (Some 1) (Some 1001)]);
   (2, [OpSubComp 0 None false; OpSubComp 0 (Some 7) true])].
Definition q_sched : list (@action) :=
  [Deliver (-1) 1; Deliver (-1) 1; Deliver 1 0; Deliver 1 0;
   Deliver (-2) 2; Deliver 2 0; Deliver 0 2; Deliver (-2) 2; Deliver 2 0; Deliver 0 2;
   Deliver (-1) 1; Deliver 1 0; Deliver 1 0; Deliver 0 0; Deliver 0 0; Deliver 0 2;
   Deliver (-1) 1; Deliver 1 0; Deliver 0 2].
