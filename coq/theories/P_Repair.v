(* P_Repair.v -- lemmas and proofs about M_Repair (C26) *)
From PyDcop Require Import Base P_Base M_Repair.
From Coq Require Import Permutation ZifyBool.

(* ---------- basics ---------- *)
Lemma bkey_eqb_iff a b : bkey_eqb a b = true <-> a = b.
Proof.
  destruct a as [a1 a2], b as [b1 b2]; unfold bkey_eqb; simpl.
  rewrite andb_true_iff, !String.eqb_eq. split.
  - intros [-> ->]; reflexivity.
  - intros H; inversion H; auto.
Qed.

Lemma In_dedup x l : In x (dedup l) <-> In x l.
Proof.
  induction l as [|y l IH]; simpl; [tauto|].
  destruct (smem y l) eqn:E.
  - rewrite IH. split; auto. intros [->|H]; auto. now apply smem_In.
  - simpl. rewrite IH. tauto.
Qed.

Lemma NoDup_dedup l : NoDup (dedup l).
Proof.
  induction l as [|y l IH]; simpl; [constructor|].
  destruct (smem y l) eqn:E; auto. constructor; auto.
  rewrite In_dedup. intro H. apply smem_In in H. congruence.
Qed.

Lemma In_set_diff x s l : In x (set_diff s l) <-> In x s /\ ~ In x l.
Proof.
  unfold set_diff. rewrite filter_In. split; intros [H1 H2]; split; auto.
  - intro H. apply smem_In in H. rewrite H in H2. discriminate.
  - destruct (smem x l) eqn:E; auto. apply smem_In in E. contradiction.
Qed.

Lemma NoDup_set_diff s l : NoDup s -> NoDup (set_diff s l).
Proof. apply NoDup_filter. Qed.

Lemma In_mem_key {V} c (a : V) l : In (c, a) l -> mem_key String.eqb c l = true.
Proof.
  unfold mem_key. induction l as [|[c' a'] r IH]; simpl; [tauto|].
  intros [H|H].
  - inversion H; subst. now rewrite String.eqb_refl.
  - destruct (String.eqb c c'); auto.
Qed.

Lemma mem_key_In {V} c (l : list (string * V)) :
  mem_key String.eqb c l = true -> exists a, In (c, a) l.
Proof.
  unfold mem_key. destruct (lookup String.eqb c l) eqn:E; [|discriminate].
  intros _. exists v. eapply lookup_In; eauto. apply string_eqb_iff.
Qed.

Lemma mem_key_dict_set_same {V} k (v : V) l : mem_key String.eqb k (dict_set String.eqb k v l) = true.
Proof. unfold mem_key. rewrite lookup_dict_set_same; auto. apply string_eqb_iff. Qed.

Lemma mem_key_dict_set_keep {V} k k' (v : V) l :
  mem_key String.eqb k l = true -> mem_key String.eqb k (dict_set String.eqb k' v l) = true.
Proof.
  intros H. destruct (String.eqb k k') eqn:E.
  - apply String.eqb_eq in E; subst. apply mem_key_dict_set_same.
  - unfold mem_key in *. rewrite lookup_dict_set_other; auto. apply string_eqb_iff.
    intros ->. rewrite String.eqb_refl in E. discriminate.
Qed.

(* ---------- removal.py ---------- *)
Definition replicas_of (d : discovery) (c : string) : list string :=
  match slookup c (d_replicas d) with Some l => l | None => [] end.

Lemma replica_agents_ok d c s :
  replica_agents d c = Ok s ->
  mem_key String.eqb c (d_comps d) = true /\ s = dedup (replicas_of d c).
Proof.
  unfold replica_agents, replicas_of. destruct (mem_key String.eqb c (d_comps d)); [|discriminate].
  intros H; inversion H; auto.
Qed.

Lemma replica_agents_known d c :
  mem_key String.eqb c (d_comps d) = true -> replica_agents d c = Ok (dedup (replicas_of d c)).
Proof. unfold replica_agents, replicas_of. now intros ->. Qed.

Lemma orphaned_exact_l departed d c :
  In c (orphaned departed d) <->
  exists a, In a departed /\ In (c, a) (d_comps d) /\ is_technical c = false.
Proof.
  unfold orphaned. rewrite in_flat_map. split.
  - intros [a [Ha Hc]]. unfold agent_computations in Hc.
    apply in_map_iff in Hc as [[c' a'] [Heq Hf]]. simpl in Heq; subst.
    apply filter_In in Hf as [Hin Hb]. simpl in Hb.
    apply andb_true_iff in Hb as [H1 H2]. apply String.eqb_eq in H1; subst.
    exists a'. repeat split; auto. now apply negb_true_iff.
  - intros [a [Ha [Hin Ht]]]. exists a. split; auto. unfold agent_computations.
    apply in_map_iff. exists (c, a). split; auto. apply filter_In. split; auto.
    simpl. rewrite String.eqb_refl, Ht. reflexivity.
Qed.

Lemma orphaned_known departed d c :
  In c (orphaned departed d) -> mem_key String.eqb c (d_comps d) = true.
Proof. intros H. apply orphaned_exact_l in H as [a [_ [H _]]]. eapply In_mem_key; eauto. Qed.

Lemma concat_replicas_ok d os :
  (forall o, In o os -> mem_key String.eqb o (d_comps d) = true) ->
  concat_replicas d os = Ok (flat_map (fun o => dedup (replicas_of d o)) os).
Proof.
  induction os as [|o r IH]; simpl; intros H; auto.
  rewrite replica_agents_known by (apply H; simpl; auto). simpl.
  rewrite IH by (intros; apply H; simpl; auto). reflexivity.
Qed.

Lemma candidates_exact_l departed d :
  exists l, candidate_agents departed d = Ok l /\ NoDup l /\
    forall a, In a l <->
      (~ In a departed /\ exists o, In o (orphaned departed d) /\ In a (replicas_of d o)).
Proof.
  unfold candidate_agents. rewrite concat_replicas_ok by (intros; eapply orphaned_known; eauto).
  simpl. eexists; split; [reflexivity|]. split.
  - apply NoDup_set_diff, NoDup_dedup.
  - intros a. rewrite In_set_diff, !In_dedup, in_flat_map. split.
    + intros [[o [Ho Ha]] Hn]. split; auto. exists o. split; auto. now rewrite In_dedup in Ha.
    + intros [Hn [o [Ho Ha]]]. split; auto. exists o. split; auto. now rewrite In_dedup.
Qed.

Lemma smem_false_In x l : smem x l = false -> ~ In x l.
Proof. intros H Hin. apply smem_In in Hin. congruence. Qed.

(* what the loop over the neighbours adds to the two maps *)
Lemma info_loop_spec orphan orph departed d ns :
  forall fixed cn fixed' cn',
  info_loop orphan orph departed d ns fixed cn = Ok (fixed', cn') ->
  (forall n a, In (n, a) fixed' ->
     In (n, a) fixed \/ (In n ns /\ n <> orphan /\ ~ In n orph /\ computation_agent d n = Ok a)) /\
  (forall n s, In (n, s) cn' ->
     In (n, s) cn \/ (In n ns /\ n <> orphan /\ In n orph /\
                      s = set_diff (dedup (replicas_of d n)) departed)) /\
  (forall n, mem_key String.eqb n fixed = true -> mem_key String.eqb n fixed' = true) /\
  (forall n, mem_key String.eqb n cn = true -> mem_key String.eqb n cn' = true) /\
  (forall n, In n ns -> n <> orphan ->
     (In n orph -> mem_key String.eqb n cn' = true) /\
     (~ In n orph -> mem_key String.eqb n fixed' = true)).
Proof.
  induction ns as [|n r IH]; simpl; intros fixed cn fixed' cn' H.
  - inversion H; subst. split; [|split; [|split; [|split]]]; auto; intros; contradiction.
  - destruct (String.eqb n orphan) eqn:Eo.
    + apply String.eqb_eq in Eo. subst n.
      destruct (IH _ _ _ _ H) as (A & B & C & D & E). split; [|split; [|split; [|split]]]; auto.
      * intros n a Hin. destruct (A n a Hin) as [?|(?&?&?&?)]; [auto | right; repeat split; simpl; auto].
      * intros n s Hin. destruct (B n s Hin) as [?|(?&?&?&?)]; [auto | right; repeat split; simpl; auto].
      * intros n [->|Hn] Hne; [contradiction|]. apply (E n Hn Hne).
    + assert (Hne : n <> orphan) by (intros ->; rewrite String.eqb_refl in Eo; discriminate).
      destruct (smem n orph) eqn:Es.
      * assert (Hin : In n orph) by now apply smem_In.
        destruct (replica_agents d n) as [s|e] eqn:Er; simpl in H; [|discriminate].
        apply replica_agents_ok in Er as [_ ->].
        destruct (IH _ _ _ _ H) as (A & B & C & D & E). split; [|split; [|split; [|split]]]; auto.
        -- intros m a Hm. destruct (A m a Hm) as [?|(?&?&?&?)]; [auto | right; repeat split; simpl; auto].
        -- intros m s Hm. destruct (B m s Hm) as [Hm'|(?&?&?&?)].
           ++ apply (In_dict_set String.eqb string_eqb_iff) in Hm' as [Hm'|Hm']; auto.
              inversion Hm'; subst. right; repeat split; simpl; auto.
           ++ right; repeat split; simpl; auto.
        -- intros m Hm. apply D. now apply mem_key_dict_set_keep.
        -- intros m [->|Hm] Hmo; [|apply (E m Hm Hmo)]. split.
           ++ intros _. apply D. apply mem_key_dict_set_same.
           ++ intros Hn; contradiction.
      * assert (Hnin : ~ In n orph) by now apply smem_false_In.
        destruct (computation_agent d n) as [a|e] eqn:Ea; simpl in H; [|discriminate].
        destruct (IH _ _ _ _ H) as (A & B & C & D & E). split; [|split; [|split; [|split]]]; auto.
        -- intros m b Hm. destruct (A m b Hm) as [Hm'|(?&?&?&?)].
           ++ apply (In_dict_set String.eqb string_eqb_iff) in Hm' as [Hm'|Hm']; auto.
              inversion Hm'; subst. right; repeat split; simpl; auto.
           ++ right; repeat split; simpl; auto.
        -- intros m s Hm. destruct (B m s Hm) as [?|(?&?&?&?)]; [auto | right; repeat split; simpl; auto].
        -- intros m Hm. apply C. now apply mem_key_dict_set_keep.
        -- intros m [->|Hm] Hmo; [|apply (E m Hm Hmo)]. split.
           ++ intros Hn; contradiction.
           ++ intros _. apply C. apply mem_key_dict_set_same.
Qed.

Lemma computation_info_inv orphan departed g d cand fixed cn :
  computation_info orphan departed g d = Ok (cand, fixed, cn) ->
  exists ns, slookup orphan g = Some ns /\
    mem_key String.eqb orphan (d_comps d) = true /\
    cand = set_diff (dedup (replicas_of d orphan)) departed /\
    info_loop orphan (orphaned departed d) departed d ns [] [] = Ok (fixed, cn).
Proof.
  unfold computation_info.
  destruct (replica_agents d orphan) as [s|e] eqn:Er; simpl; [|discriminate].
  apply replica_agents_ok in Er as [Hk ->].
  destruct (slookup orphan g) as [ns|]; [|discriminate].
  destruct (info_loop _ _ _ _ ns [] []) as [[f c]|e] eqn:El; simpl; [|discriminate].
  intros H; inversion H; subst. exists ns. auto.
Qed.

(* the candidate agents of an orphan and of its orphaned neighbours; the two maps partition
   the neighbours *)
Lemma info_candidates_exact_l orphan departed g d cand fixed cn :
  computation_info orphan departed g d = Ok (cand, fixed, cn) ->
  (NoDup cand /\ forall a, In a cand <-> In a (replicas_of d orphan) /\ ~ In a departed) /\
  (forall n agts, In (n, agts) cn ->
     In n (orphaned departed d) /\ n <> orphan /\ NoDup agts /\
     forall a, In a agts <-> In a (replicas_of d n) /\ ~ In a departed) /\
  (forall n a, In (n, a) fixed -> ~ In n (orphaned departed d) /\ n <> orphan) /\
  (exists ns, slookup orphan g = Some ns /\
     (forall n, In n (map fst cn) \/ In n (map fst fixed) -> In n ns) /\
     forall n, In n ns -> n <> orphan ->
       (In n (orphaned departed d) -> mem_key String.eqb n cn = true) /\
       (~ In n (orphaned departed d) -> mem_key String.eqb n fixed = true)).
Proof.
  intros H. apply computation_info_inv in H as (ns & Hg & Hk & -> & Hl).
  destruct (info_loop_spec _ _ _ _ _ _ _ _ _ Hl) as (A & B & _ & _ & E).
  split; [|split; [|split]].
  - split. { apply NoDup_set_diff, NoDup_dedup. }
    intros a. rewrite In_set_diff, In_dedup. tauto.
  - intros n agts Hin. destruct (B n agts Hin) as [[]|(H1 & H2 & H3 & ->)].
    split; [auto|]. split; [auto|]. split; [apply NoDup_set_diff, NoDup_dedup|].
    intros a. rewrite In_set_diff, In_dedup. tauto.
  - intros n a Hin. destruct (A n a Hin) as [[]|(H1 & H2 & H3 & _)]. auto.
  - exists ns. split; auto. split; auto.
    intros n [Hn|Hn].
    + apply in_map_iff in Hn as [[n' s] [Heq Hn]]. simpl in Heq. subst.
      destruct (B n s Hn) as [[]|(H1 & _)]. auto.
    + apply in_map_iff in Hn as [[n' a] [Heq Hn]]. simpl in Heq. subst.
      destruct (A n a Hn) as [[]|(H1 & _)]. auto.
Qed.

(* a fixed neighbour is where discovery says it is, and that agent has not departed --
   unless the neighbour's name is "technical" *)
Lemma fixed_neighbours_survive_l orphan departed g d cand fixed cn :
  computation_info orphan departed g d = Ok (cand, fixed, cn) ->
  forall n a, In (n, a) fixed ->
    slookup n (d_comps d) = Some a /\ (is_technical n = false -> ~ In a departed).
Proof.
  intros H n a Hin. apply computation_info_inv in H as (ns & Hg & Hk & -> & Hl).
  destruct (info_loop_spec _ _ _ _ _ _ _ _ _ Hl) as (A & _).
  destruct (A n a Hin) as [[]|(H1 & H2 & H3 & H4)].
  unfold computation_agent in H4. destruct (slookup n (d_comps d)) as [a'|] eqn:E; [|discriminate].
  inversion H4; subst a'. split; auto.
  intros Ht Hd. apply H3. apply orphaned_exact_l. exists a. repeat split; auto.
  eapply lookup_In; eauto. apply string_eqb_iff.
Qed.

Lemma fixed_neighbours_technical_refuted_l :
  exists orphan departed g d cand fixed cn n a,
    computation_info orphan departed g d = Ok (cand, fixed, cn) /\
    In (n, a) fixed /\ In a departed.
Proof.
  exists "c1"%string, ["a1"%string],
    [("B1", ["c1"]); ("c1", ["B1"])]%string,
    (mkDisc [("B1", "a1"); ("c1", "a2")] [("B1", ["a2"; "a3"]); ("c1", ["a3"])])%string.
  do 3 eexists. exists "B1"%string, "a1"%string.
  split; [vm_compute; reflexivity|]. split; simpl; auto.
Qed.

(* ---------- per-agent information ---------- *)
Lemma candidate_computations_for_agt_ok agt d os :
  (forall o, In o os -> mem_key String.eqb o (d_comps d) = true) ->
  candidate_computations_for_agt agt os d =
    Ok (filter (fun o => smem agt (dedup (replicas_of d o))) os).
Proof.
  induction os as [|o r IH]; simpl; intros H; auto.
  rewrite replica_agents_known by (apply H; simpl; auto). simpl.
  rewrite IH by (intros; apply H; simpl; auto). reflexivity.
Qed.

Lemma agt_info_loop_spec departed g d cs :
  forall acc l, agt_info_loop cs departed g d acc = Ok l ->
  (forall c i, In (c, i) l -> In (c, i) acc \/ (In c cs /\ computation_info c departed g d = Ok i)) /\
  (forall c, mem_key String.eqb c acc = true -> mem_key String.eqb c l = true) /\
  (forall c, In c cs -> mem_key String.eqb c l = true).
Proof.
  induction cs as [|c r IH]; simpl; intros acc l H.
  - inversion H; subst. repeat split; auto; contradiction.
  - destruct (computation_info c departed g d) as [i|e] eqn:Ei; simpl in H; [|discriminate].
    destruct (IH _ _ H) as (A & B & C). repeat split.
    + intros c' i' Hin. destruct (A c' i' Hin) as [Hin'|[? ?]]; auto.
      apply (In_dict_set String.eqb string_eqb_iff) in Hin' as [Hin'|Hin']; auto.
      inversion Hin'; subst. auto.
    + intros c' Hc'. apply B. now apply mem_key_dict_set_keep.
    + intros c' [->|Hc']; auto. apply B. apply mem_key_dict_set_same.
Qed.

Lemma agt_info_keys_exact_l agt departed g d l :
  candidate_agt_info agt departed g d = Ok l ->
  (forall c, In c (map fst l) <-> In c (orphaned departed d) /\ In agt (replicas_of d c)) /\
  (forall c i, In (c, i) l -> computation_info c departed g d = Ok i).
Proof.
  unfold candidate_agt_info.
  rewrite candidate_computations_for_agt_ok by (intros; eapply orphaned_known; eauto).
  simpl. intros H. destruct (agt_info_loop_spec _ _ _ _ _ _ H) as (A & _ & C). split.
  - intros c. split.
    + intros Hc. apply in_map_iff in Hc as [[c' i] [Heq Hc]]. simpl in Heq; subst.
      destruct (A c i Hc) as [[]|[Hc' _]]. apply filter_In in Hc' as [H1 H2].
      split; auto. apply smem_In in H2. now rewrite In_dedup in H2.
    + intros [H1 H2]. assert (Hm : mem_key String.eqb c l = true).
      { apply C. apply filter_In. split; auto. apply smem_In. now rewrite In_dedup. }
      apply mem_key_In in Hm as [i Hi]. apply in_map_iff. exists (c, i). auto.
  - intros c i Hc. destruct (A c i Hc) as [[]|[_ Hi]]. auto.
Qed.

(* ---------- the four constraints ---------- *)
Definition binary_asg (a : asg) : Prop := forall v y, In (v, y) a -> y = 0 \/ y = 1.
(* number of variables set to 1 *)
Definition ones (a : asg) : nat := List.length (filter (fun kv => snd kv =? 1) a).
(* the assignment giving value [x k] to the variable of key k *)
Definition asg_of (bv : binvars) (x : bkey -> Z) : asg := map (fun kv => (snd kv, x (fst kv))) bv.
(* keys (computation, agent) whose variable is 1 *)
Definition selected (bv : binvars) (x : bkey -> Z) : list bkey :=
  filter (fun k => x k =? 1) (map fst bv).

Lemma ones_cons v y r : ones ((v, y) :: r) = if y =? 1 then S (ones r) else ones r.
Proof. unfold ones. simpl. destruct (y =? 1); reflexivity. Qed.

Lemma zsum_binary_ones a : binary_asg a -> zsum (map snd a) = Z.of_nat (ones a).
Proof.
  induction a as [|[v y] r IH]; intros Hb; [reflexivity|].
  assert (Hr : binary_asg r) by (intros v' y' H'; apply (Hb v' y'); simpl; auto).
  specialize (IH Hr).
  change (zsum (map snd ((v, y) :: r))) with (y + zsum (map snd r)).
  rewrite ones_cons, IH.
  destruct (Hb v y (or_introl eq_refl)) as [->| ->].
  - change (0 =? 1) with false. cbv iota. lia.
  - change (1 =? 1) with true. cbv iota. rewrite Nat2Z.inj_succ. lia.
Qed.

Lemma in_scope_forallb (sc : list string) (a : asg) :
  (forall v y, In (v, y) a -> In v sc) -> forallb (fun kv => smem (fst kv) sc) a = true.
Proof.
  intros H. apply forallb_forall. intros [v y] Hin. simpl. apply smem_In. eapply H; eauto.
Qed.

Lemma hosted_zero_iff_exactly_one_l comp bv a :
  (forall v y, In (v, y) a -> In v (map snd bv)) -> binary_asg a ->
  exists r, rel_call (create_hosted comp bv) a = Ok r /\
            (r = 0 <-> ones a = 1%nat) /\ (r = 0 \/ r = 10000).
Proof.
  intros Hs Hb. unfold rel_call, create_hosted. simpl.
  rewrite in_scope_forallb by auto. unfold hosted_f. rewrite zsum_binary_ones by auto.
  destruct (Z.of_nat (ones a) =? 1) eqn:E.
  - apply Z.eqb_eq in E. exists 0. split; [reflexivity|]. split; [|auto].
    split; intros; [lia|reflexivity].
  - apply Z.eqb_neq in E. exists 10000. split; [reflexivity|]. split; [|auto].
    split; intros; [discriminate|lia].
Qed.

(* "exactly one": on a duplicate free list, one element satisfies p and no other does *)
Lemma filter_length_zero {A} (p : A -> bool) l :
  List.length (filter p l) = 0%nat <-> forall k, In k l -> p k = false.
Proof.
  induction l as [|a r IH]; simpl; [tauto|]. destruct (p a) eqn:E; simpl.
  - split; [discriminate|]. intros H. specialize (H a (or_introl eq_refl)). congruence.
  - rewrite IH. split; intros H k; [intros [->|Hk]; auto | intros Hk; auto].
Qed.

Lemma filter_length_one {A} (p : A -> bool) l : NoDup l ->
  (List.length (filter p l) = 1%nat <->
   exists k, In k l /\ p k = true /\ forall k', In k' l -> p k' = true -> k' = k).
Proof.
  induction l as [|a r IH]; intros Hnd; simpl.
  - split; [discriminate|]. intros [k [[] _]].
  - inversion Hnd as [|? ? Hnin Hnd']; subst. destruct (p a) eqn:E; simpl.
    + split.
      * intros H. assert (H0 : List.length (filter p r) = 0%nat) by lia.
        rewrite filter_length_zero in H0. exists a. split; auto. split; auto.
        intros k' [->|Hk'] Hp; auto. rewrite (H0 k' Hk') in Hp. discriminate.
      * intros [k [Hk [Hp Hu]]]. f_equal. apply filter_length_zero. intros k' Hk'.
        destruct (p k') eqn:E'; auto. exfalso.
        assert (k' = k) by (apply Hu; auto). assert (a = k) by (apply Hu; auto).
        subst. contradiction.
    + rewrite (IH Hnd'). split.
      * intros [k [Hk [Hp Hu]]]. exists k. split; auto. split; auto.
        intros k' [->|Hk'] Hp'; [congruence|auto].
      * intros [k [[->|Hk] [Hp Hu]]]; [congruence|]. exists k. split; auto.
Qed.

Lemma ones_asg_of bv x : ones (asg_of bv x) = List.length (selected bv x).
Proof.
  unfold ones, asg_of, selected. induction bv as [|[k v] r IH]; simpl; auto.
  destruct (x k =? 1); simpl; auto.
Qed.

(* the hosted constraint over the variables of a computation's candidate agents is 0 iff
   exactly one candidate hosts it *)
Lemma hosted_exactly_one_candidate_l comp bv x :
  NoDup (map fst bv) -> (forall k, In k (map fst bv) -> x k = 0 \/ x k = 1) ->
  exists r, rel_call (create_hosted comp bv) (asg_of bv x) = Ok r /\ (r = 0 \/ r = 10000) /\
    (r = 0 <-> exists k, In k (map fst bv) /\ x k = 1 /\
                 forall k', In k' (map fst bv) -> x k' = 1 -> k' = k).
Proof.
  intros Hnd Hb.
  destruct (hosted_zero_iff_exactly_one_l comp bv (asg_of bv x)) as [r [Hr [Hz Hv]]].
  - intros v y Hin. unfold asg_of in Hin. apply in_map_iff in Hin as [[k v'] [Heq Hin]].
    inversion Heq; subst. apply in_map_iff. exists (k, v). auto.
  - intros v y Hin. unfold asg_of in Hin. apply in_map_iff in Hin as [[k v'] [Heq Hin]].
    inversion Heq; subst. apply Hb. apply in_map_iff. exists (k, v). auto.
  - exists r. split; auto. split; auto. rewrite Hz, ones_asg_of. unfold selected.
    rewrite (filter_length_one _ _ Hnd). split.
    + intros [k [H1 [H2 H3]]]. exists k. split; auto. split; [now apply Z.eqb_eq|].
      intros k' Hk' Hx. apply H3; auto. now apply Z.eqb_eq.
    + intros [k [H1 [H2 H3]]]. exists k. split; auto. split; [now apply Z.eqb_eq|].
      intros k' Hk' Hx. apply H3; auto. now apply Z.eqb_eq.
Qed.

(* ----- reverse lookup table ----- *)
Lemma lookup_fold_notin {V} k (l : list (string * V)) : forall acc, ~ In k (map fst l) ->
  lookup String.eqb k (fold_left (fun d kv => dict_set String.eqb (fst kv) (snd kv) d) l acc)
  = lookup String.eqb k acc.
Proof.
  induction l as [|[k1 v1] r IH]; simpl; intros acc H; auto.
  rewrite IH by tauto. apply lookup_dict_set_other; [apply string_eqb_iff|].
  intros ->. apply H. auto.
Qed.

Lemma lookup_dict_of_list_nodup {V} (l : list (string * V)) k v :
  NoDup (map fst l) -> In (k, v) l -> lookup String.eqb k (dict_of_list String.eqb l) = Some v.
Proof.
  unfold dict_of_list. generalize (@nil (string * V)).
  induction l as [|[k1 v1] r IH]; simpl; intros acc Hnd Hin; [contradiction|].
  inversion Hnd; subst. destruct Hin as [Heq|Hin].
  - inversion Heq; subst. rewrite lookup_fold_notin by auto.
    apply lookup_dict_set_same. apply string_eqb_iff.
  - apply IH; auto.
Qed.

Lemma var_lookup_ok bv k v :
  NoDup (map snd bv) -> In (k, v) bv -> slookup v (var_lookup bv) = Some k.
Proof.
  intros Hnd Hin. unfold var_lookup, slookup. apply lookup_dict_of_list_nodup.
  - rewrite map_map. simpl. exact Hnd.
  - apply in_map_iff. exists (k, v). auto.
Qed.

Lemma zsum_app a b : zsum (a ++ b) = zsum a + zsum b.
Proof. induction a; simpl; lia. Qed.

Lemma zsum_perm a b : Permutation a b -> zsum a = zsum b.
Proof. induction 1; simpl; lia. Qed.

Lemma weighted_sum_ok vl w (kf : string -> bkey) a : forall acc,
  (forall v y, In (v, y) a -> slookup v vl = Some (kf v)) ->
  weighted_sum vl w a acc = Ok (acc + zsum (map (fun vy => snd vy * w (fst (kf (fst vy)))) a)).
Proof.
  induction a as [|[v y] r IH]; simpl; intros acc H.
  - f_equal. lia.
  - rewrite (H v y) by auto. rewrite IH by (intros; eapply H; eauto). f_equal. simpl. lia.
Qed.

Lemma weighted_total w bv x a :
  NoDup (map snd bv) -> Permutation a (asg_of bv x) ->
  weighted_sum (var_lookup bv) w a 0 = Ok (zsum (map (fun k => x k * w (fst k)) (map fst bv))).
Proof.
  intros Hnd Hp.
  set (kf := fun v => match slookup v (var_lookup bv) with Some k => k | None => (""%string, ""%string) end).
  assert (Hk : forall k v, In (k, v) bv -> kf v = k).
  { intros k v Hin. unfold kf. now rewrite (var_lookup_ok bv k v Hnd Hin). }
  rewrite (weighted_sum_ok _ w kf).
  - f_equal. simpl.
    rewrite (zsum_perm _ _ (Permutation_map (fun vy => snd vy * w (fst (kf (fst vy)))) Hp)).
    unfold asg_of. rewrite !map_map. simpl. f_equal. apply map_ext_in.
    intros [k v] Hin. simpl. now rewrite (Hk k v Hin).
  - intros v y Hin. apply (Permutation_in _ Hp) in Hin. unfold asg_of in Hin.
    apply in_map_iff in Hin as [[k v'] [Heq Hin]]. inversion Heq; subst.
    rewrite (var_lookup_ok bv k v Hnd Hin). f_equal. symmetry. now apply Hk.
Qed.

Lemma binary_weighted (w : bkey -> Z) (x : bkey -> Z) ks :
  (forall k, In k ks -> x k = 0 \/ x k = 1) ->
  zsum (map (fun k => x k * w k) ks) = zsum (map w (filter (fun k => x k =? 1) ks)).
Proof.
  induction ks as [|k r IH]; simpl; intros H; auto.
  rewrite IH by auto. destruct (H k (or_introl eq_refl)) as [E|E]; rewrite E.
  - change (0 =? 1) with false. cbv iota. lia.
  - change (1 =? 1) with true. cbv iota. cbn [map zsum]. lia.
Qed.

Lemma perm_in_scope bv x a :
  Permutation a (asg_of bv x) -> forall v y, In (v, y) a -> In v (map snd bv).
Proof.
  intros Hp v y Hin. apply (Permutation_in _ Hp) in Hin. unfold asg_of in Hin.
  apply in_map_iff in Hin as [[k v'] [Heq Hin]]. inversion Heq; subst.
  apply in_map_iff. exists (k, v). auto.
Qed.

Lemma capacity_zero_iff_fits_l agt rem fp bv x a :
  NoDup (map snd bv) -> Permutation a (asg_of bv x) ->
  (forall k, In k (map fst bv) -> x k = 0 \/ x k = 1) ->
  exists r, rel_call (create_capacity agt rem fp bv) a = Ok r /\ (r = 0 \/ r = 10000) /\
    (r = 0 <-> zsum (map (fun k => fp (fst k)) (selected bv x)) <= rem).
Proof.
  intros Hnd Hp Hb. unfold rel_call, create_capacity. simpl.
  rewrite in_scope_forallb by (eapply perm_in_scope; eauto).
  unfold capacity_f. rewrite (weighted_total fp bv x a Hnd Hp). simpl.
  rewrite (binary_weighted (fun k => fp (fst k)) x _ Hb). fold (selected bv x).
  match goal with |- context [?c >=? 0] => destruct (c >=? 0) eqn:E end; unfold bkey in *.
  - exists 0. split; [reflexivity|]. split; [auto|]. split; intros; [lia|reflexivity].
  - exists 10000. split; [reflexivity|]. split; [auto|]. split; intros; [discriminate|lia].
Qed.

Lemma hosting_is_sum_l agt h bv x a :
  NoDup (map snd bv) -> Permutation a (asg_of bv x) ->
  rel_call (create_hosting agt h bv) a = Ok (zsum (map (fun k => x k * h (fst k)) (map fst bv))) /\
  ((forall k, In k (map fst bv) -> x k = 0 \/ x k = 1) ->
   rel_call (create_hosting agt h bv) a = Ok (zsum (map (fun k => h (fst k)) (selected bv x)))).
Proof.
  intros Hnd Hp.
  assert (H : rel_call (create_hosting agt h bv) a
              = Ok (zsum (map (fun k => x k * h (fst k)) (map fst bv)))).
  { unfold rel_call, create_hosting. simpl.
    rewrite in_scope_forallb by (eapply perm_in_scope; eauto).
    unfold hosting_f. apply weighted_total; auto. }
  split; auto. intros Hb. rewrite H. f_equal.
  apply (binary_weighted (fun k => h (fst k)) x _ Hb).
Qed.

(* ----- communication constraint ----- *)
Lemma bv_name_In k bv n : bv_name k bv = Ok n -> In (k, n) bv.
Proof.
  unfold bv_name. destruct (lookup bkey_eqb k bv) eqn:E; [|discriminate].
  intros H; inversion H; subst. eapply lookup_In; eauto. apply bkey_eqb_iff.
Qed.

Lemma names_for_ok bv v agts : forall s, names_for bv v agts = Ok s ->
  forall va, In va agts -> exists n, bv_name (v, va) bv = Ok n /\ In n s.
Proof.
  induction agts as [|a r IH]; simpl; intros s H va Hin; [contradiction|].
  destruct (bv_name (v, a) bv) as [n|] eqn:En; simpl in H; [|discriminate].
  destruct (names_for bv v r) as [t|] eqn:Et; simpl in H; [|discriminate].
  inversion H; subst. destruct Hin as [->|Hin].
  - exists n. simpl; auto.
  - destruct (IH t eq_refl va Hin) as [n' [H1 H2]]. exists n'. simpl; auto.
Qed.

Lemma comm_scope_ok bv cn : forall s, comm_scope bv cn = Ok s ->
  forall v agts va, In (v, agts) cn -> In va agts ->
    exists n, bv_name (v, va) bv = Ok n /\ In n s.
Proof.
  induction cn as [|[v0 agts0] r IH]; simpl; intros s H v agts va Hin Hva; [contradiction|].
  destruct (names_for bv v0 agts0) as [s1|] eqn:E1; simpl in H; [|discriminate].
  destruct (comm_scope bv r) as [s2|] eqn:E2; simpl in H; [|discriminate].
  inversion H; subst. destruct Hin as [Heq|Hin].
  - inversion Heq; subst. destruct (names_for_ok _ _ _ _ E1 va Hva) as [n [H1 H2]].
    exists n. split; auto. apply in_or_app; auto.
  - destruct (IH s2 eq_refl v agts va Hin Hva) as [n [H1 H2]].
    exists n. split; auto. apply in_or_app; auto.
Qed.

Lemma comm_fixed_ok cand comm a loc xl fixed : forall acc,
  kw a loc = Ok xl ->
  comm_fixed cand comm a loc fixed acc
  = Ok (acc + xl * zsum (map (fun na => comm cand (fst na) (snd na)) fixed)).
Proof.
  induction fixed as [|[v va] r IH]; simpl; intros acc Hk.
  - f_equal. ring.
  - rewrite Hk. simpl. rewrite IH by auto. f_equal. ring.
Qed.

Lemma comm_cost_v_ok cand comm bv a (x : bkey -> Z) v agts : forall acc,
  (forall va, In va agts -> exists n, bv_name (v, va) bv = Ok n /\ kw a n = Ok (x (v, va))) ->
  comm_cost_v cand comm bv a v agts acc
  = Ok (acc + zsum (map (fun va => x (v, va) * comm cand v va) agts)).
Proof.
  induction agts as [|va r IH]; simpl; intros acc H.
  - f_equal. ring.
  - destruct (H va (or_introl eq_refl)) as [n [H1 H2]]. rewrite H1. simpl. rewrite H2. simpl.
    rewrite IH by auto. f_equal. ring.
Qed.

Lemma comm_cands_ok cand comm bv a loc xl (x : bkey -> Z) cn : forall acc,
  kw a loc = Ok xl ->
  (forall v agts va, In (v, agts) cn -> In va agts ->
     exists n, bv_name (v, va) bv = Ok n /\ kw a n = Ok (x (v, va))) ->
  comm_cands cand comm bv a loc cn acc
  = Ok (acc + xl * zsum (map (fun ns => zsum (map (fun va => x (fst ns, va) * comm cand (fst ns) va)
                                                (snd ns))) cn)).
Proof.
  induction cn as [|[v agts] r IH]; simpl; intros acc Hk H.
  - f_equal. ring.
  - rewrite (comm_cost_v_ok cand comm bv a x v agts 0) by (intros; eapply H; eauto).
    simpl. rewrite Hk. simpl. rewrite IH by (auto; intros; eapply H; eauto). f_equal. ring.
Qed.

Lemma comm_is_sum_l agt cand cands fixed cn comm bv rel (x : bkey -> Z) a :
  create_comm agt cand (cands, fixed, cn) comm bv = Ok rel ->
  (forall v y, In (v, y) a -> In v (r_scope rel)) ->
  (forall k v, In (k, v) bv -> In v (r_scope rel) -> slookup v a = Some (x k)) ->
  rel_call rel a
  = Ok (x (cand, agt) *
        (zsum (map (fun na => comm cand (fst na) (snd na)) fixed)
         + zsum (map (fun ns => zsum (map (fun va => x (fst ns, va) * comm cand (fst ns) va)
                                         (snd ns))) cn))).
Proof.
  unfold create_comm. destruct (bv_name (cand, agt) bv) as [loc|] eqn:El; simpl; [|discriminate].
  destruct (comm_scope bv cn) as [s|] eqn:Es; simpl; [|discriminate].
  intros H Hs Ha. inversion H; subst rel; clear H.
  unfold rel_call. cbn [r_scope r_fun] in *. rewrite in_scope_forallb by exact Hs.
  unfold comm_f. rewrite El. cbn [bind].
  assert (Hloc : kw a loc = Ok (x (cand, agt))).
  { unfold kw. rewrite (Ha (cand, agt) loc); [reflexivity | now apply bv_name_In | simpl; auto]. }
  rewrite (comm_fixed_ok cand comm a loc _ fixed 0 Hloc). cbn [bind].
  rewrite (comm_cands_ok cand comm bv a loc _ x cn _ Hloc).
  - f_equal. ring.
  - intros v agts va Hin Hva. destruct (comm_scope_ok _ _ _ Es v agts va Hin Hva) as [n [H1 H2]].
    exists n. split; auto. unfold kw.
    rewrite (Ha (v, va) n); [reflexivity | now apply bv_name_In | simpl; auto].
Qed.

(* the scope of the communication constraint: the local variable and one variable per
   (orphaned neighbour, candidate agent) *)
Lemma comm_scope_exact agt cand cands fixed cn comm bv rel :
  create_comm agt cand (cands, fixed, cn) comm bv = Ok rel ->
  forall n, In n (r_scope rel) <->
    bv_name (cand, agt) bv = Ok n \/
    exists v agts va, In (v, agts) cn /\ In va agts /\ bv_name (v, va) bv = Ok n.
Proof.
  unfold create_comm. destruct (bv_name (cand, agt) bv) as [loc|] eqn:El; simpl; [|discriminate].
  destruct (comm_scope bv cn) as [s|] eqn:Es; simpl; [|discriminate].
  intros H. inversion H; subst rel; clear H. simpl. intros n.
  assert (Hs : In n s <-> exists v agts va, In (v, agts) cn /\ In va agts /\ bv_name (v, va) bv = Ok n).
  { clear El. revert s Es. induction cn as [|[v0 agts0] r IH]; simpl; intros s Es.
    - inversion Es; subst. split; [intros []|intros (?&?&?&[]&_)].
    - destruct (names_for bv v0 agts0) as [s1|] eqn:E1; simpl in Es; [|discriminate].
      destruct (comm_scope bv r) as [s2|] eqn:E2; simpl in Es; [|discriminate].
      inversion Es; subst. rewrite in_app_iff, (IH s2 eq_refl).
      assert (H1 : In n s1 <-> exists va, In va agts0 /\ bv_name (v0, va) bv = Ok n).
      { clear -E1. revert s1 E1. induction agts0 as [|a0 r0 IH0]; simpl; intros s1 E1.
        - inversion E1; subst. split; [intros []|intros (?&[]&_)].
        - destruct (bv_name (v0, a0) bv) as [m|] eqn:Em; simpl in E1; [|discriminate].
          destruct (names_for bv v0 r0) as [t|] eqn:Et; simpl in E1; [|discriminate].
          inversion E1; subst. simpl. rewrite (IH0 t eq_refl). split.
          + intros [->|[va [H1 H2]]]; [exists a0; auto|exists va; auto].
          + intros [va [[->|H1] H2]]; [left; congruence|right; exists va; auto]. }
      rewrite H1. split.
      + intros [[va [Ha Hb]]|(v & agts & va & Ha & Hb & Hc)].
        * exists v0, agts0, va. auto.
        * exists v, agts, va. auto.
      + intros (v & agts & va & [Heq|Ha] & Hb & Hc).
        * inversion Heq; subst. left. exists va. auto.
        * right. exists v, agts, va. auto. }
  rewrite <- Hs. split.
  - intros [->|Hn]; auto.
  - intros [Hn|Hn]; [left; congruence|auto].
Qed.

(* a computation named like a DCOP variable "B1" is never orphaned *)
Lemma orphaned_B_prefixed_refuted_l :
  exists departed d c a,
    In a departed /\ In (c, a) (d_comps d) /\ ~ In c (orphaned departed d).
Proof.
  exists ["a1"%string],
    (mkDisc [("B1", "a1"); ("c1", "a2")] [("B1", ["a2"; "a3"]); ("c1", ["a3"])])%string,
    "B1"%string, "a1"%string.
  split; [simpl; auto|]. split; [simpl; auto|]. vm_compute. tauto.
Qed.
