(* P_Dist3.v -- C23, ILP side: an integral point of the ILP of oilp_cgdp / ilp_fgdp that
   satisfies the rows (M_Ilp.oilp_feasible / fgdp_feasible, tied to the PuLP problem the real
   code builds by C24's correspondence run) decodes to a valid mapping.  The solver is an
   oracle: whatever feasible point it returns, the Distribution built from it is valid. *)
From PyDcop Require Import Base M_Dist P_Dist M_Ilp P_Ilp.
From Coq Require Import Permutation ZifyBool.

(* the mapping read off the x variables: computation -> the agent whose x variable is 1 *)
Definition decode (I : inst) (D : list (Z * Z)) : list (Z * Z) :=
  map (fun nd => (n_id nd, dget D (n_id nd))) (i_nodes I).

(* the "hosted once" rows  sum_a x[c,a] = 1  range over the declared agents *)
Definition assigns_declared (I : inst) (D : list (Z * Z)) : Prop :=
  forall nd, In nd (i_nodes I) -> In (dget D (n_id nd)) (map g_id (i_agents I)).

Lemma hosted_fp_decode I D a :
  NoDup (map n_id (i_nodes I)) -> hosted_fp I (decode I D) a = hosted_on I D a.
Proof.
  intros Hn. unfold hosted_fp, hosted_on, decode. rewrite map_map. f_equal.
  apply map_ext_in. intros nd Hnd. simpl. now rewrite fp_of_node.
Qed.

Lemma oilp_feasible_decodes_valid_l G D :
  wf (g_inst G) -> assigns_declared (g_inst G) D -> oilp_feasible G D = true ->
  let I := g_inst G in let m := decode I D in
  hosts_once I m /\ agents_declared I m /\ within_capacity I m /\
  (forall g nd, In g (i_agents I) -> In nd (i_nodes I) -> hosting_cost g (n_id nd) = 0 ->
                In (n_id nd, g_id g) m).
Proof.
  intros [Hn Ha] Hd Hf. apply oilp_feasible_iff_l in Hf as [Hcap Hpin]. simpl.
  split; [|split; [|split]].
  - unfold hosts_once, decode. rewrite map_map. simpl. apply Permutation_refl.
  - intros c a H. unfold decode in H. apply in_map_iff in H as [nd [E Hnd]].
    inversion E; subst. now apply Hd.
  - intros ag Hag. rewrite hosted_fp_decode; auto.
  - intros g nd Hg Hnd Hz. unfold decode. apply in_map_iff. exists nd. split; auto.
    now rewrite (Hpin g nd Hg Hnd Hz).
Qed.

Lemma fgdp_feasible_decodes_valid_l G D :
  wf (g_inst G) -> assigns_declared (g_inst G) D -> fgdp_feasible G D = true ->
  let I := g_inst G in let m := decode I D in
  hosts_once I m /\ agents_declared I m /\ within_capacity I m /\
  (forall g, In g (i_agents I) -> exists c, In (c, g_id g) m).
Proof.
  intros Hwf Hd Hf. apply fgdp_feasible_iff_l in Hf as [Ho Hall].
  destruct (oilp_feasible_decodes_valid_l G D Hwf Hd Ho) as [H1 [H2 [H3 _]]]. simpl in *.
  repeat split; auto.
  intros g Hg. destruct (Hall g Hg) as [nd [Hnd E]]. exists (n_id nd).
  unfold decode. apply in_map_iff. exists nd. split; auto. now rewrite E.
Qed.

(* the rows never mention the hints: a feasible point may violate a must-host hint
   (finding C23-must-host-ignored, ILP methods) *)
Lemma ilp_must_host_ignored_refuted_l :
  let G := mkG witness_mh [] in
  exists D, assigns_declared witness_mh D /\ fgdp_feasible G D = true /\ oilp_feasible G D = true /\
            ~ must_host_honoured witness_mh (decode witness_mh D).
Proof.
  exists [(0, 0); (1, 1)]. split; [|split; [|split]].
  - intros nd [<-|[<-|[]]]; vm_compute; auto.
  - reflexivity.
  - reflexivity.
  - intros H. specialize (H 0 [1] 1 (or_introl eq_refl) (or_introl eq_refl)).
    vm_compute in H. intuition congruence.
Qed.
