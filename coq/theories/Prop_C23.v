(* Prop_C23.v -- C23: distribution methods return valid mappings or declare impossibility.
   Only statements; each closed by an exact lemma from P_Dist.

   Full statement of C23 (per method): for every instance with unique names, every hint and
   every outcome of the random draws, distribute() returns a mapping that hosts every
   computation exactly once on a declared agent, honours must-host hints and (capacity-aware
   methods) keeps every agent within its capacity, or raises ImpossibleDistributionException.

   Proved here at that strength for the structural part (hosted once / declared / capacity /
   only the two allowed outcomes, termination of the backtracking loop included) of oneagent,
   gh_cgdp, heur_comhost.  The must-host clause is FALSE of these three methods (they never
   read `hints`): [must_host_ignored_refuted].  The ILP-based methods are covered by
   Prop_C24 (feasible ILP solutions decode to valid mappings). *)
From PyDcop Require Import Base M_Dist P_Dist M_Dist2 P_Dist2 M_Ilp P_Dist3 P_Dist4 P_Dist5.
From Coq Require Import Permutation.

(* oneagent: not capacity-aware; additionally no agent hosts two computations *)
Theorem valid_or_impossible_oneagent : forall I,
  match oneagent I with
  | Ok m => hosts_once I m /\ agents_declared I m /\
            (NoDup (map g_id (i_agents I)) -> NoDup (map snd m))
  | Impossible => (List.length (i_agents I) < List.length (i_nodes I))%nat
  | _ => False
  end.
Proof. exact oneagent_valid. Qed.

(* gh_cgdp, for EVERY ranking of candidate agents [cle] (in particular the float cost the code
   computes) and every sequence [rnd] of random.random() values *)
Theorem valid_or_impossible_gh_cgdp : forall cle I rnd, wf I ->
  match gh_cgdp cle I rnd with
  | Ok m => hosts_once I m /\ agents_declared I m /\ within_capacity I m
  | Impossible => True
  | _ => False      (* no other exception, and the while loop terminates *)
  end.
Proof. exact gh_cgdp_valid. Qed.

Theorem valid_or_impossible_heur_comhost : forall cle I rnd, wf I -> caps_nonneg I ->
  match heur_comhost cle I rnd with
  | Ok m => hosts_once I m /\ agents_declared I m /\ within_capacity I m
  | Impossible => True
  | _ => False
  end.
Proof. exact heur_comhost_valid. Qed.

(* the must-host clause does not hold for these methods (known finding C23-must-host-ignored) *)
Theorem must_host_ignored_refuted :
  wf witness_mh /\
  (exists m, oneagent witness_mh = Ok m /\ ~ must_host_honoured witness_mh m) /\
  (exists cle rnd m, gh_cgdp cle witness_mh rnd = Ok m /\ ~ must_host_honoured witness_mh m) /\
  (exists cle rnd m, heur_comhost cle witness_mh rnd = Ok m /\ ~ must_host_honoured witness_mh m).
Proof. exact must_host_ignored_refuted_l. Qed.

(* non-vacuity: a tight instance where gh_cgdp must pin, place and respect capacities *)
Example c23_nonvacuous :
  let I := mkInst [mkNode 0 0 3 [[0;1]]; mkNode 1 0 2 [[0;1]]; mkNode 2 0 2 []]
                  [mkAg 0 5 1 [] 1 []; mkAg 1 4 2 [(2,0)] 1 []] [] 1 [] [] in
  wf I /\ gh_cgdp cle_any I [5;3;9;1;2;3;4;5;6;7] = Ok [(0, 0); (1, 0); (2, 1)] /\
  oneagent I = Impossible.
Proof. vm_compute. repeat split; repeat constructor; simpl; intuition lia. Qed.

(* adhoc (M_Dist.adhoc: all three loops, retry, hints; tied to the code by the correspondence
   run).  With a host_with hint of the SECP shape the returned mapping can exceed a capacity
   (known finding C23-adhoc-secp-hostwith); [valid_or_impossible_adhoc] below is the full
   statement under the exact guard [secp_free] that excludes that shape. *)
Theorem adhoc_secp_refuted :
  wf witness_secp /\
  exists m, adhoc witness_secp [[0; 100]] [0%nat] = Ok m /\ hosts_once witness_secp m /\
            ~ within_capacity witness_secp m.
Proof. exact adhoc_secp_refuted_l. Qed.

(* ------------------------------------------------------------------ deepening (P_Dist2 / P_Dist3) *)
(* adhoc, full statement.  Guards (boolean predicates on the input, M_Dist2):
     hints_wfb I  the hints are well-formed: must_host keys are distinct declared agents, every
                  must-hosted computation exists and is listed once, host_with names computations;
     secp_free I  no non-must-hosted factor has a host_with group that is exactly one variable
                  (the input shape of finding C23-adhoc-secp-hostwith, cf. adhoc_secp_refuted);
   [shuffles_ok]: every draw of shuffle(nodes) is a permutation of the nodes; [choices] (the
   draws of choice()) is arbitrary.  Any other result (another exception, Distribution's
   ValueError = Crash 3, fuel) is excluded; the retry terminates after attempt 3 by construction. *)
Theorem valid_or_impossible_adhoc : forall I shuf choices,
  wf I -> hints_wfb I = true -> secp_free I = true -> shuffles_ok I shuf ->
  match adhoc I shuf choices with
  | Ok m => hosts_once I m /\ agents_declared I m /\ must_host_honoured I m /\ within_capacity I m
  | Impossible => True
  | _ => False
  end.
Proof. exact adhoc_valid. Qed.

(* must-host alone needs neither the secp guard nor unique names nor well-behaved shuffles:
   EVERY mapping adhoc returns honours the (well-formed) must-host hints *)
Theorem must_host_honoured_adhoc : forall I shuf choices m,
  hints_wfb I = true -> adhoc I shuf choices = Ok m -> must_host_honoured I m.
Proof. exact adhoc_must_host. Qed.

(* gh_cgdp ignores `hints` (must_host_ignored_refuted) but pins on zero hosting cost: every
   computation some agent hosts for free is on the FIRST such agent; so must-host hints that are
   also expressed as zero hosting costs ([must_by_cost]) are honoured *)
Theorem gh_cgdp_pins_zero_cost : forall cle I rnd m, gh_cgdp cle I rnd = Ok m ->
  forall nd ag, In nd (i_nodes I) ->
    find (fun a => hosting_cost a (n_id nd) =? 0) (i_agents I) = Some ag -> In (n_id nd, g_id ag) m.
Proof. exact gh_cgdp_pins. Qed.

Theorem must_host_by_cost_gh_cgdp : forall cle I rnd m,
  must_by_cost I -> gh_cgdp cle I rnd = Ok m -> must_host_honoured I m.
Proof. exact gh_cgdp_must_host_by_cost. Qed.

(* ILP methods (oilp_cgdp, ilp_fgdp), solver = oracle: ANY integral point satisfying the rows
   (M_Ilp.*_feasible, tied to the real PuLP problem by C24's correspondence run) whose
   "hosted once" rows range over the declared agents decodes to a valid mapping; zero hosting
   costs pin; ilp_fgdp additionally gives every agent a computation.  must-host: refuted. *)
Theorem ilp_feasible_decodes_valid_oilp : forall G D,
  wf (g_inst G) -> assigns_declared (g_inst G) D -> oilp_feasible G D = true ->
  let I := g_inst G in let m := decode I D in
  hosts_once I m /\ agents_declared I m /\ within_capacity I m /\
  (forall g nd, In g (i_agents I) -> In nd (i_nodes I) -> hosting_cost g (n_id nd) = 0 ->
                In (n_id nd, g_id g) m).
Proof. exact oilp_feasible_decodes_valid_l. Qed.

Theorem ilp_feasible_decodes_valid_fgdp : forall G D,
  wf (g_inst G) -> assigns_declared (g_inst G) D -> fgdp_feasible G D = true ->
  let I := g_inst G in let m := decode I D in
  hosts_once I m /\ agents_declared I m /\ within_capacity I m /\
  (forall g, In g (i_agents I) -> exists c, In (c, g_id g) m).
Proof. exact fgdp_feasible_decodes_valid_l. Qed.

Theorem ilp_must_host_ignored_refuted :
  let G := mkG witness_mh [] in
  exists D, assigns_declared witness_mh D /\ fgdp_feasible G D = true /\ oilp_feasible G D = true /\
            ~ must_host_honoured witness_mh (decode witness_mh D).
Proof. exact ilp_must_host_ignored_refuted_l. Qed.

(* the executable validity test that the correspondence run (M_Dist2.guard_ok) applies to the
   mapping OBSERVED from the implementation, whenever the guards above hold, is sound *)
Theorem valid_b_sound : forall I m, valid_b I m = true ->
  hosts_once I m /\ agents_declared I m /\ must_host_honoured I m /\ within_capacity I m.
Proof. exact valid_b_sound_l. Qed.

(* the backtracking of gh_cgdp / heur_comhost never succeeds (candidate lists of later levels
   are not recomputed after a backtrack): both methods compute exactly the pure greedy
   placement P_Dist5.greedy_nobt -- first level without a candidate = Impossible.  Allowed by
   C23 (Impossible is a legal answer); the example shows an instance with a valid mapping,
   found by a real backtracking search, on which both answer Impossible. *)
Theorem heur_comhost_is_pure_greedy : forall cle I rnd, wf I -> caps_nonneg I ->
  heur_comhost cle I rnd =
  let '(todo, rnd') := sorted_levels (i_nodes I) rnd in greedy_nobt cle I [] (map fst todo) [] rnd'.
Proof. exact heur_comhost_pure_greedy_l. Qed.

Theorem gh_cgdp_is_pure_greedy : forall cle I rnd, wf I ->
  gh_cgdp cle I rnd =
  let fixed := fixed_mapping I in
  if existsb (fun a => g_cap a <? fixed_load fixed (g_id a)) (i_agents I) then Impossible
  else
    let free := filter (fun nd => negb (mem_key Z.eqb (n_id nd) fixed)) (i_nodes I) in
    let '(todo, rnd') := sorted_levels free rnd in
    greedy_nobt cle I fixed (map fst todo) [] rnd'.
Proof. exact gh_cgdp_pure_greedy_l. Qed.

Example c23_greedy_gives_up :
  let I := mkInst [mkNode 0 0 3 []; mkNode 1 0 2 []; mkNode 2 0 2 []]
                  [mkAg 0 4 1 [] 1 []; mkAg 1 3 2 [] 1 []] [] 0 [] [] in
  let cle := fun p q : Z * Z => snd p <=? snd q in
  heur_comhost cle I [] = Impossible /\ gh_cgdp cle I [] = Impossible /\
  valid_b I [(0, 1); (1, 0); (2, 0)] = true.
Proof. vm_compute. auto. Qed.

(* non-vacuity for adhoc: must-host + (non-SECP) host_with hints, tight capacities (strict `>`
   test), first attempt fails in the scoring loop, the retry with the second shuffle succeeds;
   without the second shuffle all four attempts fail *)
Example c23_adhoc_nonvacuous :
  let I := mkInst [mkNode 0 0 2 [[100; 0]]; mkNode 1 0 2 [[100; 1]]; mkNode 2 0 1 [];
                   mkNode 100 1 3 [[100; 0]; [100; 1]]]
                  [mkAg 0 5 1 [] 1 []; mkAg 1 5 1 [] 1 []] [] 0
                  [(1, [1])] [(2, [0]); (0, [2])] in
  wf I /\ hints_wfb I = true /\ secp_free I = true /\
  shuffles_ok I [[0; 1; 2; 100]; [100; 0; 2; 1]] /\
  adhoc I [[0; 1; 2; 100]; [100; 0; 2; 1]] [] = Ok [(1, 1); (0, 1); (100, 0); (2, 0)] /\
  adhoc_try 1 I [[0; 1; 2; 100]; [100; 0; 2; 1]] [] = Impossible /\
  adhoc I [[0; 1; 2; 100]] [] = Impossible /\
  hints_wfb witness_secp = true /\ secp_free witness_secp = false.
Proof.
  cbv zeta. split; [split; simpl; repeat constructor; simpl; intuition lia|].
  split; [reflexivity|]. split; [reflexivity|]. split.
  - repeat constructor. simpl.
    apply (perm_trans (l' := [0; 100; 2; 1])); [apply perm_swap|].
    apply perm_skip. apply (perm_trans (l' := [2; 100; 1])); [apply perm_swap|].
    apply (perm_trans (l' := [2; 1; 100])); [apply perm_skip; apply perm_swap|].
    apply (perm_trans (l' := [1; 2; 100])); [apply perm_swap|]. apply Permutation_refl.
  - vm_compute. repeat split; reflexivity.
Qed.
