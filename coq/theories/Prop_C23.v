(* Prop_C23.v -- C23: distribution methods return valid mappings or declare impossibility.
   Only statements; each closed by an exact lemma from P_Dist.

   Full statement of C23 (per method): for every instance with unique names, every hint and
   every outcome of the random draws, distribute() returns a mapping that hosts every
   computation exactly once on a declared agent, honours must-host hints and (capacity-aware
   methods) keeps every agent within its capacity, or raises ImpossibleDistributionException.

   Proved here at that strength for the structural part (hosted once / declared / capacity /
   only the two allowed outcomes, termination of the backtracking loop included) of oneagent,
   gh_cgdp, heur_comhost.  The must-host clause is FALSE of these three methods (they never
   read `hints`): [must_host_ignored_refuted].  The ILP-based methods are covered by
   Prop_C24 (feasible ILP solutions decode to valid mappings). *)
From PyDcop Require Import Base M_Dist P_Dist.

(* oneagent: not capacity-aware; additionally no agent hosts two computations *)
Theorem valid_or_impossible_oneagent : forall I,
  match oneagent I with
  | Ok m => hosts_once I m /\ agents_declared I m /\
            (NoDup (map g_id (i_agents I)) -> NoDup (map snd m))
  | Impossible => (List.length (i_agents I) < List.length (i_nodes I))%nat
  | _ => False
  end.
Proof. exact oneagent_valid. Qed.

(* gh_cgdp, for EVERY ranking of candidate agents [cle] (in particular the float cost the code
   computes) and every sequence [rnd] of random.random() values *)
Theorem valid_or_impossible_gh_cgdp : forall cle I rnd, wf I ->
  match gh_cgdp cle I rnd with
  | Ok m => hosts_once I m /\ agents_declared I m /\ within_capacity I m
  | Impossible => True
  | _ => False      (* no other exception, and the while loop terminates *)
  end.
Proof. exact gh_cgdp_valid. Qed.

Theorem valid_or_impossible_heur_comhost : forall cle I rnd, wf I -> caps_nonneg I ->
  match heur_comhost cle I rnd with
  | Ok m => hosts_once I m /\ agents_declared I m /\ within_capacity I m
  | Impossible => True
  | _ => False
  end.
Proof. exact heur_comhost_valid. Qed.

(* the must-host clause does not hold for these methods (known finding C23-must-host-ignored) *)
Theorem must_host_ignored_refuted :
  wf witness_mh /\
  (exists m, oneagent witness_mh = Ok m /\ ~ must_host_honoured witness_mh m) /\
  (exists cle rnd m, gh_cgdp cle witness_mh rnd = Ok m /\ ~ must_host_honoured witness_mh m) /\
  (exists cle rnd m, heur_comhost cle witness_mh rnd = Ok m /\ ~ must_host_honoured witness_mh m).
Proof. exact must_host_ignored_refuted_l. Qed.

(* non-vacuity: a tight instance where gh_cgdp must pin, place and respect capacities *)
Example c23_nonvacuous :
  let I := mkInst [mkNode 0 0 3 [[0;1]]; mkNode 1 0 2 [[0;1]]; mkNode 2 0 2 []]
                  [mkAg 0 5 1 [] 1 []; mkAg 1 4 2 [(2,0)] 1 []] [] 1 [] [] in
  wf I /\ gh_cgdp cle_any I [5;3;9;1;2;3;4;5;6;7] = Ok [(0, 0); (1, 0); (2, 1)] /\
  oneagent I = Impossible.
Proof. vm_compute. repeat split; repeat constructor; simpl; intuition lia. Qed.

(* adhoc: modelled (M_Dist.adhoc, all three loops, retry, hints) and tied to the code by the
   correspondence run; its validity statement is NOT proved in Coq (partial).  What is proved:
   with a host_with hint of the SECP shape the returned mapping can exceed a capacity. *)
Theorem adhoc_secp_refuted :
  wf witness_secp /\
  exists m, adhoc witness_secp [[0; 100]] [0%nat] = Ok m /\ hosts_once witness_secp m /\
            ~ within_capacity witness_secp m.
Proof. exact adhoc_secp_refuted_l. Qed.
