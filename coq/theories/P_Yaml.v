(* P_Yaml.v -- proofs about M_Yaml (C14) *)
From PyDcop Require Import Base P_Base M_AgentDef M_Yaml.
From Coq Require Import Lia.

Lemma multi_file_concat_l files :
  load_files files = of_tree (tree_of_sections (List.concat files)).
Proof. reflexivity. Qed.

Local Open Scope string_scope.

(* ---------- strings ---------- *)
Fixpoint all_chars (p : ascii -> bool) (s : string) : bool :=
  match s with EmptyString => true | String c r => p c && all_chars p r end.
Definition clean_char (c : ascii) : bool := negb (is_ws c) && negb (is_bar c).
Definition clean_token (s : string) : bool := nonempty s && all_chars clean_char s.

Lemma sapp_assoc (a b c : string) : (a ++ b) ++ c = a ++ (b ++ c).
Proof. induction a; simpl; congruence. Qed.
Lemma sapp_nil_r (a : string) : a ++ "" = a.
Proof. induction a; simpl; congruence. Qed.

Lemma all_chars_app p a b : all_chars p (a ++ b) = all_chars p a && all_chars p b.
Proof. induction a; simpl; auto. rewrite IHa. now rewrite andb_assoc. Qed.

Lemma all_chars_impl (p q : ascii -> bool) s :
  (forall c, p c = true -> q c = true) -> all_chars p s = true -> all_chars q s = true.
Proof.
  intros H; induction s; simpl; auto. intros E. apply andb_true_iff in E as [E1 E2].
  rewrite (H _ E1). simpl. auto.
Qed.

Lemma split_on_app p a c b :
  all_chars (fun x => negb (p x)) a = true -> p c = true ->
  split_on p (a ++ String c b) = a :: split_on p b.
Proof.
  intros Ha Hc. induction a as [|x a IH]; simpl.
  - now rewrite Hc.
  - simpl in Ha. apply andb_true_iff in Ha as [H1 H2]. apply negb_true_iff in H1.
    rewrite H1. rewrite (IH H2). reflexivity.
Qed.

Lemma split_on_none p a :
  all_chars (fun x => negb (p x)) a = true -> split_on p a = [a].
Proof.
  induction a as [|x a IH]; simpl; auto. intros Ha.
  apply andb_true_iff in Ha as [H1 H2]. apply negb_true_iff in H1. rewrite H1, (IH H2). reflexivity.
Qed.

Lemma clean_no_ws s : clean_token s = true -> all_chars (fun x => negb (is_ws x)) s = true.
Proof.
  unfold clean_token. intros H. apply andb_true_iff in H as [_ H].
  eapply all_chars_impl; [|exact H]. unfold clean_char. intros c E.
  now apply andb_true_iff in E as [E _].
Qed.
Lemma clean_no_bar s : clean_token s = true -> all_chars (fun x => negb (is_bar x)) s = true.
Proof.
  unfold clean_token. intros H. apply andb_true_iff in H as [_ H].
  eapply all_chars_impl; [|exact H]. unfold clean_char. intros c E.
  now apply andb_true_iff in E as [_ E].
Qed.
Lemma clean_nonempty s : clean_token s = true -> nonempty s = true.
Proof. unfold clean_token. intros H. now apply andb_true_iff in H as [H _]. Qed.

Lemma split_ws_cons tok rest :
  clean_token tok = true -> split_ws (tok ++ String " " rest) = tok :: split_ws rest.
Proof.
  intros H. unfold split_ws. rewrite split_on_app; auto using clean_no_ws.
  simpl. now rewrite (clean_nonempty _ H).
Qed.
Lemma split_ws_space rest : split_ws (String " " rest) = split_ws rest.
Proof. reflexivity. Qed.

Definition clean_list (toks : list string) : Prop :=
  toks <> [] /\ Forall (fun s => clean_token s = true) toks.

Lemma join_cons2 sep x y r : join sep (x :: y :: r) = x ++ sep ++ join sep (y :: r).
Proof. reflexivity. Qed.

(* "a b c " -> [a; b; c] *)
Lemma split_ws_join_trail toks :
  clean_list toks -> split_ws (join sp toks ++ " ") = toks.
Proof.
  intros [Hne Hc]. induction toks as [|x r IH]; [congruence|].
  inversion Hc as [|? ? Hx Hr]; subst. destruct r as [|y r].
  - simpl join. rewrite split_ws_cons; auto.
  - rewrite join_cons2. unfold sp at 1. rewrite !sapp_assoc. simpl ("" ++ _).
    change (" " ++ join sp (y :: r) ++ " ") with (String " " (join sp (y :: r) ++ " ")).
    rewrite split_ws_cons; auto. f_equal. apply IH; auto. congruence.
Qed.

Lemma split_ws_join toks :
  clean_list toks -> split_ws (join sp toks) = toks.
Proof.
  intros [Hne Hc]. induction toks as [|x r IH]; [congruence|].
  inversion Hc as [|? ? Hx Hr]; subst. destruct r as [|y r].
  - simpl join. unfold split_ws. rewrite split_on_none; auto using clean_no_ws.
    simpl. now rewrite (clean_nonempty _ Hx).
  - rewrite join_cons2. unfold sp at 1.
    change (x ++ " " ++ join sp (y :: r)) with (x ++ String " " (join sp (y :: r))).
    rewrite split_ws_cons; auto. f_equal. apply IH; auto. congruence.
Qed.

Lemma join_no_bar toks :
  Forall (fun s => clean_token s = true) toks ->
  all_chars (fun x => negb (is_bar x)) (join sp toks) = true.
Proof.
  induction toks as [|x r IH]; intros Hc; [reflexivity|].
  inversion Hc as [|? ? Hx Hr]; subst. destruct r as [|y r].
  - simpl. now apply clean_no_bar.
  - rewrite join_cons2, !all_chars_app. rewrite (clean_no_bar _ Hx), (IH Hr). reflexivity.
Qed.

(* the text of one cost value: "a b | c d | ..." parsed back into token lists *)
Definition parse_assignments (s : string) : list (list string) :=
  map split_ws (split_on is_bar s).

Definition lead (b : bool) (s : string) : string := if b then String " " s else s.

Lemma parse_join_gen tokss : tokss <> [] -> Forall clean_list tokss ->
  forall b, parse_assignments (lead b (join bar_sep (map (join sp) tokss))) = tokss.
Proof.
  intros Hne Hc. induction tokss as [|t r IH]; [congruence|].
  inversion Hc as [|? ? Ht Hr]; subst. intros b. destruct r as [|t2 r].
  - simpl map. simpl join. unfold parse_assignments.
    rewrite split_on_none.
    + simpl. f_equal. destruct b; simpl lead; [rewrite split_ws_space|]; now apply split_ws_join.
    + destruct b; simpl; apply join_no_bar; apply Ht.
  - change (map (join sp) (t :: t2 :: r)) with (join sp t :: join sp t2 :: map (join sp) r).
    rewrite join_cons2.
    change (join sp t2 :: map (join sp) r) with (map (join sp) (t2 :: r)).
    specialize (IH ltac:(congruence) Hr true).
    remember (join bar_sep (map (join sp) (t2 :: r))) as J eqn:EJ. clear EJ.
    assert (E : lead b (join sp t ++ bar_sep ++ J)
                = (lead b (join sp t ++ " ")) ++ String "|" (lead true J)).
    { unfold bar_sep. destruct b; simpl; rewrite ?sapp_assoc; reflexivity. }
    rewrite E. unfold parse_assignments. rewrite split_on_app; [| |reflexivity].
    + simpl map. f_equal.
      * destruct b; simpl lead; [rewrite split_ws_space|]; now apply split_ws_join_trail.
      * exact IH.
    + destruct b; simpl lead; simpl all_chars; rewrite all_chars_app, (join_no_bar t); auto; apply Ht.
Qed.

Lemma parse_join tokss : tokss <> [] -> Forall clean_list tokss ->
  parse_assignments (join bar_sep (map (join sp) tokss)) = tokss.
Proof. intros H1 H2. exact (parse_join_gen tokss H1 H2 false). Qed.

Local Close Scope string_scope.

(* ---------- monadic folds ---------- *)
Lemma mapM_ok_exists {A B} (f : A -> result B) l :
  (forall x, In x l -> exists y, f x = Ok y) -> exists ys, mapM f l = Ok ys.
Proof.
  induction l as [|x r IH]; intros H; simpl; [eauto|].
  destruct (H x (or_introl eq_refl)) as [y Ey]. rewrite Ey. simpl.
  destruct IH as [ys Eys]; [intros; apply H; now right|]. rewrite Eys. simpl. eauto.
Qed.

Lemma mapM_ok_forall2 {A B} (f : A -> result B) l ys :
  mapM f l = Ok ys -> Forall2 (fun x y => f x = Ok y) l ys.
Proof.
  revert ys; induction l as [|x r IH]; simpl; intros ys H.
  - inversion H; constructor.
  - destruct (f x) eqn:E; simpl in H; [|discriminate].
    destruct (mapM f r) eqn:E2; simpl in H; [|discriminate].
    inversion H; subst. constructor; auto.
Qed.

Lemma foldM_map {A B S} (f : S -> B -> result S) (g : A -> B) l s :
  foldM (fun s x => f s (g x)) l s = foldM f (map g l) s.
Proof.
  revert s; induction l as [|x r IH]; simpl; intros s; auto.
  destruct (f s (g x)); simpl; auto.
Qed.

Lemma foldM_app {A S} (f : S -> A -> result S) l1 l2 s :
  foldM f (l1 ++ l2) s = bind (foldM f l1 s) (foldM f l2).
Proof.
  revert s; induction l1 as [|x r IH]; simpl; intros s; auto.
  destruct (f s x); simpl; auto.
Qed.

Lemma foldM_flat_map {A B S} (f : S -> B -> result S) (g : A -> list B) l s :
  foldM (fun s x => foldM f (g x) s) l s = foldM f (flat_map g l) s.
Proof.
  revert s; induction l as [|x r IH]; simpl; intros s; auto.
  rewrite foldM_app. destruct (foldM f (g x) s); simpl; auto.
Qed.

Lemma foldM_ext {A S} (f g : S -> A -> result S) l s :
  (forall s x, In x l -> f s x = g s x) -> foldM f l s = foldM g l s.
Proof.
  revert s; induction l as [|x r IH]; simpl; intros s H; auto.
  rewrite H by auto. destruct (g s x); simpl; auto.
Qed.

(* a monadic fold whose steps all succeed is a pure fold *)
Lemma foldM_pure {A B S} (f : S -> A -> result S) (h : S -> B -> S) l l' s :
  Forall2 (fun x y => forall s, f s x = Ok (h s y)) l l' ->
  foldM f l s = Ok (fold_left h l' s).
Proof.
  intros H; revert s; induction H; simpl; intros s; auto.
  rewrite H. simpl. apply IHForall2.
Qed.

(* ---------- grouping ---------- *)
Definition gflat {A} (d : list (Z * list A)) : list (Z * A) :=
  flat_map (fun g => map (fun a => (fst g, a)) (snd g)) d.

Lemma dict_append_in {A} k (a : A) d p :
  In p (gflat (dict_append k a d)) <-> p = (k, a) \/ In p (gflat d).
Proof.
  induction d as [|[k0 l0] r IH]; simpl.
  - intuition.
  - destruct (Z.eqb k k0) eqn:E; simpl.
    + apply Z.eqb_eq in E; subst k0. rewrite map_app, !in_app_iff. simpl. intuition.
    + rewrite !in_app_iff, IH. intuition.
Qed.

Lemma group_in_aux {A} (ps : list (Z * A)) acc p :
  In p (gflat (fold_left (fun d p => dict_append (fst p) (snd p) d) ps acc)) <->
  In p ps \/ In p (gflat acc).
Proof.
  revert acc; induction ps as [|[k0 a0] r IH]; simpl; intros acc.
  - intuition.
  - rewrite IH, dict_append_in. simpl. intuition.
Qed.

Lemma group_in {A} (ps : list (Z * A)) p : In p (gflat (group ps)) <-> In p ps.
Proof. unfold group. rewrite group_in_aux. simpl. intuition. Qed.

Definition gmap {A B} (f : A -> B) (g : Z * list A) : Z * list B := (fst g, map f (snd g)).

Lemma dict_append_map {A B} (f : A -> B) k a d :
  dict_append k (f a) (map (gmap f) d) = map (gmap f) (dict_append k a d).
Proof.
  induction d as [|[k0 l0] r IH]; simpl; auto.
  destruct (Z.eqb k k0); simpl.
  - unfold gmap at 2; simpl. now rewrite map_app.
  - now rewrite IH.
Qed.

Lemma group_map {A B} (f : A -> B) (ps : list (Z * A)) :
  group (map (fun p => (fst p, f (snd p))) ps) = map (gmap f) (group ps).
Proof.
  unfold group. change (@nil (Z * list B)) with (map (gmap f) (@nil (Z * list A))).
  generalize (@nil (Z * list A)). induction ps as [|[k a] r IH]; simpl; intros acc; auto.
  rewrite dict_append_map. apply IH.
Qed.

Lemma group_nonempty {A} (ps : list (Z * A)) k l : In (k, l) (group ps) -> l <> [].
Proof.
  unfold group.
  assert (G : forall acc, (forall k l, In (k, l) acc -> l <> []) ->
            forall k l, In (k, l) (fold_left (fun d p => dict_append (fst p) (snd p) d) ps acc) -> l <> []).
  { induction ps as [|[k0 a0] r IH]; simpl; intros acc Hacc; auto.
    apply IH. clear IH. induction acc as [|[k1 l1] acc IHa]; simpl.
    - intros k' l' [E|[]]. inversion E; subst. discriminate.
    - destruct (Z.eqb k0 k1); simpl; intros k' l' [E|H].
      + inversion E; subst. destruct l1; discriminate.
      + eapply Hacc; right; eauto.
      + inversion E; subst. eapply Hacc; left; eauto.
      + eapply IHa; eauto. intros; eapply Hacc; right; eauto. }
  intros H; eapply G; eauto. intros ? ? [].
Qed.

(* ---------- domains: index by value = index by str() ---------- *)
Lemma value_eqb_eq a b : value_eqb a b = true <-> a = b.
Proof.
  destruct a, b; simpl; split; intros H; try discriminate.
  - apply Z.eqb_eq in H; now subst.
  - inversion H; apply Z.eqb_refl.
  - apply String.eqb_eq in H; now subst.
  - inversion H; apply String.eqb_refl.
Qed.

Lemma index_of_lt {A} (p : A -> bool) l i : index_of p l = Some i -> (i < List.length l)%nat.
Proof.
  revert i; induction l as [|x r IH]; simpl; intros i H; [discriminate|].
  destruct (p x); [inversion H; lia|].
  destruct (index_of p r); simpl in H; [|discriminate]. inversion H. specialize (IH _ eq_refl). lia.
Qed.

Lemma index_of_str vals x :
  NoDup (map str_value vals) -> In x vals ->
  index_of (fun v => String.eqb (str_value v) (str_value x)) vals = index_of (value_eqb x) vals
  /\ exists i, index_of (value_eqb x) vals = Some i.
Proof.
  induction vals as [|v r IH]; simpl; intros Hnd Hin; [contradiction|].
  inversion Hnd as [|? ? Hnotin Hnd']; subst.
  destruct (value_eqb x v) eqn:E.
  - apply value_eqb_eq in E; subst. rewrite String.eqb_refl. eauto.
  - destruct Hin as [->|Hin]; [rewrite (proj2 (value_eqb_eq x x) eq_refl) in E; discriminate|].
    destruct (String.eqb (str_value v) (str_value x)) eqn:E2.
    + apply String.eqb_eq in E2. exfalso. apply Hnotin. rewrite E2. now apply in_map.
    + destruct (IH Hnd' Hin) as [E3 [i Ei]]. rewrite E3, Ei. simpl. eauto.
Qed.

Lemma index_of_nth vals i d :
  NoDup vals -> (i < List.length vals)%nat -> index_of (value_eqb (nth i vals d)) vals = Some i.
Proof.
  revert i; induction vals as [|v r IH]; simpl; intros i Hnd Hi; [lia|].
  inversion Hnd as [|? ? Hnotin Hnd']; subst. destruct i.
  - now rewrite (proj2 (value_eqb_eq v v) eq_refl).
  - destruct (value_eqb (nth i r d) v) eqn:E.
    + apply value_eqb_eq in E. exfalso. apply Hnotin. rewrite <- E. apply nth_In. lia.
    + rewrite IH; auto. lia.
Qed.

(* ---------- enumeration of assignments and of matrix positions ---------- *)
Definition in_doms (a : list value) (ds : list (list value)) : Prop := Forall2 (fun x d => In x d) a ds.

Lemma gen_assign_rev_spec rd a : In a (gen_assign_rev rd) <-> in_doms a (List.rev rd).
Proof.
  revert a; induction rd as [|d r IH]; simpl; intros a.
  - split; [intros [<-|[]]; constructor | intros H; inversion H; auto].
  - rewrite in_flat_map. split.
    + intros [x [Hx Hin]]. apply in_map_iff in Hin as [a' [<- Ha']].
      apply Forall2_app; [now apply IH | constructor; auto].
    + intros H. apply Forall2_app_inv_r in H as [a1 [a2 [H1 [H2 ->]]]].
      inversion H2 as [|x ? ? ? Hx H3]; subst. inversion H3; subst.
      exists x; split; auto. apply in_map_iff. exists a1; split; auto. now apply IH.
Qed.

Lemma gen_assign_spec dims a : In a (gen_assign dims) <-> in_doms a (dim_values dims).
Proof. unfold gen_assign. rewrite gen_assign_rev_spec, rev_involutive. reflexivity. Qed.

Lemma in_product_cons {A} (x : A) c l ls :
  In (x :: c) (product (l :: ls)) <-> In x l /\ In c (product ls).
Proof.
  simpl. rewrite in_flat_map. split.
  - intros [y [Hy H]]. apply in_map_iff in H as [c' [E Hc]]. inversion E; subst; auto.
  - intros [Hx Hc]. exists x; split; auto. apply in_map_iff; eauto.
Qed.

Lemma in_product_inv {A} (t : list A) l ls :
  In t (product (l :: ls)) -> exists x c, t = x :: c.
Proof.
  simpl. rewrite in_flat_map. intros [y [Hy H]]. apply in_map_iff in H as [c' [E Hc]]. eauto.
Qed.

(* well-formed dimension: the str() of the domain values are pairwise distinct *)
Definition dim_ok (v : variable) : Prop := NoDup (map str_value (d_values (v_dom v))).

Lemma NoDup_of_map {A B} (f : A -> B) l : NoDup (map f l) -> NoDup l.
Proof.
  induction l as [|x r IH]; simpl; intros H; constructor; inversion H; subst; auto.
  intros Hin. apply H2. now apply in_map.
Qed.

Lemma indices_spec_rec dims a :
  Forall dim_ok dims -> in_doms a (dim_values dims) ->
  exists t, indices dims a = Some t /\ token_indices_rec dims (map str_value a) = Ok t
            /\ In t (all_tuples (shape_of dims)).
Proof.
  intros Hok; revert a; induction dims as [|v dr IH]; intros a H; inversion H; subst.
  - exists []; simpl; auto.
  - inversion Hok as [|? ? Hv Hr]; subst.
    destruct (IH Hr _ H4) as [t [E1 [E2 E3]]].
    destruct (index_of_str _ _ Hv H3) as [Es [i Ei]].
    exists (i :: t). simpl. unfold dom_index, to_domain_value. rewrite Es, Ei, E1. simpl.
    rewrite E2. simpl. split; auto. split; auto.
    unfold all_tuples. simpl map. apply in_product_cons. split; auto.
    apply in_seq. apply index_of_lt in Ei. lia.
Qed.

Lemma forall2_length {A B} (R : A -> B -> Prop) l1 l2 :
  Forall2 R l1 l2 -> List.length l1 = List.length l2.
Proof. induction 1; simpl; congruence. Qed.

Lemma indices_spec dims a :
  Forall dim_ok dims -> in_doms a (dim_values dims) ->
  exists t, indices dims a = Some t /\ token_indices dims (map str_value a) = Ok t
            /\ In t (all_tuples (shape_of dims)).
Proof.
  intros Hok Ha. destruct (indices_spec_rec dims a Hok Ha) as [t [E1 [E2 E3]]].
  exists t. split; auto. split; auto. unfold token_indices.
  apply forall2_length in Ha. unfold dim_values in Ha. rewrite map_length in Ha.
  rewrite map_length, <- Ha, Nat.eqb_refl. exact E2.
Qed.

Lemma indices_cover dims t :
  Forall dim_ok dims -> In t (all_tuples (shape_of dims)) ->
  exists a, in_doms a (dim_values dims) /\ indices dims a = Some t.
Proof.
  intros Hok; revert t; induction dims as [|v dr IH]; intros t H.
  - destruct H as [<-|[]]. exists []; split; [constructor|reflexivity].
  - inversion Hok as [|? ? Hv Hr]; subst. unfold all_tuples in H; simpl map in H.
    destruct (in_product_inv _ _ _ H) as [i [c ->]]. apply in_product_cons in H as [Hi Hc].
    destruct (IH Hr _ Hc) as [a [Ha Ea]]. apply in_seq in Hi.
    exists (nth i (d_values (v_dom v)) (VInt 0) :: a). split.
    + constructor; auto. apply nth_In. lia.
    + simpl. unfold dom_index. rewrite index_of_nth; [|eapply NoDup_of_map; exact Hv|lia].
      now rewrite Ea.
Qed.

(* ---------- consistent writes into the matrix ---------- *)
Lemma tuple_eqb_eq a b : tuple_eqb a b = true <-> a = b.
Proof. apply list_eqb_spec. intros; apply Nat.eqb_eq. Qed.

Lemma map_fst_dict_set {V} (t : tuple) (v : V) m :
  map fst (dict_set tuple_eqb t v m) = map fst m ++ (if mem_key tuple_eqb t m then [] else [t]).
Proof.
  unfold mem_key. induction m as [|[k x] r IH]; simpl; auto.
  destruct (tuple_eqb t k) eqn:E; simpl.
  - now rewrite app_nil_r.
  - now rewrite IH.
Qed.

Lemma mem_key_in {V} t (m : list (tuple * V)) : In t (map fst m) -> mem_key tuple_eqb t m = true.
Proof.
  unfold mem_key. induction m as [|[k x] r IH]; simpl; [contradiction|].
  intros [->|H].
  - now rewrite (proj2 (tuple_eqb_eq t t) eq_refl).
  - destruct (tuple_eqb t k); auto.
Qed.

Section Writes.
  Variable table : list (tuple * Z).

  Definition wstep (m : list (tuple * option Z)) (w : tuple * Z) := mat_set (fst w) (snd w) m.

  Lemma writes_consistent ws : forall m0,
    (forall t k, In (t, k) ws -> In t (map fst m0) /\ lookup tuple_eqb t table = Some k) ->
    let m := fold_left wstep ws m0 in
    map fst m = map fst m0 /\
    forall t, lookup tuple_eqb t m =
              if existsb (fun w => tuple_eqb (fst w) t) ws
              then option_map Some (lookup tuple_eqb t table) else lookup tuple_eqb t m0.
  Proof.
    induction ws as [|[t0 k0] r IH]; intros m0 H; simpl.
    - split; auto.
    - destruct (H t0 k0 (or_introl eq_refl)) as [Hin Htab].
      assert (Hk : map fst (wstep m0 (t0, k0)) = map fst m0).
      { unfold wstep, mat_set; simpl. rewrite map_fst_dict_set, (mem_key_in _ _ Hin). apply app_nil_r. }
      destruct (IH (wstep m0 (t0, k0))) as [IH1 IH2].
      { intros t k Hw. rewrite Hk. apply H. now right. }
      split; [congruence|]. intros t. rewrite IH2.
      destruct (existsb (fun w => tuple_eqb (fst w) t) r) eqn:Er; [now rewrite orb_true_r|].
      rewrite orb_false_r. unfold wstep, mat_set; simpl.
      destruct (tuple_eqb t0 t) eqn:E.
      + apply tuple_eqb_eq in E; subst t0.
        rewrite (lookup_dict_set_same tuple_eqb tuple_eqb_eq). now rewrite Htab.
      + apply (lookup_dict_set_other tuple_eqb tuple_eqb_eq). intros ->.
        rewrite (proj2 (tuple_eqb_eq t0 t0) eq_refl) in E. discriminate.
  Qed.
End Writes.


(* ---------- extensional constraints: dump then load gives the table back ---------- *)
Definition values_clean (v : variable) : Prop :=
  Forall (fun x => clean_token (str_value x) = true) (d_values (v_dom v)).

(* what "expressible" means for a table constraint: at least one dimension, on every
   dimension the str() of the domain values are pairwise distinct, non-empty and without
   blank or '|', and the table has an entry for every position *)
Definition ext_wf (dims : list variable) (table : list (tuple * Z)) : Prop :=
  dims <> [] /\ Forall dim_ok dims /\ Forall values_clean dims /\
  (forall t, In t (all_tuples (shape_of dims)) -> exists c, lookup tuple_eqb t table = Some c).

Definition enc (a : list value) : string := join sp (map str_value a).

Section Ext.
  Variables (dims : list variable) (table : list (tuple * Z)).
  Hypothesis Hwf : ext_wf dims table.

  Definition cost (a : list value) : Z :=
    match rel_value dims table a with Ok c => c | Err _ => 0 end.
  Definition idx (a : list value) : tuple :=
    match indices dims a with Some t => t | None => [] end.

  Lemma assignment_ok a : In a (gen_assign dims) ->
    exists t, indices dims a = Some t /\ token_indices dims (map str_value a) = Ok t /\
              In t (all_tuples (shape_of dims)) /\ lookup tuple_eqb t table = Some (cost a) /\
              rel_value dims table a = Ok (cost a) /\ clean_list (map str_value a).
  Proof.
    destruct Hwf as [Hne [Hok [Hcl Hfull]]]. intros Ha. apply gen_assign_spec in Ha.
    destruct (indices_spec dims a Hok Ha) as [t [E1 [E2 E3]]].
    destruct (Hfull t E3) as [c Ec].
    assert (Er : rel_value dims table a = Ok c) by (unfold rel_value; rewrite E1; simpl; now rewrite Ec).
    exists t. unfold cost. rewrite Er. repeat split; auto.
    - destruct a; [|discriminate]. inversion Ha as [|]; subst.
      unfold dim_values in H. destruct dims; [congruence|discriminate].
    - clear - Ha Hcl. unfold in_doms, dim_values in Ha. revert a Ha.
      induction dims as [|v r IH]; intros a Ha; inversion Ha as [|x d a' ds' Hx Hr]; subst; [constructor|].
      inversion Hcl as [|? ? Hv Hcl']; subst. simpl. constructor; auto.
      unfold values_clean in Hv. rewrite Forall_forall in Hv. now apply Hv.
  Qed.

  Lemma ext_pairs_ok :
    ext_pairs dims table = Ok (map (fun a => (cost a, enc a)) (gen_assign dims)).
  Proof.
    unfold ext_pairs. pose proof assignment_ok as H. revert H.
    induction (gen_assign dims) as [|a r IH]; intros H; simpl; auto.
    destruct (H a (or_introl eq_refl)) as [t [_ [_ [_ [_ [Er _]]]]]]. rewrite Er. simpl.
    rewrite IH by (intros; apply H; now right). reflexivity.
  Qed.

  Definition aps := map (fun a => (cost a, a)) (gen_assign dims).
  Definition load_step (m : list (tuple * option Z)) (p : Z * list value) :=
    do t <- token_indices dims (map str_value (snd p)); Ok (mat_set t (fst p) m).

  Lemma ext_values_ok :
    ext_values dims table =
    Ok (map (fun g => (fst g, AStr (join bar_sep (map enc (snd g))))) (group aps)).
  Proof.
    unfold ext_values. rewrite ext_pairs_ok. simpl. f_equal.
    replace (map (fun a => (cost a, enc a)) (gen_assign dims))
      with (map (fun p : Z * list value => (fst p, enc (snd p))) aps)
      by (unfold aps; rewrite map_map; reflexivity).
    rewrite group_map, map_map. reflexivity.
  Qed.

  Lemma in_group_assignment g a : In g (group aps) -> In a (snd g) -> In a (gen_assign dims).
  Proof.
    intros Hg Ha. assert (In (fst g, a) (gflat (group aps))).
    { unfold gflat. apply in_flat_map. exists g; split; auto. apply in_map_iff; eauto. }
    apply (proj1 (group_in _ _)) in H. unfold aps in H. apply in_map_iff in H as [a' [E Hin]].
    inversion E; subst; auto.
  Qed.

  Lemma load_group m g : In g (group aps) ->
    ext_load_one dims m (fst g, AStr (join bar_sep (map enc (snd g))))
    = foldM load_step (map (fun a => (fst g, a)) (snd g)) m.
  Proof.
    intros Hg. unfold ext_load_one. cbn [snd fst].
    assert (E : forall (l : list string),
      foldM (fun m ass_def => do t <- token_indices dims (split_ws ass_def); Ok (mat_set t (fst g) m)) l m
      = foldM (fun m toks => do t <- token_indices dims toks; Ok (mat_set t (fst g) m)) (map split_ws l) m).
    { intros l. apply (foldM_map (fun m toks => do t <- token_indices dims toks; Ok (mat_set t (fst g) m)) split_ws). }
    rewrite E. clear E.
    fold (parse_assignments (join bar_sep (map enc (snd g)))).
    replace (map enc (snd g)) with (map (join sp) (map (map str_value) (snd g)))
      by (rewrite map_map; reflexivity).
    rewrite parse_join.
    - rewrite <- (foldM_map load_step (fun a => (fst g, a))).
      rewrite <- (foldM_map (fun m toks => do t <- token_indices dims toks; Ok (mat_set t (fst g) m)) (map str_value)).
      reflexivity.
    - destruct g as [k l]. apply group_nonempty in Hg. simpl. destruct l; [congruence|discriminate].
    - apply Forall_forall. intros toks Ht. apply in_map_iff in Ht as [a [<- Ha]].
      destruct (assignment_ok a (in_group_assignment g a Hg Ha)) as [t H]. apply H.
  Qed.

  Theorem ext_roundtrip_l dflt :
    exists vals m, ext_values dims table = Ok vals /\
      foldM (ext_load_one dims) vals (assignment_matrix dims dflt) = Ok m /\
      map fst m = all_tuples (shape_of dims) /\
      forall t, In t (all_tuples (shape_of dims)) ->
                lookup tuple_eqb t m = option_map Some (lookup tuple_eqb t table).
  Proof.
    set (m0 := assignment_matrix dims dflt).
    set (W := gflat (group aps)).
    set (ws := map (fun p : Z * list value => (idx (snd p), fst p)) W).
    assert (HW : forall p, In p W -> In (snd p) (gen_assign dims) /\ fst p = cost (snd p)).
    { intros p Hp. apply (proj1 (group_in _ _)) in Hp. unfold aps in Hp. apply in_map_iff in Hp as [a [<- Ha]]. auto. }
    assert (Hkeys : map fst m0 = all_tuples (shape_of dims)).
    { unfold m0, assignment_matrix. rewrite map_map. simpl. apply map_id. }
    eexists; exists (fold_left wstep ws m0). split; [apply ext_values_ok|].
    assert (Hfold : foldM (ext_load_one dims)
              (map (fun g => (fst g, AStr (join bar_sep (map enc (snd g))))) (group aps)) m0
            = Ok (fold_left wstep ws m0)).
    { rewrite <- (foldM_map (ext_load_one dims)
                   (fun g : Z * list (list value) => (fst g, AStr (join bar_sep (map enc (snd g)))))).
      rewrite (foldM_ext _ (fun m g => foldM load_step (map (fun a => (fst g, a)) (snd g)) m))
        by (intros; now apply load_group).
      rewrite (foldM_flat_map load_step (fun g : Z * list (list value) => map (fun a => (fst g, a)) (snd g))).
      fold (gflat (group aps)). fold W.
      apply foldM_pure. unfold ws.
      assert (G : forall l, (forall p, In p l -> In p W) ->
                Forall2 (fun x y => forall s, load_step s x = Ok (wstep s y)) l
                        (map (fun p : Z * list value => (idx (snd p), fst p)) l)).
      { induction l as [|p r IH]; intros Hl; simpl; constructor.
        - destruct (HW p (Hl p (or_introl eq_refl))) as [Ha Ek].
          destruct (assignment_ok _ Ha) as [t [E1 [E2 _]]].
          intros s. unfold load_step, wstep, idx. rewrite E2, E1. reflexivity.
        - apply IH. intros; apply Hl; now right. }
      apply G; auto. }
    split; [exact Hfold|].
    destruct (writes_consistent table ws m0) as [K1 K2].
    { intros t k Hin. unfold ws in Hin. apply in_map_iff in Hin as [p [E Hp]].
      inversion E; subst. destruct (HW p Hp) as [Ha Ek].
      destruct (assignment_ok _ Ha) as [t [E1 [_ [E3 [E4 _]]]]].
      unfold idx. rewrite E1, Hkeys, Ek. auto. }
    split; [congruence|]. intros t Ht. rewrite K2.
    destruct Hwf as [_ [Hok _]].
    destruct (indices_cover dims t Hok Ht) as [a [Ha Ea]]. apply gen_assign_spec in Ha.
    assert (Hex : existsb (fun w : tuple * Z => tuple_eqb (fst w) t) ws = true).
    { apply existsb_exists. exists (idx a, cost a). split.
      - unfold ws. apply in_map_iff. exists (cost a, a). split; auto.
        apply group_in. unfold aps. apply in_map_iff. eauto.
      - simpl. unfold idx. rewrite Ea. now apply tuple_eqb_eq. }
    now rewrite Hex.
  Qed.
End Ext.

(* ---------- refutation witness and non-vacuity ---------- *)
Local Open Scope string_scope.

Lemma ext_same_str_refuted_l : exists dims table vals m t,
  ext_values dims table = Ok vals /\
  foldM (ext_load_one dims) vals (assignment_matrix dims None) = Ok m /\
  In t (all_tuples (shape_of dims)) /\
  lookup tuple_eqb t m <> option_map Some (lookup tuple_eqb t table).
Proof.
  exists [mkVar "v" (mkDom "d" "" [VInt 1; VStr "1"]) None], [([0%nat], 3); ([1%nat], 4)].
  eexists. eexists. exists [1%nat].
  split; [vm_compute; reflexivity|]. split; [vm_compute; reflexivity|].
  split; [vm_compute; auto|]. vm_compute. discriminate.
Qed.

Lemma c14_nonvacuous_l :
  let d1 := mkDom "d1" "" [VInt 1; VInt 2] in
  let d2 := mkDom "d2" "" [VStr "a"; VStr "b"] in
  let dims := [mkVar "v1" d1 None; mkVar "v2" d2 (Some (VStr "a"))] in
  let table : list (tuple * Z) := [([0;0]%nat, 5); ([0;1]%nat, 7); ([1;0]%nat, 7); ([1;1]%nat, 5)] in
  ext_wf dims table /\
  ext_values dims table = Ok [(5, AStr "1 a | 2 b"); (7, AStr "2 a | 1 b")].
Proof.
  intros d1 d2 dims table. split; [|vm_compute; reflexivity].
  split; [discriminate|]. split; [|split].
  - repeat constructor; vm_compute; intuition discriminate.
  - repeat constructor.
  - intros t Ht. vm_compute in Ht.
    repeat (destruct Ht as [<-|Ht]; [eexists; vm_compute; reflexivity|]). contradiction.
Qed.

Lemma extensional_table_roundtrip_l dims table dflt : ext_wf dims table ->
  exists vals m, ext_values dims table = Ok vals /\
    foldM (ext_load_one dims) vals (assignment_matrix dims dflt) = Ok m /\
    map fst m = all_tuples (shape_of dims) /\
    forall t, In t (all_tuples (shape_of dims)) ->
              lookup tuple_eqb t m = option_map Some (lookup tuple_eqb t table).
Proof. intros H. exact (ext_roundtrip_l dims table H dflt). Qed.
