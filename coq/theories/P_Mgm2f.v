(* P_Mgm2f.v -- MGM2 (M_Mgm2.v): a REAL handler execution (with [enter (S f)], i.e. _enter_state
   re-dispatching the postponed messages) is the micro-step of M_Mgm2x.v (the same handler with
   [enter0]) followed by the loop of _enter_state on the state reached.
   Every handler calls _enter_state at most once, in tail position: each branch is either
   [andthen2 X (enter st)] with [st] different from the current state, or does not depend on
   [enter] at all and keeps the state (postponing, incomplete table, the two error branches). *)
From Coq Require Import ZArith List Bool Lia.
From PyDcop Require Import Base Net M_Mgm M_Mgm2 M_Mgm2x P_Mgm P_Mgm2x.
Import ListNotations.
Open Scope Z_scope.

Section Node.
  Variable d : dcop.
  Variable stop thr favor : Z.
  Variable n : node.
  Notation EN := (enter d stop thr favor n).
  Notation LP := (loop d stop thr favor n).

  Lemma enter_S f st s : EN (S f) st s = LP f st (set_t_state s st).
  Proof. reflexivity. Qed.

  (* the tail call: _enter_state = assignment of the state, then the loop *)
  Lemma tail_enter (X : res2) f st :
    andthen2 X (EN (S f) st) = andthen2 (andthen2 X (enter0 st)) (LP f st).
  Proof.
    destruct X as [[s o] e]. unfold enter0, ret2, andthen2. cbv beta iota.
    change (EN (S f) st s) with (LP f st (set_t_state s st)).
    rewrite !app_nil_r. reflexivity.
  Qed.

  Lemma tail_state (X : res2) st : t_state (fst (fst (andthen2 X (enter0 st)))) = st.
  Proof. destruct X as [[s o] e]. reflexivity. Qed.

  Lemma andthen2_ext_state (r : res2) (g h : m2st -> res2) :
    (forall s, t_state s = t_state (fst (fst r)) -> g s = h s) -> andthen2 r g = andthen2 r h.
  Proof. destruct r as [[s o] e]. intros H. simpl. rewrite (H s eq_refl). reflexivity. Qed.

  Lemma tail_enter' (X : res2) f st :
    andthen2 X (EN (S f) st) = andthen2 (andthen2 X (enter0 st)) (fun s' => LP f (t_state s') s').
  Proof.
    rewrite tail_enter. apply andthen2_ext_state. intros s Hs. rewrite tail_state in Hs.
    rewrite Hs. reflexivity.
  Qed.

  (* the shape of a handler body: one call of _enter_state, in tail position, towards [st] *)
  Definition tails (H : (Z -> m2st -> res2) -> res2) (st : Z) : Prop :=
    exists X, forall E, H E = andthen2 X (E st).
  (* a handler body that does not call _enter_state and leaves the state [k] *)
  Definition stays (H : (Z -> m2st -> res2) -> res2) (k : Z) : Prop :=
    exists r, t_state (fst (fst r)) = k /\ forall E, H E = r.

  Lemma tails_factor H st f : tails H st ->
    H (EN (S f)) = andthen2 (H enter0) (fun s' => LP f (t_state s') s') /\
    t_state (fst (fst (H enter0))) = st.
  Proof.
    intros [X HX]. rewrite !HX. split; [apply tail_enter'|apply tail_state].
  Qed.

  Lemma tails_factor1 H st f : tails H st ->
    H (EN (S f)) = andthen2 (H enter0) (LP f st).
  Proof. intros [X HX]. rewrite !HX. apply tail_enter. Qed.

  (* ---------------------------------------------------------------- the five handlers *)
  Lemma finish_tails r : tails (fun E => andthen2 r (finish_cycle d stop n E)) 1.
  Proof.
    exists (andthen2 r (fun s => send_value2 d stop n (clear_agent s))). intros E.
    symmetry. apply (andthen2_assoc r (fun s => send_value2 d stop n (clear_agent s)) (E 1)).
  Qed.

  Lemma hvm_tails s : tails (fun E => handle_value_messages d thr n E s) 2.
  Proof.
    unfold tails, handle_value_messages. cbv zeta.
    repeat match goal with |- context [match ?x with pair _ _ => _ end] => destruct x end.
    eexists. intros E. reflexivity.
  Qed.

  Lemma hom_tails s : tails (fun E => handle_offer_messages d favor n E s) 3 \/
                      tails (fun E => handle_offer_messages d favor n E s) 4.
  Proof.
    unfold tails, handle_offer_messages. destruct (t_offerer s).
    - left. eexists. intros E. reflexivity.
    - right. cbv zeta.
      repeat match goal with |- context [match ?x with pair _ _ => _ end] => destruct x end.
      eexists. intros E. reflexivity.
  Qed.

  Lemma hr_shape s src acc v g :
    tails (fun E => handle_response d n E s src acc v g) 4 \/
    stays (fun E => handle_response d n E s src acc v g) (t_state s).
  Proof.
    unfold tails, stays, handle_response.
    destruct (negb (opt_is (t_partner s) src) || negb (t_offerer s)).
    - right. eexists. split; [|intros E; reflexivity]. reflexivity.
    - left. eexists. intros E. reflexivity.
  Qed.

  Lemma hgm_shape s :
    tails (fun E => handle_gain_messages d stop n E s) 1 \/
    tails (fun E => handle_gain_messages d stop n E s) 5 \/
    stays (fun E => handle_gain_messages d stop n E s) (t_state s).
  Proof.
    unfold handle_gain_messages. destruct (t_pgain s =? 0).
    - left. exists (send_value2 d stop n (clear_agent s)). intros E. reflexivity.
    - destruct (t_committed s).
      + destruct (t_partner s) as [p|].
        * right. left. eexists. intros E. reflexivity.
        * right. right. eexists. split; [|intros E; reflexivity]. reflexivity.
      + left. cbv zeta. apply finish_tails.
  Qed.

  Lemma hgo_tails s go : tails (fun E => handle_go d stop n E s go) 1.
  Proof. unfold handle_go. cbv zeta. apply finish_tails. Qed.

  (* ---------------------------------------------------------------- on_msg *)
  Lemma set_post_state s k l : t_state (set_post s k l) = t_state s.
  Proof. unfold set_post. repeat match goal with |- context [if ?c then _ else _] => destruct c end; reflexivity. Qed.

  Lemma on_msg_shape s x m :
    (exists st, st <> t_state s /\ tails (fun E => on_msg d stop thr favor n E s x m) st) \/
    stays (fun E => on_msg d stop thr favor n E s x m) (t_state s).
  Proof.
    unfold on_msg. cbv zeta.
    destruct (t_state s =? kind_of m) eqn:Ek; cbn [negb].
    2:{ right. eexists. split; [|intros E; reflexivity]. apply set_post_state. }
    apply Z.eqb_eq in Ek.
    assert (Hstore : forall s1 : m2st, t_state s1 = t_state s -> stays (fun _ => ret2 s1) (t_state s)).
    { intros s1 H1. exists (ret2 s1). split; [exact H1|reflexivity]. }
    destruct m as [v|g|ofg ofs|a v g|go]; cbn [kind_of] in Ek.
    - match goal with |- context [if ?c then _ else _] => destruct c end.
      + left. exists 2. split; [lia|]. apply hvm_tails.
      + right. apply Hstore. reflexivity.
    - match goal with |- context [if ?c then _ else _] => destruct c end.
      + match goal with |- context [handle_gain_messages _ _ _ _ ?s1] =>
          destruct (hgm_shape s1) as [H|[H|H]] end.
        * left. exists 1. split; [lia|exact H].
        * left. exists 5. split; [lia|exact H].
        * right. exact H.
      + right. apply Hstore. reflexivity.
    - match goal with |- context [if ?c then _ else _] => destruct c end.
      + match goal with |- context [handle_offer_messages _ _ _ _ ?s1] =>
          destruct (hom_tails s1) as [H|H] end.
        * left. exists 3. split; [lia|exact H].
        * left. exists 4. split; [lia|exact H].
      + right. apply Hstore. reflexivity.
    - destruct (hr_shape s x a v g) as [H|H].
      + left. exists 4. split; [lia|exact H].
      + right. exact H.
    - left. exists 1. split; [lia|]. apply hgo_tails.
  Qed.

  (* the real handler = the micro-step, then (if the state changed) the loop of _enter_state *)
  Theorem on_msg_factor' f s x m :
    on_msg d stop thr favor n (EN (S f)) s x m =
      (let r := mstep d stop thr favor n s x m in
       if t_state (fst (fst r)) =? t_state s then r
       else andthen2 r (fun s' => LP f (t_state s') s')).
  Proof.
    cbv zeta. unfold mstep.
    destruct (on_msg_shape s x m) as [[st [Hne Ht]]|[r [Hr HE]]].
    - destruct (tails_factor _ st f Ht) as [E1 E2]. cbv beta in E1, E2.
      rewrite E2. apply Z.eqb_neq in Hne. rewrite Hne. exact E1.
    - rewrite !HE, Hr, Z.eqb_refl. reflexivity.
  Qed.

  Theorem on_msg_factor f s x m :
    nbrs d n <> [] ->
    on_msg d stop thr favor n (EN (S f)) s x m =
      (let r := mstep d stop thr favor n s x m in
       if t_state (fst (fst r)) =? t_state s then r
       else andthen2 r (fun s' => LP f (t_state s') s')).
  Proof. intros _. apply on_msg_factor'. Qed.

  (* the state reached by a micro-step that changes the state is never the old one, and the
     unchanged case does not depend on the fuel at all *)
  Lemma on_msg_same_state E s x m :
    t_state (fst (fst (mstep d stop thr favor n s x m))) = t_state s ->
    on_msg d stop thr favor n E s x m = mstep d stop thr favor n s x m.
  Proof.
    unfold mstep. destruct (on_msg_shape s x m) as [[st [Hne Ht]]|[r [Hr HE]]].
    - destruct Ht as [X HX]. rewrite (HX enter0), tail_state. intros H. congruence.
    - intros _. rewrite !HE. reflexivity.
  Qed.

  (* ---------------------------------------------------------------- start *)
  Theorem start_factor f s : nbrs d n <> [] ->
    mgm2_start_f d stop thr favor (S f) n s =
      andthen2 (start0 d stop thr favor n s) (fun s' => LP f 1 s').
  Proof.
    intros Hnb. unfold mgm2_start_f, start0. destruct (nbrs d n) as [|a l]; [congruence|].
    match goal with |- context [match ?x with pair _ _ => _ end] => destruct x as [v0 o] end.
    apply tail_enter.
  Qed.

  Theorem start_iso fuel s : nbrs d n = [] ->
    mgm2_start_f d stop thr favor fuel n s = start0 d stop thr favor n s.
  Proof. intros Hnb. unfold mgm2_start_f, start0. rewrite Hnb. reflexivity. Qed.
End Node.
