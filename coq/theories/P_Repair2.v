(* P_Repair2.v -- C26 deepening: the repair DCOP assembled as setup_repair does encodes the
   repair rules (hard part 0 iff valid rehosting, soft part = hosting + communication cost) *)
From PyDcop Require Import Base P_Base M_Repair P_Repair M_Repair2 P_Gen.
From Coq Require Import Permutation ZifyBool.

Local Notation keq := bkey_eqb_iff.

(* ---------- dict helpers on binvars ---------- *)
Definition canon (bv : binvars) : Prop := forall k v, In (k, v) bv -> v = bname k.

Lemma dict_set_keys_b {V} k (v : V) l k' :
  In k' (map fst (dict_set bkey_eqb k v l)) <-> k' = k \/ In k' (map fst l).
Proof.
  induction l as [|[k0 v0] r IH]; simpl.
  - intuition.
  - destruct (bkey_eqb k k0) eqn:E; simpl.
    + apply keq in E. subst. intuition.
    + rewrite IH. intuition.
Qed.

Lemma canon_dict_set k l : canon l -> canon (dict_set bkey_eqb k (bname k) l).
Proof.
  intros Hc k' v' Hin. apply (In_dict_set bkey_eqb keq) in Hin as [Hin|Hin].
  - now inversion Hin.
  - eauto.
Qed.

Lemma bv_update_keys new : forall d k,
  In k (map fst (bv_update d new)) <-> In k (map fst d) \/ In k (map fst new).
Proof.
  unfold bv_update. induction new as [|[k0 v0] r IH]; intros d k; simpl; [tauto|].
  rewrite IH, dict_set_keys_b. intuition.
Qed.

Lemma canon_bv_update new : forall d, canon d -> canon new -> canon (bv_update d new).
Proof.
  unfold bv_update. induction new as [|[k0 v0] r IH]; intros d Hd Hn; simpl; auto.
  apply IH.
  - rewrite (Hn k0 v0) by (simpl; auto). now apply canon_dict_set.
  - intros k v H. apply Hn. simpl; auto.
Qed.

Lemma mk_binvars_nodup c agts : NoDup agts ->
  mk_binvars c agts = map (fun a => ((c, a), bname (c, a))) agts.
Proof.
  intros H. unfold mk_binvars. apply dict_of_list_nodup_g; [apply keq|].
  rewrite map_map. simpl. apply FinFun.Injective_map_NoDup; auto.
  intros a b E. now inversion E.
Qed.

Lemma canon_mk c agts : canon (mk_binvars c agts).
Proof.
  intros k v H. unfold mk_binvars in H. apply (In_dict_of_list bkey_eqb keq) in H.
  apply in_map_iff in H as [a [E _]]. now inversion E.
Qed.

Lemma mk_binvars_keys c agts k : In k (map fst (mk_binvars c agts)) <-> exists a, In a agts /\ k = (c, a).
Proof.
  split.
  - intros H. apply in_map_iff in H as [[k' v] [E H]]. simpl in E. subst k'.
    apply (In_dict_of_list bkey_eqb keq) in H. apply in_map_iff in H as [a [E Ha]].
    inversion E. eauto.
  - intros [a [Ha ->]].
    pose proof (dict_of_list_covers bkey_eqb keq (c, a) (bname (c, a))
                  (map (fun a => ((c, a), bname (c, a))) agts)) as Hc.
    unfold mem_key in Hc. fold (mk_binvars c agts) in Hc.
    destruct (lookup bkey_eqb (c, a) (mk_binvars c agts)) eqn:E.
    + apply (lookup_In bkey_eqb keq) in E. apply in_map_iff. exists ((c, a), s). auto.
    + exfalso. assert (Hft : false = true); [|discriminate]. apply Hc. apply in_map_iff. eauto.
Qed.

Lemma lookup_canon k bv : canon bv -> In k (map fst bv) -> lookup bkey_eqb k bv = Some (bname k).
Proof.
  intros Hc Hin. destruct (lookup bkey_eqb k bv) eqn:E.
  - apply (lookup_In bkey_eqb keq) in E. now rewrite (Hc _ _ E).
  - exfalso. apply in_map_iff in Hin as [[k' v] [Ek Hin]]. simpl in Ek. subst k'.
    induction bv as [|[k0 v0] r IH]; simpl in *; [contradiction|].
    destruct (bkey_eqb k k0) eqn:E0; [discriminate|].
    destruct Hin as [Hin|Hin].
    + inversion Hin; subst. rewrite (proj2 (keq k k) eq_refl) in E0. discriminate.
    + apply IH; auto. intros k1 v1 H1. apply Hc. simpl; auto.
Qed.

(* ---------- the first loop of setup_repair ---------- *)
(* keys the loop adds to orphaned_binvars *)
Definition ri_keys (ri : list (string * info)) (k : bkey) : Prop :=
  exists c cs fx cn, In (c, (cs, fx, cn)) ri /\
    ((In (snd k) cs /\ fst k = c) \/ exists l, In (fst k, l) cn /\ In (snd k) l).

Lemma cn_fold_keys cn : forall d k,
  In k (map fst (fold_left (fun d na => bv_update d (mk_binvars (fst na) (snd na))) cn d))
  <-> In k (map fst d) \/ exists l, In (fst k, l) cn /\ In (snd k) l.
Proof.
  induction cn as [|[n l] r IH]; intros d k; simpl.
  - split; auto. intros [H|[l [[] _]]]; auto.
  - rewrite IH, bv_update_keys, mk_binvars_keys. split.
    + intros [[H|[a [Ha ->]]]|[l' [H1 H2]]].
      * auto.
      * right. exists l. simpl. auto.
      * right. exists l'. simpl. auto.
    + intros [H|[l' [[E|H1] H2]]]; eauto.
      inversion E; subst. left. right. exists (snd k). destruct k; auto.
Qed.

Lemma cn_fold_canon cn : forall d, canon d ->
  canon (fold_left (fun d na => bv_update d (mk_binvars (fst na) (snd na))) cn d).
Proof.
  induction cn as [|[n l] r IH]; intros d Hd; simpl; auto.
  apply IH. apply canon_bv_update; auto. apply canon_mk.
Qed.

Definition cbv_of (own : string) (ri : list (string * info)) : binvars :=
  map (fun ci => ((fst ci, own), bname (fst ci, own))) ri.
Definition hosted_of (ri : list (string * info)) : list (string * relation) :=
  map (fun ci => (fst ci, create_hosted (fst ci) (mk_binvars (fst ci) (fst (fst (snd ci)))))) ri.

Lemma setup_loop_spec own ri : forall obv cbv hosted,
  NoDup (map fst ri) ->
  (forall c cs fx cn, In (c, (cs, fx, cn)) ri -> In own cs) ->
  (forall c, In c (map fst ri) -> ~ In (c, own) (map fst cbv) /\ ~ In c (map fst hosted)) ->
  canon obv ->
  exists obv', setup_loop own ri obv cbv hosted
               = Ok (obv', cbv ++ cbv_of own ri, hosted ++ hosted_of ri) /\
    canon obv' /\ forall k, In k (map fst obv') <-> In k (map fst obv) \/ ri_keys ri k.
Proof.
  induction ri as [|[c [[cs fx] cn]] r IH]; intros obv cbv hosted Hnd Hown Hfresh Hc.
  - simpl. exists obv. rewrite !app_nil_r. split; auto. split; auto.
    intros k. split; auto. intros [H|(c & cs & fx & cn & [] & _)]; auto.
  - cbn [setup_loop]. inversion Hnd as [|? ? Hnin Hnd']; subst.
    assert (Ho : In own cs) by (eapply Hown; simpl; eauto).
    rewrite (lookup_canon (c, own) (mk_binvars c cs)) by
      (try apply canon_mk; apply mk_binvars_keys; eauto).
    destruct (Hfresh c (or_introl eq_refl)) as [F1 F2].
    rewrite (dict_set_fresh_g bkey_eqb keq) by auto.
    rewrite (dict_set_fresh_g String.eqb String.eqb_eq) by auto.
    edestruct (IH (fold_left (fun d na => bv_update d (mk_binvars (fst na) (snd na))) cn
                     (bv_update obv (mk_binvars c cs)))
                  (cbv ++ [((c, own), bname (c, own))])
                  (hosted ++ [(c, create_hosted c (mk_binvars c cs))]))
      as (obv' & E & Hc' & Hk'); auto.
    + intros c' cs' fx' cn' H'. eapply Hown. simpl; eauto.
    + intros c' Hc'. rewrite !map_app, !in_app_iff. simpl.
      destruct (Hfresh c' (or_intror Hc')) as [G1 G2]. split.
      * intros [H|[H|[]]]; auto. inversion H; subst. auto.
      * intros [H|[H|[]]]; auto. subst. auto.
    + apply cn_fold_canon. apply canon_bv_update; auto. apply canon_mk.
    + exists obv'. split.
      * eapply eq_trans; [exact E|]. unfold cbv_of, hosted_of. simpl. now rewrite <- !app_assoc.
      * split; auto. intros k. rewrite Hk', cn_fold_keys, bv_update_keys, mk_binvars_keys.
        unfold ri_keys. split.
        -- intros [[[H|[a [Ha ->]]]|[l [H1 H2]]]|(c' & cs' & fx' & cn' & Hin & Hor)]; auto.
           ++ right. exists c, cs, fx, cn. simpl. auto.
           ++ right. exists c, cs, fx, cn. simpl. split; eauto.
           ++ right. exists c', cs', fx', cn'. simpl. auto.
        -- intros [H|(c' & cs' & fx' & cn' & [Hin|Hin] & Hor)]; auto.
           ++ inversion Hin; subst. destruct Hor as [[H1 H2]|[l [H1 H2]]].
              ** left. left. right. exists (snd k). destruct k; simpl in *; subst; auto.
              ** left. right. eauto.
           ++ right. exists c', cs', fx', cn'. auto.
Qed.

(* ---------- evaluation under a global assignment ---------- *)
Lemma NoDup_map_inj {A B} (f : A -> B) l a b :
  NoDup (map f l) -> In a l -> In b l -> f a = f b -> a = b.
Proof.
  induction l as [|y r IH]; simpl; intros Hnd Ha Hb E; [contradiction|].
  inversion Hnd as [|? ? Hnin Hnd']; subst.
  destruct Ha as [->|Ha], Hb as [->|Hb]; auto.
  - exfalso. apply Hnin. rewrite E. now apply in_map.
  - exfalso. apply Hnin. rewrite <- E. now apply in_map.
Qed.

Lemma NoDup_map_fst_NoDup {A B} (l : list (A * B)) : NoDup (map fst l) -> NoDup l.
Proof.
  induction l as [|x r IH]; simpl; intros H; constructor; inversion H; subst; auto.
  intro Hin. apply H2. now apply in_map.
Qed.

Lemma filter_map_comm {A B} (f : A -> B) p l : filter p (map f l) = map f (filter (fun a => p (f a)) l).
Proof. induction l as [|a r IH]; simpl; auto. destruct (p (f a)); simpl; now rewrite IH. Qed.

(* the global assignment filtered on the scope of a constraint over [bv] is the assignment
   of [bv] (in some order) *)
Lemma restrict_perm gbv bv x :
  NoDup (map snd gbv) -> NoDup (map fst bv) -> incl bv gbv ->
  Permutation (filter (fun kv => smem (fst kv) (map snd bv)) (gasg gbv x)) (P_Repair.asg_of bv x).
Proof.
  intros Hn Hb Hi. unfold gasg, P_Repair.asg_of. rewrite filter_map_comm. simpl.
  apply Permutation_map. apply NoDup_Permutation.
  - apply NoDup_filter. eapply NoDup_map_inv; eauto.
  - now apply NoDup_map_fst_NoDup.
  - intros kv. rewrite filter_In, smem_In. split.
    + intros [Hin Hs]. apply in_map_iff in Hs as [kv' [E Hin']].
      assert (kv' = kv) by (eapply (NoDup_map_inj snd gbv); eauto). now subst.
    + intros Hin. split; auto. now apply in_map.
Qed.

Lemma ones_perm a b : Permutation a b -> ones a = ones b.
Proof.
  unfold ones. induction 1; simpl; auto.
  - destruct (snd x =? 1); simpl; auto.
  - destruct (snd x =? 1), (snd y =? 1); simpl; auto.
  - congruence.
Qed.

Lemma slookup_filter (p : string -> bool) v (l : asg) : p v = true ->
  slookup v (filter (fun kv => p (fst kv)) l) = slookup v l.
Proof.
  intros Hp. induction l as [|[k y] r IH]; simpl; auto.
  destruct (p k) eqn:E; simpl.
  - destruct (String.eqb v k); auto.
  - destruct (String.eqb v k) eqn:E2; auto. apply String.eqb_eq in E2. subst. congruence.
Qed.

Lemma slookup_gasg gbv x k v : NoDup (map snd gbv) -> In (k, v) gbv -> slookup v (gasg gbv x) = Some (x k).
Proof.
  intros Hn Hin. induction gbv as [|[k0 v0] r IH]; simpl in *; [contradiction|].
  inversion Hn as [|? ? Hnin Hn']; subst.
  destruct Hin as [Hin|Hin].
  - inversion Hin; subst. now rewrite String.eqb_refl.
  - destruct (String.eqb v v0) eqn:E.
    + apply String.eqb_eq in E. subst. exfalso. apply Hnin. apply in_map_iff. exists (k, v0). auto.
    + auto.
Qed.

Definition binary_on (gbv : binvars) (x : bkey -> Z) : Prop :=
  forall k, In k (map fst gbv) -> x k = 0 \/ x k = 1.

Lemma binary_gasg gbv x : binary_on gbv x -> binary_asg (gasg gbv x).
Proof.
  intros Hb v y Hin. unfold gasg in Hin. apply in_map_iff in Hin as [[k v'] [E Hin]].
  inversion E; subst. apply Hb. apply in_map_iff. exists (k, v). auto.
Qed.

Lemma binary_filter p a : binary_asg a -> binary_asg (filter p a).
Proof. intros H v y Hin. apply filter_In in Hin as [Hin _]. eauto. Qed.

(* hosted: 0 iff exactly one candidate agent is selected *)
Lemma eval_hosted gbv x c cs :
  NoDup (map snd gbv) -> binary_on gbv x -> NoDup cs ->
  incl (map (fun a => ((c, a), bname (c, a))) cs) gbv ->
  exists r, eval gbv x (create_hosted c (mk_binvars c cs)) = Ok r /\ (r = 0 \/ r = 10000) /\
    (r = 0 <-> List.length (filter (fun a => x (c, a) =? 1) cs) = 1%nat).
Proof.
  intros Hn Hb Hcs Hi. unfold eval. rewrite (mk_binvars_nodup _ _ Hcs) in *.
  set (bv := map (fun a => ((c, a), bname (c, a))) cs) in *.
  assert (Hbv : NoDup (map fst bv)).
  { unfold bv. rewrite map_map. simpl. apply FinFun.Injective_map_NoDup; auto.
    intros a b E. now inversion E. }
  cbn [r_scope create_hosted].
  pose proof (restrict_perm gbv bv x Hn Hbv Hi) as Hp.
  destruct (hosted_zero_iff_exactly_one_l c bv
              (filter (fun kv => smem (fst kv) (map snd bv)) (gasg gbv x))) as (r & E & Hr & H01).
  - intros v y Hin. apply filter_In in Hin as [_ Hin]. now apply smem_In in Hin.
  - apply binary_filter. now apply binary_gasg.
  - exists r. split; auto. split; auto. rewrite Hr. unfold bkey in *. rewrite (ones_perm _ _ Hp), ones_asg_of.
    unfold selected, bv. rewrite map_map. simpl.
    rewrite filter_map_comm, map_length. reflexivity.
Qed.

Lemma cbv_of_fst own ri : map fst (cbv_of own ri) = map (fun ci => (fst ci, own)) ri.
Proof. unfold cbv_of. now rewrite map_map. Qed.

Lemma cbv_of_nodup own ri : NoDup (map fst ri) -> NoDup (map fst (cbv_of own ri)).
Proof.
  intros H. rewrite cbv_of_fst. rewrite <- (map_map fst (fun c => (c, own))).
  apply FinFun.Injective_map_NoDup; auto. intros a b E. now inversion E.
Qed.

Lemma nodup_snd_incl (gbv bv : binvars) : NoDup (map snd gbv) -> NoDup (map fst bv) -> incl bv gbv ->
  NoDup (map snd bv).
Proof.
  intros Hn Hb Hi. apply NoDup_map_fst_NoDup in Hb.
  induction bv as [|kv r IH]; simpl; constructor.
  - intro Hin. apply in_map_iff in Hin as [kv' [E Hin]].
    inversion Hb; subst. assert (kv' = kv).
    { eapply (NoDup_map_inj snd gbv); eauto; apply Hi; simpl; auto. }
    subst. contradiction.
  - inversion Hb; subst. apply IH; auto. intros y Hy. apply Hi. simpl; auto.
Qed.

(* capacity and hosting of agent [own] over its candidate variables *)
Lemma eval_capacity gbv x own ri rem fp :
  NoDup (map snd gbv) -> binary_on gbv x -> NoDup (map fst ri) -> incl (cbv_of own ri) gbv ->
  exists r, eval gbv x (create_capacity own rem fp (cbv_of own ri)) = Ok r /\ (r = 0 \/ r = 10000) /\
    (r = 0 <-> zsum (map fp (filter (fun c => x (c, own) =? 1) (map fst ri))) <= rem).
Proof.
  intros Hn Hb Hri Hi. unfold eval. cbn [r_scope create_capacity].
  pose proof (cbv_of_nodup own ri Hri) as Hk.
  pose proof (restrict_perm gbv _ x Hn Hk Hi) as Hp.
  destruct (capacity_zero_iff_fits_l own rem fp (cbv_of own ri) x _
              (nodup_snd_incl _ _ Hn Hk Hi) Hp) as (r & E & H01 & Hr).
  - intros k Hin. apply Hb. apply in_map_iff in Hin as [kv [<- Hin]]. apply in_map. now apply Hi.
  - exists r. split; auto. split; auto. rewrite Hr. unfold selected.
    rewrite cbv_of_fst, <- (map_map fst (fun c => (c, own))), filter_map_comm, map_map. simpl.
    reflexivity.
Qed.

Lemma eval_hosting gbv x own ri h :
  NoDup (map snd gbv) -> NoDup (map fst ri) -> incl (cbv_of own ri) gbv ->
  eval gbv x (create_hosting own h (cbv_of own ri))
  = Ok (zsum (map (fun c => x (c, own) * h c) (map fst ri))).
Proof.
  intros Hn Hri Hi. unfold eval. cbn [r_scope create_hosting].
  pose proof (cbv_of_nodup own ri Hri) as Hk.
  pose proof (restrict_perm gbv _ x Hn Hk Hi) as Hp.
  destruct (hosting_is_sum_l own h (cbv_of own ri) x _ (nodup_snd_incl _ _ Hn Hk Hi) Hp) as [E _].
  unfold bkey in *. rewrite E. rewrite cbv_of_fst, !map_map. reflexivity.
Qed.

(* communication constraint of candidate computation c on agent own *)
Lemma names_for_total obv n : forall l, canon obv ->
  (forall a, In a l -> In (n, a) (map fst obv)) ->
  exists s, names_for obv n l = Ok s.
Proof.
  induction l as [|a r IH]; simpl; intros Hc Hin; eauto.
  unfold bv_name. rewrite (lookup_canon (n, a) obv) by auto. simpl.
  destruct IH as [s ->]; auto. simpl. eauto.
Qed.

Lemma comm_scope_total obv : forall cn, canon obv ->
  (forall n l a, In (n, l) cn -> In a l -> In (n, a) (map fst obv)) ->
  exists s, comm_scope obv cn = Ok s.
Proof.
  induction cn as [|[n l] r IH]; simpl; intros Hc Hin; eauto.
  destruct (names_for_total obv n l Hc) as [s1 ->]; [intros; eapply Hin; eauto|]. simpl.
  destruct IH as [s2 ->]; auto; [intros; eapply Hin; eauto|]. simpl. eauto.
Qed.

Definition comm_value (x : bkey -> Z) (comm : commfn) (own c : string) (i : info) : Z :=
  let '(_, fixed, cn) := i in
  x (c, own) * (zsum (map (fun na => comm c (fst na) (snd na)) fixed)
                + zsum (map (fun ns => zsum (map (fun va => x (fst ns, va) * comm c (fst ns) va) (snd ns))) cn)).

Lemma eval_comm gbv x obv own c cs fx cn comm :
  NoDup (map snd gbv) -> canon obv ->
  (forall k, In k (map fst obv) -> In (k, bname k) gbv) ->
  In (c, own) (map fst obv) ->
  (forall n l a, In (n, l) cn -> In a l -> In (n, a) (map fst obv)) ->
  exists rel, create_comm own c (cs, fx, cn) comm obv = Ok rel /\
    eval gbv x rel = Ok (comm_value x comm own c (cs, fx, cn)).
Proof.
  intros Hn Hc Hg Hloc Hcn.
  assert (Hcr : exists rel, create_comm own c (cs, fx, cn) comm obv = Ok rel).
  { unfold create_comm, bv_name. rewrite (lookup_canon (c, own) obv) by auto. simpl.
    destruct (comm_scope_total obv cn Hc Hcn) as [s ->]. simpl. eauto. }
  destruct Hcr as [rel Hrel]. exists rel. split; auto. unfold eval, comm_value.
  apply (comm_is_sum_l own c cs fx cn comm obv rel x); auto.
  - intros v y Hin. apply filter_In in Hin as [_ Hin]. now apply smem_In in Hin.
  - intros k v Hin Hsc. rewrite (slookup_filter (fun v => smem v (r_scope rel))) by now apply smem_In.
    rewrite (Hc _ _ Hin). apply slookup_gasg; auto. apply Hg. apply in_map_iff. exists (k, v). auto.
Qed.

Lemma slookup_nodup {V} (l : list (string * V)) k v :
  NoDup (map fst l) -> In (k, v) l -> slookup k l = Some v.
Proof.
  induction l as [|[k0 v0] r IH]; simpl; intros Hnd Hin; [contradiction|].
  inversion Hnd as [|? ? Hnin Hnd']; subst. destruct Hin as [Hin|Hin].
  - inversion Hin; subst. now rewrite String.eqb_refl.
  - destruct (String.eqb k k0) eqn:E; auto. apply String.eqb_eq in E. subst.
    exfalso. apply Hnin. apply in_map_iff. exists (k0, v). auto.
Qed.

Lemma eval_sum_ok gbv x rs vs :
  Forall2 (fun r v => eval gbv x r = Ok v) rs vs -> eval_sum gbv x rs = Ok (zsum vs).
Proof. induction 1; simpl; auto. rewrite H, IHForall2. reflexivity. Qed.

Lemma zsum_nonneg_zero l : Forall (fun v => 0 <= v) l -> 0 <= zsum l /\ (zsum l = 0 <-> Forall (fun v => v = 0) l).
Proof.
  induction 1 as [|v r Hv Hr [IH1 IH2]]; simpl.
  - split; [lia|]. split; auto.
  - split; [lia|]. split.
    + intros E. constructor; [lia|]. apply IH2. lia.
    + intros E. inversion E; subst. apply IH2 in H2. lia.
Qed.

Section Problem.
  Variables (agents orph : list string) (cand : string -> list string)
            (RI : string -> list (string * info)) (P : string -> aparams) (x : bkey -> Z).

  (* all binary variables of the repair DCOP: x_{c,a} for c orphaned, a candidate of c *)
  Definition all_binvars : binvars :=
    flat_map (fun c => map (fun a => ((c, a), bname (c, a))) (cand c)) orph.
  Local Notation gbv := all_binvars.

  Hypothesis Hnames : NoDup (map snd gbv).          (* create_binary_variables names distinct *)
  Hypothesis Hcandnd : forall c, In c orph -> NoDup (cand c).
  Hypothesis Hkeys : forall a, In a agents -> NoDup (map fst (RI a)).
  Hypothesis Hri : forall a c, In a agents -> (In c (map fst (RI a)) <-> In c orph /\ In a (cand c)).
  Hypothesis Hinfo : forall a c cs fx cn, In a agents -> In (c, (cs, fx, cn)) (RI a) ->
    cs = cand c /\ forall n l, In (n, l) cn -> In n orph /\ l = cand n.
  Hypothesis Hcagents : forall c a, In c orph -> In a (cand c) -> In a agents.
  Hypothesis Hbin : binary_on gbv x.

  Lemma In_gbv c a : In c orph -> In a (cand c) -> In ((c, a), bname (c, a)) gbv.
  Proof.
    intros Hc Ha. unfold all_binvars. apply in_flat_map. exists c. split; auto.
    apply in_map_iff. eauto.
  Qed.

  (* value of the hosted constraint of c / of the capacity constraint of a *)
  Definition nsel (c : string) : nat := List.length (filter (fun a => x (c, a) =? 1) (cand c)).
  Definition hosted_val (c : string) : Z := if Nat.eqb (nsel c) 1 then 0 else 10000.
  Definition load (a : string) : Z :=
    zsum (map (ap_footprint (P a)) (filter (fun c => x (c, a) =? 1) (map fst (RI a)))).
  Definition capacity_val (a : string) : Z := if load a <=? ap_remaining (P a) then 0 else 10000.
  Definition hosting_val (a : string) : Z :=
    zsum (map (fun c => x (c, a) * ap_hosting (P a) c) (map fst (RI a))).
  Definition comm_val (a : string) : Z :=
    zsum (map (fun ci => comm_value x (ap_comm (P a)) a (fst ci) (snd ci)) (RI a)).

  Lemma comm_loop_spec a obv : In a agents -> canon obv ->
    (forall k, In k (map fst obv) <-> ri_keys (RI a) k) ->
    forall ris, incl ris (RI a) ->
    exists rels, comm_loop (RI a) (ap_comm (P a)) obv (map (fun ci => (fst ci, a)) ris) = Ok rels /\
      Forall2 (fun r v => eval gbv x r = Ok v) rels
              (map (fun ci => comm_value x (ap_comm (P a)) a (fst ci) (snd ci)) ris).
  Proof.
    intros Ha Hc Hk. induction ris as [|[c [[cs fx] cn]] r IH]; intros Hi; simpl.
    - exists []. split; auto.
    - assert (Hin : In (c, (cs, fx, cn)) (RI a)) by (apply Hi; simpl; auto).
      rewrite (slookup_nodup _ _ _ (Hkeys a Ha) Hin).
      destruct (Hinfo a c cs fx cn Ha Hin) as [Hcs Hcn].
      assert (Hca : In c orph /\ In a (cand c)).
      { apply (Hri a c Ha). apply in_map_iff. exists (c, (cs, fx, cn)). auto. }
      destruct (eval_comm gbv x obv a c cs fx cn (ap_comm (P a)) Hnames Hc) as (rel & E1 & E2).
      + intros k Hkin. apply Hk in Hkin as (c' & cs' & fx' & cn' & Hin' & Hor).
        destruct (Hinfo a c' cs' fx' cn' Ha Hin') as [Hcs' Hcn'].
        destruct k as [k1 k2]. simpl in Hor. destruct Hor as [[H1 H2]|[l [H1 H2]]].
        * subst. apply In_gbv; auto.
          apply (Hri a c' Ha). apply in_map_iff. exists (c', (cand c', fx', cn')). auto.
        * destruct (Hcn' _ _ H1) as [Ho ->]. now apply In_gbv.
      + apply Hk. exists c, cs, fx, cn. split; auto. left. simpl. subst cs. tauto.
      + intros n l a' H1 H2. apply Hk. exists c, cs, fx, cn. split; auto. right. simpl. eauto.
      + rewrite E1. simpl. destruct IH as (rels & E & F); [intros y Hy; apply Hi; simpl; auto|].
        rewrite E. simpl. exists (rel :: rels). split; auto.
  Qed.

  (* the DCOP one candidate agent builds, and the value of each of its constraints *)
  Lemma agent_dcop_spec a : In a agents ->
    exists d, setup_repair a (RI a) (P a) = Ok d /\
      Forall2 (fun r v => eval gbv x r = Ok v) (ad_hard d)
              (map hosted_val (map fst (RI a)) ++ [capacity_val a]) /\
      Forall2 (fun r v => eval gbv x r = Ok v) (ad_soft d)
              (hosting_val a :: map (fun ci => comm_value x (ap_comm (P a)) a (fst ci) (snd ci)) (RI a)).
  Proof.
    intros Ha. unfold setup_repair.
    destruct (setup_loop_spec a (RI a) [] [] [] (Hkeys a Ha)) as (obv & E & Hc & Hk).
    - intros c cs fx cn Hin. destruct (Hinfo a c cs fx cn Ha Hin) as [-> _].
      apply (Hri a c Ha). apply in_map_iff. exists (c, (cand c, fx, cn)). auto.
    - intros c _. simpl. auto.
    - intros k v [].
    - match goal with |- context [bind ?t _] =>
        replace t with (@Ok (binvars * binvars * list (string * relation))
                            (obv, cbv_of a (RI a), hosted_of (RI a))) by (symmetry; exact E) end.
      cbn [bind app].
      assert (Hk' : forall k, In k (map fst obv) <-> ri_keys (RI a) k).
      { intros k. rewrite Hk. simpl. tauto. }
      destruct (comm_loop_spec a obv Ha Hc Hk' (RI a) (incl_refl _)) as (rels & Ec & Fc).
      rewrite cbv_of_fst, Ec. cbn [bind]. eexists. split; [reflexivity|].
      assert (Hci : incl (cbv_of a (RI a)) gbv).
      { intros kv Hin. unfold cbv_of in Hin. apply in_map_iff in Hin as [[c i] [<- Hin]]. simpl.
        assert (Hca : In c orph /\ In a (cand c)).
        { apply (Hri a c Ha). apply in_map_iff. exists (c, i). auto. }
        apply In_gbv; tauto. }
      split.
      + unfold ad_hard. cbn [ad_hosted ad_capacity]. apply Forall2_app.
        * unfold hosted_of. rewrite !map_map. cbn [snd fst].
          assert (Hall : forall ris, incl ris (RI a) ->
            Forall2 (fun r v => eval gbv x r = Ok v)
              (map (fun ci => create_hosted (fst ci) (mk_binvars (fst ci) (fst (fst (snd ci))))) ris)
              (map (fun ci => hosted_val (fst ci)) ris)).
          { induction ris as [|[c [[cs fx] cn]] r IH]; intros Hi; simpl; constructor.
            - assert (Hin : In (c, (cs, fx, cn)) (RI a)) by (apply Hi; simpl; auto).
              destruct (Hinfo a c cs fx cn Ha Hin) as [-> _].
              assert (Hca : In c orph /\ In a (cand c)).
              { apply (Hri a c Ha). apply in_map_iff. exists (c, (cand c, fx, cn)). auto. }
              destruct (eval_hosted gbv x c (cand c) Hnames Hbin (Hcandnd c (proj1 Hca)))
                as (r0 & E0 & H01 & Hr0).
              + intros kv Hkv. apply in_map_iff in Hkv as [a' [<- Ha']]. apply In_gbv; tauto.
              + rewrite E0. f_equal. unfold hosted_val, nsel.
                destruct (Nat.eqb_spec (List.length (filter (fun a0 => x (c, a0) =? 1) (cand c))) 1) as [En|En].
                * now apply Hr0.
                * destruct H01 as [-> | ->]; auto. exfalso. apply En. now apply Hr0.
            - apply IH. intros y Hy. apply Hi. simpl; auto. }
          apply Hall. apply incl_refl.
        * constructor; [|constructor]. cbn [ad_capacity].
          destruct (eval_capacity gbv x a (RI a) (ap_remaining (P a)) (ap_footprint (P a))
                      Hnames Hbin (Hkeys a Ha) Hci) as (r0 & E0 & H01 & Hr0).
          rewrite E0. f_equal. unfold capacity_val, load.
          destruct (Z.leb_spec (zsum (map (ap_footprint (P a))
                      (filter (fun c => x (c, a) =? 1) (map fst (RI a))))) (ap_remaining (P a))) as [En|En].
          -- now apply Hr0.
          -- destruct H01 as [-> | ->]; auto. exfalso. assert (Hz : 0 = 0) by reflexivity. apply Hr0 in Hz. lia.
      + unfold ad_soft. cbn [ad_hosting ad_comm]. constructor; auto.
        apply eval_hosting; auto.
  Qed.

  Lemma repair_dcop_spec : forall ags, incl ags agents ->
    exists ds, repair_dcop ags RI P = Ok ds /\
      Forall2 (fun r v => eval gbv x r = Ok v) (flat_map ad_hard ds)
        (flat_map (fun a => map hosted_val (map fst (RI a)) ++ [capacity_val a]) ags) /\
      Forall2 (fun r v => eval gbv x r = Ok v) (flat_map ad_soft ds)
        (flat_map (fun a => hosting_val a
                            :: map (fun ci => comm_value x (ap_comm (P a)) a (fst ci) (snd ci)) (RI a)) ags).
  Proof.
    induction ags as [|a r IH]; intros Hi; cbn [repair_dcop flat_map].
    - exists []. simpl. auto.
    - destruct (agent_dcop_spec a (Hi a (or_introl eq_refl))) as (d & E & Fh & Fs).
      destruct IH as (ds & Ed & Gh & Gs); [intros y Hy; apply Hi; simpl; auto|].
      rewrite E, Ed. cbn [bind]. exists (d :: ds). split; auto. cbn [flat_map].
      split; apply Forall2_app; auto.
  Qed.

  (* the repair rules *)
  Definition valid : Prop :=
    (forall c, In c orph -> cand c <> [] -> nsel c = 1%nat) /\
    (forall a, In a agents -> load a <= ap_remaining (P a)).

  Definition hard_values : list Z :=
    flat_map (fun a => map hosted_val (map fst (RI a)) ++ [capacity_val a]) agents.
  Definition soft_total : Z := zsum (map (fun a => hosting_val a + comm_val a) agents).

  Lemma hard_values_nonneg : Forall (fun v => 0 <= v) hard_values.
  Proof.
    unfold hard_values. apply Forall_flat_map. apply Forall_forall. intros a _.
    apply Forall_app. split.
    - apply Forall_map. apply Forall_forall. intros c _. unfold hosted_val.
      destruct (Nat.eqb (nsel c) 1); lia.
    - constructor; auto. unfold capacity_val. destruct (load a <=? ap_remaining (P a)); lia.
  Qed.

  Lemma hard_values_zero_iff : Forall (fun v => v = 0) hard_values <-> valid.
  Proof.
    unfold hard_values, valid. rewrite Forall_flat_map, Forall_forall.
    assert (Hh : forall c, hosted_val c = 0 <-> nsel c = 1%nat).
    { intros c. unfold hosted_val. destruct (Nat.eqb_spec (nsel c) 1); split; intros; try lia; auto. }
    assert (Hcv : forall a, capacity_val a = 0 <-> load a <= ap_remaining (P a)).
    { intros a. unfold capacity_val. destruct (Z.leb_spec (load a) (ap_remaining (P a))); split; intros; try lia; auto. }
    split.
    - intros H. split.
      + intros c Hc Hne. destruct (cand c) as [|a l] eqn:Ec; [congruence|].
        assert (Ha : In a (cand c)) by (rewrite Ec; simpl; auto).
        assert (Hag : In a agents) by (eapply Hcagents; eauto).
        specialize (H a Hag). apply Forall_app in H as [H _].
        rewrite Forall_map, Forall_forall in H. apply Hh. apply H. apply (Hri a c Hag). auto.
      + intros a Ha. specialize (H a Ha). apply Forall_app in H as [_ H]. inversion H; subst.
        now apply Hcv.
    - intros [H1 H2] a Ha. apply Forall_app. split.
      + rewrite Forall_map, Forall_forall. intros c Hc. apply Hh.
        apply (Hri a c Ha) in Hc as [Hc Hac]. apply H1; auto. intro E. rewrite E in Hac. destruct Hac.
      + constructor; auto. apply Hcv. auto.
  Qed.

  Lemma zsum_flat_map {A} (f : A -> list Z) l : zsum (flat_map f l) = zsum (map (fun a => zsum (f a)) l).
  Proof. induction l as [|a r IH]; simpl; auto. rewrite zsum_app, IH. reflexivity. Qed.

  (* the bridge: hard part 0 iff the assignment is a valid rehosting; the soft part is the sum
     of the hosting and communication costs *)
  Lemma repair_dcop_zero_iff_valid_l :
    exists ds h, repair_dcop agents RI P = Ok ds /\
      hard_cost gbv x ds = Ok h /\ soft_cost gbv x ds = Ok soft_total /\
      0 <= h /\ (h = 0 <-> valid).
  Proof.
    destruct (repair_dcop_spec agents (incl_refl _)) as (ds & E & Fh & Fs).
    exists ds, (zsum hard_values). split; auto.
    split; [unfold hard_cost; now apply eval_sum_ok|].
    split.
    - unfold soft_cost. rewrite (eval_sum_ok _ _ _ _ Fs). f_equal.
      rewrite zsum_flat_map. unfold soft_total, comm_val. reflexivity.
    - destruct (zsum_nonneg_zero _ hard_values_nonneg) as [H1 H2].
      split; auto. rewrite H2. apply hard_values_zero_iff.
  Qed.

  (* ---- the soft cost of a valid assignment is the cost of the rehosting it encodes ---- *)
  (* the agent selected for computation n (None: no candidate, n stays lost) *)
  Definition new_host (n : string) : option string :=
    hd_error (filter (fun a => x (n, a) =? 1) (cand n)).
  (* communication cost of candidate c on agent a towards its neighbours, after the repair *)
  Definition rehost_comm (a c : string) (i : info) : Z :=
    let '(_, fixed, cn) := i in
    zsum (map (fun na => ap_comm (P a) c (fst na) (snd na)) fixed)
    + zsum (map (fun ns => match new_host (fst ns) with
                           | Some h => ap_comm (P a) c (fst ns) h | None => 0 end) cn).
  Definition rehosting_cost : Z :=
    zsum (map (fun a => zsum (map (fun ci => x (fst ci, a) * (ap_hosting (P a) (fst ci)
                                                              + rehost_comm a (fst ci) (snd ci)))
                                  (RI a))) agents).

  Lemma sel_sum n (g : string -> Z) : In n orph -> (cand n <> [] -> nsel n = 1%nat) ->
    zsum (map (fun a' => x (n, a') * g a') (cand n))
    = match new_host n with Some h => g h | None => 0 end.
  Proof.
    intros Hn Hone.
    rewrite <- (map_map (fun a' => (n, a')) (fun k => x k * g (snd k))).
    rewrite (binary_weighted (fun k => g (snd k)) x).
    - rewrite filter_map_comm, map_map. simpl. unfold new_host, nsel in *.
      destruct (cand n) as [|a0 l0] eqn:Ec; [reflexivity|].
      specialize (Hone ltac:(discriminate)).
      destruct (filter (fun a => x (n, a) =? 1) (a0 :: l0)) as [|h [|h2 t]]; simpl in *; try lia.
    - intros k Hk. apply in_map_iff in Hk as [a' [<- Ha']]. apply Hbin.
      apply in_map_iff. exists ((n, a'), bname (n, a')). split; auto. now apply In_gbv.
  Qed.

  Lemma zsum_map_add {A} (f g : A -> Z) l :
    zsum (map f l) + zsum (map g l) = zsum (map (fun a => f a + g a) l).
  Proof. induction l; simpl; lia. Qed.

  Lemma soft_total_rehosting : valid -> soft_total = rehosting_cost.
  Proof.
    intros [V1 V2]. unfold soft_total, rehosting_cost. f_equal. apply map_ext_in. intros a Ha.
    unfold hosting_val, comm_val. rewrite map_map, zsum_map_add. f_equal. apply map_ext_in.
    intros [c [[cs fx] cn]] Hin. cbn [fst snd]. unfold comm_value, rehost_comm.
    destruct (Hinfo a c cs fx cn Ha Hin) as [_ Hcn].
    assert (Hs : zsum (map (fun ns : string * list string =>
                   zsum (map (fun va => x (fst ns, va) * ap_comm (P a) c (fst ns) va) (snd ns))) cn)
               = zsum (map (fun ns : string * list string => match new_host (fst ns) with
                      | Some h => ap_comm (P a) c (fst ns) h | None => 0 end) cn)).
    { f_equal. apply map_ext_in. intros [n l] Hnl. cbn [fst snd].
      destruct (Hcn n l Hnl) as [Ho ->]. apply (sel_sum n (fun va => ap_comm (P a) c n va)); auto. }
    rewrite Hs. lia.
  Qed.

  Lemma repair_dcop_cost_of_rehosting_l :
    exists ds h s, repair_dcop agents RI P = Ok ds /\
      hard_cost gbv x ds = Ok h /\ soft_cost gbv x ds = Ok s /\
      0 <= h /\ (h = 0 <-> valid) /\ (h = 0 -> s = rehosting_cost).
  Proof.
    destruct repair_dcop_zero_iff_valid_l as (ds & h & E & Eh & Es & H0 & Hv).
    exists ds, h, soft_total. split; auto. split; auto. split; auto. split; auto. split; auto.
    intros Hz. apply soft_total_rehosting. now apply Hv.
  Qed.
End Problem.

(* ---------- instantiation on the removal helpers ---------- *)
Lemma dict_set_nodup_keys {V} k (v : V) l :
  NoDup (map fst l) -> NoDup (map fst (dict_set String.eqb k v l)).
Proof.
  induction l as [|[k0 v0] r IH]; simpl; intros H.
  - constructor; auto.
  - inversion H; subst. destruct (String.eqb k k0) eqn:E; simpl.
    + constructor; auto.
    + constructor; auto. intro Hin. apply in_map_iff in Hin as [[k1 v1] [E1 Hin]]. simpl in E1. subst k1.
      apply (In_dict_set String.eqb string_eqb_iff) in Hin as [Hin|Hin].
      * inversion Hin; subst. rewrite String.eqb_refl in E. discriminate.
      * apply H2. apply in_map_iff. exists (k0, v1). auto.
Qed.

Lemma agt_info_loop_nodup departed g d cs : forall acc l,
  agt_info_loop cs departed g d acc = Ok l -> NoDup (map fst acc) -> NoDup (map fst l).
Proof.
  induction cs as [|c r IH]; simpl; intros acc l H Hn.
  - inversion H; subst. auto.
  - destruct (computation_info c departed g d) as [i|e]; simpl in H; [|discriminate].
    eapply IH; eauto. now apply dict_set_nodup_keys.
Qed.

(* candidates of a computation: surviving holders of one of its replicas *)
Definition cand_of (departed : list string) (d : discovery) (c : string) : list string :=
  set_diff (dedup (replicas_of d c)) departed.

Lemma repair_dcop_zero_iff_valid_l2 departed g d (P : string -> aparams) (x : bkey -> Z)
  agents (RI : string -> list (string * info)) :
  let orph := dedup (orphaned departed d) in
  let cand := cand_of departed d in
  candidate_agents departed d = Ok agents ->
  (forall a, In a agents -> candidate_agt_info a departed g d = Ok (RI a)) ->
  NoDup (map snd (all_binvars orph cand)) ->
  binary_on (all_binvars orph cand) x ->
  exists ds h s, repair_dcop agents RI P = Ok ds /\
    hard_cost (all_binvars orph cand) x ds = Ok h /\
    soft_cost (all_binvars orph cand) x ds = Ok s /\
    0 <= h /\ (h = 0 <-> valid agents orph cand RI P x) /\
    (h = 0 -> s = rehosting_cost agents cand RI P x).
Proof.
  intros orph cand Hag Hri Hnames Hbin.
  destruct (candidates_exact_l departed d) as (l & El & Hnd & Hl).
  rewrite Hag in El. inversion El; subst l. clear El.
  assert (Horph : forall c, In c orph <-> In c (orphaned departed d)) by (intros; apply In_dedup).
  assert (Hcand : forall c a, In a (cand c) <-> In a (replicas_of d c) /\ ~ In a departed).
  { intros c a. unfold cand, cand_of. now rewrite In_set_diff, In_dedup. }
  apply repair_dcop_cost_of_rehosting_l; auto.
  - intros c _. unfold cand, cand_of. apply NoDup_set_diff, NoDup_dedup.
  - intros a Ha. specialize (Hri a Ha). unfold candidate_agt_info in Hri.
    destruct (candidate_computations_for_agt a (orphaned departed d) d) as [cs|]; simpl in Hri; [|discriminate].
    eapply agt_info_loop_nodup; eauto. constructor.
  - intros a c Ha. destruct (agt_info_keys_exact_l _ _ _ _ _ (Hri a Ha)) as [K _].
    rewrite K, Horph, Hcand. apply Hl in Ha as [Hnd' _]. tauto.
  - intros a c cs fx cn Ha Hin. destruct (agt_info_keys_exact_l _ _ _ _ _ (Hri a Ha)) as [_ K].
    specialize (K _ _ Hin). apply computation_info_inv in K as (ns & _ & _ & -> & Hloop).
    split; [reflexivity|]. intros n l Hnl.
    destruct (info_loop_spec _ _ _ _ _ _ _ _ _ Hloop) as (_ & B & _).
    destruct (B n l Hnl) as [[]|(_ & _ & Ho & ->)]. split; [now apply Horph|reflexivity].
  - intros c a Hc Ha. apply Hl. apply Hcand in Ha as [H1 H2]. split; auto.
    exists c. split; auto. now apply Horph.
Qed.

(* non-vacuity on the 3x2 grid of tests/unit/test_reparation_removal.py: a1 and a4 leave, c1
   and c4 are orphaned with candidates a2, a5 *)
Open Scope string_scope.
Definition ex_d := mkDisc [("c1", "a1"); ("c2", "a2"); ("c3", "a3"); ("c4", "a4"); ("c5", "a5"); ("c6", "a8")]
                  [("c1", ["a2"; "a5"]); ("c2", ["a3"; "a6"]); ("c3", ["a1"; "a4"]);
                   ("c4", ["a2"; "a5"]); ("c5", ["a3"; "a6"]); ("c6", ["a1"; "a4"])].
Definition ex_g : graph := [("c1", ["c2"; "c4"]); ("c2", ["c1"; "c3"; "c5"]); ("c3", ["c2"; "c6"]);
            ("c4", ["c1"; "c5"]); ("c5", ["c2"; "c4"; "c6"]); ("c6", ["c3"; "c5"])].
Definition ex_RI (a : string) := match candidate_agt_info a ["a1"; "a4"] ex_g ex_d with Ok l => l | Err _ => [] end.
Definition ex_P (a : string) := mkAP 30 (fun _ => 25) (fun c => if String.eqb c "c1" then 10 else 3)
                                    (fun c n h => if String.eqb h a then 0 else 7).
Definition ex_x (k : bkey) : Z :=
  if bkey_eqb k ("c1", "a2") || bkey_eqb k ("c4", "a5") then 1 else 0.
Definition ex_bad (k : bkey) : Z := if bkey_eqb k ("c1", "a2") || bkey_eqb k ("c4", "a2") then 1 else 0.
Close Scope string_scope.
