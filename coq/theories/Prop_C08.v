(* Prop_C08.v -- C08: synchronous computations run in proper rounds under any asynchronous
   order.  Statements only; every proof is `exact` of a lemma of P_SyncMixin.

   Setting: [nbrs] any neighbour relation with [graph_ok] (duplicate-free, symmetric,
   irreflexive neighbour lists), [G] any hosted algorithm with [algo_ok] (each round it
   addresses each neighbour at most once, and only neighbours: the mixin's documented
   contract), [sync_proto nbrs G] the model of SynchronousComputationMixin over the network
   of Net.v, any schedule of Start / per-channel-FIFO Deliver actions, any start order. *)
From PyDcop Require Import Base Net NetPause M_SyncMixin P_SyncMixin P_SyncPause.
Local Open Scope nat_scope.

(* neither ComputationException branch (nor the ValueError of _switch_cycle) is reachable *)
Theorem sync_no_error : forall A P nbrs (G : algo A P), graph_ok nbrs -> algo_ok nbrs G ->
  forall sched n k, ~ In (EvRaise n k) (snd (run (sync_proto nbrs G) sched)).
Proof. exact (@sync_no_error_l). Qed.

(* the on_new_cycle call with id k at node n is handed exactly one entry per neighbour a
   that posted an algorithm payload with stamp k (the payload it posted), and nothing for a
   neighbour that only sent the implicit synchronisation; no sender appears twice *)
Theorem sync_round_inputs : forall A P nbrs (G : algo A P), graph_ok nbrs -> algo_ok nbrs G ->
  forall cf act n k msgs,
    reachable (sync_proto nbrs G) cf ->
    In (EvCycle n k msgs) (snd (step (sync_proto nbrs G) cf act)) ->
    k = cur (w_st (nodes cf n)) /\ NoDup (map fst msgs) /\ incl (map fst msgs) (nbrs n) /\
    (forall a, In a (nbrs n) ->
       exists x, In (k, n, x) (outlog (w_st (nodes cf a))) /\ zlookup a msgs = x).
Proof. exact (@sync_round_inputs_l). Qed.

(* ... where the log holds exactly one entry per (stamp, target): "the" message a posted *)
Theorem sync_log_unique : forall A P nbrs (G : algo A P), graph_ok nbrs -> algo_ok nbrs G ->
  forall cf a k t x y, reachable (sync_proto nbrs G) cf ->
    In (k, t, x) (outlog (w_st (nodes cf a))) -> In (k, t, y) (outlog (w_st (nodes cf a))) -> x = y.
Proof. exact (@sync_log_unique_l). Qed.

(* every computation advances round by round: its on_new_cycle calls carry ids 0,1,2,... *)
Theorem sync_rounds_consecutive : forall A P nbrs (G : algo A P), graph_ok nbrs -> algo_ok nbrs G ->
  forall sched x,
    cycle_ids x (snd (run (sync_proto nbrs G) sched))
      = seq 0 (count_cyc x (snd (run (sync_proto nbrs G) sched))) /\
    cur (w_st (nodes (fst (run (sync_proto nbrs G) sched)) x))
      = count_cyc x (snd (run (sync_proto nbrs G) sched)).
Proof. exact (@sync_rounds_consecutive_l). Qed.

Theorem sync_neighbours_one_apart : forall A P nbrs (G : algo A P), graph_ok nbrs -> algo_ok nbrs G ->
  forall cf a b, reachable (sync_proto nbrs G) cf -> In a (nbrs b) ->
    w_running (nodes cf a) = true -> w_running (nodes cf b) = true ->
    cur (w_st (nodes cf a)) <= S (cur (w_st (nodes cf b))).
Proof. exact (@sync_neighbours_one_apart_l). Qed.

(* no deadlock: once all computations of a neighbour-closed set have started, some message is
   always in flight, so a fair schedule keeps every one of them switching cycles *)
Theorem sync_never_stuck : forall A P nbrs (G : algo A P), graph_ok nbrs -> algo_ok nbrs G ->
  forall cf V, reachable (sync_proto nbrs G) cf ->
    (forall x, In x V -> w_running (nodes cf x) = true) ->
    (forall x, In x V -> incl (nbrs x) V) ->
    (exists x, In x V /\ nbrs x <> []) ->
    ~ (forall a b, chan cf a b = []).
Proof. exact (@sync_never_stuck_l). Qed.

(* ---- pause / resume of started computations (what the orchestrator does around scenario events)
   is a stutter of the network model: for EVERY protocol plugged into Net.v, every run with pauses
   emits the events of its projected schedule (no P / R actions, no deliveries to a paused
   computation -- the `model_schedule` of the driver) run on the plain network, and ends in the
   abstraction of its final configuration (held messages back in front of their channels), which is
   a reachable plain configuration.  Hence every theorem about [run] / [reachable] above (and those
   of C03, C04, C05, C07, which use the same Net.v) speaks about paused runs too. *)
Theorem pause_is_stutter : forall (St Msg Ev : Type) (P : proto St Msg Ev) (sched : list eaction),
  snd (run P (snd (erun P sched))) = snd (fst (erun P sched)) /\
  ceq (abs (fst (fst (erun P sched)))) (fst (run P (snd (erun P sched)))) /\
  reachable P (fst (run P (snd (erun P sched)))) /\
  EInv (fst (fst (erun P sched))).
Proof. exact pause_is_stutter_l. Qed.

(* once everything is resumed the configuration itself (states, hold buffers, channels) is the plain one *)
Theorem resumed_is_plain : forall (St Msg Ev : Type) (P : proto St Msg Ev) (sched : list eaction),
  (forall n, e_paused (fst (fst (erun P sched))) n = false) ->
  ceq (e_cf (fst (fst (erun P sched)))) (fst (run P (snd (erun P sched)))).
Proof. exact resumed_is_plain_l. Qed.

(* C08 with pauses: no error branch is reachable, neighbours stay one round apart *)
Theorem sync_no_error_paused : forall A P nbrs (G : algo A P), graph_ok nbrs -> algo_ok nbrs G ->
  forall (sched : list eaction) n k, ~ In (EvRaise n k) (snd (fst (erun (sync_proto nbrs G) sched))).
Proof. exact sync_no_error_paused_l. Qed.

Theorem sync_neighbours_one_apart_paused : forall A P nbrs (G : algo A P), graph_ok nbrs -> algo_ok nbrs G ->
  forall (sched : list eaction) a b,
    let e := fst (fst (erun (sync_proto nbrs G) sched)) in
    In a (nbrs b) ->
    w_running (nodes (e_cf e) a) = true -> w_running (nodes (e_cf e) b) = true ->
    (cur (w_st (nodes (e_cf e) a)) <= S (cur (w_st (nodes (e_cf e) b))))%nat.
Proof. exact sync_neighbours_one_apart_paused_l. Qed.

Print Assumptions sync_no_error.
Print Assumptions pause_is_stutter.
Print Assumptions sync_no_error_paused.
Print Assumptions sync_round_inputs.
Print Assumptions sync_never_stuck.

(* ---- non-vacuity: a path 0 - 1 - 2 with a table-driven algorithm satisfies the hypotheses
   and a concrete asynchronous schedule makes node 1 run on_new_cycle with both payloads *)
Definition ex_graph : list (node * list node) := [(0, [1]); (1, [0; 2]); (2, [1])]%Z.
Definition ex_plan : plan_t :=
  [(0, [([(1, 7, -1)], [])]); (1, [([(0, 5, -1); (2, 6, -1)], []); ([], [(2, 9, 0)])]);
   (2, [([(1, 8, -1)], [])])]%Z.

Ltac case_eqb a :=
  repeat match goal with
         | |- context [Z.eqb a ?c] => destruct (Z.eqb_spec a c); subst; simpl
         | H : context [Z.eqb a ?c] |- _ => destruct (Z.eqb_spec a c); subst; simpl in H
         end.
Ltac nodup_list := repeat (constructor; [simpl; intuition congruence|]); try constructor.

Example c08_graph_ok : graph_ok (nbrs_of ex_graph).
Proof.
  unfold graph_ok, nbrs_of, ex_graph, zlookup. split; [|split].
  - intros a. simpl. case_eqb a; nodup_list.
  - intros a b. simpl. intros H. case_eqb b; simpl in H; intuition (subst; simpl; auto).
  - intros a. simpl. case_eqb a; simpl; intuition congruence.
Qed.

Example c08_algo_ok : algo_ok (nbrs_of ex_graph) (table_algo ex_plan).
Proof.
  unfold algo_ok, targets_ok, table_algo, plan_at, nbrs_of, ex_graph, ex_plan, zlookup; simpl. split.
  - intros n _. case_eqb n; (split; [nodup_list | intros y Hy; simpl in *; intuition]).
  - intros n _ k msgs. case_eqb n; destruct k as [|[|k]]; simpl; unfold resolve; simpl;
      try (destruct (zlookup 0 msgs)); simpl;
      (split; [nodup_list | intros y Hy; simpl in *; intuition]).
Qed.

Example c08_nonvacuous :
  let P := sync_proto (nbrs_of ex_graph) (table_algo ex_plan) in
  map ev_to_o (snd (run P [Start 0; Start 2; Deliver 0 1; Start 1; Deliver 2 1; Deliver 0 1]%Z))
    = [OCycle 1 0 [(2, 8); (0, 7)]]%Z.
Proof. vm_compute. reflexivity. Qed.

(* non-vacuity of the pause theorems: node 1 is paused while both neighbours' round-0 messages arrive
   (held, not handled), then resumed: the held messages come back in front of their channels and the
   projected schedule has neither the pause actions nor the two held deliveries *)
Example c08_pause_nonvacuous :
  let P := sync_proto (nbrs_of ex_graph) (table_algo ex_plan) in
  let r := erun P [EStart 0; EStart 2; EStart 1; EPause 1; EDeliver 0 1; EDeliver 2 1; EResume 1;
                   EDeliver 0 1; EDeliver 2 1]%Z in
  map ev_to_o (snd (fst r)) = [OCycle 1 0 [(0, 7); (2, 8)]]%Z /\
  snd r = [Start 0; Start 2; Start 1; Deliver 0 1; Deliver 2 1]%Z.
Proof. vm_compute. split; reflexivity. Qed.
