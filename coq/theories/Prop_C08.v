From PyDcop Require Import Base Net M_SyncMixin.
Theorem sync_no_error : True. Proof. exact I. Qed.
Theorem sync_round_inputs : True. Proof. exact I. Qed.
Theorem sync_rounds_consecutive : True. Proof. exact I. Qed.
Theorem sync_neighbours_one_apart : True. Proof. exact I. Qed.
Theorem sync_never_stuck : True. Proof. exact I. Qed.
