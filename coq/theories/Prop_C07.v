(* [deepened: the full MGM statement (mgm_terminates_k, mgm_no_deadlock, mgm_trace_ok, the barrier
   invariant) is now proved for every schedule in P_Mgm3*.v -- see the section 'deepening' below;
   the text that follows describes the first version; DSA: see 'deepening, DSA'; MGM2: see 'deepening 2, MGM2'
   (global barrier invariant, partner handshake, termination after k cycles, no deadlock, every schedule)] *)
(* Prop_C07.v -- C07: cycle-bounded local search (MGM, MGM2, DSA) finishes after stop_cycle cycles.
   Only statements; each closed by an exact lemma from P_Mgm / P_Dsa / P_Mgm2.

   Full statement of the property (mgm_terminates_k / dsa_terminates_k / mgm2_terminates_k): for
   every DCOP, k > 0, oracle and every schedule of starts and per-channel-FIFO deliveries, every
   computation emits EvFinished exactly once, with cycle counter k (0, at start, without
   neighbour); no handler raises; a configuration with all nodes started and all channels empty
   has every computation finished and every postponed list empty.

   Proved here, for all inputs and ALL schedules: the safety half for MGM that the model itself
   needs (no re-entrant postponed processing -- the model's only error branch -- under any
   schedule), and the node-local facts of the statement for the three algorithms (start of a
   variable without neighbour; finished() only when the counter has reached stop_cycle, sending
   nothing; a stopped DSA computation stays silent).  NOT proved: the global barrier invariant
   (neighbours at most one phase apart, one message per phase and channel) from which "exactly
   once", "cycle counter = k" and "quiescent => all finished" follow; that part of C07 rests on
   the correspondence runs (full event traces, final states and channel contents of the real
   computations against these models under seeded FIFO schedules) and on the oracle of
   harness/props/C07.py.  Hence the suffix _partial on the statements that are weaker than the
   property. *)
From PyDcop Require Import Base Net M_Mgm M_Dsa M_Mgm2 P_Mgm P_Dsa P_Mgm2 P_Mgm3 P_Mgm3c P_Mgm3b P_Dsa3.
From PyDcop Require M_Mgm2x P_Mgm2x P_Mgm2y P_Mgm2z.

(* MGM, every schedule: the handlers never process a postponed list re-entrantly (no EvErr event
   at all: the model has no other error branch), and every started computation has an empty
   postponed-value list while it waits for values, an empty postponed-gain list while it waits
   for gains *)
Theorem mgm_no_reentrancy_partial : forall d stop orc sched,
  no_err (snd (run (mgm_proto d stop orc) sched)) /\ cinv orc (fst (run (mgm_proto d stop orc) sched)).
Proof. exact mgm_no_reentrancy_lemma. Qed.

(* "immediately if it has no neighbour": value selected, finished reported once, nothing sent *)
Theorem mgm_isolated_finishes : forall d stop orc n, nbrs d n = [] ->
  exists s, mgm_start d stop n (mgm_init orc n)
            = (s, [], [EvValue n (fst (isolated_choice d n)) (Some (snd (isolated_choice d n))) 0; EvFinished n 0])
            /\ m_fin s = 1 /\ m_value s = Some (fst (isolated_choice d n)).
Proof. exact mgm_isolated_finishes_l. Qed.

Theorem dsa_isolated_finishes : forall d stop variant prob fovc orc n, nbrs d n = [] ->
  exists s, dsa_start d stop variant prob fovc n (dsa_init orc n)
            = (s, [], [EvValue n (fst (optimal_cost_value d n)) (Some (snd (optimal_cost_value d n))) 0; EvFinished n 0])
            /\ ds_fin s = 1 /\ ds_stopped s = true.
Proof. exact dsa_isolated_finishes_l. Qed.

Theorem mgm2_isolated_finishes : forall d stop thr favor orc n, nbrs d n = [] ->
  exists s v c, mgm2_start d stop thr favor n (mgm2_init orc n) = (s, [], [EvValue n v c 0; EvFinished n 0])
                /\ t_fin s = 1.
Proof. exact mgm2_isolated_finishes_l. Qed.

(* finished() comes only from _send_value / evaluate_cycle when the counter has reached
   stop_cycle > 0, and then no value message leaves *)
Theorem mgm_finished_at_stop_partial : forall d stop n s s' o e k,
  send_value d stop n s = (s', o, e) -> In (EvFinished n k) e ->
  stop <> 0 /\ stop <= k /\ k = m_cycle s + 1 /\ o = [].
Proof. exact send_value_finished. Qed.

Theorem dsa_finished_at_stop_partial : forall d stop variant prob fovc n s s' o e k,
  evaluate_cycle d stop variant prob fovc n s = (s', o, e) -> In (EvFinished n k) e ->
  stop <> 0 /\ stop <= k /\ k = ds_cycle s' /\ o = [] /\ ds_stopped s' = true.
Proof. exact dsa_evaluate_finished_l. Qed.

(* a DSA computation that has finished never reports, selects or sends anything again *)
Theorem dsa_stopped_silent_partial : forall d stop variant prob fovc n s src m, ds_stopped s = true ->
  (exists s', dsa_recv d stop variant prob fovc n s src m = (s', [], [])
              /\ ds_stopped s' = true /\ ds_fin s' = ds_fin s /\ ds_value s' = ds_value s /\ ds_cycle s' = ds_cycle s)
  \/ (exists g, m = MGain g).
Proof. exact dsa_stopped_silent_l. Qed.

(* ------------------------------------------------------------------ deepening (P_Mgm3*.v)
   MGM, FULL statement of C07, every DCOP, oracle and EVERY schedule of starts and FIFO deliveries.

   The global barrier invariant [P_Mgm3.Inv] (statement in P_Mgm3.v): value phase / gain phase
   alternate; for every ordered pair of neighbours (a,b), what b has consumed from a (completed
   phases + current table + postponed list), then b's pre-start buffer, then channel (a,b) are
   exactly the consecutive messages a has produced -- with their payloads: the j-th message of a
   is the value (j even) or the gain (j odd) of round j/2 of the synchronous reference run
   [P_Mgm3.siter] (iteration of M_Mgm.mgm_next with the node's own draws); the tables are never
   complete at rest; postponed senders are in the current table; a finished computation holds
   nothing. *)
Theorem mgm_barrier_invariant : forall d stop orc, 0 <= stop -> forall cf,
  reachable (mgm_proto d stop orc) cf -> Inv d stop orc cf.
Proof. exact reachable_inv. Qed.

(* neighbours are at most one phase (half a cycle) apart *)
Theorem mgm_neighbours_one_phase_apart : forall d stop orc cf a b, 0 <= stop ->
  reachable (mgm_proto d stop orc) cf -> In a (nbrs d b) ->
  (ph (w_st (nodes cf b)) <= ph (w_st (nodes cf a)) + 1)%nat.
Proof. exact mgm_one_phase_apart_l. Qed.

(* every execution: no handler error; every value selection stamped k selects the value of the
   reference run after k rounds; finished() carries cycle counter stop_cycle (0 for a variable
   without neighbour) and is reported at most once per computation *)
Theorem mgm_trace_ok : forall d stop orc sched, 0 <= stop ->
  let evs := snd (run (mgm_proto d stop orc) sched) in
  (forall n k, ~ In (EvErr n k) evs) /\
  (forall n v c k, In (EvValue n v c k) evs -> 0 <= k /\ v = RA d orc (Z.to_nat k) n) /\
  (forall n k, In (EvFinished n k) evs -> k = fin_cycle d stop n) /\
  (forall x, (count_fin x evs <= 1)%nat).
Proof. exact mgm_trace_ok_closed. Qed.

(* mgm_terminates_k: for every k > 0 and every schedule ending in a quiescent configuration (every
   computation that has a neighbour started, no message in flight), there was no error and every
   started computation has reported finished EXACTLY once, with cycle counter k (0 without
   neighbour), holds no postponed or buffered message and waits in state "values" *)
Theorem mgm_terminates_k : forall d stop orc sched, 0 < stop ->
  let cf := fst (run (mgm_proto d stop orc) sched) in
  let evs := snd (run (mgm_proto d stop orc) sched) in
  (forall x, nbrs d x <> [] -> w_running (nodes cf x) = true) ->
  (forall a b, chan cf a b = []) ->
  (forall n k, ~ In (EvErr n k) evs) /\
  (forall x, w_running (nodes cf x) = true ->
     count_fin x evs = 1%nat /\
     (forall k, In (EvFinished x k) evs -> k = fin_cycle d stop x) /\
     m_cycle (w_st (nodes cf x)) = fin_cycle d stop x /\
     m_fin (w_st (nodes cf x)) = 1 /\ w_held (nodes cf x) = [] /\
     (nbrs d x <> [] -> m_state (w_st (nodes cf x)) = SValues /\ m_nv (w_st (nodes cf x)) = [] /\
        m_ng (w_st (nodes cf x)) = [] /\ m_pv (w_st (nodes cf x)) = [] /\ m_pg (w_st (nodes cf x)) = [])).
Proof. exact mgm_terminates_k_closed. Qed.

(* no computation is left waiting for a message that will never come: while some computation with
   a neighbour has not finished (all of them started), a message is in flight (stop = 0: always) *)
Theorem mgm_no_deadlock : forall d stop orc cf, 0 <= stop ->
  reachable (mgm_proto d stop orc) cf ->
  (forall x, nbrs d x <> [] -> w_running (nodes cf x) = true) ->
  (exists x, nbrs d x <> [] /\ finb stop (w_st (nodes cf x)) = false) ->
  ~ (forall a b, chan cf a b = []).
Proof. exact mgm_no_deadlock_closed. Qed.

(* ------------------------------------------------------------------ deepening, DSA (P_Dsa3.v)
   the same for DsaComputation: global barrier invariant [P_Dsa3.DInv] (per ordered pair of
   neighbours the messages buffered + in flight are what a has sent minus what b has consumed =
   cycle counter + current_cycle entry + next_cycle entry; all of them are value messages;
   current_cycle never complete at rest; next_cycle senders are in current_cycle; a stopped
   computation holds nothing), every DCOP, variant, probability, oracle, EVERY schedule *)
Theorem dsa_barrier_invariant : forall d stop variant prob fovc orc, 0 <= stop -> forall cf,
  reachable (dsa_proto d stop variant prob fovc orc) cf -> DInv d stop orc cf.
Proof. exact dreachable_inv. Qed.

Theorem dsa_neighbours_one_cycle_apart : forall d stop variant prob fovc orc, 0 <= stop -> forall cf a b,
  reachable (dsa_proto d stop variant prob fovc orc) cf -> In a (nbrs d b) ->
  ds_cycle (w_st (nodes cf b)) <= ds_cycle (w_st (nodes cf a)) + 1.
Proof. exact dsa_one_cycle_apart_l. Qed.

(* no error event (in particular no gain message ever reaches a DSA computation); finished() carries
   cycle counter stop_cycle (0 without neighbour), at most once per computation *)
Theorem dsa_trace_ok : forall d stop variant prob fovc orc, 0 <= stop -> forall sched,
  let evs := snd (run (dsa_proto d stop variant prob fovc orc) sched) in
  (forall n k, ~ In (EvErr n k) evs) /\
  (forall n k, In (EvFinished n k) evs -> k = fin_cycle d stop n) /\
  (forall x, (count_fin x evs <= 1)%nat /\
             Z.of_nat (count_fin x evs) = ds_fin (w_st (nodes (fst (run (dsa_proto d stop variant prob fovc orc) sched)) x))).
Proof. exact dsa_trace_ok_l. Qed.

(* dsa_terminates_k (full): k > 0, final configuration with every computation that has a neighbour
   started and no message in flight => no error, every started computation finished exactly once with
   cycle counter k (0 without neighbour), is stopped and holds nothing *)
Theorem dsa_terminates_k : forall d stop variant prob fovc orc sched, 0 < stop ->
  let cf := fst (run (dsa_proto d stop variant prob fovc orc) sched) in
  let evs := snd (run (dsa_proto d stop variant prob fovc orc) sched) in
  (forall x, nbrs d x <> [] -> w_running (nodes cf x) = true) -> (forall a b, chan cf a b = []) ->
  (forall n k, ~ In (EvErr n k) evs) /\
  (forall x, w_running (nodes cf x) = true ->
     count_fin x evs = 1%nat /\ (forall k, In (EvFinished x k) evs -> k = fin_cycle d stop x) /\
     ds_cycle (w_st (nodes cf x)) = fin_cycle d stop x /\ ds_fin (w_st (nodes cf x)) = 1 /\
     w_held (nodes cf x) = [] /\
     (nbrs d x <> [] -> ds_stopped (w_st (nodes cf x)) = true /\ ds_cur (w_st (nodes cf x)) = [] /\
                        ds_nxt (w_st (nodes cf x)) = [] /\ ds_held (w_st (nodes cf x)) = [])).
Proof. exact dsa_terminates_k_closed. Qed.

Theorem dsa_no_deadlock : forall d stop variant prob fovc orc, 0 <= stop -> forall cf,
  reachable (dsa_proto d stop variant prob fovc orc) cf ->
  (forall x, nbrs d x <> [] -> w_running (nodes cf x) = true) ->
  (exists x, nbrs d x <> [] /\ ds_stopped (w_st (nodes cf x)) = false) -> ~ (forall a b, chan cf a b = []).
Proof. exact dsa_no_deadlock_l. Qed.

(* ------------------------------------------------------------------ deepening 2, MGM2 (P_Mgm2x/y/s*/f/z.v)
   Mgm2Computation, five phases (value, offer, answer?, gain, go?), every DCOP, threshold, favor mode,
   oracle, EVERY schedule.  The statements are about [M_Mgm2x.mgm2_proto_f fuel]: the protocol of M_Mgm2
   with the fuel of the nested handler -> _enter_state -> handler recursion as a parameter (the real code
   has none); [M_Mgm2.mgm2_proto], the model compared with the implementation, is the instance fuel = 60
   (mgm2_run_fuel60), enough when no variable has more than 5 neighbours ([fuel_ok]: 10 * degree + 2).
   The pending bag of an ordered pair (x, y) is [P_Mgm2z.pend]: pre-start buffer of y ++ channel (x,y) ++
   the messages of x in the five postponed lists of y.
   mgm2_barrier_invariant ([P_Mgm2z.InvC], details in P_Mgm2y.v): idle computations are untouched;
   per computation [good]: state in 1..5, cycle >= 1, finished flag = [stop reached], the three tables
   duplicate-free, inside the neighbours, complete exactly from the next phase on, flags consistent
   (offerer has a partner; committed only from state gain on, with a non-zero gain and a partner; state
   answer? only for offerers, state go? only for committed computations); per ordered pair of neighbours
   [pairI]: pending values / offers / gains = sent - consumed (cycle counters and table entries), an
   answer is pending exactly when the receiver is an offerer in state offer/answer? whose partner is the
   sender and the sender has handled its offers, a go/no-go exactly when the receiver is committed to the
   sender and the sender has sent it, an offer's flag says whether the sender chose the receiver, an
   accepting answer comes from a committed non-offerer and carries a non-zero gain, committed partners
   point at each other; nothing between non-neighbours; the postponed list of the awaited kind is empty
   at rest and every postponed list holds messages of its own kind only *)
Theorem mgm2_barrier_invariant : forall d stop thr favor orc fuel, P_Mgm2z.fuel_ok d fuel -> forall cf,
  reachable (M_Mgm2x.mgm2_proto_f d stop thr favor orc fuel) cf -> P_Mgm2z.InvC d stop orc cf.
Proof. exact P_Mgm2z.reachable_inv. Qed.

(* phases alternate in step: neighbours are at most one cycle apart, the one ahead waits for values while
   the other is still in gain / go?; inside a cycle nobody is past "offer" before its neighbour has sent
   its value, nor in go? before its neighbour has sent its gain *)
Theorem mgm2_phase_order : forall d stop thr favor orc fuel cf a b, P_Mgm2z.fuel_ok d fuel ->
  reachable (M_Mgm2x.mgm2_proto_f d stop thr favor orc fuel) cf -> In a (nbrs d b) ->
  w_running (nodes cf a) = true -> w_running (nodes cf b) = true ->
  let sa := w_st (nodes cf a) in let sb := w_st (nodes cf b) in
  t_cycle sa <= t_cycle sb + 1 /\
  (t_cycle sa = t_cycle sb + 1 -> t_state sa = 1 /\ 4 <= t_state sb) /\
  (t_cycle sa = t_cycle sb -> (3 <= t_state sa -> 2 <= t_state sb) /\ (t_state sa = 5 -> 4 <= t_state sb)).
Proof. exact P_Mgm2z.mgm2_phase_order_l. Qed.

(* the partner-only exchanges: an answer can only be pending towards an offerer in state offer/answer?,
   from its partner, exactly one and none from anybody else; a go/no-go only towards a committed
   computation, from its partner, exactly one; and conversely an offerer waiting in answer? whose partner
   has handled its offers HAS its answer pending, a committed computation in go? whose partner has sent
   its decision HAS it pending (code: offers go to ALL neighbours, with an empty non-offering content for
   the non-partners; answers go to the offering neighbours only) *)
Theorem mgm2_partner_handshake : forall d stop thr favor orc fuel, P_Mgm2z.fuel_ok d fuel -> forall cf x y,
  reachable (M_Mgm2x.mgm2_proto_f d stop thr favor orc fuel) cf ->
  (forall a v g, In (M2Answer a v g) (P_Mgm2z.pend cf x y) ->
     t_offerer (P_Mgm2z.st cf y) = true /\ t_partner (P_Mgm2z.st cf y) = Some x /\ 2 <= t_state (P_Mgm2z.st cf y) <= 3 /\
     P_Mgm2y.cnt 3 (P_Mgm2z.pend cf x y) = 1 /\ (forall z, z <> x -> P_Mgm2y.cnt 3 (P_Mgm2z.pend cf z y) = 0)) /\
  (forall go, In (M2Go go) (P_Mgm2z.pend cf x y) ->
     t_committed (P_Mgm2z.st cf y) = true /\ t_partner (P_Mgm2z.st cf y) = Some x /\ 4 <= t_state (P_Mgm2z.st cf y) /\
     P_Mgm2y.cnt 5 (P_Mgm2z.pend cf x y) = 1 /\ (forall z, z <> x -> P_Mgm2y.cnt 5 (P_Mgm2z.pend cf z y) = 0)) /\
  (In x (nbrs d y) -> t_state (P_Mgm2z.st cf y) = 3 -> t_partner (P_Mgm2z.st cf y) = Some x -> 3 <= t_state (P_Mgm2z.st cf x) ->
     P_Mgm2y.cnt 3 (P_Mgm2z.pend cf x y) = 1) /\
  (In x (nbrs d y) -> t_state (P_Mgm2z.st cf y) = 5 -> t_partner (P_Mgm2z.st cf y) = Some x ->
     P_Mgm2y.sentGo (P_Mgm2z.st cf) x y -> P_Mgm2y.cnt 5 (P_Mgm2z.pend cf x y) = 1).
Proof. exact P_Mgm2z.mgm2_partner_handshake_l. Qed.

(* no error event under any schedule: no handler raises (EvErr 1: _handle_response_message never gets an
   answer from a non-partner or as a non-offerer), the re-dispatch of postponed messages never loops
   (EvErr 7); finished() carries cycle counter stop_cycle (0 without neighbour), at most once *)
Theorem mgm2_trace_ok : forall d stop thr favor orc fuel, P_Mgm2z.fuel_ok d fuel -> forall sched, 0 <= stop ->
  let cf := fst (run (M_Mgm2x.mgm2_proto_f d stop thr favor orc fuel) sched) in
  let evs := snd (run (M_Mgm2x.mgm2_proto_f d stop thr favor orc fuel) sched) in
  (forall n k, ~ In (EvErr n k) evs) /\
  (forall n k, In (EvFinished n k) evs -> k = fin_cycle d stop n) /\
  (forall x, (count_fin x evs <= 1)%nat /\ Z.of_nat (count_fin x evs) = t_fin (P_Mgm2z.st cf x)).
Proof. exact P_Mgm2z.mgm2_trace_ok_l. Qed.

(* mgm2_terminates_k (full): k > 0, final configuration with every computation that has a neighbour
   started and no message in flight => no error, every started computation finished exactly once with
   cycle counter k (0 without neighbour), waits in state value with empty tables and nothing postponed *)
Theorem mgm2_terminates_k : forall d stop thr favor orc fuel sched, P_Mgm2z.fuel_ok d fuel -> 0 < stop ->
  let cf := fst (run (M_Mgm2x.mgm2_proto_f d stop thr favor orc fuel) sched) in
  let evs := snd (run (M_Mgm2x.mgm2_proto_f d stop thr favor orc fuel) sched) in
  (forall x, nbrs d x <> [] -> w_running (nodes cf x) = true) -> (forall a b, chan cf a b = []) ->
  (forall n k, ~ In (EvErr n k) evs) /\
  (forall x, w_running (nodes cf x) = true ->
     count_fin x evs = 1%nat /\ (forall k, In (EvFinished x k) evs -> k = fin_cycle d stop x) /\
     t_cycle (w_st (nodes cf x)) = fin_cycle d stop x /\ t_fin (w_st (nodes cf x)) = 1 /\
     w_held (nodes cf x) = [] /\
     (nbrs d x <> [] ->
        t_state (w_st (nodes cf x)) = 1 /\ t_nv (w_st (nodes cf x)) = [] /\ t_offers (w_st (nodes cf x)) = [] /\
        t_ng (w_st (nodes cf x)) = [] /\ P_Mgm2z.allposts (w_st (nodes cf x)) = [])).
Proof. exact P_Mgm2z.mgm2_terminates_k_run_l. Qed.

(* no computation is left waiting (for a value, an offer, the answer of its partner, a gain or the go/no-go
   of its partner) for a message that will never come *)
Theorem mgm2_no_deadlock : forall d stop thr favor orc fuel, P_Mgm2z.fuel_ok d fuel -> forall cf,
  reachable (M_Mgm2x.mgm2_proto_f d stop thr favor orc fuel) cf ->
  (forall x, nbrs d x <> [] -> P_Mgm2z.rnc cf x = true) ->
  (exists x, nbrs d x <> [] /\ P_Mgm2x.doneb stop (t_cycle (P_Mgm2z.st cf x)) = false) ->
  ~ (forall a b, chan cf a b = []).
Proof. exact P_Mgm2z.mgm2_no_deadlock_l. Qed.

(* the model compared with the real code is the instance fuel = 60, and 60 is enough up to degree 5 *)
Theorem mgm2_run_fuel60 : forall d stop thr favor orc sched,
  run (mgm2_proto d stop thr favor orc) sched = run (M_Mgm2x.mgm2_proto_f d stop thr favor orc FUEL) sched.
Proof. exact P_Mgm2z.mgm2_run_FUEL. Qed.

Theorem mgm2_terminates_k_fuel60 : forall d stop thr favor orc sched,
  (forall n, (List.length (nbrs d n) <= 5)%nat) -> 0 < stop ->
  let cf := fst (run (mgm2_proto d stop thr favor orc) sched) in
  let evs := snd (run (mgm2_proto d stop thr favor orc) sched) in
  (forall x, nbrs d x <> [] -> w_running (nodes cf x) = true) -> (forall a b, chan cf a b = []) ->
  (forall n k, ~ In (EvErr n k) evs) /\
  (forall x, w_running (nodes cf x) = true ->
     count_fin x evs = 1%nat /\ (forall k, In (EvFinished x k) evs -> k = fin_cycle d stop x) /\
     t_cycle (w_st (nodes cf x)) = fin_cycle d stop x /\ t_fin (w_st (nodes cf x)) = 1).
Proof. exact P_Mgm2z.mgm2_terminates_k_FUEL_l. Qed.

(* non-vacuity for MGM2: the two-variable instance of the C03 witness (w03_d, w03_sched of P_Mgm2.v), stop_cycle 2, complete
   run with an accepted offer and a coordinated move: both started, degree 1 <= 5, all channels empty at the
   end, both finished exactly once with cycle counter 2 *)
Example c07_nonvacuous_mgm2 :
  let r := run w03_proto w03_sched in
  map (fun x => w_running (nodes (fst r) x)) [0; 1] = [true; true]
  /\ map (nbrs w03_d) [0; 1] = [[1]; [0]]
  /\ chan (fst r) 0 1 = [] /\ chan (fst r) 1 0 = []
  /\ map (fun x => count_fin x (snd r)) [0; 1] = [1%nat; 1%nat]
  /\ map (fun x => t_cycle (w_st (nodes (fst r) x))) [0; 1] = [2; 2]
  /\ existsb (fun e => match e with EvErr _ _ => true | _ => false end) (snd r) = false.
Proof. vm_compute. repeat split; reflexivity. Qed.

(* non-vacuity: two MGM computations sharing one constraint, stop_cycle = 2, v1 started first and its
   value delivered to v0 before v0 starts (held, then re-injected); the schedule is complete: both
   finish exactly once with cycle counter 2 and all channels are empty at the end *)
Definition ex_d : dcop :=
  mkD [(0, mkV [0; 1] (Some 0) []); (1, mkV [0; 1] (Some 0) [])]
      [mkC [0; 1] [([0; 0], 3); ([0; 1], 1); ([1; 0], 2); ([1; 1], 4)]] false.
Definition ex_sched : list (@action) :=
  [Start 1; Deliver 1 0; Start 0; Deliver 1 0; Deliver 0 1; Deliver 0 1; Deliver 1 0].
Example c07_nonvacuous :
  let r := run (mgm_proto ex_d 2 (fun _ => [])) ex_sched in
  snd r = [EvValue 1 0 None 0; EvCycle 1 1; EvValue 0 0 None 0; EvCycle 0 1;
           EvValue 1 1 (Some 1) 1; EvCycle 1 2; EvFinished 1 2; EvCycle 0 2; EvFinished 0 2]
  /\ chan (fst r) 0 1 = [] /\ chan (fst r) 1 0 = []
  /\ m_fin (w_st (nodes (fst r) 0)) = 1 /\ m_fin (w_st (nodes (fst r) 1)) = 1.
Proof. vm_compute. repeat split; reflexivity. Qed.
(* the hypotheses of mgm_terminates_k hold for this run (both started, every channel between the
   two computations empty) and the reference run gives the values the trace shows: (0,0) then (0,1) *)
Example c07_nonvacuous_ref :
  let r := run (mgm_proto ex_d 2 (fun _ => [])) ex_sched in
  map (fun x => w_running (nodes (fst r) x)) [0; 1] = [true; true]
  /\ map (nbrs ex_d) [0; 1] = [[1]; [0]]
  /\ map (RA ex_d (fun _ => []) 0) [0; 1] = [0; 0] /\ map (RA ex_d (fun _ => []) 1) [0; 1] = [0; 1]
  /\ map (fun x => count_fin x (snd r)) [0; 1] = [1%nat; 1%nat] /\ fin_cycle ex_d 2 0 = 2.
Proof. vm_compute. repeat split; reflexivity. Qed.

(* DSA on the same instance (variant A, probability 1, stop_cycle 2): complete run, both finish once
   with cycle counter 2 *)
Example c07_nonvacuous_dsa :
  let r := run (dsa_proto ex_d 2 0 1000 false (fun _ => [0; 0; 0; 0; 0; 0])) 
               [Start 0; Start 1; Deliver 0 1; Deliver 1 0; Deliver 0 1; Deliver 1 0] in
  map (fun x => count_fin x (snd r)) [0; 1] = [1%nat; 1%nat]
  /\ map (fun x => ds_cycle (w_st (nodes (fst r) x))) [0; 1] = [2; 2]
  /\ chan (fst r) 0 1 = [] /\ chan (fst r) 1 0 = [].
Proof. vm_compute. repeat split; reflexivity. Qed.
