(* Prop_C07.v -- C07: cycle-bounded local search (MGM, MGM2, DSA) finishes after stop_cycle cycles.
   Only statements; each closed by an exact lemma from P_Mgm / P_Dsa / P_Mgm2.

   Full statement of the property (mgm_terminates_k / dsa_terminates_k / mgm2_terminates_k): for
   every DCOP, k > 0, oracle and every schedule of starts and per-channel-FIFO deliveries, every
   computation emits EvFinished exactly once, with cycle counter k (0, at start, without
   neighbour); no handler raises; a configuration with all nodes started and all channels empty
   has every computation finished and every postponed list empty.

   Proved here, for all inputs and ALL schedules: the safety half for MGM that the model itself
   needs (no re-entrant postponed processing -- the model's only error branch -- under any
   schedule), and the node-local facts of the statement for the three algorithms (start of a
   variable without neighbour; finished() only when the counter has reached stop_cycle, sending
   nothing; a stopped DSA computation stays silent).  NOT proved: the global barrier invariant
   (neighbours at most one phase apart, one message per phase and channel) from which "exactly
   once", "cycle counter = k" and "quiescent => all finished" follow; that part of C07 rests on
   the correspondence runs (full event traces, final states and channel contents of the real
   computations against these models under seeded FIFO schedules) and on the oracle of
   harness/props/C07.py.  Hence the suffix _partial on the statements that are weaker than the
   property. *)
From PyDcop Require Import Base Net M_Mgm M_Dsa M_Mgm2 P_Mgm P_Dsa P_Mgm2.

(* MGM, every schedule: the handlers never process a postponed list re-entrantly (no EvErr event
   at all: the model has no other error branch), and every started computation has an empty
   postponed-value list while it waits for values, an empty postponed-gain list while it waits
   for gains *)
Theorem mgm_no_reentrancy_partial : forall d stop orc sched,
  no_err (snd (run (mgm_proto d stop orc) sched)) /\ cinv orc (fst (run (mgm_proto d stop orc) sched)).
Proof. exact mgm_no_reentrancy_lemma. Qed.

(* "immediately if it has no neighbour": value selected, finished reported once, nothing sent *)
Theorem mgm_isolated_finishes : forall d stop orc n, nbrs d n = [] ->
  exists s, mgm_start d stop n (mgm_init orc n)
            = (s, [], [EvValue n (fst (isolated_choice d n)) (Some (snd (isolated_choice d n))) 0; EvFinished n 0])
            /\ m_fin s = 1 /\ m_value s = Some (fst (isolated_choice d n)).
Proof. exact mgm_isolated_finishes_l. Qed.

Theorem dsa_isolated_finishes : forall d stop variant prob fovc orc n, nbrs d n = [] ->
  exists s, dsa_start d stop variant prob fovc n (dsa_init orc n)
            = (s, [], [EvValue n (fst (optimal_cost_value d n)) (Some (snd (optimal_cost_value d n))) 0; EvFinished n 0])
            /\ ds_fin s = 1 /\ ds_stopped s = true.
Proof. exact dsa_isolated_finishes_l. Qed.

Theorem mgm2_isolated_finishes : forall d stop thr favor orc n, nbrs d n = [] ->
  exists s v c, mgm2_start d stop thr favor n (mgm2_init orc n) = (s, [], [EvValue n v c 0; EvFinished n 0])
                /\ t_fin s = 1.
Proof. exact mgm2_isolated_finishes_l. Qed.

(* finished() comes only from _send_value / evaluate_cycle when the counter has reached
   stop_cycle > 0, and then no value message leaves *)
Theorem mgm_finished_at_stop_partial : forall d stop n s s' o e k,
  send_value d stop n s = (s', o, e) -> In (EvFinished n k) e ->
  stop <> 0 /\ stop <= k /\ k = m_cycle s + 1 /\ o = [].
Proof. exact send_value_finished. Qed.

Theorem dsa_finished_at_stop_partial : forall d stop variant prob fovc n s s' o e k,
  evaluate_cycle d stop variant prob fovc n s = (s', o, e) -> In (EvFinished n k) e ->
  stop <> 0 /\ stop <= k /\ k = ds_cycle s' /\ o = [] /\ ds_stopped s' = true.
Proof. exact dsa_evaluate_finished_l. Qed.

(* a DSA computation that has finished never reports, selects or sends anything again *)
Theorem dsa_stopped_silent_partial : forall d stop variant prob fovc n s src m, ds_stopped s = true ->
  (exists s', dsa_recv d stop variant prob fovc n s src m = (s', [], [])
              /\ ds_stopped s' = true /\ ds_fin s' = ds_fin s /\ ds_value s' = ds_value s /\ ds_cycle s' = ds_cycle s)
  \/ (exists g, m = MGain g).
Proof. exact dsa_stopped_silent_l. Qed.

(* non-vacuity: two MGM computations sharing one constraint, stop_cycle = 2, v1 started first and its
   value delivered to v0 before v0 starts (held, then re-injected); the schedule is complete: both
   finish exactly once with cycle counter 2 and all channels are empty at the end *)
Definition ex_d : dcop :=
  mkD [(0, mkV [0; 1] (Some 0) []); (1, mkV [0; 1] (Some 0) [])]
      [mkC [0; 1] [([0; 0], 3); ([0; 1], 1); ([1; 0], 2); ([1; 1], 4)]] false.
Definition ex_sched : list (@action) :=
  [Start 1; Deliver 1 0; Start 0; Deliver 1 0; Deliver 0 1; Deliver 0 1; Deliver 1 0].
Example c07_nonvacuous :
  let r := run (mgm_proto ex_d 2 (fun _ => [])) ex_sched in
  snd r = [EvValue 1 0 None 0; EvCycle 1 1; EvValue 0 0 None 0; EvCycle 0 1;
           EvValue 1 1 (Some 1) 1; EvCycle 1 2; EvFinished 1 2; EvCycle 0 2; EvFinished 0 2]
  /\ chan (fst r) 0 1 = [] /\ chan (fst r) 1 0 = []
  /\ m_fin (w_st (nodes (fst r) 0)) = 1 /\ m_fin (w_st (nodes (fst r) 1)) = 1.
Proof. vm_compute. repeat split; reflexivity. Qed.
