(* M_Yaml.v -- executable model of pydcop/dcop/yamldcop.py (C14): dcop_yaml (dump side:
   _yaml_domains, _yaml_variables, _yaml_constraints, yaml_agents) and load_dcop (load side:
   _build_domains, _build_variables, _build_constraints, _build_agents), plus the pieces of
   objects.py they use (Domain.index, Domain.to_domain_value, Variable's initial-value check,
   AgentDef).  The boundary with PyYAML is the plain tree handed to yaml.dump / returned by
   yaml.load; it is modelled as the typed tree [ytree] (the YAML schema of pyDCOP, every key
   optional).  Strings are real strings: the "v1 v2 | v3 v4" encoding of extensional
   constraints is produced with [join] and parsed with [split_on]/[split_ws] as the code does
   with str.join / str.split.  Models only; proofs are in P_Yaml.v. *)
From PyDcop Require Import Base M_AgentDef.
From Coq Require Import DecimalString Decimal.

(* ---------- errors / result ---------- *)
Inductive err := EValue | EKey | EType | EAttr | EIndex | EFormat | ENotModelled.
Inductive result (A : Type) := Ok (a : A) | Err (e : err).
Arguments Ok {A} a.
Arguments Err {A} e.

Definition bind {A B} (r : result A) (f : A -> result B) : result B :=
  match r with Ok a => f a | Err e => Err e end.
Notation "'do' x <- r ; k" := (bind r (fun x => k)) (at level 200, x name, r at level 100, k at level 200).

Fixpoint mapM {A B} (f : A -> result B) (l : list A) : result (list B) :=
  match l with
  | [] => Ok []
  | x :: r => do y <- f x; do ys <- mapM f r; Ok (y :: ys)
  end.

Fixpoint foldM {A S} (f : S -> A -> result S) (l : list A) (s : S) : result S :=
  match l with
  | [] => Ok s
  | x :: r => do s' <- f s x; foldM f r s'
  end.

Definition of_opt {A} (e : err) (o : option A) : result A :=
  match o with Some a => Ok a | None => Err e end.

(* ---------- strings: str.split(sep), str.split(), str.strip() ---------- *)
Definition is_ws (c : ascii) : bool :=
  let n := nat_of_ascii c in
  ((9 <=? n)%nat && (n <=? 13)%nat) || ((28 <=? n)%nat && (n <=? 32)%nat).
Definition is_bar (c : ascii) : bool := Ascii.eqb c "|"%char.

(* s.split(c) for a one-character separator class: keeps empty pieces; "".split("|") = [""] *)
Fixpoint split_on (p : ascii -> bool) (s : string) : list string :=
  match s with
  | EmptyString => [EmptyString]
  | String c r =>
      if p c then EmptyString :: split_on p r
      else match split_on p r with
           | h :: t => String c h :: t
           | [] => [String c EmptyString]
           end
  end.

Definition nonempty (s : string) : bool := match s with EmptyString => false | _ => true end.
(* s.split(): runs of whitespace separate, no empty piece *)
Definition split_ws (s : string) : list string := filter nonempty (split_on is_ws s).

Fixpoint lstrip (s : string) : string :=
  match s with
  | EmptyString => EmptyString
  | String c r => if is_ws c then lstrip r else s
  end.
Fixpoint rstrip (s : string) : string :=
  match s with
  | EmptyString => EmptyString
  | String c r => let r' := rstrip r in
                  if is_ws c && negb (nonempty r') then EmptyString else String c r'
  end.
Definition strip (s : string) : string := rstrip (lstrip s).

(* ".." in s *)
Fixpoint has_dotdot (s : string) : bool :=
  match s with
  | String "."%char (String "."%char _ as r) => true
  | String _ r => has_dotdot r
  | EmptyString => false
  end.

(* ---------- values, domains, variables ---------- *)
Inductive value := VInt (z : Z) | VStr (s : string).
Definition value_eqb (a b : value) : bool :=       (* Python ==  (1 == "1" is False) *)
  match a, b with
  | VInt x, VInt y => Z.eqb x y
  | VStr x, VStr y => String.eqb x y
  | _, _ => false
  end.
Definition str_of_Z (z : Z) : string := NilZero.string_of_int (Z.to_int z).
Definition str_value (v : value) : string :=       (* str(v) *)
  match v with VInt z => str_of_Z z | VStr s => s end.
Definition truthy (v : value) : bool :=
  match v with VInt z => negb (Z.eqb z 0) | VStr s => nonempty s end.

Record domain := mkDom { d_name : string; d_type : string; d_values : list value }.
Record variable := mkVar { v_name : string; v_dom : domain; v_init : option value }.

Fixpoint index_of {A} (p : A -> bool) (l : list A) : option nat :=
  match l with
  | [] => None
  | x :: r => if p x then Some O else option_map S (index_of p r)
  end.
(* Domain.index(val): first position with an == value *)
Definition dom_index (d : domain) (v : value) : option nat := index_of (value_eqb v) (d_values d).
(* Domain.to_domain_value(tok): first position whose str() is the token *)
Definition to_domain_value (d : domain) (tok : string) : option nat :=
  index_of (fun v => String.eqb (str_value v) tok) (d_values d).
Definition in_values (v : value) (l : list value) : bool := existsb (value_eqb v) l.

(* ---------- constraints of the DCOP given to dcop_yaml ---------- *)
(* NAryMatrixRelation (or any relation without an .expression) = its table keyed by index
   tuples; relations with an .expression = the expression text. *)
Definition tuple := list nat.
Definition tuple_eqb : tuple -> tuple -> bool := list_eqb Nat.eqb.

Inductive constraint :=
| CExt (name : string) (dims : list variable) (table : list (tuple * Z))
| CInt (name : string) (expr : string).

Definition c_name (c : constraint) : string :=
  match c with CExt n _ _ => n | CInt n _ => n end.

Record dcop := mkDcop {
  dc_name : string; dc_objective : string;
  dc_domains : list domain;          (* dcop.domains.values() *)
  dc_variables : list variable;      (* dcop.variables.values() *)
  dc_constraints : list constraint;  (* dcop.constraints.values() *)
  dc_agents : list agentdef          (* dcop.agents.values() *)
}.

(* ---------- the YAML tree (schema of the format, every key optional) ---------- *)
Record ydom := mkYDom { yd_values : list value; yd_type : option string }.
Record yvar := mkYVar { yv_domain : option string; yv_init : option value }.
Inductive yassign := AStr (s : string) | AVal (v : value).
Inductive yvars := YVList (l : list string) | YVOne (s : string).
Record ycons := mkYCons {
  yc_type : option string; yc_function : option string; yc_variables : option yvars;
  yc_values : option (list (Z * yassign)); yc_default : option Z }.
Inductive yagents := YAMap (l : list (string * list (string * Z))) | YAList (l : list string).
Inductive yroute := YRScalar (z : Z) | YRTable (t : list (string * Z)).
Inductive yhost := YHScalar (z : Z) | YHTable (dflt : option Z) (comps : option (list (string * Z))).
Record ytree := mkTree {
  y_name : option string; y_objective : option string;
  y_domains : option (list (string * ydom));
  y_variables : option (list (string * yvar));
  y_constraints : option (list (string * ycons));
  y_agents : option yagents;
  y_routes : option (list (string * yroute));
  y_hosting : option (list (string * yhost)) }.

(* ================= dump side ================= *)
Definition sset {V} := @dict_set string V String.eqb.

(* _yaml_domains *)
Definition yaml_domains (ds : list domain) : list (string * ydom) :=
  fold_left (fun acc d => sset (d_name d) (mkYDom (d_values d) (Some (d_type d))) acc) ds [].

(* _yaml_variables *)
Definition yaml_variables (vs : list variable) : list (string * yvar) :=
  fold_left (fun acc v => sset (v_name v) (mkYVar (Some (d_name (v_dom v))) (v_init v)) acc) vs [].

(* itertools-like product, first list varies slowest *)
Fixpoint product {A} (ls : list (list A)) : list (list A) :=
  match ls with
  | [] => [[]]
  | l :: r => flat_map (fun x => map (cons x) (product r)) l
  end.

(* generate_assignment_as_dict(dims): the LAST variable is the outermost loop.  An
   assignment is the list of values aligned with dims (variable names of one constraint are
   distinct). *)
Fixpoint gen_assign_rev (rdoms : list (list value)) : list (list value) :=
  match rdoms with
  | [] => [[]]
  | d :: r => flat_map (fun x => map (fun a => a ++ [x]) (gen_assign_rev r)) d
  end.
Definition dim_values (dims : list variable) : list (list value) :=
  map (fun v => d_values (v_dom v)) dims.
Definition gen_assign (dims : list variable) : list (list value) :=
  gen_assign_rev (List.rev (dim_values dims)).

(* matrix position of an assignment: Domain.index on every dimension *)
Fixpoint indices (dims : list variable) (a : list value) : option tuple :=
  match dims, a with
  | [], [] => Some []
  | v :: dr, x :: ar =>
      match dom_index (v_dom v) x, indices dr ar with
      | Some i, Some r => Some (i :: r)
      | _, _ => None
      end
  | _, _ => None
  end.

(* r called with the assignment as keyword arguments *)
Definition rel_value (dims : list variable) (table : list (tuple * Z)) (a : list value) : result Z :=
  do t <- of_opt EValue (indices dims a);
  of_opt ENotModelled (lookup tuple_eqb t table).

(* values[val].append(ass_str) on a defaultdict(list) *)
Fixpoint dict_append {A} (k : Z) (s : A) (d : list (Z * list A)) : list (Z * list A) :=
  match d with
  | [] => [(k, [s])]
  | (k', l) :: r => if Z.eqb k k' then (k', l ++ [s]) :: r else (k', l) :: dict_append k s r
  end.
Definition group {A} (pairs : list (Z * A)) : list (Z * list A) :=
  fold_left (fun d p => dict_append (fst p) (snd p) d) pairs [].

Definition sp : string := " "%string.
Definition bar_sep : string := " | "%string.

Definition ext_pairs (dims : list variable) (table : list (tuple * Z)) : result (list (Z * string)) :=
  mapM (fun a => do c <- rel_value dims table a; Ok (c, join sp (map str_value a))) (gen_assign dims).

Definition ext_values (dims : list variable) (table : list (tuple * Z)) : result (list (Z * yassign)) :=
  do ps <- ext_pairs dims table;
  Ok (map (fun g => (fst g, AStr (join bar_sep (snd g)))) (group ps)).

Definition yaml_constraint (c : constraint) : result ycons :=
  match c with
  | CInt _ e => Ok (mkYCons (Some "intention"%string) (Some e) None None None)
  | CExt _ dims table =>
      do vals <- ext_values dims table;
      Ok (mkYCons (Some "extensional"%string) None (Some (YVList (map v_name dims))) (Some vals) None)
  end.

(* _yaml_constraints *)
Definition yaml_constraints (cs : list constraint) : result (list (string * ycons)) :=
  foldM (fun acc c => do y <- yaml_constraint c; Ok (sset (c_name c) y acc)) cs [].

(* yaml_agents.  hasattr(agt, "capacity") = the extra attribute exists *)
Definition capacity_s : string := "capacity"%string.
Definition default_s : string := "default"%string.

Definition agent_entry (a : agentdef) : list (string * Z) :=
  match getattr a capacity_s with Some c => [(capacity_s, c)] | None => [] end.

Definition is_nil {A} (l : list A) : bool := match l with [] => true | _ => false end.

Definition yaml_agents_agents (ags : list agentdef) : list (string * list (string * Z)) :=
  fold_left (fun acc a => sset (a_name a) (agent_entry a) acc) ags [].
Definition yaml_agents_hosting (ags : list agentdef) : list (string * yhost) :=
  fold_left (fun acc a =>
    if negb (Z.eqb (a_default_hosting a) 0) || negb (is_nil (a_hosting a))
    then sset (a_name a) (YHTable (Some (a_default_hosting a)) (Some (a_hosting a))) acc
    else acc) ags [].
Definition yaml_agents_routes (ags : list agentdef) : list (string * yroute) :=
  fold_left (fun acc a =>
    let acc1 := if negb (is_nil (a_routes a)) then sset (a_name a) (YRTable (a_routes a)) acc else acc in
    sset default_s (YRScalar (a_default_route a)) acc1) ags [].

Definition some_if_nonempty {A} (l : list A) : option (list A) :=
  match l with [] => None | _ => Some l end.

(* dcop_yaml: the union of the five dumped documents *)
Definition to_tree (d : dcop) : result ytree :=
  do cs <- yaml_constraints (dc_constraints d);
  Ok (mkTree (Some (dc_name d)) (Some (dc_objective d))
        (Some (yaml_domains (dc_domains d)))
        (Some (yaml_variables (dc_variables d)))
        (Some cs)
        (option_map YAMap (some_if_nonempty (yaml_agents_agents (dc_agents d))))
        (some_if_nonempty (yaml_agents_routes (dc_agents d)))
        (some_if_nonempty (yaml_agents_hosting (dc_agents d)))).

(* ================= load side ================= *)
Inductive lcons :=
| LExt (dims : list variable) (table : list (tuple * option Z))
| LInt (expr : string).

Record loaded := mkLoaded {
  l_name : string; l_objective : string;
  l_domains : list (string * domain);
  l_variables : list (string * variable);
  l_constraints : list (string * lcons);
  l_agents : list (string * agentdef) }.

Definition olist {A} (o : option (list A)) : list A := match o with Some l => l | None => [] end.

(* _build_domains (after the fix: a one-element domain is a range only if it is a str) *)
Definition build_domain (e : string * ydom) : result (string * domain) :=
  let (n, y) := e in
  do _ <- match yd_values y with
          | [VStr s] => if has_dotdot s then Err ENotModelled else Ok tt
          | _ => Ok tt
          end;
  Ok (n, mkDom n (match yd_type y with Some t => t | None => EmptyString end) (yd_values y)).
Definition build_domains (t : ytree) : result (list (string * domain)) :=
  mapM build_domain (olist (y_domains t)).

(* _build_variables + Variable.__init__ *)
Definition build_variable (doms : list (string * domain)) (e : string * yvar)
  : result (string * variable) :=
  let (n, y) := e in
  do dn <- of_opt EKey (yv_domain y);
  do d <- of_opt EKey (slookup dn doms);
  do _ <- match yv_init y with
          | Some iv => if in_values iv (d_values d) then Ok tt else Err EValue
          | None => Ok tt
          end;
  Ok (n, mkVar n d (yv_init y)).
Definition build_variables (t : ytree) (doms : list (string * domain)) :=
  mapM (build_variable doms) (olist (y_variables t)).

(* the numpy matrix: assignment_matrix(vars, default) keyed by index tuples, row-major *)
Definition shape_of (dims : list variable) : list nat :=
  map (fun v => List.length (d_values (v_dom v))) dims.
Definition all_tuples (shape : list nat) : list tuple := product (map (fun n => seq 0 n) shape).
Definition assignment_matrix (dims : list variable) (default : option Z) : list (tuple * option Z) :=
  map (fun t => (t, default)) (all_tuples (shape_of dims)).

(* tokens of one assignment -> matrix position (to_domain_value on every dimension).
   A wrong number of tokens is outside the model whatever the tokens are (the real code then
   indexes the nested lists with the wrong domains): decided before any token is looked up. *)
Fixpoint token_indices_rec (dims : list variable) (toks : list string) : result tuple :=
  match dims, toks with
  | [], [] => Ok []
  | v :: dr, tk :: tr =>
      do i <- of_opt EValue (to_domain_value (v_dom v) tk);
      do r <- token_indices_rec dr tr;
      Ok (i :: r)
  | _, _ => Err ENotModelled
  end.
Definition token_indices (dims : list variable) (toks : list string) : result tuple :=
  if Nat.eqb (List.length dims) (List.length toks) then token_indices_rec dims toks
  else Err ENotModelled.

Definition mat_set (t : tuple) (v : Z) (m : list (tuple * option Z)) : list (tuple * option Z) :=
  dict_set tuple_eqb t (Some v) m.

Definition ext_load_one (dims : list variable) (m : list (tuple * option Z)) (e : Z * yassign)
  : result (list (tuple * option Z)) :=
  match snd e with
  | AVal _ => Err EAttr                               (* int has no .split *)
  | AStr s =>
      foldM (fun m ass_def =>
               do t <- token_indices dims (split_ws ass_def);
               Ok (mat_set t (fst e) m))
            (split_on is_bar s) m
  end.

Definition nth_set {A} (i : nat) (x : A) (l : list A) : list A :=
  firstn i l ++ match skipn i l with [] => [] | _ :: r => x :: r end.

(* single-variable special case ("variables: v1" given as a plain string) *)
Definition ext_load_single (v : variable) (default : option Z) (vals : list (Z * yassign))
  : result (list (tuple * option Z)) :=
  do row <- foldM (fun row e =>
              match snd e with
              | AStr s =>
                  foldM (fun row ass_def =>
                           do i <- of_opt EValue (to_domain_value (v_dom v) (strip ass_def));
                           Ok (nth_set i (Some (fst e)) row))
                        (split_on is_bar s) row
              | AVal x =>
                  do i <- of_opt EValue (dom_index (v_dom v) x);
                  Ok (nth_set i (Some (fst e)) row)
              end) vals (repeat default (List.length (d_values (v_dom v))));
  Ok (combine (map (fun i => [i]) (seq 0 (List.length row))) row).

Definition build_constraint (vars : list (string * variable)) (e : string * ycons)
  : result (string * lcons) :=
  let (n, c) := e in
  match yc_type c with
  | None => Err EValue
  | Some ty =>
      if String.eqb ty "intention" then
        match yc_function c with
        | Some f => Ok (n, LInt f)
        | None => Err EKey
        end
      else if String.eqb ty "extensional" then
        do vals <- of_opt EKey (yc_values c);
        do vs <- of_opt EKey (yc_variables c);
        match vs with
        | YVOne s =>
            do v <- of_opt EKey (slookup (strip s) vars);
            do m <- ext_load_single v (yc_default c) vals;
            Ok (n, LExt [v] m)
        | YVList names =>
            do dims <- mapM (fun s => of_opt EKey (slookup s vars)) names;
            if is_nil dims || existsb (fun v => is_nil (d_values (v_dom v))) dims
            then Err ENotModelled
            else
              do m <- foldM (ext_load_one dims) vals (assignment_matrix dims (yc_default c));
              Ok (n, LExt dims m)
        end
      else Err EValue
  end.
Definition build_constraints (t : ytree) (vars : list (string * variable)) :=
  mapM (build_constraint vars) (olist (y_constraints t)).

(* _build_agents *)
Definition agents_list (t : ytree) : list (string * list (string * Z)) :=
  match y_agents t with
  | None => []
  | Some (YAMap l) => l
  | Some (YAList l) => map (fun n => (n, [])) l
  end.

Definition pair_key_eqb (a b : string * string) : bool :=
  String.eqb (fst a) (fst b) && String.eqb (snd a) (snd b).
Definition plookup {V} := @lookup (string * string) V pair_key_eqb.

(* the (a1,a2) -> cost dict and the default route *)
Definition routes_step (ags : list (string * list (string * Z)))
  (st : Z * list ((string * string) * Z)) (e : string * yroute)
  : result (Z * list ((string * string) * Z)) :=
  let (dr, routes) := st in
  let (a1, y) := e in
  if String.eqb a1 default_s then
    match y with YRScalar z => Ok (z, routes) | YRTable _ => Err ENotModelled end
  else if negb (mem_key String.eqb a1 ags) then Err EFormat
  else match y with
       | YRScalar _ => Err EType
       | YRTable tb =>
           do routes' <- foldM (fun routes (q : string * Z) =>
                let (a2, c) := q in
                if negb (mem_key String.eqb a2 ags) then Err EFormat
                else
                  do _ <- (if mem_key pair_key_eqb (a2, a1) routes || mem_key pair_key_eqb (a1, a2) routes
                           then match plookup (a2, a1) routes with
                                | None => Err EKey
                                | Some v => if Z.eqb v c then Ok tt else Err EFormat
                                end
                           else Ok tt);
                  Ok (dict_set pair_key_eqb (a1, a2) c routes)) tb routes;
           Ok (dr, routes')
       end.

Record hstate := mkH { h_default : Z; h_agt : list (string * Z); h_costs : list ((string * string) * Z) }.

Definition hosting_step (ags : list (string * list (string * Z))) (st : hstate) (e : string * yhost)
  : result hstate :=
  let (a, y) := e in
  if String.eqb a default_s then
    match y with
    | YHScalar z => Ok (mkH z (h_agt st) (h_costs st))
    | YHTable _ _ => Err ENotModelled
    end
  else if negb (mem_key String.eqb a ags) then Err EFormat
  else match y with
       | YHScalar _ => Err EType
       | YHTable dflt comps =>
           let agt := match dflt with Some z => sset a z (h_agt st) | None => h_agt st end in
           let costs := fold_left (fun cs (q : string * Z) => dict_set pair_key_eqb (a, fst q) (snd q) cs)
                                  (olist comps) (h_costs st) in
           Ok (mkH (h_default st) agt costs)
       end.

Definition routes_of (a : string) (routes : list ((string * string) * Z)) : list (string * Z) :=
  let r1 := map (fun q => (snd (fst q), snd q)) (filter (fun q => String.eqb (fst (fst q)) a) routes) in
  let r2 := map (fun q => (fst (fst q), snd q)) (filter (fun q => String.eqb (snd (fst q)) a) routes) in
  fold_left (fun d q => sset (fst q) (snd q) d) r2 (dict_of_list String.eqb r1).

Definition hosting_of (a : string) (costs : list ((string * string) * Z)) : list (string * Z) :=
  map (fun q => (snd (fst q), snd q)) (filter (fun q => String.eqb (fst (fst q)) a) costs).

Definition build_agents (t : ytree) : result (list (string * agentdef)) :=
  let ags := agents_list t in
  do rs <- foldM (routes_step ags) (olist (y_routes t)) (1, []);
  do hs <- foldM (hosting_step ags) (olist (y_hosting t)) (mkH 0 [] []);
  Ok (map (fun e =>
        let a := fst e in
        let d := match slookup a (h_agt hs) with Some z => z | None => h_default hs end in
        (a, mkAgent a (fst rs) (routes_of a (snd rs)) d (hosting_of a (h_costs hs)) (snd e))) ags).

(* load_dcop *)
Definition of_tree (t : ytree) : result loaded :=
  do name <- of_opt EValue (y_name t);
  do obj <- of_opt EValue (y_objective t);
  if negb (String.eqb obj "min" || String.eqb obj "max") then Err EValue else
  do doms <- build_domains t;
  do vars <- build_variables t doms;
  do cons <- build_constraints t vars;
  do ags <- build_agents t;
  Ok (mkLoaded name obj doms vars cons ags).

(* load_dcop_from_file(files): the texts are concatenated; on the tree level a file is a
   list of top-level sections and a later section with the same key replaces an earlier one
   (PyYAML keeps the last duplicate key). *)
Inductive section :=
| SecName (s : string) | SecObjective (s : string)
| SecDomains (l : list (string * ydom)) | SecVariables (l : list (string * yvar))
| SecConstraints (l : list (string * ycons)) | SecAgents (a : yagents)
| SecRoutes (l : list (string * yroute)) | SecHosting (l : list (string * yhost)).

Definition empty_tree : ytree := mkTree None None None None None None None None.
Definition set_section (t : ytree) (s : section) : ytree :=
  match s with
  | SecName x => mkTree (Some x) (y_objective t) (y_domains t) (y_variables t) (y_constraints t) (y_agents t) (y_routes t) (y_hosting t)
  | SecObjective x => mkTree (y_name t) (Some x) (y_domains t) (y_variables t) (y_constraints t) (y_agents t) (y_routes t) (y_hosting t)
  | SecDomains x => mkTree (y_name t) (y_objective t) (Some x) (y_variables t) (y_constraints t) (y_agents t) (y_routes t) (y_hosting t)
  | SecVariables x => mkTree (y_name t) (y_objective t) (y_domains t) (Some x) (y_constraints t) (y_agents t) (y_routes t) (y_hosting t)
  | SecConstraints x => mkTree (y_name t) (y_objective t) (y_domains t) (y_variables t) (Some x) (y_agents t) (y_routes t) (y_hosting t)
  | SecAgents x => mkTree (y_name t) (y_objective t) (y_domains t) (y_variables t) (y_constraints t) (Some x) (y_routes t) (y_hosting t)
  | SecRoutes x => mkTree (y_name t) (y_objective t) (y_domains t) (y_variables t) (y_constraints t) (y_agents t) (Some x) (y_hosting t)
  | SecHosting x => mkTree (y_name t) (y_objective t) (y_domains t) (y_variables t) (y_constraints t) (y_agents t) (y_routes t) (Some x)
  end.
Definition tree_of_sections (l : list section) : ytree := fold_left set_section l empty_tree.

Definition osec {A} (f : A -> section) (o : option A) : list section :=
  match o with Some x => [f x] | None => [] end.
(* the sections of a tree in the order dcop_yaml writes them *)
Definition sections_of (t : ytree) : list section :=
  osec SecName (y_name t) ++ osec SecObjective (y_objective t) ++ osec SecDomains (y_domains t)
  ++ osec SecVariables (y_variables t) ++ osec SecConstraints (y_constraints t)
  ++ osec SecAgents (y_agents t) ++ osec SecRoutes (y_routes t) ++ osec SecHosting (y_hosting t).

Definition load_files (files : list (list section)) : result loaded :=
  of_tree (tree_of_sections (List.concat files)).

(* ================= correspondence ================= *)
Definition err_eqb (a b : err) : bool :=
  match a, b with
  | EValue, EValue | EKey, EKey | EType, EType | EAttr, EAttr | EIndex, EIndex
  | EFormat, EFormat | ENotModelled, ENotModelled => true
  | _, _ => false
  end.
Definition result_eqb {A} (e : A -> A -> bool) (a b : result A) : bool :=
  match a, b with
  | Ok x, Ok y => e x y
  | Err x, Err y => err_eqb x y
  | _, _ => false
  end.
Definition ostr_eqb := option_eqb String.eqb.
Definition oz_eqb := option_eqb Z.eqb.
Definition values_eqb := list_eqb value_eqb.
Definition domain_eqb (a b : domain) : bool :=
  String.eqb (d_name a) (d_name b) && String.eqb (d_type a) (d_type b) && values_eqb (d_values a) (d_values b).
Definition variable_eqb (a b : variable) : bool :=
  String.eqb (v_name a) (v_name b) && domain_eqb (v_dom a) (v_dom b) && option_eqb value_eqb (v_init a) (v_init b).
Definition ydom_eqb (a b : ydom) : bool :=
  values_eqb (yd_values a) (yd_values b) && ostr_eqb (yd_type a) (yd_type b).
Definition yvar_eqb (a b : yvar) : bool :=
  ostr_eqb (yv_domain a) (yv_domain b) && option_eqb value_eqb (yv_init a) (yv_init b).
Definition yassign_eqb (a b : yassign) : bool :=
  match a, b with AStr x, AStr y => String.eqb x y | AVal x, AVal y => value_eqb x y | _, _ => false end.
Definition yvars_eqb (a b : yvars) : bool :=
  match a, b with
  | YVList x, YVList y => list_eqb String.eqb x y
  | YVOne x, YVOne y => String.eqb x y
  | _, _ => false
  end.
Definition ycons_eqb (a b : ycons) : bool :=
  ostr_eqb (yc_type a) (yc_type b) && ostr_eqb (yc_function a) (yc_function b)
  && option_eqb yvars_eqb (yc_variables a) (yc_variables b)
  && option_eqb (list_eqb (pair_eqb Z.eqb yassign_eqb)) (yc_values a) (yc_values b)
  && oz_eqb (yc_default a) (yc_default b).
Definition yagents_eqb (a b : yagents) : bool :=
  match a, b with
  | YAMap x, YAMap y => list_eqb (pair_eqb String.eqb szlist_eqb) x y
  | YAList x, YAList y => list_eqb String.eqb x y
  | _, _ => false
  end.
Definition yroute_eqb (a b : yroute) : bool :=
  match a, b with
  | YRScalar x, YRScalar y => Z.eqb x y
  | YRTable x, YRTable y => szlist_eqb x y
  | _, _ => false
  end.
Definition yhost_eqb (a b : yhost) : bool :=
  match a, b with
  | YHScalar x, YHScalar y => Z.eqb x y
  | YHTable d1 c1, YHTable d2 c2 => oz_eqb d1 d2 && option_eqb szlist_eqb c1 c2
  | _, _ => false
  end.
Definition sdict_eqb {V} (e : V -> V -> bool) := list_eqb (pair_eqb String.eqb e).
Definition ytree_eqb (a b : ytree) : bool :=
  ostr_eqb (y_name a) (y_name b) && ostr_eqb (y_objective a) (y_objective b)
  && option_eqb (sdict_eqb ydom_eqb) (y_domains a) (y_domains b)
  && option_eqb (sdict_eqb yvar_eqb) (y_variables a) (y_variables b)
  && option_eqb (sdict_eqb ycons_eqb) (y_constraints a) (y_constraints b)
  && option_eqb yagents_eqb (y_agents a) (y_agents b)
  && option_eqb (sdict_eqb yroute_eqb) (y_routes a) (y_routes b)
  && option_eqb (sdict_eqb yhost_eqb) (y_hosting a) (y_hosting b).
Definition lcons_eqb (a b : lcons) : bool :=
  match a, b with
  | LExt d1 t1, LExt d2 t2 =>
      list_eqb variable_eqb d1 d2 && list_eqb (pair_eqb tuple_eqb oz_eqb) t1 t2
  | LInt x, LInt y => String.eqb x y
  | _, _ => false
  end.
Definition loaded_eqb (a b : loaded) : bool :=
  String.eqb (l_name a) (l_name b) && String.eqb (l_objective a) (l_objective b)
  && sdict_eqb domain_eqb (l_domains a) (l_domains b)
  && sdict_eqb variable_eqb (l_variables a) (l_variables b)
  && sdict_eqb lcons_eqb (l_constraints a) (l_constraints b)
  && sdict_eqb agent_eqb (l_agents a) (l_agents b).

(* One case.  CRound: a DCOP, the tree the implementation handed to yaml.dump (or the
   exception), the files the text was split into as loaded trees' sections, and the DCOP the
   implementation loaded back.  CLoad: a hand-made tree and what load_dcop returned. *)
Inductive case :=
| CRound (d : dcop) (dumped : result ytree) (files : list (list section)) (obs : result loaded)
| CLoad (t : ytree) (obs : result loaded).

(* [Err ENotModelled] is decided by the input alone (a '..' range, a wrong number of tokens,
   an extensional constraint over no variable or over an empty domain, ...): such inputs are
   outside the model and are not compared. *)
Definition load_agrees (m obs : result loaded) : bool :=
  match m with
  | Err ENotModelled => true
  | _ => result_eqb loaded_eqb m obs
  end.

Definition check_case (c : case) : bool :=
  match c with
  | CRound d dumped files obs =>
      result_eqb ytree_eqb (to_tree d) dumped && load_agrees (load_files files) obs
  | CLoad t obs => load_agrees (of_tree t) obs
  end.
