(* Prop_C17.v -- C17: the pseudo-tree is a valid DFS forest for every constraint graph.
   Only statements; each closed by an exact lemma from P_PseudoTree.

   PT_valid g t (M_PseudoTree.v) is the full statement of C17 for a returned tree t:
   one node per variable; parent/children and pseudo-parent/pseudo-children converse and
   repeat-free; no cycle; back edges go to proper ancestors; every pair of variables
   sharing a constraint is linked by a tree edge or a back edge; each node carries exactly
   the constraints on its variable. *)
From PyDcop Require Import Base M_PseudoTree P_PseudoTree.

(* The verified checker: whatever tree passes pt_check is valid, for graphs and trees of
   any size.  The harness evaluates pt_check inside Coq on every tree returned by the real
   build_computation_graph. *)
Theorem pt_check_sound : forall g t, pt_check g t = true -> PT_valid g t.
Proof. exact pt_check_sound_l. Qed.

(* Every pair of constraint-sharing variables is in ancestor/descendant relation AND
   directly linked (tree edge or back edge). *)
Theorem pt_valid_ancestral : forall g t, PT_valid g t ->
  forall sc a b, In sc (g_rels g) -> In a sc -> In b sc -> a <> b ->
    (anc t a b \/ anc t b a) /\ linked t a b.
Proof. exact pt_valid_ancestral_l. Qed.

Theorem pt_valid_order : forall g t, PT_valid g t ->
  (forall a b, anc t a b -> ~ anc t b a) /\
  (forall a b, In b (t_children t a) -> anc t a b) /\
  (forall a b, In b (t_pcs t a) -> anc t a b) /\
  (forall a p, t_parent t a = Some p -> ~ In p (t_pcs t a) /\ ~ In p (t_children t a)).
Proof. exact pt_valid_order_l. Qed.

(* every node reaches a root by parent links *)
Theorem pt_valid_rooted : forall g t, PT_valid g t -> forall a, rooted t a.
Proof. exact pt_valid_rooted_l. Qed.

(* induction principles for consumers (DPOP): towards the root and towards the leaves *)
Theorem pt_valid_wf : forall g t, PT_valid g t ->
  well_founded (fun p a => t_parent t a = Some p) /\
  well_founded (fun c a => In c (t_children t a)).
Proof. exact pt_valid_wf_l. Qed.

(* the variables of one constraint lie on a single branch: the scope has a lowest node, all
   other variables of the scope are proper ancestors of it *)
Theorem pt_valid_scope_chain : forall g t, PT_valid g t ->
  forall sc, In sc (g_rels g) -> sc <> [] ->
  exists a, In a sc /\ forall b, In b sc -> b = a \/ anc t b a.
Proof. exact pt_valid_scope_chain_l. Qed.

(* ---- direct theorems about the model of the builder (build = build_computation_graph:
   _generate_dfs_tree with handle_token/_propagate, forest loop, node listing).
   [build g = Some (roots, t)]: None only stands for exhaustion of the recursion fuel. ---- *)

(* "each node carries exactly the constraints on its variable": full strength. *)
Theorem pt_constraints_exact : forall g roots t, build g = Some (roots, t) ->
  forall n, In n t ->
    n_rels n = rels_of g (n_id n) /\ NoDup (n_rels n) /\
    forall c, In c (n_rels n) <-> exists sc, scope_of g c = Some sc /\ In (n_id n) sc.
Proof. exact build_constraints_l. Qed.

(* FULL statement wanted (pt_nodes): NoDup (t_ids t) /\ forall v, In v (t_ids t) <-> In v (g_vars g).
   Proved: every variable has a node and every node (and root) is a variable.  Missing: that no
   variable gets two nodes (needs the DFS invariant "a child is unvisited when the token is
   passed to it"); that part is established per returned tree by pt_check. *)
Theorem pt_nodes_partial : forall g roots t, build g = Some (roots, t) ->
  (forall v, In v (t_ids t) <-> In v (g_vars g)) /\ incl roots (g_vars g).
Proof. exact build_nodes_l. Qed.

(* FULL statement wanted (pt_links_consistent, pt_acyclic, pt_edges_ancestral): PT_valid g t.
   Proved: every parent / child / pseudo-parent / pseudo-child link of every node joins two
   variables of the DCOP that share a constraint (tree and back edges are edges of the
   constraint graph).  Missing: the links are converse, acyclic and cover every constraint-sharing
   pair -- the DFS correctness proper; established per returned tree by pt_check (pt_check_sound). *)
Theorem pt_links_partial : forall g roots t, build g = Some (roots, t) ->
  forall n y, In n t ->
    (n_parent n = Some y \/ In y (n_children n) \/ In y (n_pps n) \/ In y (n_pcs n)) ->
    In y (g_vars g) /\ exists sc, In sc (g_rels g) /\ In (n_id n) sc /\ In y sc.
Proof. exact build_links_l. Qed.

(* non-vacuity: a 6-variable graph with a triangle, a 3-ary constraint, a unary constraint and an
   isolated variable: the builder model returns a two-tree forest with a back edge, the checker
   accepts it, hence it is PT_valid. *)
Example c17_nonvacuous :
  let g := mkGraph [0; 1; 2; 3; 4; 5] [[0; 1]; [1; 2]; [2; 0]; [2; 3; 4]; [4]] in
  exists roots t, build g = Some (roots, t) /\ List.length roots = 2%nat /\
    (exists n, In n t /\ n_pps n <> []) /\ pt_check g t = true /\ PT_valid g t.
Proof.
  intro g.
  destruct (build g) as [[roots t]|] eqn:E; [|vm_compute in E; discriminate].
  exists roots, t. vm_compute in E. inversion E; subst roots t; clear E.
  split; [reflexivity|]. split; [reflexivity|]. split.
  - eexists. split; [right; right; left; reflexivity|]. discriminate.
  - split; [vm_compute; reflexivity|]. apply pt_check_sound. vm_compute. reflexivity.
Qed.
