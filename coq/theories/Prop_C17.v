(* Prop_C17.v -- C17: the pseudo-tree is a valid DFS forest for every constraint graph.
   Only statements; each closed by an exact lemma from P_PseudoTree.

   PT_valid g t (M_PseudoTree.v) is the full statement of C17 for a returned tree t:
   one node per variable; parent/children and pseudo-parent/pseudo-children converse and
   repeat-free; no cycle; back edges go to proper ancestors; every pair of variables
   sharing a constraint is linked by a tree edge or a back edge; each node carries exactly
   the constraints on its variable. *)
From PyDcop Require Import Base M_PseudoTree M_PseudoTree2 P_PseudoTree P_PseudoTree2 P_PseudoTree3.

(* The verified checker: whatever tree passes pt_check is valid, for graphs and trees of
   any size.  The harness evaluates pt_check inside Coq on every tree returned by the real
   build_computation_graph. *)
Theorem pt_check_sound : forall g t, pt_check g t = true -> PT_valid g t.
Proof. exact pt_check_sound_l. Qed.

(* Every pair of constraint-sharing variables is in ancestor/descendant relation AND
   directly linked (tree edge or back edge). *)
Theorem pt_valid_ancestral : forall g t, PT_valid g t ->
  forall sc a b, In sc (g_rels g) -> In a sc -> In b sc -> a <> b ->
    (anc t a b \/ anc t b a) /\ linked t a b.
Proof. exact pt_valid_ancestral_l. Qed.

Theorem pt_valid_order : forall g t, PT_valid g t ->
  (forall a b, anc t a b -> ~ anc t b a) /\
  (forall a b, In b (t_children t a) -> anc t a b) /\
  (forall a b, In b (t_pcs t a) -> anc t a b) /\
  (forall a p, t_parent t a = Some p -> ~ In p (t_pcs t a) /\ ~ In p (t_children t a)).
Proof. exact pt_valid_order_l. Qed.

(* every node reaches a root by parent links *)
Theorem pt_valid_rooted : forall g t, PT_valid g t -> forall a, rooted t a.
Proof. exact pt_valid_rooted_l. Qed.

(* induction principles for consumers (DPOP): towards the root and towards the leaves *)
Theorem pt_valid_wf : forall g t, PT_valid g t ->
  well_founded (fun p a => t_parent t a = Some p) /\
  well_founded (fun c a => In c (t_children t a)).
Proof. exact pt_valid_wf_l. Qed.

(* the variables of one constraint lie on a single branch: the scope has a lowest node, all
   other variables of the scope are proper ancestors of it *)
Theorem pt_valid_scope_chain : forall g t, PT_valid g t ->
  forall sc, In sc (g_rels g) -> sc <> [] ->
  exists a, In a sc /\ forall b, In b sc -> b = a \/ anc t b a.
Proof. exact pt_valid_scope_chain_l. Qed.

(* ---- direct theorems about the model of the builder (build = build_computation_graph:
   _generate_dfs_tree with handle_token/_propagate, forest loop, node listing).
   [build g = Some (roots, t)]: None only stands for exhaustion of the recursion fuel. ---- *)

(* "each node carries exactly the constraints on its variable": full strength. *)
Theorem pt_constraints_exact : forall g roots t, build g = Some (roots, t) ->
  forall n, In n t ->
    n_rels n = rels_of g (n_id n) /\ NoDup (n_rels n) /\
    forall c, In c (n_rels n) <-> exists sc, scope_of g c = Some sc /\ In (n_id n) sc.
Proof. exact build_constraints_l. Qed.

(* FULL statement wanted (pt_nodes): NoDup (t_ids t) /\ forall v, In v (t_ids t) <-> In v (g_vars g).
   Proved: every variable has a node and every node (and root) is a variable.  Missing: that no
   variable gets two nodes (needs the DFS invariant "a child is unvisited when the token is
   passed to it"); that part is established per returned tree by pt_check. *)
Theorem pt_nodes_partial : forall g roots t, build g = Some (roots, t) ->
  (forall v, In v (t_ids t) <-> In v (g_vars g)) /\ incl roots (g_vars g).
Proof. exact build_nodes_l. Qed.

(* FULL statement wanted (pt_links_consistent, pt_acyclic, pt_edges_ancestral): PT_valid g t.
   Proved: every parent / child / pseudo-parent / pseudo-child link of every node joins two
   variables of the DCOP that share a constraint (tree and back edges are edges of the
   constraint graph).  Missing: the links are converse, acyclic and cover every constraint-sharing
   pair -- the DFS correctness proper; established per returned tree by pt_check (pt_check_sound). *)
Theorem pt_links_partial : forall g roots t, build g = Some (roots, t) ->
  forall n y, In n t ->
    (n_parent n = Some y \/ In y (n_children n) \/ In y (n_pps n) \/ In y (n_pcs n)) ->
    In y (g_vars g) /\ exists sc, In sc (g_rels g) /\ In (n_id n) sc /\ In y sc.
Proof. exact build_links_l. Qed.

(* ---- DFS correctness proper of the builder model, for ALL graphs of ALL sizes (n-ary
   constraints, disconnected graphs, isolated variables), proved in P_PseudoTree2/3 by a
   Hoare-style contract over the token-passing traversal (visited set, token = root-to-node
   path, every edge of a finished node has carried the token) and an induction on the forest
   loop.  Hypothesis  wf_graph g := NoDup (g_vars g) /\ forall sc, In sc (g_rels g) ->
   NoDup sc /\ incl sc (g_vars g)  -- distinct variables, no constraint lists a variable twice,
   constraints range over the variables of the problem (true of every DCOP; the harness
   evaluates the executable wf_graphb on every graph given to the real builder). ---- *)

(* FULL: the builder never runs out of recursion fuel and its result is PT_valid. *)
Theorem build_valid : forall g, wf_graph g ->
  exists roots t, build g = Some (roots, t) /\ PT_valid g t.
Proof. exact build_valid_l. Qed.

Theorem build_no_fuel_exhaustion : forall g, wf_graph g -> build g <> None.
Proof. exact build_no_fuel_l. Qed.

(* FULL (supersedes pt_nodes_partial): exactly one node per variable. *)
Theorem pt_nodes : forall g roots t, wf_graph g -> build g = Some (roots, t) ->
  NoDup (t_ids t) /\ forall v, In v (t_ids t) <-> In v (g_vars g).
Proof. exact pt_nodes_l. Qed.

(* FULL (with pt_acyclic and pt_edges_ancestral supersedes pt_links_partial):
   parent/children and pseudo-parent/pseudo-children are converse relations, without repeats. *)
Theorem pt_links_converse : forall g roots t, wf_graph g -> build g = Some (roots, t) ->
  (forall a b, t_parent t a = Some b <-> In a (t_children t b)) /\
  (forall a b, In b (t_pps t a) <-> In a (t_pcs t b)) /\
  (forall a, NoDup (t_children t a) /\ NoDup (t_pps t a) /\ NoDup (t_pcs t a)).
Proof. exact pt_links_converse_l. Qed.

(* FULL: no cycle, every node reaches a parentless node. *)
Theorem pt_acyclic : forall g roots t, wf_graph g -> build g = Some (roots, t) ->
  (forall a, ~ anc t a a) /\ (forall a, rooted t a).
Proof. exact pt_acyclic_l. Qed.

(* FULL: every pair of constraint-sharing variables is in ancestor/descendant relation and
   directly linked by a tree edge or a back edge. *)
Theorem pt_edges_ancestral : forall g roots t, wf_graph g -> build g = Some (roots, t) ->
  forall sc a b, In sc (g_rels g) -> In a sc -> In b sc -> a <> b ->
    (anc t a b \/ anc t b a) /\ linked t a b.
Proof. exact pt_edges_ancestral_l. Qed.

(* FULL: a forest -- the roots returned are exactly the nodes without parent. *)
Theorem pt_roots : forall g roots t, wf_graph g -> build g = Some (roots, t) ->
  forall x, In x roots <-> In x (t_ids t) /\ t_parent t x = None.
Proof. exact pt_roots_l. Qed.

(* the executable well-formedness test used by the correspondence implies the hypothesis *)
Theorem wf_graphb_sound : forall g, wf_graphb g = true -> wf_graph g.
Proof. exact wf_graphb_sound_l. Qed.

(* The hypothesis cannot be dropped: with a constraint that lists a variable twice the
   variable becomes its own child and the model's node listing exhausts its fuel (the real
   code raises ValueError from variables.remove on such a constraint). *)
Theorem build_needs_wf_refuted :
  exists g, NoDup (g_vars g) /\ (forall sc, In sc (g_rels g) -> incl sc (g_vars g)) /\
    build g = None.
Proof. exact build_needs_wf_l. Qed.

(* non-vacuity: a 6-variable graph with a triangle, a 3-ary constraint, a unary constraint and an
   isolated variable: the builder model returns a two-tree forest with a back edge, the checker
   accepts it, hence it is PT_valid. *)
Example c17_nonvacuous :
  let g := mkGraph [0; 1; 2; 3; 4; 5] [[0; 1]; [1; 2]; [2; 0]; [2; 3; 4]; [4]] in
  exists roots t, build g = Some (roots, t) /\ List.length roots = 2%nat /\
    (exists n, In n t /\ n_pps n <> []) /\ pt_check g t = true /\ PT_valid g t /\ wf_graph g.
Proof.
  intro g.
  destruct (build g) as [[roots t]|] eqn:E; [|vm_compute in E; discriminate].
  exists roots, t. vm_compute in E. inversion E; subst roots t; clear E.
  split; [reflexivity|]. split; [reflexivity|]. split.
  - eexists. split; [right; right; left; reflexivity|]. discriminate.
  - split; [vm_compute; reflexivity|]. split; [apply pt_check_sound; vm_compute; reflexivity|].
    apply wf_graphb_sound. vm_compute. reflexivity.
Qed.

(* ---- for consumers (C01, P_DpopBuilt.v): every tree edge and every back edge of the forest the
   builder model returns is an edge of the constraint graph -- the DFS token only moves along
   constraint-graph edges.  FULL, no hypothesis on the graph (pt_links_partial read through the
   accessors t_parent / t_pps).  With ptv_ranked of PT_valid (depth of a child = depth of its
   parent + 1) this is what DPOP needs beyond PT_valid: a child and its parent share a constraint. *)
From PyDcop Require Import P_PseudoTree4.

Theorem build_parent_shares_constraint : forall g roots t, build g = Some (roots, t) ->
  forall a p, t_parent t a = Some p ->
    In p (g_vars g) /\ exists sc, In sc (g_rels g) /\ In a sc /\ In p sc.
Proof. exact build_parent_shares_constraint_l. Qed.

Theorem build_pp_shares_constraint : forall g roots t, build g = Some (roots, t) ->
  forall a p, In p (t_pps t a) ->
    In p (g_vars g) /\ exists sc, In sc (g_rels g) /\ In a sc /\ In p sc.
Proof. exact build_pp_shares_constraint_l. Qed.
