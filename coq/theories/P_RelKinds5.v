(* P_RelKinds5.v -- C11 deepening: the dimensions of a sliced conditional relation, exact order. *)
From PyDcop Require Import Base M_RelKinds P_RelKinds P_RelKinds2.
From Coq Require Import Permutation Sorted.
Open Scope Z_scope.

Section SortFilter.
  Context {A : Type} (leb : A -> A -> bool).
  Hypothesis leb_trans : forall a b c, leb a b = true -> leb b c = true -> leb a c = true.
  Hypothesis leb_total : forall a b, leb a b = true \/ leb b a = true.
  Let R a b := leb a b = true.

  Lemma insert_sorted_In x y l : In y (insert_sorted leb x l) <-> y = x \/ In y l.
  Proof.
    induction l as [|z l IH]; simpl; [intuition|]. destruct (leb x z); simpl; [intuition|].
    rewrite IH. intuition.
  Qed.

  Lemma insert_sorted_sorted x l : StronglySorted R l -> StronglySorted R (insert_sorted leb x l).
  Proof.
    induction 1 as [|y l Hs IH Hy]; simpl; [repeat constructor|].
    destruct (leb x y) eqn:E.
    - constructor; [constructor; auto|]. constructor; [exact E|].
      rewrite Forall_forall in *. intros z Hz. eapply leb_trans; eauto. apply Hy; auto.
    - constructor; auto. rewrite Forall_forall in *. intros z Hz. apply insert_sorted_In in Hz as [->|Hz]; auto.
      destruct (leb_total x y); [congruence | auto].
  Qed.

  Lemma isort_sorted l : StronglySorted R (isort leb l).
  Proof. induction l; simpl; [constructor | now apply insert_sorted_sorted]. Qed.

  Lemma filter_insert_sorted (f : A -> bool) x l :
    StronglySorted R l ->
    filter f (insert_sorted leb x l) = if f x then insert_sorted leb x (filter f l) else filter f l.
  Proof.
    induction 1 as [|y l Hs IH Hy]; simpl; [now destruct (f x)|].
    destruct (leb x y) eqn:E; simpl.
    - destruct (f x) eqn:Fx; auto. destruct (f y) eqn:Fy; simpl; [now rewrite E|].
      (* x goes in front of the first kept element of l *)
      assert (Hall : Forall (fun z => leb x z = true) (filter f l)).
      { rewrite Forall_forall in *. intros z Hz. apply filter_In in Hz as [Hz _].
        eapply leb_trans; eauto. apply Hy; auto. }
      destruct (filter f l) as [|z r]; simpl; auto. inversion Hall; subst. now rewrite H1.
    - rewrite IH. destruct (f y) eqn:Fy; destruct (f x) eqn:Fx; simpl; auto. now rewrite E.
  Qed.

  Lemma filter_isort (f : A -> bool) l : filter f (isort leb l) = isort leb (filter f l).
  Proof.
    induction l as [|x l IH]; simpl; auto.
    rewrite filter_insert_sorted by apply isort_sorted. rewrite IH. now destruct (f x).
  Qed.
End SortFilter.

Definition vleb (a b : var) : bool := vname a <=? vname b.

Lemma remaining_cond_dims c t p :
  remaining p (cond_dims c t) = isort vleb (remaining p (cond_raw c t)).
Proof.
  unfold cond_dims, remaining. fold vleb. fold (cond_raw c t). apply filter_isort.
  - unfold vleb. intros a b c0 H1 H2. apply Z.leb_le in H1, H2. apply Z.leb_le. lia.
  - unfold vleb. intros a b. destruct (Z.le_ge_cases (vname a) (vname b)); [left|right]; now apply Z.leb_le.
Qed.

(* the dimensions of a partially sliced conditional are EXACTLY the remaining dimensions of the
   original, in the same (name) order *)
Lemma cond_dims_remaining_eq c t p sc st :
  bdims sc = remaining p (bdims c) -> bdims st = remaining p (bdims t) ->
  cond_dims sc st = remaining p (cond_dims c t).
Proof.
  intros Ec Et. rewrite remaining_cond_dims, remaining_cond_raw.
  unfold cond_dims. fold vleb. now rewrite Ec, Et.
Qed.

Lemma cond_slice_dims_exact_l c t rn p r' :
  wf_b c -> wf_b t -> NoDup (map fst p) -> slice (RCond c t rn) p = Ok r' ->
  match r' with
  | RCond _ _ _ => dims r' = remaining p (dims (RCond c t rn))
  | RBase _ => rn = true -> dims r' = remaining p (bdims t)
  end.
Proof.
  intros Hc Ht Hp Hs. simpl in Hs. rewrite cond_slice_unfold in Hs.
  destruct (Nat.eqb _ _).
  - apply bind_ok in Hs as [cv [_ Hs]]. destruct (truthy cv).
    + apply bind_ok in Hs as [s [Hs E]]. inversion E; subst r'.
      intros _. simpl. eapply bslice_part_dims; eauto.
    + destruct rn; inversion Hs; subst; simpl; auto. discriminate.
  - apply bind_ok in Hs as [sc [H1 Hs]]. apply bind_ok in Hs as [st [H2 E]]. inversion E; subst r'.
    simpl. apply cond_dims_remaining_eq; eapply bslice_part_dims; eauto.
Qed.
