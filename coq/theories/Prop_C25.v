(* Prop_C25.v -- C25: replica placement (UCSReplication) terminates and keeps replicas safe.
   Statements only (proofs in P_Ucs.v, P_Ucs2.v .. P_Ucs9.v), about the model M_Ucs.ucs_proto plugged into Net.v, for
   every well-formed deployment [wf C] (k >= 1, k_target >= 1, non-negative footprints, the
   active computations of each agent fit in its capacity), any number of agents and
   computations, any costs, and EVERY schedule of starts and per-channel-FIFO deliveries.

   Full statement of C25 and what is proved of it (everything, for the model):
   (1) "an agent accepts a replica only if its remaining capacity covers the new footprint plus
       the worst-case total footprint of the replicas it holds for any k-1 owners"
       -> max_footprint_spec, accept_safe, accept_safe_level, capacity_safe  (full).
   (2) "each computation's replicas end up on distinct agents other than its owner, at most k of
       them, each recorded in discovery"
       -> placement_inv (full, state form, guard uniq): hosts distinct, not owners, each holding =
       having registered the replica, at most k, and NO agent outside the recorded set holds a
       replica; placement_inv_partial / done_report_inv / replica_hosts_inv are the earlier
       per-report forms (no guard); key lemmas ucs_token_unique, ucs_replicated_once,
       ucs_holders_inv.
   (3) "every agent eventually reports replication done"
       -> ucs_terminates (no guard): in every schedule agents handle at most Omega messages;
          ucs_no_raise, ucs_progress, ucs_quiescent_all_done, ucs_eventually_done (guards:
          symmetric non-negative costs, unique names): nothing raises, nothing is lost, a
          quiescent configuration has every agent done, and every run can be continued to one.
          Key lemmas ucs_token_invariant, ucs_token_variant, ucs_token_conserved_partial.
   Outside the guards the real code does fail: see design_notes/C25.md (negative route cost =
   known finding C25-negative-route-assert; asymmetric routes are rejected by the YAML loader). *)
From PyDcop Require Import Base Net M_Ucs P_Ucs P_Ucs2 P_Ucs3 P_Ucs4 P_Ucs5 P_Ucs6 P_Ucs7 P_Ucs8 P_Ucs9.

Theorem max_footprint_spec : forall C, wf C -> forall h, fp_nonneg h ->
  (forall S, NoDup S -> Z.of_nat (List.length S) <= c_ktarget C - 1 -> total_for h S <= max_footprint C h)
  /\ (exists S, NoDup S /\ Z.of_nat (List.length S) <= c_ktarget C - 1 /\ total_for h S = max_footprint C h).
Proof. exact max_footprint_spec_l. Qed.

Theorem accept_safe : forall C, wf C -> forall sched n c o fp hb,
  In (EvAccept n c o fp hb) (snd (run (ucs_proto C) sched)) ->
  mem_key Z.eqb c hb = false /\ owns C n c = false /\
  forall S, NoDup S -> Z.of_nat (List.length S) <= c_ktarget C - 1 -> fp + total_for hb S <= remaining C n.
Proof. exact accept_safe_l. Qed.

Theorem accept_safe_level : forall C, wf C -> forall sched n c o fp hb,
  c_k C <= c_ktarget C ->
  In (EvAccept n c o fp hb) (snd (run (ucs_proto C) sched)) ->
  forall S, NoDup S -> Z.of_nat (List.length S) <= c_k C - 1 -> fp + total_for hb S <= remaining C n.
Proof. exact accept_safe_level_l. Qed.

Theorem capacity_safe : forall C, wf C -> forall cf n S,
  reachable (ucs_proto C) cf -> NoDup S -> Z.of_nat (List.length S) <= c_ktarget C - 1 ->
  total_for (s_hosted (w_st (nodes cf n))) S <= remaining C n.
Proof. exact capacity_safe_l. Qed.

Theorem placement_inv_partial : forall C, wf C -> forall sched n c hs,
  In (EvRepl n c hs) (snd (run (ucs_proto C) sched)) ->
  placed C (fst (run (ucs_proto C) sched)) n c hs /\ Z.of_nat (List.length hs) <= c_k C.
Proof. exact placement_inv_l. Qed.

Theorem done_report_inv : forall C, wf C -> forall sched n rh c hs,
  In (EvDone n rh) (snd (run (ucs_proto C) sched)) -> zlookup c rh = Some hs ->
  placed C (fst (run (ucs_proto C) sched)) n c hs.
Proof. exact done_report_inv_l. Qed.

Theorem replica_hosts_inv : forall C, wf C -> forall cf n c hs,
  reachable (ucs_proto C) cf -> zlookup c (s_rhosts (w_st (nodes cf n))) = Some hs -> placed C cf n c hs.
Proof. exact replica_hosts_inv_l. Qed.

Theorem ucs_token_conserved_partial : forall C n s src t, is_agent C n = true ->
  token_outcome n (t_comp t) (ucs_recv C n s src (MRequest t))
  /\ token_outcome n (t_comp t) (ucs_recv C n s src (MAnswer t)).
Proof. exact token_conserved_l. Qed.

Theorem ucs_token_unique : forall C c o,
  (forall d, owns C d c = true -> d = o) -> NoDup (own_names C o) ->
  forall cf, reachable (ucs_proto C) cf -> (tokens_in_flight C c cf <= 1)%nat.
Proof. exact token_unique_l. Qed.

(* ---- deepening (P_Ucs2..P_Ucs5): termination-related statements.
   Guards: [guards C] = route costs between agents are symmetric, route costs and hosting costs are
   non-negative; [uniq C] = a computation name is owned by one agent and the names of an agent's
   computations are distinct.  Both are forced by the proofs; see design_notes/C25.md for what the
   real code does outside them (asymmetric routes lose the token on an AssertionError).
   (3) "every agent eventually reports replication done":
       ucs_no_raise            no handler of any run raises (any schedule);
       ucs_progress            an agent that has not reported done => a node is not started yet or
                               a message is in flight (nothing is ever lost or stuck);
       ucs_quiescent_all_done  in a quiescent configuration every agent has reported done.
       NOT proved: the bound on the number of deliveries (the budget sequence is strictly
       increasing over the finite set of path costs), i.e. that quiescence IS reached.
   Key lemmas: ucs_token_invariant (the pure invariant of every token in flight: table costs =
   path costs, spent = cost of the request path, budget >= 0, no table entry is a prefix of the
   token's position), ucs_replicated_once (tokens of c + pending orders for its owner +
   "orchestrator not started" + "c has an entry in _replica_hosts" <= 1). *)
Theorem ucs_token_invariant : forall C, guards C -> forall cf, reachable (ucs_proto C) cf -> Inv2 C cf.
Proof. exact reachable_inv2. Qed.

Theorem ucs_replicated_once : forall C c o,
  (forall d, owns C d c = true -> d = o) -> NoDup (own_names C o) ->
  forall cf, reachable (ucs_proto C) cf -> (phi2 C c o cf <= 1)%nat.
Proof. exact reachable_phi2. Qed.

Theorem ucs_no_raise : forall C, guards C -> uniq C -> forall sched x k,
  ~ In (EvRaise x k) (snd (run (ucs_proto C) sched)).
Proof. exact ucs_no_raise_l. Qed.

Theorem ucs_progress : forall C, guards C -> uniq C -> forall sched n, is_agent C n = true ->
  (forall rh, ~ In (EvDone n rh) (snd (run (ucs_proto C) sched))) ->
  (exists u, inU C u = true /\ w_running (nodes (fst (run (ucs_proto C) sched)) u) = false)
  \/ (exists s d, chan (fst (run (ucs_proto C) sched)) s d <> []).
Proof. exact ucs_progress_l. Qed.

Theorem ucs_quiescent_all_done : forall C, guards C -> uniq C -> forall sched n, is_agent C n = true ->
  quiescent C (fst (run (ucs_proto C) sched)) -> exists rh, In (EvDone n rh) (snd (run (ucs_proto C) sched)).
Proof. exact ucs_quiescent_all_done_l. Qed.

(* (2) at full strength, state form (P_Ucs6): for every reachable configuration and every entry
   _replica_hosts[c] = hs of an agent n: n owns c, the hosts are distinct, none owns c, each holds
   (= has registered) the replica, there are AT MOST k of them, and NO other agent holds a replica
   of c.  Guard: [uniq C] (unique computation names).  Key invariant ucs_holders_inv (K): every
   holder of a replica of c is in the hosts list of the token of c in flight; nobody holds one
   before the owner's replicate order is processed. *)
Theorem ucs_holders_inv : forall C, wf C -> uniq C -> forall c o, owns C o c = true ->
  forall cf, reachable (ucs_proto C) cf -> K C c o cf.
Proof. exact reachable_K. Qed.

Theorem placement_inv : forall C, wf C -> uniq C -> forall cf n c hs,
  reachable (ucs_proto C) cf -> zlookup c (s_rhosts (w_st (nodes cf n))) = Some hs ->
  placed C cf n c hs /\ Z.of_nat (List.length hs) <= c_k C
  /\ forall h, is_agent C h = true -> mem_key Z.eqb c (s_hosted (w_st (nodes cf h))) = true -> In h hs.
Proof. exact placement_inv_full_l. Qed.

(* (3) the variant (P_Ucs7; NO guard needed): the measure
       Phi = (4n+1) * (2 * #unvisited agents + #__hosting__ entries of the table) + position
   (position = 2n - |rq| for a request, 2n + |rq| for an answer, n = number of agents) of the token
   emitted by a handler is strictly smaller than that of the token it consumed, for every token in
   flight of every reachable configuration and every state of the receiving agent; the tokens
   created by replicate(k) start below Phi0 = (4n+1)*2n + 2n.  Hence a token makes at most
   O(n^2) hops.  (The budget itself is not monotone: a round may restart with a smaller one.) *)
Theorem ucs_token_variant : forall C cf s d m q t,
  reachable (ucs_proto C) cf -> chan cf s d = m :: q -> tok_of m = Some t ->
  forall st src d' m', In (d', m') (snd (fst (ucs_recv C d st src m))) -> (Phi C m' < Phi C m)%nat.
Proof. exact ucs_token_variant_l. Qed.

Theorem ucs_token_initial_measure : forall C me s k, is_agent C me = true ->
  forall d m, In (d, m) (snd (fst (fst (replicate C me s k)))) -> (Phi C m < Phi0 C)%nat.
Proof. exact replicate_Phi0. Qed.

(* (3) termination bound (P_Ucs8; NO guard needed): [nhandled cf sched] counts the actions of the
   schedule that make a running agent handle a message.  In EVERY schedule it is at most
   Omega = sum over the agents d of (1 + #computations(d) * Phi0): after that many handled messages
   nothing is left to deliver, so every fair schedule reaches a quiescent configuration, where by
   ucs_quiescent_all_done (under the guards) every agent has reported done.  Global measure:
   Psi = sum of the weights of the messages in flight (1 + Phi for a token, 1 + #comps * Phi0 for a
   replicate order) + Omega while the orchestrator is not started; it never increases and
   strictly decreases at every handled message (step_Psi). *)
Theorem ucs_terminates : forall C sched, (nhandled C (init (ucs_proto C)) sched <= Omega C)%nat.
Proof. exact ucs_terminates_l. Qed.

(* (3) liveness (P_Ucs9, under the guards): every run can be continued, by finitely many further
   actions, to a point where EVERY agent has reported replication_done.  With ucs_terminates (no
   schedule can make agents handle more than Omega messages) this is the full statement "for any
   agent graph, capacities, costs, k and message order, every agent eventually reports replication
   done" for the model, under symmetric non-negative costs and unique names. *)
Theorem ucs_eventually_done : forall C, guards C -> uniq C -> forall sched,
  exists ext, forall n, is_agent C n = true ->
    exists rh, In (EvDone n rh) (snd (run (ucs_proto C) (sched ++ ext))).
Proof. exact ucs_eventually_done_l. Qed.

(* non-vacuity: a well-formed 3-agent deployment (k = 2) and a complete schedule in which four
   replicas are accepted (one with a non-empty hosted set) and every agent reports done *)
Definition ex_cfg : cfg :=
  mkCfg [mkA 16 [] 3 [] 6 [];
         mkA 31 [(0, 9, []); (1, 7, [2])] 3 [(2, 4)] 0 [];
         mkA 37 [(2, 3, [1]); (3, 10, [])] 3 [(1, 4)] 0 [(2, 12); (3, 2)]] 2 3.
Definition ex_sched : list (@action) :=
  [Start 0; Start 2; Start 1; Start (-5); Deliver (-5) 0; Deliver (-5) 2; Deliver (-5) 1;
   Deliver 2 1; Deliver 2 1; Deliver 1 2; Deliver 1 2; Deliver 1 2; Deliver 1 2; Deliver 2 1; Deliver 2 1].
Example c25_non_vacuous :
  wf ex_cfg /\ guards ex_cfg /\ uniq ex_cfg /\
  nhandled ex_cfg (init (ucs_proto ex_cfg)) ex_sched = 11%nat /\ Omega ex_cfg = 339%nat /\
  In (EvDone 1 [(0, [2]); (1, [2])]) (snd (run (ucs_proto ex_cfg) ex_sched)) /\
  In (EvAccept 1 3 2 10 [(2, (2, 3))]) (snd (run (ucs_proto ex_cfg) ex_sched)) /\
  In (EvRepl 1 0 [2]) (snd (run (ucs_proto ex_cfg) ex_sched)) /\
  In (EvDone 2 [(2, [1]); (3, [1])]) (snd (run (ucs_proto ex_cfg) ex_sched)) /\
  In (EvDone 0 []) (snd (run (ucs_proto ex_cfg) ex_sched)).
Proof.
  split; [apply wf_b_sound; vm_compute; reflexivity|].
  split; [apply guards_b_sound; vm_compute; reflexivity|].
  split; [apply uniq_b_sound; vm_compute; reflexivity|].
  split; [vm_compute; reflexivity|]. split; [vm_compute; reflexivity|].
  vm_compute. intuition.
Qed.
