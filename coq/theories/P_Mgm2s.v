(* P_Mgm2s.v -- MGM2, part 3 of the global barrier proof: every micro-step (M_Mgm2x.mstep consuming
   one pending message of the kind the computation waits for) and every start preserve the
   invariant InvA of P_Mgm2y.v. *)
From Coq Require Import ZArith List Bool Lia.
From PyDcop Require Import Base Net M_Mgm M_Mgm2 M_Mgm2x P_Mgm P_Mgm3 P_Mgm3c P_Mgm2x P_Mgm2y.
Import ListNotations.
Open Scope Z_scope.

Local Notation length := List.length.

Ltac skel_inv H :=
  unfold skel in H; injection H as ?Kst ?Kcy ?Kfi ?Knv ?Kof ?Kng ?Kpa ?Kco ?Kor ?Kpg.
Ltac unf := unfold SV, CV, SO, CO, SG, CG, expA, expG, sentGo, link in *.

Section Steps.
  Variable d : dcop.
  Variable stop thr favor : Z.
  Notation nbr := (nbrs d).
  Notation doneb := (doneb stop).
  Notation InvA := (InvA d stop).
  Notation good := (good d stop).

  Lemma act_of a b : In a (nbr b) -> nbr b <> [].
  Proof. intros H Hc. rewrite Hc in H. exact H. Qed.

  Lemma skel_set_nv s l : skel (set_t_nv s l) = (t_state s, t_cycle s, t_fin s, l, t_offers s, t_ng s, t_partner s, t_committed s, t_offerer s, t_pgain s) /\ posts (set_t_nv s l) = posts s.
  Proof. destruct s; split; reflexivity. Qed.
  Lemma skel_set_offers s l : skel (set_t_offers s l) = (t_state s, t_cycle s, t_fin s, t_nv s, l, t_ng s, t_partner s, t_committed s, t_offerer s, t_pgain s) /\ posts (set_t_offers s l) = posts s.
  Proof. destruct s; split; reflexivity. Qed.
  Lemma skel_set_ng s l : skel (set_t_ng s l) = (t_state s, t_cycle s, t_fin s, t_nv s, t_offers s, l, t_partner s, t_committed s, t_offerer s, t_pgain s) /\ posts (set_t_ng s l) = posts s.
  Proof. destruct s; split; reflexivity. Qed.

  Section W.
  Variable rn : node -> bool.
  Variable S : node -> m2st.
  Variable pd : node -> node -> list m2msg.
  Hypothesis HI : InvA rn S pd.

  Lemma doneb_mono c1 c2 : c1 <= c2 -> doneb c1 = true -> doneb c2 = true.
  Proof.
    unfold doneb, P_Mgm2x.doneb. intros H E. apply andb_true_iff in E as [E1 E2]. rewrite E1. simpl.
    apply Z.leb_le in E2. apply Z.leb_le. lia.
  Qed.

  (* one direction of the counting equations: what b has consumed from a, a has sent *)
  Lemma le_facts a b : In a (nbr b) -> rn a = true -> rn b = true ->
    t_cycle (S b) - 1 + b2z (kinv a (t_nv (S b))) <= t_cycle (S a) - t_fin (S a) /\
    t_cycle (S b) - 1 + b2z (kino a (t_offers (S b))) <= t_cycle (S a) - 1 + b2z (2 <=? t_state (S a)) /\
    t_cycle (S b) - 1 + b2z (kinv a (t_ng (S b))) <= t_cycle (S a) - 1 + b2z (4 <=? t_state (S a)).
  Proof.
    intros Hab Ra Rb.
    destruct (i_pair _ _ _ _ _ HI a b Hab) as [V1 O1 G1 _ _ _ _ _ _ _ _ _].
    unf. rewrite Ra, Rb in *.
    pose proof (cnt_nonneg 1 (pd a b)). pose proof (cnt_nonneg 2 (pd a b)). pose proof (cnt_nonneg 4 (pd a b)).
    repeat split; lia.
  Qed.

  (* position facts for two neighbours, both running *)
  Lemma pos_facts a b : In a (nbr b) -> rn a = true -> rn b = true ->
    t_cycle (S a) <= t_cycle (S b) + 1 /\
    (t_cycle (S a) = t_cycle (S b) + 1 -> t_state (S a) = 1 /\ 4 <= t_state (S b) /\ t_fin (S b) = 0) /\
    (t_cycle (S a) = t_cycle (S b) -> (3 <= t_state (S a) -> 2 <= t_state (S b)) /\ (t_state (S a) = 5 -> 4 <= t_state (S b))
                                       /\ (2 <= t_state (S a) -> t_fin (S b) = 0)).
  Proof.
    intros Hab Ra Rb. pose proof (nbrs_sym d b a Hab) as Hba.
    pose proof (i_good _ _ _ _ _ HI a Ra (act_of b a Hba)) as Ga.
    pose proof (i_good _ _ _ _ _ HI b Rb (act_of a b Hab)) as Gb.
    destruct (tabf d stop a _ b Ga Hba) as (T1 & T2 & T3 & T4 & T5 & T6 & T7 & T8).
    destruct (le_facts b a Hba Rb Ra) as (L1 & L2 & L3).
    pose proof (g_k _ _ _ _ Ga) as Ka. pose proof (g_k _ _ _ _ Gb) as Kb.
    pose proof (b2z_leb 2 (t_state (S b))) as B2. pose proof (b2z_leb 4 (t_state (S b))) as B4.
    pose proof (b2z_range (doneb (t_cycle (S b)))) as Fb. rewrite <- (g_fin _ _ _ _ Gb) in Fb.
    assert (A1 : t_cycle (S a) <= t_cycle (S b) + 1) by (clear - L3 T8 B4; lia).
    split; [exact A1|]. split.
    - intros E. assert (K4 : 4 <= t_state (S b)) by (clear - L3 T8 B4 E; lia).
      assert (F0 : t_fin (S b) = 0) by (clear - L1 T6 Fb E; lia).
      split; [|split; assumption].
      assert (b2z (kinv b (t_nv (S a))) = 0) by (clear - L1 T6 Fb E; lia).
      clear - T1 H Ka. lia.
    - intros E. split; [|split].
      + intros H3. specialize (T3 H3). clear - T3 L2 B2 E Kb. lia.
      + intros H5. specialize (T5 H5). clear - T5 L3 B4 E Kb. lia.
      + intros H2. specialize (T1 H2). clear - T1 L1 Fb E. lia.
  Qed.

  (* what every micro-step must establish *)
  Definition evok (y : node) (s s2 : m2st) (e : list mev) : Prop :=
    noerr e /\ (forall n k, In (EvFinished n k) e -> n = y /\ k = t_cycle s2 /\ doneb k = true) /\
    t_fin s2 = t_fin s + Z.of_nat (count_fin y e).

  Definition step_ok (y x : node) (m : m2msg) (l1 l2 : list m2msg) : Prop :=
    forall s2 o2 e2, mstep d stop thr favor y (S y) x m = (s2, o2, e2) ->
      InvA rn (updS S y s2) (pd_step pd x y (l1 ++ l2) o2) /\
      evok y (S y) s2 e2 /\ posts s2 = posts (S y) /\
      (t_state s2 <> t_state (S y) ->
         forall x', In x' (nbr y) -> cnt (t_state (S y)) (pd_step pd x y (l1 ++ l2) o2 x' y) = 0).

  Lemma evok_nil y s s2 : t_fin s2 = t_fin s -> evok y s s2 [].
  Proof. intros H. split; [intros n k []|]. split; [intros n k []|]. simpl. lia. Qed.

  Lemma count_fin_valev y pre : valev y pre -> count_fin y pre = 0%nat /\ (forall n k, ~ In (EvFinished n k) pre) /\ noerr pre.
  Proof.
    intros H. induction pre as [|ev r IH]; [split; [reflexivity|split; intros n k []]|].
    destruct IH as (I1 & I2 & I3); [intros e He; apply H; right; exact He|].
    destruct (H ev (or_introl eq_refl)) as (v0 & c0 & k0 & ->). simpl. split; [exact I1|].
    split; intros n k [Hc|Hc]; try discriminate; [apply (I2 n k Hc)|apply (I3 n k Hc)].
  Qed.

  Lemma evok_finish y s s2 pre c :
    valev y pre -> t_cycle s2 = c -> t_fin s2 = t_fin s + (if doneb c then 1 else 0) ->
    evok y s s2 (pre ++ EvCycle y c :: (if doneb c then [EvFinished y c] else [])).
  Proof.
    intros Hv Hc Hf. destruct (count_fin_valev y pre Hv) as (C1 & C2 & C3).
    split; [|split].
    - intros n k Hin. apply in_app_or in Hin as [Hin|[Hin|Hin]]; [apply (C3 n k Hin)|discriminate|].
      destruct (doneb c); [destruct Hin as [Hin|[]]; discriminate|destruct Hin].
    - intros n k Hin. apply in_app_or in Hin as [Hin|[Hin|Hin]]; [destruct (C2 n k Hin)|discriminate|].
      destruct (doneb c) eqn:E; [|destruct Hin]. destruct Hin as [Hin|[]]. inversion Hin; subst. auto.
    - rewrite count_fin_app, C1, Hf. simpl. destruct (doneb c); simpl; [rewrite Z.eqb_refl; simpl|]; lia.
  Qed.

  (* the sender of a pending message runs, is a neighbour; the bag facts *)
  Lemma pending_nbr x y l1 m l2 : pd x y = l1 ++ m :: l2 -> In x (nbr y).
  Proof.
    intros Hp. destruct (in_dec Z.eq_dec x (nbr y)) as [H|H]; [exact H|].
    rewrite (i_far _ _ _ _ _ HI x y H) in Hp. destruct l1; discriminate.
  Qed.

  Lemma in_pd x y l1 m l2 : pd x y = l1 ++ m :: l2 -> In m (pd x y).
  Proof. intros ->. apply in_or_app. right. left. reflexivity. Qed.

  End W.
End Steps.
