(* P_PseudoTree.v -- proofs about M_PseudoTree:
   1. soundness of the checker: pt_check g t = true -> PT_valid g t  (any size)
   2. consequences of PT_valid used by consumers (ancestor/descendant relation)
   3. direct facts about the builder model (partial, see design_notes/C17.md) *)
From Coq Require Import ZArith List Bool Lia Permutation.
From PyDcop Require Import Base P_Base M_PseudoTree.
Import ListNotations.
Open Scope Z_scope.

(* ------------------------------------------------------------------ *)
(*  small boolean reflections                                           *)
(* ------------------------------------------------------------------ *)
Lemma nodupb_NoDup (l : list Z) : nodupb Z.eqb l = true -> NoDup l.
Proof.
  induction l as [|x r IH]; simpl; intros H; [constructor|].
  apply andb_true_iff in H as [H1 H2]. constructor; auto.
  intros Hin. apply zmem_In in Hin. unfold zmem in Hin. rewrite Hin in H1. discriminate.
Qed.

Lemma option_eqb_Some (o : option Z) (b : Z) : option_eqb Z.eqb o (Some b) = true <-> o = Some b.
Proof.
  destruct o as [x|]; simpl; split; intros H; try discriminate.
  - apply Z.eqb_eq in H. now subst.
  - inversion H. apply Z.eqb_refl.
Qed.

Lemma forallb_In {A} (f : A -> bool) l x : forallb f l = true -> In x l -> f x = true.
Proof. intros H Hin. rewrite forallb_forall in H. auto. Qed.

(* ------------------------------------------------------------------ *)
(*  find_node                                                           *)
(* ------------------------------------------------------------------ *)
Lemma find_node_Some t a n : find_node t a = Some n -> In n t /\ n_id n = a.
Proof.
  induction t as [|m r IH]; simpl; [discriminate|].
  destruct (Z.eqb a (n_id m)) eqn:E.
  - intros H; inversion H; subst. apply Z.eqb_eq in E. auto.
  - intros H. destruct (IH H). auto.
Qed.

Lemma find_node_None t a : find_node t a = None -> ~ In a (t_ids t).
Proof.
  induction t as [|m r IH]; simpl; auto.
  destruct (Z.eqb a (n_id m)) eqn:E; [discriminate|].
  intros H [H1|H1]; [|now apply IH].
  apply Z.eqb_neq in E. congruence.
Qed.

Lemma find_node_In t a : In a (t_ids t) -> exists n, find_node t a = Some n.
Proof.
  intros H. destruct (find_node t a) eqn:E; eauto.
  apply find_node_None in E. contradiction.
Qed.

(* ------------------------------------------------------------------ *)
(*  ancestor chains                                                     *)
(* ------------------------------------------------------------------ *)
Lemma anc_chain_In t f : forall a ch b,
  anc_chain t f a = Some ch -> In b ch -> anc t b a.
Proof.
  induction f as [|f IH]; intros a ch b H Hin; simpl in H.
  - destruct (t_parent t a); [discriminate|]. inversion H; subst. contradiction.
  - destruct (t_parent t a) as [p|] eqn:Ep.
    + destruct (anc_chain t f p) as [l|] eqn:El; [|discriminate].
      inversion H; subst. destruct Hin as [->|Hin].
      * now apply anc_parent.
      * eapply anc_up; eauto.
    + inversion H; subst. contradiction.
Qed.

(* an ancestor has a strictly shorter chain *)
Lemma anc_chain_shorter t : forall a b, anc t b a ->
  forall f ch, anc_chain t f a = Some ch ->
  exists f' ch', anc_chain t f' b = Some ch' /\ (List.length ch' < List.length ch)%nat.
Proof.
  intros a b Hanc. induction Hanc as [b a Hp | b m a Hp Hanc IH]; intros f ch H.
  - destruct f as [|f]; simpl in H; rewrite Hp in H; [discriminate|].
    destruct (anc_chain t f b) as [l|] eqn:El; [|discriminate].
    inversion H; subst. exists f, l. simpl. split; auto.
  - destruct f as [|f]; simpl in H; rewrite Hp in H; [discriminate|].
    destruct (anc_chain t f m) as [l|] eqn:El; [|discriminate].
    inversion H; subst. destruct (IH _ _ El) as [f' [ch' [H1 H2]]].
    exists f', ch'. simpl. split; auto.
Qed.

Lemma anc_chain_acyclic t : forall n a f ch,
  anc_chain t f a = Some ch -> (List.length ch <= n)%nat -> ~ anc t a a.
Proof.
  induction n as [|n IH]; intros a f ch H Hlen Hanc;
    destruct (anc_chain_shorter t a a Hanc f ch H) as [f' [ch' [H1 H2]]].
  - lia.
  - apply (IH a f' ch' H1); [lia|assumption].
Qed.

Lemma anc_chain_unique t : forall f1 f2 a c1 c2,
  anc_chain t f1 a = Some c1 -> anc_chain t f2 a = Some c2 -> c1 = c2.
Proof.
  induction f1 as [|f1 IH]; intros f2 a c1 c2 H1 H2; destruct f2 as [|f2]; simpl in *;
    destruct (t_parent t a) as [p|] eqn:E; try discriminate; try congruence.
  destruct (anc_chain t f1 p) as [l1|] eqn:E1; [|discriminate].
  destruct (anc_chain t f2 p) as [l2|] eqn:E2; [|discriminate].
  inversion H1; inversion H2; subst. f_equal. eapply IH; eauto.
Qed.

Lemma anc_chain_len t : forall f a ch, anc_chain t f a = Some ch -> (List.length ch <= f)%nat.
Proof.
  induction f as [|f IH]; intros a ch H; simpl in H; destruct (t_parent t a) as [p|];
    try discriminate; try (inversion H; subst; simpl; lia).
  destruct (anc_chain t f p) as [l|] eqn:E; [|discriminate].
  inversion H; subst. simpl. apply IH in E. lia.
Qed.

(* ------------------------------------------------------------------ *)
(*  constraints of a variable                                           *)
(* ------------------------------------------------------------------ *)
Lemma rels_of_from_spec rels a : forall i c,
  In c (rels_of_from i rels a) <->
  (i <= c /\ exists sc, nth_error rels (Z.to_nat (c - i)) = Some sc /\ In a sc).
Proof.
  induction rels as [|sc r IH]; intros i c; simpl.
  - split; [contradiction|]. intros [_ [sc [H _]]]. destruct (Z.to_nat (c - i)); discriminate.
  - assert (Hstep : In c (rels_of_from (i + 1) r a) <->
             (i < c /\ exists sc0, nth_error (sc :: r) (Z.to_nat (c - i)) = Some sc0 /\ In a sc0)).
    { rewrite IH. split.
      - intros [Hle [sc0 [Hn Hin]]]. split; [lia|]. exists sc0. split; auto.
        replace (Z.to_nat (c - i)) with (S (Z.to_nat (c - (i + 1)))) by lia. exact Hn.
      - intros [Hlt [sc0 [Hn Hin]]]. split; [lia|]. exists sc0. split; auto.
        replace (Z.to_nat (c - i)) with (S (Z.to_nat (c - (i + 1)))) in Hn by lia. exact Hn. }
    destruct (zmem a sc) eqn:Ea.
    + simpl. rewrite Hstep. split.
      * intros [->|[Hlt Hex]].
        -- split; [lia|]. exists sc. rewrite Z.sub_diag. simpl. split; auto. now apply zmem_In.
        -- split; [lia|exact Hex].
      * intros [Hle Hex]. destruct (Z.eq_dec i c) as [->|Hne]; [now left|]. right. split; [lia|exact Hex].
    + rewrite Hstep. split.
      * intros [Hlt Hex]. split; [lia|exact Hex].
      * intros [Hle [sc0 [Hn Hin]]]. split.
        -- destruct (Z.eq_dec i c) as [->|Hne]; [|lia].
           rewrite Z.sub_diag in Hn. simpl in Hn. inversion Hn; subst.
           apply zmem_In in Hin. congruence.
        -- exists sc0; auto.
Qed.

Lemma rels_of_spec g a c :
  In c (rels_of g a) <-> exists sc, scope_of g c = Some sc /\ In a sc.
Proof.
  unfold rels_of, scope_of. rewrite rels_of_from_spec. rewrite Z.sub_0_r.
  destruct (c <? 0) eqn:E.
  - apply Z.ltb_lt in E. split; [intros [H _]; lia | intros [sc [H _]]; discriminate].
  - apply Z.ltb_ge in E. split; [intros [_ H]; exact H | intros H; split; [lia|exact H]].
Qed.

(* ------------------------------------------------------------------ *)
(*  1. soundness of the checker                                         *)
(* ------------------------------------------------------------------ *)
Section Sound.
  Variables (g : graph) (t : tree).
  Hypothesis Hck : pt_check g t = true.

  Let H_parts :
    nodupb Z.eqb (t_ids t) = true /\
    forallb (fun v => zmem v (t_ids t)) (g_vars g) = true /\
    forallb (fun v => zmem v (g_vars g)) (t_ids t) = true /\
    forallb (check_node g t) t = true /\
    forallb (check_scope t) (g_rels g) = true.
  Proof.
    unfold pt_check in Hck. repeat (apply andb_true_iff in Hck as [Hck ?]). auto.
  Qed.

  Record node_ok (n : ptnode) : Prop := {
    ok_parent : forall p, n_parent n = Some p -> In (n_id n) (t_children t p);
    ok_children : forall c, In c (n_children n) -> t_parent t c = Some (n_id n);
    ok_pps : forall p, In p (n_pps n) -> In (n_id n) (t_pcs t p);
    ok_pcs : forall c, In c (n_pcs n) -> In (n_id n) (t_pps t c);
    ok_nd_children : NoDup (n_children n);
    ok_nd_pps : NoDup (n_pps n);
    ok_nd_pcs : NoDup (n_pcs n);
    ok_chain : exists ch, anc_chain t (List.length t) (n_id n) = Some ch /\
                          forall p, In p (n_pps n) -> In p ch;
    ok_nd_rels : NoDup (n_rels n);
    ok_rels1 : forall c, In c (n_rels n) -> exists sc, scope_of g c = Some sc /\ In (n_id n) sc;
    ok_rels2 : forall c, In c (rels_of g (n_id n)) -> In c (n_rels n)
  }.

  Lemma check_node_ok n : check_node g t n = true -> node_ok n.
  Proof.
    unfold check_node. intros H.
    repeat (apply andb_true_iff in H as [H ?]).
    constructor.
    - intros p Hp. rewrite Hp in H. now apply zmem_In.
    - intros c Hc. eapply forallb_In in H9; eauto. now apply option_eqb_Some in H9.
    - intros p Hp. eapply forallb_In in H8; eauto. now apply zmem_In.
    - intros c Hc. eapply forallb_In in H7; eauto. now apply zmem_In.
    - now apply nodupb_NoDup.
    - now apply nodupb_NoDup.
    - now apply nodupb_NoDup.
    - destruct (anc_chain t (List.length t) (n_id n)) as [ch|]; [|discriminate].
      exists ch. split; auto. intros p Hp. eapply forallb_In in H3; eauto. now apply zmem_In.
    - now apply nodupb_NoDup.
    - intros c Hc. eapply forallb_In in H1; eauto. simpl in H1.
      destruct (scope_of g c) as [sc|]; [|discriminate]. exists sc. split; auto. now apply zmem_In.
    - intros c Hc. eapply forallb_In in H0; eauto. now apply zmem_In.
  Qed.

  Lemma found_ok a n : find_node t a = Some n -> node_ok n /\ n_id n = a.
  Proof.
    intros H. apply find_node_Some in H as [Hin Hid]. split; auto.
    apply check_node_ok. destruct H_parts as [_ [_ [_ [Hn _]]]].
    eapply forallb_In; eauto.
  Qed.

  Lemma chain_exists a : exists ch, anc_chain t (List.length t) a = Some ch.
  Proof.
    destruct (find_node t a) as [n|] eqn:E.
    - destruct (found_ok a n E) as [Hok <-]. destruct (ok_chain n Hok) as [ch [H _]]. eauto.
    - exists []. unfold anc_chain. destruct (List.length t); unfold t_parent; rewrite E; reflexivity.
  Qed.

  Lemma pt_check_sound_l : PT_valid g t.
  Proof.
    destruct H_parts as [Hnd [Hv1 [Hv2 [Hn Hs]]]].
    constructor.
    - now apply nodupb_NoDup.
    - intros v. split; intros H.
      + eapply forallb_In in Hv2; eauto. now apply zmem_In.
      + eapply forallb_In in Hv1; eauto. now apply zmem_In.
    - intros a b. split.
      + unfold t_parent. destruct (find_node t a) as [n|] eqn:E; [|discriminate].
        destruct (found_ok a n E) as [Hok <-]. intros Hp. now apply (ok_parent n Hok).
      + unfold t_children. destruct (find_node t b) as [n|] eqn:E; [|simpl; tauto].
        destruct (found_ok b n E) as [Hok <-]. intros Hc. now apply (ok_children n Hok).
    - intros a b. split.
      + unfold t_pps at 1. destruct (find_node t a) as [n|] eqn:E; [|simpl; tauto].
        destruct (found_ok a n E) as [Hok <-]. intros Hp. now apply (ok_pps n Hok).
      + unfold t_pcs at 1. destruct (find_node t b) as [n|] eqn:E; [|simpl; tauto].
        destruct (found_ok b n E) as [Hok <-]. intros Hc. now apply (ok_pcs n Hok).
    - intros a. unfold t_children. destruct (find_node t a) as [n|] eqn:E; [|constructor].
      destruct (found_ok a n E) as [Hok _]. apply (ok_nd_children n Hok).
    - intros a. unfold t_pps. destruct (find_node t a) as [n|] eqn:E; [|constructor].
      destruct (found_ok a n E) as [Hok _]. apply (ok_nd_pps n Hok).
    - intros a. unfold t_pcs. destruct (find_node t a) as [n|] eqn:E; [|constructor].
      destruct (found_ok a n E) as [Hok _]. apply (ok_nd_pcs n Hok).
    - intros a. destruct (chain_exists a) as [ch Hch].
      eapply anc_chain_acyclic; eauto.
    - intros a b. unfold t_pps. destruct (find_node t a) as [n|] eqn:E; [|simpl; tauto].
      destruct (found_ok a n E) as [Hok <-]. intros Hp.
      destruct (ok_chain n Hok) as [ch [Hch Hall]].
      eapply anc_chain_In; eauto.
    - intros sc a b Hsc Ha Hb Hne.
      pose proof (forallb_In _ _ _ Hs Hsc) as Hs1. unfold check_scope in Hs1.
      pose proof (forallb_In _ _ _ Hs1 Ha) as Hs2. cbv beta in Hs2.
      pose proof (forallb_In _ _ _ Hs2 Hb) as Hs3. cbv beta in Hs3.
      clear Hs Hs1 Hs2. rename Hs3 into Hs.
      apply orb_true_iff in Hs as [Hs|Hs]; [apply Z.eqb_eq in Hs; contradiction|].
      unfold linkedb in Hs. unfold linked.
      repeat (apply orb_true_iff in Hs as [Hs|Hs]).
      + left. now apply option_eqb_Some.
      + right; left. now apply zmem_In.
      + right; right; left. now apply option_eqb_Some.
      + right; right; right. now apply zmem_In.
    - intros a. unfold t_rels. destruct (find_node t a) as [n|] eqn:E; [|constructor].
      destruct (found_ok a n E) as [Hok _]. apply (ok_nd_rels n Hok).
    - intros a c Hin. apply find_node_In in Hin as [n E]. unfold t_rels. rewrite E.
      destruct (found_ok a n E) as [Hok <-]. split.
      + apply (ok_rels1 n Hok).
      + intros H. apply (ok_rels2 n Hok). now apply rels_of_spec.
    - exists (fun a => match anc_chain t (List.length t) a with
                       | Some ch => List.length ch | None => O end), (List.length t).
      split.
      + intros a. destruct (anc_chain t (List.length t) a) as [ch|] eqn:E; [|lia].
        eapply anc_chain_len; eauto.
      + intros a p Hp. destruct (chain_exists a) as [ca Ha]. destruct (chain_exists p) as [cp Hpc].
        rewrite Ha, Hpc. destruct (List.length t) as [|f] eqn:EF.
        * simpl in Ha. rewrite Hp in Ha. discriminate.
        * simpl in Ha. rewrite Hp in Ha.
          destruct (anc_chain t f p) as [l|] eqn:El; [|discriminate].
          inversion Ha; subst. simpl. f_equal. f_equal.
          eapply anc_chain_unique; eauto.
  Qed.
End Sound.

(* ------------------------------------------------------------------ *)
(*  2. consequences of PT_valid                                         *)
(* ------------------------------------------------------------------ *)
Lemma pt_valid_ancestral_l g t : PT_valid g t ->
  forall sc a b, In sc (g_rels g) -> In a sc -> In b sc -> a <> b ->
    (anc t a b \/ anc t b a) /\ linked t a b.
Proof.
  intros V sc a b Hsc Ha Hb Hne.
  pose proof (ptv_edges g t V sc a b Hsc Ha Hb Hne) as L. split; auto.
  destruct L as [L|[L|[L|L]]].
  - right. now apply anc_parent.
  - right. now apply (ptv_pp_anc g t V).
  - left. now apply anc_parent.
  - left. now apply (ptv_pp_anc g t V).
Qed.

Lemma anc_trans t a b c : anc t a b -> anc t b c -> anc t a c.
Proof.
  intros H1 H2. induction H2 as [b c Hp | b m c Hp H2 IH].
  - eapply anc_up; eauto.
  - eapply anc_up; eauto.
Qed.

(* in a valid tree the ancestor relation is a strict partial order and the parent,
   children, pseudo-parents and pseudo-children of a node are pairwise consistent *)
Lemma pt_valid_order_l g t : PT_valid g t ->
  (forall a b, anc t a b -> ~ anc t b a) /\
  (forall a b, In b (t_children t a) -> anc t a b) /\
  (forall a b, In b (t_pcs t a) -> anc t a b) /\
  (forall a p, t_parent t a = Some p -> ~ In p (t_pcs t a) /\ ~ In p (t_children t a)).
Proof.
  intros V. split; [|split; [|split]].
  - intros a b H1 H2. apply (ptv_acyclic g t V a). eapply anc_trans; eauto.
  - intros a b H. apply anc_parent. now apply (ptv_parent_children g t V).
  - intros a b H. apply (ptv_pp_anc g t V). now apply (ptv_pp_pc g t V).
  - intros a p Hp. split; intros H.
    + apply (ptv_pp_pc g t V) in H. apply (ptv_pp_anc g t V) in H.
      apply (ptv_acyclic g t V a). eapply anc_trans; eauto. now apply anc_parent.
    + apply (ptv_parent_children g t V) in H.
      apply (ptv_acyclic g t V a). eapply anc_trans; apply anc_parent; eauto.
Qed.

(* ------------------------------------------------------------------ *)
(*  3. direct facts about the builder model                             *)
(* ------------------------------------------------------------------ *)

(* ---- state access ---- *)
Lemma getb_setb_same st x b : getb (setb st x b) x = b.
Proof.
  unfold getb, setb, zlookup. rewrite lookup_dict_set_same; auto. apply Z.eqb_eq.
Qed.

Lemma getb_setb_other st x y b : y <> x -> getb (setb st x b) y = getb st y.
Proof.
  intros H. unfold getb, setb, zlookup. rewrite lookup_dict_set_other; auto. apply Z.eqb_eq.
Qed.

(* ---- sorting keeps the elements ---- *)
Lemma insert_sorted_In {A} (leb : A -> A -> bool) x y l :
  In y (insert_sorted leb x l) <-> y = x \/ In y l.
Proof.
  induction l as [|z r IH]; simpl.
  - intuition.
  - destruct (leb x z); simpl.
    + intuition.
    + rewrite IH. intuition.
Qed.

Lemma isort_In {A} (leb : A -> A -> bool) y l : In y (isort leb l) <-> In y l.
Proof.
  induction l as [|z r IH]; simpl; [tauto|].
  rewrite insert_sorted_In, IH. intuition.
Qed.

(* ---- neighbours ---- *)
Lemma remove_first_incl x l y : In y (remove_first x l) -> In y l.
Proof.
  induction l as [|z r IH]; simpl; auto.
  destruct (Z.eqb x z); simpl; intros H; auto. destruct H; auto.
Qed.

Lemma remove_first_keeps x l y : In y l -> y <> x -> In y (remove_first x l).
Proof.
  induction l as [|z r IH]; simpl; auto.
  intros [H|H] Hne.
  - subst z. destruct (Z.eqb x y) eqn:E; [apply Z.eqb_eq in E; congruence|]. now left.
  - destruct (Z.eqb x z); auto. right; auto.
Qed.

Lemma remove_first_In_or x l y : In y l -> y = x \/ In y (remove_first x l).
Proof.
  intros H. destruct (Z.eq_dec y x); auto. right. now apply remove_first_keeps.
Qed.

Lemma inner_fold_In dv nodes : forall acc y,
  In y (fold_left (fun acc n => if zmem n dv && negb (zmem n acc) then acc ++ [n] else acc) nodes acc)
  <-> In y acc \/ (In y nodes /\ In y dv).
Proof.
  induction nodes as [|n r IH]; intros acc y; simpl.
  - tauto.
  - rewrite IH.
    pose proof (zmem_In n dv) as D1. pose proof (zmem_In n acc) as D2.
    destruct (zmem n dv); destruct (zmem n acc); simpl; rewrite ?in_app_iff; simpl;
      split; intros H; intuition (subst; auto; try discriminate).
Qed.

Lemma find_neighbors_spec v rels nodes y :
  In y (find_neighbors v rels nodes) <->
  In y nodes /\ exists sc, In sc rels /\ In v sc /\ In y (remove_first v sc).
Proof.
  unfold find_neighbors.
  assert (G : forall acc,
    In y (fold_left (fun acc sc =>
      if zmem v sc then
        let dv := remove_first v sc in
        fold_left (fun acc n => if zmem n dv && negb (zmem n acc) then acc ++ [n] else acc)
                  nodes acc
      else acc) rels acc) <->
    In y acc \/ (In y nodes /\ exists sc, In sc rels /\ In v sc /\ In y (remove_first v sc))).
  { induction rels as [|sc r IH]; intros acc; simpl.
    - split; intros H; auto. destruct H as [H|[_ [sc [[] _]]]]; auto.
    - rewrite IH. destruct (zmem v sc) eqn:E.
      + apply zmem_In in E. cbv zeta. rewrite inner_fold_In. split; intros H.
        * destruct H as [[H|[H1 H2]]|[H1 [sc0 [H2 H3]]]]; auto.
          -- right. split; auto. exists sc. auto.
          -- right. split; auto. exists sc0. auto.
        * destruct H as [H|[H1 [sc0 [[H2|H2] [H3 H4]]]]]; auto.
          -- subst sc0. auto.
          -- right. split; auto. exists sc0; auto.
      + split; intros H.
        * destruct H as [H|[H1 [sc0 [H2 H3]]]]; auto. right. split; auto. exists sc0; auto.
        * destruct H as [H|[H1 [sc0 [[H2|H2] [H3 H4]]]]]; auto.
          -- subst sc0. apply zmem_In in H3. congruence.
          -- right. split; auto. exists sc0; auto. }
  rewrite G. simpl. tauto.
Qed.

(* the neighbourhood used by one call of _generate_dfs_tree on the variables [vars] *)
Definition nbr (vars : list Z) (rels : list (list Z)) (x : Z) : list Z :=
  if zmem x vars then find_neighbors x rels vars else [].

Lemma nbr_vars vars rels x y : In y (nbr vars rels x) -> In x vars /\ In y vars.
Proof.
  unfold nbr. destruct (zmem x vars) eqn:E; [|contradiction].
  apply zmem_In in E. rewrite find_neighbors_spec. tauto.
Qed.

Lemma nbr_sym vars rels x y : In y (nbr vars rels x) -> In x (nbr vars rels y).
Proof.
  intros H. destruct (nbr_vars _ _ _ _ H) as [Hx Hy].
  unfold nbr in *. apply zmem_In in Hx as Ex, Hy as Ey. rewrite Ex in H. rewrite Ey.
  apply find_neighbors_spec in H as [_ [sc [H1 [H2 H3]]]].
  apply find_neighbors_spec. split; auto. exists sc. split; auto.
  pose proof (remove_first_incl _ _ _ H3) as Hysc. split; auto.
  destruct (Z.eq_dec x y) as [->|Hne]; auto. now apply remove_first_keeps.
Qed.

Lemma nbr_share vars rels x y : In y (nbr vars rels x) ->
  exists sc, In sc rels /\ In x sc /\ In y sc.
Proof.
  unfold nbr. destruct (zmem x vars); [|contradiction].
  rewrite find_neighbors_spec. intros [_ [sc [H1 [H2 H3]]]].
  exists sc. repeat split; auto. eapply remove_first_incl; eauto.
Qed.

(* ---- the invariant: every link recorded in a _BuildingNode joins neighbours ---- *)
Section Inv.
  Variable nb : Z -> list Z.
  Hypothesis nb_sym : forall x y, In y (nb x) -> In x (nb y).

  Definition bnode_ok (x : Z) (b : bnode) : Prop :=
    (forall y, In y (b_neighbors b) <-> In y (nb x)) /\
    incl (b_children b) (nb x) /\ incl (b_pps b) (nb x) /\ incl (b_pcs b) (nb x) /\
    (forall p, b_parent b = Some p -> In p (nb x)).

  Definition inv (st : bstate) : Prop := forall x, bnode_ok x (getb st x).

  Lemma inv_setb st x b : inv st -> bnode_ok x b -> inv (setb st x b).
  Proof.
    intros Hi Hb y. destruct (Z.eq_dec y x) as [->|Hne].
    - now rewrite getb_setb_same.
    - rewrite getb_setb_other; auto.
  Qed.

  Lemma inv_resort st x token : inv st -> inv (resort st x token).
  Proof.
    intros Hi. unfold resort. apply inv_setb; auto.
    destruct (Hi x) as [H1 H2]. split; auto. simpl. intros y.
    unfold sort_neighbors. rewrite isort_In. apply H1.
  Qed.

  Lemma ok_add_visited x b s : bnode_ok x b -> bnode_ok x (add_visited b s).
  Proof. intros H; exact H. Qed.
  Lemma ok_set_root x b : bnode_ok x b -> bnode_ok x (set_root b).
  Proof. intros H; exact H. Qed.
  Lemma ok_add_child x b n : bnode_ok x b -> In n (nb x) -> bnode_ok x (add_child b n).
  Proof.
    intros [H1 [H2 [H3 [H4 H5]]]] Hn. repeat split; auto; try apply H1.
    simpl. intros y Hy. apply in_app_iff in Hy as [Hy|[Hy|[]]]; auto. now subst.
  Qed.
  Lemma ok_add_pc x b n : bnode_ok x b -> In n (nb x) -> bnode_ok x (add_pc b n).
  Proof.
    intros [H1 [H2 [H3 [H4 H5]]]] Hn. repeat split; auto; try apply H1.
    simpl. intros y Hy. apply in_app_iff in Hy as [Hy|[Hy|[]]]; auto. now subst.
  Qed.
  Lemma ok_set_parent x b s (f : Z -> bool) :
    bnode_ok x b -> In s (nb x) -> bnode_ok x (set_parent b s (filter f (b_neighbors b))).
  Proof.
    intros [H1 [H2 [H3 [H4 H5]]]] Hs. repeat split; auto; try apply H1.
    - simpl. intros y Hy. apply filter_In in Hy as [Hy _]. now apply H1.
    - simpl. intros p Hp. inversion Hp; now subst.
  Qed.

  Lemma prop_loop_inv rec x : 
    (forall st n st', inv st -> In n (nb x) -> rec st n = Some st' -> inv st') ->
    forall ns st st', incl ns (nb x) -> inv st -> prop_loop rec x ns st = Some st' -> inv st'.
  Proof.
    intros Hrec. induction ns as [|n r IH]; intros st st' Hincl Hi H; simpl in H.
    - inversion H; now subst.
    - assert (Hn : In n (nb x)) by (apply Hincl; now left).
      assert (Hr : incl r (nb x)) by (intros z Hz; apply Hincl; now right).
      destruct (zmem n (b_visited (getb st x))); [eapply IH; eauto|].
      destruct (zmem n (b_pps (getb st x))).
      + destruct (rec st n) as [st1|] eqn:E; [|discriminate].
        eapply IH; [auto| |exact H]. eapply Hrec; [exact Hi|exact Hn|exact E].
      + destruct (rec (setb st x (add_child (getb st x) n)) n) as [st1|] eqn:E; [|discriminate].
        eapply IH; [auto| |exact H]. eapply Hrec; [|exact Hn|exact E].
        apply inv_setb; auto. apply ok_add_child; auto.
  Qed.

  Lemma handle_inv : forall f st sender x token st',
    inv st -> (forall s, sender = Some s -> In s (nb x)) ->
    handle f st sender x token = Some st' -> inv st'.
  Proof.
    induction f as [|f IH]; intros st sender x token st' Hi Hs H; [discriminate|].
    assert (Hprop : forall st0, inv st0 ->
      prop_loop (fun st n => handle f st (Some x) n (token ++ [x])) x
        (b_neighbors (getb (resort st0 x (token ++ [x])) x)) (resort st0 x (token ++ [x])) = Some st' ->
      inv st').
    { intros st0 Hi0 H0.
      pose proof (inv_resort st0 x (token ++ [x]) Hi0) as Hi1.
      eapply prop_loop_inv; [| |exact Hi1|exact H0].
      - intros st1 n st2 Hi2 Hn H2. eapply IH; [exact Hi2| |exact H2].
        intros s Hs'. inversion Hs'; subst. now apply nb_sym.
      - intros y Hy. destruct (Hi1 x) as [Hnb _]. now apply Hnb. }
    simpl in H. destruct sender as [s|].
    - assert (Hsx : In s (nb x)) by now apply Hs.
      set (st1 := setb st x (add_visited (getb st x) s)) in *.
      assert (Hi1 : inv st1) by (apply inv_setb; auto; apply ok_add_visited; apply Hi).
      destruct (b_parent (getb st1 x)) eqn:Ep.
      + destruct (zmem s (b_children (getb st1 x))); inversion H; subst; auto.
        apply inv_setb; auto. apply ok_add_pc; auto.
      + destruct (b_root (getb st1 x)).
        * destruct (zmem s (b_children (getb st1 x))); inversion H; subst; auto.
          apply inv_setb; auto. apply ok_add_pc; auto.
        * apply Hprop in H; auto. apply inv_resort. apply inv_setb; auto.
          apply ok_set_parent; auto.
    - apply Hprop in H; auto. apply inv_setb; auto. apply ok_set_root. apply Hi.
  Qed.

  (* the preorder visit only meets nodes reachable through neighbour links *)
  Lemma visit_loop_incl (P : Z -> Prop) rec :
    (forall c l, P c -> rec c = Some l -> Forall P l) ->
    forall cs l, Forall P cs -> visit_loop rec cs = Some l -> Forall P l.
  Proof.
    intros Hrec. induction cs as [|c r IH]; intros l Hcs H; simpl in H.
    - inversion H; subst. constructor.
    - inversion Hcs; subst.
      destruct (rec c) as [a|] eqn:Ea; [|discriminate].
      destruct (visit_loop rec r) as [b|] eqn:Eb; [|discriminate].
      inversion H; subst. apply Forall_app. split; eauto.
  Qed.

  Lemma visit_incl (P : Z -> Prop) st :
    inv st -> (forall x y, P x -> In y (nb x) -> P y) ->
    forall f x l, P x -> visit f st x = Some l -> Forall P l.
  Proof.
    intros Hi HP. induction f as [|f IH]; intros x l Hx H; [discriminate|].
    simpl in H.
    destruct (visit_loop (visit f st) (b_children (getb st x))) as [l0|] eqn:E; [|discriminate].
    inversion H; subst. constructor; auto.
    eapply visit_loop_incl; [|  |exact E].
    - intros c l1 Hc H1. eapply IH; eauto.
    - apply Forall_forall. intros c Hc. apply (HP x); auto.
      destruct (Hi x) as [_ [H2 _]]. now apply H2.
  Qed.
End Inv.

Lemma zlookup_map_init (F : Z -> bnode) vars x :
  zlookup x (map (fun v => (v, F v)) vars) = if zmem x vars then Some (F x) else None.
Proof.
  induction vars as [|v r IH]; simpl; auto.
  unfold zlookup in *. simpl. destruct (Z.eqb x v) eqn:E; simpl.
  - apply Z.eqb_eq in E. now subst.
  - exact IH.
Qed.

Lemma inv_init vars rels : inv (nbr vars rels) (init_state vars rels).
Proof.
  intros x. unfold getb, init_state. rewrite zlookup_map_init. unfold nbr, bnode_ok.
  destruct (zmem x vars); simpl;
    (split; [intros y; tauto|]); (split; [intros y []|]); (split; [intros y []|]);
    (split; [intros y []|]); discriminate.
Qed.

Lemma choose_root_In st vars r : choose_root st vars = Some r -> In r vars.
Proof.
  unfold choose_root. set (l := isort _ vars).
  destruct (rev l) as [|r0 q] eqn:E; [discriminate|]. intros H; inversion H; subst.
  assert (In r (rev l)) by (rewrite E; now left).
  apply in_rev in H0. unfold l in H0. now apply isort_In in H0.
Qed.

(* one DFS tree *)
Lemma gen_dfs_tree_ok vars rels r st :
  gen_dfs_tree vars rels = Some (r, st) -> In r vars /\ inv (nbr vars rels) st.
Proof.
  unfold gen_dfs_tree. destruct (choose_root _ vars) as [r0|] eqn:Er; [|discriminate].
  destruct (handle _ _ None r0 []) as [st'|] eqn:Eh; [|discriminate].
  intros H; inversion H; subst. split.
  - eapply choose_root_In; eauto.
  - eapply handle_inv; [apply nbr_sym|apply inv_init| |exact Eh]. discriminate.
Qed.

Lemma fold_remove_incl visited : forall vars y,
  In y (fold_left (fun l v => remove_first v l) visited vars) -> In y vars.
Proof.
  induction visited as [|v r IH]; simpl; auto.
  intros vars y H. apply IH in H. eapply remove_first_incl; eauto.
Qed.

Lemma fold_remove_covers visited : forall vars y,
  In y vars -> In y visited \/ In y (fold_left (fun l v => remove_first v l) visited vars).
Proof.
  induction visited as [|v r IH]; simpl; auto.
  intros vars y H. destruct (remove_first_In_or v vars y H) as [->|H1]; auto.
  destruct (IH _ _ H1); auto.
Qed.

Lemma t_ids_app a b : t_ids (a ++ b) = t_ids a ++ t_ids b.
Proof. unfold t_ids. apply map_app. Qed.

Lemma t_ids_node_of rels st l : t_ids (map (node_of rels st) l) = l.
Proof. unfold t_ids. rewrite map_map. simpl. apply map_id. Qed.

(* what is proved of every node the builder outputs *)
Definition node_sound (vars : list Z) (rels : list (list Z)) (n : ptnode) : Prop :=
  In (n_id n) vars /\
  n_rels n = rels_of_from 0 rels (n_id n) /\
  forall y, (n_parent n = Some y \/ In y (n_children n) \/ In y (n_pps n) \/ In y (n_pcs n)) ->
    In y vars /\ exists sc, In sc rels /\ In (n_id n) sc /\ In y sc.

Lemma node_sound_mono vars vars' rels n :
  incl vars' vars -> node_sound vars' rels n -> node_sound vars rels n.
Proof.
  intros Hi [H1 [H2 H3]]. split; [|split]; auto.
  intros y Hy. destruct (H3 y Hy) as [H4 H5]. auto.
Qed.

Lemma forest_sound rels : forall fuel vars roots t,
  forest fuel vars rels = Some (roots, t) ->
  (forall v, In v vars -> In v (t_ids t)) /\
  Forall (node_sound vars rels) t /\
  incl roots vars.
Proof.
  induction fuel as [|fuel IH]; intros vars roots t H.
  - destruct vars; simpl in H; [|discriminate]. inversion H; subst.
    repeat split; auto. intros v [].
  - destruct vars as [|v0 vr]; [simpl in H; inversion H; subst; repeat split; auto; intros v []|].
    remember (v0 :: vr) as vars. 
    assert (H' : match gen_dfs_tree vars rels with
      | None => None
      | Some (r, st) =>
          match visit (S (List.length vars)) st r with
          | None => None
          | Some visited =>
              let vars' := fold_left (fun l v => remove_first v l) visited vars in
              match forest fuel vars' rels with
              | None => None
              | Some (roots, nodes) => Some (r :: roots, map (node_of rels st) visited ++ nodes)
              end
          end
      end = Some (roots, t)).
    { rewrite <- H. rewrite Heqvars. reflexivity. }
    clear H. rename H' into H.
    destruct (gen_dfs_tree vars rels) as [[r st]|] eqn:Eg; [|discriminate].
    destruct (gen_dfs_tree_ok _ _ _ _ Eg) as [Hr Hinv].
    destruct (visit (S (List.length vars)) st r) as [visited|] eqn:Ev; [|discriminate].
    cbv zeta in H.
    destruct (forest fuel _ rels) as [[roots' nodes]|] eqn:Ef; [|discriminate].
    inversion H; subst roots t. clear H.
    destruct (IH _ _ _ Ef) as [IH1 [IH2 IH3]].
    assert (Hvis : Forall (fun x => In x vars) visited).
    { eapply (visit_incl (nbr vars rels) (fun x => In x vars)); eauto.
      intros x y _ Hy. now apply nbr_vars in Hy. }
    split; [|split].
    + intros v Hv. rewrite t_ids_app, t_ids_node_of. apply in_app_iff.
      destruct (fold_remove_covers visited vars v Hv); auto.
    + apply Forall_app. split.
      * apply Forall_forall. intros n Hn. apply in_map_iff in Hn as [x [<- Hx]].
        rewrite Forall_forall in Hvis. unfold node_sound, node_of. simpl.
        split; [auto|split; [reflexivity|]].
        destruct (Hinv x) as [_ [Hc [Hpp [Hpc Hp]]]].
        intros y Hy.
        assert (Hnb : In y (nbr vars rels x)).
        { destruct Hy as [Hy|[Hy|[Hy|Hy]]]; auto. }
        split; [now apply nbr_vars in Hnb|]. now apply (nbr_share vars).
      * eapply Forall_impl; [|exact IH2]. intros n Hn.
        eapply node_sound_mono; [|exact Hn]. intros y Hy. eapply fold_remove_incl; eauto.
    + intros y [<-|Hy]; auto. apply IH3 in Hy. eapply fold_remove_incl; eauto.
Qed.

Lemma rels_of_from_NoDup rels a : forall i, NoDup (rels_of_from i rels a).
Proof.
  induction rels as [|sc r IH]; intros i; simpl; [constructor|].
  destruct (zmem a sc); auto. constructor; auto.
  intros H. apply rels_of_from_spec in H. lia.
Qed.

(* every variable has a node, every node is a variable *)
Lemma build_nodes_l g roots t : build g = Some (roots, t) ->
  (forall v, In v (t_ids t) <-> In v (g_vars g)) /\ incl roots (g_vars g).
Proof.
  unfold build. intros H. apply forest_sound in H as [H1 [H2 H3]]. split; auto.
  intros v. split; auto. intros Hv. apply in_map_iff in Hv as [n [<- Hn]].
  rewrite Forall_forall in H2. destruct (H2 n Hn) as [Hid _]. exact Hid.
Qed.

(* each node carries exactly the constraints on its variable, once each, in order *)
Lemma build_constraints_l g roots t : build g = Some (roots, t) ->
  forall n, In n t ->
    n_rels n = rels_of g (n_id n) /\ NoDup (n_rels n) /\
    forall c, In c (n_rels n) <-> exists sc, scope_of g c = Some sc /\ In (n_id n) sc.
Proof.
  unfold build. intros H n Hn. apply forest_sound in H as [_ [H2 _]].
  rewrite Forall_forall in H2. destruct (H2 n Hn) as [_ [Hr _]].
  split; [exact Hr|]. rewrite Hr. split; [apply rels_of_from_NoDup|].
  intros c. apply rels_of_spec.
Qed.

(* every link of every node joins two variables that share a constraint *)
Lemma build_links_l g roots t : build g = Some (roots, t) ->
  forall n y, In n t ->
    (n_parent n = Some y \/ In y (n_children n) \/ In y (n_pps n) \/ In y (n_pcs n)) ->
    In y (g_vars g) /\ exists sc, In sc (g_rels g) /\ In (n_id n) sc /\ In y sc.
Proof.
  unfold build. intros H n y Hn Hy. apply forest_sound in H as [_ [H2 _]].
  rewrite Forall_forall in H2. destruct (H2 n Hn) as [_ [_ Hl]]. auto.
Qed.

(* ---- consequences of the depth function ---- *)
From Coq Require Import Wf_nat.

Lemma pt_valid_rooted_l g t : PT_valid g t -> forall a, rooted t a.
Proof.
  intros V. destruct (ptv_ranked g t V) as [d [N [_ Hd]]].
  assert (G : forall n a, d a = n -> rooted t a).
  { induction n as [|n IH]; intros a Ha.
    - destruct (t_parent t a) as [p|] eqn:E; [|now apply rooted_root].
      apply Hd in E. lia.
    - destruct (t_parent t a) as [p|] eqn:E; [|now apply rooted_root].
      eapply rooted_step; eauto. apply IH. apply Hd in E. lia. }
  intros a. eapply G; eauto.
Qed.

(* induction towards the root (VALUE phase) and towards the leaves (UTIL phase) *)
Lemma pt_valid_wf_l g t : PT_valid g t ->
  well_founded (fun p a => t_parent t a = Some p) /\
  well_founded (fun c a => In c (t_children t a)).
Proof.
  intros V. destruct (ptv_ranked g t V) as [d [N [Hb Hd]]]. split.
  - apply (well_founded_lt_compat _ d). intros p a H. apply Hd in H. lia.
  - apply (well_founded_lt_compat _ (fun a => N - d a)%nat). intros c a H.
    apply (ptv_parent_children g t V) in H. apply Hd in H. pose proof (Hb c). lia.
Qed.

(* the variables of a constraint lie on one branch: the scope has a lowest node and every
   other variable of the scope is a proper ancestor of it *)
Lemma pt_valid_scope_chain_l g t : PT_valid g t ->
  forall sc, In sc (g_rels g) -> sc <> [] ->
  exists a, In a sc /\ forall b, In b sc -> b = a \/ anc t b a.
Proof.
  intros V sc Hsc Hne.
  assert (G : forall l, incl l sc -> l <> [] ->
            exists a, In a l /\ forall b, In b l -> b = a \/ anc t b a).
  { induction l as [|x r IH]; intros Hi Hl; [congruence|].
    destruct r as [|y r'].
    - exists x. split; [now left|]. intros b [->|[]]. now left.
    - destruct IH as [a [Ha Hlow]]; [intros z Hz; apply Hi; now right|discriminate|].
      destruct (Z.eq_dec x a) as [->|Hxa].
      + exists a. split; [now left|]. intros b [->|Hb]; auto.
      + assert (Hx : In x sc) by (apply Hi; now left).
        assert (Has : In a sc) by (apply Hi; now right).
        destruct (pt_valid_ancestral_l g t V sc x a Hsc Hx Has Hxa) as [[Hanc|Hanc] _].
        * exists a. split; [now right|]. intros b [->|Hb]; auto.
        * exists x. split; [now left|]. intros b [->|Hb]; auto.
          destruct (Hlow b Hb) as [->|Hba]; auto. right. eapply anc_trans; eauto. }
  apply G; auto. intros z Hz; exact Hz.
Qed.
