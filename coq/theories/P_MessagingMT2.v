(* P_MessagingMT2.v -- more about M_MessagingMT (C18): the post lock is always released (no
   deadlock is introduced by it), and with the lock the messages of one type are handled in
   the order of their puts, whoever sent them. *)
From PyDcop Require Import Base M_MessagingMT P_MessagingMT.
From Coq Require Import Permutation Sorted.

(* ---------- the lock holder is a live thread inside the critical section ---------- *)
Record HInv (st : gst) : Prop := mkH {
  h_holder : forall i, g_lock st = Some i ->
     exists t, nth_error (g_thr st) i = Some t /\ in_cs (t_pc t) = true;
  h_prog : forall i t, nth_error (g_thr st) i = Some t ->
     match t_pc t with PCheck | PRel => True | _ => t_prog t <> [] end
}.

Lemma HInv_poster c st i t :
  c_lock c = true -> LInv st -> HInv st -> nth_error (g_thr st) i = Some t -> HInv (poster_step c st i t).
Proof.
  intros LK L H Ti. pose proof (h_prog _ H _ _ Ti) as Pi. unfold poster_step. rewrite LK.
  destruct (t_pc t) eqn:PC.
  - destruct (t_prog t) as [|p r] eqn:PR; auto. destruct (g_shut st).
    + constructor; simpl.
      * intros j Hj. destruct (h_holder _ H _ Hj) as [tj [Tj Cj]].
        destruct (Nat.eq_dec j i) as [->|N].
        -- rewrite Ti in Tj. inversion Tj; subst. rewrite PC in Cj. discriminate.
        -- exists tj. rewrite nth_error_upd_other; auto.
      * intros j tj Hj. apply nth_upd_inv in Hj as [[-> ->]|[N Hj]]; simpl; auto.
        apply (h_prog _ H _ _ Hj).
    + constructor; simpl.
      * intros j Hj. destruct (h_holder _ H _ Hj) as [tj [Tj Cj]].
        destruct (Nat.eq_dec j i) as [->|N].
        -- rewrite Ti in Tj. inversion Tj; subst. rewrite PC in Cj. discriminate.
        -- exists tj. rewrite nth_error_upd_other; auto.
      * intros j tj Hj. apply nth_upd_inv in Hj as [[-> ->]|[N Hj]]; simpl.
        -- rewrite PR. discriminate.
        -- apply (h_prog _ H _ _ Hj).
  - constructor; simpl.
    + intros j Hj. destruct (h_holder _ H _ Hj) as [tj [Tj Cj]].
      destruct (Nat.eq_dec j i) as [->|N].
      * rewrite Ti in Tj. inversion Tj; subst. rewrite PC in Cj. discriminate.
      * exists tj. rewrite nth_error_upd_other; auto.
    + intros j tj Hj. apply nth_upd_inv in Hj as [[-> ->]|[N Hj]]; simpl; auto.
      apply (h_prog _ H _ _ Hj).
  - destruct (g_lock st) eqn:LO; auto. constructor; simpl.
    + intros j Hj. inversion Hj; subst. eexists. split; [eapply nth_error_upd_same; eauto|reflexivity].
    + intros j tj Hj. apply nth_upd_inv in Hj as [[-> ->]|[N Hj]]; simpl; auto.
      apply (h_prog _ H _ _ Hj).
  - constructor; simpl.
    + intros j Hj. destruct (h_holder _ H _ Hj) as [tj [Tj Cj]].
      destruct (Nat.eq_dec j i) as [->|N].
      * eexists. split; [eapply nth_error_upd_same; eauto|reflexivity].
      * exists tj. rewrite nth_error_upd_other; auto.
    + intros j tj Hj. apply nth_upd_inv in Hj as [[-> ->]|[N Hj]]; simpl; auto.
      apply (h_prog _ H _ _ Hj).
  - constructor; simpl.
    + intros j Hj. destruct (h_holder _ H _ Hj) as [tj [Tj Cj]].
      destruct (Nat.eq_dec j i) as [->|N].
      * eexists. split; [eapply nth_error_upd_same; eauto|reflexivity].
      * exists tj. rewrite nth_error_upd_other; auto.
    + intros j tj Hj. apply nth_upd_inv in Hj as [[-> ->]|[N Hj]]; simpl; auto.
      apply (h_prog _ H _ _ Hj).
  - constructor; simpl.
    + intros j Hj. destruct (h_holder _ H _ Hj) as [tj [Tj Cj]].
      destruct (Nat.eq_dec j i) as [->|N].
      * eexists. split; [eapply nth_error_upd_same; eauto|reflexivity].
      * exists tj. rewrite nth_error_upd_other; auto.
    + intros j tj Hj. apply nth_upd_inv in Hj as [[-> ->]|[N Hj]]; simpl; auto.
      apply (h_prog _ H _ _ Hj).
  - destruct (t_prog t) as [|p r] eqn:PR; auto. constructor; simpl.
    + intros j Hj. destruct (h_holder _ H _ Hj) as [tj [Tj Cj]].
      destruct (Nat.eq_dec j i) as [->|N].
      * eexists. split; [eapply nth_error_upd_same; eauto|reflexivity].
      * exists tj. rewrite nth_error_upd_other; auto.
    + intros j tj Hj. apply nth_upd_inv in Hj as [[-> ->]|[N Hj]]; simpl; auto.
      apply (h_prog _ H _ _ Hj).
  - constructor; simpl.
    + intros j Hj. discriminate.
    + intros j tj Hj. apply nth_upd_inv in Hj as [[-> ->]|[N Hj]]; simpl; auto.
      apply (h_prog _ H _ _ Hj).
Qed.

Lemma HInv_frame st st' :
  g_thr st' = g_thr st -> g_lock st' = g_lock st -> HInv st -> HInv st'.
Proof. intros E1 E2 [A B]. constructor; rewrite ?E1, ?E2; auto. Qed.

Lemma HInv_step c st ch : c_lock c = true -> LInv st -> HInv st -> HInv (step c st ch).
Proof.
  intros LK L H. destruct ch as [| | |i]; simpl.
  - apply (HInv_frame st); auto.
  - unfold agent_step. destruct (g_adone st); auto.
    destruct (c_flagfirst c), (g_astage st); simpl; try destruct (g_queue st); simpl;
      apply (HInv_frame st); auto.
  - unfold ctl_step. destruct (g_ctl st) as [|[|] r]; auto; apply (HInv_frame st); auto.
  - destruct (nth_error (g_thr st) i) as [t|] eqn:T; auto. now apply HInv_poster.
Qed.

Lemma HInv_exec c progs ctl sched : c_lock c = true -> HInv (exec c progs ctl sched).
Proof.
  intros LK. induction sched as [|ch sched IH] using rev_ind.
  - constructor; simpl; [discriminate|].
    intros i t H. unfold init in H. simpl in H. rewrite nth_error_map in H.
    destruct (nth_error progs i); inversion H. simpl. auto.
  - unfold exec in *. rewrite run_snoc. apply HInv_step; auto. now apply LInv_exec.
Qed.

(* whoever holds the lock gives it back within five of its own steps, whatever the others do
   before (they cannot touch its state): no deadlock comes with the lock *)
Lemma mt_lock_released_l ff progs ctl sched i :
  let c := mkCfg true ff in
  let st := exec c progs ctl sched in
  g_lock st = Some i ->
  exists k, (k <= 5)%nat /\ g_lock (run c st (repeat (CPost i) k)) = None.
Proof.
  intros c st Hl.
  pose proof (HInv_exec c progs ctl sched eq_refl) as H. fold st in H.
  destruct (h_holder _ H _ Hl) as [t [Ti Ci]]. pose proof (h_prog _ H _ _ Ti) as Pi.
  assert (S1 : forall s t', nth_error (g_thr s) i = Some t' -> t_pc t' = PRel ->
                g_lock (run c s [CPost i]) = None).
  { intros s t' T' P'. simpl. rewrite T'. unfold poster_step. rewrite P'. reflexivity. }
  assert (S2 : forall s t', nth_error (g_thr s) i = Some t' -> t_pc t' = PPut -> t_prog t' <> [] ->
                g_lock (run c s (repeat (CPost i) 2)) = None).
  { intros s t' T' P' N'. simpl. rewrite T'. unfold poster_step at 1. rewrite P'.
    destruct (t_prog t') as [|p r] eqn:PR; [congruence|]. simpl.
    erewrite nth_error_upd_same; eauto. }
  assert (S3 : forall s t', nth_error (g_thr s) i = Some t' -> t_pc t' = PReread -> t_prog t' <> [] ->
                g_lock (run c s (repeat (CPost i) 3)) = None).
  { intros s t' T' P' N'. change (repeat (CPost i) 3) with ([CPost i] ++ repeat (CPost i) 2).
    rewrite run_app. eapply S2.
    - simpl. rewrite T'. unfold poster_step. rewrite P'. simpl. eapply nth_error_upd_same; eauto.
    - reflexivity.
    - exact N'. }
  assert (S4 : forall s t', nth_error (g_thr s) i = Some t' -> t_pc t' = PStore -> t_prog t' <> [] ->
                g_lock (run c s (repeat (CPost i) 4)) = None).
  { intros s t' T' P' N'. change (repeat (CPost i) 4) with ([CPost i] ++ repeat (CPost i) 3).
    rewrite run_app. eapply S3.
    - simpl. rewrite T'. unfold poster_step. rewrite P'. simpl. eapply nth_error_upd_same; eauto.
    - reflexivity.
    - exact N'. }
  assert (S5 : forall s t', nth_error (g_thr s) i = Some t' -> t_pc t' = PLoad -> t_prog t' <> [] ->
                g_lock (run c s (repeat (CPost i) 5)) = None).
  { intros s t' T' P' N'. change (repeat (CPost i) 5) with ([CPost i] ++ repeat (CPost i) 4).
    rewrite run_app. eapply S4.
    - simpl. rewrite T'. unfold poster_step. rewrite P'. simpl. eapply nth_error_upd_same; eauto.
    - reflexivity.
    - exact N'. }
  destruct (t_pc t) eqn:PC; try discriminate.
  - exists 5%nat. split; [lia|]. eapply S5; eauto.
  - exists 4%nat. split; [lia|]. eapply S4; eauto.
  - exists 3%nat. split; [lia|]. eapply S3; eauto.
  - exists 2%nat. split; [lia|]. eapply S2; eauto.
  - exists 1%nat. split; [lia|]. eapply S1; eauto.
Qed.

(* ---------- with the lock: one type is handled in put order, whatever the senders ---------- *)
Lemma puts_sorted c progs ctl sched :
  c_lock c = true -> StronglySorted cnt_lt (g_puts (exec c progs ctl sched)).
Proof.
  intros LK. induction sched as [|ch sched IH] using rev_ind.
  - constructor.
  - unfold exec in *. rewrite run_snoc. set (st := run c (init progs ctl) sched) in *.
    pose proof (LInv_exec c progs ctl sched LK) as L. unfold exec in L. fold st in L.
    destruct (step_kind_of c st ch) as [[Ht [Hp [Hh [Hq Hd]]]] Hs | i p r k Hi Hs Hs' Ht Hd Hp Hh Hq
                            | i t p r Ti PC PR Ht Hp Hq Hh Hd Hs | e r Q Hq Hh Ht Hp Hd Hs];
      rewrite Hp; auto.
    apply SS_snoc; auto. unfold cnt_lt. simpl. rewrite (l_put _ L _ _ Ti PC).
    apply (l_lt _ L _ _ Ti). now right.
Qed.

Lemma mt_fifo_put_order_l ff progs ctl sched ty :
  let st := exec (mkCfg true ff) progs ctl sched in
  StronglySorted Z.lt (map e_cnt (g_puts st)) /\
  StronglySorted Z.lt (map e_cnt (filter (fun e => e_type e =? ty) (g_handled st))).
Proof.
  intros st. split.
  - apply SS_map. apply (puts_sorted (mkCfg true ff) progs ctl sched eq_refl).
  - apply SS_map. pose proof (FInv_exec (mkCfg true ff) progs ctl sched eq_refl) as F. fold st in F.
    pose proof (f_hq _ F ty) as S. rewrite filter_app in S. now apply SS_app_l in S.
Qed.

(* ---------- registration racing with deferring posts ---------- *)
Lemma mt_late_registration_refuted_l :
  (* stranded: the destination registers between the unknown-destination test and the deferral *)
  (exists progs sched, let s := rrun progs sched in
     rfinished s = true /\ r_known s = true /\ r_failed s = [1] /\ r_queue s = []) /\
  (* overtaken: the sender's next post goes in directly between the table write and the replay *)
  (exists sched, let s := rrun [[1; 2]] sched in
     rfinished s = true /\ r_known s = true /\ r_failed s = [] /\ r_queue s = [2; 1]).
Proof.
  split.
  - exists [[1]], [RCPost 0; RCReg; RCReg; RCReg; RCPost 0; RCPost 0]. vm_compute. auto.
  - exists (repeat (RCPost 0) 3 ++ [RCReg] ++ repeat (RCPost 0) 2 ++ repeat RCReg 6). vm_compute. auto.
Qed.

(* nothing is lost or duplicated by the race: whatever the interleaving, the posted ids are
   exactly the queued ones, the deferred ones and those not yet posted *)
Definition opt_list (o : option Z) : list Z := match o with Some f => [f] | None => [] end.
Definition pending (s : rst) : list Z := List.concat (map d_prog (r_thr s)).

Lemma zremove_first_perm f l : In f l -> Permutation l (f :: zremove_first f l).
Proof.
  induction l as [|y r IH]; simpl; [tauto|]. intros [->|H].
  - now rewrite Z.eqb_refl.
  - destruct (f =? y) eqn:E; [apply Z.eqb_eq in E; now subst|].
    eapply perm_trans; [apply perm_skip, IH, H|]. apply perm_swap.
Qed.

Lemma upd_split {A} (y : A) : forall l i x, nth_error l i = Some x ->
  exists a b, l = a ++ x :: b /\ upd i y l = a ++ y :: b.
Proof.
  induction l as [|z l IH]; intros [|i] x H; simpl in *; try discriminate.
  - inversion H; subst. now exists [], l.
  - destruct (IH _ _ H) as [a [b [E1 E2]]]. exists (z :: a), b. simpl. now rewrite <- E1, E2.
Qed.

Lemma pending_advance s i t m rest pc :
  nth_error (r_thr s) i = Some t -> d_prog t = m :: rest ->
  Permutation (List.concat (map d_prog (r_thr s))) (m :: List.concat (map d_prog (upd i (mkD rest pc) (r_thr s)))).
Proof.
  intros T P. destruct (upd_split (mkD rest pc) _ _ _ T) as [a [b [E1 E2]]]. rewrite E2, E1.
  rewrite !map_app, !concat_app. simpl. rewrite P. simpl.
  symmetry. apply Permutation_middle.
Qed.

Lemma pending_same s i t pc :
  nth_error (r_thr s) i = Some t ->
  List.concat (map d_prog (upd i (mkD (d_prog t) pc) (r_thr s))) = List.concat (map d_prog (r_thr s)).
Proof.
  intros T. destruct (upd_split (mkD (d_prog t) pc) _ _ _ T) as [a [b [E1 E2]]]. rewrite E2, E1.
  now rewrite !map_app, !concat_app.
Qed.

Record RInv (all : list Z) (s : rst) : Prop := mkRI {
  ri_rm : r_rm s = None \/ r_pc s = RReplay;
  ri_cons : Permutation (opt_list (r_rm s) ++ all) (r_queue s ++ r_failed s ++ pending s);
  ri_snap : r_pc s = RReplay ->
            exists rest, Permutation (r_failed s) (opt_list (r_rm s) ++ r_snap s ++ rest)
}.

Lemma RInv_reg all s : RInv all s -> RInv all (reg_step s).
Proof.
  intros [A C S]. unfold reg_step. destruct (r_pc s) eqn:PC.
  - destruct A as [A|A]; [|discriminate]. rewrite A in C.
    destruct (r_known s); constructor; simpl; auto; discriminate.
  - destruct A as [A|A]; [|discriminate]. rewrite A in C.
    destruct (r_j s <? r_cbs s)%nat; constructor; simpl; auto; try discriminate.
    intros _. exists []. now rewrite app_nil_r.
  - destruct (S eq_refl) as [rest P]. destruct (r_rm s) as [f|] eqn:RM; simpl in *.
    + assert (Pf : Permutation (r_failed s) (f :: zremove_first f (r_failed s))).
      { apply zremove_first_perm. eapply Permutation_in; [symmetry; exact P|now left]. }
      constructor; simpl; auto.
      * apply Permutation_cons_inv with f. rewrite C. unfold pending. simpl.
        rewrite Pf at 1. simpl. symmetry. apply Permutation_middle.
      * intros _. exists rest. apply Permutation_cons_inv with f. now rewrite <- Pf.
    + destruct (r_snap s) as [|f rest'] eqn:SN; constructor; simpl; auto; try discriminate.
      unfold pending in *. simpl. rewrite C. rewrite <- app_assoc. simpl. apply Permutation_middle.
  - destruct A as [A|A]; [|discriminate]. rewrite A in C. constructor; simpl; auto. discriminate.
  - constructor; auto; try (intros R; congruence).
    destruct A as [A|A]; [now left|discriminate].
Qed.

Lemma RInv_poster all s i t : nth_error (r_thr s) i = Some t -> RInv all s -> RInv all (dposter_step s i t).
Proof.
  intros T [A C S]. unfold dposter_step. destruct (d_prog t) as [|m rest0] eqn:P; [constructor; auto|].
  assert (E : forall pc, pending (set_dthr s i (mkD (m :: rest0) pc)) = pending s).
  { intros pc. unfold pending. simpl. rewrite <- P. now apply pending_same. }
  pose proof (pending_advance s i t m rest0 DLook T P) as Adv.
  destruct (d_pc t).
  - constructor; simpl; auto. unfold pending in *. simpl. rewrite <- P.
    now rewrite (pending_same s i t _ T).
  - constructor; simpl; auto. unfold pending in *. simpl. rewrite <- P.
    now rewrite (pending_same s i t _ T).
  - constructor; simpl; auto.
    + unfold pending in *. simpl. rewrite C, Adv. apply Permutation_app_head.
      rewrite <- app_assoc. reflexivity.
    + intros R. destruct (S R) as [rest Pm]. exists (rest ++ [m]).
      rewrite Pm. rewrite !app_assoc. reflexivity.
  - constructor; simpl; auto.
    unfold pending in *. simpl. rewrite C, Adv. rewrite <- app_assoc. simpl.
    apply Permutation_app_head. symmetry. apply Permutation_middle.
Qed.

Lemma RInv_step all s ch : RInv all s -> RInv all (rstep s ch).
Proof.
  intros I. destruct ch as [|i]; simpl; [now apply RInv_reg|].
  destruct (nth_error (r_thr s) i) as [t|] eqn:T; auto. now apply RInv_poster.
Qed.

Lemma mt_reg_conservation_l progs sched :
  let s := rrun progs sched in
  r_rm s = None -> Permutation (List.concat progs) (r_queue s ++ r_failed s ++ pending s).
Proof.
  intros s. assert (I : RInv (List.concat progs) s).
  { unfold s, rrun. induction sched as [|ch sched IH] using rev_ind.
    - constructor; simpl; auto; [|discriminate]. unfold pending. simpl. rewrite map_map. simpl.
      now rewrite map_id.
    - rewrite fold_left_app. simpl. now apply RInv_step. }
  intros R. pose proof (ri_cons _ _ I) as C. now rewrite R in C.
Qed.
