(* P_PseudoTree4.v -- C17, for consumers (C01): every tree edge and every back edge of the forest
   the builder model returns is an edge of the constraint graph (the DFS token only moves along
   constraint-graph edges), stated with the accessors t_parent / t_pps.  Needs no hypothesis on the
   graph: it is pt_links_partial (P_PseudoTree.build_links_l) read through find_node. *)
From PyDcop Require Import Base M_PseudoTree P_PseudoTree.

Lemma build_parent_shares_constraint_l g roots t : build g = Some (roots, t) ->
  forall a p, t_parent t a = Some p ->
    In p (g_vars g) /\ exists sc, In sc (g_rels g) /\ In a sc /\ In p sc.
Proof.
  intros HB a p H. unfold t_parent in H. destruct (find_node t a) as [n|] eqn:E; [|discriminate].
  apply find_node_Some in E. destruct E as [Hn <-].
  exact (build_links_l g roots t HB n p Hn (or_introl H)).
Qed.

Lemma build_pp_shares_constraint_l g roots t : build g = Some (roots, t) ->
  forall a p, In p (t_pps t a) ->
    In p (g_vars g) /\ exists sc, In sc (g_rels g) /\ In a sc /\ In p sc.
Proof.
  intros HB a p H. unfold t_pps in H. destruct (find_node t a) as [n|] eqn:E; [|destruct H].
  apply find_node_Some in E. destruct E as [Hn <-].
  exact (build_links_l g roots t HB n p Hn (or_intror (or_intror (or_introl H)))).
Qed.
