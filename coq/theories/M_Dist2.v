(* M_Dist2.v -- C23 deepening, executable definitions only:
   * the boolean guards of the adhoc theorem (Prop_C23.valid_or_impossible_adhoc);
   * an executable validity test of an OBSERVED mapping;
   * the extended correspondence check: the model agrees with the implementation
     (M_Dist.check_case) AND, for adhoc, (a) the guard secp_free computed here agrees with the
     harness' classifier predicate of finding C23-adhoc-secp-hostwith, (b) whenever the guards
     of the theorem hold the implementation's observed result is a valid mapping or Impossible. *)
From PyDcop Require Import Base M_Dist.

Definition is_node (I : inst) (c : Z) : bool := zmem c (map n_id (i_nodes I)).
Definition is_agent (I : inst) (a : Z) : bool := zmem a (map g_id (i_agents I)).

(* DistributionHints as the generator / a sane caller builds them: must_host keys are distinct
   declared agents, every must-hosted computation exists and is named once; host_with names
   existing computations. *)
Definition hints_wfb (I : inst) : bool :=
  nodupb Z.eqb (map fst (i_must I)) &&
  forallb (is_agent I) (map fst (i_must I)) &&
  nodupb Z.eqb (flat_map snd (i_must I)) &&
  forallb (is_node I) (flat_map snd (i_must I)) &&
  forallb (fun e => forallb (is_node I) (snd e)) (i_with I).

(* c is hosted by the must-host phase of adhoc *)
Definition must_hosted (I : inst) (c : Z) : bool :=
  existsb (fun ag => zmem c (hints_must I (g_id ag))) (i_agents I).

(* the input shape adhoc's first ("secp") loop acts on: a factor that is not must-hosted and
   whose host_with group is exactly one variable computation *)
Definition secp_shape (I : inst) (nd : node) : bool :=
  negb (must_hosted I (n_id nd)) && (n_kind nd =? 1) &&
  match hints_with I (n_id nd) with
  | [h] => match node_of I h with Some hn => n_kind hn =? 0 | None => false end
  | _ => false
  end.
Definition secp_free (I : inst) : bool := forallb (fun nd => negb (secp_shape I nd)) (i_nodes I).

(* unique names *)
Definition wfb (I : inst) : bool :=
  nodupb Z.eqb (map n_id (i_nodes I)) && nodupb Z.eqb (map g_id (i_agents I)).

(* validity of a mapping, executable: hosted exactly once (sorted key lists are equal),
   declared agents, must-host, capacities *)
Definition valid_b (I : inst) (m : list (Z * Z)) : bool :=
  list_eqb Z.eqb (isort Z.leb (map fst m)) (isort Z.leb (map n_id (i_nodes I))) &&
  forallb (fun e => is_agent I (snd e)) m &&
  forallb (fun e => forallb (fun c => existsb (zz_eqb (c, fst e)) m) (snd e)) (i_must I) &&
  forallb (fun ag => hosted_fp I m (g_id ag) <=? g_cap ag) (i_agents I).

(* c2_secp_free / c2_hints_wf: the harness' own (Python) evaluation of the two guards *)
Record case2 := mkCase2 { c2_case : case; c2_hints_wf : bool; c2_secp_free : bool }.

Definition guard_ok (c : case2) : bool :=
  match c_method (c2_case c) with
  | MAdhoc =>
      let I := c_inst (c2_case c) in
      Bool.eqb (secp_free I) (c2_secp_free c) && Bool.eqb (hints_wfb I) (c2_hints_wf c) &&
      (if wfb I && hints_wfb I && secp_free I then
         match c_obs (c2_case c) with
         | OMap m => valid_b I m
         | OImpossible => true
         | OError => false
         end
       else true)
  | _ => true
  end.

Definition check_case2 (c : case2) : bool := check_case (c2_case c) && guard_ok c.
