(* P_SelectDpop.v -- C10 for the DPOP model: a projection of P_Dpop.all_schedules_once_in_domain
   (domain values are domain indices in M_Dpop.v). *)
From PyDcop Require Import Base Net M_Dpop P_Dpop.

Lemma dpop_selects_in_domain_l : forall P sched,
  (forall x v c, In (EvSelect x v c) (snd (run (dpop_proto P) sched)) -> 0 <= v < Z.of_nat (dsize P x)) /\
  (forall x, s_fin (w_st (nodes (fst (run (dpop_proto P) sched)) x)) = true ->
      exists v c, s_value (w_st (nodes (fst (run (dpop_proto P) sched)) x)) = Some (v, c) /\ 0 <= v < Z.of_nat (dsize P x)).
Proof. intros P sched. exact (proj2 (all_schedules_once_in_domain P sched)). Qed.
