(* P_Orch.v -- proofs about the model of the orchestrator's management computation (C22). *)
From PyDcop Require Import Base P_Base M_Orch.
From Coq Require Import ZifyBool.
Open Scope Z_scope.

(* ---------- specification vocabulary ---------- *)
(* computation [n] has reported its end in the trace *)
Definition is_end_of (n : string) (e : ev) : bool :=
  match e with EEnd _ x => String.eqb x n | _ => false end.
Definition endedb (tr : list (ev * env)) (n : string) : bool := existsb (fun ee => is_end_of n (fst ee)) tr.
Definition ended (tr : list (ev * env)) (n : string) : Prop := exists a en, In (EEnd a n, en) tr.

(* the value carried by the last value_change message of computation [x] *)
Definition last_value (x : string) (tr : list (ev * env)) : option Z :=
  fold_left (fun acc ee => match fst ee with
                          | EValue _ y v => if String.eqb x y then Some v else acc
                          | _ => acc end) tr None.

Lemma endedb_ended tr n : endedb tr n = true <-> ended tr n.
Proof.
  unfold endedb, ended. rewrite existsb_exists. split.
  - intros [[e en] [Hin He]]. destruct e; simpl in He; try discriminate.
    apply String.eqb_eq in He; subst. eauto.
  - intros [a [en Hin]]. exists (EEnd a n, en). split; auto. simpl. apply String.eqb_refl.
Qed.

Lemma endedb_snoc tr e en n : endedb (tr ++ [(e, en)]) n = endedb tr n || is_end_of n e.
Proof. unfold endedb. rewrite existsb_app. simpl. now rewrite orb_false_r. Qed.

(* ---------- dict lemmas (string keys) ---------- *)
Lemma seqb_iff a b : String.eqb a b = true <-> a = b.
Proof. apply String.eqb_eq. Qed.

Lemma dict_set_keys {V} (k : string) (v : V) l :
  map fst (dict_set String.eqb k v l) =
  if existsb (String.eqb k) (map fst l) then map fst l else map fst l ++ [k].
Proof.
  induction l as [|[k' v'] r IH]; simpl; auto.
  destruct (String.eqb k k') eqn:E; simpl; auto.
  rewrite IH. destruct (existsb (String.eqb k) (map fst r)); auto.
Qed.

Lemma NoDup_app_snoc {A} (l : list A) k : NoDup l -> ~ In k l -> NoDup (l ++ [k]).
Proof.
  induction l as [|x r IH]; simpl; intros Hnd Hk.
  - constructor; auto; constructor.
  - inversion Hnd; subst. constructor.
    + intros Hin. apply in_app_or in Hin as [H|[H|[]]]; auto.
    + apply IH; auto.
Qed.

Lemma dict_set_nodup {V} (k : string) (v : V) l :
  NoDup (map fst l) -> NoDup (map fst (dict_set String.eqb k v l)).
Proof.
  intros H. rewrite dict_set_keys.
  destruct (existsb (String.eqb k) (map fst l)) eqn:E; auto.
  apply NoDup_app_snoc; auto.
  intros Hin. assert (existsb (String.eqb k) (map fst l) = true); [|congruence].
  apply existsb_exists. exists k. split; auto. apply String.eqb_refl.
Qed.

Lemma In_dict_set_nodup {V} (k : string) (v : V) l n b :
  NoDup (map fst l) -> In (n, b) (dict_set String.eqb k v l) ->
  (n = k /\ b = v) \/ (n <> k /\ In (n, b) l).
Proof.
  induction l as [|[k' v'] r IH]; simpl; intros Hnd Hin.
  - destruct Hin as [H|[]]. inversion H; auto.
  - inversion Hnd as [|? ? Hnotin Hnd']; subst.
    destruct (String.eqb k k') eqn:E.
    + apply String.eqb_eq in E; subst k'. destruct Hin as [H|H].
      * inversion H; auto.
      * right. split; auto. intros ->. apply Hnotin.
        change k with (fst (k, b)). now apply in_map.
    + apply String.eqb_neq in E. destruct Hin as [H|H].
      * inversion H; subst. right; split; auto.
      * destruct (IH Hnd' H) as [?|[? ?]]; auto.
Qed.

Lemma In_dict_set_keep {V} (k : string) (v : V) l n b :
  n <> k -> In (n, b) l -> In (n, b) (dict_set String.eqb k v l).
Proof.
  intros Hne. induction l as [|[k' v'] r IH]; simpl; [tauto|].
  destruct (String.eqb k k') eqn:E.
  - apply String.eqb_eq in E; subst k'. intros [H|H]; [inversion H; subst; contradiction|now right].
  - intros [H|H]; [now left | right; auto].
Qed.

Lemma dict_set_key_in {V} (k : string) (v : V) l n :
  In n (map fst l) -> In n (map fst (dict_set String.eqb k v l)).
Proof.
  rewrite dict_set_keys. destruct (existsb _ _); auto. intros; apply in_or_app; auto.
Qed.

Lemma dict_of_list_nodup {V} (l : list (string * V)) : NoDup (map fst (dict_of_list String.eqb l)).
Proof.
  unfold dict_of_list.
  assert (forall acc, NoDup (map fst acc) ->
     NoDup (map fst (fold_left (fun d kv => dict_set String.eqb (fst kv) (snd kv) d) l acc))) as H.
  { induction l as [|[k v] r IH]; simpl; auto. intros acc Ha. apply IH. now apply dict_set_nodup. }
  apply H. constructor.
Qed.

Lemma dict_of_list_keys_fold {V} (l : list (string * V)) : forall acc n,
  In n (map fst acc) \/ In n (map fst l) ->
  In n (map fst (fold_left (fun d kv => dict_set String.eqb (fst kv) (snd kv) d) l acc)).
Proof.
  induction l as [|[k v] r IH]; simpl; intros acc n H.
  - destruct H as [H|[]]; auto.
  - apply IH. destruct H as [H|[H|H]]; auto.
    + left. now apply dict_set_key_in.
    + subst. left. rewrite dict_set_keys.
      destruct (existsb (String.eqb n) (map fst acc)) eqn:E.
      * apply existsb_exists in E as [y [Hy E]]. apply String.eqb_eq in E; now subst.
      * apply in_or_app; right; simpl; auto.
Qed.

(* ---------- run, one step at a time ---------- *)
Lemma run_snoc c tr e en : run c (tr ++ [(e, en)]) = fst (step c (run c tr) en e).
Proof. unfold run, run_from. now rewrite fold_left_app. Qed.

Lemma stop_agents_fields m en :
  m_status (fst (stop_agents m en)) = m_status m /\ m_values (fst (stop_agents m en)) = m_values m.
Proof. unfold stop_agents. destruct (e_agents en); simpl; auto. Qed.

Lemma step_status c m en e :
  m_status (fst (step c m en e)) =
  match e with EEnd _ x => dict_set String.eqb x true (m_status m) | _ => m_status m end.
Proof.
  destruct e; simpl; auto.
  - apply stop_agents_fields.
  - destruct (all_finished _); simpl; auto.
    now destruct (stop_agents_fields (mkMgt
      (dict_set String.eqb c0 true (m_status m)) (m_values m) (m_nb m) (m_all_registered m)
      (m_ready m) (m_all_stopped m) (m_stop_requested m)) en) as [-> _].
Qed.

Lemma step_values c m en e :
  m_values (fst (step c m en e)) =
  match e with EValue _ x v => dict_set String.eqb x v (m_values m) | _ => m_values m end.
Proof.
  destruct e; simpl; auto.
  - apply stop_agents_fields.
  - destruct (all_finished _); simpl; auto.
    now destruct (stop_agents_fields (mkMgt
      (dict_set String.eqb c0 true (m_status m)) (m_values m) (m_nb m) (m_all_registered m)
      (m_ready m) (m_all_stopped m) (m_stop_requested m)) en) as [_ ->].
Qed.

(* ---------- the status table mirrors the end messages ---------- *)
Record status_inv (c : cfg) (tr : list (ev * env)) (st : list (string * bool)) : Prop := {
  si_nodup : NoDup (map fst st);
  si_nodes : forall n, In n (g_nodes c) -> In n (map fst st);
  si_ended : forall n b, In (n, b) st -> b = endedb tr n;
  si_known : forall n b, In (n, b) st -> In n (g_nodes c) \/ b = true
}.

Lemma status_inv_run c tr : status_inv c tr (m_status (run c tr)).
Proof.
  induction tr as [|[e en] tr IH] using rev_ind.
  - unfold run, run_from; simpl. constructor.
    + apply dict_of_list_nodup.
    + intros n Hn. unfold dict_of_list. apply dict_of_list_keys_fold. right.
      rewrite map_map. simpl. now rewrite map_id.
    + intros n b Hin. apply In_dict_of_list in Hin; [|apply seqb_iff].
      apply in_map_iff in Hin as [x [Hx _]]. now inversion Hx.
    + intros n b Hin. apply In_dict_of_list in Hin; [|apply seqb_iff].
      apply in_map_iff in Hin as [x [Hx Hx2]]. inversion Hx; subst. now left.
  - rewrite run_snoc, step_status. destruct IH as [I1 I2 I3 I4].
    assert (Hsame : (forall n, is_end_of n e = false) ->
                    status_inv c (tr ++ [(e, en)]) (m_status (run c tr))).
    { intros He. constructor; auto. intros n b Hin. rewrite endedb_snoc, He, orb_false_r. eauto. }
    destruct e; try (apply Hsame; intros; reflexivity).
    constructor.
    + now apply dict_set_nodup.
    + intros n Hn. apply dict_set_key_in. auto.
    + intros n b Hin. rewrite endedb_snoc. simpl.
      apply In_dict_set_nodup in Hin as [[-> ->]|[Hne Hin]]; auto.
      * now rewrite String.eqb_refl, orb_true_r.
      * assert (String.eqb c0 n = false) as -> by (apply String.eqb_neq; congruence).
        rewrite orb_false_r. eauto.
    + intros n b Hin. apply In_dict_set_nodup in Hin as [[-> ->]|[Hne Hin]]; eauto.
Qed.

Lemma all_finished_after_end c tr a x en :
  all_finished (dict_set String.eqb x true (m_status (run c tr))) = true <->
  (forall n, In n (g_nodes c) -> ended (tr ++ [(EEnd a x, en)]) n).
Proof.
  pose proof (status_inv_run c (tr ++ [(EEnd a x, en)])) as H.
  rewrite run_snoc, step_status in H. destruct H as [I1 I2 I3 I4].
  unfold all_finished. rewrite forallb_forall. split.
  - intros Hall n Hn. apply endedb_ended.
    apply I2 in Hn. apply in_map_iff in Hn as [[n' b] [Hf Hin]]. simpl in Hf; subst n'.
    rewrite <- (I3 _ _ Hin). exact (Hall _ Hin).
  - intros Hall [n b] Hin. simpl. destruct (I4 _ _ Hin) as [Hn| ->]; auto.
    rewrite (I3 _ _ Hin). apply endedb_ended. auto.
Qed.

(* ---------- T1: stop is ordered exactly on the last end_of_computation ---------- *)
Lemma stop_agents_outs m en a : In (OStop a) (snd (stop_agents m en)) <-> In a (e_agents en).
Proof.
  unfold stop_agents. destruct (e_agents en) as [|x r] eqn:E; simpl; [tauto|].
  split.
  - intros [H|H]; [inversion H; auto|]. apply in_map_iff in H as [y [Hy ?]]. inversion Hy; subst; auto.
  - intros [->|H]; auto. right. now apply in_map.
Qed.

(* the stop order has been given: a stop request (timeout / external stop) or the
   end_of_computation that completed the set of graph computations was handled *)
Definition stops_on (c : cfg) (p : list (ev * env)) (e : ev) (en : env) : Prop :=
  e = EStopReq \/
  exists ag x, e = EEnd ag x /\ forall n, In n (g_nodes c) -> ended (p ++ [(e, en)]) n.
Definition stop_ordered (c : cfg) (tr : list (ev * env)) : Prop :=
  exists p e en s, tr = p ++ (e, en) :: s /\ stops_on c p e en.

Lemma stop_agents_flag m en : m_stop_requested (fst (stop_agents m en)) = true.
Proof. unfold stop_agents. destruct (e_agents en); reflexivity. Qed.

Lemma step_flag c m en e :
  m_stop_requested (fst (step c m en e)) =
  m_stop_requested m || match e with
                        | EStopReq => true
                        | EEnd _ x => all_finished (dict_set String.eqb x true (m_status m))
                        | _ => false
                        end.
Proof.
  destruct e; simpl; rewrite ?orb_false_r; auto.
  - rewrite stop_agents_flag, orb_true_r. reflexivity.
  - destruct (all_finished _); simpl; [rewrite stop_agents_flag, orb_true_r|rewrite orb_false_r]; reflexivity.
Qed.

Lemma flag_stop_ordered c tr : m_stop_requested (run c tr) = true <-> stop_ordered c tr.
Proof.
  induction tr as [|[e en] tr IH] using rev_ind.
  - split; [discriminate|]. intros (p & e & en & s & H & _). destruct p; discriminate.
  - rewrite run_snoc, step_flag. split.
    + intros H. apply orb_true_iff in H. destruct H as [H|H].
      * apply IH in H. destruct H as (p & e' & en' & s & -> & Hs).
        exists p, e', en', (s ++ [(e, en)]). split; auto. rewrite <- app_assoc. reflexivity.
      * exists tr, e, en, []. split; auto. destruct e; try discriminate.
        -- left; reflexivity.
        -- right. exists a, c0. split; auto. now apply all_finished_after_end.
    + intros (p & e' & en' & s & Heq & Hs). apply orb_true_iff.
      destruct s as [|x s _] using rev_ind.
      * apply app_inj_tail in Heq. destruct Heq as [<- Hx]. inversion Hx; subst e' en'. right.
        destruct Hs as [->|(ag & x & -> & Hall)]; auto.
        now apply (all_finished_after_end c tr ag x en).
      * left. apply IH. change (p ++ (e', en') :: s ++ [x]) with (p ++ ((e', en') :: s) ++ [x]) in Heq.
        rewrite app_assoc in Heq. apply app_inj_tail in Heq. destruct Heq as [-> _].
        exists p, e', en', s. auto.
Qed.

(* Stop goes to agent a at a step (other than a stop request) iff a is registered and the step
   handles the end_of_computation completing the graph computations, or (repaired code) a is an
   agent registering after the stop order was given *)
Lemma orch_finishes_iff_all_ended_l : forall c tr e en a,
  e <> EStopReq ->
  (In (OStop a) (snd (step c (run c tr) en e)) <->
   (In a (e_agents en) /\
    exists ag x, e = EEnd ag x /\ forall n, In n (g_nodes c) -> ended (tr ++ [(e, en)]) n)
   \/ (e = EAgentAdded a /\ stop_ordered c tr)).
Proof.
  intros c tr e en a Hne.
  destruct e; try congruence; simpl.
  - (* EAgentAdded *)
    split.
    + intros [H|H]; [discriminate|].
      destruct (m_stop_requested (run c tr)) eqn:F; [|destruct H].
      destruct H as [H|[]]. inversion H; subst. right. split; auto. now apply flag_stop_ordered.
    + intros [[_ (ag & x & H & _)]|[H Hso]]; [discriminate|]. inversion H; subst.
      apply flag_stop_ordered in Hso. rewrite Hso. right; left; reflexivity.
  - split; [intros []|intros [[_ (ag & x & H & _)]|[H _]]; discriminate].
  - split; [intros []|intros [[_ (ag & x & H & _)]|[H _]]; discriminate].
  - split; [intros []|intros [[_ (ag & x & H & _)]|[H _]]; discriminate].
  - (* EDeploy *)
    split; [|intros [[_ (ag & x & H & _)]|[H _]]; discriminate].
    intros H. apply in_flat_map in H as [y [_ H]]. apply in_map_iff in H as [z [H _]]. discriminate.
  - (* ERun *)
    split; [|intros [[_ (ag & x & H & _)]|[H _]]; discriminate].
    destruct (g_repair_only c); [intros []|].
    intros H. apply in_map_iff in H as [z [H _]]. discriminate.
  - split; [intros []|intros [[_ (ag & x & H & _)]|[H _]]; discriminate].
  - (* EEnd *)
    destruct (all_finished (dict_set String.eqb c0 true (m_status (run c tr)))) eqn:E.
    + rewrite stop_agents_outs. simpl. split.
      * intros Ha. left. split; auto. exists a0, c0. split; auto. now apply all_finished_after_end.
      * intros [[Ha _]|[H _]]; [exact Ha|discriminate].
    + simpl. split; [intros []|]. intros [[_ (ag & x & Heq & Hall)]|[H _]]; [|discriminate].
      inversion Heq; subst. apply (all_finished_after_end c tr ag x en) in Hall. congruence.
  - split; [intros []|intros [[_ (ag & x & H & _)]|[H _]]; discriminate].
  - split; [intros []|intros [[_ (ag & x & H & _)]|[H _]]; discriminate].
  - split; [intros [H|[]]; discriminate|intros [[_ (ag & x & H & _)]|[H _]]; discriminate].
Qed.

(* ---------- T2: the reported assignment is the last value of each computation ---------- *)
Lemma orch_reports_last_values_l : forall c tr x,
  slookup x (reported_assignment (run c tr)) = last_value x tr.
Proof.
  intros c tr x. unfold reported_assignment, last_value.
  induction tr as [|[e en] tr IH] using rev_ind.
  - reflexivity.
  - rewrite run_snoc, step_values, fold_left_app. simpl. rewrite <- IH.
    destruct e; auto. unfold slookup.
    destruct (String.eqb x c0) eqn:E.
    + apply String.eqb_eq in E; subst. apply lookup_dict_set_same. apply seqb_iff.
    + apply lookup_dict_set_other; [apply seqb_iff|]. apply String.eqb_neq in E. auto.
Qed.

(* ---------- T3: cost / violation = accounting of the reported assignment ---------- *)
Definition count_inf (inf : Z) (l : list Z) : Z :=
  Z.of_nat (List.length (filter (fun c => Z.eqb c inf) l)).
Definition sum_finite (inf : Z) (l : list Z) : Z :=
  zsum (filter (fun c => negb (Z.eqb c inf)) l).

Lemma account_cons_spec inf a ks costs : Forall2 (fun k c => cons_cost a k = Some c) ks costs ->
  forall hs, account_cons inf a ks hs =
             Some (fst hs + count_inf inf costs, snd hs + sum_finite inf costs).
Proof.
  induction 1 as [|k c ks costs Hk _ IH]; intros hs; simpl.
  - unfold count_inf, sum_finite; simpl. destruct hs; simpl. f_equal. f_equal; lia.
  - rewrite Hk, IH. unfold account, count_inf, sum_finite. simpl.
    destruct (Z.eqb c inf); simpl; f_equal; f_equal; lia.
Qed.

Lemma account_vars_spec inf a vs costs : Forall2 (fun v c => var_cost a v = Some c) vs costs ->
  forall hs, account_vars inf a vs hs =
             (fst hs + count_inf inf costs, snd hs + sum_finite inf costs).
Proof.
  induction 1 as [|k c ks costs Hk _ IH]; intros hs; simpl.
  - unfold count_inf, sum_finite; simpl. destruct hs; simpl. f_equal; lia.
  - rewrite Hk, IH. unfold account, count_inf, sum_finite. simpl.
    destruct (Z.eqb c inf); simpl; f_equal; lia.
Qed.

Lemma count_inf_app inf a b : count_inf inf (a ++ b) = count_inf inf a + count_inf inf b.
Proof. unfold count_inf. rewrite filter_app, app_length. lia. Qed.
Lemma zsum_app a b : zsum (a ++ b) = zsum a + zsum b.
Proof. induction a; simpl; lia. Qed.
Lemma sum_finite_app inf a b : sum_finite inf (a ++ b) = sum_finite inf a + sum_finite inf b.
Proof. unfold sum_finite. now rewrite filter_app, zsum_app. Qed.

Lemma vars_present a vs costs : Forall2 (fun v c => var_cost a v = Some c) vs costs ->
  forallb (fun v : string * list Z => mem_key String.eqb (fst v) a) vs = true.
Proof.
  induction 1 as [|v c vs costs Hv _ IH]; simpl; auto.
  rewrite IH, andb_true_r. unfold var_cost, slookup in Hv. unfold mem_key.
  destruct (lookup String.eqb (fst v) a); [reflexivity|discriminate].
Qed.

Lemma orch_cost_accounts_assignment_l : forall d m costs_c costs_v,
  let a := filter_assignment (var_names d) (reported_assignment m) in
  List.length (d_vars d) = List.length a ->
  Forall2 (fun k c => cons_cost a k = Some c) (d_cons d) costs_c ->
  Forall2 (fun v c => var_cost a v = Some c) (d_vars d) costs_v ->
  reported_cost d m = Some (count_inf (d_infinity d) (costs_c ++ costs_v),
                            sum_finite (d_infinity d) (costs_c ++ costs_v)).
Proof.
  intros d m cc cv a Hlen Hc Hv. unfold reported_cost, solution_cost. fold a.
  rewrite (vars_present _ _ _ Hv), Hlen, Nat.eqb_refl. simpl.
  rewrite (account_cons_spec _ _ _ _ Hc), (account_vars_spec _ _ _ _ Hv). simpl.
  now rewrite count_inf_app, sum_finite_app.
Qed.
