(* P_Mgm3.v -- the global barrier invariant of the asynchronous MGM model (M_Mgm.mgm_proto over
   Net.v) under EVERY schedule, and what follows from it:
     C07  mgm_terminates_k / no deadlock / finished exactly once with cycle counter k / no EvErr
     C03/C04  mgm_refines_rounds: the asynchronous handlers compute the round function mgm_next
              at every cycle boundary, hence monotonicity and 1-opt at stagnation for real
              asynchronous executions.
   Structure follows P_SyncMixin.v (C08): a per-ordered-pair pipeline invariant (what b has
   consumed from a, then what b holds in its pre-start buffer, then channel (a,b) are exactly
   the consecutive messages a has produced), here with the PAYLOADS of the messages fixed by the
   synchronous reference run [siter].
   Part 1: list helpers, the reference run.
   Part 2: closed forms of the nested handlers (postponed lists) under the local invariant.
   Part 3: what a node computes when its tables hold the reference values.
   Part 4: the invariant and its preservation.
   Part 5: theorems. *)
From Coq Require Import ZArith List Bool Lia ZifyBool Arith.
From PyDcop Require Import Base Net M_Mgm P_Mgm.
Import ListNotations.
Open Scope Z_scope.

Local Notation length := List.length.

(* ------------------------------------------------------------------ Part 1: helpers *)
Definition keys (l : list (Z * Z)) : list Z := map fst l.
Definition kin (a : Z) (l : list (Z * Z)) : bool := zmem a (keys l).
Definition kb (a : Z) (l : list (Z * Z)) : nat := if kin a l then 1%nat else 0%nat.

Lemma kin_In a l : kin a l = true <-> In a (keys l).
Proof. unfold kin. apply zmem_In. Qed.

Lemma kin_false a l : kin a l = false <-> ~ In a (keys l).
Proof. rewrite <- kin_In. destruct (kin a l); split; congruence. Qed.

Lemma kin_app a l1 l2 : kin a (l1 ++ l2) = kin a l1 || kin a l2.
Proof. unfold kin, keys, zmem. rewrite map_app. apply existsb_app. Qed.

Lemma kin_single a b v : kin a [(b, v)] = (a =? b).
Proof. unfold kin, keys, zmem. simpl. apply orb_false_r. Qed.

Lemma kb_snoc a a0 v l : kin a0 l = false -> kb a (l ++ [(a0, v)]) = (kb a l + (if Z.eqb a a0 then 1 else 0))%nat.
Proof.
  intros H. unfold kb. rewrite kin_app, kin_single.
  destruct (Z.eqb_spec a a0) as [->|Hne].
  - rewrite H. reflexivity.
  - rewrite orb_false_r. destruct (kin a l); reflexivity.
Qed.

Lemma kb_nil a : kb a [] = 0%nat.
Proof. reflexivity. Qed.

Lemma dict_set_fresh a v (l : list (Z * Z)) : kin a l = false -> dict_set Z.eqb a v l = l ++ [(a, v)].
Proof.
  induction l as [|[k w] r IH]; simpl; intros H; auto.
  unfold kin, keys, zmem in H. simpl in H. apply orb_false_iff in H as [H1 H2].
  rewrite H1. f_equal. apply IH. exact H2.
Qed.

Lemma zlen_len {T} (l : list T) : zlen l = Z.of_nat (length l).
Proof. reflexivity. Qed.

Lemma zlen_eqb {T U} (l1 : list T) (l2 : list U) : (zlen l1 =? zlen l2) = Nat.eqb (length l1) (length l2).
Proof.
  rewrite !zlen_len. destruct (Nat.eqb_spec (length l1) (length l2)) as [E|E].
  - rewrite E. apply Z.eqb_refl.
  - apply Z.eqb_neq. lia.
Qed.

Lemma NoDup_app_intro {T} (l1 l2 : list T) :
  NoDup l1 -> NoDup l2 -> (forall y, In y l1 -> In y l2 -> False) -> NoDup (l1 ++ l2).
Proof.
  induction l1 as [|x r IH]; simpl; intros H1 H2 H; auto.
  inversion H1; subst. constructor.
  - intros Hc. apply in_app_or in Hc as [Hc|Hc]; auto. eapply H; eauto.
  - apply IH; auto. intros y Hy1 Hy2. eapply H; eauto.
Qed.

Lemma NoDup_snoc {T} (l : list T) x : NoDup l -> ~ In x l -> NoDup (l ++ [x]).
Proof.
  intros H Hx. apply NoDup_app_intro; auto.
  - constructor; [intros []|constructor].
  - intros y Hy [<-|[]]. contradiction.
Qed.

Lemma NoDup_app_l {T} (l1 l2 : list T) : NoDup (l1 ++ l2) -> NoDup l1.
Proof.
  induction l1 as [|x r IH]; simpl; intros H; [constructor|].
  inversion H; subst. constructor; auto. intros Hc. apply H2. apply in_or_app; auto.
Qed.

Lemma NoDup_app_disj {T} (l1 l2 : list T) y : NoDup (l1 ++ l2) -> In y l1 -> In y l2 -> False.
Proof.
  induction l1 as [|x r IH]; simpl; intros H H1 H2; auto.
  inversion H; subst. destruct H1 as [->|H1]; auto. apply H4. apply in_or_app; auto.
Qed.

(* a duplicate-free list of keys inside [nb], as long as [nb], holds every element of [nb] *)
Lemma full_keys (l : list (Z * Z)) (nb : list Z) a :
  NoDup (keys l) -> incl (keys l) nb -> length l = length nb -> In a nb -> In a (keys l).
Proof.
  intros Hnd Hincl Hlen Ha.
  assert (Hrev : incl nb (keys l)).
  { apply NoDup_length_incl; auto. unfold keys. rewrite map_length. lia. }
  now apply Hrev.
Qed.

Lemma keys_length_le (l : list (Z * Z)) (nb : list Z) :
  NoDup (keys l) -> incl (keys l) nb -> (length l <= length nb)%nat.
Proof.
  intros Hnd Hincl. pose proof (NoDup_incl_length Hnd Hincl) as H. unfold keys in H. rewrite map_length in H. exact H.
Qed.

(* nbrs is duplicate free *)
Lemma NoDup_zdedup l : NoDup (zdedup l).
Proof.
  induction l as [|x r IH]; simpl; [constructor|].
  destruct (zmem x r) eqn:E; auto. constructor; auto.
  rewrite In_zdedup. intros H. apply zmem_In in H. congruence.
Qed.

Lemma NoDup_insert_sorted {T} (leb : T -> T -> bool) x l : NoDup l -> ~ In x l -> NoDup (insert_sorted leb x l).
Proof.
  induction l as [|y r IH]; simpl; intros H Hx.
  - constructor; [intros []|constructor].
  - destruct (leb x y).
    + constructor; auto.
    + inversion H; subst. constructor.
      * rewrite In_insert_sorted. intros [->|Hc]; [apply Hx; left; reflexivity|contradiction].
      * apply IH; auto.
Qed.

Lemma NoDup_isort {T} (leb : T -> T -> bool) l : NoDup l -> NoDup (isort leb l).
Proof.
  unfold isort. induction l as [|x r IH]; simpl; intros H; [constructor|].
  inversion H; subst. apply NoDup_insert_sorted; auto.
  change (fold_right (insert_sorted leb) [] r) with (isort leb r). rewrite In_isort. assumption.
Qed.

Lemma nbrs_nodup d n : NoDup (nbrs d n).
Proof. unfold nbrs. apply NoDup_isort. apply NoDup_zdedup. Qed.

(* ---------------------------------------------------------------- records *)
Lemma set_ng_id s : set_ng s (m_ng s) = s.
Proof. destruct s; reflexivity. Qed.
Lemma set_nv_id s : set_nv s (m_nv s) = s.
Proof. destruct s; reflexivity. Qed.

Lemma andthen_ret_r (r : res) : andthen r ret = r.
Proof. destruct r as [[s o] e]. unfold andthen, ret. rewrite !app_nil_r. reflexivity. Qed.

Lemma andthen_assoc (r : res) f g : andthen (andthen r f) g = andthen r (fun s => andthen (f s) g).
Proof.
  destruct r as [[s o] e]. unfold andthen. destruct (f s) as [[s1 o1] e1]. destruct (g s1) as [[s2 o2] e2].
  rewrite !app_assoc. reflexivity.
Qed.

Lemma andthen_ret_l s (f : mst -> res) : andthen (ret s) f = f s.
Proof. unfold andthen, ret. destruct (f s) as [[s1 o1] e1]. reflexivity. Qed.

Lemma andthen_ext (r : res) f g : (forall s, f s = g s) -> andthen r f = andthen r g.
Proof. intros H. destruct r as [[s o] e]. unfold andthen. rewrite H. reflexivity. Qed.

Lemma fold_andthen_shift (h : mst -> Z -> Z -> res) (l : list (Z * Z)) : forall (r : res),
  fold_left (fun acc m => andthen acc (fun t => h t (fst m) (snd m))) l r
  = andthen r (fun s => fold_left (fun acc m => andthen acc (fun t => h t (fst m) (snd m))) l (ret s)).
Proof.
  induction l as [|m l IH]; intros r; cbn [fold_left].
  - symmetry. apply andthen_ret_r.
  - rewrite IH. rewrite andthen_assoc. apply andthen_ext. intros s.
    rewrite (IH (andthen (ret s) _)). rewrite andthen_ret_l. reflexivity.
Qed.

(* ------------------------------------------------------------------ Part 2: closed forms *)
Section Local3.
  Variable d : dcop.
  Variable stop : Z.
  Variable n : node.
  Notation nb := (nbrs d n).

  (* body of _handle_value_message once every neighbour's value is known *)
  Definition vgain (s : mst) : Z :=
    local_cost d n (m_nv s) (cur_value s) - snd (compute_best_value d n (m_nv s)).
  Definition vimp (s : mst) : bool := if d_max d then vgain s <? 0 else 0 <? vgain s.
  Definition vnewv (s : mst) : Z :=
    if vimp s then choose (fst (compute_best_value d n (m_nv s))) (fst (draw (m_orc s))) (cur_value s) else cur_value s.
  Definition vorc (s : mst) : list Z := if vimp s then snd (draw (m_orc s)) else m_orc s.
  Definition vdone (s : mst) : mst :=
    mkM (m_state s) (m_cycle s) (m_value s) (Some (local_cost d n (m_nv s) (cur_value s))) (m_nv s) (m_ng s)
        (vgain s) (vnewv s) (m_pv s) (m_pg s) (vorc s) (m_fin s).
  Definition gains_of (s : mst) : list (node * mmsg) := map (fun t => (t, MGain (vgain s))) nb.

  Lemma handle_value_eq wfg s src v :
    handle_value d n wfg s src v =
    (let s1 := set_nv s (dict_set Z.eqb src v (m_nv s)) in
     if zlen (m_nv s1) =? zlen nb then andthen (vdone s1, gains_of s1, []) wfg else ret s1).
  Proof.
    unfold handle_value. cbv zeta.
    set (s1 := set_nv s (dict_set Z.eqb src v (m_nv s))).
    destruct (zlen (m_nv s1) =? zlen nb); [|reflexivity].
    unfold vdone, gains_of, vgain, vnewv, vorc, vimp, vgain.
    change (m_nv (set_cost s1 (Some (local_cost d n (m_nv s1) (cur_value s1))))) with (m_nv s1).
    change (cur_cost (set_cost s1 (Some (local_cost d n (m_nv s1) (cur_value s1))))) with (local_cost d n (m_nv s1) (cur_value s1)).
    destruct (compute_best_value d n (m_nv s1)) as [vals vc]. cbn [fst snd].
    change (m_orc (set_cost s1 (Some (local_cost d n (m_nv s1) (cur_value s1))))) with (m_orc s1).
    destruct (if d_max d then local_cost d n (m_nv s1) (cur_value s1) - vc <? 0 else 0 <? local_cost d n (m_nv s1) (cur_value s1) - vc).
    - destruct (draw (m_orc s1)) as [x o]. reflexivity.
    - reflexivity.
  Qed.

  (* _handle_gain_message once every neighbour's gain is known *)
  Definition gwins (s1 : mst) : bool := wins d n (m_gain s1) (m_ng s1).
  Definition gd_state (s1 : mst) : mst :=
    mkM (m_state s1) (m_cycle s1) (if gwins s1 then Some (m_newv s1) else m_value s1)
        (if gwins s1 then Some (cur_cost s1 - m_gain s1) else m_cost s1)
        (m_nv s1) (m_ng s1) (m_gain s1) (m_newv s1) (m_pv s1) (m_pg s1) (m_orc s1) (m_fin s1).
  Definition gd_evs (s1 : mst) : list mev :=
    if gwins s1 then (if option_eqb Z.eqb (m_value s1) (Some (m_newv s1)) then []
                      else [EvValue n (m_newv s1) (Some (cur_cost s1 - m_gain s1)) (m_cycle s1)])
    else [].
  Definition gdecide (s1 : mst) : res :=
    if wins d n (m_gain s1) (m_ng s1) then value_selection n s1 (m_newv s1) (Some (cur_cost s1 - m_gain s1)) else ret s1.
  Lemma gdecide_eq s1 : gdecide s1 = (gd_state s1, [], gd_evs s1).
  Proof.
    unfold gdecide, gd_state, gd_evs, gwins. destruct (wins d n (m_gain s1) (m_ng s1)).
    - reflexivity.
    - destruct s1; reflexivity.
  Qed.
  Definition gclear (s2 : mst) : mst := set_nv (set_ng s2 []) [].

  Lemma handle_gain_eq wfv s src g :
    handle_gain d n wfv s src g =
    (let s1 := set_ng s (dict_set Z.eqb src g (m_ng s)) in
     if zlen (m_ng s1) =? zlen nb then andthen (gdecide s1) (fun s2 => wfv (gclear s2)) else ret s1).
  Proof. reflexivity. Qed.

  (* _send_value *)
  Definition sv_fin (s : mst) : bool := negb (stop =? 0) && (stop <=? m_cycle s + 1).
  Definition sv_state (s : mst) : mst :=
    mkM (m_state s) (m_cycle s + 1) (m_value s) (m_cost s) (m_nv s) (m_ng s) (m_gain s) (m_newv s) (m_pv s) (m_pg s)
        (m_orc s) (if sv_fin s then m_fin s + 1 else m_fin s).
  Definition sv_outs (s : mst) : list (node * mmsg) :=
    if sv_fin s then [] else map (fun t => (t, MValue (cur_value s))) nb.
  Definition sv_evs (s : mst) : list mev :=
    if sv_fin s then [EvCycle n (m_cycle s + 1); EvFinished n (m_cycle s + 1)] else [EvCycle n (m_cycle s + 1)].
  Lemma send_value_eq s : send_value d stop n s = (sv_state s, sv_outs s, sv_evs s).
  Proof.
    unfold send_value, sv_state, sv_outs, sv_evs, sv_fin.
    destruct (negb (stop =? 0) && (stop <=? m_cycle s + 1)); reflexivity.
  Qed.

  (* the loops over the postponed lists, while the table stays incomplete *)
  Lemma fold_hg1_fill l : forall s o e,
    NoDup (keys (m_ng s) ++ keys l) -> (length (m_ng s) + length l < length nb)%nat ->
    fold_left (fun acc m => andthen acc (fun s' => hg1 d stop n s' (fst m) (snd m))) l (s, o, e)
    = (set_ng s (m_ng s ++ l), o, e).
  Proof.
    induction l as [|[a g] l IH]; intros s o e Hnd Hlen; cbn [fold_left].
    - rewrite app_nil_r, set_ng_id. reflexivity.
    - cbn [fst snd]. unfold andthen at 2. unfold hg1. rewrite handle_gain_eq. cbv zeta.
      assert (Hf : kin a (m_ng s) = false).
      { apply kin_false. intros Hc. eapply (NoDup_app_disj _ _ a Hnd); eauto. simpl; auto. }
      rewrite (dict_set_fresh _ _ _ Hf).
      change (m_ng (set_ng s (m_ng s ++ [(a, g)]))) with (m_ng s ++ [(a, g)]).
      rewrite zlen_eqb. rewrite app_length. simpl length in *.
      destruct (Nat.eqb_spec (length (m_ng s) + 1) (length nb)) as [E|_]; [lia|].
      unfold ret. rewrite !app_nil_r.
      rewrite (IH (set_ng s (m_ng s ++ [(a, g)]))).
      + change (m_ng (set_ng s (m_ng s ++ [(a, g)]))) with (m_ng s ++ [(a, g)]).
        rewrite <- app_assoc. reflexivity.
      + change (m_ng (set_ng s (m_ng s ++ [(a, g)]))) with (m_ng s ++ [(a, g)]).
        unfold keys in *. rewrite map_app, <- app_assoc. exact Hnd.
      + change (m_ng (set_ng s (m_ng s ++ [(a, g)]))) with (m_ng s ++ [(a, g)]).
        rewrite app_length. simpl. lia.
  Qed.

  Lemma fold_hv1_fill l : forall s o e,
    NoDup (keys (m_nv s) ++ keys l) -> (length (m_nv s) + length l < length nb)%nat ->
    fold_left (fun acc m => andthen acc (fun s' => hv1 d n s' (fst m) (snd m))) l (s, o, e)
    = (set_nv s (m_nv s ++ l), o, e).
  Proof.
    induction l as [|[a g] l IH]; intros s o e Hnd Hlen; cbn [fold_left].
    - rewrite app_nil_r, set_nv_id. reflexivity.
    - cbn [fst snd]. unfold andthen at 2. unfold hv1. rewrite handle_value_eq. cbv zeta.
      assert (Hf : kin a (m_nv s) = false).
      { apply kin_false. intros Hc. eapply (NoDup_app_disj _ _ a Hnd); eauto. simpl; auto. }
      rewrite (dict_set_fresh _ _ _ Hf).
      change (m_nv (set_nv s (m_nv s ++ [(a, g)]))) with (m_nv s ++ [(a, g)]).
      rewrite zlen_eqb. rewrite app_length. simpl length in *.
      destruct (Nat.eqb_spec (length (m_nv s) + 1) (length nb)) as [E|_]; [lia|].
      unfold ret. rewrite !app_nil_r.
      rewrite (IH (set_nv s (m_nv s ++ [(a, g)]))).
      + change (m_nv (set_nv s (m_nv s ++ [(a, g)]))) with (m_nv s ++ [(a, g)]).
        rewrite <- app_assoc. reflexivity.
      + change (m_nv (set_nv s (m_nv s ++ [(a, g)]))) with (m_nv s ++ [(a, g)]).
        unfold keys in *. rewrite map_app, <- app_assoc. exact Hnd.
      + change (m_nv (set_nv s (m_nv s ++ [(a, g)]))) with (m_nv s ++ [(a, g)]).
        rewrite app_length. simpl. lia.
  Qed.

  Lemma last_split (l : list (Z * Z)) : l <> [] -> exists l' a g, l = l' ++ [(a, g)].
  Proof. intros H. destruct (exists_last H) as [l' [[a g] E]]. exists l', a, g. exact E. Qed.

  (* _wait_for_gains *)
  Definition fill_g (t : mst) : mst := set_ng (set_state t SGain) (m_pg t).
  Lemma wfg1_part t : m_ng t = [] -> NoDup (keys (m_pg t)) -> (length (m_pg t) < length nb)%nat ->
    wfg1 d stop n t = ret (set_pg (fill_g t) []).
  Proof.
    intros Hng Hnd Hlen. unfold wfg1, wfg_gen. unfold ret at 1.
    rewrite fold_hg1_fill.
    - unfold andthen, ret, fill_g. simpl. rewrite Hng. reflexivity.
    - simpl. rewrite Hng. exact Hnd.
    - simpl. rewrite Hng. simpl. exact Hlen.
  Qed.

  Lemma wfg1_full t : m_ng t = [] -> m_pv t = [] -> NoDup (keys (m_pg t)) -> length (m_pg t) = length nb -> nb <> [] ->
    wfg1 d stop n t =
    (let t1 := fill_g t in let t3 := set_state (gclear (gd_state t1)) SValues in
     (set_pg (sv_state t3) [], sv_outs t3, gd_evs t1 ++ sv_evs t3)).
  Proof.
    intros Hng Hpv Hnd Hlen Hnb. unfold wfg1, wfg_gen.
    destruct (last_split (m_pg t)) as [l' [a [g E]]].
    { intros Hc. rewrite Hc in Hlen. destruct nb; [congruence|discriminate]. }
    assert (Hl' : (length l' + 1 = length nb)%nat) by (rewrite <- Hlen, E, app_length; reflexivity).
    assert (Hnd' : NoDup (keys l' ++ [a])) by (rewrite E in Hnd; unfold keys in *; rewrite map_app in Hnd; exact Hnd).
    rewrite E at 1. rewrite fold_left_app. unfold ret at 1. rewrite fold_hg1_fill.
    2:{ simpl. rewrite Hng. simpl. eapply NoDup_app_l; eauto. }
    2:{ simpl. rewrite Hng. simpl. lia. }
    cbn [fold_left fst snd]. change (m_ng (set_state t SGain)) with (m_ng t). rewrite Hng. cbn [app].
    unfold andthen at 2. unfold hg1. rewrite handle_gain_eq. cbv zeta.
    change (m_ng (set_ng (set_state t SGain) l')) with l'.
    assert (Hf : kin a l' = false).
    { apply kin_false. intros Hc. eapply (NoDup_app_disj _ _ a Hnd'); eauto. simpl; auto. }
    rewrite (dict_set_fresh _ _ _ Hf).
    change (set_ng (set_ng (set_state t SGain) l') (l' ++ [(a, g)])) with (set_ng (set_state t SGain) (l' ++ [(a, g)])).
    rewrite <- E. fold (fill_g t).
    change (m_ng (fill_g t)) with (m_pg t). rewrite zlen_eqb, Hlen, Nat.eqb_refl.
    rewrite gdecide_eq. unfold andthen at 2. unfold wfv2. rewrite send_value_eq.
    unfold andthen at 2.
    change (m_pv (sv_state (set_state (gclear (gd_state (fill_g t))) SValues))) with (m_pv t). rewrite Hpv.
    unfold ret, andthen. rewrite !app_nil_r. reflexivity.
  Qed.

  (* _wait_for_values *)
  Lemma wfv1_part t : m_nv t = [] -> NoDup (keys (m_pv t)) -> (length (m_pv t) < length nb)%nat ->
    wfv1 d stop n t =
    (let t3 := set_state t SValues in (set_pv (set_nv (sv_state t3) (m_pv t)) [], sv_outs t3, sv_evs t3)).
  Proof.
    intros Hnv Hnd Hlen. unfold wfv1, wfv_gen. rewrite send_value_eq.
    rewrite fold_hv1_fill.
    - unfold andthen, ret. simpl. rewrite Hnv, !app_nil_r. reflexivity.
    - simpl. rewrite Hnv. exact Hnd.
    - simpl. rewrite Hnv. simpl. exact Hlen.
  Qed.

  Lemma wfv1_full t : m_nv t = [] -> m_pg t = [] -> NoDup (keys (m_pv t)) -> length (m_pv t) = length nb -> nb <> [] ->
    wfv1 d stop n t =
    (let t3 := set_state t SValues in let u1 := set_nv (sv_state t3) (m_pv t) in
     (set_pv (set_state (vdone u1) SGain) [], sv_outs t3 ++ gains_of u1, sv_evs t3)).
  Proof.
    intros Hnv Hpg Hnd Hlen Hnb. unfold wfv1, wfv_gen. rewrite send_value_eq.
    destruct (last_split (m_pv t)) as [l' [a [g E]]].
    { intros Hc. rewrite Hc in Hlen. destruct nb; [congruence|discriminate]. }
    assert (Hl' : (length l' + 1 = length nb)%nat) by (rewrite <- Hlen, E, app_length; reflexivity).
    assert (Hnd' : NoDup (keys l' ++ [a])) by (rewrite E in Hnd; unfold keys in *; rewrite map_app in Hnd; exact Hnd).
    rewrite E at 1. rewrite fold_left_app. rewrite fold_hv1_fill.
    2:{ simpl. rewrite Hnv. simpl. eapply NoDup_app_l; eauto. }
    2:{ simpl. rewrite Hnv. simpl. lia. }
    cbn [fold_left fst snd]. change (m_nv (sv_state (set_state t SValues))) with (m_nv t). rewrite Hnv. cbn [app].
    unfold andthen at 2. unfold hv1. rewrite handle_value_eq. cbv zeta.
    change (m_nv (set_nv (sv_state (set_state t SValues)) l')) with l'.
    assert (Hf : kin a l' = false).
    { apply kin_false. intros Hc. eapply (NoDup_app_disj _ _ a Hnd'); eauto. simpl; auto. }
    rewrite (dict_set_fresh _ _ _ Hf).
    change (set_nv (set_nv (sv_state (set_state t SValues)) l') (l' ++ [(a, g)]))
      with (set_nv (sv_state (set_state t SValues)) (l' ++ [(a, g)])).
    rewrite <- E.
    change (m_nv (set_nv (sv_state (set_state t SValues)) (m_pv t))) with (m_pv t).
    rewrite zlen_eqb, Hlen, Nat.eqb_refl.
    unfold andthen at 2. unfold wfg2.
    change (m_pg (vdone (set_nv (sv_state (set_state t SValues)) (m_pv t)))) with (m_pg t). rewrite Hpg.
    unfold ret, andthen. rewrite !app_nil_r. reflexivity.
  Qed.

  (* ---- the eight cases of one delivery *)
  Lemma recv_V_post s src v : m_state s = SGain ->
    mgm_recv d stop n s src (MValue v) = (set_pv s (m_pv s ++ [(src, v)]), [], []).
  Proof. intros H. unfold mgm_recv. rewrite H. reflexivity. Qed.

  Lemma recv_G_post s src g : m_state s = SValues ->
    mgm_recv d stop n s src (MGain g) = (set_pg s (m_pg s ++ [(src, g)]), [], []).
  Proof. intros H. unfold mgm_recv. rewrite H. reflexivity. Qed.

  Lemma recv_V_store s src v : m_state s = SValues -> kin src (m_nv s) = false ->
    (length (m_nv s) + 1 <> length nb)%nat ->
    mgm_recv d stop n s src (MValue v) = (set_nv s (m_nv s ++ [(src, v)]), [], []).
  Proof.
    intros H Hf Hl. unfold mgm_recv. rewrite H. unfold hv0. rewrite handle_value_eq. cbv zeta.
    rewrite (dict_set_fresh _ _ _ Hf). change (m_nv (set_nv s (m_nv s ++ [(src, v)]))) with (m_nv s ++ [(src, v)]).
    rewrite zlen_eqb, app_length. simpl length. destruct (Nat.eqb_spec (length (m_nv s) + 1) (length nb)); [contradiction|reflexivity].
  Qed.

  Lemma recv_G_store s src g : m_state s = SGain -> kin src (m_ng s) = false ->
    (length (m_ng s) + 1 <> length nb)%nat ->
    mgm_recv d stop n s src (MGain g) = (set_ng s (m_ng s ++ [(src, g)]), [], []).
  Proof.
    intros H Hf Hl. unfold mgm_recv. rewrite H. unfold hg0. rewrite handle_gain_eq. cbv zeta.
    rewrite (dict_set_fresh _ _ _ Hf). change (m_ng (set_ng s (m_ng s ++ [(src, g)]))) with (m_ng s ++ [(src, g)]).
    rewrite zlen_eqb, app_length. simpl length. destruct (Nat.eqb_spec (length (m_ng s) + 1) (length nb)); [contradiction|reflexivity].
  Qed.

  Lemma recv_V_switch1 s src v : m_state s = SValues -> kin src (m_nv s) = false ->
    (length (m_nv s) + 1 = length nb)%nat -> m_ng s = [] -> NoDup (keys (m_pg s)) -> (length (m_pg s) < length nb)%nat ->
    mgm_recv d stop n s src (MValue v) =
    (let s1 := set_nv s (m_nv s ++ [(src, v)]) in (set_pg (fill_g (vdone s1)) [], gains_of s1, [])).
  Proof.
    intros H Hf Hl Hng Hnd Hlp. unfold mgm_recv. rewrite H. unfold hv0. rewrite handle_value_eq. cbv zeta.
    rewrite (dict_set_fresh _ _ _ Hf). change (m_nv (set_nv s (m_nv s ++ [(src, v)]))) with (m_nv s ++ [(src, v)]).
    rewrite zlen_eqb, app_length. simpl length. rewrite Hl, Nat.eqb_refl.
    unfold andthen. rewrite wfg1_part; auto. unfold ret. rewrite !app_nil_r. reflexivity.
  Qed.

  Lemma recv_V_switch2 s src v : m_state s = SValues -> kin src (m_nv s) = false ->
    (length (m_nv s) + 1 = length nb)%nat -> m_ng s = [] -> m_pv s = [] -> NoDup (keys (m_pg s)) -> length (m_pg s) = length nb ->
    mgm_recv d stop n s src (MValue v) =
    (let s1 := set_nv s (m_nv s ++ [(src, v)]) in
     let t1 := fill_g (vdone s1) in let t3 := set_state (gclear (gd_state t1)) SValues in
     (set_pg (sv_state t3) [], gains_of s1 ++ sv_outs t3, gd_evs t1 ++ sv_evs t3)).
  Proof.
    intros H Hf Hl Hng Hpv Hnd Hlp. unfold mgm_recv. rewrite H. unfold hv0. rewrite handle_value_eq. cbv zeta.
    rewrite (dict_set_fresh _ _ _ Hf). change (m_nv (set_nv s (m_nv s ++ [(src, v)]))) with (m_nv s ++ [(src, v)]).
    rewrite zlen_eqb, app_length. simpl length. rewrite Hl, Nat.eqb_refl.
    unfold andthen. rewrite wfg1_full; auto.
    intros Hc. rewrite Hc in Hl. simpl in Hl. lia.
  Qed.

  Lemma recv_G_switch1 s src g : m_state s = SGain -> kin src (m_ng s) = false ->
    (length (m_ng s) + 1 = length nb)%nat -> NoDup (keys (m_pv s)) -> (length (m_pv s) < length nb)%nat ->
    mgm_recv d stop n s src (MGain g) =
    (let s1 := set_ng s (m_ng s ++ [(src, g)]) in
     let t3 := set_state (gclear (gd_state s1)) SValues in
     (set_pv (set_nv (sv_state t3) (m_pv s)) [], sv_outs t3, gd_evs s1 ++ sv_evs t3)).
  Proof.
    intros H Hf Hl Hnd Hlp. unfold mgm_recv. rewrite H. unfold hg0. rewrite handle_gain_eq. cbv zeta.
    rewrite (dict_set_fresh _ _ _ Hf). change (m_ng (set_ng s (m_ng s ++ [(src, g)]))) with (m_ng s ++ [(src, g)]).
    rewrite zlen_eqb, app_length. simpl length. rewrite Hl, Nat.eqb_refl.
    rewrite gdecide_eq. unfold andthen. rewrite wfv1_part; auto.
  Qed.

  Lemma recv_G_switch2 s src g : m_state s = SGain -> kin src (m_ng s) = false ->
    (length (m_ng s) + 1 = length nb)%nat -> m_pg s = [] -> NoDup (keys (m_pv s)) -> length (m_pv s) = length nb ->
    mgm_recv d stop n s src (MGain g) =
    (let s1 := set_ng s (m_ng s ++ [(src, g)]) in
     let t3 := set_state (gclear (gd_state s1)) SValues in
     let u1 := set_nv (sv_state t3) (m_pv s) in
     (set_pv (set_state (vdone u1) SGain) [], sv_outs t3 ++ gains_of u1, gd_evs s1 ++ sv_evs t3)).
  Proof.
    intros H Hf Hl Hpg Hnd Hlp. unfold mgm_recv. rewrite H. unfold hg0. rewrite handle_gain_eq. cbv zeta.
    rewrite (dict_set_fresh _ _ _ Hf). change (m_ng (set_ng s (m_ng s ++ [(src, g)]))) with (m_ng s ++ [(src, g)]).
    rewrite zlen_eqb, app_length. simpl length. rewrite Hl, Nat.eqb_refl.
    rewrite gdecide_eq. unfold andthen. rewrite wfv1_full; auto.
    intros Hc. rewrite Hc in Hl. simpl in Hl. lia.
  Qed.

  (* start of a computation that has neighbours *)
  Definition start_val (s : mst) : Z :=
    match v_init (var_of d n) with Some v => v | None => choose (dom_of d n) (fst (draw (m_orc s))) 0 end.
  Definition start_orc (s : mst) : list Z :=
    match v_init (var_of d n) with Some _ => m_orc s | None => snd (draw (m_orc s)) end.
  Lemma start_active orc0 : nb <> [] ->
    mgm_start d stop n (mgm_init orc0 n) =
    (let s := mgm_init orc0 n in
     let t := mkM SValues 0 (Some (start_val s)) None [] [] 0 0 [] [] (start_orc s) 0 in
     (set_pv (sv_state t) [], sv_outs t, EvValue n (start_val s) None 0 :: sv_evs t)).
  Proof.
    intros Hnb. unfold mgm_start. destruct nb as [|y r] eqn:E; [congruence|].
    unfold start_val, start_orc. cbv zeta.
    destruct (v_init (var_of d n)) as [v0|].
    - unfold andthen at 1. unfold value_selection at 1. cbn [mgm_init m_value option_eqb].
      rewrite wfv1_part.
      + reflexivity.
      + reflexivity.
      + simpl. constructor.
      + simpl. rewrite E. simpl. lia.
    - destruct (draw (m_orc (mgm_init orc0 n))) as [x o] eqn:Ed. cbn [fst snd].
      unfold andthen at 1. unfold value_selection at 1. cbn [mgm_init m_value option_eqb].
      rewrite wfv1_part.
      + reflexivity.
      + reflexivity.
      + simpl. constructor.
      + simpl. rewrite E. simpl. lia.
  Qed.
End Local3.

(* ------------------------------------------------------------------ Part 3: the reference run *)
Lemma argopt_from_ext mx (f g : Z -> Z) : (forall x, f x = g x) ->
  forall dom best acc, argopt_from mx f dom best acc = argopt_from mx g dom best acc.
Proof.
  intros H. induction dom as [|x r IH]; intros best acc; simpl; [reflexivity|].
  rewrite H. destruct (better mx (g x) best); [apply IH|]. destruct (g x =? best); apply IH.
Qed.

Lemma find_arg_optimal_ext mx (f g : Z -> Z) dom : (forall x, f x = g x) ->
  find_arg_optimal mx f dom = find_arg_optimal mx g dom.
Proof. intros H. destruct dom as [|x r]; simpl; [reflexivity|]. rewrite H. now apply argopt_from_ext. Qed.

Lemma wins_iff d n g ng : ng <> [] ->
  (wins d n g ng = true <-> forall m gm, In (m, gm) ng -> beats (d_max d) g n gm m).
Proof.
  intros Hne. split.
  - intros H m gm Hin. eapply wins_beats; eauto.
  - intros H. now apply beats_wins.
Qed.

Lemma wins_same_set d n g ng1 ng2 : ng1 <> [] -> ng2 <> [] -> (forall x, In x ng1 <-> In x ng2) ->
  wins d n g ng1 = wins d n g ng2.
Proof.
  intros H1 H2 H.
  destruct (wins d n g ng1) eqn:E1; destruct (wins d n g ng2) eqn:E2; auto.
  - pose proof (proj1 (wins_iff d n g ng1 H1) E1) as B. assert (wins d n g ng2 = true); [|congruence].
    apply wins_iff; auto. intros m gm Hin. apply B. now apply H.
  - pose proof (proj1 (wins_iff d n g ng2 H2) E2) as B. assert (wins d n g ng1 = true); [|congruence].
    apply wins_iff; auto. intros m gm Hin. apply B. now apply H.
Qed.

Lemma aget_in (l : list (Z * Z)) a v : NoDup (keys l) -> In (a, v) l -> aget l a = v.
Proof.
  unfold aget, zlookup. induction l as [|[k w] r IH]; simpl; intros Hnd Hin; [contradiction|].
  inversion Hnd as [|? ? Hnin Hnd']; subst.
  destruct Hin as [Hin|Hin].
  - inversion Hin; subst. rewrite Z.eqb_refl. reflexivity.
  - destruct (Z.eqb_spec a k) as [->|Hne].
    + exfalso. apply Hnin. unfold keys. apply in_map_iff. exists (k, v). auto.
    + apply IH; auto.
Qed.

Section Ref.
  Variable d : dcop.
  Variable orc : node -> list Z.

  (* value held before the first cycle: initial_value or random.choice(domain); a variable
     without neighbour selects its final value at start *)
  Definition init_val (n : Z) : Z :=
    match nbrs d n with
    | [] => fst (isolated_choice d n)
    | _ => match v_init (var_of d n) with Some v => v | None => choose (dom_of d n) (fst (draw (orc n))) 0 end
    end.
  Definition init_orc (n : Z) : list Z :=
    match v_init (var_of d n) with Some _ => orc n | None => snd (draw (orc n)) end.

  Definition sstate := ((Z -> Z) * (Z -> list Z))%type.
  Definition dr_of (o : Z -> list Z) : Z -> Z := fun v => fst (draw (o v)).
  (* one synchronous round: every variable applies M_Mgm.mgm_next with its next draw, and spends
     that draw iff it takes part in cycles and can improve *)
  Definition sstep (S : sstate) : sstate :=
    (mgm_next d (fst S) (dr_of (snd S)),
     fun v => if r_active d v && r_improving d (fst S) v then snd (draw (snd S v)) else snd S v).
  Fixpoint siter (j : nat) : sstate := match j with O => (init_val, init_orc) | S j' => sstep (siter j') end.
  Definition RA (j : nat) : Z -> Z := fst (siter j).           (* assignment after j complete cycles *)
  Definition RO (j : nat) : Z -> list Z := snd (siter j).
  Definition RG (j : nat) (n : Z) : Z := r_gain d (RA j) n.   (* gain announced in cycle j+1 *)
  Definition RNV (j : nat) (n : Z) : Z := r_newv d (RA j) n (dr_of (RO j) n).

  Lemma RA_S j : RA (S j) = mgm_next d (RA j) (dr_of (RO j)).
  Proof. reflexivity. Qed.

  (* the j-th message (from 0) a computation sends to each neighbour *)
  Definition msg_at (a : node) (j : nat) : mmsg :=
    if Nat.even j then MValue (RA (Nat.div2 j) a) else MGain (RG (Nat.div2 j) a).
  Definition msgs_from (a : node) (i k : nat) : list mmsg := map (msg_at a) (seq i k).
  Definition pl (m : mmsg) : Z := match m with MValue v => v | MGain g => g end.

  Lemma div2_double p : Nat.div2 (2 * p) = p.
  Proof. apply Nat.div2_double. Qed.
  Lemma div2_sdouble p : Nat.div2 (S (2 * p)) = p.
  Proof. apply Nat.div2_succ_double. Qed.
  Lemma even_double p : Nat.even (2 * p) = true.
  Proof. apply Nat.even_spec. exists p. lia. Qed.
  Lemma even_sdouble p : Nat.even (S (2 * p)) = false.
  Proof.
    destruct (Nat.even (S (2 * p))) eqn:E; auto. apply Nat.even_spec in E. destruct E as [q E]. lia.
  Qed.
  Lemma msg_at_even a p : msg_at a (2 * p) = MValue (RA p a).
  Proof. unfold msg_at. rewrite even_double, div2_double. reflexivity. Qed.
  Lemma msg_at_odd a p : msg_at a (S (2 * p)) = MGain (RG p a).
  Proof. unfold msg_at. rewrite even_sdouble, div2_sdouble. reflexivity. Qed.
  Lemma parity j : exists p, j = (2 * p)%nat \/ j = S (2 * p).
  Proof. destruct (Nat.Even_or_Odd j) as [[p E]|[p E]]; exists p; lia. Qed.
  Lemma msg_at_value a j v : msg_at a j = MValue v -> exists p, j = (2 * p)%nat /\ v = RA p a.
  Proof.
    destruct (parity j) as [p [->| ->]].
    - rewrite msg_at_even. intros H. inversion H. eauto.
    - rewrite msg_at_odd. discriminate.
  Qed.
  Lemma msg_at_gain a j g : msg_at a j = MGain g -> exists p, j = S (2 * p) /\ g = RG p a.
  Proof.
    destruct (parity j) as [p [->| ->]].
    - rewrite msg_at_even. discriminate.
    - rewrite msg_at_odd. intros H. inversion H. eauto.
  Qed.

  Lemma msgs_from_snoc a i k : msgs_from a i (S k) = msgs_from a i k ++ [msg_at a (i + k)].
  Proof. unfold msgs_from. rewrite seq_S, map_app. reflexivity. Qed.
  Lemma msgs_from_cons a i k : msgs_from a i (S k) = msg_at a i :: msgs_from a (S i) k.
  Proof. reflexivity. Qed.

  (* ---- what a node computes from tables holding the reference values *)
  Section NodeRef.
    Variable n : node.
    Variable p : nat.
    Notation nb := (nbrs d n).
    Hypothesis Hact : nb <> [].

    Lemma own_cost_ref nv x : NoDup (keys nv) -> length nv = length nb -> incl (keys nv) nb ->
      (forall a v, In (a, v) nv -> v = RA p a) ->
      own_cost d n nv x = own d (RA p) n x.
    Proof.
      intros Hnd Hlen Hincl Hval. unfold own_cost, own, cons_sum. f_equal.
      apply zsum_map_ext. intros c Hc. apply ceval_ext. intros v Hv.
      unfold view, fupd. destruct (v =? n) eqn:E; [reflexivity|].
      destruct (scope_in_nbrs d n c v Hc Hv) as [->|Hn]; [lia|].
      pose proof (full_keys nv nb v Hnd Hincl Hlen Hn) as Hk.
      unfold keys in Hk. apply in_map_iff in Hk as [[a w] [Ea Hin]]. simpl in Ea. subst a.
      rewrite (aget_in nv v w Hnd Hin). now apply Hval.
    Qed.

    Lemma vdone_ref s : NoDup (keys (m_nv s)) -> length (m_nv s) = length nb -> incl (keys (m_nv s)) nb ->
      (forall a v, In (a, v) (m_nv s) -> v = RA p a) ->
      m_value s = Some (RA p n) -> m_orc s = RO p n ->
      vgain d n s = RG p n /\ vnewv d n s = RNV p n /\ vorc d n s = RO (S p) n.
    Proof.
      intros Hnd Hlen Hincl Hval Hv Ho.
      assert (Hoc : forall x, own_cost d n (m_nv s) x = own d (RA p) n x) by (intros x; now apply own_cost_ref).
      assert (Hcur : cur_value s = RA p n) by (unfold cur_value; rewrite Hv; reflexivity).
      assert (Hbest : find_arg_optimal (d_max d) (own_cost d n (m_nv s)) (dom_of d n) = r_best d (RA p) n).
      { unfold r_best. now apply find_arg_optimal_ext. }
      assert (Hg : vgain d n s = RG p n).
      { unfold vgain, compute_best_value, local_cost. fold (own_cost d n (m_nv s) (cur_value s)).
        rewrite Hbest. destruct (r_best d (RA p) n) as [vals best] eqn:Eb. simpl.
        unfold RG, r_gain. rewrite Eb, Hoc, Hcur. simpl. lia. }
      assert (Hi : vimp d n s = r_improving d (RA p) n).
      { unfold vimp, r_improving. rewrite Hg. reflexivity. }
      assert (Hf : fst (compute_best_value d n (m_nv s)) = fst (r_best d (RA p) n)).
      { unfold compute_best_value. rewrite Hbest. destruct (r_best d (RA p) n); reflexivity. }
      split; [exact Hg|]. split.
      - unfold vnewv, RNV, r_newv, dr_of. rewrite Hi, Hf, Hcur, Ho. reflexivity.
      - unfold vorc. rewrite Hi, Ho. unfold RO at 3. simpl. unfold r_active.
        destruct nb; [congruence|]. reflexivity.
    Qed.

    Lemma gwins_ref s1 : NoDup (keys (m_ng s1)) -> length (m_ng s1) = length nb -> incl (keys (m_ng s1)) nb ->
      (forall a g, In (a, g) (m_ng s1) -> g = RG p a) ->
      m_gain s1 = RG p n ->
      gwins d n s1 = r_moves d (RA p) n.
    Proof.
      intros Hnd Hlen Hincl Hval Hg. unfold gwins, r_moves, r_wins, r_active.
      destruct nb as [|y r] eqn:Enb; [congruence|]. rewrite <- Enb in *. simpl. rewrite Hg. fold (RG p n).
      apply wins_same_set.
      - intros Hc. rewrite Hc in Hlen. rewrite Enb in Hlen. discriminate.
      - rewrite Enb. discriminate.
      - intros [a g]. split.
        + intros Hin. apply in_map_iff. exists a. rewrite (Hval a g Hin). split; [reflexivity|].
          apply Hincl. unfold keys. apply in_map_iff. exists (a, g). auto.
        + intros Hin. apply in_map_iff in Hin as [m [E Hm]]. inversion E; subst a g. clear E.
          pose proof (full_keys (m_ng s1) nb m Hnd Hincl Hlen Hm) as Hk.
          unfold keys in Hk. apply in_map_iff in Hk as [[a w] [Ea Hin]]. simpl in Ea. subst a.
          pose proof (Hval m w Hin) as Ew. unfold RG in Ew. subst w. exact Hin.
    Qed.
  End NodeRef.
End Ref.

(* ------------------------------------------------------------------ Part 4: the invariant *)
Definition from (a : node) (l : list (node * mmsg)) : list mmsg :=
  map snd (filter (fun p => Z.eqb (fst p) a) l).
Definition to_y (y : node) (outs : list (node * mmsg)) : list mmsg :=
  map snd (filter (fun p => Z.eqb (fst p) y) outs).

Lemma send_all_spec outs : forall (c : node -> node -> list mmsg) src x y,
  send_all c src outs x y = if Z.eqb x src then c x y ++ to_y y outs else c x y.
Proof.
  induction outs as [|[t m] r IH]; intros c src x y; simpl.
  - unfold to_y; simpl. rewrite app_nil_r. destruct (Z.eqb x src); auto.
  - rewrite IH. unfold upd_chan, to_y. simpl.
    destruct (Z.eqb x src) eqn:Ex; simpl; [|reflexivity].
    rewrite (Z.eqb_sym t y).
    destruct (Z.eqb y t) eqn:Ey; simpl.
    + apply Z.eqb_eq in Ex. apply Z.eqb_eq in Ey. subst. rewrite <- app_assoc. reflexivity.
    + reflexivity.
Qed.

Lemma reinject_all_spec l : forall (c : node -> node -> list mmsg) dst x y,
  reinject_all c dst l x y = if Z.eqb y dst then from x l ++ c x y else c x y.
Proof.
  induction l as [|[s0 m] r IH]; intros c dst x y; simpl.
  - unfold from; simpl. destruct (Z.eqb y dst); auto.
  - unfold upd_chan. rewrite !IH. unfold from. simpl.
    rewrite (Z.eqb_sym s0 x).
    destruct (Z.eqb x s0) eqn:Ex; simpl.
    + apply Z.eqb_eq in Ex; subst.
      destruct (Z.eqb y dst) eqn:Ey; simpl.
      * apply Z.eqb_eq in Ey; subst. rewrite Z.eqb_refl. reflexivity.
      * reflexivity.
    + destruct (Z.eqb y dst); reflexivity.
Qed.

Lemma from_app a (l1 l2 : list (node * mmsg)) : from a (l1 ++ l2) = from a l1 ++ from a l2.
Proof. unfold from. rewrite filter_app, map_app. reflexivity. Qed.
Lemma from_single a a0 (m : mmsg) : from a [(a0, m)] = if Z.eqb a0 a then [m] else [].
Proof. unfold from. simpl. destruct (Z.eqb a0 a); reflexivity. Qed.
Lemma to_y_app y (l1 l2 : list (node * mmsg)) : to_y y (l1 ++ l2) = to_y y l1 ++ to_y y l2.
Proof. unfold to_y. rewrite filter_app, map_app. reflexivity. Qed.

(* one message per neighbour, for each message of L in turn *)
Definition bcast (nb : list node) (M : mmsg) : list (node * mmsg) := map (fun t => (t, M)) nb.
Definition outs_of (nb : list node) (L : list mmsg) : list (node * mmsg) := flat_map (bcast nb) L.

Lemma to_y_bcast_in y nb M : NoDup nb -> In y nb -> to_y y (bcast nb M) = [M].
Proof.
  unfold to_y, bcast. induction nb as [|t r IH]; simpl; intros Hnd Hin; [contradiction|].
  inversion Hnd as [|? ? Hnin Hnd']; subst.
  destruct (Z.eqb_spec t y) as [->|Hne]; simpl.
  - f_equal. clear IH Hin Hnd Hnd'. induction r as [|t2 r IH]; simpl; auto.
    destruct (Z.eqb_spec t2 y) as [->|Hne]; [exfalso; apply Hnin; simpl; auto|].
    apply IH. intros Hc. apply Hnin. simpl; auto.
  - destruct Hin as [Hin|Hin]; [contradiction|]. auto.
Qed.

Lemma to_y_bcast_out y nb M : ~ In y nb -> to_y y (bcast nb M) = [].
Proof.
  unfold to_y, bcast. induction nb as [|t r IH]; simpl; intros Hin; auto.
  destruct (Z.eqb_spec t y) as [->|Hne]; [exfalso; apply Hin; auto|]. apply IH. intros Hc. apply Hin. auto.
Qed.

Lemma to_y_outs_in y nb L : NoDup nb -> In y nb -> to_y y (outs_of nb L) = L.
Proof.
  intros Hnd Hin. induction L as [|M L IH]; simpl; auto.
  rewrite to_y_app, to_y_bcast_in, IH; auto.
Qed.

Lemma to_y_outs_out y nb L : ~ In y nb -> to_y y (outs_of nb L) = [].
Proof.
  intros Hin. induction L as [|M L IH]; simpl; auto.
  rewrite to_y_app, to_y_bcast_out, IH; auto.
Qed.

Section Global.
  Variable d : dcop.
  Variable stop : Z.
  Variable orc : node -> list Z.
  Hypothesis Hstop : 0 <= stop.
  Notation P := (mgm_proto d stop orc).
  Notation config := (config mst mmsg).
  Notation nbr := (nbrs d).
  Notation RA := (RA d orc).
  Notation RO := (RO d orc).
  Notation RG := (RG d orc).
  Notation RNV := (RNV d orc).
  Notation msg_at := (msg_at d orc).
  Notation msgs_from := (msgs_from d orc).

  Definition st (cf : config) n := w_st (nodes cf n).
  Definition rn (cf : config) n := w_running (nodes cf n).

  Definition cyc (s : mst) : nat := Z.to_nat (m_cycle s - 1).      (* completed cycles *)
  Definition sg (s : mst) : bool := match m_state s with SGain => true | _ => false end.
  Definition ph (s : mst) : nat := (2 * cyc s + (if sg s then 1 else 0))%nat.
  Definition finb (s : mst) : bool := negb (stop =? 0) && (stop <=? m_cycle s).
  Definition fb (s : mst) : nat := if finb s then 1%nat else 0%nat.
  Definition tab (s : mst) : list (Z * Z) := if sg s then m_ng s else m_nv s.
  Definition post (s : mst) : list (Z * Z) := if sg s then m_pv s else m_pg s.

  (* number of messages a has sent to each neighbour / number b has consumed from a *)
  Definition nsent (cf : config) (a : node) : nat :=
    if rn cf a then (ph (st cf a) + 1 - fb (st cf a))%nat else 0%nat.
  Definition acc (cf : config) (b a : node) : nat :=
    (ph (st cf b) + kb a (tab (st cf b)) + kb a (post (st cf b)))%nat.
  Definition pipe (cf : config) (a b : node) : list mmsg := from a (w_held (nodes cf b)) ++ chan cf a b.

  Record good (b : node) (s : mst) : Prop := {
    g_state : m_state s <> SStarting;
    g_cyc : 1 <= m_cycle s;
    g_stop : stop <> 0 -> m_cycle s <= stop;
    g_fin : m_fin s = Z.of_nat (fb s);
    g_finst : finb s = true -> sg s = false /\ m_nv s = [] /\ m_pg s = [];
    g_V : sg s = false -> m_pv s = [] /\ m_ng s = [];
    g_G : sg s = true -> m_pg s = [];
    g_tab : NoDup (keys (tab s)) /\ incl (keys (tab s)) (nbr b) /\ (length (tab s) < length (nbr b))%nat;
    g_post : NoDup (keys (post s)) /\ incl (keys (post s)) (keys (tab s));
    g_val : m_value s = Some (RA (cyc s) b);
    g_orcV : sg s = false -> m_orc s = RO (cyc s) b;
    g_orcG : sg s = true -> m_orc s = RO (S (cyc s)) b /\ m_gain s = RG (cyc s) b /\ m_newv s = RNV (cyc s) b;
    g_tabP : forall a v, In (a, v) (tab s) -> v = pl (msg_at a (ph s));
    g_postP : forall a v, In (a, v) (post s) -> v = pl (msg_at a (S (ph s)))
  }.

  Definition PI (accf : node -> node -> nat) (ns : node -> nat) (pp : node -> node -> list mmsg) : Prop :=
    forall a b, In a (nbr b) ->
      pp a b = msgs_from a (accf b a) (ns a - accf b a) /\ (accf b a <= ns a)%nat.

  Record Inv (cf : config) : Prop := {
    I_idle : forall b, rn cf b = false -> st cf b = mgm_init orc b;
    I_held : forall b, rn cf b = true -> w_held (nodes cf b) = [];
    I_iso : forall b, rn cf b = true -> nbr b = [] ->
       m_fin (st cf b) = 1 /\ m_cycle (st cf b) = 0 /\ m_value (st cf b) = Some (RA 0 b);
    I_good : forall b, rn cf b = true -> nbr b <> [] -> good b (st cf b);
    I_pipe : PI (acc cf) (nsent cf) (pipe cf);
    I_non : forall a b, ~ In a (nbr b) -> pipe cf a b = []
  }.

  Lemma msgs_from_app a i k1 k2 : msgs_from a i k1 ++ msgs_from a (i + k1) k2 = msgs_from a i (k1 + k2).
  Proof. unfold msgs_from, P_Mgm3.msgs_from. rewrite seq_app, map_app. reflexivity. Qed.

  (* a delivery consumes the head of (a0,b0) and b0 sends k more messages to every neighbour *)
  Lemma PI_deliver accf ns pp accf' ns' pp' a0 b0 m q k :
    PI accf ns pp -> In a0 (nbr b0) -> pp a0 b0 = m :: q ->
    (forall a b, In a (nbr b) -> accf' b a = (accf b a + (if Z.eqb b b0 && Z.eqb a a0 then 1 else 0))%nat) ->
    (forall a b, In a (nbr b) -> ns' a = (ns a + (if Z.eqb a b0 then k else 0))%nat) ->
    (forall a b, In a (nbr b) ->
       pp' a b = (if Z.eqb a a0 && Z.eqb b b0 then q else pp a b) ++ (if Z.eqb a b0 then msgs_from b0 (ns b0) k else [])) ->
    PI accf' ns' pp'.
  Proof.
    intros HP Hab0 Hhd Hacc Hns Hpp a b Hab.
    rewrite (Hacc a b Hab), (Hns a b Hab), (Hpp a b Hab).
    destruct (HP a b Hab) as [Hseq Hle].
    assert (Hne0 : a0 <> b0) by (intros ->; eapply nbrs_irrefl; eauto).
    destruct (Z.eqb_spec b b0) as [->|Hb]; destruct (Z.eqb_spec a a0) as [->|Ha]; simpl.
    - (* the popped channel *)
      destruct (Z.eqb_spec a0 b0) as [|_]; [contradiction|]. rewrite app_nil_r, Nat.add_0_r.
      rewrite Hhd in Hseq.
      destruct (ns a0 - accf b0 a0)%nat as [|k'] eqn:Ek; [discriminate|].
      rewrite msgs_from_cons in Hseq. inversion Hseq as [[Hm Hq]].
      split; [|lia]. replace (ns a0 - (accf b0 a0 + 1))%nat with k' by lia.
      replace (accf b0 a0 + 1)%nat with (S (accf b0 a0)) by lia. reflexivity.
    - assert (Hab' : a <> b0) by (intros ->; eapply nbrs_irrefl; eauto).
      destruct (Z.eqb_spec a b0) as [|_]; [contradiction|]. rewrite app_nil_r, !Nat.add_0_r. auto.
    - destruct (Z.eqb_spec a0 b0) as [|_]; [contradiction|]. rewrite app_nil_r, !Nat.add_0_r. auto.
    - rewrite Nat.add_0_r. destruct (Z.eqb_spec a b0) as [->|Hab'].
      + rewrite Hseq. split; [|lia].
        replace (ns b0 + k - accf b b0)%nat with ((ns b0 - accf b b0) + k)%nat by lia.
        rewrite <- msgs_from_app. f_equal. f_equal. lia.
      + rewrite app_nil_r, Nat.add_0_r. auto.
  Qed.

  (* no consumption: a start *)
  Lemma PI_send accf ns pp accf' ns' pp' b0 k :
    PI accf ns pp ->
    (forall a b, In a (nbr b) -> accf' b a = accf b a) ->
    (forall a b, In a (nbr b) -> ns' a = (ns a + (if Z.eqb a b0 then k else 0))%nat) ->
    (forall a b, In a (nbr b) -> pp' a b = pp a b ++ (if Z.eqb a b0 then msgs_from b0 (ns b0) k else [])) ->
    PI accf' ns' pp'.
  Proof.
    intros HP Hacc Hns Hpp a b Hab.
    rewrite (Hacc a b Hab), (Hns a b Hab), (Hpp a b Hab).
    destruct (HP a b Hab) as [Hseq Hle].
    destruct (Z.eqb_spec a b0) as [->|Hab'].
    - rewrite Hseq. split; [|lia].
      replace (ns b0 + k - accf b b0)%nat with ((ns b0 - accf b b0) + k)%nat by lia.
      rewrite <- msgs_from_app. f_equal. f_equal. lia.
    - rewrite app_nil_r, Nat.add_0_r. auto.
  Qed.

  Ltac zeq x y := destruct (Z.eqb_spec x y); try subst; try contradiction; try congruence.

  Lemma upd_node_same (f : node -> nwrap mst mmsg) n w : upd_node f n w n = w.
  Proof. unfold upd_node. rewrite Z.eqb_refl. reflexivity. Qed.
  Lemma upd_node_other (f : node -> nwrap mst mmsg) n w x : x <> n -> upd_node f n w x = f x.
  Proof. unfold upd_node. intros H. destruct (Z.eqb_spec x n); [contradiction|reflexivity]. Qed.

  Lemma idle_zero cf b : Inv cf -> rn cf b = false -> (forall a, acc cf b a = 0%nat) /\ nsent cf b = 0%nat.
  Proof.
    intros HI Hr. split.
    - intros a. unfold acc. rewrite (I_idle cf HI b Hr). reflexivity.
    - unfold nsent. rewrite Hr. reflexivity.
  Qed.

  Lemma finb_spec s : finb s = true <-> stop <> 0 /\ stop <= m_cycle s.
  Proof. unfold finb. rewrite andb_true_iff, negb_true_iff, Z.eqb_neq, Z.leb_le. tauto. Qed.

  Lemma nsent_good b s : good b s ->
    (stop <> 0 -> (ph s + 1 - fb s <= 2 * Z.to_nat (stop - 1))%nat) /\ (fb s <= 1)%nat.
  Proof.
    intros G. split; [|unfold fb; destruct (finb s); lia].
    intros Hs. pose proof (g_cyc b s G). pose proof (g_stop b s G Hs).
    unfold ph, fb, cyc. destruct (finb s) eqn:F.
    - destruct (g_finst b s G F) as [Hsg _]. rewrite Hsg. apply finb_spec in F. lia.
    - assert (m_cycle s < stop).
      { destruct (Z.lt_ge_cases (m_cycle s) stop); auto. assert (finb s = true) by (apply finb_spec; lia). congruence. }
      destruct (sg s); lia.
  Qed.

  Lemma nsent_bound cf a : Inv cf -> stop <> 0 -> nbr a <> [] -> (nsent cf a <= 2 * Z.to_nat (stop - 1))%nat.
  Proof.
    intros HI Hs Ha. unfold nsent. destruct (rn cf a) eqn:Hr; [|lia].
    destruct (nsent_good a (st cf a)) as [H _]; [now apply (I_good cf HI)|]. now apply H.
  Qed.

  Lemma nsent_le_ph cf a : (nsent cf a <= ph (st cf a) + 1)%nat.
  Proof. unfold nsent. destruct (rn cf a); lia. Qed.
  Lemma ph_le_acc cf b a : (ph (st cf b) <= acc cf b a)%nat.
  Proof. unfold acc. lia. Qed.

  Lemma kb_le a l : (kb a l <= 1)%nat.
  Proof. unfold kb. destruct (kin a l); lia. Qed.

  (* what is at the head of a channel towards a running computation *)
  Lemma head_facts cf a0 b0 m q :
    Inv cf -> rn cf b0 = true -> chan cf a0 b0 = m :: q ->
    let s := st cf b0 in
    In a0 (nbr b0) /\ good b0 s /\ finb s = false /\ kin a0 (post s) = false /\
    m = msg_at a0 (ph s + kb a0 (tab s)) /\ pipe cf a0 b0 = m :: q /\
    (acc cf b0 a0 < nsent cf a0)%nat.
  Proof.
    intros HI Hr Hc s.
    assert (Hheld := I_held cf HI b0 Hr).
    assert (Hp : pipe cf a0 b0 = m :: q) by (unfold pipe; rewrite Hheld, Hc; reflexivity).
    assert (Hnb : In a0 (nbr b0)).
    { destruct (in_dec Z.eq_dec a0 (nbr b0)) as [H|H]; auto.
      rewrite (I_non cf HI a0 b0 H) in Hp. discriminate. }
    assert (Hact : nbr b0 <> []) by (intros Hc'; rewrite Hc' in Hnb; contradiction).
    pose proof (I_good cf HI b0 Hr Hact) as G. fold s in G.
    destruct (I_pipe cf HI a0 b0 Hnb) as [Hseq Hle]. rewrite Hp in Hseq.
    destruct (nsent cf a0 - acc cf b0 a0)%nat as [|k'] eqn:Ek; [discriminate|].
    rewrite msgs_from_cons in Hseq. injection Hseq as Hm Hq.
    assert (Hlt : (acc cf b0 a0 < nsent cf a0)%nat) by lia.
    pose proof (nbrs_sym d b0 a0 Hnb) as Hsym.
    destruct (I_pipe cf HI b0 a0 Hsym) as [_ Hle2].
    pose proof (nsent_le_ph cf a0) as H1. pose proof (ph_le_acc cf a0 b0) as H2.
    assert (Hnsb : nsent cf b0 = (ph s + 1 - fb s)%nat) by (unfold nsent; rewrite Hr; reflexivity).
    destruct (nsent_good b0 s G) as [Hbound Hfb].
    assert (Hacc : acc cf b0 a0 = (ph s + kb a0 (tab s) + kb a0 (post s))%nat) by reflexivity.
    pose proof (kb_le a0 (tab s)) as K1. pose proof (kb_le a0 (post s)) as K2.
    assert (Hfin : finb s = false).
    { destruct (finb s) eqn:F; auto. exfalso.
      destruct (proj1 (finb_spec s) F) as [Hs0 Hs1].
      assert (Ha0 : nbr a0 <> []) by (intros Hc'; rewrite Hc' in Hsym; contradiction).
      pose proof (nsent_bound cf a0 HI Hs0 Ha0) as Hb.
      pose proof (g_stop b0 s G Hs0). destruct (g_finst b0 s G F) as [Hsg _].
      unfold ph, cyc in Hacc. rewrite Hsg in Hacc. lia. }
    assert (Hfb0 : fb s = 0%nat) by (unfold fb; rewrite Hfin; reflexivity).
    assert (Hpost : kin a0 (post s) = false).
    { destruct (kin a0 (post s)) eqn:Ep; auto. exfalso.
      assert (Ht : kin a0 (tab s) = true).
      { apply kin_In. apply (proj2 (g_post b0 s G)). now apply kin_In. }
      unfold kb in Hacc. rewrite Ep, Ht in Hacc. lia. }
    split; [exact Hnb|]. split; [exact G|]. split; [exact Hfin|]. split; [exact Hpost|].
    split; [|split; [exact Hp|exact Hlt]].
    rewrite Hm, Hacc. unfold kb at 2. rewrite Hpost. f_equal. lia.
  Qed.

  (* a running computation b0 handles the head of (a0,b0) *)
  Lemma Inv_deliver_run cf a0 b0 m q s' L :
    Inv cf -> rn cf b0 = true -> chan cf a0 b0 = m :: q -> In a0 (nbr b0) ->
    (forall a, In a (nbr b0) ->
       (ph s' + kb a (tab s') + kb a (post s') = acc cf b0 a + (if Z.eqb a a0 then 1 else 0))%nat) ->
    (ph s' + 1 - fb s' = nsent cf b0 + length L)%nat ->
    L = msgs_from b0 (nsent cf b0) (length L) ->
    good b0 s' ->
    Inv (mkConfig (upd_node (nodes cf) b0 (mkWrap true (w_held (nodes cf b0)) s'))
                  (send_all (upd_chan (chan cf) a0 b0 q) b0 (outs_of (nbr b0) L))).
  Proof.
    intros HI Hr Hc Hnb Hacc Hns HL G.
    set (cf' := mkConfig _ _).
    assert (Hheld := I_held cf HI b0 Hr).
    assert (Hst : forall x, x <> b0 -> st cf' x = st cf x).
    { intros x Hx. unfold st, cf'; simpl. rewrite upd_node_other; auto. }
    assert (Hst0 : st cf' b0 = s') by (unfold st, cf'; simpl; rewrite upd_node_same; reflexivity).
    assert (Hrn : forall x, rn cf' x = rn cf x).
    { intros x. unfold rn, cf'; simpl. destruct (Z.eq_dec x b0) as [->|Hx].
      - rewrite upd_node_same. simpl. symmetry. exact Hr.
      - rewrite upd_node_other; auto. }
    assert (Hhd : forall x, w_held (nodes cf' x) = w_held (nodes cf x)).
    { intros x. unfold cf'; simpl. destruct (Z.eq_dec x b0) as [->|Hx].
      - rewrite upd_node_same. reflexivity.
      - rewrite upd_node_other; auto. }
    assert (Hact : nbr b0 <> []) by (intros Hc'; rewrite Hc' in Hnb; contradiction).
    assert (Hpipe : forall a b, pipe cf' a b =
               (if Z.eqb a a0 && Z.eqb b b0 then q else pipe cf a b)
               ++ (if Z.eqb a b0 then to_y b (outs_of (nbr b0) L) else [])).
    { intros a b. unfold pipe. rewrite Hhd. unfold cf'; simpl. rewrite send_all_spec. unfold upd_chan.
      destruct (Z.eqb_spec a a0) as [->|Ha]; destruct (Z.eqb_spec b b0) as [->|Hb]; simpl.
      - rewrite Hheld. simpl. destruct (Z.eqb a0 b0); [reflexivity|rewrite app_nil_r; reflexivity].
      - destruct (Z.eqb a0 b0); [rewrite app_assoc; reflexivity|rewrite app_nil_r; reflexivity].
      - destruct (Z.eqb a b0); [rewrite app_assoc; reflexivity|rewrite app_nil_r; reflexivity].
      - destruct (Z.eqb a b0); [rewrite app_assoc; reflexivity|rewrite app_nil_r; reflexivity]. }
    constructor.
    - intros b Hb. rewrite Hrn in Hb. assert (b <> b0) by congruence.
      rewrite Hst; auto. apply (I_idle cf HI); auto.
    - intros b Hb. rewrite Hhd. apply (I_held cf HI). now rewrite <- Hrn.
    - intros b Hb Hiso. assert (b <> b0) by congruence. rewrite Hst; auto. apply (I_iso cf HI); auto.
      now rewrite <- Hrn.
    - intros b Hb Hb2. destruct (Z.eq_dec b b0) as [->|Hne].
      + rewrite Hst0. exact G.
      + rewrite Hst; auto. apply (I_good cf HI); auto. now rewrite <- Hrn.
    - apply (PI_deliver (acc cf) (nsent cf) (pipe cf) _ _ _ a0 b0 m q (length L)).
      + apply (I_pipe cf HI).
      + exact Hnb.
      + unfold pipe. rewrite Hheld, Hc. reflexivity.
      + intros a b Hab. unfold acc. destruct (Z.eqb_spec b b0) as [->|Hb]; simpl.
        * rewrite Hst0. rewrite (Hacc a Hab). reflexivity.
        * rewrite Hst; auto.
      + intros a b _. unfold nsent. rewrite Hrn. destruct (Z.eqb_spec a b0) as [->|Ha].
        * rewrite Hst0, Hr. rewrite Hns. unfold nsent. rewrite Hr. reflexivity.
        * rewrite Hst; auto.
      + intros a b Hab. rewrite Hpipe. f_equal.
        destruct (Z.eqb_spec a b0) as [->|Ha]; auto.
        rewrite to_y_outs_in; auto; [apply nbrs_nodup|now apply nbrs_sym].
    - intros a b Hab. rewrite Hpipe.
      assert (Hq0 : (if Z.eqb a a0 && Z.eqb b b0 then q else pipe cf a b) = pipe cf a b).
      { destruct (Z.eqb_spec a a0) as [->|Ha]; destruct (Z.eqb_spec b b0) as [->|Hb]; simpl; auto.
        contradiction. }
      rewrite Hq0, (I_non cf HI a b Hab). simpl.
      destruct (Z.eqb_spec a b0) as [->|Ha]; auto.
      apply to_y_outs_out. intros Hc'. apply Hab. now apply nbrs_sym.
  Qed.

  Lemma Inv_init : Inv (init P).
  Proof.
    constructor; unfold st, rn, pipe; simpl.
    - reflexivity.
    - discriminate.
    - discriminate.
    - discriminate.
    - intros a b _. unfold acc, nsent, rn, st, pipe, ph, cyc, tab, post, sg, kb. simpl. split; [reflexivity|lia].
    - reflexivity.
  Qed.

  (* Deliver to a computation that has not started: the message moves to its buffer *)
  Lemma Inv_deliver_idle cf a0 b0 m q :
    Inv cf -> rn cf b0 = false -> chan cf a0 b0 = m :: q ->
    Inv (mkConfig (upd_node (nodes cf) b0
                     (mkWrap false (w_held (nodes cf b0) ++ [(a0, m)]) (w_st (nodes cf b0))))
                  (upd_chan (chan cf) a0 b0 q)).
  Proof.
    intros HI Hr Hc.
    set (cf' := mkConfig _ _).
    assert (Hst : forall x, st cf' x = st cf x).
    { intros x. unfold st, cf'; simpl. unfold upd_node. zeq x b0; reflexivity. }
    assert (Hrn : forall x, rn cf' x = rn cf x).
    { intros x. unfold rn, cf'; simpl. unfold upd_node. zeq x b0; simpl; auto. }
    assert (Hpipe : forall a b, pipe cf' a b = pipe cf a b).
    { intros a b. unfold pipe, cf'; simpl. unfold upd_node, upd_chan.
      destruct (Z.eqb b b0) eqn:Eb; simpl.
      - apply Z.eqb_eq in Eb; subst b.
        rewrite from_app, from_single, <- app_assoc, andb_true_r.
        rewrite (Z.eqb_sym a0 a).
        destruct (Z.eqb a a0) eqn:Ea; simpl.
        + apply Z.eqb_eq in Ea; subst a. rewrite Hc. reflexivity.
        + reflexivity.
      - rewrite andb_false_r. reflexivity. }
    assert (Hacc : forall a b, acc cf' b a = acc cf b a) by (intros; unfold acc; rewrite Hst; reflexivity).
    assert (Hns : forall a, nsent cf' a = nsent cf a) by (intros; unfold nsent; rewrite Hrn, Hst; reflexivity).
    constructor.
    - intros b. rewrite Hrn, Hst. apply (I_idle cf HI).
    - intros b Hb. rewrite Hrn in Hb. unfold cf'; simpl. unfold upd_node.
      destruct (Z.eqb b b0) eqn:Eb; [apply Z.eqb_eq in Eb; subst; congruence|].
      apply (I_held cf HI); auto.
    - intros b. rewrite Hrn, Hst. apply (I_iso cf HI).
    - intros b. rewrite Hrn, Hst. apply (I_good cf HI).
    - intros a b Hab. rewrite Hpipe, Hacc, Hns. apply (I_pipe cf HI); auto.
    - intros a b Hab. rewrite Hpipe. apply (I_non cf HI); auto.
  Qed.

  Lemma Inv_start cf n s' L :
    Inv cf -> rn cf n = false ->
    (nbr n = [] -> L = [] /\ m_fin s' = 1 /\ m_cycle s' = 0 /\ m_value s' = Some (RA 0 n)) ->
    (nbr n <> [] -> good n s' /\ ph s' = 0%nat /\ tab s' = [] /\ post s' = [] /\
                    (1 - fb s' = length L)%nat /\ L = msgs_from n 0 (length L)) ->
    Inv (mkConfig (upd_node (nodes cf) n (mkWrap true [] s'))
                  (reinject_all (send_all (chan cf) n (outs_of (nbr n) L)) n (reinject (w_held (nodes cf n))))).
  Proof.
    intros HI Hr Hiso Hactive.
    set (cf' := mkConfig _ _).
    assert (Hst : forall x, x <> n -> st cf' x = st cf x).
    { intros x Hx. unfold st, cf'; simpl. rewrite upd_node_other; auto. }
    assert (Hstn : st cf' n = s') by (unfold st, cf'; simpl; rewrite upd_node_same; reflexivity).
    assert (Hrn : forall x, x <> n -> rn cf' x = rn cf x).
    { intros x Hx. unfold rn, cf'; simpl. rewrite upd_node_other; auto. }
    assert (Hrnn : rn cf' n = true) by (unfold rn, cf'; simpl; rewrite upd_node_same; reflexivity).
    assert (Hpipe : forall a b, pipe cf' a b = pipe cf a b ++ (if Z.eqb a n then to_y b (outs_of (nbr n) L) else [])).
    { intros a b. unfold pipe, cf'; simpl. rewrite reinject_all_spec, send_all_spec.
      unfold reinject, upd_node.
      destruct (Z.eqb b n) eqn:Eb.
      - apply Z.eqb_eq in Eb; subst b. simpl. unfold from at 1; simpl.
        destruct (Z.eqb a n) eqn:Ea.
        + rewrite <- app_assoc. reflexivity.
        + rewrite app_nil_r. reflexivity.
      - destruct (Z.eqb a n) eqn:Ea.
        + rewrite app_assoc. reflexivity.
        + rewrite app_nil_r. reflexivity. }
    destruct (idle_zero cf n HI Hr) as [Hacc0 Hns0].
    constructor.
    - intros b Hb. destruct (Z.eq_dec b n) as [->|Hbn]; [congruence|].
      rewrite Hrn in Hb; auto. rewrite Hst; auto. apply (I_idle cf HI); auto.
    - intros b Hb. unfold cf'; simpl. unfold upd_node.
      destruct (Z.eqb_spec b n); [reflexivity|].
      apply (I_held cf HI). rewrite Hrn in Hb; auto.
    - intros b Hb Hb2. destruct (Z.eq_dec b n) as [->|Hbn].
      + rewrite Hstn. apply Hiso; auto.
      + rewrite Hst; auto. apply (I_iso cf HI); auto. rewrite <- Hrn; auto.
    - intros b Hb Hb2. destruct (Z.eq_dec b n) as [->|Hbn].
      + rewrite Hstn. apply Hactive; auto.
      + rewrite Hst; auto. apply (I_good cf HI); auto. rewrite <- Hrn; auto.
    - apply (PI_send (acc cf) (nsent cf) (pipe cf) _ _ _ n (length L)).
      + apply (I_pipe cf HI).
      + intros a b Hab. unfold acc. destruct (Z.eq_dec b n) as [->|Hbn].
        * assert (Hne : nbr n <> []) by (intros Hc; rewrite Hc in Hab; contradiction).
          destruct (Hactive Hne) as (_ & Hph & Htab & Hpost & _).
          rewrite Hstn, Hph, Htab, Hpost. fold (acc cf n a). rewrite Hacc0. reflexivity.
        * rewrite Hst; auto.
      + intros a b Hab. unfold nsent. destruct (Z.eqb_spec a n) as [->|Han].
        * assert (Hne : nbr n <> []).
          { intros Hc. apply nbrs_sym in Hab. rewrite Hc in Hab. contradiction. }
          destruct (Hactive Hne) as (_ & Hph & _ & _ & Hk & _).
          rewrite Hrnn, Hstn, Hr, Hph. lia.
        * rewrite Hrn, Hst; auto.
      + intros a b Hab. rewrite Hpipe. f_equal.
        destruct (Z.eqb_spec a n) as [->|Han]; auto.
        assert (Hne : nbr n <> []).
        { intros Hc. apply nbrs_sym in Hab. rewrite Hc in Hab. contradiction. }
        destruct (Hactive Hne) as (_ & _ & _ & _ & _ & HL).
        rewrite to_y_outs_in; [|apply nbrs_nodup|now apply nbrs_sym].
        rewrite Hns0. exact HL.
    - intros a b Hab. rewrite Hpipe, (I_non cf HI a b Hab). simpl.
      destruct (Z.eqb_spec a n) as [->|Han]; auto.
      apply to_y_outs_out. intros Hc. apply Hab. now apply nbrs_sym.
  Qed.

End Global.
