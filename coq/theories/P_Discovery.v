(* P_Discovery.v -- proofs about the discovery model (C20).
   Part 1: association-list / set helpers.
   Part 2: what one handler does to the computation table, the computation subscriptions and
           the messages it emits (Discovery side, Directory side).
   Part 3: the network invariant for computation subscriptions, for all schedules.
   Part 4: callbacks, refutation witnesses. *)
From PyDcop Require Import Base Net M_Discovery.
From Coq Require Import Lia.

Local Notation length := List.length.

(* ------------------------------------------------------------------ Part 1 *)
Lemma zlookup_zset_same {V} k (v : V) l : zlookup k (zset k v l) = Some v.
Proof. apply lookup_dict_set_same. intros; apply Z.eqb_eq. Qed.

Lemma zlookup_zset_other {V} k k2 (v : V) l : k2 <> k -> zlookup k2 (zset k v l) = zlookup k2 l.
Proof. apply lookup_dict_set_other. intros; apply Z.eqb_eq. Qed.

Lemma zlookup_zdel_same {V} k (l : list (Z * V)) : zlookup k (zdel k l) = None.
Proof.
  induction l as [|[k' v] r IH]; simpl; auto.
  destruct (k' =? k) eqn:E; simpl; auto.
  unfold zlookup in *. simpl. rewrite Z.eqb_sym, E. exact IH.
Qed.

Lemma zlookup_zdel_other {V} k k2 (l : list (Z * V)) : k2 <> k -> zlookup k2 (zdel k l) = zlookup k2 l.
Proof.
  intros Hne. induction l as [|[k' v] r IH]; simpl; auto.
  unfold zlookup in *. destruct (k' =? k) eqn:E; simpl.
  - apply Z.eqb_eq in E; subst k'. destruct (k2 =? k) eqn:E2; auto. apply Z.eqb_eq in E2; contradiction.
  - destruct (k2 =? k'); auto.
Qed.

Lemma zlookup_app_other {V} k k2 (v : V) l : k2 <> k -> zlookup k2 (l ++ [(k, v)]) = zlookup k2 l.
Proof.
  intros Hne. induction l as [|[k' v'] r IH]; simpl.
  - unfold zlookup; simpl. destruct (k2 =? k) eqn:E; auto. apply Z.eqb_eq in E; contradiction.
  - unfold zlookup in *; simpl. destruct (k2 =? k'); auto.
Qed.

Lemma set_add_In x y l : In y (set_add x l) <-> y = x \/ In y l.
Proof.
  induction l as [|z r IH]; simpl.
  - intuition.
  - destruct (x =? z) eqn:E.
    + apply Z.eqb_eq in E; subst. simpl. intuition.
    + destruct (x <? z); simpl; [intuition|]. rewrite IH. intuition.
Qed.

Lemma set_remove_In x y l : In y (set_remove x l) -> In y l.
Proof.
  induction l as [|z r IH]; simpl; auto.
  destruct (x =? z); simpl; intuition.
Qed.

Lemma sm_ins_same k v m : zlookup k (sm_ins k v m) = Some v.
Proof.
  induction m as [|[k' v'] r IH]; unfold zlookup in *; simpl.
  - now rewrite Z.eqb_refl.
  - destruct (k =? k') eqn:E; simpl; [now rewrite Z.eqb_refl|].
    destruct (k <? k'); simpl; [now rewrite Z.eqb_refl|]. now rewrite E.
Qed.

Lemma sm_ins_other k k2 v m : k2 <> k -> zlookup k2 (sm_ins k v m) = zlookup k2 m.
Proof.
  intros Hne. assert (Hf : (k2 =? k) = false) by now apply Z.eqb_neq.
  induction m as [|[k' v'] r IH]; unfold zlookup in *; simpl.
  - now rewrite Hf.
  - destruct (k =? k') eqn:E; simpl.
    + apply Z.eqb_eq in E; subst k'. now rewrite Hf.
    + destruct (k <? k'); simpl; [now rewrite Hf|]. destruct (k2 =? k'); auto.
Qed.

Lemma sm_get_put_other k k2 v m : k2 <> k -> sm_get k2 (sm_put k v m) = sm_get k2 m.
Proof.
  intros Hne. unfold sm_get, get_or_nil, sm_put. destruct v.
  - now rewrite zlookup_zdel_other.
  - now rewrite sm_ins_other.
Qed.

Lemma sm_get_put_same k v m : sm_get k (sm_put k v m) = v.
Proof.
  unfold sm_get, get_or_nil, sm_put. destruct v.
  - now rewrite zlookup_zdel_same.
  - now rewrite sm_ins_same.
Qed.

Lemma sm_add_In k x m k2 y : In y (sm_get k2 (sm_add k x m)) -> (k2 = k /\ y = x) \/ In y (sm_get k2 m).
Proof.
  unfold sm_add. destruct (Z.eq_dec k2 k) as [->|Hne].
  - rewrite sm_get_put_same, set_add_In. intuition.
  - rewrite sm_get_put_other; auto.
Qed.

Lemma sm_add_In_same k x m : In x (sm_get k (sm_add k x m)).
Proof. unfold sm_add. rewrite sm_get_put_same, set_add_In. auto. Qed.

Lemma sm_del_In k x m k2 y : In y (sm_get k2 (sm_del k x m)) -> In y (sm_get k2 m).
Proof.
  unfold sm_del. destruct (Z.eq_dec k2 k) as [->|Hne].
  - rewrite sm_get_put_same. apply set_remove_In.
  - rewrite sm_get_put_other; auto.
Qed.

Fixpoint last_opt {A} (l : list A) : option A :=
  match l with
  | [] => None
  | [x] => Some x
  | _ :: r => last_opt r
  end.

Lemma last_opt_none {A} (l : list A) : last_opt l = None -> l = [].
Proof.
  induction l as [|x r IH]; auto. destruct r; simpl; try discriminate. intros H. apply IH in H. discriminate.
Qed.

Lemma last_opt_app {A} (l l' : list A) :
  last_opt (l ++ l') = match last_opt l' with Some x => Some x | None => last_opt l end.
Proof.
  induction l as [|x r IH].
  - simpl. destruct (last_opt l'); auto.
  - destruct r as [|y r'].
    + simpl. destruct l' as [|a t]; auto.
      destruct (last_opt (a :: t)) eqn:E2; auto. apply last_opt_none in E2. discriminate.
    + change (last_opt (((x :: y :: r') ++ l'))) with (last_opt ((y :: r') ++ l')).
      rewrite IH. reflexivity.
Qed.

Lemma last_opt_cons {A} (x : A) l : l <> [] -> last_opt (x :: l) = last_opt l.
Proof. destruct l; simpl; congruence. Qed.


(* ------------------------------------------------------------------ Part 2 *)
Definition vc (s : dstate) (c : Z) : option Z := zlookup c (d_comps s).
Definition Dc (st : nst) (c : Z) : option Z := zlookup c (g_comps (n_dir st)).
Definition Sc (st : nst) (c : Z) : list Z := sm_get c (g_sub_comps (n_dir st)).

(* publication / un-publication of computation c *)
Definition aboutc (c : Z) (m : msg) : bool :=
  match m with MPubComp c' _ _ => c' =? c | MUnpubComp c' _ => c' =? c | _ => false end.
Definition is_op (m : msg) : bool := match m with MOp _ => true | _ => false end.

(* the operations covered by the convergence theorem: everything except un-registering an agent
   and registering a computation without giving the address of its agent *)
Definition frag (o : op) : bool :=
  match o with
  | OpUnregAgent _ => false | OpRegComp _ _ None => false | OpUnregComp _ (Some _) => false
  | _ => true
  end.
Definition okmsg (m : msg) : bool :=
  match m with
  | MOp o => frag o | MUnpubAgent _ => false | MPubComp _ _ None => false | MUnpubComp _ (Some _) => false
  | _ => true
  end.
(* messages that may change the local entry of computation c *)
Definition touches (c : Z) (m : msg) : bool :=
  match m with
  | MOp (OpRegComp c' _ _) | MOp (OpUnregComp c' _) => c' =? c
  | _ => aboutc c m
  end.

Notation rS r := (fst (fst (fst r))).
Notation rO r := (snd (fst (fst r))).
Notation rX r := (snd r).

(* the caught ValueError of a stale un-publication changes only the exception component *)
Lemma catch_S r : rS (catch_value_error r) = rS r.
Proof. reflexivity. Qed.
Lemma catch_O r : rO (catch_value_error r) = rO r.
Proof. reflexivity. Qed.

Lemma bind_S r f : rS (bind r f) = match rX r with Some _ => rS r | None => rS (f (rS r)) end.
Proof. destruct r as [[[s o] e] [x|]]; simpl; auto. destruct (f s) as [[[s' o'] e'] x']; reflexivity. Qed.
Lemma bind_O r f : rO (bind r f) = match rX r with Some _ => rO r | None => rO r ++ rO (f (rS r)) end.
Proof. destruct r as [[[s o] e] [x|]]; simpl; auto. destruct (f s) as [[[s' o'] e'] x']; reflexivity. Qed.
Lemma bind_X r f : rX (bind r f) = match rX r with Some x => Some x | None => rX (f (rS r)) end.
Proof. destruct r as [[[s o] e] [x|]]; simpl; auto. destruct (f s) as [[[s' o'] e'] x']; reflexivity. Qed.

Local Arguments bind : simpl never.

Ltac dm := repeat match goal with
  | |- context[match ?x with _ => _ end] => destruct x eqn:?
  end.

Lemma reg_agent_comps s a ad p : d_comps (rS (d_register_agent s a ad p)) = d_comps s.
Proof. unfold d_register_agent. dm; reflexivity. Qed.
Lemma reg_agent_X s a ad p : rX (d_register_agent s a ad p) = None.
Proof. unfold d_register_agent. dm; reflexivity. Qed.
Lemma reg_agent_O s a ad p : rO (d_register_agent s a ad p) = if p then [MPubAgent a ad] else [].
Proof. unfold d_register_agent. dm; reflexivity. Qed.

Lemma register_agents_comps l : forall s, d_comps (rS (register_agents s l)) = d_comps s.
Proof.
  induction l as [|[a ad] r IH]; intros s; simpl; auto.
  rewrite bind_S, reg_agent_X, IH. apply reg_agent_comps.
Qed.
Lemma register_agents_O l : forall s, rO (register_agents s l) = [].
Proof.
  induction l as [|[a ad] r IH]; intros s; simpl; auto.
  rewrite bind_O, reg_agent_X, IH, reg_agent_O. reflexivity.
Qed.

Lemma reg_comp_X s c ag ad p : rX (d_register_computation s c ag (Some ad) p) = None.
Proof.
  unfold d_register_computation. simpl. rewrite bind_X.
  destruct (zmemk _ _); simpl; [|rewrite reg_agent_X]; dm; reflexivity.
Qed.
Lemma reg_comp_O s c ag ad p :
  rO (d_register_computation s c ag (Some ad) p)
  = if p then [MPubComp c (match ag with Some g => g | None => d_own s end) (Some ad)] else [].
Proof.
  unfold d_register_computation. simpl. rewrite bind_O.
  destruct (zmemk _ _); simpl; [|rewrite reg_agent_X, reg_agent_O]; dm; reflexivity.
Qed.
Lemma reg_comp_comps s c ag ad p :
  d_comps (rS (d_register_computation s c ag (Some ad) p))
  = zset c (match ag with Some g => g | None => d_own s end) (d_comps s).
Proof.
  unfold d_register_computation. simpl. rewrite bind_S.
  destruct (zmemk _ _); simpl; [|rewrite reg_agent_X]; dm; simpl; try rewrite reg_agent_comps; reflexivity.
Qed.

Lemma unsub_none_noerr cbs k : snd (unsub_cbs cbs k None) = false.
Proof. unfold unsub_cbs. dm; reflexivity. Qed.

Lemma unsub_comp_comps s c cb : d_comps (rS (d_unsubscribe_comp s c cb)) = d_comps s.
Proof. unfold d_unsubscribe_comp. dm; reflexivity. Qed.
Lemma unsub_comp_O s c cb x : In x (rO (d_unsubscribe_comp s c cb)) -> x = MSubComp c false.
Proof. unfold d_unsubscribe_comp. dm; simpl; intuition. Qed.

Lemma unreg_comp_other s c ag p c' : c' <> c ->
  vc (rS (d_unregister_computation s c ag p)) c' = vc s c'.
Proof.
  intros Hne. unfold d_unregister_computation, vc. dm; simpl; auto.
  - rewrite !bind_S. simpl. dm; simpl; rewrite ?unsub_comp_comps; simpl; now rewrite ?zlookup_zdel_other.
  - now rewrite zlookup_zdel_other.
Qed.
Lemma unreg_comp_O s c ag p x : In x (rO (d_unregister_computation s c ag p)) ->
  x = MSubComp c false \/ x = MUnpubComp c ag.
Proof.
  unfold d_unregister_computation. dm; simpl; try tauto.
  rewrite !bind_O. simpl. dm; simpl; rewrite ?app_nil_r; intros H; try apply in_app_or in H; simpl in H;
    intuition; left; eapply unsub_comp_O; eauto.
Qed.
(* a published un-registration either leaves the entry as it was or emits the un-publication *)
Lemma unreg_comp_pub s c ag :
  vc (rS (d_unregister_computation s c ag true)) c = vc s c
  \/ In (MUnpubComp c ag) (rO (d_unregister_computation s c ag true)).
Proof.
  unfold d_unregister_computation, vc. dm; simpl; auto.
  right. rewrite !bind_O. simpl.
  assert (Hx : rX (d_unsubscribe_comp (set_comps s (zdel c (d_comps s))) c None) = None).
  { unfold d_unsubscribe_comp.
    pose proof (unsub_none_noerr (d_ccbs (set_comps s (zdel c (d_comps s)))) c) as Hn.
    destruct (unsub_cbs _ c None) as [[t snd0] err]. simpl in Hn. subst err. reflexivity. }
  rewrite Hx. simpl. rewrite ?in_app_iff. simpl. auto 6.
Qed.

Lemma reg_rep_comps s r g p : d_comps (rS (d_register_replica s r g p)) = d_comps s.
Proof. unfold d_register_replica. dm; reflexivity. Qed.
Lemma reg_rep_O s r g p x : In x (rO (d_register_replica s r g p)) -> x = MPubRep r g true.
Proof. unfold d_register_replica. dm; simpl; intuition. Qed.
Lemma unreg_rep_comps s r g p : d_comps (rS (d_unregister_replica s r g p)) = d_comps s.
Proof. unfold d_unregister_replica. dm; reflexivity. Qed.
Lemma unreg_rep_O s r g p x : In x (rO (d_unregister_replica s r g p)) -> x = MPubRep r g false.
Proof. unfold d_unregister_replica. dm; simpl; intuition. Qed.

Lemma sub_ops_comps s o :
  match o with
  | OpSubAgent _ _ _ | OpUnsubAgent _ _ | OpSubAll _ | OpSubComp _ _ _ | OpUnsubComp _ _
  | OpSubRep _ _ _ | OpUnsubRep _ _ => d_comps (rS (do_op s o)) = d_comps s /\
       forall x, In x (rO (do_op s o)) -> okmsg x = true /\ forall c, aboutc c x = false
  | _ => True
  end.
Proof.
  destruct o; auto; simpl;
    unfold d_subscribe_agent, d_unsubscribe_agent, d_subscribe_all, d_subscribe_comp, d_unsubscribe_comp,
           d_subscribe_rep, d_unsubscribe_rep, sub_cbs;
    dm; simpl; (split; [reflexivity|]); intros x Hx; intuition; subst; auto.
Qed.

Lemma neqb_neq a b : (a =? b) = false -> a <> b.
Proof. apply Z.eqb_neq. Qed.

Definition is_subop (o : op) : bool :=
  match o with
  | OpSubAgent _ _ _ | OpUnsubAgent _ _ | OpSubAll _ | OpSubComp _ _ _ | OpUnsubComp _ _
  | OpSubRep _ _ _ | OpUnsubRep _ _ => true
  | _ => false
  end.
Lemma subop_comps s o : is_subop o = true -> d_comps (rS (do_op s o)) = d_comps s.
Proof. intros H. pose proof (sub_ops_comps s o) as P. destruct o; try discriminate; apply P. Qed.
Lemma subop_outs s o x : is_subop o = true -> In x (rO (do_op s o)) ->
  okmsg x = true /\ forall c, aboutc c x = false.
Proof. intros H. pose proof (sub_ops_comps s o) as P. destruct o; try discriminate; apply P. Qed.

(* a message that does not concern computation c leaves c's local entry alone *)
Lemma disc_recv_frame s m c : okmsg m = true -> touches c m = false ->
  vc (rS (disc_recv s m)) c = vc s c.
Proof.
  intros Hok Ht. unfold vc. destruct m as [o| | | | | c' g [ad|] | c' g | | r g [|] | ]; simpl in *; try discriminate;
    try reflexivity.
  - destruct (is_subop o) eqn:Es; [now rewrite subop_comps|].
    destruct o as [| |c' g [ad|]|c' g| | | | | | | | |]; simpl in *; try discriminate.
    + now rewrite reg_agent_comps.
    + rewrite reg_comp_comps. apply zlookup_zset_other. apply neqb_neq in Ht. congruence.
    + apply unreg_comp_other. apply neqb_neq in Ht. congruence.
    + now rewrite reg_rep_comps.
    + now rewrite unreg_rep_comps.
  - now rewrite reg_agent_comps.
  - now rewrite register_agents_comps.
  - rewrite reg_comp_comps. apply zlookup_zset_other. apply neqb_neq in Ht. congruence.
  - apply unreg_comp_other. apply neqb_neq in Ht. congruence.
  - now rewrite reg_rep_comps.
  - now rewrite unreg_rep_comps.
Qed.

Lemma disc_recv_outs s m x : okmsg m = true -> In x (rO (disc_recv s m)) -> okmsg x = true.
Proof.
  intros Hok. destruct m as [o| | | | | c' g [ad|] | c' g | | r g [|] | ]; simpl in *; try discriminate;
    try tauto.
  - destruct (is_subop o) eqn:Es; [intros H; eapply subop_outs; eauto|].
    destruct o as [| |c' g [ad|]|c' g| | | | | | | | |]; simpl in *; try discriminate.
    + rewrite reg_agent_O. simpl. intuition; subst; auto.
    + rewrite reg_comp_O. simpl. intuition; subst; auto.
    + intros H. apply unreg_comp_O in H as [->| ->]; auto.
    + intros H. apply reg_rep_O in H as ->; auto.
    + intros H. apply unreg_rep_O in H as ->; auto.
  - rewrite reg_agent_O. simpl. tauto.
  - rewrite register_agents_O. simpl. tauto.
  - rewrite reg_comp_O. simpl. tauto.
  - intros H. apply unreg_comp_O in H as [->| ->]; auto.
  - intros H. apply reg_rep_O in H as ->; auto.
  - intros H. apply unreg_rep_O in H as ->; auto.
Qed.

Lemma disc_recv_pub s c g ad : vc (rS (disc_recv s (MPubComp c g (Some ad)))) c = Some g.
Proof. unfold vc. simpl. rewrite reg_comp_comps. apply zlookup_zset_same. Qed.

(* an operation either leaves c's entry alone or publishes something about c *)
Lemma disc_recv_op s o c : frag o = true ->
  vc (rS (disc_recv s (MOp o))) c = vc s c
  \/ exists x, In x (rO (disc_recv s (MOp o))) /\ aboutc c x = true.
Proof.
  intros Hf. destruct (touches c (MOp o)) eqn:Et.
  2:{ left. apply disc_recv_frame; auto. }
  destruct o as [| |c' g [ad|]|c' g| | | | | | | | |]; simpl in *; try discriminate.
  - apply Z.eqb_eq in Et; subst c'. right. rewrite reg_comp_O. eexists; split; [left; reflexivity|].
    simpl. apply Z.eqb_refl.
  - apply Z.eqb_eq in Et; subst c'. destruct (unreg_comp_pub s c g) as [H|H]; [left; exact H|].
    right. eexists; split; [exact H|]. simpl. apply Z.eqb_refl.
Qed.

(* ---- Directory side *)
Definition gc (st : nst) := g_comps (n_dir st).
Definition gsc (st : nst) := g_sub_comps (n_dir st).
Definition nocomp (outs : list (node * msg)) : Prop :=
  forall d x, In (d, x) outs -> okmsg x = true /\ forall c, aboutc c x = false.

Lemma to_all_In l m d x : In (d, x) (to_all l m) -> In d l /\ x = m.
Proof. unfold to_all. rewrite in_map_iff. intros [i [E H]]. inversion E; subst. auto. Qed.
Lemma to_self_In l d x : In (d, x) (to_self l) -> d = 0 /\ In x l.
Proof. unfold to_self. rewrite in_map_iff. intros [i [E H]]. inversion E; subst. auto. Qed.

Lemma dir_pubcomp st s c g ad :
  let r := dir_recv st s (MPubComp c g (Some ad)) in
  gc (rS r) = zset c g (gc st) /\ gsc (rS r) = gsc st
  /\ rO r = to_all (sm_get c (gsc st)) (MPubComp c g (Some ad)).
Proof.
  simpl. unfold dir_register_computation, gc, gsc.
  pose proof (reg_comp_X (n_disc st) c (Some g) ad false) as HX.
  destruct (d_register_computation (n_disc st) c (Some g) (Some ad) false) as [[[d1 o1] e1] x1].
  simpl in HX. subst x1. simpl. auto.
Qed.

Lemma dir_unpubcomp st s c :
  let ag : option Z := None in
  let r := dir_recv st s (MUnpubComp c ag) in
  gsc (rS r) = gsc st /\
  ((zmemk c (gc st) = true /\ gc (rS r) = zdel c (gc st) /\
    exists o1, rO r = to_self o1 ++ to_all (sm_get c (gsc st)) (MUnpubComp c ag)
               /\ forall x, In x o1 -> x = MSubComp c false \/ x = MUnpubComp c None)
   \/ (zmemk c (gc st) = false /\ rS r = st /\ rO r = [])).
Proof.
  simpl. unfold dir_unregister_computation, stale_unpub, gc, gsc.
  destruct (zmemk c (g_comps (n_dir st))) eqn:E; [|auto].
  pose proof (unreg_comp_O (n_disc st) c None false) as HO.
  destruct (d_unregister_computation (n_disc st) c None false) as [[[d1 o1] e1] x1].
  simpl in *. split; auto. left. repeat split; auto. exists o1. auto.
Qed.

Lemma dir_subcomp_true st s c :
  let r := dir_recv st s (MSubComp c true) in
  gc (rS r) = gc st /\ gsc (rS r) = sm_add c s (gsc st)
  /\ rO r = match zlookup c (gc st) with
            | Some g => match zlookup g (g_agents (n_dir st)) with
                        | Some ad => [(s, MPubComp c g (Some ad))]
                        | None => []
                        end
            | None => []
            end.
Proof. simpl. unfold gc, gsc. simpl. auto. Qed.

Lemma dir_subcomp_false st s c :
  let r := dir_recv st s (MSubComp c false) in
  gc (rS r) = gc st /\ gsc (rS r) = sm_del c s (gsc st) /\ rO r = [].
Proof. simpl. unfold gc, gsc. simpl. auto. Qed.

Lemma dir_other st s m : okmsg m = true -> (forall c, aboutc c m = false) ->
  (forall c b, m <> MSubComp c b) ->
  let r := dir_recv st s m in
  gc (rS r) = gc st /\ gsc (rS r) = gsc st /\ nocomp (rO r).
Proof.
  intros Hok Hab Hns. unfold gc, gsc, nocomp.
  destruct m as [o|a ad|l|a|a [|]|c g ad|c g|c b|r g [|]|r [|]]; simpl in *; try discriminate.
  - repeat split; auto; intros; contradiction.
  - unfold dir_register_agent.
    destruct (d_register_agent (n_disc st) a ad false) as [[[d1 o1] e1] x1]. simpl.
    repeat split; auto; apply in_app_or in H as [H|H]; apply to_all_In in H as [_ ->]; auto.
  - repeat split; auto; intros; contradiction.
  - destruct (a =? STAR).
    + unfold dir_subscribe_all. simpl. repeat split; auto; apply to_all_In in H as [_ ->]; auto.
    + simpl. repeat split; auto; destruct (zlookup a (g_agents (n_dir st))); simpl in H; intuition;
        inversion H0; subst; auto.
  - simpl. repeat split; auto; intros; contradiction.
  - specialize (Hab c). rewrite Z.eqb_refl in Hab. discriminate.
  - specialize (Hab c). rewrite Z.eqb_refl in Hab. discriminate.
  - exfalso. eapply Hns; eauto.
  - destruct (d_register_replica (n_disc st) r g false) as [[[d1 o1] e1] [x1|]]; simpl.
    + repeat split; auto; intros; contradiction.
    + repeat split; auto; apply to_all_In in H as [_ ->]; auto.
  - pose proof (unreg_rep_O (n_disc st) r g true) as HO.
    destruct (d_unregister_replica (n_disc st) r g true) as [[[d1 o1] e1] x1]. simpl in *.
    repeat split; auto; apply in_app_or in H as [H|H];
      [apply to_self_In in H as [_ H]; apply HO in H; subst; auto
      |apply to_all_In in H as [_ ->]; auto
      |apply to_self_In in H as [_ H]; apply HO in H; subst; auto
      |apply to_all_In in H as [_ ->]; auto].
  - destruct (zmemk r (d_comps (n_disc st))); simpl.
    + repeat split; auto; unfold to_all_rep in H; apply in_map_iff in H as [i [E _]]; inversion E; subst; auto.
    + repeat split; auto; intros; contradiction.
  - simpl. repeat split; auto; intros; contradiction.
Qed.

Lemma dir_outs_ok st s m d x : okmsg m = true -> In (d, x) (rO (dir_recv st s m)) -> okmsg x = true.
Proof.
  intros Hok Hin.
  destruct m as [o|a ad|l|a|a b|c g [ad|]|c [g|]|c [|]|r g b|r b]; try discriminate;
    try (match type of Hin with In _ (snd (fst (fst (dir_recv _ _ ?M)))) =>
           destruct (dir_other st s M Hok) as (_ & _ & Hn); [intros; reflexivity|intros; discriminate|];
           apply Hn in Hin; tauto end).
  - destruct (dir_pubcomp st s c g ad) as (_ & _ & E). rewrite E in Hin. apply to_all_In in Hin as [_ ->]. auto.
  - destruct (dir_unpubcomp st s c) as (_ & [(_ & _ & o1 & E & Ho)|(_ & _ & E)]); rewrite E in Hin.
    + apply in_app_or in Hin as [H|H].
      * apply to_self_In in H as [_ H]. apply Ho in H as [->| ->]; auto.
      * apply to_all_In in H as [_ ->]. auto.
    + contradiction.
  - destruct (dir_subcomp_true st s c) as (_ & _ & E). rewrite E in Hin.
    destruct (zlookup c (gc st)); [|contradiction]. destruct (zlookup z _); [|contradiction].
    destruct Hin as [H|[]]. inversion H; subst; auto.
  - destruct (dir_subcomp_false st s c) as (_ & _ & E). rewrite E in Hin. contradiction.
Qed.

(* ------------------------------------------------------------------ Part 3 *)
Definition msgs_to (y : node) (outs : list (node * msg)) : list msg :=
  map snd (filter (fun p => fst p =? y) outs).

Lemma send_all_spec (outs : list (node * msg)) : forall c src x y,
  send_all c src outs x y = if x =? src then c x y ++ msgs_to y outs else c x y.
Proof.
  induction outs as [|[d m] r IH]; intros c src x y; simpl.
  - destruct (x =? src); auto. now rewrite app_nil_r.
  - rewrite IH. unfold upd_chan. destruct (x =? src) eqn:E; simpl; auto.
    apply Z.eqb_eq in E; subst x. unfold msgs_to; simpl. destruct (y =? d) eqn:E2.
    + apply Z.eqb_eq in E2; subst y. rewrite Z.eqb_refl. simpl. rewrite <- app_assoc. reflexivity.
    + rewrite (Z.eqb_sym d y), E2. reflexivity.
Qed.

Lemma msgs_to_In y outs x : In x (msgs_to y outs) <-> In (y, x) outs.
Proof.
  unfold msgs_to. rewrite in_map_iff. split.
  - intros [[d m] [E H]]. apply filter_In in H as [H1 H2]. simpl in *. apply Z.eqb_eq in H2. now subst.
  - intros H. exists (y, x). split; auto. apply filter_In. split; auto. simpl. apply Z.eqb_refl.
Qed.

Lemma msgs_to_self y l : msgs_to y (to_self l) = if y =? 0 then l else [].
Proof.
  unfold msgs_to, to_self. induction l as [|m r IH]; cbn -[Z.eqb].
  - destruct (y =? 0); auto.
  - rewrite (Z.eqb_sym 0 y). destruct (y =? 0); cbn -[Z.eqb]; now rewrite IH.
Qed.

Lemma reinject_all_other (l : list (node * msg)) : forall c dst x y, y <> dst -> reinject_all c dst l x y = c x y.
Proof.
  induction l as [|[s m] r IH]; intros c dst x y Hne; simpl; auto.
  unfold upd_chan. apply Z.eqb_neq in Hne. rewrite Hne, andb_false_r. apply IH. now apply Z.eqb_neq.
Qed.

Lemma reinject_all_In (l : list (node * msg)) : forall c dst x y z,
  In z (reinject_all c dst l x y) -> In z (c x y) \/ (y = dst /\ In (x, z) l).
Proof.
  induction l as [|[s m] r IH]; intros c dst x y z; simpl; auto.
  unfold upd_chan at 1. destruct ((x =? s) && (y =? dst)) eqn:E.
  - apply andb_true_iff in E as [E1 E2]. apply Z.eqb_eq in E1, E2. subst.
    simpl. intros [->|H]; auto. apply IH in H. intuition.
  - intros H. apply IH in H. intuition.
Qed.

Definition cn (c : Z) (l : list msg) : list msg := filter (aboutc c) l.

Lemma cn_app c l l' : cn c (l ++ l') = cn c l ++ cn c l'.
Proof. apply filter_app. Qed.

Lemma cn_nil_iff c l : cn c l = [] <-> forall x, In x l -> aboutc c x = false.
Proof.
  unfold cn. induction l as [|m r IH]; simpl; [intuition|].
  destruct (aboutc c m) eqn:E; split; intros H.
  - discriminate.
  - specialize (H m (or_introl eq_refl)). congruence.
  - intros x [->|Hx]; auto. apply IH; auto.
  - apply IH. intros; apply H; auto.
Qed.

(* all new messages are the same publication about c *)
Lemma last_all_same c l l' M : l' <> [] -> (forall x, In x l' -> x = M) -> aboutc c M = true ->
  last_opt (cn c (l ++ l')) = Some M.
Proof.
  intros Hne Hall Hab. rewrite cn_app, last_opt_app.
  assert (Hc : cn c l' = l').
  { unfold cn. induction l' as [|x r IH]; auto. simpl. rewrite (Hall x (or_introl eq_refl)), Hab.
    destruct r; auto. f_equal. apply IH; [discriminate|]. intros; apply Hall; right; auto. }
  rewrite Hc. clear Hc. induction l' as [|x r IH]; [congruence|].
  destruct r as [|y r']; simpl.
  - f_equal. apply Hall. left; auto.
  - simpl in IH. apply IH; [discriminate|]. intros; apply Hall; right; auto.
Qed.

Section Inv.
  Variable h : hist_t.
  Hypothesis hist_ok : forall k o, In o (hist_of h k) -> frag o = true.
  Variable a : Z.
  Hypothesis a_pos : 0 < a.

  Notation P := (disc_proto h).
  Notation cfg := (config nst msg).

  Definition disc (cf : cfg) (n : node) : dstate := n_disc (w_st (nodes cf n)).
  Definition dirst (cf : cfg) : nst := w_st (nodes cf 0).

  Lemma step_cases act (cf : cfg) :
    let cf' := fst (step P cf act) in
    cf' = cf
    \/ (exists n, act = Start n /\ w_running (nodes cf n) = false /\
          exists outs, (outs = [] \/ (n < 0 /\ outs = map (fun o => (- n, MOp o)) (hist_of h (- n)))) /\
            cf' = mkConfig (upd_node (nodes cf) n (mkWrap true [] (w_st (nodes cf n))))
                           (reinject_all (send_all (chan cf) n outs) n (reinject (w_held (nodes cf n)))))
    \/ (exists s d m q, act = Deliver s d /\ chan cf s d = m :: q /\ w_running (nodes cf d) = true /\
          exists st' outs evs, node_recv d (w_st (nodes cf d)) s m = (st', outs, evs) /\
            cf' = mkConfig (upd_node (nodes cf) d (mkWrap true (w_held (nodes cf d)) st'))
                           (send_all (upd_chan (chan cf) s d q) d outs))
    \/ (exists s d m q, act = Deliver s d /\ chan cf s d = m :: q /\ w_running (nodes cf d) = false /\
          cf' = mkConfig (upd_node (nodes cf) d (mkWrap false (w_held (nodes cf d) ++ [(s, m)]) (w_st (nodes cf d))))
                         (upd_chan (chan cf) s d q)).
  Proof.
    destruct act as [n|s d]; unfold step; cbn [p_recv p_start disc_proto].
    - destruct (w_running (nodes cf n)) eqn:E; [left; reflexivity|].
      right; left. exists n. split; auto. split; auto. unfold disc_start.
      destruct (n <? 0) eqn:En; simpl.
      + eexists; split; [right; split; [now apply Z.ltb_lt|reflexivity]|reflexivity].
      + eexists; split; [left; reflexivity|reflexivity].
    - destruct (chan cf s d) as [|m q] eqn:Ec; [left; reflexivity|].
      destruct (w_running (nodes cf d)) eqn:E.
      + right; right; left. exists s, d, m, q. repeat split; auto.
        destruct (node_recv d (w_st (nodes cf d)) s m) as [[st' outs] evs]. simpl.
        exists st', outs, evs. auto.
      + right; right; right. exists s, d, m, q. simpl. auto.
  Qed.

  Definition msgs_ok (cf : cfg) : Prop :=
    (forall s d m, In m (chan cf s d) -> okmsg m = true /\ (s <> 0 -> d <> 0 -> is_op m = true)) /\
    (forall n s m, In (s, m) (w_held (nodes cf n)) -> okmsg m = true /\ (s <> 0 -> n <> 0 -> is_op m = true)).

  Lemma node_outs_ok d st s m st' outs evs y x :
    okmsg m = true -> node_recv d st s m = (st', outs, evs) -> In (y, x) outs ->
    okmsg x = true /\ (d <> 0 -> y <> 0 -> is_op x = true).
  Proof.
    unfold node_recv. intros Hok H Hin. destruct (d =? 0) eqn:E0.
    - apply Z.eqb_eq in E0. subst d.
      pose proof (dir_outs_ok st s m y x Hok) as Hd.
      destruct (dir_recv st s m) as [[[st1 o1] e1] x1]. inversion H; subst. simpl in Hd. split; auto; congruence.
    - destruct (0 <? d).
      + pose proof (disc_recv_outs (n_disc st) m x Hok) as Hd.
        destruct (disc_recv (n_disc st) m) as [[[d1 o1] e1] x1]. inversion H; subst.
        apply to_self_In in Hin as [-> Hin]. split; auto; congruence.
      + inversion H; subst. contradiction.
  Qed.

  Lemma upd_chan_In (c : node -> node -> list msg) s d m q x y z :
    c s d = m :: q -> In z (upd_chan c s d q x y) -> In z (c x y).
  Proof.
    unfold upd_chan. intros Hc. destruct ((x =? s) && (y =? d)) eqn:E; auto.
    apply andb_true_iff in E as [E1 E2]. apply Z.eqb_eq in E1, E2. subst. rewrite Hc. intros; right; auto.
  Qed.

  Lemma msgs_ok_step act cf : msgs_ok cf -> msgs_ok (fst (step P cf act)).
  Proof.
    intros [Hc Hh]. destruct (step_cases act cf) as [E|[(n & _ & Hr & outs & Ho & E)|[(s & d & m & q & _ & Hcd & Hr & st' & outs & evs & Hn & E)|(s & d & m & q & _ & Hcd & Hr & E)]]];
      rewrite E; clear E; [split; auto| | |].
    - split; simpl.
      + intros x y z Hz. apply reinject_all_In in Hz as [Hz|[-> Hz]].
        * rewrite send_all_spec in Hz. destruct (x =? n) eqn:Ex; [|auto].
          apply in_app_or in Hz as [Hz|Hz]; [auto|]. apply msgs_to_In in Hz.
          destruct Ho as [->|[Hn ->]]; [contradiction|]. apply in_map_iff in Hz as [o [Eo Hin]].
          inversion Eo; subst. simpl. split; auto. eapply hist_ok; eauto.
        * assert (Hz' : In (x, z) (w_held (nodes cf n))) by (unfold reinject in Hz; first [exact Hz | apply in_rev; exact Hz]). apply Hh in Hz'. auto.
      + intros k x z. unfold upd_node. destruct (k =? n) eqn:Ek; simpl; [contradiction|apply Hh].
    - assert (Hm : okmsg m = true) by (apply (Hc s d); rewrite Hcd; left; auto).
      split; simpl.
      + intros x y z Hz. rewrite send_all_spec in Hz. destruct (x =? d) eqn:Ex.
        * apply Z.eqb_eq in Ex; subst x. apply in_app_or in Hz as [Hz|Hz].
          -- eapply upd_chan_In in Hz; eauto.
          -- apply msgs_to_In in Hz. eapply node_outs_ok in Hn; eauto.
        * eapply upd_chan_In in Hz; eauto.
      + intros k x z. unfold upd_node. destruct (k =? d) eqn:Ek; simpl; [|apply Hh].
        apply Z.eqb_eq in Ek; subst k. apply Hh.
    - split; simpl.
      + intros x y z Hz. eapply upd_chan_In in Hz; eauto.
      + intros k x z. unfold upd_node. destruct (k =? d) eqn:Ek; simpl; [|apply Hh].
        apply Z.eqb_eq in Ek; subst k. intros Hz. apply in_app_or in Hz as [Hz|[Hz|[]]]; [auto|].
        inversion Hz; subst. apply Hc. rewrite Hcd. left; auto.
  Qed.

  Lemma running_step act (cf : cfg) n :
    w_running (nodes cf n) = true -> w_running (nodes (fst (step P cf act)) n) = true.
  Proof.
    intros Hr. destruct (step_cases act cf) as [E|[(k & _ & _ & outs & _ & E)|[(s & d & m & q & _ & _ & _ & st' & outs & evs & _ & E)|(s & d & m & q & _ & _ & Hd & E)]]];
      rewrite E; clear E; auto; simpl; unfold upd_node; destruct (n =? _) eqn:En; auto.
    apply Z.eqb_eq in En; subst. congruence.
  Qed.

  (* ---- the invariant: what subscriber a knows, or is about to be told, about computation c *)
  Definition J (cf : cfg) (c : Z) : Prop :=
    forall g, In a (Sc (dirst cf) c) -> Dc (dirst cf) c = Some g ->
      (exists ad, last_opt (cn c (chan cf 0 a)) = Some (MPubComp c g (Some ad)))
      \/ (cn c (chan cf 0 a) = [] /\ vc (disc cf a) c = Some g)
      \/ existsb (aboutc c) (chan cf a 0) = true.

  (* the guard (negation of finding C20-dir-unknown-agent-address): the directory has an address
     for the agent of every computation it lists *)
  Definition addr_ok (cf : cfg) : Prop :=
    forall c g, Dc (dirst cf) c = Some g -> zmemk g (g_agents (n_dir (dirst cf))) = true.

  Definition INV (cf : cfg) : Prop :=
    w_running (nodes cf 0) = true /\ w_running (nodes cf a) = true /\ msgs_ok cf /\ forall c, J cf c.

  Lemma J_frame cf cf' c :
    (In a (Sc (dirst cf') c) -> In a (Sc (dirst cf) c)) ->
    Dc (dirst cf') c = Dc (dirst cf) c ->
    (exists l, chan cf' 0 a = chan cf 0 a ++ l /\ cn c l = []) ->
    vc (disc cf' a) c = vc (disc cf a) c ->
    (existsb (aboutc c) (chan cf a 0) = true -> existsb (aboutc c) (chan cf' a 0) = true) ->
    J cf c -> J cf' c.
  Proof.
    intros HS HD [l [Hl Hn]] Hv HC HJ g Hin Hd. rewrite HD in Hd.
    destruct (HJ g (HS Hin) Hd) as [[ad A]|[[B1 B2]|C]].
    - left. exists ad. rewrite Hl, cn_app, Hn, app_nil_r. auto.
    - right; left. rewrite Hl, cn_app, Hn, app_nil_r, Hv. auto.
    - right; right; auto.
  Qed.

  Lemma J_same cf cf' c :
    dirst cf' = dirst cf -> disc cf' a = disc cf a -> chan cf' 0 a = chan cf 0 a ->
    chan cf' a 0 = chan cf a 0 -> J cf c -> J cf' c.
  Proof.
    intros E1 E2 E3 E4. apply J_frame; rewrite ?E1, ?E2, ?E4; auto.
    exists []. rewrite app_nil_r. auto.
  Qed.

  Lemma zmemk_lookup {V} k (l : list (Z * V)) : zmemk k l = true -> exists v, zlookup k l = Some v.
  Proof. unfold zmemk, mem_key, zlookup. destruct (lookup Z.eqb k l); [eauto|discriminate]. Qed.
  Lemma zmemk_false {V} k (l : list (Z * V)) : zmemk k l = false -> zlookup k l = None.
  Proof. unfold zmemk, mem_key, zlookup. destruct (lookup Z.eqb k l); [discriminate|auto]. Qed.

  Lemma nocomp_cn c outs : nocomp outs -> cn c (msgs_to a outs) = [].
  Proof. intros H. apply cn_nil_iff. intros x Hx. apply msgs_to_In in Hx. apply H in Hx. apply Hx. Qed.

  Lemma existsb_tail c (m : msg) q : aboutc c m = false ->
    existsb (aboutc c) (m :: q) = true -> existsb (aboutc c) q = true.
  Proof. simpl. intros ->. auto. Qed.

  Lemma J_dir_step cf cf' s m q c :
    (forall c, J cf c) -> okmsg m = true -> chan cf s 0 = m :: q ->
    dirst cf' = rS (dir_recv (dirst cf) s m) ->
    disc cf' a = disc cf a ->
    chan cf' 0 a = chan cf 0 a ++ msgs_to a (rO (dir_recv (dirst cf) s m)) ->
    chan cf' a 0 = (if a =? s then q else chan cf a 0) ->
    addr_ok cf' -> J cf' c.
  Proof.
    intros HJ Hok Hcs Hd Hv H0a Ha0 Haddr.
    (* the generic situation: nothing about c happens *)
    assert (Frame : aboutc c m = false ->
                    (In a (Sc (rS (dir_recv (dirst cf) s m)) c) -> In a (Sc (dirst cf) c)) ->
                    Dc (rS (dir_recv (dirst cf) s m)) c = Dc (dirst cf) c ->
                    cn c (msgs_to a (rO (dir_recv (dirst cf) s m))) = [] -> J cf' c).
    { intros Hab HS HD Hn. apply (J_frame cf); rewrite ?Hd, ?Hv; auto.
      - eexists; split; [exact H0a|exact Hn].
      - rewrite Ha0. destruct (a =? s) eqn:E; auto. apply Z.eqb_eq in E; subst s.
        rewrite Hcs. apply existsb_tail; auto. }
    unfold Sc, Dc in *. fold (gsc (rS (dir_recv (dirst cf) s m))) in *. fold (gc (rS (dir_recv (dirst cf) s m))) in *.
    fold (gsc (dirst cf)) in *. fold (gc (dirst cf)) in *.
    destruct m as [o|x ad|l|x|x b|c1 g1 [ad|]|c1 [g1|]|c1 [|]|r g1 b|r b]; try discriminate;
      try (destruct (dir_other (dirst cf) s _ Hok) as (E1 & E2 & E3);
           [intros; reflexivity|intros; discriminate|];
           apply Frame; [reflexivity|rewrite E2; auto|rewrite E1; auto|apply nocomp_cn; auto]).
    - (* publish_computation c1 *)
      destruct (dir_pubcomp (dirst cf) s c1 g1 ad) as (E1 & E2 & E3).
      destruct (Z.eq_dec c1 c) as [->|Hne].
      + intros g Hin HD. rewrite Hd in Hin, HD. unfold Sc, Dc in Hin, HD.
        fold (gsc (rS (dir_recv (dirst cf) s (MPubComp c g1 (Some ad))))) in Hin.
        fold (gc (rS (dir_recv (dirst cf) s (MPubComp c g1 (Some ad))))) in HD.
        rewrite E2 in Hin. rewrite E1, zlookup_zset_same in HD. inversion HD; subst g1.
        left. exists ad. rewrite H0a, E3. apply last_all_same.
        * intros Hnil. assert (Hx : In (MPubComp c g (Some ad)) (msgs_to a (to_all (sm_get c (gsc (dirst cf))) (MPubComp c g (Some ad))))).
          { apply msgs_to_In. unfold to_all. apply in_map_iff. exists a. auto. }
          rewrite Hnil in Hx. contradiction.
        * intros x Hx. apply msgs_to_In in Hx. apply to_all_In in Hx. tauto.
        * simpl. apply Z.eqb_refl.
      + apply Frame.
        * simpl. now apply Z.eqb_neq.
        * rewrite E2; auto.
        * rewrite E1. apply zlookup_zset_other; congruence.
        * rewrite E3. apply cn_nil_iff. intros x Hx. apply msgs_to_In in Hx. apply to_all_In in Hx as [_ ->].
          simpl. now apply Z.eqb_neq.
    - (* unpublish_computation c1 *)
      destruct (dir_unpubcomp (dirst cf) s c1) as (E2 & [(Hk & E1 & o1 & E3 & Ho)|(Hk & E1 & E3)]).
      + destruct (Z.eq_dec c1 c) as [->|Hne].
        * intros g Hin HD. rewrite Hd in HD. unfold Dc in HD.
          fold (gc (rS (dir_recv (dirst cf) s (MUnpubComp c None)))) in HD.
          rewrite E1, zlookup_zdel_same in HD. discriminate.
        * apply Frame.
          -- simpl. now apply Z.eqb_neq.
          -- rewrite E2; auto.
          -- rewrite E1. apply zlookup_zdel_other; congruence.
          -- rewrite E3. apply cn_nil_iff. intros x Hx. apply msgs_to_In in Hx. apply in_app_or in Hx as [Hx|Hx].
             ++ apply to_self_In in Hx as [Hx _]. lia.
             ++ apply to_all_In in Hx as [_ ->]. simpl. now apply Z.eqb_neq.
      + destruct (Z.eq_dec c1 c) as [->|Hne].
        * intros g Hin HD. rewrite Hd, E1 in HD. unfold Dc in HD. fold (gc (dirst cf)) in HD.
          rewrite (zmemk_false _ _ Hk) in HD. discriminate.
        * apply Frame.
          -- simpl. now apply Z.eqb_neq.
          -- rewrite E2; auto.
          -- rewrite E1. auto.
          -- rewrite E3. reflexivity.
    - (* subscribe_computation c1 from s *)
      destruct (dir_subcomp_true (dirst cf) s c1) as (E1 & E2 & E3).
      destruct (Z.eq_dec c1 c) as [->|Hne].
      + destruct (Z.eq_dec s a) as [->|Hsa].
        * intros g Hin HD. pose proof (Haddr c g HD) as Hadr.
          rewrite Hd in HD, Hadr. unfold Dc in HD.
          fold (gc (rS (dir_recv (dirst cf) a (MSubComp c true)))) in HD. rewrite E1 in HD.
          assert (Hag : g_agents (n_dir (rS (dir_recv (dirst cf) a (MSubComp c true)))) = g_agents (n_dir (dirst cf)))
            by reflexivity.
          rewrite Hag in Hadr. apply zmemk_lookup in Hadr as [adr Hadr].
          left. exists adr. rewrite H0a, E3, HD, Hadr.
          apply last_all_same.
          -- unfold msgs_to. simpl. rewrite Z.eqb_refl. discriminate.
          -- unfold msgs_to. simpl. rewrite Z.eqb_refl. simpl. intuition.
          -- simpl. apply Z.eqb_refl.
        * apply Frame.
          -- reflexivity.
          -- rewrite E2. intros Hin. apply sm_add_In in Hin as [[_ Hin]|Hin]; auto. congruence.
          -- rewrite E1; auto.
          -- rewrite E3. apply cn_nil_iff. intros x Hx. apply msgs_to_In in Hx.
             destruct (zlookup c (gc (dirst cf))); [|contradiction].
             destruct (zlookup z _); [|contradiction]. destruct Hx as [Hx|[]]. inversion Hx. congruence.
      + apply Frame.
        * reflexivity.
        * rewrite E2. unfold sm_add. rewrite sm_get_put_other; auto.
        * rewrite E1; auto.
        * rewrite E3. apply cn_nil_iff. intros x Hx. apply msgs_to_In in Hx.
          destruct (zlookup c1 (gc (dirst cf))); [|contradiction].
          destruct (zlookup z _); [|contradiction]. destruct Hx as [Hx|[]]. inversion Hx; subst.
          simpl. now apply Z.eqb_neq.
    - (* unsubscribe *)
      destruct (dir_subcomp_false (dirst cf) s c1) as (E1 & E2 & E3).
      apply Frame.
      + reflexivity.
      + rewrite E2. apply sm_del_In.
      + rewrite E1; auto.
      + rewrite E3. reflexivity.
  Qed.

  Lemma J_agent_step cf cf' s m q c :
    (forall c, J cf c) -> okmsg m = true -> (s <> 0 -> is_op m = true) ->
    chan cf s a = m :: q ->
    dirst cf' = dirst cf ->
    disc cf' a = rS (disc_recv (disc cf a) m) ->
    chan cf' 0 a = (if 0 =? s then q else chan cf 0 a) ->
    chan cf' a 0 = chan cf a 0 ++ rO (disc_recv (disc cf a) m) ->
    J cf' c.
  Proof.
    intros HJ Hok Hop Hcs Hd Hv H0a Ha0 g Hin HD. rewrite Hd in Hin, HD.
    specialize (HJ c g Hin HD).
    assert (HC : existsb (aboutc c) (chan cf a 0) = true -> existsb (aboutc c) (chan cf' a 0) = true).
    { intros H. rewrite Ha0, existsb_app, H. auto. }
    assert (Keep : cn c (chan cf' 0 a) = cn c (chan cf 0 a) -> vc (disc cf' a) c = vc (disc cf a) c ->
      (exists ad, last_opt (cn c (chan cf' 0 a)) = Some (MPubComp c g (Some ad)))
      \/ (cn c (chan cf' 0 a) = [] /\ vc (disc cf' a) c = Some g)
      \/ existsb (aboutc c) (chan cf' a 0) = true).
    { intros E1 E2. destruct HJ as [[ad A]|[[B1 B2]|C]];
        [left; exists ad; rewrite E1; auto | right; left; rewrite E1, E2; auto | right; right; auto]. }
    assert (OpC : forall o, m = MOp o -> cn c (chan cf' 0 a) = cn c (chan cf 0 a) ->
      (exists ad, last_opt (cn c (chan cf' 0 a)) = Some (MPubComp c g (Some ad)))
      \/ (cn c (chan cf' 0 a) = [] /\ vc (disc cf' a) c = Some g)
      \/ existsb (aboutc c) (chan cf' a 0) = true).
    { intros o Em E1. subst m. destruct (disc_recv_op (disc cf a) o c Hok) as [Hs|[x [Hx Hab]]].
      - apply Keep; auto. rewrite Hv. auto.
      - right; right. rewrite Ha0, existsb_app. apply orb_true_iff. right. apply existsb_exists. eauto. }
    destruct (0 =? s) eqn:Es.
    - apply Z.eqb_eq in Es; subst s. rewrite Hcs in HJ.
      destruct (aboutc c m) eqn:Eab.
      + unfold cn in HJ. simpl in HJ. rewrite Eab in HJ. fold (cn c q) in HJ.
        destruct HJ as [[ad A]|[[B1 B2]|C]].
        * destruct (cn c q) as [|y r] eqn:Eq.
          -- simpl in A. inversion A; subst m. right; left. rewrite H0a. split; auto.
             rewrite Hv. apply disc_recv_pub.
          -- left. exists ad. rewrite H0a, Eq. rewrite last_opt_cons in A by discriminate. exact A.
        * discriminate B1.
        * right; right; auto.
      + assert (E1 : cn c (chan cf' 0 a) = cn c (chan cf 0 a)).
        { rewrite H0a, Hcs. unfold cn. simpl. now rewrite Eab. }
        destruct (is_op m) eqn:Eo.
        * destruct m; try discriminate. eapply OpC; eauto.
        * apply Keep; auto. rewrite Hv. apply disc_recv_frame; auto.
          destruct m; simpl in *; auto; discriminate.
    - assert (Hs : s <> 0) by (apply Z.eqb_neq in Es; congruence).
      specialize (Hop Hs). destruct m; try discriminate. eapply OpC; eauto. now rewrite H0a.
  Qed.

  Lemma upd_node_other (f : node -> nwrap nst msg) n w x : x <> n -> upd_node f n w x = f x.
  Proof. unfold upd_node. intros H. apply Z.eqb_neq in H. now rewrite H. Qed.
  Lemma upd_node_same (f : node -> nwrap nst msg) n w : upd_node f n w n = w.
  Proof. unfold upd_node. now rewrite Z.eqb_refl. Qed.
  Lemma upd_chan_other (c : node -> node -> list msg) s d l x y : y <> d -> upd_chan c s d l x y = c x y.
  Proof. unfold upd_chan. intros H. apply Z.eqb_neq in H. now rewrite H, andb_false_r. Qed.
  Lemma upd_chan_at (c : node -> node -> list msg) s d l x :
    upd_chan c s d l x d = if x =? s then l else c x d.
  Proof. unfold upd_chan. now rewrite Z.eqb_refl, andb_true_r. Qed.

  (* one step of the network preserves the invariant as long as the guard holds afterwards *)
  Lemma INV_step act cf : INV cf -> addr_ok (fst (step P cf act)) -> INV (fst (step P cf act)).
  Proof.
    intros (R0 & Ra & Hm & HJ) Haddr.
    split; [now apply running_step|]. split; [now apply running_step|]. split; [now apply msgs_ok_step|].
    intros c. destruct Hm as [Hc Hh].
    destruct (step_cases act cf) as [E|[(n & _ & Hr & outs & Ho & E)|[(s & d & m & q & _ & Hcd & Hr & st' & outs & evs & Hn & E)|(s & d & m & q & _ & Hcd & Hr & E)]]].
    - rewrite E. apply HJ.
    - assert (n <> 0) by (intros ->; congruence). assert (n <> a) by (intros ->; congruence).
      rewrite E. apply (J_same cf); auto; unfold dirst, disc; simpl.
      + rewrite upd_node_other; auto.
      + rewrite upd_node_other; auto.
      + rewrite reinject_all_other, send_all_spec by auto.
        assert (E0 : (0 =? n) = false) by (apply Z.eqb_neq; auto). now rewrite E0.
      + rewrite reinject_all_other, send_all_spec by auto.
        assert (E0 : (a =? n) = false) by (apply Z.eqb_neq; auto). now rewrite E0.
    - assert (Hok : okmsg m = true) by (apply (Hc s d); rewrite Hcd; left; auto).
      destruct (Z.eq_dec d 0) as [->|Hd0]; [|destruct (Z.eq_dec d a) as [->|Hda]].
      + (* the directory handles a message *)
        unfold node_recv in Hn. simpl in Hn.
        destruct (dir_recv (w_st (nodes cf 0)) s m) as [[[st1 o1] e1] x1] eqn:Ed.
        inversion Hn; subst st' outs evs; clear Hn.
        apply (J_dir_step cf _ s m q); auto; unfold dirst, disc.
        * rewrite E. simpl. rewrite ?upd_node_same. simpl. now rewrite Ed.
        * rewrite E. simpl. rewrite upd_node_other by lia. reflexivity.
        * rewrite E. simpl. rewrite send_all_spec. simpl. rewrite upd_chan_other by lia. now rewrite Ed.
        * rewrite E. simpl. rewrite send_all_spec.
          assert (E0 : (a =? 0) = false) by (apply Z.eqb_neq; lia). rewrite E0. apply upd_chan_at.
      + (* agent a handles a message or executes an operation *)
        unfold node_recv in Hn.
        assert (E0 : (a =? 0) = false) by (apply Z.eqb_neq; lia). rewrite E0 in Hn.
        assert (E1 : (0 <? a) = true) by (apply Z.ltb_lt; lia). rewrite E1 in Hn.
        destruct (disc_recv (n_disc (w_st (nodes cf a))) m) as [[[d1 o1] e1] x1] eqn:Ed.
        inversion Hn; subst st' outs evs; clear Hn.
        apply (J_agent_step cf _ s m q); auto; unfold dirst, disc.
        * intros Hs. apply (Hc s a); [rewrite Hcd; left; auto|auto|lia].
        * rewrite E. simpl. rewrite upd_node_other by lia. reflexivity.
        * rewrite E. simpl. rewrite ?upd_node_same. simpl. now rewrite Ed.
        * rewrite E. simpl. rewrite send_all_spec.
          assert (E2 : (0 =? a) = false) by (apply Z.eqb_neq; lia). rewrite E2. apply upd_chan_at.
        * rewrite E. simpl. rewrite send_all_spec, Z.eqb_refl, upd_chan_other by lia.
          rewrite msgs_to_self. simpl. now rewrite Ed.
      + (* another node *)
        rewrite E. apply (J_same cf); auto; unfold dirst, disc; simpl.
        * rewrite upd_node_other; auto.
        * rewrite upd_node_other; auto.
        * rewrite send_all_spec. assert (E0 : (0 =? d) = false) by (apply Z.eqb_neq; auto).
          rewrite E0. apply upd_chan_other; auto.
        * rewrite send_all_spec. assert (E0 : (a =? d) = false) by (apply Z.eqb_neq; auto).
          rewrite E0. apply upd_chan_other; auto.
    - assert (d <> 0) by (intros ->; congruence). assert (d <> a) by (intros ->; congruence).
      rewrite E. apply (J_same cf); auto; unfold dirst, disc; simpl.
      + rewrite upd_node_other; auto.
      + rewrite upd_node_other; auto.
      + apply upd_chan_other; auto.
      + apply upd_chan_other; auto.
  Qed.

  (* the guard holds after every action of the schedule *)
  Fixpoint guard_along (cf : cfg) (sched : list action) : Prop :=
    match sched with
    | [] => True
    | act :: r => addr_ok (fst (step P cf act)) /\ guard_along (fst (step P cf act)) r
    end.

  Lemma exec_cons (cf : cfg) act r : fst (exec P cf (act :: r)) = fst (exec P (fst (step P cf act)) r).
  Proof.
    simpl. destruct (step P cf act) as [cf1 e1]. simpl. destruct (exec P cf1 r) as [cf2 e2]. reflexivity.
  Qed.

  Lemma INV_exec sched : forall cf, INV cf -> guard_along cf sched -> INV (fst (exec P cf sched)).
  Proof.
    induction sched as [|act r IH]; intros cf HI HG; [exact HI|].
    rewrite exec_cons. destruct HG as [G1 G2]. apply IH; auto. apply INV_step; auto.
  Qed.

  Lemma INV_quiet cf c g : INV cf -> In a (Sc (dirst cf) c) -> Dc (dirst cf) c = Some g ->
    chan cf 0 a = [] -> chan cf a 0 = [] -> vc (disc cf a) c = Some g.
  Proof.
    intros (_ & _ & _ & HJ) Hin HD E1 E2. destruct (HJ c g Hin HD) as [[ad A]|[[B1 B2]|C]]; auto.
    - rewrite E1 in A. discriminate.
    - rewrite E2 in C. discriminate.
  Qed.

  (* ---- the configurations the runtime starts from: every node of [ns] started, nothing sent *)
  Definition Kinit (cf : cfg) : Prop :=
    (forall n, w_held (nodes cf n) = [] /\ w_st (nodes cf n) = init_nst n) /\
    (forall s d m, In m (chan cf s d) -> exists o, m = MOp o /\ frag o = true /\ s < 0 /\ d = - s).

  Lemma Kinit_start n cf : Kinit cf -> Kinit (fst (step P cf (Start n))).
  Proof.
    intros [Kn Kc]. destruct (step_cases (Start n) cf) as [E|[(k & Ek & Hr & outs & Ho & E)|[(s & d & m & q & Ek & _)|(s & d & m & q & Ek & _)]]];
      try discriminate; rewrite E; clear E; [split; auto|].
    inversion Ek; subst k. split; simpl.
    - intros x. unfold upd_node. destruct (x =? n) eqn:Ex; simpl; [|apply Kn].
      apply Z.eqb_eq in Ex; subst x. split; auto. apply Kn.
    - intros x y z Hz. destruct (Kn n) as [Hh _]. rewrite Hh in Hz. unfold reinject in Hz. simpl in Hz.
      rewrite send_all_spec in Hz. destruct (x =? n) eqn:Ex; [|auto].
      apply Z.eqb_eq in Ex; subst x. apply in_app_or in Hz as [Hz|Hz]; [auto|].
      apply msgs_to_In in Hz. destruct Ho as [->|[Hn ->]]; [contradiction|].
      apply in_map_iff in Hz as [o [Eo Hin]]. inversion Eo; subst. exists o. repeat split; auto.
      eapply hist_ok; eauto.
  Qed.

  Lemma running_exec sched : forall (cf : cfg) n,
    w_running (nodes cf n) = true -> w_running (nodes (fst (exec P cf sched)) n) = true.
  Proof.
    induction sched as [|act r IH]; intros cf n H; auto. rewrite exec_cons. apply IH. now apply running_step.
  Qed.

  Lemma starts_spec ns : forall cf, Kinit cf ->
    Kinit (fst (exec P cf (map Start ns)))
    /\ forall n, In n ns -> w_running (nodes (fst (exec P cf (map Start ns))) n) = true.
  Proof.
    induction ns as [|k r IH]; intros cf HK; [split; auto; intros n []|].
    change (map Start (k :: r)) with (Start k :: map (@Start) r). rewrite exec_cons.
    destruct (IH _ (Kinit_start k cf HK)) as [K1 K2]. split; auto.
    intros n [->|Hn]; auto. apply running_exec.
    unfold step. destruct (w_running (nodes cf n)) eqn:Er; [simpl; exact Er|].
    cbn [p_start disc_proto]. destruct (disc_start h n (w_st (nodes cf n))) as [[st' o] e]. simpl.
    now rewrite upd_node_same.
  Qed.

  Lemma Kinit_init : Kinit (init P).
  Proof. split; simpl; auto. intros s d m []. Qed.

  Lemma Kinit_INV cf : Kinit cf -> w_running (nodes cf 0) = true -> w_running (nodes cf a) = true -> INV cf.
  Proof.
    intros [Kn Kc] R0 Ra. repeat split; auto.
    - apply Kc in H as (o & -> & Hf & _). exact Hf.
    - apply Kc in H as (o & -> & _). reflexivity.
    - destruct (Kn n) as [Hh _]. rewrite Hh in H. contradiction.
    - destruct (Kn n) as [Hh _]. rewrite Hh in H. contradiction.
    - intros c g Hin. unfold Sc, dirst in Hin. destruct (Kn 0) as [_ Hs]. rewrite Hs in Hin. contradiction.
  Qed.
End Inv.

(* the two results of Part 3, for every history, subscriber, start order and schedule *)
Lemma disc_comp_inv_l : forall (h : hist_t) (a : Z) (ns : list node) (sched : list (@action)),
  (forall k o, In o (hist_of h k) -> frag o = true) -> 0 < a -> In 0 ns -> In a ns ->
  let P := disc_proto h in
  let cf0 := fst (exec P (init P) (map (@Start) ns)) in
  guard_along h cf0 sched ->
  INV a (fst (exec P cf0 sched)).
Proof.
  intros h a ns sched Hh Ha H0 Hna P cf0 HG.
  destruct (starts_spec h Hh ns (init P) (Kinit_init h)) as [K R].
  apply INV_exec; auto. apply Kinit_INV; auto.
Qed.

Lemma disc_comp_converges_l : forall (h : hist_t) (a : Z) (ns : list node) (sched : list (@action)),
  (forall k o, In o (hist_of h k) -> frag o = true) -> 0 < a -> In 0 ns -> In a ns ->
  let P := disc_proto h in
  let cf0 := fst (exec P (init P) (map (@Start) ns)) in
  guard_along h cf0 sched ->
  let cf := fst (exec P cf0 sched) in
  forall c g,
    In a (sm_get c (g_sub_comps (n_dir (w_st (nodes cf 0))))) ->
    zlookup c (g_comps (n_dir (w_st (nodes cf 0)))) = Some g ->
    chan cf 0 a = [] -> chan cf a 0 = [] ->
    zlookup c (d_comps (n_disc (w_st (nodes cf a)))) = Some g.
Proof.
  intros h a ns sched Hh Ha H0 Hna P cf0 HG cf c g Hin HD E1 E2.
  eapply (INV_quiet a); eauto. apply disc_comp_inv_l; auto.
Qed.

(* ------------------------------------------------------------------ Part 4 *)
(* a computable sufficient check of the guard *)
Definition addr_okb (cf : config nst msg) : bool :=
  forallb (fun p => zmemk (snd p) (g_agents (n_dir (w_st (nodes cf 0))))) (g_comps (n_dir (w_st (nodes cf 0)))).

Fixpoint guard_alongb (h : hist_t) (cf : config nst msg) (sched : list (@action)) : bool :=
  match sched with
  | [] => true
  | act :: r => addr_okb (fst (step (disc_proto h) cf act)) && guard_alongb h (fst (step (disc_proto h) cf act)) r
  end.

Lemma zlookup_In {V} k (v : V) l : zlookup k l = Some v -> In (k, v) l.
Proof.
  unfold zlookup. induction l as [|[k' v'] r IH]; simpl; [discriminate|].
  destruct (k =? k') eqn:E; intros H.
  - apply Z.eqb_eq in E. inversion H; subst. auto.
  - auto.
Qed.

Lemma addr_okb_sound cf : addr_okb cf = true -> addr_ok cf.
Proof.
  unfold addr_okb, addr_ok, Dc, dirst. intros H c g HD. apply zlookup_In in HD.
  rewrite forallb_forall in H. apply (H (c, g) HD).
Qed.

Lemma guard_alongb_sound h sched : forall cf, guard_alongb h cf sched = true -> guard_along h cf sched.
Proof.
  induction sched as [|act r IH]; intros cf H; simpl in *; auto.
  apply andb_true_iff in H as [H1 H2]. split; [now apply addr_okb_sound|auto].
Qed.

(* ---- callbacks: a notification that changes the local entry fires every callback registered
        for the item (one event per registration, the directory-wide ones for agents too) *)
Notation rE r := (snd (fst r)).

Lemma bind_E r f : rE (bind r f) = match rX r with Some _ => rE r | None => rE r ++ rE (f (rS r)) end.
Proof. destruct r as [[[s o] e] [x|]]; simpl; auto. unfold bind. destruct (f s) as [[[s' o'] e'] x']; reflexivity. Qed.

Lemma reg_agent_ccbs s a ad p : d_ccbs (rS (d_register_agent s a ad p)) = d_ccbs s.
Proof. unfold d_register_agent. dm; reflexivity. Qed.
Lemma reg_agent_own s a ad p : d_own (rS (d_register_agent s a ad p)) = d_own s.
Proof. unfold d_register_agent. dm; reflexivity. Qed.

Lemma neq_change (x : option Z) g : x <> Some g -> negb (option_eqb Z.eqb x (Some g)) = true.
Proof.
  destruct x as [z|]; simpl; auto. intros H. destruct (z =? g) eqn:E; auto.
  apply Z.eqb_eq in E. subst. congruence.
Qed.

Lemma fire_In own k n v l cb os : In (cb, os) l -> In (EvCb own cb k n v) (fire own k n v l).
Proof. intros H. unfold fire. apply in_map_iff. exists (cb, os). auto. Qed.

Lemma cb_computation_added_l s c g ad l cb os :
  zlookup c (d_comps s) <> Some g -> zlookup c (d_ccbs s) = Some l -> In (cb, os) l ->
  In (EvCb (d_own s) cb 3 c (Some g)) (rE (disc_recv s (MPubComp c g (Some ad)))).
Proof.
  intros Hne El Hin. simpl. unfold d_register_computation. simpl. rewrite (neq_change _ _ Hne).
  match goal with |- context[bind (if ?b then _ else _) _] => destruct b end; rewrite bind_E.
  - simpl. rewrite El. simpl. eapply fire_In; eauto.
  - rewrite reg_agent_X. apply in_or_app. right. rewrite reg_agent_ccbs. simpl. rewrite El. simpl.
    eapply fire_In; eauto.
Qed.

Lemma cb_computation_removed_l s c k ag l cb os :
  zlookup c (d_comps s) = Some k -> (ag = None \/ ag = Some k) ->
  zlookup c (d_ccbs s) = Some l -> In (cb, os) l ->
  In (EvCb (d_own s) cb 4 c ag) (rE (disc_recv s (MUnpubComp c ag))).
Proof.
  intros Hk Hag El Hin. simpl. unfold d_unregister_computation, get_or_nil. unfold cbl in *. rewrite Hk, El.
  assert (E : match ag with Some g => negb (k =? g) | None => false end = false).
  { destruct Hag as [->| ->]; auto. now rewrite Z.eqb_refl. }
  rewrite E. simpl. eapply fire_In; eauto.
Qed.

Lemma cb_agent_added_l s x ad :
  zlookup x (d_agents s) <> Some ad ->
  (forall l cb os, zlookup x (d_acbs s) = Some l -> In (cb, os) l ->
     In (EvCb (d_own s) cb 1 x (Some ad)) (rE (disc_recv s (MPubAgent x ad)))) /\
  (forall cb, In cb (d_allcbs s) -> In (EvCb (d_own s) cb 1 x (Some ad)) (rE (disc_recv s (MPubAgent x ad)))).
Proof.
  intros Hne. simpl. unfold d_register_agent. rewrite (neq_change _ _ Hne). simpl. split.
  - intros l cb os El Hin. rewrite El. simpl. apply in_or_app. left. eapply fire_In; eauto.
  - intros cb Hin. destruct (zlookup x (d_acbs s)); simpl; [apply in_or_app; right|];
      unfold fire_all; apply in_map_iff; eauto.
Qed.

Lemma cb_replica_added_l s r g l cb os :
  zmemk r (d_comps s) = true -> ~ In g (get_or_nil r (d_reps s)) ->
  zlookup r (d_rcbs s) = Some l -> In (cb, os) l ->
  In (EvCb (d_own s) cb 5 r (Some g)) (rE (disc_recv s (MPubRep r g true))).
Proof.
  intros Hk Hn El Hin. simpl. unfold d_register_replica. rewrite Hk. simpl.
  assert (E : zmem g (get_or_nil r (d_reps s)) = false).
  { destruct (zmem g _) eqn:E; auto. apply zmem_In in E. contradiction. }
  rewrite E. simpl. rewrite El. simpl. eapply fire_In; eauto.
Qed.

(* ---- witnesses: the faithful model does NOT satisfy the unguarded statements *)
Definition run_from (h : hist_t) (ns : list node) (sched : list (@action)) : config nst msg :=
  fst (exec (disc_proto h) (fst (exec (disc_proto h) (init (disc_proto h)) (map (@Start) ns))) sched).
Definition fragb (h : hist_t) : bool := forallb (fun p => forallb frag (snd p)) h.
Definition quietb (cf : config nst msg) (ns : list node) : bool :=
  forallb (fun s => forallb (fun d => match chan cf s d with [] => true | _ => false end) ns) ns.

(* (1) without the guard: subscriber 2 asks for computation 0 after agent 1 registered it with its
   address but never registered itself: the directory lists 0 -> 1, 2 is subscribed, nothing is
   in flight, and 2 knows nothing (finding C20-dir-unknown-agent-address) *)
Definition w1_h : hist_t := [(1, [OpRegComp 0 (Some 1) (Some 1001)]); (2, [OpSubComp 0 (Some 1) false])].
Definition w1_ns : list node := [0; 1; 2; -1; -2].
Definition w1_sched := [Deliver (-1) 1; Deliver 1 0; Deliver (-2) 2; Deliver 2 0].

Lemma converges_unguarded_refuted_l :
  exists h a ns sched c g, fragb h = true /\ 0 < a /\ In 0 ns /\ In a ns /\
    let cf := run_from h ns sched in
    quietb cf ns = true /\
    In a (sm_get c (g_sub_comps (n_dir (w_st (nodes cf 0))))) /\
    zlookup c (g_comps (n_dir (w_st (nodes cf 0)))) = Some g /\
    zlookup c (d_comps (n_disc (w_st (nodes cf a)))) = None.
Proof.
  exists w1_h, 2, w1_ns, w1_sched, 0, 1. vm_compute. repeat split; auto.
Qed.

(* (2) with the guard: "the view has no entry the directory does not have" fails: agent 1 registers
   computation 0 (its view and the directory say 0 -> 1), agent 2 un-registers it, then 1 subscribes:
   the directory does not list 0 and answers nothing, 1 keeps its stale entry although subscribed *)
Definition w2_h : hist_t :=
  [(1, [OpRegAgent 1 1001; OpRegComp 0 (Some 1) (Some 1001); OpSubComp 0 (Some 1) false]);
   (2, [OpRegComp 0 (Some 1) (Some 1001); OpUnregComp 0 None])].
Definition w2_sched :=
  [Deliver (-1) 1; Deliver (-1) 1; Deliver 1 0; Deliver 1 0; Deliver (-2) 2; Deliver (-2) 2;
   Deliver 2 0; Deliver 2 0; Deliver 2 0; Deliver 0 0; Deliver 0 0; Deliver (-1) 1; Deliver 1 0].

Lemma removal_agreement_refuted_l :
  exists h a ns sched c g, fragb h = true /\ 0 < a /\ In 0 ns /\ In a ns /\
    guard_alongb h (run_from h ns []) sched = true /\
    let cf := run_from h ns sched in
    quietb cf ns = true /\
    In a (sm_get c (g_sub_comps (n_dir (w_st (nodes cf 0))))) /\
    zlookup c (g_comps (n_dir (w_st (nodes cf 0)))) = None /\
    zlookup c (d_comps (n_disc (w_st (nodes cf a)))) = Some g.
Proof.
  exists w2_h, 1, w1_ns, w2_sched, 0, 1. vm_compute. repeat split; auto 10.
Qed.

(* (3) replicas: subscriber 2 does not list computation 0 itself, the notification of its replica
   raises UnknownComputation in the handler and is lost (finding C20-replica-of-unknown-computation) *)
Definition w3_h : hist_t := [(1, [OpRegComp 0 (Some 1) (Some 1001); OpRegRep 0 1]); (2, [OpSubRep 0 (Some 1) false])].
Definition w3_sched := [Deliver (-2) 2; Deliver 2 0; Deliver (-1) 1; Deliver 1 0; Deliver (-1) 1; Deliver 1 0; Deliver 0 2].

Lemma replica_agreement_refuted_l :
  exists h a ns sched r g, fragb h = true /\ 0 < a /\ In 0 ns /\ In a ns /\
    let cf := run_from h ns sched in
    quietb cf ns = true /\
    In a (sm_get r (g_sub_reps (n_dir (w_st (nodes cf 0))))) /\
    In g (get_or_nil r (d_reps (n_disc (w_st (nodes cf 0))))) /\
    get_or_nil r (d_reps (n_disc (w_st (nodes cf a)))) = [].
Proof.
  exists w3_h, 2, w1_ns, w3_sched, 0, 1. vm_compute. repeat split; auto.
Qed.

(* non-vacuity: a run that meets every hypothesis of the convergence theorem, with its callback *)
Definition ok_h : hist_t := [(1, [OpRegAgent 1 1001; OpRegComp 0 (Some 1) (Some 1001)]); (2, [OpSubComp 0 (Some 7) false])].
Definition ok_sched := [Deliver (-2) 2; Deliver 2 0; Deliver (-1) 1; Deliver 1 0; Deliver (-1) 1; Deliver 1 0; Deliver 0 2].

Lemma fragb_sound h : fragb h = true -> forall k o, In o (hist_of h k) -> frag o = true.
Proof.
  unfold fragb, hist_of, get_or_nil. intros H k o Hin.
  destruct (zlookup k h) as [l|] eqn:E; [|contradiction].
  apply zlookup_In in E. rewrite forallb_forall in H. specialize (H (k, l) E). simpl in H.
  rewrite forallb_forall in H. auto.
Qed.
