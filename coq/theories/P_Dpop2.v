(* P_Dpop2.v -- C01, the all-schedules theorem for DPOP: a global invariant of the network
   (phases of the nodes, at most one UTIL up and one VALUE down per tree edge, meaning of the
   accumulated tables) over the pipe view of Net.v (P_Dpop2Net.v), preserved by every step;
   then: no handler raises, a complete final configuration has every node finished, and the
   selected assignment is optimal. *)
From PyDcop Require Import Base Net M_Dpop P_Dpop P_Dpop2Net P_Dpop2Tree P_Dpop2Aux.
From Coq Require Import ZifyBool Permutation.
Local Open Scope list_scope.

Definition nilb {A} (l : list A) : bool := match l with [] => true | _ => false end.
Lemma nilb_true {A} (l : list A) : nilb l = true <-> l = [].
Proof. destruct l; simpl; split; congruence. Qed.

Section Inv.
  Variable P : dcop.
  Variable dep : Z -> nat.
  Variable B : nat.
  Hypothesis V : dvalid P dep B.
  Let D := dsize P.
  Let m := dc_mode P.
  Notation N := (tree_ids P).
  Notation desc := (desc P dep B).
  Notation OPT := (OPT P dep B).

  (* a UTIL message of node x: dimensions = proper ancestors of x, at least those the costs of
     subtree(x) mention; content = the optimum over subtree(x) *)
  Record GoodUtil (x : Z) (u : rel) : Prop := {
    gu_nd : NoDup (r_dims u);
    gu_up : forall d, In d (r_dims u) -> Anc P d x;
    gu_low : forall y d, In y (desc x) -> In d (sv P [y]) -> Anc P d x -> In d (r_dims u);
    gu_sem : forall a, in_dom D a (r_dims u) -> eval u a = OPT x a
  }.

  Section Abs.
    Variable R : Z -> bool.              (* running *)
    Variable S : Z -> st.                (* DpopAlgo state *)
    Variable Pi : Z -> Z -> list msg.    (* pipes *)

    Definition sent (x : Z) : bool := R x && nilb (s_waited (S x)).
    Definition fin (x : Z) : bool := s_fin (S x).
    Definition selv (d : Z) : Z := match s_value (S d) with Some (v, _) => v | None => 0 end.
    Definition J (x : Z) : rel := s_joined (S x).
    Definition W (x : Z) : list Z := s_waited (S x).

    (* a VALUE message for node c: the variables are the other dimensions of c's table, the
       values are the ones selected by these (finished) variables *)
    Record GoodValue (c : Z) (vars vals : list Z) : Prop := {
      gv_len : List.length vars = List.length vals;
      gv_vars : forall d, In d vars <-> In d (r_dims (J c)) /\ d <> c;
      gv_vals : forall d v, In (d, v) (combine vars vals) -> In d N /\ fin d = true /\ selv d = v
    }.

    Record NodeOK (x : Z) : Prop := {
      n_nd : NoDup (r_dims (J x));
      n_self : In x (r_dims (J x));
      n_up : forall d, In d (r_dims (J x)) -> d = x \/ Anc P d x;
      n_w_in : forall c, In c (W x) -> In c (children P x);
      n_w_nd : NoDup (W x);
      n_low : forall c, In c (children P x) -> ~ In c (W x) ->
              forall y d, In y (desc c) -> In d (sv P [y]) -> Anc P d c -> In d (r_dims (J x));
      n_semA : sent x = false -> forall a, in_dom D a (r_dims (J x)) ->
              eval (J x) a + zsum (map (fun c => OPT c a) (W x))
              = vc P x a + zsum (map (fun c => OPT c a) (children P x));
      n_semB : sent x = true ->
              (forall a, in_dom D a (r_dims (J x)) ->
                 eval (J x) a = local P x a + zsum (map (fun c => OPT c a) (children P x)))
              /\ (forall d, In d (sv P [x]) -> In d (r_dims (J x)))
              /\ (forall p, parent P x = Some p -> In p (r_dims (J x)));
      n_root : sent x = true -> parent P x = None -> fin x = true;
      n_fin : fin x = true ->
              sent x = true /\ exists v k, s_value (S x) = Some (v, k) /\ 0 <= v /\ (Z.to_nat v < D x)%nat
    }.

    (* the tree edge c -> x (x = parent of c) *)
    Record EdgeOK (c x : Z) : Prop := {
      e_up : if sent c && zmem c (W x)
             then exists u, Pi c x = [MUtil u] /\ GoodUtil c u /\
                            (forall d, In d (r_dims u) <-> In d (r_dims (J c)) /\ d <> c)
             else Pi c x = [];
      e_wait : sent c = false -> In c (W x);
      e_sep : ~ In c (W x) -> exists sep, zlookup c (s_csep (S x)) = Some sep /\
               (forall d, In d sep <-> In d (r_dims (J c)) /\ d <> c) /\
               (forall d, In d sep -> In d (r_dims (J x)));
      e_down : if fin x && negb (fin c)
               then exists vars vals, Pi x c = [MValue vars vals] /\ GoodValue c vars vals
               else Pi x c = [];
      e_finpar : fin c = true -> fin x = true
    }.

    Definition ChoiceOK (x : Z) : Prop :=
      (forall d, In d (r_dims (J x)) -> fin d = true) /\
      forall a, (forall d, In d (r_dims (J x)) -> d <> x -> aval a d = Z.to_nat (selv d)) ->
        is_best m (map (fun w => eval (J x) ((x, Z.of_nat w) :: a)) (seq 0 (D x)))
                  (eval (J x) ((x, selv x) :: a)).

    Record InvA : Prop := {
      g_node : forall x, In x N -> NodeOK x;
      g_edge : forall c x, parent P c = Some x -> EdgeOK c x;
      g_other : forall a b, parent P a <> Some b -> parent P b <> Some a -> Pi a b = [];
      g_choice : forall x, In x N -> fin x = true -> ChoiceOK x;
      g_idle : forall x, In x N -> R x = false -> S x = dpop_init P x
    }.
  End Abs.

  (* ---------------------------------------------------------------- *)
  (*  the invariant only looks at tree nodes                            *)
  (* ---------------------------------------------------------------- *)
  Lemma GoodValue_ext S S' c vars vals : In c N -> (forall y, In y N -> S' y = S y) ->
    GoodValue S c vars vals -> GoodValue S' c vars vals.
  Proof.
    intros Hc HS [G1 G2 G3]. constructor; auto.
    - unfold J in *. rewrite HS by auto. exact G2.
    - intros d v Hin. destruct (G3 d v Hin) as (Hd & Hf & Hs). unfold fin, selv in *. rewrite HS by auto. auto.
  Qed.

  Lemma InvA_ext R S Pi R' S' Pi' :
    (forall y, In y N -> R' y = R y) -> (forall y, In y N -> S' y = S y) ->
    (forall a b, Pi' a b = Pi a b) -> InvA R S Pi -> InvA R' S' Pi'.
  Proof.
    intros HR HS HP [G1 G2 G3 G4 G5]. constructor.
    - intros x Hx. destruct (G1 x Hx). constructor; unfold sent, fin, selv, J, W in *;
        rewrite ?HR, ?HS by auto; auto.
    - intros c x Hp. destruct (par_in P dep B V _ _ Hp) as [Hc Hx]. destruct (G2 c x Hp) as [E1 E2 E3 E4 E5].
      constructor; unfold sent, fin, J, W in *; rewrite ?HP; rewrite ?(HR c), ?(HS c), ?(HS x) by auto; auto.
      destruct (s_fin (S x) && negb (s_fin (S c))); auto.
      destruct E4 as (vars & vals & Ep & Hg). exists vars, vals. split; auto. eapply GoodValue_ext; eauto.
    - intros a b H1 H2. rewrite HP. auto.
    - intros x Hx Hf. unfold fin in Hf. rewrite HS in Hf by auto. destruct (G4 x Hx Hf) as [C1 C2].
      pose proof (G1 x Hx) as Nx.
      assert (HdN : forall d, In d (r_dims (J S x)) -> In d N).
      { intros d Hd. destruct (n_up _ _ _ Nx d Hd) as [->|Ha]; auto. apply (anc_in P dep B V _ _ Ha). }
      unfold ChoiceOK, fin, selv, J in *. rewrite (HS x) by auto. split.
      + intros d Hd. rewrite HS by auto. auto.
      + intros a Ha. apply C2. intros d Hd Hne. rewrite <- (HS d) by auto. auto.
    - intros x Hx Hr. rewrite HS by auto. apply G5; auto. rewrite <- HR by auto. exact Hr.
  Qed.

  (* ---------------------------------------------------------------- *)
  (*  frame lemmas                                                      *)
  (* ---------------------------------------------------------------- *)
  Lemma NodeOK_frame R S R' S' y : sent R' S' y = sent R S y -> S' y = S y -> NodeOK R S y -> NodeOK R' S' y.
  Proof.
    intros HR HS []. constructor; rewrite ?HR; unfold fin, selv, J, W in *; rewrite ?HS; auto.
  Qed.

  Lemma GoodValue_frame S S' c vars vals : S' c = S c -> (forall d, fin S d = true -> S' d = S d) ->
    GoodValue S c vars vals -> GoodValue S' c vars vals.
  Proof.
    intros Hc HS [G1 G2 G3]. constructor; auto.
    - unfold J in *. rewrite Hc. exact G2.
    - intros d v Hin. destruct (G3 d v Hin) as (Hd & Hf & Hs). unfold fin, selv in *.
      rewrite (HS d) by exact Hf. auto.
  Qed.

  Lemma EdgeOK_frame R S Pi R' S' Pi' c y :
    sent R' S' c = sent R S c -> S' c = S c -> S' y = S y -> Pi' c y = Pi c y -> Pi' y c = Pi y c ->
    (forall d, fin S d = true -> S' d = S d) ->
    EdgeOK R S Pi c y -> EdgeOK R' S' Pi' c y.
  Proof.
    intros HRc HSc HSy HP1 HP2 Hfin [E1 E2 E3 E4 E5].
    constructor; rewrite ?HRc; unfold fin, J, W in *; rewrite ?HP1, ?HP2, ?HSc, ?HSy; auto.
    destruct (s_fin (S y) && negb (s_fin (S c))); auto.
    destruct E4 as (vars & vals & Ep & Hg). exists vars, vals. split; auto.
    eapply GoodValue_frame; eauto.
  Qed.

  Lemma ChoiceOK_frame S S' y : S' y = S y -> (forall d, fin S d = true -> S' d = S d) ->
    ChoiceOK S y -> ChoiceOK S' y.
  Proof.
    intros Hy HS [C1 C2]. unfold ChoiceOK, fin, selv, J in *. rewrite Hy. split.
    - intros d Hd. rewrite (HS d) by auto. auto.
    - intros a Ha. apply C2. intros d Hd Hne. rewrite <- (HS d) by auto. auto.
  Qed.

  (* ---------------------------------------------------------------- *)
  (*  a step at node x: what has to be re-established                   *)
  (* ---------------------------------------------------------------- *)
  Section Trans.
    Variables (R : Z -> bool) (S : Z -> st) (Pi : Z -> Z -> list msg).
    Variables (R' : Z -> bool) (S' : Z -> st) (Pi' : Z -> Z -> list msg).
    Variable x : Z.
    Variable s' : st.
    Hypothesis I : InvA R S Pi.
    Hypothesis HR' : forall y, R' y = if Z.eqb y x then true else R y.
    Hypothesis HS' : forall y, S' y = if Z.eqb y x then s' else S y.
    Hypothesis Hnf : fin S x = false.
    Hypothesis HPo : forall a b, a <> x -> b <> x -> Pi' a b = Pi a b.

    Lemma R'_other y : y <> x -> R' y = R y.
    Proof. intros H. rewrite HR'. apply Z.eqb_neq in H. rewrite H. reflexivity. Qed.
    Lemma S'_other y : y <> x -> S' y = S y.
    Proof. intros H. rewrite HS'. apply Z.eqb_neq in H. rewrite H. reflexivity. Qed.
    Lemma R'_same : R' x = true.
    Proof. rewrite HR', Z.eqb_refl. reflexivity. Qed.
    Lemma S'_same : S' x = s'.
    Proof. rewrite HS', Z.eqb_refl. reflexivity. Qed.
    Lemma S'_fin d : fin S d = true -> S' d = S d.
    Proof. intros H. apply S'_other. intros ->. congruence. Qed.
    Lemma sent_other y : y <> x -> sent R' S' y = sent R S y.
    Proof. intros H. unfold sent. rewrite R'_other, S'_other by auto. reflexivity. Qed.

    Lemma trans_generic :
      NodeOK R' S' x ->
      (forall c, parent P c = Some x -> EdgeOK R' S' Pi' c x) ->
      (forall p, parent P x = Some p -> EdgeOK R' S' Pi' x p) ->
      (forall a b, (a = x \/ b = x) -> parent P a <> Some b -> parent P b <> Some a -> Pi' a b = []) ->
      (fin S' x = true -> ChoiceOK S' x) ->
      InvA R' S' Pi'.
    Proof.
      intros Hn Hc Hp Ho Hch. destruct I as [G1 G2 G3 G4 G5]. constructor.
      - intros y Hy. destruct (Z.eq_dec y x) as [->|Hne]; auto.
        apply (NodeOK_frame R S); auto using sent_other, S'_other.
      - intros c y Hpar. destruct (Z.eq_dec y x) as [->|Hy]; auto.
        destruct (Z.eq_dec c x) as [->|Hcx]; auto.
        apply (EdgeOK_frame R S Pi); auto using sent_other, S'_other, S'_fin.
      - intros a b H1 H2. destruct (Z.eq_dec a x) as [->|Ha]; auto.
        destruct (Z.eq_dec b x) as [->|Hb]; auto. rewrite HPo; auto.
      - intros y Hy Hf. destruct (Z.eq_dec y x) as [->|Hne]; auto.
        apply (ChoiceOK_frame S); auto using S'_other, S'_fin. apply G4; auto.
        unfold fin in *. rewrite <- (S'_other y) by auto. exact Hf.
      - intros y Hy Hr. destruct (Z.eq_dec y x) as [->|Hne]; [rewrite R'_same in Hr; discriminate|].
        rewrite S'_other by auto. apply G5; auto. rewrite <- R'_other by auto. exact Hr.
    Qed.
  End Trans.

  (* ---------------------------------------------------------------- *)
  (*  state-level facts: accumulating a UTIL, the completed table       *)
  (* ---------------------------------------------------------------- *)
  Definition Rf : Z -> bool := fun _ => false.
  Definition acc_st (s : st) (c0 : Z) (u : rel) : st :=
    mkSt (join D (s_joined s) u) (remove_first c0 (s_waited s))
         (dict_set Z.eqb c0 (r_dims u) (s_csep s)) (s_value s) (s_fin s) (s_late s).

  Lemma Forall2_map_r {A} (Q : A -> Z -> Prop) (f : A -> Z) l :
    (forall c, In c l -> Q c (f c)) -> Forall2 Q l (map f l).
  Proof.
    induction l as [|c r IH]; intros H; simpl; constructor.
    - apply H. left; auto.
    - apply IH. intros c' Hc'. apply H. right; auto.
  Qed.

  Lemma acc_node R S x c0 u : In x N -> NodeOK R S x -> sent R S x = false -> fin S x = false ->
    In c0 (W S x) -> GoodUtil c0 u -> NodeOK Rf (fun _ => acc_st (S x) c0 u) x.
  Proof.
    intros Hx Nx Hs Hf Hc0 Gu.
    pose proof (n_w_in _ _ _ Nx c0 Hc0) as Hch. pose proof (child_par P dep B V _ _ Hch) as Hpar.
    pose proof (n_w_nd _ _ _ Nx) as Hwnd.
    constructor; unfold sent, fin, selv, J, W, Rf in *; cbn [s_joined s_waited s_fin s_value acc_st andb].
    - apply dims_join_nodup. apply (n_nd _ _ _ Nx).
    - apply dims_join. left. apply (n_self _ _ _ Nx).
    - intros d Hd. apply dims_join in Hd. destruct Hd as [Hd|Hd]; [apply (n_up _ _ _ Nx); auto|].
      apply (gu_up _ _ Gu) in Hd. apply anc_inv in Hd. destruct Hd as (b & Hb & Hd).
      rewrite Hpar in Hb. inversion Hb; subst b. destruct Hd; auto.
    - intros c Hc. apply remove_first_in in Hc. apply (n_w_in _ _ _ Nx); auto.
    - apply remove_first_nodup. exact Hwnd.
    - intros c Hc Hnw y d Hy Hd Ha. apply dims_join. destruct (Z.eq_dec c c0) as [->|Hne].
      + right. apply (gu_low _ _ Gu y d); auto.
      + left. apply (n_low _ _ _ Nx c Hc) with (y := y); auto. intros Hin. apply Hnw.
        apply remove_first_iff; auto.
    - intros _ a Ha. rewrite sem_join_l by exact Ha.
      assert (H1 : in_dom D a (r_dims (s_joined (S x)))) by (intros d Hd; apply Ha; apply dims_join; left; auto).
      assert (H2 : in_dom D a (r_dims u)) by (intros d Hd; apply Ha; apply dims_join; right; auto).
      rewrite (gu_sem _ _ Gu a) by auto. pose proof (n_semA _ _ _ Nx Hs a H1) as H.
      unfold J, W in H. rewrite (zsum_remove_first (fun c => OPT c a) c0 _ Hc0) in H. lia.
    - discriminate.
    - discriminate.
    - intros H. congruence.
  Qed.

  (* the table after join_own, from a state that has received all its children's UTILs *)
  Section Full.
    Variable x : Z.
    Variable s1 : st.
    Hypothesis Hx : In x N.
    Hypothesis N1 : NodeOK Rf (fun _ => s1) x.
    Hypothesis Hw : s_waited s1 = [].
    Let J1 := s_joined s1.
    Let jf := join_own P x J1.

    Lemma jf_nd : NoDup (r_dims jf).
    Proof. apply dims_join_own_nodup. apply (n_nd _ _ _ N1). Qed.
    Lemma jf_old d : In d (r_dims J1) -> In d (r_dims jf).
    Proof. intros H. apply dims_join_own_iff. left; auto. Qed.
    Lemma jf_self : In x (r_dims jf).
    Proof. apply jf_old. apply (n_self _ _ _ N1). Qed.
    Lemma jf_up d : In d (r_dims jf) -> d = x \/ Anc P d x.
    Proof.
      intros H. apply dims_join_own_iff in H. destruct H as [H|(k & Hk & H)].
      - apply (n_up _ _ _ N1); auto.
      - apply (dv_sv _ _ _ V); auto. eapply sv_owned; eauto.
    Qed.
    Lemma jf_sv d : In d (sv P [x]) -> In d (r_dims jf).
    Proof.
      intros H. apply sv_cases in H. destruct H as [->|(k & Hk & H)]; [apply jf_self|].
      apply dims_join_own_iff. right. eauto.
    Qed.
    Lemma jf_low c y d : In c (children P x) -> In y (desc c) -> In d (sv P [y]) -> Anc P d c -> In d (r_dims jf).
    Proof.
      intros Hc Hy Hd Ha. apply jf_old. apply (n_low _ _ _ N1 c Hc) with (y := y); auto.
      unfold W. rewrite Hw. intros [].
    Qed.
    Lemma jf_sem a : in_dom D a (r_dims jf) ->
      eval jf a = local P x a + zsum (map (fun c => OPT c a) (children P x)).
    Proof.
      intros Ha. unfold jf. rewrite sem_join_own by exact Ha.
      assert (H1 : in_dom D a (r_dims J1)) by (intros d Hd; apply Ha; apply jf_old; auto).
      pose proof (n_semA _ _ _ N1 eq_refl a H1) as H. unfold J, W in H. rewrite Hw in H. simpl in H.
      unfold local. fold J1 in H. lia.
    Qed.
    Lemma desc_split y : In y (desc x) -> y = x \/ exists c, In c (children P x) /\ In y (desc c).
    Proof.
      rewrite (desc_unfold P dep B V x Hx). intros [H|H]; [left; auto|right]. apply in_flat_map in H. exact H.
    Qed.
    Lemma jf_link p : parent P x = Some p -> In p (r_dims jf).
    Proof.
      intros Hp. destruct (dv_link _ _ _ V x p Hp) as (y & Hy & Hin).
      assert (Hyd : In y (desc x)) by (apply (desc_iff P dep B V); auto).
      apply desc_split in Hyd. destruct Hyd as [->|(c & Hc & Hyc)]; [apply jf_sv; auto|].
      apply (jf_low c y); auto. eapply anc_up; [apply (child_par P dep B V); eauto|]. apply anc_parent; auto.
    Qed.
    Lemma jf_root : parent P x = None -> r_dims jf = [x].
    Proof.
      intros Hp. apply nodup_all_eq; [apply jf_nd|apply jf_self|].
      intros d Hd. destruct (jf_up d Hd) as [->|Ha]; auto. exfalso. exact (anc_root P _ _ Hp Ha).
    Qed.

    Lemma util_good p u : parent P x = Some p -> projection D jf x m = Some u ->
      GoodUtil x u /\ (forall d, In d (r_dims u) <-> In d (r_dims jf) /\ d <> x).
    Proof.
      intros Hp Ep.
      assert (Hdu : forall d, In d (r_dims u) <-> In d (r_dims jf) /\ d <> x).
      { intros d. rewrite (dims_projection D _ _ _ _ Ep). apply remove_first_iff. apply jf_nd. }
      split; [|exact Hdu]. constructor.
      - rewrite (dims_projection D _ _ _ _ Ep). apply remove_first_nodup. apply jf_nd.
      - intros d Hd. apply Hdu in Hd. destruct Hd as [Hd Hne]. destruct (jf_up d Hd); [contradiction|auto].
      - intros y d Hy Hd Ha. apply Hdu. split.
        + apply desc_split in Hy. destruct Hy as [->|(c & Hc & Hyc)]; [apply jf_sv; auto|].
          apply (jf_low c y); auto. eapply anc_up; [apply (child_par P dep B V); eauto|exact Ha].
        + intros ->. exact (anc_irrefl P dep B V _ Ha).
      - intros a Ha.
        assert (Hsu : send_util P x s1 = (set_joined s1 jf, [(p, MUtil u)], [EvUtil x p u])).
        { unfold send_util. fold J1 jf. fold D m. rewrite Ep, Hp. reflexivity. }
        apply (is_best_unique m (map (cost_in P (desc x)) (ext P (desc x) a))); [|apply (OPT_best P dep B V); auto].
        apply (util_step_flat P desc x s1 _ _ _ p u a Hsu); auto.
        + left; auto.
        + apply (dv_dom _ _ _ V); auto.
        + apply (desc_unfold P dep B V); auto.
        + apply (dv_chnd _ _ _ V).
        + apply (tree_own P dep B V); auto.
        + apply (tree_dis P dep B V).
        + intros v Hv. exists (map (fun c => OPT c ((x, Z.of_nat v) :: a)) (children P x)). split.
          * assert (Hin : in_dom D ((x, Z.of_nat v) :: a) (r_dims jf)).
            { apply in_dom_cons_remove; auto. rewrite <- (dims_projection D _ _ _ _ Ep). exact Ha. }
            assert (H1 : in_dom D ((x, Z.of_nat v) :: a) (r_dims J1)) by (intros d Hd; apply Hin; apply jf_old; auto).
            pose proof (n_semA _ _ _ N1 eq_refl _ H1) as H. unfold J, W in H. rewrite Hw in H.
            cbn [map zsum] in H. cbv beta in H. lia.
          * apply Forall2_map_r. intros c Hc. apply (OPT_best P dep B V).
            apply (child_in P dep B V _ _ Hc).
    Qed.
  End Full.

  (* ---------------------------------------------------------------- *)
  (*  what a non-empty pipe can contain                                 *)
  (* ---------------------------------------------------------------- *)
  Lemma par_dec (a b : Z) : {parent P a = Some b} + {parent P a <> Some b}.
  Proof. destruct (parent P a) as [p|]; [|right; discriminate]. destruct (Z.eq_dec p b); [left|right]; congruence. Qed.

  Lemma par_neq c x : parent P c = Some x -> c <> x.
  Proof. intros H ->. exact (anc_irrefl P dep B V x (anc_parent P _ _ H)). Qed.
  Lemma par_par_neq c x p : parent P c = Some x -> parent P x = Some p -> c <> p.
  Proof.
    intros H1 H2 ->. apply (anc_irrefl P dep B V x). eapply anc_up; [exact H2|]. apply anc_parent; exact H1.
  Qed.

  Section PipeInv.
    Variables (R : Z -> bool) (S : Z -> st) (Pi : Z -> Z -> list msg).
    Hypothesis I : InvA R S Pi.

    Lemma pipe_edge a b : Pi a b <> [] -> parent P a = Some b \/ parent P b = Some a.
    Proof.
      intros H. destruct (par_dec a b); auto. destruct (par_dec b a); auto.
      exfalso. apply H. apply (g_other _ _ _ I); auto.
    Qed.

    Lemma up_pipe_inv c x mm q : parent P c = Some x -> Pi c x = mm :: q ->
      sent R S c = true /\ In c (W S x) /\ q = [] /\
      exists u, mm = MUtil u /\ GoodUtil c u /\ (forall d, In d (r_dims u) <-> In d (r_dims (J S c)) /\ d <> c).
    Proof.
      intros Hp Hpi. pose proof (e_up _ _ _ _ _ (g_edge _ _ _ I c x Hp)) as H.
      destruct (sent R S c) eqn:Es; [|simpl in H; congruence].
      destruct (zmem c (W S x)) eqn:Ez; [|simpl in H; congruence]. simpl in H.
      destruct H as (u & Hu & Hg & Hl). rewrite Hu in Hpi. inversion Hpi; subst.
      apply zmem_In in Ez. repeat split; auto. exists u. auto.
    Qed.

    Lemma down_pipe_inv x p mm q : parent P x = Some p -> Pi p x = mm :: q ->
      fin S p = true /\ fin S x = false /\ q = [] /\
      exists vars vals, mm = MValue vars vals /\ GoodValue S x vars vals.
    Proof.
      intros Hp Hpi. pose proof (e_down _ _ _ _ _ (g_edge _ _ _ I x p Hp)) as H.
      destruct (fin S p) eqn:Ef; [|simpl in H; congruence].
      destruct (fin S x) eqn:Ex; [simpl in H; congruence|]. simpl in H.
      destruct H as (vars & vals & Hu & Hg). rewrite Hu in Hpi. inversion Hpi; subst.
      repeat split; auto. exists vars, vals. auto.
    Qed.

    Lemma waiting_not_sent x c : In x N -> In c (W S x) -> sent R S x = false /\ fin S x = false.
    Proof.
      intros Hx Hc. assert (Hs : sent R S x = false).
      { unfold sent. unfold W in Hc. destruct (s_waited (S x)); [destruct Hc|]. simpl. apply andb_false_r. }
      split; auto. destruct (fin S x) eqn:Ef; auto.
      destruct (n_fin _ _ _ (g_node _ _ _ I x Hx) Ef) as [H _]. congruence.
    Qed.

    Lemma fin_sent x : In x N -> fin S x = true -> sent R S x = true /\ W S x = [].
    Proof.
      intros Hx Hf. destruct (n_fin _ _ _ (g_node _ _ _ I x Hx) Hf) as [H _]. split; auto.
      unfold sent in H. apply andb_true_iff in H. destruct H as [_ H]. apply nilb_true in H. exact H.
    Qed.

    Lemma not_sent_not_fin x : In x N -> sent R S x = false -> fin S x = false.
    Proof.
      intros Hx Hs. destruct (fin S x) eqn:Ef; auto. destruct (fin_sent x Hx Ef). congruence.
    Qed.
  End PipeInv.

  (* ---------------------------------------------------------------- *)
  (*  the transitions                                                   *)
  (* ---------------------------------------------------------------- *)
  Section Steps.
    Variables (R : Z -> bool) (S : Z -> st) (Pi : Z -> Z -> list msg).
    Variables (R' : Z -> bool) (S' : Z -> st) (Pi' : Z -> Z -> list msg).
    Variable x : Z.
    Hypothesis I : InvA R S Pi.
    Hypothesis Hx : In x N.
    Hypothesis HR' : forall y, R' y = if Z.eqb y x then true else R y.

    Lemma Ro y : y <> x -> R' y = R y.
    Proof. intros H. rewrite HR'. apply Z.eqb_neq in H. rewrite H. reflexivity. Qed.
    Lemma Rx : R' x = true.
    Proof. rewrite HR', Z.eqb_refl. reflexivity. Qed.

    (* a UTIL that does not complete the set *)
    Lemma trans_acc c0 u q :
      parent P c0 = Some x -> Pi c0 x = MUtil u :: q ->
      remove_first c0 (W S x) <> [] ->
      (forall y, S' y = if Z.eqb y x then acc_st (S x) c0 u else S y) ->
      (forall a b, Pi' a b = if Z.eqb a c0 && Z.eqb b x then q else Pi a b) ->
      InvA R' S' Pi'.
    Proof.
      intros Hp0 Hpi Hne HS' HP'.
      destruct (up_pipe_inv R S Pi I c0 x _ _ Hp0 Hpi) as (Hs0 & Hw0 & -> & u' & Eu & Gu & Hl).
      inversion Eu; subst u'; clear Eu.
      destruct (waiting_not_sent R S Pi I x c0 Hx Hw0) as [Hsx Hfx].
      pose proof (g_node _ _ _ I x Hx) as Nx.
      pose proof (acc_node R S x c0 u Hx Nx Hsx Hfx Hw0 Gu) as N1.
      assert (So : forall y, y <> x -> S' y = S y).
      { intros y H. rewrite HS'. apply Z.eqb_neq in H. rewrite H. reflexivity. }
      assert (HSx : S' x = acc_st (S x) c0 u) by (rewrite HS', Z.eqb_refl; reflexivity).
      assert (Hsx' : sent R' S' x = false).
      { unfold sent. rewrite HSx. cbn [acc_st s_waited]. unfold W in Hne.
        destruct (remove_first c0 (s_waited (S x))); [congruence|]. simpl. apply andb_false_r. }
      assert (Hc0x : c0 <> x) by (apply par_neq; auto).
      pose proof (n_w_nd _ _ _ Nx) as Hwnd.
      apply (trans_generic R S Pi R' S' Pi' x (acc_st (S x) c0 u) I HR' HS' Hfx).
      - intros a b Ha Hb. rewrite HP'. apply Z.eqb_neq in Hb. rewrite Hb, andb_false_r. reflexivity.
      - apply (NodeOK_frame Rf (fun _ => acc_st (S x) c0 u)); auto.
      - (* children of x *)
        intros c Hpc. assert (Hcx : c <> x) by (apply par_neq; auto).
        destruct (g_edge _ _ _ I c x Hpc) as [E1 E2 E3 E4 E5].
        assert (Hsc : sent R' S' c = sent R S c) by (unfold sent; rewrite Ro, So by auto; reflexivity).
        constructor; rewrite ?Hsc; unfold fin, J, W in *; rewrite ?(So c Hcx), ?HSx;
          cbn [acc_st s_waited s_joined s_fin s_csep].
        + destruct (Z.eq_dec c c0) as [->|Hcc].
          * rewrite zmem_remove_first_same by auto. rewrite andb_false_r.
            rewrite HP', !Z.eqb_refl. reflexivity.
          * rewrite zmem_remove_first_other by auto. rewrite HP'.
            apply Z.eqb_neq in Hcc. rewrite Hcc. simpl. exact E1.
        + intros Hs. apply in_remove_first; auto. intros ->. congruence.
        + intros Hnw. destruct (Z.eq_dec c c0) as [->|Hcc].
          * exists (r_dims u). split; [apply lookup_dict_set_same; apply Z.eqb_eq|]. split; [exact Hl|].
            intros d Hd. apply dims_join. right; auto.
          * destruct E3 as (sep & L1 & L2 & L3).
            { intros Hin. apply Hnw. apply in_remove_first; auto. }
            exists sep. split; [unfold zlookup; rewrite lookup_dict_set_other by (try apply Z.eqb_eq; auto); exact L1|].
            split; auto. intros d Hd. apply dims_join. left; auto.
        + unfold fin in Hfx. rewrite Hfx in *. simpl in *. rewrite HP'.
          apply Z.eqb_neq in Hcx. rewrite Hcx, andb_false_r. exact E4.
        + intros Hf. unfold fin in Hfx. rewrite E5 in Hfx by auto. discriminate.
      - (* parent of x *)
        intros p Hpp. assert (Hpx : p <> x) by (intros ->; apply (par_neq _ _ Hpp); auto).
        destruct (g_edge _ _ _ I x p Hpp) as [E1 E2 E3 E4 E5].
        assert (Hxw : In x (W S p)) by (apply E2; exact Hsx).
        destruct (par_in P dep B V _ _ Hpp) as [_ HpN].
        destruct (waiting_not_sent R S Pi I p x HpN Hxw) as [Hsp Hfp].
        assert (Hc0p : c0 <> p) by (eapply par_par_neq; eauto).
        constructor; rewrite ?Hsx'; unfold fin, J, W in *; rewrite ?(So p Hpx), ?HSx;
          cbn [acc_st s_waited s_joined s_fin s_csep].
        + simpl. rewrite HP'. apply Z.eqb_neq in Hpx. rewrite Hpx, andb_false_r.
          rewrite Hsx in E1. simpl in E1. exact E1.
        + intros _. exact Hxw.
        + intros Hn. contradiction.
        + unfold fin in Hfp. rewrite Hfp in *. simpl in *. rewrite HP'.
          assert (Z.eqb p c0 = false) by (apply Z.eqb_neq; auto). rewrite H. simpl. exact E4.
        + unfold fin in Hfx. rewrite Hfx. discriminate.
      - (* other pipes *)
        intros a b Hab H1 H2. rewrite HP'.
        destruct (Z.eqb a c0 && Z.eqb b x) eqn:E.
        + apply andb_true_iff in E. destruct E as [Ea Eb]. apply Z.eqb_eq in Ea, Eb. subst. contradiction.
        + apply (g_other _ _ _ I); auto.
      - unfold fin. rewrite HSx. cbn [acc_st s_fin]. unfold fin in Hfx. rewrite Hfx. discriminate.
    Qed.

    (* ---- a node that has everything fires: UTIL to the parent, or (root) selection *)
    Section Complete.
      Variable s1 : st.
      Variable base : Z -> Z -> list msg.
      Variable outs : list (Z * msg).
      Variable s' : st.
      Hypothesis N1 : NodeOK Rf (fun _ => s1) x.
      Hypothesis Hw : s_waited s1 = [].
      Hypothesis Hf1 : s_fin s1 = false.
      Hypothesis Hsx : sent R S x = false.
      Hypothesis Hb_c : forall c, parent P c = Some x -> base c x = [].
      Hypothesis Hb_o : forall a b, ~ (parent P a = Some x /\ b = x) -> base a b = Pi a b.
      Hypothesis Hsep1 : forall c, parent P c = Some x -> exists sep, zlookup c (s_csep s1) = Some sep /\
               (forall d, In d sep <-> In d (r_dims (J S c)) /\ d <> c) /\
               (forall d, In d sep -> In d (r_dims (s_joined s1))).
      Hypothesis Hsc : forall c, parent P c = Some x -> sent R S c = true.
      Hypothesis HS' : forall y, S' y = if Z.eqb y x then s' else S y.
      Hypothesis HP' : forall a b, Pi' a b = base a b ++ (if Z.eqb a x then from b outs else []).
      Let jf := join_own P x (s_joined s1).

      Lemma So y : y <> x -> S' y = S y.
      Proof. intros H. rewrite HS'. apply Z.eqb_neq in H. rewrite H. reflexivity. Qed.
      Lemma Sx : S' x = s'.
      Proof. rewrite HS', Z.eqb_refl. reflexivity. Qed.
      Lemma Hfx : fin S x = false.
      Proof. apply (not_sent_not_fin R S Pi I); auto. Qed.
      Lemma base_xb b : base x b = Pi x b.
      Proof. apply Hb_o. intros [H _]. exact (par_neq _ _ H eq_refl). Qed.
      Lemma Pi_x_child c : parent P c = Some x -> Pi x c = [].
      Proof.
        intros Hc. pose proof (e_down _ _ _ _ _ (g_edge _ _ _ I c x Hc)) as H.
        rewrite Hfx in H. exact H.
      Qed.
      Lemma child_not_fin c : parent P c = Some x -> fin S c = false.
      Proof.
        intros Hc. destruct (fin S c) eqn:E; auto.
        pose proof (e_finpar _ _ _ _ _ (g_edge _ _ _ I c x Hc) E) as H. rewrite Hfx in H. discriminate.
      Qed.
      Lemma sent_child c : parent P c = Some x -> sent R' S' c = sent R S c.
      Proof.
        intros Hc. pose proof (par_neq _ _ Hc) as Hne. unfold sent. rewrite Ro, So by auto. reflexivity.
      Qed.

      Lemma trans_util p u :
        parent P x = Some p -> projection D jf x m = Some u ->
        s' = set_joined s1 jf -> outs = [(p, MUtil u)] ->
        InvA R' S' Pi'.
      Proof.
        intros Hpp Ep Es' Eo.
        destruct (util_good x s1 Hx N1 Hw p u Hpp Ep) as [Gu Hl].
        assert (Hsx' : sent R' S' x = true).
        { unfold sent. rewrite Rx, Sx, Es'. cbn [set_joined s_waited]. rewrite Hw. reflexivity. }
        assert (Hfx' : fin S' x = false) by (unfold fin; rewrite Sx, Es'; exact Hf1).
        assert (HJx : J S' x = jf) by (unfold J; rewrite Sx, Es'; reflexivity).
        assert (HWx : W S' x = []) by (unfold W; rewrite Sx, Es'; exact Hw).
        pose proof Hfx as Hfx0.
        apply (trans_generic R S Pi R' S' Pi' x s' I HR' HS' Hfx0).
        - intros a b Ha Hb. rewrite HP'. apply Z.eqb_neq in Ha. rewrite Ha, app_nil_r.
          apply Hb_o. intros [_ ->]. congruence.
        - constructor; rewrite ?Hsx', ?HJx, ?HWx, ?Hfx'; try discriminate.
          + apply jf_nd; auto.
          + apply jf_self; auto.
          + apply jf_up; auto.
          + intros c [].
          + constructor.
          + intros c Hc _ y d Hy Hd Ha. eapply jf_low; eauto.
          + intros _. split; [intros a Ha; apply jf_sem; auto|]. split; [apply jf_sv; auto|].
            intros p' Hp'. apply jf_link; auto.
          + intros _ Hn. congruence.
        - (* children *)
          intros c Hpc. assert (Hcx : c <> x) by (apply par_neq; auto).
          constructor; rewrite ?(sent_child c Hpc), ?HWx, ?Hfx'; unfold fin, J, W; rewrite ?(So c Hcx).
          + simpl. rewrite andb_false_r. rewrite HP', Hb_c by auto.
            apply Z.eqb_neq in Hcx. rewrite Hcx. reflexivity.
          + intros Hs. rewrite Hsc in Hs by auto. discriminate.
          + intros _. destruct (Hsep1 c Hpc) as (sep & L1 & L2 & L3). exists sep.
            rewrite Sx, Es'. cbn [set_joined s_csep s_joined]. split; auto. split; auto.
            intros d Hd. apply jf_old. auto.
          + simpl. rewrite HP', Z.eqb_refl, base_xb, (Pi_x_child c Hpc), Eo. simpl.
            unfold from. simpl. assert (Z.eqb p c = false) by (apply Z.eqb_neq; intros ->; eapply par_par_neq; eauto).
            rewrite H. reflexivity.
          + intros Hf. pose proof (child_not_fin c Hpc) as H. unfold fin in H. congruence.
        - (* parent *)
          intros p' Hpp'. rewrite Hpp in Hpp'. inversion Hpp'; subst p'. clear Hpp'.
          assert (Hpx : p <> x) by (intros ->; apply (par_neq _ _ Hpp); auto).
          destruct (g_edge _ _ _ I x p Hpp) as [E1 E2 E3 E4 E5].
          assert (Hxw : In x (W S p)) by (apply E2; exact Hsx).
          destruct (par_in P dep B V _ _ Hpp) as [_ HpN].
          destruct (waiting_not_sent R S Pi I p x HpN Hxw) as [Hsp Hfp].
          constructor; rewrite ?Hsx', ?HJx, ?Hfx'; unfold fin, W in *; rewrite ?(So p Hpx).
          + apply zmem_In in Hxw. unfold W in Hxw. rewrite Hxw. simpl. exists u. split; [|split; auto].
            rewrite HP', Z.eqb_refl, base_xb, Eo. rewrite Hsx in E1. simpl in E1. rewrite E1.
            unfold from. simpl. rewrite Z.eqb_refl. reflexivity.
          + discriminate.
          + intros Hn. contradiction.
          + rewrite Hfp. simpl. rewrite HP'. apply Z.eqb_neq in Hpx. rewrite Hpx, app_nil_r.
            rewrite Hb_o.
            * rewrite Hfp in E4. exact E4.
            * intros [H _]. apply (par_par_neq _ _ _ H Hpp). reflexivity.
          + discriminate.
        - (* others *)
          intros a b Hab H1 H2. rewrite HP'. destruct (Z.eq_dec a x) as [->|Hax].
          + rewrite Z.eqb_refl, base_xb, (g_other _ _ _ I x b H1 H2), Eo. unfold from. simpl.
            assert (Z.eqb p b = false) by (apply Z.eqb_neq; intros ->; contradiction). rewrite H. reflexivity.
          + destruct Hab as [?| ->]; [contradiction|]. apply Z.eqb_neq in Hax. rewrite Hax.
            rewrite app_nil_r, Hb_o; [apply (g_other _ _ _ I); auto|]. intros [H _]. contradiction.
        - rewrite Hfx'. discriminate.
      Qed.

      Lemma trans_root v k :
        parent P x = None -> fao D x jf m = inl (v, k) ->
        s' = mkSt jf (s_waited s1) (s_csep s1) (Some (v, k)) true (s_late s1) ->
        outs = map (fun c => (c, MValue [x] [v])) (children P x) ->
        InvA R' S' Pi'.
      Proof.
        intros Hpn Ef Es' Eo.
        assert (Hdims : r_dims jf = [x]) by (apply jf_root; auto).
        destruct (fao_spec D x jf m v k Ef) as (_ & Hv0 & Hv & Hk & Hb).
        assert (Hsx' : sent R' S' x = true).
        { unfold sent. rewrite Rx, Sx, Es'. cbn [s_waited]. rewrite Hw. reflexivity. }
        assert (Hfx' : fin S' x = true) by (unfold fin; rewrite Sx, Es'; reflexivity).
        assert (HJx : J S' x = jf) by (unfold J; rewrite Sx, Es'; reflexivity).
        assert (HWx : W S' x = []) by (unfold W; rewrite Sx, Es'; exact Hw).
        assert (Hsel : selv S' x = v) by (unfold selv; rewrite Sx, Es'; reflexivity).
        pose proof Hfx as Hfx0.
        apply (trans_generic R S Pi R' S' Pi' x s' I HR' HS' Hfx0).
        - intros a b Ha Hb'. rewrite HP'. apply Z.eqb_neq in Ha. rewrite Ha, app_nil_r.
          apply Hb_o. intros [_ ->]. congruence.
        - constructor; rewrite ?Hsx', ?HJx, ?HWx, ?Hfx'; try discriminate.
          + apply jf_nd; auto.
          + apply jf_self; auto.
          + apply jf_up; auto.
          + intros c [].
          + constructor.
          + intros c Hc _ y d Hy Hd Ha. eapply jf_low; eauto.
          + intros _. split; [intros a Ha; apply jf_sem; auto|]. split; [apply jf_sv; auto|].
            intros p' Hp'. congruence.
          + auto.
          + intros _. split; auto. exists v, k. rewrite Sx, Es'. cbn [s_value]. auto.
        - (* children *)
          intros c Hpc. assert (Hcx : c <> x) by (apply par_neq; auto).
          destruct (par_in P dep B V _ _ Hpc) as [HcN _].
          constructor; rewrite ?(sent_child c Hpc), ?HWx, ?Hfx'; unfold fin, J, W; rewrite ?(So c Hcx).
          + simpl. rewrite andb_false_r. rewrite HP', Hb_c by auto.
            apply Z.eqb_neq in Hcx. rewrite Hcx. reflexivity.
          + intros Hs. rewrite Hsc in Hs by auto. discriminate.
          + intros _. destruct (Hsep1 c Hpc) as (sep & L1 & L2 & L3). exists sep.
            rewrite Sx, Es'. cbn [s_csep s_joined]. split; auto. split; auto.
            intros d Hd. apply jf_old. auto.
          + pose proof (child_not_fin c Hpc) as Hfc. unfold fin in Hfc. rewrite Hfc. simpl.
            exists [x], [v]. split.
            * rewrite HP', Z.eqb_refl, base_xb, (Pi_x_child c Hpc), Eo. simpl.
              rewrite from_map_nodup by (apply (dv_chnd _ _ _ V)).
              assert (Hz : zmem c (children P x) = true) by (apply zmem_In; apply (par_child P dep B V); auto).
              rewrite Hz. reflexivity.
            * constructor.
              -- reflexivity.
              -- intros d. unfold J. rewrite (So c Hcx). split.
                 ++ intros [<-|[]]. split; [|auto].
                    destruct (n_semB _ _ _ (g_node _ _ _ I c HcN) (Hsc c Hpc)) as (_ & _ & L). apply L; auto.
                 ++ intros [Hd Hne]. left.
                    destruct (n_up _ _ _ (g_node _ _ _ I c HcN) d Hd) as [?|Ha]; [contradiction|].
                    apply anc_inv in Ha. destruct Ha as (b & Hb1 & Hb2). rewrite Hpc in Hb1. inversion Hb1; subst b.
                    destruct Hb2 as [->|Hb2]; auto. exfalso. exact (anc_root P _ _ Hpn Hb2).
              -- intros d v' Hin. simpl in Hin. destruct Hin as [Hin|[]]. inversion Hin; subst. auto.
          + auto.
        - intros p Hp. congruence.
        - (* others *)
          intros a b Hab H1 H2. rewrite HP'. destruct (Z.eq_dec a x) as [->|Hax].
          + rewrite Z.eqb_refl, base_xb, (g_other _ _ _ I x b H1 H2), Eo. simpl.
            rewrite from_map_nodup by (apply (dv_chnd _ _ _ V)).
            assert (Hz : zmem b (children P x) = false).
            { apply zmem_false. intros Hin. apply (child_par P dep B V) in Hin. contradiction. }
            rewrite Hz. reflexivity.
          + destruct Hab as [?| ->]; [contradiction|]. apply Z.eqb_neq in Hax. rewrite Hax.
            rewrite app_nil_r, Hb_o; [apply (g_other _ _ _ I); auto|]. intros [H _]. contradiction.
        - intros _. unfold ChoiceOK. rewrite HJx, Hdims, Hsel. split.
          + intros d [<-|[]]. exact Hfx'.
          + intros a Ha.
            assert (Hag : forall z, eval jf ((x, z) :: a) = eval jf [(x, z)]).
            { intros z. apply eval_agree. rewrite Hdims. intros d [<-|[]].
              unfold aval, zlookup; simpl. rewrite Z.eqb_refl. reflexivity. }
            rewrite Hag, <- Hk. erewrite map_ext; [exact Hb|]. intros w. apply Hag.
      Qed.
    End Complete.

    (* ---- what a VALUE message in the pipe p -> x implies about x's handler *)
    Section Value.
      Variables (p : Z) (vars vals : list Z) (q : list msg).
      Hypothesis Hpp : parent P x = Some p.
      Hypothesis Hpi : Pi p x = MValue vars vals :: q.
      Let vd := dict_of_list Z.eqb (combine vars vals).

      Lemma value_facts :
        fin S p = true /\ fin S x = false /\ q = [] /\ GoodValue S x vars vals /\
        sent R S x = true /\ W S x = [] /\
        (forall d, zlookup d vd = if zmem d vars then Some (selv S d) else None) /\
        (forall d, mem_key Z.eqb d vd = zmem d vars) /\
        (forall d, In d vars -> In d N /\ fin S d = true).
      Proof.
        destruct (down_pipe_inv R S Pi I x p _ _ Hpp Hpi) as (Hfp & Hfx & -> & vs & vl & E & G).
        inversion E; subst vs vl; clear E.
        destruct (par_in P dep B V _ _ Hpp) as [_ HpN].
        destruct (fin_sent R S Pi I p HpN Hfp) as [Hsp Hwp].
        assert (Hsx : sent R S x = true).
        { destruct (sent R S x) eqn:E; auto.
          pose proof (e_wait _ _ _ _ _ (g_edge _ _ _ I x p Hpp) E) as H. rewrite Hwp in H. destruct H. }
        assert (Hwx : W S x = []).
        { unfold sent in Hsx. apply andb_true_iff in Hsx. destruct Hsx as [_ H]. apply nilb_true in H. exact H. }
        assert (F1 : forall d, zlookup d vd = if zmem d vars then Some (selv S d) else None).
        { intros d. unfold vd. rewrite (dol_spec (selv S)).
          - rewrite map_fst_combine by (apply (gv_len _ _ _ _ G)). reflexivity.
          - intros k v Hin. destruct (gv_vals _ _ _ _ G k v Hin) as (_ & _ & H). auto. }
        split; [exact Hfp|]. split; [exact Hfx|]. split; [reflexivity|]. split; [exact G|].
        split; [exact Hsx|]. split; [exact Hwx|]. split; [exact F1|]. split.
        - intros d. unfold mem_key. fold (@zlookup Z d vd). rewrite F1. destruct (zmem d vars); reflexivity.
        - intros d H. destruct (in_combine_exists vars vals d (gv_len _ _ _ _ G) H) as (w & Hw).
          destruct (gv_vals _ _ _ _ G d w Hw) as (A1 & A2 & _). auto.
      Qed.

      (* the handler does not raise *)
      Lemma value_handler_ok :
        (exists r, slice D (J S x) vd = Some r /\ r_dims r = [x]) /\
        (forall c, In c (children P x) -> zlookup c (s_csep (S x)) <> None).
      Proof.
        destruct value_facts as (Hfp & Hfx & _ & G & Hsx & Hwx & F1 & F2 & F3).
        pose proof (g_node _ _ _ I x Hx) as Nx.
        split.
        - destruct (slice_ok P (J S x) vd) as (r & Er).
          + intros k v Hin. apply in_mem_key in Hin. rewrite F2 in Hin. apply zmem_In in Hin.
            apply (gv_vars _ _ _ _ G) in Hin. tauto.
          + exists r. split; auto. rewrite (slice_dims P _ _ _ Er). apply filter_single.
            * apply (n_nd _ _ _ Nx).
            * apply (n_self _ _ _ Nx).
            * rewrite F2. destruct (zmem x vars) eqn:E; auto. apply zmem_In in E.
              apply (gv_vars _ _ _ _ G) in E. destruct E as [_ E]. congruence.
            * intros d Hd Hne. rewrite F2.
              assert (Hin : In d vars) by (apply (gv_vars _ _ _ _ G); auto).
              apply zmem_In in Hin. rewrite Hin. reflexivity.
        - intros c Hc. apply (child_par P dep B V) in Hc.
          destruct (e_sep _ _ _ _ _ (g_edge _ _ _ I c x Hc)) as (sep & L1 & _).
          + rewrite Hwx. intros [].
          + rewrite L1. discriminate.
      Qed.

      Lemma trans_value r v k :
        slice D (J S x) vd = Some r -> fao D x r m = inl (v, k) ->
        (forall y, S' y = if Z.eqb y x
                          then mkSt (J S x) (W S x) (s_csep (S x)) (Some (v, k)) true (s_late (S x)) else S y) ->
        (forall a b, Pi' a b = (if Z.eqb a p && Z.eqb b x then q else Pi a b) ++
            (if Z.eqb a x
             then from b (map (fun c => (c, MValue (x :: vkeep vd (s_csep (S x)) c) (v :: vvals vd (s_csep (S x)) c)))
                              (children P x))
             else [])) ->
        InvA R' S' Pi'.
      Proof.
        intros Er Ef HS' HP'.
        destruct value_facts as (Hfp & Hfx & Hq & G & Hsx & Hwx & F1 & F2 & F3).
        destruct value_handler_ok as [(r' & Er' & Hdr) Hcs]. rewrite Er in Er'. inversion Er'; subst r'; clear Er'.
        destruct (fao_spec D x r m v k Ef) as (_ & Hv0 & Hv & Hk & Hb).
        pose proof (g_node _ _ _ I x Hx) as Nx.
        set (s' := mkSt (J S x) (W S x) (s_csep (S x)) (Some (v, k)) true (s_late (S x))) in *.
        assert (So : forall y, y <> x -> S' y = S y).
        { intros y H. rewrite HS'. apply Z.eqb_neq in H. rewrite H. reflexivity. }
        assert (HSx : S' x = s') by (rewrite HS', Z.eqb_refl; reflexivity).
        assert (Sfin : forall d, fin S d = true -> S' d = S d).
        { intros d Hd. apply So. intros ->. congruence. }
        assert (Hsx' : sent R' S' x = true).
        { unfold sent. rewrite Rx, HSx. unfold s'. cbn [s_waited]. rewrite Hwx. reflexivity. }
        assert (Hfx' : fin S' x = true) by (unfold fin; rewrite HSx; reflexivity).
        assert (HJx : J S' x = J S x) by (unfold J at 1; rewrite HSx; reflexivity).
        assert (HWx : W S' x = []) by (unfold W; rewrite HSx; exact Hwx).
        assert (Hsel : selv S' x = v) by (unfold selv; rewrite HSx; reflexivity).
        assert (Hpx : p <> x) by (intros ->; apply (par_neq _ _ Hpp); auto).
        assert (Hxvars : zmem x vars = false).
        { destruct (zmem x vars) eqn:E; auto. apply zmem_In in E.
          apply (gv_vars _ _ _ _ G) in E. destruct E as [_ E]. congruence. }
        assert (Hdvars : forall d, In d (r_dims (J S x)) -> d <> x -> In d vars).
        { intros d Hd Hne. apply (gv_vars _ _ _ _ G). auto. }
        assert (Hnotchild : zmem p (children P x) = false).
        { apply zmem_false. intros Hin. apply (child_par P dep B V) in Hin.
          apply (par_par_neq _ _ _ Hin Hpp). reflexivity. }
        apply (trans_generic R S Pi R' S' Pi' x s' I HR' HS' Hfx).
        - intros a b Ha Hb'. rewrite HP'. apply Z.eqb_neq in Ha, Hb'. rewrite Ha, Hb', andb_false_r, app_nil_r. reflexivity.
        - constructor; rewrite ?Hsx', ?HJx, ?HWx, ?Hfx'; try discriminate.
          + apply (n_nd _ _ _ Nx).
          + apply (n_self _ _ _ Nx).
          + apply (n_up _ _ _ Nx).
          + intros c [].
          + constructor.
          + intros c Hc _. apply (n_low _ _ _ Nx c Hc). rewrite Hwx. intros [].
          + intros _. apply (n_semB _ _ _ Nx Hsx).
          + intros _ Hn. congruence.
          + intros _. split; auto. exists v, k. rewrite HSx. unfold s'. cbn [s_value]. auto.
        - (* children *)
          intros c Hpc. assert (Hcx : c <> x) by (apply par_neq; auto).
          destruct (par_in P dep B V _ _ Hpc) as [HcN _].
          destruct (g_edge _ _ _ I c x Hpc) as [E1 E2 E3 E4 E5].
          assert (Hsc : sent R' S' c = sent R S c) by (unfold sent; rewrite Ro, So by auto; reflexivity).
          assert (Hcp : Z.eqb c p = false) by (apply Z.eqb_neq; eapply par_par_neq; eauto).
          assert (Hsentc : sent R S c = true).
          { destruct (sent R S c) eqn:E; auto. exfalso. specialize (E2 eq_refl). rewrite Hwx in E2. destruct E2. }
          assert (Hfc : fin S c = false).
          { destruct (fin S c) eqn:E; auto. specialize (E5 eq_refl). congruence. }
          constructor; rewrite ?Hsc, ?HWx, ?HJx, ?Hfx'; unfold fin, J, W in *; rewrite ?(So c Hcx).
          + simpl. rewrite andb_false_r. rewrite HP', Hcp. simpl.
            apply Z.eqb_neq in Hcx. rewrite Hcx, app_nil_r.
            rewrite Hwx in E1. simpl in E1. rewrite andb_false_r in E1. exact E1.
          + intros Hs. congruence.
          + intros _. rewrite HSx. unfold s'. cbn [s_csep]. apply E3. rewrite Hwx. intros [].
          + rewrite Hfc. simpl.
            destruct E3 as (sep & L1 & L2 & L3); [rewrite Hwx; intros []|].
            exists (x :: vkeep vd (s_csep (S x)) c), (v :: vvals vd (s_csep (S x)) c). split.
            * rewrite HP', Z.eqb_refl. assert (Hxp : Z.eqb x p = false) by (apply Z.eqb_neq; auto).
              rewrite Hxp. simpl. unfold fin in Hfx. rewrite Hfx in E4. simpl in E4. rewrite E4. simpl.
              rewrite from_map_nodup by (apply (dv_chnd _ _ _ V)).
              assert (Hz : zmem c (children P x) = true) by (apply zmem_In; apply (par_child P dep B V); auto).
              rewrite Hz. reflexivity.
            * assert (Hkeep : forall d, In d (vkeep vd (s_csep (S x)) c) <-> In d sep /\ In d vars).
              { intros d. unfold vkeep. rewrite L1. rewrite filter_In, F2. rewrite zmem_In. tauto. }
              constructor.
              -- unfold vvals. simpl. rewrite map_length. reflexivity.
              -- intros d. unfold J. rewrite (So c Hcx). split.
                 ++ intros [<-|Hd].
                    ** split; [|auto].
                       destruct (n_semB _ _ _ (g_node _ _ _ I c HcN) Hsentc) as (_ & _ & L). apply L; auto.
                    ** apply Hkeep in Hd. apply L2. tauto.
                 ++ intros [Hd Hne]. destruct (Z.eq_dec d x) as [->|Hdx]; [left; auto|right].
                    apply Hkeep. assert (In d sep) by (apply L2; auto). split; auto.
              -- intros d v' Hin. simpl in Hin. destruct Hin as [Hin|Hin].
                 ++ inversion Hin; subst. auto.
                 ++ unfold vvals in Hin. apply in_combine_map in Hin. destruct Hin as [Hd ->].
                    apply Hkeep in Hd. destruct Hd as [_ Hd]. destruct (F3 d Hd) as [HdN Hdf].
                    split; auto. unfold fin, selv. rewrite (Sfin d Hdf). split; auto.
                    rewrite F1. apply zmem_In in Hd. rewrite Hd. reflexivity.
          + auto.
        - (* parent *)
          intros p' Hpp'. rewrite Hpp in Hpp'. inversion Hpp'; subst p'. clear Hpp'.
          destruct (g_edge _ _ _ I x p Hpp) as [E1 E2 E3 E4 E5].
          destruct (par_in P dep B V _ _ Hpp) as [_ HpN].
          destruct (fin_sent R S Pi I p HpN Hfp) as [Hsp Hwp].
          constructor; rewrite ?Hsx', ?HJx, ?Hfx'; unfold fin, J, W in *; rewrite ?(So p Hpx).
          + rewrite Hwp. simpl. rewrite HP', Z.eqb_refl.
            assert (Hxp : Z.eqb x p = false) by (apply Z.eqb_neq; auto). rewrite Hxp. simpl.
            rewrite from_map_nodup by (apply (dv_chnd _ _ _ V)). rewrite Hnotchild, app_nil_r.
            rewrite Hwp in E1. simpl in E1. rewrite andb_false_r in E1. exact E1.
          + discriminate.
          + exact E3.
          + rewrite Hfp. simpl. rewrite HP', !Z.eqb_refl. simpl.
            apply Z.eqb_neq in Hpx. rewrite Hpx, Hq. reflexivity.
          + intros _. exact Hfp.
        - (* others *)
          intros a b Hab H1 H2. rewrite HP'. destruct (Z.eq_dec a x) as [->|Hax].
          + rewrite Z.eqb_refl. assert (Hxp : Z.eqb x p = false) by (apply Z.eqb_neq; auto). rewrite Hxp. simpl.
            rewrite (g_other _ _ _ I x b H1 H2). simpl.
            rewrite from_map_nodup by (apply (dv_chnd _ _ _ V)).
            assert (Hz : zmem b (children P x) = false).
            { apply zmem_false. intros Hin. apply (child_par P dep B V) in Hin. contradiction. }
            rewrite Hz. reflexivity.
          + destruct Hab as [?| ->]; [contradiction|]. apply Z.eqb_neq in Hax. rewrite Hax, app_nil_r.
            rewrite Z.eqb_refl, andb_true_r. destruct (Z.eqb a p) eqn:Eap.
            * apply Z.eqb_eq in Eap. subst a. contradiction.
            * apply (g_other _ _ _ I); auto.
        - (* the choice *)
          intros _. unfold ChoiceOK. rewrite HJx, Hsel. split.
          + intros d Hd. destruct (Z.eq_dec d x) as [->|Hne]; auto.
            destruct (F3 d (Hdvars d Hd Hne)) as [_ Hdf]. unfold fin. rewrite (Sfin d Hdf). exact Hdf.
          + intros a Ha.
            assert (Hag : forall w, (w < D x)%nat ->
                      eval r [(x, Z.of_nat w)] = eval (J S x) ((x, Z.of_nat w) :: a)).
            { intros w Hw. rewrite (sem_slice_l D _ _ _ [(x, Z.of_nat w)] Er).
              - apply eval_agree. intros d Hd. destruct (Z.eq_dec d x) as [->|Hne].
                + rewrite aval_app_r by (rewrite F2; exact Hxvars). rewrite !aval_cons_same. reflexivity.
                + pose proof (Hdvars d Hd Hne) as Hdv. destruct (F3 d Hdv) as [_ Hdf].
                  rewrite aval_app_l by (rewrite F2; apply zmem_In; auto).
                  rewrite aval_cons_other by auto. rewrite (Ha d Hd Hne).
                  unfold selv. rewrite (Sfin d Hdf). unfold aval. rewrite F1.
                  apply zmem_In in Hdv. rewrite Hdv. reflexivity.
              - rewrite Hdr. intros d [<-|[]]. rewrite aval_cons_same. exact Hw. }
            rewrite <- (Z2Nat.id v) by exact Hv0. rewrite <- Hag by exact Hv.
            rewrite (Z2Nat.id v) by exact Hv0. rewrite <- Hk.
            erewrite map_ext_in; [exact Hb|]. intros w Hw. apply in_seq in Hw. symmetry. apply Hag. lia.
      Qed.
    End Value.

    (* ---- start of a node that still waits for its children: only the running flag changes *)
    Lemma trans_run :
      R x = false -> children P x <> [] ->
      (forall y, S' y = S y) -> (forall a b, Pi' a b = Pi a b) -> InvA R' S' Pi'.
    Proof.
      intros Hr Hch HS' HP'.
      assert (Hinit : S x = dpop_init P x) by (apply (g_idle _ _ _ I); auto).
      assert (Hs : forall y, sent R' S' y = sent R S y).
      { intros y. unfold sent. rewrite HS'. destruct (Z.eq_dec y x) as [->|Hne]; [|rewrite Ro by auto; reflexivity].
        rewrite Rx, Hr, Hinit. cbn [dpop_init s_waited]. destruct (children P x); [congruence|reflexivity]. }
      destruct I as [G1 G2 G3 G4 G5]. constructor.
      - intros y Hy. apply (NodeOK_frame R S); auto.
      - intros c y Hp. apply (EdgeOK_frame R S Pi); auto.
      - intros a b H1 H2. rewrite HP'. auto.
      - intros y Hy Hf. apply (ChoiceOK_frame S); auto. apply G4; auto. unfold fin in *. rewrite <- HS'. exact Hf.
      - intros y Hy Hr'. rewrite HS'. apply G5; auto. destruct (Z.eq_dec y x) as [->|Hne]; auto.
        rewrite <- Ro by auto. exact Hr'.
    Qed.
  End Steps.

  (* ---------------------------------------------------------------- *)
  (*  the handlers on the states the invariant allows                   *)
  (* ---------------------------------------------------------------- *)
  Lemma nontree_par n : ~ In n N -> parent P n = None.
  Proof. intros H. destruct (parent P n) eqn:E; auto. apply (par_in P dep B V) in E. tauto. Qed.
  Lemma nontree_ch n : ~ In n N -> children P n = [].
  Proof.
    intros H. destruct (children P n) as [|c r] eqn:E; auto. exfalso. apply H.
    assert (Hc : In c (children P n)) by (rewrite E; left; auto). apply (child_in P dep B V) in Hc. tauto.
  Qed.

  Definition no_tree_raise (evs : list ev) : Prop := forall n k, In (EvRaise n k) evs -> ~ In n N.

  Lemma send_util_eq x s1 p u :
    parent P x = Some p -> projection D (join_own P x (s_joined s1)) x m = Some u ->
    send_util P x s1 = (set_joined s1 (join_own P x (s_joined s1)), [(p, MUtil u)], [EvUtil x p u]).
  Proof. intros Hp Ep. unfold send_util. fold D m. rewrite Ep, Hp. reflexivity. Qed.

  Lemma root_select_eq x s1 v k : fao D x (join_own P x (s_joined s1)) m = inl (v, k) ->
    root_select P x s1 =
      (mkSt (join_own P x (s_joined s1)) (s_waited s1) (s_csep s1) (Some (v, k)) true (s_late s1),
       map (fun c => (c, MValue [x] [v])) (children P x),
       map (fun c => EvValue x c [x] [v]) (children P x) ++ [EvSelect x v k; EvFinished x]).
  Proof. intros Ef. unfold root_select. fold D m. rewrite Ef. reflexivity. Qed.

  Lemma on_value_eq x s vars vals r v k :
    let vd := dict_of_list Z.eqb (combine vars vals) in
    slice D (s_joined s) vd = Some r -> fao D x r m = inl (v, k) ->
    (forall c, In c (children P x) -> zlookup c (s_csep s) <> None) ->
    on_value P x s vars vals =
      (mkSt (s_joined s) (s_waited s) (s_csep s) (Some (v, k)) true (s_late s),
       map (fun c => (c, MValue (x :: vkeep vd (s_csep s) c) (v :: vvals vd (s_csep s) c))) (children P x),
       map (fun c => EvValue x c (x :: vkeep vd (s_csep s) c) (v :: vvals vd (s_csep s) c)) (children P x)
         ++ [EvSelect x v k; EvFinished x]).
  Proof.
    intros vd Es Ef Hc. unfold on_value. fold D m. fold vd. cbv zeta. rewrite Es, Ef.
    rewrite (value_msgs_ok x v vd (s_csep s) (children P x) Hc). reflexivity.
  Qed.

  Lemma on_util_eq_acc x s src u : zmem src (s_waited s) = true -> remove_first src (s_waited s) <> [] ->
    on_util P x s src u = (acc_st s src u, [], []).
  Proof.
    intros Hz Hne. unfold on_util, acc_st. fold D. rewrite Hz. cbn [s_waited].
    destruct (remove_first src (s_waited s)); [congruence|reflexivity].
  Qed.

  Lemma on_util_eq_fire x s src u : zmem src (s_waited s) = true -> remove_first src (s_waited s) = [] ->
    on_util P x s src u =
      if is_root P x then root_select P x (acc_st s src u) else send_util P x (acc_st s src u).
  Proof.
    intros Hz He. unfold on_util, acc_st. fold D. rewrite Hz. cbn [s_waited]. rewrite He. reflexivity.
  Qed.

  Ltac noraise :=
    let n := fresh "n" in let k := fresh "k" in let Hin := fresh "Hin" in
    intros n k Hin; rewrite ?in_app_iff in Hin; simpl in Hin; rewrite ?in_map_iff in Hin;
    repeat match goal with
           | H : _ \/ _ |- _ => destruct H
           | H : exists _, _ |- _ => destruct H
           | H : _ /\ _ |- _ => destruct H
           | H : False |- _ => destruct H
           | H : _ = EvRaise _ _ |- _ => discriminate H
           end.

  Lemma start_case R S Pi R' S' Pi' n st' outs evs :
    InvA R S Pi -> R n = false -> dpop_start P n (S n) = (st', outs, evs) ->
    (forall y, R' y = if Z.eqb y n then true else R y) ->
    (forall y, S' y = if Z.eqb y n then st' else S y) ->
    (forall a b, Pi' a b = Pi a b ++ (if Z.eqb a n then from b outs else [])) ->
    InvA R' S' Pi' /\ no_tree_raise evs.
  Proof.
    intros I Hr Hs HR' HS' HP'.
    destruct (in_dec Z.eq_dec n N) as [Hn|Hn].
    - pose proof (g_idle _ _ _ I n Hn Hr) as Hinit.
      pose proof (g_node _ _ _ I n Hn) as Nn.
      assert (Hsn : sent R S n = false) by (unfold sent; rewrite Hr; reflexivity).
      unfold dpop_start, is_leaf in Hs. destruct (children P n) as [|c0 cr] eqn:Ech.
      + assert (N1 : NodeOK Rf (fun _ => S n) n) by (apply (NodeOK_frame R S); auto).
        assert (Hw : s_waited (S n) = []) by (rewrite Hinit; cbn [dpop_init s_waited]; exact Ech).
        assert (Hf1 : s_fin (S n) = false) by (rewrite Hinit; reflexivity).
        assert (Hnoch : forall c, parent P c = Some n -> False).
        { intros c Hc. apply (par_child P dep B V) in Hc. rewrite Ech in Hc. destruct Hc. }
        unfold is_root in Hs. destruct (parent P n) as [p|] eqn:Epar.
        * destruct (projection_some P (join_own P n (s_joined (S n))) n) as (u & Ep & _).
          { apply jf_self; auto. }
          rewrite (send_util_eq n (S n) p u Epar Ep) in Hs. inversion Hs; subst st' outs evs; clear Hs.
          split; [|noraise].
          apply (trans_util R S Pi R' S' Pi' n I Hn HR' (S n) Pi [(p, MUtil u)]
                   (set_joined (S n) (join_own P n (s_joined (S n)))) N1 Hw Hf1 Hsn) with (p := p) (u := u); auto.
          -- intros c Hc. destruct (Hnoch c Hc).
          -- intros c Hc. destruct (Hnoch c Hc).
          -- intros c Hc. destruct (Hnoch c Hc).
        * destruct (fao_ok P n (join_own P n (s_joined (S n)))) as (v & k & Ef).
          { apply jf_root; auto. }
          { apply (dv_dom _ _ _ V); auto. }
          rewrite (root_select_eq n (S n) v k Ef) in Hs. inversion Hs; subst st' outs evs; clear Hs.
          split; [|noraise].
          apply (trans_root R S Pi R' S' Pi' n I Hn HR' (S n) Pi
                   (map (fun c => (c, MValue [n] [v])) (children P n))
                   (mkSt (join_own P n (s_joined (S n))) (s_waited (S n)) (s_csep (S n)) (Some (v, k)) true (s_late (S n)))
                   N1 Hw Hsn) with (v := v) (k := k); auto.
          -- intros c Hc. destruct (Hnoch c Hc).
          -- intros c Hc. destruct (Hnoch c Hc).
          -- intros c Hc. destruct (Hnoch c Hc).
      + inversion Hs; subst st' outs evs; clear Hs. split; [|intros ? ? []].
        apply (trans_run R S Pi R' S' Pi' n I Hn HR' Hr).
        * rewrite Ech. discriminate.
        * intros y. rewrite HS'. destruct (Z.eqb_spec y n); subst; auto.
        * intros a b. rewrite HP'. destruct (Z.eqb a n); simpl; rewrite app_nil_r; reflexivity.
    - pose proof (nontree_par n Hn) as Hp. pose proof (nontree_ch n Hn) as Hc.
      unfold dpop_start, is_leaf, is_root in Hs. rewrite Hc, Hp in Hs. unfold root_select in Hs. rewrite Hc in Hs.
      assert (Houts : outs = [] /\ no_tree_raise evs).
      { destruct (fao (dsize P) n (join_own P n (s_joined (S n))) (dc_mode P)) as [[v k]|e];
          simpl in Hs; inversion Hs; subst; split; auto.
        - noraise.
        - intros n' k' [Hin|[]]. inversion Hin; subst. exact Hn. }
      destruct Houts as [-> Hnr]. split; auto.
      apply (InvA_ext R S Pi); auto.
      + intros y Hy. rewrite HR'. destruct (Z.eqb_spec y n); subst; [contradiction|auto].
      + intros y Hy. rewrite HS'. destruct (Z.eqb_spec y n); subst; [contradiction|auto].
      + intros a b. rewrite HP'. destruct (Z.eqb a n); simpl; rewrite app_nil_r; reflexivity.
  Qed.

  Lemma recv_case R S Pi R' S' Pi' s d mm q st' outs evs :
    InvA R S Pi -> R d = true -> Pi s d = mm :: q -> dpop_recv P d (S d) s mm = (st', outs, evs) ->
    (forall y, R' y = R y) ->
    (forall y, S' y = if Z.eqb y d then st' else S y) ->
    (forall a b, Pi' a b = (if Z.eqb a s && Z.eqb b d then q else Pi a b)
                           ++ (if Z.eqb a d then from b outs else [])) ->
    InvA R' S' Pi' /\ no_tree_raise evs.
  Proof.
    intros I Hr Hpi Hs HR0 HS' HP'.
    assert (HR' : forall y, R' y = if Z.eqb y d then true else R y).
    { intros y. rewrite HR0. destruct (Z.eqb_spec y d); subst; auto. }
    assert (Hne : Pi s d <> []) by (rewrite Hpi; discriminate).
    destruct (pipe_edge R S Pi I s d Hne) as [Hp|Hp].
    - (* a UTIL from the child s *)
      destruct (par_in P dep B V _ _ Hp) as [HsN HdN].
      destruct (up_pipe_inv R S Pi I s d _ _ Hp Hpi) as (Hss & Hsw & Hq & u & -> & Gu & Hl).
      destruct (waiting_not_sent R S Pi I d s HdN Hsw) as [Hsd Hfd].
      pose proof (g_node _ _ _ I d HdN) as Nd.
      assert (Hz : zmem s (s_waited (S d)) = true) by (apply zmem_In; exact Hsw).
      unfold dpop_recv in Hs. unfold fin in Hfd. rewrite Hfd in Hs.
      destruct (remove_first s (s_waited (S d))) as [|w0 wr] eqn:Erem.
      + (* the last one: the node fires *)
        rewrite (on_util_eq_fire d (S d) s u Hz Erem) in Hs.
        set (s1 := acc_st (S d) s u) in *.
        set (base := fun a b => if Z.eqb a s && Z.eqb b d then q else Pi a b).
        assert (N1 : NodeOK Rf (fun _ => s1) d) by (apply (acc_node R S); auto).
        assert (Hw : s_waited s1 = []) by exact Erem.
        assert (Hf1 : s_fin s1 = false) by exact Hfd.
        assert (Hnotw : forall c, c <> s -> ~ In c (W S d)).
        { intros c Hc Hin. assert (H : In c (remove_first s (s_waited (S d)))) by (apply in_remove_first; auto).
          rewrite Erem in H. destruct H. }
        assert (Hb_c : forall c, parent P c = Some d -> base c d = []).
        { intros c Hc. unfold base. rewrite Z.eqb_refl, andb_true_r. destruct (Z.eqb_spec c s); [exact Hq|].
          pose proof (e_up _ _ _ _ _ (g_edge _ _ _ I c d Hc)) as H.
          assert (Hzc : zmem c (W S d) = false) by (apply zmem_false; apply Hnotw; auto).
          rewrite Hzc, andb_false_r in H. exact H. }
        assert (Hb_o : forall a b, ~ (parent P a = Some d /\ b = d) -> base a b = Pi a b).
        { intros a b H. unfold base. destruct (Z.eqb_spec a s); simpl; auto.
          destruct (Z.eqb_spec b d); auto. subst. exfalso. apply H. auto. }
        assert (Hsep1 : forall c, parent P c = Some d -> exists sep, zlookup c (s_csep s1) = Some sep /\
               (forall d0, In d0 sep <-> In d0 (r_dims (J S c)) /\ d0 <> c) /\
               (forall d0, In d0 sep -> In d0 (r_dims (s_joined s1)))).
        { intros c Hc. unfold s1, acc_st. cbn [s_csep s_joined]. destruct (Z.eq_dec c s) as [->|Hcs].
          - exists (r_dims u). split; [apply lookup_dict_set_same; apply Z.eqb_eq|]. split; [exact Hl|].
            intros d0 Hd0. apply dims_join. right; auto.
          - destruct (e_sep _ _ _ _ _ (g_edge _ _ _ I c d Hc) (Hnotw c Hcs)) as (sep & L1 & L2 & L3).
            exists sep. split; [unfold zlookup; rewrite lookup_dict_set_other by (try apply Z.eqb_eq; auto); exact L1|].
            split; auto. intros d0 Hd0. apply dims_join. left. apply L3; auto. }
        assert (Hsc : forall c, parent P c = Some d -> sent R S c = true).
        { intros c Hc. destruct (Z.eq_dec c s) as [->|Hcs]; auto.
          destruct (sent R S c) eqn:E; auto.
          pose proof (e_wait _ _ _ _ _ (g_edge _ _ _ I c d Hc) E) as H. destruct (Hnotw c Hcs H). }
        unfold is_root in Hs. destruct (parent P d) as [p|] eqn:Epar.
        * destruct (projection_some P (join_own P d (s_joined s1)) d) as (u' & Ep & _).
          { apply jf_self; auto. }
          rewrite (send_util_eq d s1 p u' Epar Ep) in Hs. inversion Hs; subst st' outs evs; clear Hs.
          split; [|noraise].
          apply (trans_util R S Pi R' S' Pi' d I HdN HR' s1 base [(p, MUtil u')]
                   (set_joined s1 (join_own P d (s_joined s1))) N1 Hw Hf1 Hsd Hb_c Hb_o Hsep1 Hsc HS' HP' p u'); auto.
        * destruct (fao_ok P d (join_own P d (s_joined s1))) as (v & k & Ef).
          { apply jf_root; auto. }
          { apply (dv_dom _ _ _ V); auto. }
          rewrite (root_select_eq d s1 v k Ef) in Hs. inversion Hs; subst st' outs evs; clear Hs.
          split; [|noraise].
          apply (trans_root R S Pi R' S' Pi' d I HdN HR' s1 base
                   (map (fun c => (c, MValue [d] [v])) (children P d))
                   (mkSt (join_own P d (s_joined s1)) (s_waited s1) (s_csep s1) (Some (v, k)) true (s_late s1))
                   N1 Hw Hsd Hb_c Hb_o Hsep1 Hsc HS' HP' v k); auto.
      + rewrite (on_util_eq_acc d (S d) s u Hz) in Hs by (rewrite Erem; discriminate).
        inversion Hs; subst st' outs evs; clear Hs. split; [|intros ? ? []].
        apply (trans_acc R S Pi R' S' Pi' d I HdN HR' s u q Hp Hpi).
        * unfold W. rewrite Erem. discriminate.
        * exact HS'.
        * intros a b. rewrite HP'. destruct (Z.eqb a d); simpl; rewrite app_nil_r; reflexivity.
    - (* a VALUE from the parent s *)
      destruct (par_in P dep B V _ _ Hp) as [HdN HsN].
      destruct (down_pipe_inv R S Pi I d s _ _ Hp Hpi) as (Hfs & Hfd & Hq & vars & vals & -> & G).
      unfold dpop_recv in Hs. unfold fin in Hfd. rewrite Hfd in Hs.
      destruct (value_handler_ok R S Pi S' Pi' d I HdN s vars vals q Hp Hpi) as [(r & Er & Hdr) Hcs].
      destruct (fao_ok P d r Hdr) as (v & k & Ef). { apply (dv_dom _ _ _ V); auto. }
      rewrite (on_value_eq d (S d) vars vals r v k Er Ef Hcs) in Hs.
      inversion Hs; subst st' outs evs; clear Hs. split; [|noraise].
      apply (trans_value R S Pi R' S' Pi' d I HdN HR' s vars vals q Hp Hpi r v k Er Ef HS' HP').
  Qed.

  (* ---------------------------------------------------------------- *)
  (*  lifting to Net.v                                                  *)
  (* ---------------------------------------------------------------- *)
  Notation PR := (dpop_proto P).
  Definition Inv (cf : config st msg) : Prop :=
    held_ok cf /\ InvA (rn cf) (stt cf) (pipe cf).

  Lemma Inv_init : Inv (init PR).
  Proof.
    split; [apply held_ok_init|].
    assert (Est : forall x, stt (init PR) x = dpop_init P x) by reflexivity.
    assert (Ern : forall x, rn (init PR) x = false) by reflexivity.
    constructor.
    - intros x Hx. constructor; unfold sent, fin, selv, J, W; rewrite ?Est, ?Ern;
        cbn [dpop_init s_joined s_waited s_fin s_value andb]; try discriminate.
      + rewrite init_dims. repeat constructor. intros [].
      + rewrite init_dims. left; auto.
      + rewrite init_dims. intros d [<-|[]]. left; auto.
      + auto.
      + apply (dv_chnd _ _ _ V).
      + intros c Hc Hn. contradiction.
      + intros _ a Ha. rewrite init_eval by (apply Ha; left; auto). reflexivity.
    - intros c x Hp. constructor; unfold sent, fin, J, W; rewrite ?Est, ?Ern;
        cbn [dpop_init s_joined s_waited s_fin s_value s_csep andb]; auto; try discriminate.
      + intros _. apply (par_child P dep B V); auto.
      + intros Hn. exfalso. apply Hn. apply (par_child P dep B V); auto.
    - reflexivity.
    - intros x Hx. unfold fin. rewrite Est. cbn. discriminate.
    - reflexivity.
  Qed.

  Lemma step_inv cf a : Inv cf ->
    Inv (fst (step PR cf a)) /\ no_tree_raise (snd (step PR cf a)).
  Proof.
    intros [Hh I]. destruct (step_cases PR cf a Hh) as [K Hh'].
    destruct K as [H1 H2 H3 H4 | n st' outs Hr Hs H1 H2 H3 | s d mm q st' outs Hr Hpi Hs H1 H2 H3].
    - split; [split; auto|].
      + apply (InvA_ext (rn cf) (stt cf) (pipe cf)); auto.
      + rewrite H4. intros ? ? [].
    - destruct (start_case _ _ _ _ _ _ n st' outs _ I Hr Hs H1 H2 H3) as [I' Hn]. split; [split; auto|auto].
    - destruct (recv_case _ _ _ _ _ _ s d mm q st' outs _ I Hr Hpi Hs H1 H2 H3) as [I' Hn]. split; [split; auto|auto].
  Qed.

  Lemma exec_inv sched : forall cf, Inv cf ->
    Inv (fst (exec PR cf sched)) /\ no_tree_raise (snd (exec PR cf sched)).
  Proof.
    induction sched as [|a r IH]; intros cf HI; simpl.
    - split; auto. intros ? ? [].
    - destruct (step_inv cf a HI) as [H1 H2]. destruct (step PR cf a) as [cf1 e1]. cbn [fst snd] in *.
      destruct (IH cf1 H1) as [H3 H4]. destruct (exec PR cf1 r) as [cf2 e2]. cbn [fst snd] in *.
      split; auto. intros n k Hin. apply in_app_or in Hin. destruct Hin; [eapply H2|eapply H4]; eauto.
  Qed.

  Lemma run_inv sched : Inv (fst (run PR sched)) /\ no_tree_raise (snd (run PR sched)).
  Proof. apply exec_inv. apply Inv_init. Qed.

  (* ---------------------------------------------------------------- *)
  (*  quiescence: every node started, nothing in flight                 *)
  (* ---------------------------------------------------------------- *)
  Lemma ext_complete L : forall b a, in_dom D a L ->
    exists e, In e (ext P L b) /\ forall d, In d L -> aval e d = aval a d.
  Proof.
    induction L as [|y r IH]; intros b a Ha.
    - exists b. split; [left; auto|intros d []].
    - destruct (IH ((y, Z.of_nat (aval a y)) :: b) a) as (e & He & Hag).
      { intros d Hd. apply Ha. right; auto. }
      exists e. split.
      + simpl. apply in_flat_map. exists (aval a y). split; [|exact He].
        apply in_seq. split; [lia|]. simpl. apply Ha. left; auto.
      + intros d [<-|Hd]; [|auto]. destruct (in_dec Z.eq_dec y r) as [Hin|Hnin]; [auto|].
        rewrite (ext_aval_other P r _ e y He Hnin). apply aval_cons_same.
  Qed.

  Lemma cost_in_perm L L' a : Permutation L L' -> cost_in P L a = cost_in P L' a.
  Proof. unfold cost_in. induction 1; simpl; lia. Qed.

  Lemma mle_zsum {A} (f g : A -> Z) l : (forall r, In r l -> mle m (f r) (g r)) ->
    mle m (zsum (map f l)) (zsum (map g l)).
  Proof.
    induction l as [|r t IH]; intros H; simpl; [apply mle_refl|].
    assert (H1 : mle m (f r) (g r)) by (apply H; left; auto).
    assert (H2 : mle m (zsum (map f t)) (zsum (map g t))) by (apply IH; intros r' Hr'; apply H; right; auto).
    destruct m; simpl in *; lia.
  Qed.

  Lemma zlookup_map_fun (f : Z -> Z) L d :
    zlookup d (map (fun y => (y, f y)) L) = if zmem d L then Some (f d) else None.
  Proof.
    unfold zlookup. induction L as [|y r IH]; simpl; auto.
    destruct (Z.eqb d y) eqn:E; simpl; auto. apply Z.eqb_eq in E. subst. reflexivity.
  Qed.

  Section Final.
    Variables (R : Z -> bool) (S : Z -> st) (Pi : Z -> Z -> list msg).
    Hypothesis I : InvA R S Pi.
    Hypothesis Hrun : forall x, In x N -> R x = true.
    Hypothesis Hquiet : forall a b, Pi a b = [].

    Lemma final_sent : forall x, In x N -> sent R S x = true.
    Proof.
      apply (hgt_ind P dep B V (fun x => sent R S x = true)). intros x Hx IH.
      unfold sent. rewrite (Hrun x Hx). simpl. apply nilb_true.
      destruct (s_waited (S x)) as [|c r] eqn:E; auto. exfalso.
      pose proof (g_node _ _ _ I x Hx) as Nx.
      assert (Hc : In c (W S x)) by (unfold W; rewrite E; left; auto).
      pose proof (n_w_in _ _ _ Nx c Hc) as Hch. pose proof (child_par P dep B V _ _ Hch) as Hp.
      pose proof (e_up _ _ _ _ _ (g_edge _ _ _ I c x Hp)) as H. rewrite (IH c Hch) in H.
      apply zmem_In in Hc. rewrite Hc in H. simpl in H. destruct H as (u & Hu & _).
      rewrite Hquiet in Hu. discriminate.
    Qed.

    Lemma final_fin : forall x, In x N -> fin S x = true.
    Proof.
      apply (dep_ind P dep B V (fun x => fin S x = true)). intros x Hx IH.
      destruct (parent P x) as [p|] eqn:E.
      - pose proof (e_down _ _ _ _ _ (g_edge _ _ _ I x p E)) as H. rewrite (IH p eq_refl) in H.
        destruct (fin S x); auto. simpl in H. destruct H as (vs & vl & Hu & _).
        rewrite Hquiet in Hu. discriminate.
      - apply (n_root _ _ _ (g_node _ _ _ I x Hx)); auto. apply final_sent; auto.
    Qed.

    Definition sigma : asg := map (fun y => (y, selv S y)) N.

    Lemma aval_sigma d : In d N -> aval sigma d = Z.to_nat (selv S d).
    Proof.
      intros Hd. unfold aval, sigma. rewrite zlookup_map_fun. apply zmem_In in Hd. rewrite Hd. reflexivity.
    Qed.

    Lemma sel_dom x : In x N ->
      exists k, s_value (S x) = Some (selv S x, k) /\ 0 <= selv S x /\ (Z.to_nat (selv S x) < D x)%nat.
    Proof.
      intros Hx. destruct (n_fin _ _ _ (g_node _ _ _ I x Hx) (final_fin x Hx)) as (_ & v & k & Ev & H0 & H1).
      unfold selv. rewrite Ev. exists k. auto.
    Qed.

    Lemma sigma_dom : in_dom D sigma N.
    Proof. intros d Hd. rewrite aval_sigma by auto. destruct (sel_dom d Hd) as (_ & _ & _ & H). exact H. Qed.

    Lemma dims_in_N x d : In x N -> In d (r_dims (J S x)) -> In d N.
    Proof.
      intros Hx Hd. destruct (n_up _ _ _ (g_node _ _ _ I x Hx) d Hd) as [->|Ha]; auto.
      apply (anc_in P dep B V _ _ Ha).
    Qed.

    Lemma sub_opt : forall x, In x N ->
      is_best m (map (cost_in P (desc x)) (ext P (desc x) sigma)) (cost_in P (desc x) sigma).
    Proof.
      apply (hgt_ind P dep B V
               (fun x => is_best m (map (cost_in P (desc x)) (ext P (desc x) sigma)) (cost_in P (desc x) sigma))).
      intros x Hx IH. pose proof (g_node _ _ _ I x Hx) as Nx.
      destruct (sel_dom x Hx) as (_ & _ & Hs0 & Hs1).
      assert (Hdom : forall w, (w < D x)%nat -> in_dom D ((x, Z.of_nat w) :: sigma) (r_dims (J S x))).
      { intros w Hw d Hd. destruct (Z.eq_dec d x) as [->|Hne]; [rewrite aval_cons_same; exact Hw|].
        rewrite aval_cons_other by auto. apply sigma_dom. eapply dims_in_N; eauto. }
      apply (choice_step_flat P desc x sigma (fun w => eval (J S x) ((x, Z.of_nat w) :: sigma))).
      - apply (desc_unfold P dep B V); auto.
      - apply (dv_chnd _ _ _ V).
      - apply (tree_own P dep B V); auto.
      - apply (tree_dis P dep B V).
      - intros w Hw. exists (map (fun c => OPT c ((x, Z.of_nat w) :: sigma)) (children P x)). split.
        + destruct (n_semB _ _ _ Nx (final_sent x Hx)) as (Hsem & _ & _). apply Hsem. apply Hdom. exact Hw.
        + apply Forall2_map_r. intros c Hc. apply (OPT_best P dep B V). apply (child_in P dep B V _ _ Hc).
      - rewrite aval_sigma by auto. exact Hs1.
      - destruct (g_choice _ _ _ I x Hx (final_fin x Hx)) as [_ C2]. specialize (C2 sigma).
        rewrite aval_sigma by auto. rewrite Z2Nat.id by exact Hs0. apply C2.
        intros d Hd Hne. apply aval_sigma. eapply dims_in_N; eauto.
      - intros c Hc. apply IH. exact Hc.
    Qed.

    Lemma root_opt r a : In r (roots P) -> in_dom D a N ->
      mle m (cost_in P (desc r) sigma) (cost_in P (desc r) a).
    Proof.
      intros Hr Ha. pose proof Hr as Hr'. apply root_spec in Hr'. destruct Hr' as [HrN _].
      destruct (sub_opt r HrN) as [_ Hle].
      destruct (ext_complete (desc r) sigma a) as (e & He & Hag).
      { intros d Hd. apply Ha. eapply (desc_in P dep B V); eauto. }
      assert (Hc : cost_in P (desc r) e = cost_in P (desc r) a).
      { apply cost_in_dep. intros d Hd. apply Hag. apply (root_sv P dep B V); auto. }
      rewrite <- Hc. apply Hle. apply in_map. exact He.
    Qed.

    Theorem final_optimal a : in_dom D a N -> mle m (cost_in P N sigma) (cost_in P N a).
    Proof.
      intros Ha. rewrite !(cost_in_perm N _ _ (roots_partition P dep B V)). rewrite !cost_in_flat_map.
      apply mle_zsum. intros r Hr. apply root_opt; auto.
    Qed.
  End Final.
End Inv.

(* ------------------------------------------------------------------ *)
(*  the events of a run: a finished node has emitted its selection and  *)
(*  its finished notification (any dcop, any schedule)                  *)
(* ------------------------------------------------------------------ *)
Section Events.
  Variable P : dcop.
  Notation PR := (dpop_proto P).

  Definition Qev (cf : config st msg) (evs : list ev) : Prop :=
    forall x, s_fin (stt cf x) = true ->
      exists v c, s_value (stt cf x) = Some (v, c) /\ In (EvSelect x v c) evs /\ In (EvFinished x) evs.

  Lemma shape_Q x s s' e1 : shape P x s s' e1 -> s_fin s' = true ->
    (s_fin s = true /\ s_value s' = s_value s) \/
    exists v c, s_value s' = Some (v, c) /\ In (EvSelect x v c) e1 /\ In (EvFinished x) e1.
  Proof.
    intros [(_ & Hf & Hv)|(pre & v & c & -> & _ & _ & Hv & _)] H.
    - left. split; congruence.
    - right. exists v, c. split; auto. split; apply in_or_app; right; simpl; auto.
  Qed.

  Lemma Q_node cf evs e1 x s' : Qev cf evs -> shape P x (stt cf x) s' e1 -> s_fin s' = true ->
    exists v c, s_value s' = Some (v, c) /\ In (EvSelect x v c) (evs ++ e1) /\ In (EvFinished x) (evs ++ e1).
  Proof.
    intros HQ Hsh Hf. destruct (shape_Q _ _ _ _ Hsh Hf) as [[Hf0 Hv]|(v & c & A & B1 & C)].
    - destruct (HQ x Hf0) as (v & c & A & B1 & C). exists v, c. rewrite Hv. rewrite !in_app_iff. auto.
    - exists v, c. rewrite !in_app_iff. auto.
  Qed.

  Lemma step_Q cf a evs : held_ok cf -> Qev cf evs -> Qev (fst (step PR cf a)) (evs ++ snd (step PR cf a)).
  Proof.
    intros Hh HQ. destruct (step_cases PR cf a Hh) as [K _].
    destruct K as [H1 H2 H3 H4 | n st' outs Hr Hs H1 H2 H3 | s d mm q st' outs Hr Hpi Hs H1 H2 H3]; intros x Hf.
    - rewrite H2 in *. destruct (HQ x Hf) as (v & c & A & B1 & C). exists v, c. rewrite !in_app_iff. auto.
    - destruct (Z.eq_dec x n) as [E|Hne].
      + subst x. rewrite H2, Z.eqb_refl in *. cbn in Hs. apply start_shape in Hs. eapply Q_node; eauto.
      + assert (E : stt (fst (step PR cf a)) x = stt cf x).
        { rewrite H2. apply Z.eqb_neq in Hne. rewrite Hne. reflexivity. }
        rewrite E in *. destruct (HQ x Hf) as (v & c & A & B1 & C). exists v, c. rewrite !in_app_iff. auto.
    - destruct (Z.eq_dec x d) as [E|Hne].
      + subst x. rewrite H2, Z.eqb_refl in *. cbn in Hs. apply recv_shape in Hs. destruct Hs as [_ Hs].
        eapply Q_node; eauto.
      + assert (E : stt (fst (step PR cf a)) x = stt cf x).
        { rewrite H2. apply Z.eqb_neq in Hne. rewrite Hne. reflexivity. }
        rewrite E in *. destruct (HQ x Hf) as (v & c & A & B1 & C). exists v, c. rewrite !in_app_iff. auto.
  Qed.

  Lemma exec_Q sched : forall cf evs0, held_ok cf -> Qev cf evs0 ->
    Qev (fst (exec PR cf sched)) (evs0 ++ snd (exec PR cf sched)).
  Proof.
    induction sched as [|a r IH]; intros cf evs0 Hh HQ; simpl.
    - rewrite app_nil_r. exact HQ.
    - pose proof (step_Q cf a evs0 Hh HQ) as H1. destruct (step_cases PR cf a Hh) as [_ Hh1].
      destruct (step PR cf a) as [cf1 e1]. cbn [fst snd] in *.
      pose proof (IH cf1 (evs0 ++ e1) Hh1 H1) as H2.
      destruct (exec PR cf1 r) as [cf2 e2]. cbn [fst snd] in *. rewrite app_assoc. exact H2.
  Qed.

  Lemma run_Q sched : Qev (fst (run PR sched)) (snd (run PR sched)).
  Proof.
    apply (exec_Q sched (init PR) []).
    - apply held_ok_init.
    - intros x Hf. cbn in Hf. discriminate.
  Qed.

  Lemma count_fin_ge x evs : In (EvFinished x) evs -> (1 <= count_finished x evs)%nat.
  Proof.
    unfold count_finished. induction evs as [|e r IH]; simpl; intros H; [tauto|]. destruct H as [->|H].
    - simpl. rewrite Z.eqb_refl. lia.
    - specialize (IH H). lia.
  Qed.
  Lemma count_sel_ge x v c evs : In (EvSelect x v c) evs -> (1 <= count_selected x evs)%nat.
  Proof.
    unfold count_selected. induction evs as [|e r IH]; simpl; intros H; [tauto|]. destruct H as [->|H].
    - simpl. rewrite Z.eqb_refl. lia.
    - specialize (IH H). lia.
  Qed.
End Events.

(* ------------------------------------------------------------------ *)
(*  C01 : the all-schedules theorems                                    *)
(* ------------------------------------------------------------------ *)
(* a complete final configuration: every node of the tree started, no message in a channel
   (hold buffers of started nodes are empty by construction of Net.v) *)
Definition complete (P : dcop) (cf : config st msg) : Prop :=
  (forall x, In x (tree_ids P) -> w_running (nodes cf x) = true) /\
  (forall a b, In a (tree_ids P) -> In b (tree_ids P) -> chan cf a b = []).

(* the same as a boolean (for examples) *)
Definition completeb (P : dcop) (cf : config st msg) : bool :=
  forallb (fun x => w_running (nodes cf x)) (tree_ids P)
  && forallb (fun a => forallb (fun b => nilb (chan cf a b)) (tree_ids P)) (tree_ids P).

Lemma completeb_complete P cf : completeb P cf = true -> complete P cf.
Proof.
  unfold completeb. intros H. apply andb_true_iff in H. destruct H as [H1 H2].
  rewrite forallb_forall in H1, H2. split; [exact H1|].
  intros a b Ha Hb. specialize (H2 a Ha). rewrite forallb_forall in H2. apply nilb_true. apply H2. exact Hb.
Qed.

Definition chosen (cf : config st msg) (x : Z) : Z :=
  match s_value (w_st (nodes cf x)) with Some (v, _) => v | None => 0 end.
Definition assignment (P : dcop) (cf : config st msg) : asg :=
  map (fun y => (y, chosen cf y)) (tree_ids P).
(* the cost of an assignment, every constraint counted at the node that keeps it *)
Definition total_cost (P : dcop) (a : asg) : Z := cost_in P (tree_ids P) a.

Theorem inv_all_schedules P dep B : dvalid P dep B -> forall sched,
  Inv P dep B (fst (run (dpop_proto P) sched)).
Proof. intros V sched. exact (proj1 (run_inv P dep B V sched)). Qed.

Theorem no_raise_all_schedules P sched : dpop_valid P ->
  forall n k, In (EvRaise n k) (snd (run (dpop_proto P) sched)) -> ~ In n (tree_ids P).
Proof.
  intros (dep & B & V). destruct (run_inv P dep B V sched) as [_ H]. exact H.
Qed.

Lemma complete_quiet P dep B (V : dvalid P dep B) cf : Inv P dep B cf -> complete P cf ->
  (forall x, In x (tree_ids P) -> rn cf x = true) /\ (forall a b, pipe cf a b = []).
Proof.
  intros [Hh I] [Hrun Hch]. split; [exact Hrun|]. intros a b.
  destruct (pipe cf a b) as [|mm l] eqn:E; auto. exfalso.
  assert (Hne : pipe cf a b <> []) by (rewrite E; discriminate).
  assert (HabN : In a (tree_ids P) /\ In b (tree_ids P)).
  { destruct (pipe_edge P dep B _ _ _ I a b Hne) as [H|H]; apply (par_in P dep B V) in H; tauto. }
  destruct HabN as [HaN HbN].
  unfold pipe in E. rewrite (Hh b (Hrun b HbN)), (Hch a b HaN HbN) in E. discriminate.
Qed.

Theorem complete_all_finished P sched : dpop_valid P ->
  let r := run (dpop_proto P) sched in complete P (fst r) ->
  forall x, In x (tree_ids P) ->
    s_fin (w_st (nodes (fst r) x)) = true /\
    count_finished x (snd r) = 1%nat /\ count_selected x (snd r) = 1%nat /\
    exists v c, s_value (w_st (nodes (fst r) x)) = Some (v, c) /\ In (EvSelect x v c) (snd r) /\
                0 <= v < Z.of_nat (dsize P x).
Proof.
  intros (dep & B & V) r Hc x Hx. destruct (run_inv P dep B V sched) as [HI _]. fold r in HI.
  destruct (complete_quiet P dep B V _ HI Hc) as [Hrun Hq]. destruct HI as [Hh I].
  pose proof (final_fin P dep B V _ _ _ I Hrun Hq x Hx) as Hf. unfold fin, stt in Hf.
  destruct (run_Q P sched x Hf) as (v & c & A & B1 & C). fold r in A, B1, C.
  destruct (all_schedules_once_in_domain P sched) as (H1 & H2 & _). cbv zeta in H1, H2. fold r in H1, H2.
  destruct (H1 x) as [F1 F2]. pose proof (count_fin_ge x _ C). pose proof (count_sel_ge x v c _ B1).
  split; [exact Hf|]. split; [lia|]. split; [lia|]. exists v, c. split; [exact A|]. split; [exact B1|].
  apply (H2 x v c B1).
Qed.

Theorem optimal_at_completion P sched : dpop_valid P ->
  let r := run (dpop_proto P) sched in complete P (fst r) ->
  let sg := assignment P (fst r) in
  in_dom (dsize P) sg (tree_ids P) /\
  forall a, in_dom (dsize P) a (tree_ids P) -> mle (dc_mode P) (total_cost P sg) (total_cost P a).
Proof.
  intros (dep & B & V) r Hc sg. destruct (run_inv P dep B V sched) as [HI _]. fold r in HI.
  destruct (complete_quiet P dep B V _ HI Hc) as [Hrun Hq]. destruct HI as [Hh I]. split.
  - exact (sigma_dom P dep B V _ _ _ I Hrun Hq).
  - intros a Ha. exact (final_optimal P dep B V _ _ _ I Hrun Hq a Ha).
Qed.
