(* P_AMaxSum2.v -- C05 deepening 2: asynchronous A-Max-Sum (amaxsum.py, [amaxsum_proto] of M_MaxSum.v) is exact on
   forests at quiescence, for EVERY schedule of the asynchronous network.

   Route (no rounds here -- the order of messages is schedule dependent):
   1. [pend cf a b] = the table computation b will end up holding for its neighbour a once everything that is
      queued from a to b (buffered before b's start, or in the channel) has been handled.  Invariant of every
      reachable configuration ([amaxsum_edge_consistent_l]): for every edge a->b of the factor graph, if a is
      running and "may speak" (a variable; or a factor whose costs dict is complete) then
      [pend cf a b = comp_table a (costs of a) b] -- the last message on the edge (delivered, in flight, held,
      or withheld by the SAME_COUNT/approx_match block as an exact repeat) is the table a computes from what
      it holds NOW.  Needs stability 0, damping 0 and [spoken_ok] (start_messages leafs_vars or all).
   2. At quiescence every factor is complete, so the costs dicts are a FIXED POINT of the message equations;
      on a forest every fixed point is the exact min/max-marginal of the subtree behind the edge, up to an explicit
      constant ([fp_tree_messages], induction on the height, reusing var_step / fac_step of P_MaxSum4).
   3. Hence select_value returns the optimum's value ([root_select]) and, since current_value is always the
      selection on the current costs, the selected assignment is the unique optimum ([amaxsum_tree_exact_l]). *)
From Coq Require Import QArith Qabs Lia Permutation.
From PyDcop Require Import Base Net M_SyncMixin P_SyncMixin M_MaxSum P_MaxSum P_MaxSum2 P_MaxSum3 P_MaxSum4 P_MaxSum5.
Local Open Scope nat_scope.
Local Notation length := List.length.

(* ------------------------------------------------------------------ lists *)
(* the values stored under key k, in order *)
Definition sel {V} (k : node) (l : list (node * V)) : list V := map snd (filter (fun p => Z.eqb (fst p) k) l).
Definition last_opt {A} (l : list A) : option A := match rev l with [] => None | x :: _ => Some x end.

Lemma last_opt_app {A} (l l' : list A) :
  last_opt (l ++ l') = match last_opt l' with Some x => Some x | None => last_opt l end.
Proof. unfold last_opt. rewrite rev_app_distr. destruct (rev l'); reflexivity. Qed.

Lemma last_opt_nil_r {A} (l : list A) : last_opt (l ++ []) = last_opt l.
Proof. now rewrite app_nil_r. Qed.

Lemma last_opt_cons {A} (x : A) l : l <> [] -> last_opt (x :: l) = last_opt l.
Proof.
  intros H. change (x :: l) with ([x] ++ l). rewrite last_opt_app.
  destruct (last_opt l) eqn:E; auto. unfold last_opt in E. destruct (rev l) eqn:R; [|discriminate].
  apply (f_equal (@rev A)) in R. rewrite rev_involutive in R. simpl in R. contradiction.
Qed.

Lemma sel_app {V} k (l l' : list (node * V)) : sel k (l ++ l') = sel k l ++ sel k l'.
Proof. unfold sel. now rewrite filter_app, map_app. Qed.

Lemma sel_lookup {V} k (l : list (node * V)) : NoDup (map fst l) ->
  sel k l = match zlookup k l with Some t => [t] | None => [] end.
Proof.
  unfold sel, zlookup. induction l as [|[k' v] r IH]; simpl; intros H; [reflexivity|].
  inversion H as [|? ? Hnin Hnd]; subst. rewrite (Z.eqb_sym k' k).
  destruct (Z.eqb_spec k k') as [->|Hne]; simpl.
  - rewrite (IH Hnd). fold (@zlookup V k' r). now rewrite (zlookup_notin k' r Hnin).
  - now apply IH.
Qed.

Lemma sel_nil_notin {V} k (l : list (node * V)) : ~ In k (map fst l) -> sel k l = [].
Proof.
  unfold sel. induction l as [|[k' v] r IH]; simpl; intros H; [reflexivity|].
  destruct (Z.eqb_spec k' k) as [->|Hne]; [exfalso; apply H; left; reflexivity|].
  apply IH. intros Hc. apply H. right; exact Hc.
Qed.

Lemma sel_in_key {V} k (l : list (node * V)) : sel k l <> [] -> In k (map fst l).
Proof.
  intros H. destruct (in_dec Z.eq_dec k (map fst l)) as [Hin|Hn]; auto.
  exfalso. apply H. now apply sel_nil_notin.
Qed.

(* ------------------------------------------------------------------ channels *)
Section Chan.
  Context {Msg : Type}.

  Lemma send_all_spec (outs : list (node * Msg)) : forall c src s d,
    send_all c src outs s d = if Z.eqb s src then c s d ++ sel d outs else c s d.
  Proof.
    induction outs as [|[d0 m] r IH]; intros c src s d; simpl.
    - unfold sel. simpl. rewrite app_nil_r. destruct (Z.eqb s src); reflexivity.
    - rewrite IH. unfold upd_chan, sel. simpl.
      destruct (Z.eqb_spec s src) as [->|Hs]; simpl; [|reflexivity].
      rewrite (Z.eqb_sym d0 d).
      destruct (Z.eqb_spec d d0) as [->|Hd]; simpl; [|reflexivity].
      now rewrite <- app_assoc.
  Qed.

  Lemma reinject_all_spec (l : list (node * Msg)) : forall c dst s d,
    reinject_all c dst l s d = if Z.eqb d dst then sel s l ++ c s d else c s d.
  Proof.
    induction l as [|[s0 m] r IH]; intros c dst s d; simpl.
    - destruct (Z.eqb d dst); reflexivity.
    - unfold upd_chan. fold (reinject_all c dst r). rewrite !IH. unfold sel. simpl.
      rewrite (Z.eqb_sym s0 s).
      destruct (Z.eqb_spec s s0) as [->|Hs]; simpl.
      + destruct (Z.eqb_spec d dst) as [->|Hd]; simpl; [|reflexivity]. now rewrite Z.eqb_refl.
      + reflexivity.
  Qed.
End Chan.

Definition spoken_ok (P : params) : Prop := p_start P = 1 \/ p_start P = 2.

Section Async.
  Variable P : params.
  Variable G : dcop.
  Hypothesis Hwf : wf_dcop G.
  Notation AP := (amaxsum_proto P G).
  Notation cfg := (config nst table).
  Notation ctab := (comp_table P G).
  Notation dmp := (dampon P G).
  Notation mx := (p_max P).

  Definition recv_targets (d : node) (c c' : list (node * table)) (s : node) : list node :=
    if is_var G d then filter (fun f => negb (Z.eqb s f)) (nbrs G d)
    else if Nat.eqb (length c') (length (nbrs G d))
         then filter (fun v => negb (Z.eqb v s && Nat.eqb (length c) (length (nbrs G d)))) (nbrs G d)
         else [].

  Lemma recv_targets_ok d c c' s : NoDup (recv_targets d c c' s) /\ incl (recv_targets d c c' s) (nbrs G d).
  Proof.
    pose proof (maxsum_graph_ok_l G Hwf) as [Hnd _].
    unfold recv_targets. destruct (is_var G d).
    - split; [apply NoDup_filter; apply Hnd | intros x Hx; apply filter_In in Hx; tauto].
    - destruct (Nat.eqb _ _).
      + split; [apply NoDup_filter; apply Hnd | intros x Hx; apply filter_In in Hx; tauto].
      + split; [constructor | intros x []].
  Qed.

  Lemma current_value_log st d c : current_value (log_sel st d c) = Some d.
  Proof. unfold current_value, log_sel. simpl. now rewrite rev_unit. Qed.

  (* normal form of _on_maxsum_msg (variable and factor computations alike) *)
  Lemma ams_recv_nf d st s m : nbrs G d <> [] ->
    let c' := dict_set Z.eqb s m (n_costs st) in
    let E := emit_all P (dmp d) (ctab d c') (n_prev st) (recv_targets d (n_costs st) c' s) in
    let r := ams_recv P G d st s m in
    n_costs (fst (fst r)) = c' /\ n_prev (fst (fst r)) = snd E /\ snd (fst r) = fst E /\
    (forall vd, zlookup d (d_vars G) = Some vd ->
       current_value (fst (fst r)) = Some (fst (select_value mx vd c'))).
  Proof.
    intros Hne. cbv zeta. unfold recv_targets, comp_table, dampon, is_var, ams_recv.
    destruct (nbrs_cases G d) as [[vd [Hv Hn]]|[[fd [Hnv [Hf [Hin Hn]]]]|[Hnv [Hnf Hn]]]].
    - rewrite Hv, Hn. unfold var_select, var_send, set_costs. simpl.
      destruct (select_value mx vd _) as [dd cc] eqn:Es. simpl.
      destruct (emit_all _ _ _ _ _) as [outs prev'] eqn:Ee. simpl.
      split; [reflexivity|]. split; [reflexivity|]. split; [reflexivity|].
      intros vd' Hvd'. inversion Hvd'; subst vd'. rewrite Es. simpl.
      unfold current_value. simpl. now rewrite rev_unit.
    - rewrite Hnv, Hf, Hn. unfold set_costs. simpl.
      match goal with |- context [if Nat.eqb ?a ?b then _ else _] => destruct (Nat.eqb a b) eqn:El end.
      + unfold fac_send. simpl.
        destruct (emit_all _ _ _ _ _) as [outs prev'] eqn:Ee. simpl.
        split; [reflexivity|]. split; [reflexivity|]. split; [reflexivity|].
        intros vd' Hvd'. discriminate.
      + simpl. split; [reflexivity|]. split; [reflexivity|]. split; [reflexivity|].
        intros vd' Hvd'. discriminate.
    - congruence.
  Qed.

  Lemma ams_start_fst n st : fst (ams_start P G n st) = node_start P G false n st.
  Proof. unfold ams_start. destruct (node_start P G false n st). reflexivity. Qed.

  Lemma ams_start_nf n st :
    let r := ams_start P G n st in
    n_costs (fst (fst r)) = n_costs st /\ n_prev (fst (fst r)) = n_prev st /\
    targets_ok (nbrs G) n (snd (fst r)) /\
    (spoken_ok P ->
       (forall b, In b (nbrs G n) -> zlookup b (snd (fst r)) = Some (ctab n (n_costs st) b)) \/
       (is_var G n = false /\ snd (fst r) = [] /\ length (nbrs G n) <> 1)) /\
    (forall vd, zlookup n (d_vars G) = Some vd ->
       current_value (fst (fst r)) = Some (fst (select_value mx vd (n_costs st))) \/ v_init vd <> None).
  Proof.
    cbv zeta. rewrite ams_start_fst.
    split; [apply node_start_costs|]. split; [apply node_start_prev|].
    split; [apply (node_start_targets P G Hwf)|].
    unfold node_start, comp_table, is_var.
    destruct (nbrs_cases G n) as [[vd [Hv Hn]]|[[fd [Hnv [Hf [Hin Hn]]]]|[Hnv [Hnf Hn]]]].
    - rewrite Hv, Hn. split.
      + intros Hsp. left. intros b Hb. unfold var_start.
        assert (Hc : n_costs (match v_init vd with
                   | Some i => log_sel st i None
                   | None => let '(d, c) := select_value mx vd (n_costs st) in log_sel st d (Some c) end) = n_costs st).
        { destruct (v_init vd); [reflexivity|]. destruct (select_value _ _ _). reflexivity. }
        assert (Hs0 : Nat.eqb (p_start P) 0 = false) by (destruct Hsp as [-> | ->]; reflexivity).
        assert (Hs12 : Nat.eqb (p_start P) 1 || Nat.eqb (p_start P) 2 = true) by (destruct Hsp as [-> | ->]; reflexivity).
        rewrite Hs0, Hs12, andb_false_r. simpl. rewrite Hc.
        rewrite (zlookup_map_pairs (fun f => costs_for_factor vd (factors_of G n) (n_costs st) f)).
        apply zmem_In in Hb. now rewrite Hb.
      + intros vd' Hvd'. inversion Hvd'; subst vd'. unfold var_start.
        destruct (v_init vd) eqn:Ei; [right; discriminate|]. left.
        destruct (select_value mx vd (n_costs st)) as [dd cc]. simpl. apply current_value_log.
    - rewrite Hnv, Hf, Hn. split; [|intros vd' Hvd'; discriminate].
      intros Hsp. unfold fac_start.
      destruct (Nat.eqb (length (f_scope fd)) 1 && (Nat.eqb (p_start P) 0 || Nat.eqb (p_start P) 1)) eqn:E1.
      + left. intros b Hb. simpl.
        rewrite (zlookup_map_pairs (fun v => factor_costs_for_var (dom_of G) mx fd (n_costs st) v)).
        apply zmem_In in Hb. now rewrite Hb.
      + destruct (Nat.eqb (p_start P) 2) eqn:E2.
        * left. intros b Hb. simpl.
          rewrite (zlookup_map_pairs (fun v => factor_costs_for_var (dom_of G) mx fd (n_costs st) v)).
          apply zmem_In in Hb. now rewrite Hb.
        * right. split; [reflexivity|]. split; [reflexivity|].
          destruct Hsp as [Hs|Hs]; rewrite Hs in *; [|discriminate]. simpl in E1.
          rewrite andb_true_r in E1. now apply Nat.eqb_neq.
    - rewrite Hnv, Hnf, Hn. split; [|intros vd' Hvd'; discriminate].
      intros _. left. intros b [].
  Qed.

  (* ---------------------------------------------------------------- one step of the network, exactly *)
  Definition costs_ (cf : cfg) (n : node) := n_costs (w_st (nodes cf n)).
  Definition prevs_ (cf : cfg) (n : node) := n_prev (w_st (nodes cf n)).
  Definition run_ (cf : cfg) (n : node) := w_running (nodes cf n).
  Definition held_ (cf : cfg) (n : node) := w_held (nodes cf n).

  Lemma step_cases (cf : cfg) act :
    let cf' := fst (step AP cf act) in
    cf' = cf
    \/ (exists n, run_ cf n = false /\
          let r := ams_start P G n (w_st (nodes cf n)) in
          nodes cf' = upd_node (nodes cf) n (mkWrap true [] (fst (fst r))) /\
          forall s d, chan cf' s d =
            (if Z.eqb d n then sel s (held_ cf n) else []) ++ chan cf s d ++
            (if Z.eqb s n then sel d (snd (fst r)) else []))
    \/ (exists s d m q, chan cf s d = m :: q /\ run_ cf d = false /\
          nodes cf' = upd_node (nodes cf) d (mkWrap false (held_ cf d ++ [(s, m)]) (w_st (nodes cf d))) /\
          chan cf' = upd_chan (chan cf) s d q)
    \/ (exists s d m q, chan cf s d = m :: q /\ run_ cf d = true /\
          let r := ams_recv P G d (w_st (nodes cf d)) s m in
          nodes cf' = upd_node (nodes cf) d (mkWrap true (held_ cf d) (fst (fst r))) /\
          forall x y, chan cf' x y =
            upd_chan (chan cf) s d q x y ++ (if Z.eqb x d then sel y (snd (fst r)) else [])).
  Proof.
    cbv zeta. unfold run_, held_. destruct act as [n|s d]; simpl.
    - destruct (w_running (nodes cf n)) eqn:R; [left; reflexivity|].
      right. left. exists n. split; [exact R|].
      destruct (ams_start P G n (w_st (nodes cf n))) as [[st' outs] evs]. simpl. split; [reflexivity|].
      intros s d. unfold reinject. rewrite reinject_all_spec, send_all_spec.
      destruct (Z.eqb d n), (Z.eqb s n); simpl; rewrite ?app_nil_r; reflexivity.
    - destruct (chan cf s d) as [|m q] eqn:C; [left; reflexivity|].
      destruct (w_running (nodes cf d)) eqn:R.
      + right. right. right. exists s, d, m, q. split; [exact C|]. split; [exact R|].
        destruct (ams_recv P G d (w_st (nodes cf d)) s m) as [[st' outs] evs]. simpl. split; [reflexivity|].
        intros x y. rewrite send_all_spec. destruct (Z.eqb x d); simpl; rewrite ?app_nil_r; reflexivity.
      + right. right. left. exists s, d, m, q. split; [exact C|]. split; [exact R|]. split; reflexivity.
  Qed.

  (* everything queued from a for b: buffered by b before its start, then the channel *)
  Definition stream (cf : cfg) (a b : node) : list table := sel a (held_ cf b) ++ chan cf a b.
  (* the table b will hold for a once the queue is drained *)
  Definition pend (cf : cfg) (a b : node) : option table :=
    match last_opt (stream cf a b) with Some m => Some m | None => zlookup a (costs_ cf b) end.

  Lemma upd_node_eq {S M} (f : node -> nwrap S M) n w x : upd_node f n w x = if Z.eqb x n then w else f x.
  Proof. reflexivity. Qed.

  Lemma stream_start (cf cf' : cfg) n st' (outs : list (node * table)) :
    nodes cf' = upd_node (nodes cf) n (mkWrap true [] st') ->
    (forall s d, chan cf' s d = (if Z.eqb d n then sel s (held_ cf n) else []) ++ chan cf s d ++
                               (if Z.eqb s n then sel d outs else [])) ->
    forall a b, stream cf' a b = stream cf a b ++ (if Z.eqb a n then sel b outs else []).
  Proof.
    intros Hn Hc a b. unfold stream, held_. rewrite Hn, Hc, upd_node_eq.
    destruct (Z.eqb_spec b n) as [->|Hb]; simpl; now rewrite <- ?app_assoc.
  Qed.

  Lemma stream_hold (cf cf' : cfg) s d m q :
    chan cf s d = m :: q ->
    nodes cf' = upd_node (nodes cf) d (mkWrap false (held_ cf d ++ [(s, m)]) (w_st (nodes cf d))) ->
    chan cf' = upd_chan (chan cf) s d q ->
    forall a b, stream cf' a b = stream cf a b.
  Proof.
    intros C Hn Hc a b. unfold stream, held_. rewrite Hn, Hc, upd_node_eq. unfold upd_chan.
    destruct (Z.eqb_spec b d) as [->|Hb]; simpl; [|now rewrite andb_false_r].
    rewrite andb_true_r, sel_app. unfold sel at 2. simpl. rewrite (Z.eqb_sym s a).
    destruct (Z.eqb_spec a s) as [->|Ha]; simpl.
    - now rewrite C, <- app_assoc.
    - now rewrite app_nil_r.
  Qed.

  Lemma stream_recv (cf cf' : cfg) s d q st' (outs : list (node * table)) :
    nodes cf' = upd_node (nodes cf) d (mkWrap true (held_ cf d) st') ->
    (forall x y, chan cf' x y = upd_chan (chan cf) s d q x y ++ (if Z.eqb x d then sel y outs else [])) ->
    forall a b, stream cf' a b =
      (if Z.eqb a s && Z.eqb b d then sel a (held_ cf b) ++ q else stream cf a b) ++
      (if Z.eqb a d then sel b outs else []).
  Proof.
    intros Hn Hc a b. unfold stream, held_ in *. rewrite Hn, Hc, upd_node_eq. unfold upd_chan.
    assert (Hh : w_held (if Z.eqb b d then mkWrap true (w_held (nodes cf d)) st' else nodes cf b) = w_held (nodes cf b)).
    { destruct (Z.eqb_spec b d) as [->|Hb]; reflexivity. }
    rewrite Hh. destruct (Z.eqb a s && Z.eqb b d); now rewrite app_assoc.
  Qed.

  (* ---------------------------------------------------------------- basic invariants *)
  Definition inv0 (cf : cfg) : Prop :=
    (forall n, run_ cf n = false -> w_st (nodes cf n) = nst0) /\
    (forall n, run_ cf n = true -> held_ cf n = []) /\
    (forall s d, stream cf s d <> [] -> In d (nbrs G s)) /\
    (forall n, NoDup (map fst (costs_ cf n)) /\ incl (map fst (costs_ cf n)) (nbrs G n)) /\
    (forall x vd, zlookup x (d_vars G) = Some vd -> run_ cf x = true ->
        current_value (w_st (nodes cf x)) = Some (fst (select_value mx vd (costs_ cf x))) \/
        (costs_ cf x = [] /\ v_init vd <> None)).

  Lemma app_not_nil {A} (l l' : list A) : l ++ l' <> [] -> l <> [] \/ l' <> [].
  Proof. destruct l; simpl; [right; exact H | left; discriminate]. Qed.

  Lemma recv_outs_keys d st s m : nbrs G d <> [] ->
    NoDup (map fst (snd (fst (ams_recv P G d st s m)))) /\
    incl (map fst (snd (fst (ams_recv P G d st s m)))) (nbrs G d).
  Proof.
    intros Hne. destruct (ams_recv_nf d st s m Hne) as [_ [_ [Ho _]]]. rewrite Ho.
    match goal with |- context [emit_all ?a ?b ?c ?d ?e] =>
      pose proof (emit_all_keys a b c e d) as [H1 H2] end.
    destruct (recv_targets_ok d (n_costs st) (dict_set Z.eqb s m (n_costs st)) s) as [Hnd Hin].
    split; [now apply H2 | intros x Hx; apply Hin, H1, Hx].
  Qed.

  Lemma inv0_init : inv0 (init AP).
  Proof.
    unfold inv0, run_, held_, costs_, stream, held_. simpl. repeat split; auto; try discriminate.
    - intros s d H. exfalso. apply H. reflexivity.
    - constructor.
    - intros x [].
  Qed.

  Lemma inv0_step cf act : inv0 cf -> inv0 (fst (step AP cf act)).
  Proof.
    intros (Ia & Ib & Ic & Id & Ie).
    pose proof (maxsum_graph_ok_l G Hwf) as [Hgnd [Hsym Hirr]].
    destruct (step_cases cf act) as [E|[(n & Rn & Hn & Hc)|[(s & d & m & q & C & Rd & Hn & Hc)|(s & d & m & q & C & Rd & Hn & Hc)]]].
    - rewrite E. repeat split; auto; apply Id.
    - (* Start n *)
      cbv zeta in Hn, Hc.
      destruct (ams_start_nf n (w_st (nodes cf n))) as (Hco & Hpr & [Htn Hti] & _ & Hsel).
      cbv zeta in Hco, Hpr, Htn, Hti, Hsel.
      pose proof (stream_start cf _ n _ _ Hn Hc) as Hst.
      unfold inv0, run_, held_, costs_ in *. rewrite Hn. split; [|split; [|split; [|split]]].
      + intros x. rewrite upd_node_eq. destruct (Z.eqb_spec x n) as [->|Hx]; simpl; [discriminate | apply Ia].
      + intros x. rewrite upd_node_eq. destruct (Z.eqb_spec x n) as [->|Hx]; simpl; [reflexivity | apply Ib].
      + intros a b. rewrite Hst. intros H. apply app_not_nil in H as [H|H]; [now apply Ic|].
        destruct (Z.eqb_spec a n) as [->|Ha]; [|contradiction]. apply Hti. now apply sel_in_key.
      + intros x. rewrite upd_node_eq. destruct (Z.eqb_spec x n) as [->|Hx]; simpl; [rewrite Hco|]; apply Id.
      + intros x vd Hv. rewrite upd_node_eq. destruct (Z.eqb_spec x n) as [->|Hx]; simpl; [|apply Ie; auto].
        intros _. rewrite Hco. destruct (Hsel vd Hv) as [H|H]; [left; exact H|].
        right. split; auto. now rewrite (Ia n Rn).
    - (* Deliver to a computation that is not running: buffered *)
      pose proof (stream_hold cf _ s d m q C Hn Hc) as Hst.
      unfold inv0, run_, held_, costs_ in *. rewrite Hn. split; [|split; [|split; [|split]]].
      + intros x. rewrite upd_node_eq. destruct (Z.eqb_spec x d) as [->|Hx]; simpl; [intros _; now apply Ia | apply Ia].
      + intros x. rewrite upd_node_eq. destruct (Z.eqb_spec x d) as [->|Hx]; simpl; [discriminate | apply Ib].
      + intros a b. rewrite Hst. apply Ic.
      + intros x. rewrite upd_node_eq. destruct (Z.eqb_spec x d) as [->|Hx]; simpl; apply Id.
      + intros x vd Hv. rewrite upd_node_eq. destruct (Z.eqb_spec x d) as [->|Hx]; simpl; [discriminate | now apply Ie].
    - (* Deliver to a running computation *)
      cbv zeta in Hn, Hc.
      assert (Hds : In d (nbrs G s)).
      { apply Ic. unfold stream. rewrite C. intros H. apply app_eq_nil in H as [_ H]. discriminate. }
      assert (Hsd : In s (nbrs G d)) by now apply Hsym.
      assert (Hne : nbrs G d <> []) by (intros H; rewrite H in Hsd; contradiction).
      destruct (ams_recv_nf d (w_st (nodes cf d)) s m Hne) as (Hco & _ & _ & Hsel).
      destruct (recv_outs_keys d (w_st (nodes cf d)) s m Hne) as [_ Hti].
      cbv zeta in Hco, Hsel.
      pose proof (stream_recv cf _ s d q _ _ Hn Hc) as Hst.
      unfold inv0, run_, held_, costs_ in *. rewrite Hn. split; [|split; [|split; [|split]]].
      + intros x. rewrite upd_node_eq. destruct (Z.eqb_spec x d) as [->|Hx]; simpl; [discriminate | apply Ia].
      + intros x. rewrite upd_node_eq. destruct (Z.eqb_spec x d) as [->|Hx]; simpl; [intros _; now apply Ib | apply Ib].
      + intros a b. rewrite Hst. intros H.
        destruct (Z.eqb_spec a s) as [->|Ha]; simpl in H.
        * destruct (Z.eqb_spec b d) as [Hbd|Hb]; [rewrite Hbd; exact Hds|].
          apply app_not_nil in H as [H|H]; [now apply Ic|].
          destruct (Z.eqb_spec s d) as [->|Ha]; [|contradiction]. apply Hti. now apply sel_in_key.
        * apply app_not_nil in H as [H|H]; [now apply Ic|].
          destruct (Z.eqb_spec a d) as [->|Ha']; [|contradiction]. apply Hti. now apply sel_in_key.
      + intros x. rewrite upd_node_eq. destruct (Z.eqb_spec x d) as [->|Hx]; simpl; [|apply Id].
        rewrite Hco. destruct (Id d) as [H1 H2]. split; [now apply dict_set_nodup | now apply dict_set_keys_incl].
      + intros x vd Hv. rewrite upd_node_eq. destruct (Z.eqb_spec x d) as [->|Hx]; simpl; [|now apply Ie].
        intros _. left. rewrite Hco. now apply Hsel.
  Qed.

  Lemma inv0_reachable cf : reachable AP cf -> inv0 cf.
  Proof. induction 1; [apply inv0_init | now apply inv0_step]. Qed.

  (* ---------------------------------------------------------------- the table for b does not depend on what b sent *)
  Lemma ctab_indep d c s m : In s (nbrs G d) -> ctab d (dict_set Z.eqb s m c) s = ctab d c s.
  Proof.
    intros Hs. unfold comp_table.
    destruct (nbrs_cases G d) as [[vd [Hv Hn]]|[[fd [Hnv [Hf [Hin Hn]]]]|[Hnv [Hnf Hn]]]].
    - rewrite Hv. unfold costs_for_factor.
      assert (cff_others (factors_of G d) (dict_set Z.eqb s m c) s = cff_others (factors_of G d) c s) as ->; [|reflexivity].
      unfold cff_others. apply flat_map_ext. intros g.
      destruct (Z.eqb_spec g s) as [->|Hg]; [reflexivity|]. now rewrite zlookup_set_other.
    - rewrite Hnv, Hf. rewrite Hn in Hs. destruct Hwf as [_ Hsc]. destruct (Hsc d fd Hin) as [Hnd _].
      unfold factor_costs_for_var. apply map_ext. intros dd. do 2 f_equal.
      unfold fcv_at. apply fold_left_ext'. intros cur a. do 2 f_equal.
      unfold sum_recv. f_equal. apply map_ext_in. intros [y v] Hyv. apply in_combine_l in Hyv.
      rewrite (remove_at_index s (f_scope fd) Hs Hnd) in Hyv. apply filter_In in Hyv as [_ Hy].
      apply negb_true_iff, Z.eqb_neq in Hy. unfold recv_cost. simpl. now rewrite zlookup_set_other.
    - rewrite Hn in Hs. contradiction.
  Qed.

  (* ---------------------------------------------------------------- how [pend] moves *)
  Lemma last_opt_some {A} (l : list A) : l <> [] -> exists x, last_opt l = Some x.
  Proof.
    intros H. unfold last_opt. destruct (rev l) eqn:R; [|eauto].
    apply (f_equal (@rev A)) in R. rewrite rev_involutive in R. contradiction.
  Qed.

  Lemma pend_ext (cf cf' : cfg) a b X :
    stream cf' a b = stream cf a b ++ X -> zlookup a (costs_ cf' b) = zlookup a (costs_ cf b) ->
    pend cf' a b = match last_opt X with Some m => Some m | None => pend cf a b end.
  Proof.
    intros H1 H2. unfold pend. rewrite H1, last_opt_app, H2. destruct (last_opt X); reflexivity.
  Qed.

  Lemma pend_deliver (cf cf' : cfg) s d m q :
    stream cf s d = m :: q -> stream cf' s d = q -> costs_ cf' d = dict_set Z.eqb s m (costs_ cf d) ->
    pend cf' s d = pend cf s d.
  Proof.
    intros H1 H2 H3. unfold pend. rewrite H1, H2, H3. destruct q as [|m' q'].
    - simpl. apply zlookup_set_same.
    - rewrite (last_opt_cons m (m' :: q')) by discriminate.
      destruct (last_opt_some (m' :: q')) as [x ->]; [discriminate | reflexivity].
  Qed.

  Lemma recv_targets_out d c c' s b : In b (nbrs G d) -> ~ In b (recv_targets d c c' s) ->
    (is_var G d = true \/ length c' = length (nbrs G d)) ->
    b = s /\ (is_var G d = true \/ length c = length (nbrs G d)).
  Proof.
    intros Hb Hn Hok. unfold recv_targets in Hn. destruct (is_var G d) eqn:Ev.
    - split; [|left; reflexivity]. destruct (Z.eqb_spec s b) as [->|Hne]; [reflexivity|].
      exfalso. apply Hn. apply filter_In. split; auto. apply negb_true_iff. now apply Z.eqb_neq.
    - destruct Hok as [Hok|Hok]; [discriminate|]. apply Nat.eqb_eq in Hok. rewrite Hok in Hn.
      destruct (Z.eqb b s && Nat.eqb (length c) (length (nbrs G d))) eqn:E.
      + apply andb_true_iff in E as [E1 E2]. apply Z.eqb_eq in E1. apply Nat.eqb_eq in E2. auto.
      + exfalso. apply Hn. apply filter_In. split; auto. now rewrite E.
  Qed.

  (* ---------------------------------------------------------------- EDGE CONSISTENCY *)
  Hypothesis Hstab : (p_stab P == 0)%Q.
  Hypothesis Hdamp : (p_damp P == 0)%Q.
  Hypothesis Hsp : spoken_ok P.

  (* a computation "may speak": a variable always does; a factor waits for all its variables *)
  Definition sendok (cf : cfg) (a : node) : Prop :=
    is_var G a = true \/ length (costs_ cf a) = length (nbrs G a).

  Definition inv1 (cf : cfg) : Prop :=
    forall a b, In b (nbrs G a) ->
      (forall p c, zlookup b (prevs_ cf a) = Some (p, c) -> pend cf a b = Some p /\ exists c', p = ctab a c' b) /\
      (run_ cf a = true -> sendok cf a -> pend cf a b = Some (ctab a (costs_ cf a) b)).

  Lemma inv1_init : inv1 (init AP).
  Proof.
    intros a b Hb. unfold prevs_, run_. simpl. split; [intros p c H; discriminate | discriminate].
  Qed.

  Lemma inv1_step cf act : inv0 cf -> inv1 cf -> inv1 (fst (step AP cf act)).
  Proof.
    intros (Ia & Ib & Ic & Id & Ie) I1.
    pose proof (maxsum_graph_ok_l G Hwf) as [Hgnd [Hsym Hirr]].
    destruct (step_cases cf act) as [E|[(n & Rn & Hn & Hc)|[(s & d & m & q & C & Rd & Hn & Hc)|(s & d & m & q & C & Rd & Hn & Hc)]]].
    - now rewrite E.
    - (* Start n *)
      cbv zeta in Hn, Hc.
      destruct (ams_start_nf n (w_st (nodes cf n))) as (Hco & Hpr & [Htn Hti] & Hall & _).
      cbv zeta in Hco, Hpr, Htn, Hti, Hall. specialize (Hall Hsp).
      pose proof (stream_start cf _ n _ _ Hn Hc) as Hst.
      assert (Hcs : forall x, costs_ (fst (step AP cf act)) x = costs_ cf x).
      { intros x. unfold costs_. rewrite Hn, upd_node_eq. destruct (Z.eqb_spec x n) as [->|Hx]; simpl; auto. }
      intros a b Hb.
      assert (Hpe : pend (fst (step AP cf act)) a b =
                    match last_opt (if Z.eqb a n then sel b (snd (fst (ams_start P G n (w_st (nodes cf n))))) else [])
                    with Some t => Some t | None => pend cf a b end).
      { apply pend_ext; [apply Hst | now rewrite Hcs]. }
      destruct (Z.eqb_spec a n) as [->|Ha].
      + split.
        * unfold prevs_. rewrite Hn, upd_node_eq, Z.eqb_refl. simpl. rewrite Hpr, (Ia n Rn). discriminate.
        * intros _ Hok. rewrite Hpe, Hcs. destruct Hall as [Hall|(Hnv & _ & _)].
          -- rewrite (sel_lookup b _ Htn), (Hall b Hb). reflexivity.
          -- exfalso. destruct Hok as [Hok|Hok]; [congruence|]. rewrite Hcs in Hok.
             unfold costs_ in Hok. rewrite (Ia n Rn) in Hok. simpl in Hok.
             destruct (nbrs G n); [contradiction | discriminate].
      + simpl in Hpe. destruct (I1 a b Hb) as [J2 J1]. split.
        * unfold prevs_. rewrite Hn, upd_node_eq. destruct (Z.eqb_spec a n); [contradiction|]. rewrite Hpe. exact J2.
        * unfold run_, sendok. rewrite Hcs, Hpe, Hn, upd_node_eq. destruct (Z.eqb_spec a n); [contradiction|]. exact J1.
    - (* buffered *)
      pose proof (stream_hold cf _ s d m q C Hn Hc) as Hst.
      assert (Hws : forall x, w_st (nodes (fst (step AP cf act)) x) = w_st (nodes cf x)).
      { intros x. rewrite Hn, upd_node_eq. destruct (Z.eqb_spec x d) as [->|Hx]; reflexivity. }
      assert (Hrs : forall x, run_ (fst (step AP cf act)) x = run_ cf x).
      { intros x. unfold run_. rewrite Hn, upd_node_eq. destruct (Z.eqb_spec x d) as [->|Hx]; simpl; auto. }
      intros a b Hb.
      assert (Hpe : pend (fst (step AP cf act)) a b = pend cf a b).
      { unfold pend, costs_. now rewrite Hst, Hws. }
      unfold prevs_, sendok, costs_. rewrite Hrs, Hpe, !Hws. apply (I1 a b Hb).
    - (* handled *)
      cbv zeta in Hn, Hc.
      assert (Hds : In d (nbrs G s)).
      { apply Ic. unfold stream. rewrite C. intros H. apply app_eq_nil in H as [_ H]. discriminate. }
      assert (Hsd : In s (nbrs G d)) by now apply Hsym.
      assert (Hne : nbrs G d <> []) by (intros H; rewrite H in Hsd; contradiction).
      assert (Hsned : s <> d) by (intros ->; now apply (Hirr d)).
      destruct (ams_recv_nf d (w_st (nodes cf d)) s m Hne) as (Hco & Hpr & Hou & _).
      destruct (recv_outs_keys d (w_st (nodes cf d)) s m Hne) as [Htn Hti].
      cbv zeta in Hco, Hpr, Hou.
      pose proof (stream_recv cf _ s d q _ _ Hn Hc) as Hst.
      assert (Hcs : forall x, costs_ (fst (step AP cf act)) x =
                              if Z.eqb x d then dict_set Z.eqb s m (costs_ cf d) else costs_ cf x).
      { intros x. unfold costs_. rewrite Hn, upd_node_eq. destruct (Z.eqb_spec x d) as [->|Hx]; simpl; auto. }
      assert (Hsdq : stream cf s d = m :: q).
      { unfold stream. rewrite (Ib d Rd), C. reflexivity. }
      intros a b Hb.
      assert (Hab : a <> b) by (intros ->; now apply (Hirr b)).
      destruct (Z.eqb_spec a d) as [->|Ha].
      + (* edges out of d *)
        assert (Hbd : b <> d) by auto.
        assert (Hpe : pend (fst (step AP cf act)) d b =
                      match zlookup b (snd (fst (ams_recv P G d (w_st (nodes cf d)) s m)))
                      with Some t => Some t | None => pend cf d b end).
        { rewrite (pend_ext cf _ d b (sel b (snd (fst (ams_recv P G d (w_st (nodes cf d)) s m))))).
          - rewrite (sel_lookup b _ Htn). destruct (zlookup b _); reflexivity.
          - rewrite Hst, Z.eqb_refl. destruct (Z.eqb_spec d s); [congruence|]. reflexivity.
          - rewrite Hcs. destruct (Z.eqb_spec b d); [contradiction|]. reflexivity. }
        set (c := costs_ cf d) in *. set (c' := dict_set Z.eqb s m c) in *.
        fold c in Hco, Hpr, Hou. fold c' in Hco, Hpr, Hou.
        set (tg := recv_targets d c c' s) in *.
        destruct (recv_targets_ok d c c' s) as [Htnd Htin]. fold tg in Htnd, Htin.
        assert (Hprev : forall y p cc, In y tg -> zlookup y (prevs_ cf d) = Some (p, cc) ->
                  canon p /\ length p = length (ctab d c' y)).
        { intros y p cc Hy Hl. destruct (I1 d y (Htin y Hy)) as [J2 _].
          destruct (J2 p cc Hl) as [_ [c0 ->]]. split; [apply comp_table_canon | apply comp_table_len]. }
        pose proof (emit_all_spec P (dmp d) (ctab d c') tg Hstab Hdamp
                      (fun y _ => comp_table_canon P G d c' y) Htnd (prevs_ cf d) Hprev b) as [Sin Sout].
        assert (Hpr' : n_prev (fst (fst (ams_recv P G d (w_st (nodes cf d)) s m))) =
                       snd (emit_all P (dmp d) (ctab d c') (prevs_ cf d) tg)) by exact Hpr.
        assert (Hou' : snd (fst (ams_recv P G d (w_st (nodes cf d)) s m)) =
                       fst (emit_all P (dmp d) (ctab d c') (prevs_ cf d) tg)) by exact Hou.
        rewrite <- Hpr', <- Hou' in Sin, Sout.
        assert (Hp' : prevs_ (fst (step AP cf act)) d = n_prev (fst (fst (ams_recv P G d (w_st (nodes cf d)) s m)))).
        { unfold prevs_. rewrite Hn, upd_node_eq, Z.eqb_refl. reflexivity. }
        assert (Hc' : costs_ (fst (step AP cf act)) d = c').
        { rewrite Hcs, Z.eqb_refl. reflexivity. }
        destruct (I1 d b Hb) as [J2 J1].
        destruct (in_dec Z.eq_dec b tg) as [Hin|Hnin].
        * destruct (Sin Hin) as [[cc Hnew] Hout].
          assert (Hpd : pend (fst (step AP cf act)) d b = Some (ctab d c' b)).
          { rewrite Hpe. destruct Hout as [-> | [-> [c0 Hold]]]; [reflexivity|]. apply (J2 _ _ Hold). }
          split.
          -- intros p c0. rewrite Hp', Hnew. intros H. inversion H; subst. split; [exact Hpd | eauto].
          -- intros _ _. rewrite Hc'. exact Hpd.
        * destruct (Sout Hnin) as [Hsame Hnone]. rewrite Hnone in Hpe.
          split.
          -- intros p c0. rewrite Hp', Hsame, Hpe. apply J2.
          -- intros _ Hok. unfold sendok in Hok. rewrite Hc' in Hok.
             destruct (recv_targets_out d c c' s b Hb Hnin Hok) as [-> Hok0].
             rewrite Hc', Hpe. unfold c'. rewrite (ctab_indep d c s m Hb). apply J1; [exact Rd | exact Hok0].
      + (* all other edges: nothing moves *)
        assert (Hpe : pend (fst (step AP cf act)) a b = pend cf a b).
        { destruct (Z.eqb_spec b d) as [->|Hbd].
          - destruct (Z.eqb_spec a s) as [->|Has].
            + apply (pend_deliver cf _ s d m q Hsdq).
              * rewrite Hst, !Z.eqb_refl. simpl. destruct (Z.eqb_spec s d); [contradiction|].
                rewrite (Ib d Rd). simpl. now rewrite app_nil_r.
              * rewrite Hcs, Z.eqb_refl. reflexivity.
            + rewrite (pend_ext cf _ a d []).
              * reflexivity.
              * rewrite Hst. destruct (Z.eqb_spec a s); [contradiction|]. destruct (Z.eqb_spec a d); [contradiction|]. reflexivity.
              * rewrite Hcs, Z.eqb_refl. now apply zlookup_set_other.
          - rewrite (pend_ext cf _ a b []).
            + reflexivity.
            + rewrite Hst. destruct (Z.eqb_spec b d); [contradiction|]. rewrite andb_false_r.
              destruct (Z.eqb_spec a d); [contradiction|]. reflexivity.
            + rewrite Hcs. destruct (Z.eqb_spec b d); [contradiction|]. reflexivity. }
        assert (Hna : nodes (fst (step AP cf act)) a = nodes cf a).
        { rewrite Hn, upd_node_eq. destruct (Z.eqb_spec a d); [contradiction|]. reflexivity. }
        unfold prevs_, run_, sendok, costs_. rewrite Hpe, Hna. apply (I1 a b Hb).
  Qed.

  Lemma inv1_reachable cf : reachable AP cf -> inv1 cf.
  Proof.
    induction 1 as [|cf a Hr IH]; [apply inv1_init | apply inv1_step; auto; now apply inv0_reachable].
  Qed.

  (* ---------------------------------------------------------------- quiescence: a fixed point of the equations *)
  Lemma quiescent_edge cf : reachable AP cf -> quiescent G cf = true ->
    forall a b, In b (nbrs G a) -> run_ cf a = true /\ pend cf a b = zlookup a (costs_ cf b).
  Proof.
    intros Hre Hq a b Hb.
    pose proof (maxsum_graph_ok_l G Hwf) as [Hgnd [Hsym Hirr]].
    destruct (inv0_reachable cf Hre) as (Ia & Ib & _).
    assert (Hbn : In b (all_nodes G)) by (eapply nbrs_in_nodes; eauto).
    assert (Han : In a (all_nodes G)) by (apply (nbrs_in_nodes G Hwf b a); now apply Hsym).
    unfold quiescent in Hq. apply andb_true_iff in Hq as [Hq1 Hq2]. rewrite forallb_forall in Hq1, Hq2.
    pose proof (Hq1 a Han) as Ra. pose proof (Hq1 b Hbn) as Rb.
    specialize (Hq2 a Han). rewrite forallb_forall in Hq2. specialize (Hq2 b Hbn).
    split; [exact Ra|]. unfold pend, stream. rewrite (Ib b Rb).
    destruct (chan cf a b); [reflexivity | discriminate].
  Qed.

  Lemma quiescent_fixed_point cf : reachable AP cf -> quiescent G cf = true ->
    forall a b, In b (nbrs G a) -> zlookup a (costs_ cf b) = Some (ctab a (costs_ cf a) b).
  Proof.
    intros Hre Hq.
    pose proof (maxsum_graph_ok_l G Hwf) as [Hgnd [Hsym Hirr]].
    pose proof (inv1_reachable cf Hre) as I1.
    destruct (inv0_reachable cf Hre) as (_ & _ & _ & Id & _).
    assert (Hvar : forall v f, In f (nbrs G v) -> is_var G v = true ->
              zlookup v (costs_ cf f) = Some (ctab v (costs_ cf v) f)).
    { intros v f Hf Hv. destruct (quiescent_edge cf Hre Hq v f Hf) as [Rv <-].
      apply (I1 v f Hf); [exact Rv | left; exact Hv]. }
    intros a b Hb. destruct (quiescent_edge cf Hre Hq a b Hb) as [Ra <-].
    apply (I1 a b Hb); [exact Ra|]. unfold sendok.
    destruct (nbrs_cases G a) as [[vd [Hv Hn]]|[[fd [Hnv [Hf [Hin Hn]]]]|[Hnv [Hnf Hn]]]].
    - left. unfold is_var. now rewrite Hv.
    - right. destruct (Id a) as [Hk1 Hk2].
      assert (Hk3 : incl (nbrs G a) (map fst (costs_ cf a))).
      { intros v Hv. assert (Hvv : is_var G v = true).
        { rewrite Hn in Hv. destruct Hwf as [_ Hsc]. destruct (Hsc a fd Hin) as [_ Hincl]. apply Hincl in Hv.
          apply (var_lookup G Hwf) in Hv as [vd Hvd]. unfold is_var. now rewrite Hvd. }
        eapply zlookup_keys. apply (Hvar v a); [now apply Hsym | exact Hvv]. }
      rewrite <- (map_length fst (costs_ cf a)). apply Nat.le_antisymm; apply NoDup_incl_length; auto.
    - rewrite Hn in Hb. contradiction.
  Qed.

  (* ---------------------------------------------------------------- fixed points on a forest are exact marginals *)
  Section FixedPoint.
    Variable C : node -> list (node * table).
    Hypothesis Hfp : forall a b, In b (nbrs G a) -> zlookup a (C b) = Some (ctab a (C a) b).
    Hypothesis Hdom : forall x vd, In (x, vd) (d_vars G) -> 0 < v_dom vd.

    (* the table a computes for b from what it holds; the normalisation constants met behind a->b *)
    Definition Mf (a b : node) : table := ctab a (C a) b.
    Definition normF (a b : node) : Q :=
      match zlookup a (d_vars G) with Some vd => cff_avg vd (factors_of G a) (C a) b | None => 0%Q end.
    Fixpoint KF (h : nat) (a b : node) : Q :=
      match h with O => 0%Q | S h' => (normF a b + qsum (map (fun c => KF h' c a) (others G a b)))%Q end.

    Theorem fp_tree_messages : forall h a b, In b (nbrs G a) -> low G h a b = true ->
      NoDup (SN G h a b) -> ~ In b (SN G h a b) ->
      length (Mf a b) = dom_of G (xv G a b) /\
      is_margf P G (xv G a b) (dom_of G (xv G a b)) (fun d => tget (Mf a b) d + KF h a b)%Q (SC G h a b).
    Proof.
      pose proof (maxsum_graph_ok_l G Hwf) as [Hgnd [Hsym Hirr]].
      induction h as [|h IH]; intros a b Hb Hl Hnd Hbn; [discriminate|].
      simpl in Hl, Hnd, Hbn. rewrite forallb_forall in Hl.
      inversion Hnd as [|? ? Han Hndf]; subst.
      assert (Hbr : forall c, In c (others G a b) ->
                zlookup c (C a) = Some (Mf c a) /\
                length (Mf c a) = dom_of G (xv G c a) /\
                is_margf P G (xv G c a) (dom_of G (xv G c a)) (fun d => tget (Mf c a) d + KF h c a)%Q (SC G h c a)).
      { intros c Hc. pose proof (Hl c Hc) as Hlc. apply others_In in Hc as Hc'. destruct Hc' as [Hca Hcb].
        split; [apply Hfp; now apply Hsym|].
        apply IH; [now apply Hsym | exact Hlc
                  | exact (NoDup_flat_map_in (fun c => SN G h c a) (others G a b) c Hndf Hc) |].
        intros Hc2. apply Han. apply in_flat_map. exists c. auto. }
      destruct (nbrs_cases G a) as [[vd [Hv Hn]]|[[fd [Hnv [Hf [Hin Hn]]]]|[_ [_ Hn]]]].
      - (* a variable *)
        assert (Hxa : xv G a b = a) by (unfold xv, is_var; now rewrite Hv).
        assert (Hda : dom_of G a = v_dom vd) by (unfold dom_of; now rewrite Hv).
        assert (HT : Mf a b = costs_for_factor vd (factors_of G a) (C a) b).
        { unfold Mf, comp_table. now rewrite Hv. }
        assert (Hxc : forall c, In c (others G a b) -> xv G c a = a).
        { intros c Hc. apply others_In in Hc as [Hca _]. rewrite Hn in Hca.
          apply (factors_of_In G) in Hca as [fd [Hin _]]. unfold xv, is_var.
          now rewrite (fac_not_var G Hwf c fd Hin). }
        rewrite Hxa, Hda, HT. split; [apply costs_for_factor_shift|].
        eapply is_margf_ext; [| |
          apply (var_step P G Hwf Hdom a vd h (others G a b) (fun c => Mf c a)
                   (fun c => KF h c a) Hv Hl Hndf Han)].
        + intros d Hd. cbv beta.
          change (KF (S h) a b) with (normF a b + qsum (map (fun c => KF h c a) (others G a b)))%Q.
          rewrite cff_tget by auto. unfold normF, cff_avg. rewrite Hv.
          rewrite (cff_others_map (factors_of G a) (C a) b (fun c => Mf c a)).
          2:{ intros g Hg Hgb. apply Hbr. apply others_In. rewrite Hn. auto. }
          rewrite <- Hn. fold (others G a b).
          rewrite col_map.
          2:{ intros g Hg. destruct (Hbr g Hg) as [_ [Hlen _]]. rewrite Hlen, (Hxc g Hg), Hda. exact Hd. }
          rewrite qsum_map_plus.
          match goal with |- context [(?u / ?v)%Q] => generalize (u / v)%Q; intro AVG end.
          ring.
        + intros s. symmetry. apply SC_S.
        + intros g Hg. destruct (Hbr g Hg) as [_ [_ Hm]]. rewrite (Hxc g Hg), Hda in Hm. exact Hm.
      - (* a factor *)
        assert (Hxa : xv G a b = b) by (unfold xv, is_var; now rewrite Hnv).
        assert (HT : Mf a b = factor_costs_for_var (dom_of G) mx fd (C a) b).
        { unfold Mf, comp_table. now rewrite Hnv, Hf. }
        assert (Hbs : In b (f_scope fd)) by now rewrite <- Hn.
        assert (Hxc : forall c, In c (others G a b) -> xv G c a = c).
        { intros c Hc. apply others_In in Hc as [Hca _]. rewrite Hn in Hca.
          destruct Hwf as [_ Hsc]. destruct (Hsc a fd Hin) as [_ Hincl]. apply Hincl in Hca.
          apply (var_lookup G Hwf) in Hca as [vd Hv]. unfold xv, is_var. now rewrite Hv. }
        rewrite Hxa, HT. split; [unfold factor_costs_for_var; now rewrite map_length, seq_length|].
        eapply is_margf_ext; [| |
          apply (fac_step P G Hwf Hdom a fd b h (C a) (fun c => Mf c a)
                   (fun c => KF h c a) Hin Hbs Hl Hndf)].
        + intros d Hd. simpl. unfold normF. rewrite Hnv. ring.
        + intros s. symmetry. apply SC_S.
        + intros Hc. apply Hbn. right; exact Hc.
        + intros y Hy. destruct (Hbr y Hy) as [H1 [H2 H3]]. rewrite (Hxc y Hy) in H2, H3. auto.
      - rewrite Hn in Hb. contradiction.
    Qed.
  End FixedPoint.

  (* ---------------------------------------------------------------- THE PROPERTY, asynchronous A-Max-Sum *)
  Theorem amaxsum_tree_exact_l a H sched : unique_optimum mx G a -> forest_ok_b G H = true ->
    (forall x vd, In (x, vd) (d_vars G) -> nbrs G x = [] -> v_init vd = None) ->
    let cf := fst (run AP sched) in
    quiescent G cf = true -> selected_async G cf = map Some a.
  Proof.
    intros Hu Hf Hiso cf Hq.
    pose proof (maxsum_graph_ok_l G Hwf) as [Hgnd [Hsym Hirr]].
    assert (Hre : reachable AP cf) by (apply exec_reachable; constructor).
    pose proof (dom_pos_of_valid G a (proj1 Hu)) as Hdom.
    pose proof (quiescent_fixed_point cf Hre Hq) as Hfp.
    destruct (inv0_reachable cf Hre) as (_ & _ & _ & Id & Ie).
    destruct (list_to_valid G Hwf Hdom a (proj1 Hu)) as [_ Hmap].
    unfold selected_async.
    transitivity (map Some (map (val_of G a) (var_ids G))); [|now rewrite Hmap].
    rewrite map_map. apply map_ext_in. intros x Hx.
    assert (Rx : run_ cf x = true).
    { unfold quiescent in Hq. apply andb_true_iff in Hq as [Hq1 _]. rewrite forallb_forall in Hq1.
      apply Hq1. unfold all_nodes. apply in_or_app. left; exact Hx. }
    unfold forest_ok_b in Hf. rewrite forallb_forall in Hf. specialize (Hf x Hx).
    destruct (low G (S H) x x) eqn:Hl; [|discriminate]. apply nodupb_sound in Hf.
    apply (var_lookup G Hwf) in Hx as [vd Hv].
    assert (Hsel : fst (select_value mx vd (costs_ cf x)) = val_of G a x).
    { apply (root_select P G Hwf Hdom x vd (costs_ cf x) H
               (fun g => Mf (costs_ cf) g x) (fun g => KF (costs_ cf) H g x) a Hv); auto; try apply Id.
      intros g Hg. split; [apply Hfp; now apply Hsym|].
      pose proof Hl as Hl'. pose proof Hf as Hsn'.
      simpl in Hl', Hsn'. rewrite (others_self G Hwf) in Hl', Hsn'. rewrite forallb_forall in Hl'.
      inversion Hsn' as [|? ? Hxn Hndf]; subst.
      destruct (fp_tree_messages (costs_ cf) Hfp Hdom H g x) as [_ Hm].
      - now apply Hsym.
      - now apply Hl'.
      - exact (NoDup_flat_map_in (fun c => SN G H c x) (nbrs G x) g Hndf Hg).
      - intros Hc. apply Hxn. apply in_flat_map. exists g. auto.
      - assert (Hxg : xv G g x = x).
        { rewrite (nbrs_var G x vd Hv) in Hg. apply (factors_of_In G) in Hg as [fd [Hin _]].
          unfold xv, is_var. now rewrite (fac_not_var G Hwf g fd Hin). }
        rewrite Hxg in Hm. unfold dom_of in Hm. rewrite Hv in Hm. exact Hm. }
    destruct (Ie x vd Hv Rx) as [Hcv|[Hc0 Hini]].
    - rewrite Hcv, Hsel. reflexivity.
    - exfalso. destruct (nbrs G x) as [|g r] eqn:En.
      + apply Hini. apply (Hiso x vd); [now apply zlookup_In | exact En].
      + assert (Hg : In g (nbrs G x)) by (rewrite En; left; reflexivity).
        pose proof (Hfp g x (Hsym _ _ Hg)) as Hc. rewrite Hc0 in Hc. discriminate.
  Qed.
End Async.
