(* M_SyncPause.v -- executable check of the C08 runs WITH pause / resume actions.

   The driver hands over the full schedule it executed (starts, deliveries, pauses, resumes) and the
   projection it used as model schedule.  [check_pcase] runs the extended network [NetPause.erun] on the
   full schedule and requires (1) that its projection is the driver's, (2) that the extended run emits the
   observed on_new_cycle calls / exceptions and ends with the observed cycle counters and channel
   contents, and (3) the plain check of M_SyncMixin on the projected schedule -- the instance of
   [NetPause.pause_is_stutter_run] for this run. *)
From PyDcop Require Import Base Net NetPause M_SyncMixin.

Definition action_eqb (a b : @action) : bool :=
  match a, b with
  | Start n, Start n' => Z.eqb n n'
  | Deliver s d, Deliver s' d' => Z.eqb s s' && Z.eqb d d'
  | _, _ => false
  end.

Record pcase := mkPCase { pc_case : case; pc_full : list eaction }.

Definition check_pcase (pc : pcase) : bool :=
  let c := pc_case pc in
  let P := sync_proto (nbrs_of (c_graph c)) (table_algo (c_plan c)) in
  let '(e, evs, msched) := erun P (pc_full pc) in
  let cf := e_cf e in
  list_eqb action_eqb msched (c_sched c)
  && list_eqb oev_eqb (map ev_to_o evs) (c_events c)
  && forallb (fun nk => negb (e_paused e (fst nk))) (c_cycles c)
  && forallb (fun nk => Z.eqb (Z.of_nat (cur (w_st (nodes cf (fst nk))))) (snd nk)) (c_cycles c)
  && forallb (fun q => let '(s, d, l) := q in
        list_eqb (pair_eqb Z.eqb (option_eqb Z.eqb)) (map wmsg_obs (chan cf s d)) l) (c_inflight c)
  && check_case c.
