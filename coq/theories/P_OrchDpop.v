(* P_OrchDpop.v -- C22 deepening, part B: composition of the orchestrator's bookkeeping model
   (M_Orch) with the DPOP network model (M_Dpop over Net.v) through the link of M_OrchDpop.v.
   1. order of the events of a DPOP computation, on every schedule of every dcop: nothing, or
      exactly one value selection followed by one finished notification;
   2. all computations finished => the configuration is complete (so C01's theorem applies);
   3. solution_cost on the orchestrator's DCOP object = dcop_cost of the DPOP model;
   4. the composed statements. *)
From PyDcop Require Import Base P_Base Net M_Dpop P_Dpop M_DpopValid.
From PyDcop Require Import P_Dpop2Net P_Dpop2Tree P_Dpop2Aux P_Dpop2 P_Dpop2Valid.
From PyDcop Require Import M_Orch P_Orch P_Orch2 M_OrchDpop.
From Coq Require Import ZifyBool Permutation.
Local Open Scope list_scope.
Open Scope Z_scope.

(* ================================================================== *)
(*  1. the select / finished events of one computation                  *)
(* ================================================================== *)
Section EvOrder.
  Variable P : M_Dpop.dcop.
  Notation PR := (dpop_proto P).

  Definition sfp (x : Z) (evs : list M_Dpop.ev) : list M_Dpop.ev := filter (sel_fin x) evs.

  Lemma sfp_app x e1 e2 : sfp x (e1 ++ e2) = sfp x e1 ++ sfp x e2.
  Proof. apply filter_app. Qed.

  Lemma quiet_sfp y evs : quiet evs -> sfp y evs = [].
  Proof.
    induction evs as [|e r IH]; intros H; simpl; auto.
    assert (He : sel_fin y e = false).
    { specialize (H e (or_introl eq_refl)). destruct e; simpl in *; tauto. }
    rewrite He. apply IH. intros e' He'. apply H. right; auto.
  Qed.

  Lemma shape_sfp x s s' e1 : shape P x s s' e1 ->
    (forall y, y <> x -> sfp y e1 = []) /\
    ((s_fin s' = s_fin s /\ s_value s' = s_value s /\ sfp x e1 = []) \/
     (exists v c, s_fin s' = true /\ s_value s' = Some (v, c) /\
                  sfp x e1 = [EvSelect x v c; EvFinished x])).
  Proof.
    intros [(Hq & Hf & Hv)|(pre & v & c & -> & Hq & Hf & Hv & _)].
    - split; [intros y _; apply quiet_sfp; auto|]. left. repeat split; auto. apply quiet_sfp; auto.
    - split.
      + intros y Hy. rewrite sfp_app, quiet_sfp by auto. simpl.
        assert (E : Z.eqb x y = false) by (apply Z.eqb_neq; congruence). rewrite E. reflexivity.
      + right. exists v, c. split; auto. split; auto.
        rewrite sfp_app, quiet_sfp by auto. simpl. rewrite Z.eqb_refl. reflexivity.
  Qed.

  (* the invariant: a node that is not running is not finished; an unfinished node has emitted
     no select / finished event; a finished node has emitted exactly its selection then its
     finished notification, and holds the selected value *)
  Definition EvOrd (cf : config st msg) (evs : list M_Dpop.ev) : Prop :=
    forall x,
      (rn cf x = false -> s_fin (stt cf x) = false) /\
      (s_fin (stt cf x) = false -> sfp x evs = []) /\
      (s_fin (stt cf x) = true ->
         exists v c, s_value (stt cf x) = Some (v, c) /\ sfp x evs = [EvSelect x v c; EvFinished x]).

  Lemma EvOrd_node cf evs e1 x s' (r' : bool) :
    EvOrd cf evs -> s_fin (stt cf x) = false -> shape P x (stt cf x) s' e1 ->
    (r' = false -> s_fin s' = false) ->
    (r' = false -> s_fin s' = false) /\
    (s_fin s' = false -> sfp x (evs ++ e1) = []) /\
    (s_fin s' = true -> exists v c, s_value s' = Some (v, c) /\
                                    sfp x (evs ++ e1) = [EvSelect x v c; EvFinished x]).
  Proof.
    intros HO Hnf Hsh Hr. destruct (HO x) as (_ & O2 & _). specialize (O2 Hnf).
    destruct (shape_sfp _ _ _ _ Hsh) as [_ [(Hf & Hv & He)|(v & c & Hf & Hv & He)]].
    - split; [exact Hr|]. split.
      + intros _. rewrite sfp_app, O2, He. reflexivity.
      + intros H. congruence.
    - split; [exact Hr|]. split.
      + intros H. congruence.
      + intros _. exists v, c. split; auto. rewrite sfp_app, O2, He. reflexivity.
  Qed.

  Lemma step_EvOrd cf a evs : held_ok cf -> EvOrd cf evs ->
    EvOrd (fst (Net.step PR cf a)) (evs ++ snd (Net.step PR cf a)).
  Proof.
    intros Hh HO. destruct (step_cases PR cf a Hh) as [K _].
    destruct K as [H1 H2 H3 H4 | n st' outs Hr Hs H1 H2 H3 | s d mm q st' outs Hr Hpi Hs H1 H2 H3]; intros x.
    - rewrite H1, H2, H4, app_nil_r. apply HO.
    - cbn in Hs. apply start_shape in Hs. rewrite H1, H2.
      destruct (Z.eqb x n) eqn:E.
      + apply Z.eqb_eq in E. subst x.
        destruct (HO n) as (O1 & _ & _). specialize (O1 Hr).
        destruct (EvOrd_node cf evs _ n st' true HO O1 Hs) as (A & B & C); [discriminate|].
        split; [discriminate|]. split; auto.
      + apply Z.eqb_neq in E. destruct (shape_sfp _ _ _ _ Hs) as [Hoth _].
        rewrite sfp_app, (Hoth x E), app_nil_r. apply HO.
    - cbn in Hs. apply recv_shape in Hs. destruct Hs as [Hfin Hs]. rewrite H1, H2.
      destruct (Z.eqb x d) eqn:E.
      + apply Z.eqb_eq in E. subst x.
        destruct (s_fin (stt cf d)) eqn:Ef.
        * destruct (Hfin eq_refl) as (-> & Hf' & Hv'). rewrite app_nil_r.
          destruct (HO d) as (O1 & O2 & O3). rewrite Ef in *.
          split; [intros H; rewrite Hr in H; discriminate|]. split; [intros H; congruence|].
          intros _. destruct (O3 eq_refl) as (v & c & A & B). exists v, c. split; congruence.
        * destruct (EvOrd_node cf evs _ d st' true HO Ef Hs) as (A & B & C); [discriminate|].
          split; [intros H; rewrite Hr in H; discriminate|]. split; auto.
      + apply Z.eqb_neq in E. destruct (shape_sfp _ _ _ _ Hs) as [Hoth _].
        rewrite sfp_app, (Hoth x E), app_nil_r. apply HO.
  Qed.

  Lemma exec_EvOrd sched : forall cf evs0, held_ok cf -> EvOrd cf evs0 ->
    EvOrd (fst (exec PR cf sched)) (evs0 ++ snd (exec PR cf sched)).
  Proof.
    induction sched as [|a r IH]; intros cf evs0 Hh HO; simpl.
    - rewrite app_nil_r. exact HO.
    - pose proof (step_EvOrd cf a evs0 Hh HO) as H1. destruct (step_cases PR cf a Hh) as [_ Hh1].
      destruct (Net.step PR cf a) as [cf1 e1]. cbn [fst snd] in *.
      pose proof (IH cf1 (evs0 ++ e1) Hh1 H1) as H2.
      destruct (exec PR cf1 r) as [cf2 e2]. cbn [fst snd] in *. rewrite app_assoc. exact H2.
  Qed.

  Theorem run_EvOrd sched : EvOrd (fst (Net.run PR sched)) (snd (Net.run PR sched)).
  Proof.
    apply (exec_EvOrd sched (Net.init PR) []).
    - apply held_ok_init.
    - intros x. split; [reflexivity|]. split; [reflexivity|]. cbn. discriminate.
  Qed.
End EvOrder.

(* ================================================================== *)
(*  2. every computation finished => nothing in flight                  *)
(* ================================================================== *)
Lemma option_eq_dec_Z (a b : option Z) : {a = b} + {a <> b}.
Proof. decide equality. apply Z.eq_dec. Qed.

Lemma all_fin_quiet P dep B (V : dvalid P dep B) cf : Inv P dep B cf ->
  (forall x, In x (tree_ids P) -> s_fin (stt cf x) = true) ->
  (forall x, In x (tree_ids P) -> rn cf x = true) /\ (forall a b, pipe cf a b = []).
Proof.
  intros [Hh I] Hfin. destruct I as [Gn Ge Go Gc Gi].
  assert (Hrun : forall x, In x (tree_ids P) -> rn cf x = true).
  { intros x Hx. destruct (rn cf x) eqn:E; auto. exfalso.
    pose proof (Hfin x Hx) as Hf. rewrite (Gi x Hx E) in Hf. cbn in Hf. discriminate. }
  split; [exact Hrun|]. intros a b.
  destruct (option_eq_dec_Z (parent P a) (Some b)) as [Ea|Ea].
  - destruct (dv_par _ _ _ V a b Ea) as [HaN HbN].
    destruct (Ge a b Ea) as [Eup _ _ _ _].
    assert (Hw : zmem a (W (stt cf) b) = false).
    { pose proof (Gn b HbN) as Nb. destruct Nb as [_ _ _ _ _ _ _ _ _ Nfin].
      destruct Nfin as (Hs & _); [apply Hfin; exact HbN|].
      unfold sent in Hs. apply andb_true_iff in Hs. destruct Hs as [_ Hs]. apply nilb_true in Hs.
      unfold W. rewrite Hs. reflexivity. }
    rewrite Hw, andb_false_r in Eup. exact Eup.
  - destruct (option_eq_dec_Z (parent P b) (Some a)) as [Eb|Eb].
    + destruct (dv_par _ _ _ V b a Eb) as [HbN HaN].
      destruct (Ge b a Eb) as [_ _ _ Edown _].
      unfold fin in Edown. rewrite (Hfin b HbN), andb_false_r in Edown. exact Edown.
    + apply Go; auto.
Qed.

Lemma all_fin_complete P sched : dpop_valid P ->
  let r := Net.run (dpop_proto P) sched in
  (forall x, In x (tree_ids P) -> s_fin (w_st (nodes (fst r) x)) = true) -> complete P (fst r).
Proof.
  intros (dep & B & V) r Hfin. destruct (run_inv P dep B V sched) as [HI _]. fold r in HI.
  destruct (all_fin_quiet P dep B V _ HI Hfin) as [Hrun Hq].
  split; [exact Hrun|]. intros a b _ _. specialize (Hq a b). unfold pipe in Hq.
  apply app_eq_nil in Hq. tauto.
Qed.

(* ================================================================== *)
(*  3. solution_cost of the orchestrator's DCOP object = dcop_cost      *)
(* ================================================================== *)
Section CostLink.
  Variable D : Z -> nat.

  Fixpoint size (ds : list Z) : nat := match ds with [] => 1%nat | d :: r => (D d * size r)%nat end.
  Fixpoint off (g : Z -> nat) (ds : list Z) : nat :=
    match ds with [] => O | d :: r => (g d * size r + off g r)%nat end.

  Lemma off_lt g ds : (forall x, In x ds -> (g x < D x)%nat) -> (off g ds < size ds)%nat.
  Proof.
    induction ds as [|d r IH]; intros H; simpl; [lia|].
    assert (H1 : (g d < D d)%nat) by (apply H; left; auto).
    assert (H2 : (off g r < size r)%nat) by (apply IH; intros x Hx; apply H; right; auto).
    nia.
  Qed.

  Lemma flatten_length : forall ds t, shaped D ds t = true -> List.length (flatten t) = size ds.
  Proof.
    induction ds as [|d r IH]; intros t H; destruct t as [c|l]; simpl in H; try discriminate.
    - reflexivity.
    - apply andb_true_iff in H. destruct H as [H1 H2]. apply Nat.eqb_eq in H1.
      rewrite forallb_forall in H2. simpl. rewrite <- H1. clear H1.
      induction l as [|y l IHl]; simpl; auto.
      rewrite app_length, IH by (apply H2; left; auto). rewrite IHl; auto.
      intros z Hz. apply H2. right; auto.
  Qed.

  Lemma nth_flat_map_uniform {A B} (f : A -> list B) k dA dB : forall l i j,
    (forall y, In y l -> List.length (f y) = k) -> (i < List.length l)%nat -> (j < k)%nat ->
    nth (i * k + j) (flat_map f l) dB = nth j (f (nth i l dA)) dB.
  Proof.
    induction l as [|y l IH]; intros i j Hk Hi Hj; simpl in Hi; [lia|].
    simpl. destruct i as [|i].
    - simpl. rewrite app_nth1; auto. rewrite Hk by (left; auto). exact Hj.
    - rewrite app_nth2 by (rewrite Hk by (left; auto); simpl; lia).
      rewrite Hk by (left; auto).
      replace (S i * k + j - k)%nat with (i * k + j)%nat by (simpl; lia).
      apply IH; auto; [intros z Hz; apply Hk; right; auto|lia].
  Qed.

  Lemma nth_flatten g : forall ds t, shaped D ds t = true ->
    (forall x, In x ds -> (g x < D x)%nat) ->
    nth (off g ds) (flatten t) 0 = tget t (map g ds).
  Proof.
    induction ds as [|d r IH]; intros t H Hg; destruct t as [c|l]; simpl in H; try discriminate.
    - reflexivity.
    - apply andb_true_iff in H. destruct H as [H1 H2]. apply Nat.eqb_eq in H1.
      rewrite forallb_forall in H2. simpl.
      assert (Hd : (g d < D d)%nat) by (apply Hg; left; auto).
      rewrite (nth_flat_map_uniform flatten (size r) (Leaf 0) 0).
      + apply IH.
        * apply H2. apply nth_In. lia.
        * intros x Hx. apply Hg. right; auto.
      + intros y Hy. apply flatten_length. apply H2. exact Hy.
      + lia.
      + apply off_lt. intros x Hx. apply Hg. right; auto.
  Qed.

  (* the row-major index computed by cons_index (Horner form, on Z) *)
  Lemma cons_index_off (nm : Z -> string) (a : M_Orch.assignment) g : forall ds acc,
    (forall x, In x ds -> slookup (nm x) a = Some (Z.of_nat (g x))) ->
    cons_index a (map nm ds) (map (fun x => Z.of_nat (D x)) ds) (Z.of_nat acc)
    = Some (Z.of_nat (acc * size ds + off g ds)).
  Proof.
    induction ds as [|d r IH]; intros acc H; simpl.
    - f_equal. f_equal. lia.
    - rewrite (H d) by (left; auto).
      replace (Z.of_nat acc * Z.of_nat (D d) + Z.of_nat (g d)) with (Z.of_nat (acc * D d + g d)) by lia.
      rewrite IH by (intros x Hx; apply H; right; auto). f_equal. f_equal. nia.
  Qed.
End CostLink.

Lemma cons_cost_eval P L (a : M_Orch.assignment) (sg : asg) r :
  shaped (dsize P) (r_dims r) (r_tbl r) = true ->
  (forall x, In x (r_dims r) ->
     slookup (lk_name L x) a = Some (Z.of_nat (aval sg x)) /\ (aval sg x < dsize P x)%nat) ->
  cons_cost a (cons_of L P r) = Some (eval r sg).
Proof.
  intros Hs H. unfold cons_cost, cons_of. cbn [k_scope k_dims k_table].
  change 0 with (Z.of_nat 0).
  rewrite (cons_index_off (dsize P) (lk_name L) a (aval sg) (r_dims r) 0)
    by (intros x Hx; apply H; exact Hx).
  rewrite Nat.mul_0_l, Nat.add_0_l, Nat2Z.id. f_equal. unfold eval.
  apply nth_flatten; auto. intros x Hx. apply H. exact Hx.
Qed.

Lemma Forall2_maps {A B C} (R : B -> C -> Prop) (f : A -> B) (g : A -> C) l :
  (forall x, In x l -> R (f x) (g x)) -> Forall2 R (map f l) (map g l).
Proof.
  induction l as [|x r IH]; intros H; simpl; constructor.
  - apply H. left; auto.
  - apply IH. intros y Hy. apply H. right; auto.
Qed.

Lemma sum_count_zsum inf l : sum_finite inf l + inf * count_inf inf l = zsum l.
Proof.
  unfold sum_finite, count_inf. induction l as [|c r IH]; simpl; [lia|].
  destruct (Z.eqb c inf) eqn:E; simpl.
  - apply Z.eqb_eq in E. subst. rewrite Zpos_P_of_succ_nat. lia.
  - lia.
Qed.

Lemma count_inf_nonneg inf l : 0 <= count_inf inf l.
Proof. unfold count_inf. lia. Qed.

Lemma zsum_cost_terms P a : zsum (cost_terms P a) = dcop_cost P a.
Proof. unfold cost_terms, dcop_cost. rewrite P_Dpop2Valid.zsum_app. lia. Qed.

(* the dimensions of every constraint are nodes of the tree *)
Lemma cons_dims_in_tree P : dpop_check P = true ->
  forall kr x, In kr (dc_cons P) -> In x (r_dims (snd kr)) -> In x (tree_ids P).
Proof.
  intros Hchk [k r] x Hkr Hx. simpl in Hx.
  destruct (dpop_check_sound P Hchk) as ((dep & B & V) & Hperm & Hnd).
  assert (Hk : In k (all_owned P)).
  { apply (Permutation_in _ (Permutation_sym Hperm)). unfold cons_ids.
    change k with (fst (k, r)). apply in_map. exact Hkr. }
  unfold all_owned in Hk. apply in_flat_map in Hk. destruct Hk as (y & Hy & Hk).
  apply (sv_in P dep B V y x Hy). apply sv_svars. unfold svars. right.
  apply in_flat_map. exists k. split; auto.
  unfold con. rewrite (zlookup_nodup _ k r Hnd Hkr). exact Hx.
Qed.

Lemma NoDup_map_inj_in {A B} (f : A -> B) l :
  (forall x y, In x l -> In y l -> f x = f y -> x = y) -> NoDup l -> NoDup (map f l).
Proof.
  induction l as [|a r IH]; intros Hinj Hnd; simpl; [constructor|].
  inversion Hnd; subst. constructor.
  - intros Hin. apply in_map_iff in Hin. destruct Hin as (y & Hy & Hin).
    assert (y = a) by (apply Hinj; [right; auto|left; auto|exact Hy]). subst. contradiction.
  - apply IH; auto. intros x y Hx Hy. apply Hinj; right; auto.
Qed.

(* global_metrics on the orchestrator's DCOP object, for a value table that holds the value
   sg(x) under the name of every node x: (violation, cost) is the accounting of the terms of
   dcop_cost P sg, so cost + infinity * violation = dcop_cost P sg *)
Lemma reported_cost_dcop_cost P L inf (m : mgt) (sg : asg) :
  NoDup (map (lk_name L) (tree_ids P)) ->
  cons_shaped P = true ->
  (forall kr x, In kr (dc_cons P) -> In x (r_dims (snd kr)) -> In x (tree_ids P)) ->
  in_dom (dsize P) sg (tree_ids P) ->
  NoDup (map fst (m_values m)) ->
  (forall x, In x (tree_ids P) -> slookup (lk_name L x) (m_values m) = Some (Z.of_nat (aval sg x))) ->
  reported_cost (dcop_of L P inf) m
  = Some (count_inf inf (cost_terms P sg), sum_finite inf (cost_terms P sg)).
Proof.
  intros Hnd Hsh Hdims Hdom Hmv Hval.
  set (d := dcop_of L P inf).
  assert (Hnames : var_names d = map (lk_name L) (tree_ids P)).
  { unfold var_names, d, dcop_of. cbn [d_vars]. rewrite map_map. reflexivity. }
  set (a := filter_assignment (var_names d) (reported_assignment m)).
  assert (Ha : forall x, In x (tree_ids P) -> slookup (lk_name L x) a = Some (Z.of_nat (aval sg x))).
  { intros x Hx. unfold a. rewrite filter_assignment_lookup.
    assert (E : smem (lk_name L x) (var_names d) = true).
    { apply smem_In. rewrite Hnames. now apply in_map. }
    rewrite E. apply Hval. exact Hx. }
  unfold cost_terms.
  apply (orch_cost_accounts_assignment_l d m).
  - fold a. rewrite <- (map_length fst (d_vars d)). fold (var_names d). apply keys_length.
    + rewrite Hnames. exact Hnd.
    + apply filter_assignment_nodup. exact Hmv.
    + intros k Hk. apply filter_assignment_keys in Hk. tauto.
    + intros n Hn. rewrite Hnames in Hn. apply in_map_iff in Hn. destruct Hn as (x & <- & Hx).
      destruct (in_dec string_dec (lk_name L x) (map fst a)) as [|Hn]; auto.
      apply slookup_none_iff in Hn. rewrite (Ha x Hx) in Hn. discriminate.
  - fold a. unfold d, dcop_of. cbn [d_cons]. apply Forall2_maps. intros kr Hkr.
    apply cons_cost_eval.
    + unfold cons_shaped in Hsh. rewrite forallb_forall in Hsh. apply Hsh. exact Hkr.
    + intros x Hx. pose proof (Hdims kr x Hkr Hx) as HxN. split; [apply Ha; exact HxN|apply Hdom; exact HxN].
  - fold a. unfold d, dcop_of. cbn [d_vars]. apply Forall2_maps. intros x Hx.
    unfold var_cost. cbn [fst snd]. rewrite (Ha x Hx), Nat2Z.id. reflexivity.
Qed.

(* ================================================================== *)
(*  4. the composition                                                  *)
(* ================================================================== *)
(* the static link: node ids <-> computation names, the graph the orchestrator was given *)
Record link_ok (P : M_Dpop.dcop) (L : link) (c : cfg) : Prop := {
  lo_inj : forall x y, In x (tree_ids P) -> In y (tree_ids P) -> lk_name L x = lk_name L y -> x = y;
  lo_nodes : g_nodes c = map (lk_name L) (tree_ids P)
}.

(* ASSUMPTION about the management transport (agent -> orchestrator): for every computation,
   the value_change / end_of_computation messages AgentsMgt has handled so far are a prefix of
   the ones its agent posted, in posting order (no loss before a later one, no duplication, no
   reordering within one computation; anything goes between computations and with the other
   management traffic), and no other value / end message names a computation *)
Record transport (P : M_Dpop.dcop) (L : link) (evs : list M_Dpop.ev) (tr : list (M_Orch.ev * env)) : Prop := {
  tp_fifo : forall x, In x (tree_ids P) -> exists rest, posted L x evs = cproj (lk_name L x) tr ++ rest;
  tp_only : forall s, (forall x, In x (tree_ids P) -> lk_name L x <> s) -> cproj s tr = []
}.
(* ... and every posted message has been handled *)
Definition delivered (P : M_Dpop.dcop) (L : link) (evs : list M_Dpop.ev) (tr : list (M_Orch.ev * env)) : Prop :=
  (forall x, In x (tree_ids P) -> cproj (lk_name L x) tr = posted L x evs) /\
  (forall s, (forall x, In x (tree_ids P) -> lk_name L x <> s) -> cproj s tr = []).

Lemma delivered_transport P L evs tr : delivered P L evs tr -> transport P L evs tr.
Proof.
  intros [H1 H2]. constructor; auto. intros x Hx. exists []. rewrite app_nil_r. symmetry. auto.
Qed.

(* ---- what a computation posts (from the event order) *)
Lemma posted_cases P L sched x :
  let r := Net.run (dpop_proto P) sched in
  (s_fin (w_st (nodes (fst r) x)) = false /\ posted L x (snd r) = []) \/
  (exists v k, s_fin (w_st (nodes (fst r) x)) = true /\ s_value (w_st (nodes (fst r) x)) = Some (v, k) /\
               posted L x (snd r) = [EValue (lk_host L x) (lk_name L x) v; EEnd (lk_host L x) (lk_name L x)]).
Proof.
  intros r. destruct (run_EvOrd P sched x) as (_ & O2 & O3). fold r in O2, O3. unfold stt in *.
  destruct (s_fin (w_st (nodes (fst r) x))) eqn:Ef.
  - right. destruct (O3 eq_refl) as (v & k & Hv & Hs). exists v, k. split; auto. split; auto.
    unfold posted. unfold sfp in Hs. rewrite Hs. reflexivity.
  - left. split; auto. unfold posted. unfold sfp in O2. rewrite O2; auto.
Qed.

(* ---- traces of AgentsMgt seen per computation *)
Lemma cproj_app s t1 t2 : cproj s (t1 ++ t2) = cproj s t1 ++ cproj s t2.
Proof. unfold cproj. rewrite map_app, filter_app. reflexivity. Qed.

Definition lastv (l : list M_Orch.ev) : option Z :=
  fold_left (fun acc e => match e with EValue _ _ v => Some v | _ => acc end) l None.

Lemma last_value_cproj x tr : last_value x tr = lastv (cproj x tr).
Proof.
  unfold last_value, lastv, cproj. generalize (@None Z).
  induction tr as [|[e en] tr IH]; intros acc; simpl; auto.
  destruct e; simpl; try apply IH.
  - rewrite (String.eqb_sym c x). destruct (String.eqb x c); simpl; apply IH.
  - destruct (String.eqb c x); simpl; apply IH.
Qed.

Lemma ended_cproj tr n : ended tr n <-> exists a, In (EEnd a n) (cproj n tr).
Proof.
  unfold ended, cproj. split.
  - intros (a & en & Hin). exists a. apply filter_In. split.
    + change (EEnd a n) with (fst (EEnd a n, en)). now apply in_map.
    + simpl. apply String.eqb_refl.
  - intros (a & Hin). apply filter_In in Hin. destruct Hin as [Hin _].
    apply in_map_iff in Hin. destruct Hin as ([e en] & He & Hin). simpl in He. subst. eauto.
Qed.

Lemma endedb_app t1 t2 n : endedb (t1 ++ t2) n = endedb t1 n || endedb t2 n.
Proof. unfold endedb. apply existsb_app. Qed.

(* ---- SAFETY, every dcop, every schedule, every moment: when AgentsMgt orders the agents to
   stop (other than on a stop request = timeout / external stop), every DPOP computation has
   finished and the value table already holds, for every computation, the value it selected *)
Lemma ended_app_l t1 t2 n : ended t1 n -> ended (t1 ++ t2) n.
Proof. intros (a & en & H). exists a, en. apply in_or_app. auto. Qed.

Theorem stop_sound P L c sched tr e en ag :
  link_ok P L c ->
  let r := Net.run (dpop_proto P) sched in
  transport P L (snd r) (tr ++ [(e, en)]) ->
  (forall en', ~ In (EStopReq, en') (tr ++ [(e, en)])) ->
  In (OStop ag) (snd (M_Orch.step c (M_Orch.run c tr) en e)) ->
  forall x, In x (tree_ids P) ->
    s_fin (w_st (nodes (fst r) x)) = true /\
    slookup (lk_name L x) (reported_assignment (M_Orch.run c tr)) = Some (chosen (fst r) x).
Proof.
  intros [Linj Lnodes] r [Tf To] Hnsr Hstop x Hx.
  assert (Hne : e <> EStopReq).
  { intros ->. apply (Hnsr en). apply in_or_app. right. left. reflexivity. }
  apply orch_finishes_iff_all_ended_l in Hstop; auto.
  assert (Hall : forall n, In n (g_nodes c) -> ended (tr ++ [(e, en)]) n).
  { destruct Hstop as [(_ & a0 & x0 & He & Hall)|(He & p & e' & en' & s & Htr & Hs)]; [exact Hall|].
    destruct Hs as [->|(a0 & x0 & -> & Hall)].
    - exfalso. apply (Hnsr en'). apply in_or_app. left. rewrite Htr. apply in_or_app. right. left. reflexivity.
    - intros n Hn. specialize (Hall n Hn). rewrite Htr.
      change (p ++ (EEnd a0 x0, en') :: s) with (p ++ [(EEnd a0 x0, en')] ++ s).
      rewrite app_assoc. apply ended_app_l. apply ended_app_l. exact Hall. }
  assert (Ht : cproj (lk_name L x) [(e, en)] = [] \/
               exists a0 x0, cproj (lk_name L x) [(e, en)] = [EEnd a0 x0]).
  { destruct Hstop as [(_ & a0 & x0 & -> & _)|(-> & _)].
    - unfold cproj. simpl. destruct (String.eqb x0 (lk_name L x)); eauto.
    - left. reflexivity. }
  assert (Hn : In (lk_name L x) (g_nodes c)) by (rewrite Lnodes; now apply in_map).
  specialize (Hall _ Hn). apply ended_cproj in Hall. destruct Hall as (a & Hin).
  destruct (Tf x Hx) as (rest & Heq).
  rewrite orch_reports_last_values_l, last_value_cproj.
  rewrite cproj_app in Hin, Heq.
  destruct (posted_cases P L sched x) as [(Hf & Hp)|(v & k & Hf & Hv & Hp)]; fold r in Hf, Hp.
  - exfalso. rewrite Hp in Heq. destruct (cproj (lk_name L x) tr ++ cproj (lk_name L x) [(e, en)]);
      [destruct Hin|discriminate].
  - fold r in Hv. split; [exact Hf|]. unfold chosen. rewrite Hv. rewrite Hp in Heq.
    destruct (cproj (lk_name L x) tr) as [|q1 [|q2 [|q3 q]]]; destruct Ht as [Ht|(a0 & x0 & Ht)]; rewrite Ht in *;
      simpl in *; inversion Heq; subst; try reflexivity; try discriminate;
      repeat (destruct Hin as [Hin|Hin]; try discriminate); try contradiction.
Qed.

(* ---- LIVENESS at quiescence *)
Lemma first_true {A} (q : list A -> bool) : forall l, q [] = false -> q l = true ->
  exists p e s, l = p ++ e :: s /\ q p = false /\ q (p ++ [e]) = true.
Proof.
  induction l as [|e l IH] using rev_ind; intros H0 H1; [congruence|].
  destruct (q l) eqn:E.
  - destruct (IH H0 eq_refl) as (p & e' & s & -> & Hp & Hpe).
    exists p, e', (s ++ [e]). split; auto. rewrite <- app_assoc. reflexivity.
  - exists l, e, []. auto.
Qed.

Theorem stop_happens P L c sched tr :
  dpop_valid P -> link_ok P L c -> tree_ids P <> [] ->
  let r := Net.run (dpop_proto P) sched in
  complete P (fst r) -> delivered P L (snd r) tr ->
  exists tr1 a x en tr2, tr = tr1 ++ (EEnd a x, en) :: tr2 /\
    (forall ag, In (OStop ag) (snd (M_Orch.step c (M_Orch.run c tr1) en (EEnd a x))) <-> In ag (e_agents en)) /\
    (forall p e' en' s ag, tr1 = p ++ (e', en') :: s ->
        (forall en'', ~ In (EStopReq, en'') (p ++ [(e', en')])) ->
        ~ In (OStop ag) (snd (M_Orch.step c (M_Orch.run c p) en' e'))).
Proof.
  intros Hv [Linj Lnodes] Hne r Hc [Hd _].
  set (Q := fun p : list (M_Orch.ev * env) => forallb (endedb p) (g_nodes c)).
  assert (Q0 : Q [] = false).
  { unfold Q. rewrite Lnodes. destruct (tree_ids P); [congruence|reflexivity]. }
  assert (Q1 : Q tr = true).
  { unfold Q. apply forallb_forall. intros n Hn. rewrite Lnodes in Hn. apply in_map_iff in Hn.
    destruct Hn as (x & <- & Hx). apply endedb_ended. apply ended_cproj.
    destruct (complete_all_finished P sched Hv Hc x Hx) as (Hf & _). fold r in Hf.
    pose proof (posted_cases P L sched x) as PC. cbv zeta in PC. fold r in PC.
    destruct PC as [(Hf' & _)|(v & k & _ & _ & Hp)]; [congruence|].
    exists (lk_host L x). rewrite (Hd x Hx), Hp. right; left; auto. }
  destruct (first_true Q tr Q0 Q1) as (p & [e en] & s & -> & Hp & Hpe).
  assert (Hall : forall n, In n (g_nodes c) -> ended (p ++ [(e, en)]) n).
  { unfold Q in Hpe. rewrite forallb_forall in Hpe. intros n Hn. apply endedb_ended. auto. }
  assert (He : exists a x, e = EEnd a x).
  { unfold Q in Hp. apply forallb_false_ex in Hp. destruct Hp as (n & Hn & Hf).
    specialize (Hall n Hn). apply endedb_ended in Hall. rewrite endedb_snoc, Hf in Hall. simpl in Hall.
    destruct e; simpl in Hall; try discriminate. eauto. }
  destruct He as (a & x & ->). exists p, a, x, en, s. split; auto. split.
  - intros ag. rewrite orch_finishes_iff_all_ended_l by discriminate. split.
    + intros [[Hag _]|[H _]]; [exact Hag|discriminate].
    + intros Hag. left. split; auto. exists a, x. auto.
  - intros p' e' en' s' ag -> Hnsr Hstop.
    assert (Hne' : e' <> EStopReq).
    { intros ->. apply (Hnsr en'). apply in_or_app. right. left. reflexivity. }
    apply orch_finishes_iff_all_ended_l in Hstop; auto.
    assert (Hq : exists t1 t2, p' ++ (e', en') :: s' = t1 ++ t2 /\
                 forall n, In n (g_nodes c) -> ended t1 n).
    { destruct Hstop as [(_ & _ & _ & _ & Hall')|(_ & p2 & e2 & en2 & s2 & Hp2 & Hs2)].
      - exists (p' ++ [(e', en')]), s'. split; auto. rewrite <- app_assoc. reflexivity.
      - destruct Hs2 as [->|(a2 & x2 & -> & Hall2)].
        + exfalso. apply (Hnsr en2). apply in_or_app. left. rewrite Hp2. apply in_or_app. right. left. reflexivity.
        + exists (p2 ++ [(EEnd a2 x2, en2)]), (s2 ++ (e', en') :: s'). split; auto.
          rewrite Hp2. rewrite <- !app_assoc. reflexivity. }
    destruct Hq as (t1 & t2 & Heq & Hall').
    assert (Q (p' ++ (e', en') :: s') = true); [|congruence].
    unfold Q. apply forallb_forall. intros n Hn. specialize (Hall' n Hn). apply endedb_ended in Hall'.
    rewrite Heq, endedb_app, Hall'. reflexivity.
Qed.

(* ---- the result: total, DPOP's values, optimal, accounted *)
Lemma aval_assignment P cf x : In x (tree_ids P) ->
  aval (P_Dpop2.assignment P cf) x = Z.to_nat (chosen cf x).
Proof.
  intros Hx. unfold aval, P_Dpop2.assignment.
  assert (E : zlookup x (map (fun y => (y, chosen cf y)) (tree_ids P)) = Some (chosen cf x)).
  { unfold zlookup. induction (tree_ids P) as [|y l IH]; [destruct Hx|]. simpl.
    destruct (Z.eqb x y) eqn:E; [apply Z.eqb_eq in E; subst; reflexivity|].
    apply IH. destruct Hx as [->|Hx]; auto. rewrite Z.eqb_refl in E. discriminate. }
  rewrite E. reflexivity.
Qed.

(* everything that follows once every computation has finished and the value table of AgentsMgt
   holds their selected values *)
Lemma result_core P L c inf sched (m : mgt) :
  dpop_check P = true -> cons_shaped P = true -> link_ok P L c ->
  let r := Net.run (dpop_proto P) sched in
  let sg := P_Dpop2.assignment P (fst r) in
  (forall x, In x (tree_ids P) -> s_fin (w_st (nodes (fst r) x)) = true) ->
  NoDup (map fst (m_values m)) ->
  (forall x, In x (tree_ids P) -> slookup (lk_name L x) (m_values m) = Some (chosen (fst r) x)) ->
  in_dom (dsize P) sg (tree_ids P) /\
  (forall a, in_dom (dsize P) a (tree_ids P) -> mle (dc_mode P) (dcop_cost P sg) (dcop_cost P a)) /\
  is_best (dc_mode P) (map (dcop_cost P) (ext P (tree_ids P) [])) (dcop_cost P sg) /\
  reported_cost (dcop_of L P inf) m
    = Some (count_inf inf (cost_terms P sg), sum_finite inf (cost_terms P sg)) /\
  sum_finite inf (cost_terms P sg) + inf * count_inf inf (cost_terms P sg) = dcop_cost P sg /\
  (count_inf inf (cost_terms P sg) = 0 -> sum_finite inf (cost_terms P sg) = dcop_cost P sg).
Proof.
  intros Hchk Hsh [Linj Lnodes] r sg Hfin Hnd Hval.
  destruct (dpop_check_sound P Hchk) as (Hv & _ & _).
  pose proof (all_fin_complete P sched Hv Hfin) as Hc.
  destruct (all_schedules P sched Hchk) as [_ HA]. destruct (HA Hc) as (Hnodes & Hdom & Hopt & Hbest).
  fold r in Hnodes, Hdom, Hopt, Hbest. fold sg in Hdom, Hopt, Hbest.
  split; [exact Hdom|]. split; [exact Hopt|]. split; [exact Hbest|].
  assert (Hsum := sum_count_zsum inf (cost_terms P sg)). rewrite zsum_cost_terms in Hsum.
  split; [|split; [exact Hsum|intros H0; rewrite H0 in Hsum; lia]].
  apply reported_cost_dcop_cost; auto.
  - destruct Hv as (dep & B & V). apply NoDup_map_inj_in; [exact Linj|apply (dv_nodup _ _ _ V)].
  - apply cons_dims_in_tree. exact Hchk.
  - intros x Hx. rewrite (Hval x Hx). f_equal. unfold sg. rewrite aval_assignment by exact Hx.
    destruct (Hnodes x Hx) as (_ & _ & _ & v & k & Hs & _ & Hr). unfold chosen. rewrite Hs. lia.
Qed.

(* (2) the composed statement at the end of the run *)
Theorem orch_dpop_result_optimal_l P L c inf sched tr :
  dpop_check P = true -> cons_shaped P = true -> link_ok P L c ->
  let r := Net.run (dpop_proto P) sched in
  complete P (fst r) -> delivered P L (snd r) tr ->
  let m := M_Orch.run c tr in
  let sg := P_Dpop2.assignment P (fst r) in
  (forall x, In x (tree_ids P) ->
     s_fin (w_st (nodes (fst r) x)) = true /\
     slookup (lk_name L x) (reported_assignment m) = Some (chosen (fst r) x)) /\
  (forall s v, In (s, v) (reported_assignment m) -> exists x, In x (tree_ids P) /\ s = lk_name L x) /\
  in_dom (dsize P) sg (tree_ids P) /\
  (forall a, in_dom (dsize P) a (tree_ids P) -> mle (dc_mode P) (dcop_cost P sg) (dcop_cost P a)) /\
  is_best (dc_mode P) (map (dcop_cost P) (ext P (tree_ids P) [])) (dcop_cost P sg) /\
  reported_cost (dcop_of L P inf) m
    = Some (count_inf inf (cost_terms P sg), sum_finite inf (cost_terms P sg)) /\
  sum_finite inf (cost_terms P sg) + inf * count_inf inf (cost_terms P sg) = dcop_cost P sg /\
  (count_inf inf (cost_terms P sg) = 0 -> sum_finite inf (cost_terms P sg) = dcop_cost P sg).
Proof.
  intros Hchk Hsh HL r Hc [Hd Ho] m sg.
  destruct (dpop_check_sound P Hchk) as (Hv & _ & _).
  assert (Hfin : forall x, In x (tree_ids P) -> s_fin (w_st (nodes (fst r) x)) = true).
  { intros x Hx. apply (complete_all_finished P sched Hv Hc x Hx). }
  assert (Hval : forall x, In x (tree_ids P) ->
            slookup (lk_name L x) (reported_assignment m) = Some (chosen (fst r) x)).
  { intros x Hx. unfold m. rewrite orch_reports_last_values_l, last_value_cproj, (Hd x Hx).
    pose proof (posted_cases P L sched x) as PC. cbv zeta in PC. fold r in PC.
    destruct PC as [(Hf' & _)|(v & k & _ & Hs & Hp)]; [rewrite (Hfin x Hx) in Hf'; discriminate|].
    rewrite Hp. unfold chosen. rewrite Hs. reflexivity. }
  split; [intros x Hx; split; auto|]. split.
  - intros s v Hin.
    destruct (in_dec string_dec s (map (lk_name L) (tree_ids P))) as [Hs|Hs].
    + apply in_map_iff in Hs. destruct Hs as (x & <- & Hx). eauto.
    + exfalso. assert (Hc0 : cproj s tr = []).
      { apply Ho. intros x Hx E. apply Hs. rewrite <- E. now apply in_map. }
      assert (Hl : slookup s (reported_assignment m) = None).
      { unfold m. rewrite orch_reports_last_values_l, last_value_cproj, Hc0. reflexivity. }
      apply slookup_none_iff in Hl. apply Hl. change s with (fst (s, v)). now apply in_map.
  - apply (result_core P L c inf sched m Hchk Hsh HL Hfin); [apply values_nodup|exact Hval].
Qed.

(* the same already holds at the moment AgentsMgt orders the agents to stop, on every schedule
   (complete or not) and for every trace delivered so far: the stop order is never early *)
Theorem orch_dpop_stop_result_l P L c inf sched tr e en ag :
  dpop_check P = true -> cons_shaped P = true -> link_ok P L c ->
  let r := Net.run (dpop_proto P) sched in
  transport P L (snd r) (tr ++ [(e, en)]) ->
  (forall en', ~ In (EStopReq, en') (tr ++ [(e, en)])) ->
  In (OStop ag) (snd (M_Orch.step c (M_Orch.run c tr) en e)) ->
  let m := M_Orch.run c tr in
  let sg := P_Dpop2.assignment P (fst r) in
  (forall x, In x (tree_ids P) ->
     s_fin (w_st (nodes (fst r) x)) = true /\
     slookup (lk_name L x) (reported_assignment m) = Some (chosen (fst r) x)) /\
  complete P (fst r) /\
  is_best (dc_mode P) (map (dcop_cost P) (ext P (tree_ids P) [])) (dcop_cost P sg) /\
  reported_cost (dcop_of L P inf) m
    = Some (count_inf inf (cost_terms P sg), sum_finite inf (cost_terms P sg)) /\
  sum_finite inf (cost_terms P sg) + inf * count_inf inf (cost_terms P sg) = dcop_cost P sg.
Proof.
  intros Hchk Hsh HL r Ht Hne Hstop m sg.
  pose proof (stop_sound P L c sched tr e en ag HL Ht Hne Hstop) as HS. fold r in HS.
  assert (Hfin : forall x, In x (tree_ids P) -> s_fin (w_st (nodes (fst r) x)) = true)
    by (intros x Hx; apply HS; exact Hx).
  destruct (dpop_check_sound P Hchk) as (Hv & _ & _).
  split; [exact HS|]. split; [apply (all_fin_complete P sched Hv Hfin)|].
  destruct (result_core P L c inf sched m Hchk Hsh HL Hfin) as (_ & _ & Hb & Hr & Hs & _).
  - apply values_nodup.
  - intros x Hx. apply HS. exact Hx.
  - auto.
Qed.

(* ---- thread mode satisfies the transport assumption: one queue at the orchestrator, FIFO among
   the management messages (all MSG_MGT), whatever else is interleaved *)
Lemma filter_filter_imp {A} (p q : A -> bool) l : (forall x, p x = true -> q x = true) ->
  filter p (filter q l) = filter p l.
Proof.
  intros H. induction l as [|x r IH]; simpl; auto. destruct (q x) eqn:Eq; simpl.
  - rewrite IH. reflexivity.
  - destruct (p x) eqn:Ep; auto. rewrite (H x Ep) in Eq. discriminate.
Qed.

Lemma fifo_delivered P L evs tr :
  (forall x y, In x (tree_ids P) -> In y (tree_ids P) -> lk_name L x = lk_name L y -> x = y) ->
  events_in_tree P evs = true ->
  filter is_ve (map fst tr) = flat_map (mgmt_of L) evs ->
  delivered P L evs tr.
Proof.
  intros Linj Hev Hfifo.
  assert (Hc : forall s, cproj s tr = filter (about s) (flat_map (mgmt_of L) evs)).
  { intros s. unfold cproj. rewrite <- Hfifo. symmetry. apply filter_filter_imp.
    intros e. destruct e; simpl; auto; discriminate. }
  unfold events_in_tree in Hev. rewrite forallb_forall in Hev. split.
  - intros x Hx. rewrite Hc. unfold posted. clear Hfifo Hc.
    induction evs as [|e r IH]; simpl; auto.
    rewrite filter_app, IH by (intros e' He'; apply Hev; right; auto).
    specialize (Hev e (or_introl eq_refl)).
    destruct e; simpl; auto.
    + apply zmem_In in Hev. destruct (Z.eqb n x) eqn:E.
      * apply Z.eqb_eq in E. subst. rewrite String.eqb_refl. reflexivity.
      * assert (E2 : String.eqb (lk_name L n) (lk_name L x) = false).
        { apply String.eqb_neq. intros H. apply Linj in H; auto. subst. rewrite Z.eqb_refl in E. discriminate. }
        rewrite E2. reflexivity.
    + apply zmem_In in Hev. destruct (Z.eqb n x) eqn:E.
      * apply Z.eqb_eq in E. subst. rewrite String.eqb_refl. reflexivity.
      * assert (E2 : String.eqb (lk_name L n) (lk_name L x) = false).
        { apply String.eqb_neq. intros H. apply Linj in H; auto. subst. rewrite Z.eqb_refl in E. discriminate. }
        rewrite E2. reflexivity.
  - intros s Hs. rewrite Hc. clear Hfifo Hc.
    induction evs as [|e r IH]; simpl; auto.
    rewrite filter_app, IH by (intros e' He'; apply Hev; right; auto).
    specialize (Hev e (or_introl eq_refl)).
    destruct e; simpl; auto.
    + apply zmem_In in Hev. assert (E2 : String.eqb (lk_name L n) s = false)
        by (apply String.eqb_neq; apply Hs; auto). rewrite E2. reflexivity.
    + apply zmem_In in Hev. assert (E2 : String.eqb (lk_name L n) s = false)
        by (apply String.eqb_neq; apply Hs; auto). rewrite E2. reflexivity.
Qed.

(* the event order in plain form (for Prop_C22) *)
Lemma dpop_events_ordered_l : forall P sched x,
  let r := Net.run (dpop_proto P) sched in
  (s_fin (w_st (nodes (fst r) x)) = false -> filter (sel_fin x) (snd r) = []) /\
  (s_fin (w_st (nodes (fst r) x)) = true ->
     exists v k, s_value (w_st (nodes (fst r) x)) = Some (v, k) /\
                 filter (sel_fin x) (snd r) = [EvSelect x v k; EvFinished x]).
Proof. intros P sched x r. destruct (run_EvOrd P sched x) as (_ & O2 & O3). split; auto. Qed.
