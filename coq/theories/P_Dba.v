(* P_Dba.v -- proofs about the DBA model M_Dba.v (property C09). *)
From PyDcop Require Import Base Net M_Dba.
From Coq Require Import ZifyBool.

Definition posw (w : Z) : Prop := 0 < w.

(* ------------------------------------------------------------------ small list facts *)
Lemma zlookup_map_in {A} (h : node -> A) (l : list node) (v : node) :
  In v l -> zlookup v (map (fun m => (m, h m)) l) = Some (h v).
Proof.
  unfold zlookup. induction l as [|a l IH]; simpl; intros H; [contradiction|].
  destruct (Z.eqb v a) eqn:E.
  - apply Z.eqb_eq in E. now subst.
  - destruct H as [H|H]; [subst; rewrite Z.eqb_refl in E; discriminate | auto].
Qed.

Lemma forallb_ext' {A} (f g : A -> bool) l : (forall x, f x = g x) -> forallb f l = forallb g l.
Proof. intros H; induction l; simpl; congruence. Qed.

Lemma incr_at_length i w : List.length (incr_at i w) = List.length w.
Proof. revert i; induction w as [|x r IH]; intros [|k]; simpl; auto. Qed.

Lemma incr_at_pos i w : Forall posw w -> Forall posw (incr_at i w).
Proof.
  revert i; induction w as [|x r IH]; intros [|k] H; simpl; auto; inversion H; subst; constructor; auto.
  unfold posw in *; lia.
Qed.

Lemma incr_weights_length v w : List.length (incr_weights v w) = List.length w.
Proof.
  unfold incr_weights. revert w; induction v as [|i v IH]; simpl; intros w; auto.
  rewrite IH. apply incr_at_length.
Qed.

Lemma incr_weights_pos v w : Forall posw w -> Forall posw (incr_weights v w).
Proof.
  unfold incr_weights. revert w; induction v as [|i v IH]; simpl; intros w H; auto.
  apply IH. now apply incr_at_pos.
Qed.

Section Sync.
  Variable cs : list constr.
  Variable ncs : node -> list nat.
  Variable dom : node -> list Z.
  Variable infinity maxd : Z.

  Notation node_cs := (node_cs cs ncs).
  Notation nbrs := (nbrs cs ncs).
  Notation violated := (violated infinity).
  Notation eval_value := (eval_value infinity).
  Notation eval_at := (eval_at cs ncs infinity).
  Notation do_improve := (do_improve cs ncs dom infinity).
  Notation send_ok := (send_ok cs ncs maxd).
  Notation nvals_of := (nvals_of cs ncs).
  Notation after_ok := (after_ok cs ncs dom infinity).
  Notation after_imp := (after_imp cs ncs dom infinity).
  Notation sround := (sround cs ncs dom infinity maxd).
  Notation srounds := (srounds cs ncs dom infinity maxd).
  Notation stops := (stops cs ncs dom infinity maxd).
  Notation seval := (seval cs ncs infinity).
  Notation within := (within cs ncs).
  Notation gst_ok := (gst_ok ncs).
  Notation gst_init := (gst_init ncs).
  Notation satisfying := (satisfying cs infinity).

  (* ---------------------------------------------------------------- evaluation *)
  Lemma violated_ext c f f' : (forall v, In v (fst c) -> f v = f' v) -> violated c f = violated c f'.
  Proof. intros H. unfold M_Dba.violated, c_cost. now rewrite (map_ext_in _ _ _ H). Qed.

  Lemma eval_value_nonneg f i rels w : Forall posw w -> 0 <= fst (eval_value f i rels w).
  Proof.
    revert i w; induction rels as [|c rs IH]; intros i [|wi ws] H; simpl; try lia.
    inversion H; subst. specialize (IH (S i) ws H3).
    destruct (eval_value f (S i) rs ws) as [e vl]. simpl in *.
    destruct (violated c f); simpl; unfold posw in *; lia.
  Qed.

  Lemma eval_value_zero f i rels w :
    Forall posw w -> List.length w = List.length rels -> fst (eval_value f i rels w) = 0 ->
    forall c, In c rels -> violated c f = false.
  Proof.
    revert i w; induction rels as [|c rs IH]; intros i [|wi ws] H L E c0 Hin; simpl in *; try contradiction; try discriminate.
    inversion H; subst. pose proof (eval_value_nonneg f (S i) rs ws H3) as NN.
    specialize (IH (S i) ws H3).
    destruct (eval_value f (S i) rs ws) as [e vl]. simpl in *.
    destruct (violated c f) eqn:V; simpl in E.
    - unfold posw in *; lia.
    - destruct Hin as [<-|Hin]; [assumption | apply IH; auto].
  Qed.

  Lemma eval_value_all_sat f i rels w :
    (forall c, In c rels -> violated c f = false) -> eval_value f i rels w = (0, []).
  Proof.
    revert i w; induction rels as [|c rs IH]; intros i [|wi ws] H; simpl; auto.
    rewrite IH by (intros; apply H; now right). rewrite (H c) by now left. reflexivity.
  Qed.

  Lemma scope_in_nbrs n c v : In c (node_cs n) -> In v (fst c) -> v = n \/ In v (nbrs n).
  Proof.
    intros Hc Hv. destruct (Z.eq_dec v n) as [->|Hne]; [now left|right].
    unfold M_Dba.nbrs. apply nodup_In. apply filter_In. split.
    - apply in_flat_map. now exists c.
    - apply negb_true_iff. now apply Z.eqb_neq.
  Qed.

  Lemma nbrs_neq n v : In v (nbrs n) -> v <> n.
  Proof.
    unfold M_Dba.nbrs. rewrite nodup_In, filter_In. intros [_ H].
    apply negb_true_iff in H. now apply Z.eqb_neq.
  Qed.

  (* what a node evaluates with its neighbours' values is the global assignment *)
  Lemma asg_global g n c v : In c (node_cs n) -> In v (fst c) ->
    asg n (sassign g n) (nvals_of g n) v = sassign g v.
  Proof.
    intros Hc Hv. unfold asg. destruct (scope_in_nbrs n c v Hc Hv) as [->|Hin].
    - now rewrite Z.eqb_refl.
    - pose proof (nbrs_neq n v Hin) as Hne. apply Z.eqb_neq in Hne. rewrite Hne.
      unfold M_Dba.nvals_of. rewrite (zlookup_map_in (fun m => oz (d_value (g m))) _ _ Hin). reflexivity.
  Qed.

  Lemma seval_unfold g n :
    seval g n = fst (eval_value (asg n (sassign g n) (nvals_of g n)) 0 (node_cs n) (d_w (g n))).
  Proof. reflexivity. Qed.

  Lemma node_cs_length n : List.length (node_cs n) = List.length (ncs n).
  Proof. unfold M_Dba.node_cs. apply map_length. Qed.

  Lemma seval_nonneg g n : gst_ok g -> 0 <= seval g n.
  Proof. intros H. rewrite seval_unfold. apply eval_value_nonneg. apply (H n). Qed.

  Lemma seval_zero_sat g n : gst_ok g -> seval g n = 0 ->
    forall c, In c (node_cs n) -> violated c (sassign g) = false.
  Proof.
    intros Hok E c Hc. destruct (Hok n) as [L [P _]].
    rewrite <- (violated_ext c (asg n (sassign g n) (nvals_of g n))).
    - eapply eval_value_zero; eauto. now rewrite node_cs_length.
    - intros v Hv. now apply (asg_global g n c v).
  Qed.

  Lemma sat_seval_zero g n :
    (forall c, In c (node_cs n) -> violated c (sassign g) = false) -> seval g n = 0.
  Proof.
    intros H. rewrite seval_unfold. rewrite eval_value_all_sat; auto.
    intros c Hc. rewrite (violated_ext c _ (sassign g)); auto.
    intros v Hv. now apply (asg_global g n c v).
  Qed.

  (* ---------------------------------------------------------------- _compute_best_improvement *)
  Lemma best_imp_nonneg evalf vals bests best :
    (forall v, 0 <= evalf v) -> 0 <= best -> 0 <= snd (best_imp evalf vals bests best).
  Proof.
    intros He. revert bests best; induction vals as [|v r IH]; simpl; intros bests best Hb; auto.
    destruct (evalf v <? best); [apply IH; apply He|].
    destruct (evalf v =? best); apply IH; auto.
  Qed.

  (* ---------------------------------------------------------------- improve() *)
  Definition ce_of (n : node) (s : dst) : Z := fst (eval_at n s (oz (d_value s))).

  Lemma do_improve_proj n s :
    let r := fst (fst (do_improve n s)) in
    d_value r = d_value s /\ d_w r = d_w s /\ d_cost r = Some (ce_of n s)
    /\ d_tc r = (if ce_of n s =? 0 then d_tc s else 0)
    /\ d_cons r = Some (ce_of n s =? 0)
    /\ (ce_of n s = 0 -> 0 <= infinity -> Forall posw (d_w s) -> d_can r = false).
  Proof.
    unfold ce_of, M_Dba.do_improve.
    destruct (eval_at n s (oz (d_value s))) as [ce viol] eqn:E.
    destruct (best_imp (fun v => fst (eval_at n s v)) (dom n) [] infinity) as [bests be] eqn:B.
    assert (Hbe : 0 <= infinity -> Forall posw (d_w s) -> 0 <= be).
    { intros Hi Hp. change be with (snd (bests, be)). rewrite <- B. apply best_imp_nonneg; auto.
      intros v. unfold M_Dba.eval_at. now apply eval_value_nonneg. }
    simpl fst. destruct (0 <? ce - be) eqn:M.
    - destruct (pick (d_orc s) bests) as [[nv|] o]; simpl; repeat split; auto; intros -> Hi Hp; specialize (Hbe Hi Hp); lia.
    - simpl. repeat split; auto.
  Qed.

  (* ---------------------------------------------------------------- the improve messages *)
  Definition istc (s : dst) : bool := match d_cons s with Some true => true | _ => false end.
  Definition m_eval (m : Z * Z * Z) : Z := snd (fst m).
  Definition m_tc (m : Z * Z * Z) : Z := snd m.

  Section Fold.
    Variable n : node.
    Variable msgf : node -> Z * Z * Z.
    Definition F (l : list node) (s : dst) : dst := fold_left (fun s m => imp_core n s m (msgf m)) l s.

    Lemma imp_core_proj s src m :
      let r := imp_core n s src m in
      d_value r = d_value s /\ d_w r = d_w s /\ d_tc r = Z.min (m_tc m) (d_tc s)
      /\ istc r = istc s && negb (0 <? m_eval m) /\ (d_can s = false -> d_can r = false)
      /\ d_viol r = d_viol s /\ d_new r = d_new s /\ d_cost r = d_cost s /\ d_imp r = d_imp s.
    Proof.
      destruct m as [[mi me] mtc]. unfold istc, m_eval, m_tc. simpl. repeat split; auto.
      - destruct (0 <? me); simpl; [now rewrite andb_false_r | now rewrite andb_true_r].
      - intros ->. destruct (d_imp s <? mi); auto. destruct ((mi =? d_imp s) && (src <? n)); auto.
    Qed.

    Lemma F_proj l s :
      d_value (F l s) = d_value s /\ d_w (F l s) = d_w s
      /\ d_tc (F l s) <= d_tc s /\ (forall m, In m l -> d_tc (F l s) <= m_tc (msgf m))
      /\ (0 <= d_tc s -> (forall m, In m l -> 0 <= m_tc (msgf m)) -> 0 <= d_tc (F l s))
      /\ istc (F l s) = istc s && forallb (fun m => negb (0 <? m_eval (msgf m))) l
      /\ (d_can s = false -> d_can (F l s) = false).
    Proof.
      revert s; induction l as [|a l IH]; intros s; simpl.
      - repeat split; auto; try lia; try contradiction; try (now rewrite andb_true_r).
      - destruct (imp_core_proj s a (msgf a)) as [V [W [T [C [K _]]]]].
        destruct (IH (imp_core n s a (msgf a))) as [V' [W' [T1 [T2 [T3 [C' K']]]]]].
        fold (F l (imp_core n s a (msgf a))) in *.
        repeat split.
        + congruence.
        + congruence.
        + lia.
        + intros m [<-|Hm]; [lia | auto].
        + intros H0 Hm. apply T3; [|intros; apply Hm; now right]. specialize (Hm a (or_introl eq_refl)). lia.
        + rewrite C', C. now rewrite andb_assoc.
        + auto.
    Qed.
  End Fold.

  (* ---------------------------------------------------------------- _send_ok *)
  Lemma send_ok_proj n s :
    let r := fst (fst (send_ok n s)) in
    d_tc r = (if istc s then d_tc s + 1 else d_tc s)
    /\ (d_can s = false -> d_value r = d_value s)
    /\ List.length (d_w r) = List.length (d_w s)
    /\ (Forall posw (d_w s) -> Forall posw (d_w r)).
  Proof.
    unfold M_Dba.send_ok, istc.
    destruct (d_cons s) as [[|]|]; simpl.
    - destruct (d_tc s + 1 =? maxd); simpl; repeat split; auto.
      + now intros ->.
      + destruct (d_qlm s); auto using incr_weights_length.
      + destruct (d_qlm s); auto using incr_weights_pos.
    - repeat split; auto.
      + now intros ->.
      + destruct (d_qlm s); auto using incr_weights_length.
      + destruct (d_qlm s); auto using incr_weights_pos.
    - repeat split; auto.
      + now intros ->.
      + destruct (d_qlm s); auto using incr_weights_length.
      + destruct (d_qlm s); auto using incr_weights_pos.
  Qed.

  (* ---------------------------------------------------------------- one synchronous round *)
  Definition s0 (g : gst) (n : node) : dst := set_nvals (nvals_of g n) (g n).
  Definition tc0 (g : gst) (x : node) : Z := if seval g x =? 0 then d_tc (g x) else 0.
  Definition msgf (g : gst) (m : node) : Z * Z * Z := imp_msg (fst (fst (after_ok g m))).

  Lemma ce_of_s0 g n : ce_of n (s0 g n) = seval g n.
  Proof. reflexivity. Qed.

  Lemma msgf_proj g m : m_eval (msgf g m) = seval g m /\ m_tc (msgf g m) = tc0 g m.
  Proof.
    unfold msgf, imp_msg, m_eval, m_tc, M_Dba.after_ok. fold (s0 g m).
    destruct (do_improve_proj m (s0 g m)) as [_ [_ [C [T _]]]]. simpl in *.
    rewrite C, T, ce_of_s0. split; reflexivity.
  Qed.

  Lemma after_imp_F g n : after_imp g n = F n (msgf g) (nbrs n) (fst (fst (after_ok g n))).
  Proof. reflexivity. Qed.

  Definition consb (g : gst) (n : node) : bool :=
    (seval g n =? 0) && forallb (fun m => negb (0 <? seval g m)) (nbrs n).

  Lemma after_imp_proj g n : gst_ok g ->
    d_value (after_imp g n) = d_value (g n) /\ d_w (after_imp g n) = d_w (g n)
    /\ (forall x, In x (n :: nbrs n) -> d_tc (after_imp g n) <= tc0 g x)
    /\ 0 <= d_tc (after_imp g n)
    /\ istc (after_imp g n) = consb g n
    /\ (seval g n = 0 -> 0 <= infinity -> d_can (after_imp g n) = false).
  Proof.
    intros Hok. rewrite after_imp_F. unfold M_Dba.after_ok. fold (s0 g n).
    destruct (do_improve_proj n (s0 g n)) as [V [W [C [T [K CAN]]]]]. simpl in V, W, C, T, K, CAN.
    rewrite ce_of_s0 in *.
    destruct (F_proj n (msgf g) (nbrs n) (fst (fst (do_improve n (s0 g n))))) as [V' [W' [T1 [T2 [T3 [C' K']]]]]].
    assert (Htc0 : forall x, 0 <= tc0 g x).
    { intros x. unfold tc0. destruct (seval g x =? 0); [apply (Hok x) | lia]. }
    repeat split.
    - now rewrite V', V.
    - now rewrite W', W.
    - intros x [<-|Hx].
      + rewrite T in T1. exact T1.
      + specialize (T2 x Hx). now rewrite (proj2 (msgf_proj g x)) in T2.
    - apply T3.
      + rewrite T. apply (Htc0 n).
      + intros m _. rewrite (proj2 (msgf_proj g m)). apply Htc0.
    - rewrite C'. unfold consb, istc. rewrite K. f_equal.
      + destruct (seval g n =? 0); reflexivity.
      + apply forallb_ext'. intros m. now rewrite (proj1 (msgf_proj g m)).
    - intros E Hi. apply K'. apply CAN; auto. apply (Hok n).
  Qed.

  Lemma consb_true g n : gst_ok g -> consb g n = true -> forall x, In x (n :: nbrs n) -> seval g x = 0.
  Proof.
    intros Hok H x Hx. unfold consb in H. apply andb_true_iff in H as [H1 H2].
    destruct Hx as [<-|Hx]; [lia|].
    rewrite forallb_forall in H2. specialize (H2 x Hx). pose proof (seval_nonneg g x Hok). lia.
  Qed.

  Lemma consb_false g n : consb g n = false -> exists x, In x (n :: nbrs n) /\ seval g x <> 0.
  Proof.
    unfold consb. intros H. apply andb_false_iff in H as [H|H].
    - exists n. split; [now left | lia].
    - assert (E : existsb (fun m => 0 <? seval g m) (nbrs n) = true).
      { clear -H. induction (nbrs n) as [|a l IH]; simpl in *; [discriminate|].
        destruct (0 <? seval g a); simpl in *; auto. }
      apply existsb_exists in E as [x [Hx Hp]]. exists x. split; [now right | lia].
  Qed.

  Lemma sround_proj g n :
    d_value (sround g n) = d_value (fst (fst (send_ok n (after_imp g n))))
    /\ d_w (sround g n) = d_w (fst (fst (send_ok n (after_imp g n))))
    /\ d_tc (sround g n) = d_tc (fst (fst (send_ok n (after_imp g n)))).
  Proof. repeat split. Qed.

  Lemma sround_ok g : gst_ok g -> gst_ok (sround g).
  Proof.
    intros Hok n. destruct (sround_proj g n) as [_ [W T]]. rewrite W, T.
    destruct (send_ok_proj n (after_imp g n)) as [T' [_ [L P]]]. simpl in T', L, P.
    destruct (after_imp_proj g n Hok) as [_ [W' [_ [T0 _]]]].
    destruct (Hok n) as [L0 [P0 _]].
    repeat split.
    - rewrite L, W'. exact L0.
    - apply P. rewrite W'. exact P0.
    - rewrite T'. destruct (istc (after_imp g n)); lia.
  Qed.

  (* one-round counter lemma: the counter after the round *)
  Lemma sround_tc g n : gst_ok g ->
    (forall x, In x (n :: nbrs n) -> d_tc (sround g n) <= tc0 g x + (if consb g n then 1 else 0))
    /\ (consb g n = false -> d_tc (sround g n) <= 0).
  Proof.
    intros Hok. destruct (sround_proj g n) as [_ [_ T]].
    destruct (send_ok_proj n (after_imp g n)) as [T' _]. simpl in T'.
    destruct (after_imp_proj g n Hok) as [_ [_ [TX [_ [C _]]]]].
    rewrite C in T'. rewrite T, T'.
    assert (A : forall x, In x (n :: nbrs n) -> d_tc (after_imp g n) + (if consb g n then 1 else 0) <= tc0 g x + (if consb g n then 1 else 0)).
    { intros x Hx. specialize (TX x Hx). lia. }
    split.
    - intros x Hx. specialize (A x Hx). destruct (consb g n); lia.
    - intros Hc. destruct (consb_false g n Hc) as [x [Hx Hne]].
      specialize (TX x Hx). rewrite Hc. unfold tc0 in TX.
      destruct (seval g x =? 0) eqn:E; lia.
  Qed.

  Lemma sround_counter_step g n d : gst_ok g -> 0 <= d -> d + 1 <= d_tc (sround g n) ->
    forall x, In x (n :: nbrs n) -> seval g x = 0 /\ d <= d_tc (g x).
  Proof.
    intros Hok Hd H x Hx. destruct (sround_tc g n Hok) as [A B].
    destruct (consb g n) eqn:C.
    - pose proof (consb_true g n Hok C x Hx) as E. split; auto.
      specialize (A x Hx). unfold tc0 in A. rewrite E in A. change (0 =? 0) with true in A. cbv iota in A. lia.
    - specialize (B eq_refl). lia.
  Qed.

  (* a node whose evaluation is 0 does not move *)
  Lemma sround_no_move g n : gst_ok g -> 0 <= infinity -> seval g n = 0 ->
    d_value (sround g n) = d_value (g n).
  Proof.
    intros Hok Hi E. destruct (sround_proj g n) as [V _]. rewrite V.
    destruct (send_ok_proj n (after_imp g n)) as [_ [NM _]]. simpl in NM.
    destruct (after_imp_proj g n Hok) as [V' [_ [_ [_ [_ CAN]]]]].
    rewrite NM; auto.
  Qed.

  (* ---------------------------------------------------------------- rounds *)
  Lemma srounds_ok k g : gst_ok g -> gst_ok (srounds k g).
  Proof. induction k; simpl; auto using sround_ok. Qed.

  Lemma within_one n x : within 1 n x -> In x (n :: nbrs n).
  Proof.
    intros H. inversion H; subst; [now left|].
    match goal with H : within 0 _ _ |- _ => inversion H; subst end. now right.
  Qed.

  Lemma within_S_inv i n x : within (S i) n x -> x = n \/ exists m, In m (nbrs n) /\ within i m x.
  Proof. intros H. inversion H; subst; [now left | right; eauto]. Qed.

  (* counter radius: a counter value d at the start of round k certifies that every node within
     i+1 hops had evaluation 0 in round k-1-i, for every i < d *)
  Theorem counter_radius g0 : gst_init g0 ->
    forall (d k : nat) (n : node), Z.of_nat d <= d_tc (srounds k g0 n) ->
      (d <= k)%nat /\
      forall i x, (i < d)%nat -> within (S i) n x -> seval (srounds (k - 1 - i) g0) x = 0.
  Proof.
    intros [Hok Hz]. induction d as [|d IH]; intros k n H.
    - split; [lia|]. intros; lia.
    - destruct k as [|k]; [simpl in H; rewrite Hz in H; lia|].
      change (srounds (S k) g0 n) with (sround (srounds k g0) n) in H. pose proof (srounds_ok k g0 Hok) as Hk.
      assert (Hstep : forall x, In x (n :: nbrs n) -> seval (srounds k g0) x = 0 /\ Z.of_nat d <= d_tc (srounds k g0 x)).
      { apply sround_counter_step; auto; lia. }
      destruct (IH k n (proj2 (Hstep n (or_introl eq_refl)))) as [Hdk _].
      split; [lia|]. intros i x Hi W.
      destruct i as [|i].
      + replace (S k - 1 - 0)%nat with k by lia. apply Hstep. now apply within_one.
      + replace (S k - 1 - S i)%nat with (k - 1 - i)%nat by lia.
        destruct (within_S_inv _ _ _ W) as [->|[m [Hm Wm]]].
        * destruct (IH k n (proj2 (Hstep n (or_introl eq_refl)))) as [_ R]. apply R; [lia | constructor].
        * destruct (IH k m (proj2 (Hstep m (or_intror Hm)))) as [_ R].
          apply R; [lia | assumption].
  Qed.

  (* once every evaluation is 0 the assignment is frozen and stays satisfying *)
  Definition all_zero (g : gst) : Prop := forall x, seval g x = 0.

  Lemma all_zero_sat g : wf_problem cs ncs -> gst_ok g -> all_zero g -> satisfying (sassign g).
  Proof.
    intros [W1 [W2 _]] Hok Hz c Hc.
    destruct (fst c) as [|x r] eqn:Sc; [exfalso; now apply (W2 c Hc)|].
    assert (Hx : In x (fst c)) by (rewrite Sc; now left).
    apply (seval_zero_sat g x Hok (Hz x) c). now apply W1.
  Qed.

  Lemma all_zero_step g : gst_ok g -> 0 <= infinity -> all_zero g ->
    all_zero (sround g) /\ forall x, sassign (sround g) x = sassign g x.
  Proof.
    intros Hok Hi Hz.
    assert (A : forall x, sassign (sround g) x = sassign g x).
    { intros x. unfold sassign. now rewrite sround_no_move by auto. }
    split; auto. intros n. apply sat_seval_zero. intros c Hc.
    rewrite (violated_ext c _ (sassign g)) by (intros; apply A).
    now apply (seval_zero_sat g n Hok (Hz n)).
  Qed.

  Lemma all_zero_forever g j : gst_ok g -> 0 <= infinity -> all_zero g ->
    all_zero (srounds j g) /\ forall x, sassign (srounds j g) x = sassign g x.
  Proof.
    intros Hok Hi Hz. induction j as [|j [IH1 IH2]]; simpl; [split; auto|].
    destruct (all_zero_step (srounds j g) (srounds_ok j g Hok) Hi IH1) as [A B].
    split; auto. intros x. now rewrite B.
  Qed.

  Lemma srounds_add j k g : srounds (j + k) g = srounds j (srounds k g).
  Proof. induction j; simpl; congruence. Qed.

  Lemma stops_tc g n : stops g n = true -> d_tc (sround g n) = maxd.
  Proof.
    unfold M_Dba.stops. intros H. destruct (sround_proj g n) as [_ [_ T]]. rewrite T.
    destruct (send_ok_proj n (after_imp g n)) as [T' _]. simpl in T'. rewrite T'. unfold istc.
    destruct (d_cons (after_imp g n)) as [[|]|]; try discriminate. lia.
  Qed.

  Lemma no_occurrence_zero g n : wf_problem cs ncs -> ~ occurs cs n -> seval g n = 0.
  Proof.
    intros [_ [_ W3]] H. apply sat_seval_zero. intros c Hc. exfalso. apply H.
    destruct (W3 n c Hc). now exists c.
  Qed.

  Lemma stops_pos g n : gst_ok g -> stops g n = true -> 1 <= maxd.
  Proof.
    intros Hok. unfold M_Dba.stops. intros H.
    destruct (after_imp_proj g n Hok) as [_ [_ [_ [T0 _]]]].
    destruct (d_cons (after_imp g n)) as [[|]|]; try discriminate. lia.
  Qed.

  Lemma occurs_dec x : {occurs cs x} + {~ occurs cs x}.
  Proof.
    destruct (existsb (fun c => zmem x (fst c)) cs) eqn:E.
    - left. apply existsb_exists in E as [c [Hc Hx]]. exists c. split; auto. now apply zmem_In.
    - right. intros [c [Hc Hx]].
      assert (existsb (fun c => zmem x (fst c)) cs = true); [|congruence].
      apply existsb_exists. exists c. split; auto. now apply zmem_In.
  Qed.

  (* main synchronous theorem: when a node stops in round k, some earlier round had every
     evaluation at 0 *)
  Lemma stop_all_zero g0 k n :
    wf_problem cs ncs -> gst_init g0 ->
    (forall x, occurs cs x -> within (Z.to_nat maxd) n x) ->
    stops (srounds k g0) n = true ->
    exists r, (r <= k)%nat /\ all_zero (srounds r g0).
  Proof.
    intros Wf Hin Hconn Hs. destruct Hin as [Hok Hz].
    pose proof (stops_pos _ _ (srounds_ok k g0 Hok) Hs) as Hm.
    apply stops_tc in Hs. change (sround (srounds k g0) n) with (srounds (S k) g0 n) in Hs.
    destruct (counter_radius g0 (conj Hok Hz) (Z.to_nat maxd) (S k) n) as [Hle R]; [lia|].
    exists (S k - 1 - (Z.to_nat maxd - 1))%nat. split; [lia|].
    intros x. destruct (occurs_dec x) as [Ho|Hn].
    - apply R; [lia|]. replace (S (Z.to_nat maxd - 1)) with (Z.to_nat maxd) by lia. now apply Hconn.
    - now apply no_occurrence_zero.
  Qed.

  Theorem sync_finish_safe g0 k n :
    wf_problem cs ncs -> 0 < infinity -> gst_init g0 ->
    (forall x, occurs cs x -> within (Z.to_nat maxd) n x) ->
    stops (srounds k g0) n = true ->
    satisfying (sassign (srounds k g0)).
  Proof.
    intros Wf Hi Hin Hconn Hs.
    destruct (stop_all_zero g0 k n Wf Hin Hconn Hs) as [r [Hr Hz]].
    destruct Hin as [Hok _].
    replace k with ((k - r) + r)%nat by lia. rewrite srounds_add.
    destruct (all_zero_forever (srounds r g0) (k - r) (srounds_ok r g0 Hok)) as [A _]; [lia|auto|].
    apply all_zero_sat; auto. apply srounds_ok. now apply srounds_ok.
  Qed.

  Theorem sync_safe_forever g0 k n :
    wf_problem cs ncs -> 0 < infinity -> gst_init g0 ->
    (forall x, occurs cs x -> within (Z.to_nat maxd) n x) ->
    stops (srounds k g0) n = true ->
    forall j, satisfying (sassign (srounds (j + k) g0))
              /\ forall x, sassign (srounds (j + k) g0) x = sassign (srounds k g0) x.
  Proof.
    intros Wf Hi Hin Hconn Hs j.
    destruct (stop_all_zero g0 k n Wf Hin Hconn Hs) as [r [Hr Hz]].
    destruct Hin as [Hok _].
    pose proof (srounds_ok r g0 Hok) as Hokr.
    destruct (all_zero_forever (srounds r g0) (k - r) Hokr) as [A B]; [lia|auto|].
    replace (srounds (k - r) (srounds r g0)) with (srounds k g0) in A, B
      by (rewrite <- srounds_add; f_equal; lia).
    rewrite srounds_add.
    destruct (all_zero_forever (srounds k g0) j (srounds_ok k g0 Hok)) as [A' B']; [lia|auto|].
    split; auto. apply all_zero_sat; auto. apply srounds_ok. now apply srounds_ok.
  Qed.
End Sync.

(* ====================================================================== asynchronous model:
   facts that hold for EVERY schedule of the network model *)
Definition ev_node (e : dev) : node :=
  match e with EvSelect n _ _ _ => n | EvCycle n _ => n | EvFinished n => n | EvRaise n _ => n end.

(* local invariant of a computation: the postponed list of the kind it is waiting for is empty *)
Definition linv (s : dst) : Prop :=
  match d_mode s with OkM => d_pok s = [] | ImpM => d_pimp s = [] | _ => True end.

Lemma classic_has_end_gen (o : list (node * dmsg)) :
  (exists t, In (t, MEnd) o) \/ ~ (exists t, In (t, MEnd) o).
Proof.
  induction o as [|[t m] r IH].
  - right. intros [t []].
  - destruct IH as [[t' H]|H]; [left; exists t'; now right|].
    destruct m; try (right; intros [t' [E|E]]; [discriminate | apply H; now exists t']).
    left. exists t. now left.
Qed.

Section Async.
  Variable cs : list constr.
  Variable ncs : node -> list nat.
  Variable dom : node -> list Z.
  Variable infinity maxd : Z.
  Variable orc0 : node -> list Z.

  Notation nbrs := (nbrs cs ncs).
  Notation to_all := (to_all cs ncs).
  Notation do_improve := (do_improve cs ncs dom infinity).
  Notation send_ok := (send_ok cs ncs maxd).
  Notation ok_step := (ok_step cs ncs dom infinity).
  Notation imp_step := (imp_step cs ncs maxd).
  Notation go_ok := (go_ok cs ncs dom infinity).
  Notation go_imp := (go_imp cs ncs maxd).
  Notation dba_recv := (dba_recv cs ncs dom infinity maxd).
  Notation dba_start := (dba_start cs ncs dom infinity).
  Notation dba_init := (dba_init ncs orc0).
  Notation P := (dba_proto cs ncs dom infinity maxd orc0).
  Notation res := (dst * list (node * dmsg) * list dev * bool)%type.

  Section Node.
    Variable d : node.

    Definition has_end (o : list (node * dmsg)) : Prop := exists t, In (t, MEnd) o.

    (* unconditional: events are the node's own; a dba_end is only sent together with finished() *)
    Definition good (o : list (node * dmsg)) (e : list dev) : Prop :=
      Forall (fun ev => ev_node ev = d) e /\ (has_end o -> In (EvFinished d) e).

    Lemma good_nil : good [] [].
    Proof. split; [constructor | intros [t []]]. Qed.

    Lemma good_noend o e : ~ has_end o -> Forall (fun ev => ev_node ev = d) e -> good o e.
    Proof. intros A B. split; [auto | intros H; contradiction]. Qed.

    Lemma good_app o1 e1 o2 e2 : good o1 e1 -> good o2 e2 -> good (o1 ++ o2) (e1 ++ e2).
    Proof.
      intros [A1 C1] [A2 C2]. split.
      - apply Forall_app; auto.
      - intros [t Ht]. apply in_app_iff in Ht. apply in_app_iff.
        destruct Ht as [Ht|Ht]; [left; apply C1 | right; apply C2]; now exists t.
    Qed.

    Lemma to_all_no_end m : m <> MEnd -> ~ has_end (to_all d m).
    Proof.
      intros Hm [t Ht]. unfold M_Dba.to_all in Ht. apply in_map_iff in Ht as [x [E _]].
      inversion E. congruence.
    Qed.

    (* conditional on [Qin] (a fact about the state the handler started from): no nested replay
       (EvRaise 9), the result satisfies Q unless the handler raised IndexError (EvRaise 1) *)
    Definition okres (Q : dst -> Prop) (Qin : Prop) (r : res) : Prop :=
      let '(s, o, e, raised) := r in
      good o e /\ (Qin -> ~ In (EvRaise d 9) e /\ (raised = false -> Q s) /\ (raised = true -> In (EvRaise d 1) e)).

    Lemma replay_ok {M} (Q : dst -> Prop) (h : dst -> node -> M -> res) :
      (forall s src m, okres Q (Q s) (h s src m)) ->
      forall l s, okres Q (Q s) (replay h s l).
    Proof.
      intros Hh. induction l as [|[src m] l IH]; intros s; simpl.
      - split; [apply good_nil | intros Hs; split; [intros [] | split; [auto | discriminate]]].
      - specialize (Hh s src m). destruct (h s src m) as [[[s1 o1] e1] r1].
        destruct Hh as [G1 C1]. destruct r1.
        + split; auto.
        + specialize (IH s1). destruct (replay h s1 l) as [[[s2 o2] e2] r2].
          destruct IH as [G2 C2]. split; [now apply good_app|].
          intros Hs. destruct (C1 Hs) as [N1 [Q1 _]]. destruct (C2 (Q1 eq_refl)) as [N2 [Q2 R2]].
          split; [rewrite in_app_iff; tauto | split; [auto|]].
          intros H. apply in_app_iff. right. auto.
    Qed.

    (* projections of the node-local functions on the fields of the invariant *)
    Lemma do_improve_keep s :
      let '(s2, o2, raised) := do_improve d s in
      d_mode s2 = d_mode s /\ d_pok s2 = d_pok s /\ d_pimp s2 = d_pimp s /\ ~ has_end o2.
    Proof.
      unfold M_Dba.do_improve.
      destruct (eval_at cs ncs infinity d s (oz (d_value s))) as [ce viol].
      destruct (best_imp _ (dom d) [] infinity) as [bests be].
      destruct (0 <? ce - be).
      - destruct (pick (d_orc s) bests) as [[nv|] o]; simpl; repeat split; auto.
        + apply to_all_no_end; discriminate.
        + intros [t []].
      - simpl; repeat split; auto. apply to_all_no_end; discriminate.
    Qed.

    Lemma imp_core_keep s src m :
      d_mode (imp_core d s src m) = d_mode s /\ d_pok (imp_core d s src m) = d_pok s
      /\ d_pimp (imp_core d s src m) = d_pimp s.
    Proof. destruct m as [[mi me] mtc]. repeat split. Qed.

    Lemma send_ok_keep s :
      let '(s2, o2, e2) := send_ok d s in
      d_pok s2 = d_pok s /\ d_pimp s2 = d_pimp s /\ good o2 e2 /\ ~ In (EvRaise d 9) e2
      /\ (In (EvFinished d) e2 -> d_cons s = Some true /\ d_tc s + 1 = maxd).
    Proof.
      assert (NE : forall v, ~ has_end (to_all d (MOk v))) by (intros; apply to_all_no_end; discriminate).
      unfold M_Dba.send_ok.
      destruct (d_cons s) as [[|]|]; simpl;
        [destruct (d_tc s + 1 =? maxd) eqn:E; simpl|..];
        (split; [reflexivity | split; [reflexivity | split; [|split]]]).
      - split; [repeat constructor | intros _; simpl; auto].
      - simpl; intuition discriminate.
      - intros _. split; [reflexivity | lia].
      - apply good_noend; auto; destruct (d_can s && _); repeat constructor.
      - destruct (d_can s && _); simpl; intuition discriminate.
      - destruct (d_can s && _); simpl; intuition discriminate.
      - apply good_noend; auto; destruct (d_can s && _); repeat constructor.
      - destruct (d_can s && _); simpl; intuition discriminate.
      - destruct (d_can s && _); simpl; intuition discriminate.
      - apply good_noend; auto; destruct (d_can s && _); repeat constructor.
      - destruct (d_can s && _); simpl; intuition discriminate.
      - destruct (d_can s && _); simpl; intuition discriminate.
    Qed.

    Lemma guard_pok_ok (Q : dst -> Prop) s : okres Q (Q s /\ d_pok s = []) (guard_pok d s).
    Proof.
      unfold M_Dba.guard_pok. destruct (d_pok s) eqn:E.
      - split; [apply good_nil | intros [HQ _]; split; [intros [] | split; [auto | discriminate]]].
      - split; [apply good_noend; [intros [t []] | repeat constructor] | intros [_ H]; discriminate].
    Qed.

    Lemma guard_pimp_ok (Q : dst -> Prop) s : okres Q (Q s /\ d_pimp s = []) (guard_pimp d s).
    Proof.
      unfold M_Dba.guard_pimp. destruct (d_pimp s) eqn:E.
      - split; [apply good_nil | intros [HQ _]; split; [intros [] | split; [auto | discriminate]]].
      - split; [apply good_noend; [intros [t []] | repeat constructor] | intros [_ H]; discriminate].
    Qed.

    Lemma imp_step_ok (Q Qn : dst -> Prop) (Qin : Prop) nested s src m :
      (forall s', okres Q (Qn s') (nested s')) ->
      (Qin -> forall s2, d_pok s2 = d_pok s -> d_pimp s2 = d_pimp s -> d_mode s2 = OkM -> Qn s2) ->
      (Qin -> forall s1, d_mode s1 = d_mode s -> d_pok s1 = d_pok s -> d_pimp s1 = d_pimp s -> Q s1) ->
      okres Q Qin (imp_step d nested s src m).
    Proof.
      intros Hn Hc Hi. unfold M_Dba.imp_step.
      destruct (imp_core_keep s src m) as [K0 [K1 K2]].
      destruct (Nat.eqb _ _).
      - pose proof (send_ok_keep (imp_core d s src m)) as H.
        destruct (send_ok d (imp_core d s src m)) as [[s2 o2] e2].
        destruct H as [P1 [P2 [G [N9 _]]]].
        specialize (Hn (set_mode OkM (clear_view s2))).
        destruct (nested (set_mode OkM (clear_view s2))) as [[[s3 o3] e3] r3].
        destruct Hn as [G3 C3]. split; [now apply good_app|].
        intros HQ. destruct C3 as [N3 [Q3 R3]].
        { apply (Hc HQ); simpl; congruence. }
        split; [rewrite in_app_iff; tauto | split; [auto|]].
        intros H. apply in_app_iff. right. auto.
      - split; [apply good_nil|]. intros HQ. split; [intros [] | split; [|discriminate]].
        intros _. now apply (Hi HQ).
    Qed.

    Lemma ok_step_ok (Q Qn : dst -> Prop) (Qin : Prop) nested s src v :
      (forall s', okres Q (Qn s') (nested s')) ->
      (Qin -> forall s2, d_pok s2 = d_pok s -> d_pimp s2 = d_pimp s -> d_mode s2 = ImpM -> Qn s2) ->
      (Qin -> forall s1, d_mode s1 = d_mode s -> d_pok s1 = d_pok s -> d_pimp s1 = d_pimp s -> Q s1) ->
      okres Q Qin (ok_step d nested s src v).
    Proof.
      intros Hn Hc Hi. unfold M_Dba.ok_step.
      set (s1 := set_nvals (dict_set Z.eqb src v (d_nvals s)) s).
      destruct (Nat.eqb _ _).
      - pose proof (do_improve_keep s1) as H.
        destruct (do_improve d s1) as [[s2 o2] raised].
        destruct H as [P0 [P1 [P2 NE]]]. destruct raised.
        + split; [apply good_noend; [auto | repeat constructor]|].
          intros _. split; [simpl; intuition discriminate | split; [discriminate | intros _; now left]].
        + specialize (Hn (set_mode ImpM s2)).
          destruct (nested (set_mode ImpM s2)) as [[[s3 o3] e3] r3].
          destruct Hn as [G3 C3]. split.
          * replace e3 with ([] ++ e3) by reflexivity. apply good_app; auto. apply good_noend; [auto | constructor].
          * intros HQ. apply C3. apply (Hc HQ); simpl; subst s1; simpl in *; congruence.
      - split; [apply good_nil|]. intros HQ. split; [intros [] | split; [|discriminate]].
        intros _. now apply (Hi HQ).
    Qed.

    Lemma linv_both s : d_pok s = [] -> d_pimp s = [] -> linv s.
    Proof. unfold linv. destruct (d_mode s); auto. Qed.

    Lemma go_imp_ok s : okres linv (d_pok s = []) (go_imp d s).
    Proof.
      unfold M_Dba.go_imp.
      pose proof (replay_ok (fun s => d_pok s = []) (imp_step d (guard_pok d))) as H.
      specialize (H (fun s0 src m => imp_step_ok (fun s => d_pok s = []) (fun s => d_pok s = [] /\ d_pok s = []) _
                        (guard_pok d) s0 src m (guard_pok_ok _) (fun HQ s2 A _ _ => conj (eq_trans A HQ) (eq_trans A HQ))
                        (fun HQ s1 _ A _ => eq_trans A HQ)) (d_pimp s) s).
      destruct (replay _ s (d_pimp s)) as [[[s1 o] e] r].
      destruct H as [G C]. destruct r.
      - split; auto. intros HQ. destruct (C HQ) as [N [_ R]]. split; [auto | split; [discriminate | auto]].
      - split; auto. intros HQ. destruct (C HQ) as [N [Q1 _]]. split; [auto | split; [|discriminate]].
        intros _. apply linv_both; simpl; auto.
    Qed.

    Lemma go_ok_ok s : okres linv (d_pimp s = []) (go_ok d s).
    Proof.
      unfold M_Dba.go_ok.
      pose proof (replay_ok (fun s => d_pimp s = []) (ok_step d (guard_pimp d))) as H.
      specialize (H (fun s0 src m => ok_step_ok (fun s => d_pimp s = []) (fun s => d_pimp s = [] /\ d_pimp s = []) _
                        (guard_pimp d) s0 src m (guard_pimp_ok _) (fun HQ s2 _ A _ => conj (eq_trans A HQ) (eq_trans A HQ))
                        (fun HQ s1 _ _ A => eq_trans A HQ)) (d_pok s) s).
      destruct (replay _ s (d_pok s)) as [[[s1 o] e] r].
      destruct H as [G C]. destruct r.
      - split; auto. intros HQ. destruct (C HQ) as [N [_ R]]. split; [auto | split; [discriminate | auto]].
      - split; auto. intros HQ. destruct (C HQ) as [N [Q1 _]]. split; [auto | split; [|discriminate]].
        intros _. apply linv_both; simpl; auto.
    Qed.

    (* the message handler: unconditional part and the part under the local invariant *)
    Lemma dba_recv_ok s src m :
      let '(s', o, e) := dba_recv d s src m in
      good o e /\ (linv s -> ~ In (EvRaise d 9) e /\ (linv s' \/ In (EvRaise d 1) e)).
    Proof.
      destruct m as [v|mi me mtc|]; unfold M_Dba.dba_recv; destruct (d_mode s) eqn:Mo;
        try (split; [apply good_nil | intros L; split; [intros [] | left; unfold linv in *; simpl; rewrite Mo in *; auto]]).
      - (* ok message handled in ok mode *)
        pose proof (ok_step_ok linv (fun s => d_pok s = []) (linv s) (go_imp d) s src v go_imp_ok) as H.
        destruct (ok_step d (go_imp d) s src v) as [[[s' o] e] r]. simpl.
        destruct H as [G C].
        + intros L s2 A _ _. unfold linv in L. rewrite Mo in L. congruence.
        + intros L s1 A B _. unfold linv in *. rewrite A, Mo in *. congruence.
        + split; auto. intros L. destruct (C L) as [N [Q R]]. split; auto. destruct r; auto.
      - (* improve message handled in improve mode *)
        pose proof (imp_step_ok linv (fun s => d_pimp s = []) (linv s) (go_ok d) s src (mi, me, mtc) go_ok_ok) as H.
        destruct (imp_step d (go_ok d) s src (mi, me, mtc)) as [[[s' o] e] r]. simpl.
        destruct H as [G C].
        + intros L s2 _ A _. unfold linv in L. rewrite Mo in L. congruence.
        + intros L s1 A _ B. unfold linv in *. rewrite A, Mo in *. congruence.
        + split; auto. intros L. destruct (C L) as [N [Q R]]. split; auto. destruct r; auto.
      - split; [split; [repeat constructor | intros _; now left] | intros _; split; [simpl; intuition discriminate | now left]].
      - split; [split; [repeat constructor | intros _; now left] | intros _; split; [simpl; intuition discriminate | now left]].
      - split; [split; [repeat constructor | intros _; now left] | intros _; split; [simpl; intuition discriminate | now left]].
    Qed.

    Lemma dba_start_ok s :
      let '(s', o, e) := dba_start d s in
      good o e /\ (d_pimp s = [] -> ~ In (EvRaise d 9) e /\ (linv s' \/ In (EvRaise d 1) e)).
    Proof.
      unfold M_Dba.dba_start. destruct (pick (d_orc s) (dom d)) as [[v|] o].
      - match goal with |- context [go_ok d ?x] => pose proof (go_ok_ok x) as H; destruct (go_ok d x) as [[[s2 o2] e2] r] end.
        destruct H as [G C]. split.
        + change (EvSelect d v None (d_cycle s) :: e2) with ([EvSelect d v None (d_cycle s)] ++ e2).
          apply good_app; auto. apply good_noend; [apply to_all_no_end; discriminate | repeat constructor].
        + intros E. destruct (C E) as [N [Q R]]. split.
          * simpl. intros [H|H]; [discriminate | auto].
          * destruct r; [right; right; auto | left; auto].
      - split; [apply good_noend; [intros [t []] | repeat constructor]|].
        intros _. split; [simpl; intuition discriminate | right; now left].
    Qed.
  End Node.

  (* ---------------------------------------------------------------- network level *)
  Notation cfg := (config dst dmsg).

  Lemma in_upd_chan (c : node -> node -> list dmsg) s d l x y m :
    In m (upd_chan c s d l x y) -> In m l \/ In m (c x y).
  Proof. unfold upd_chan. destruct (_ && _); auto. Qed.

  Lemma in_send_all outs : forall (c : node -> node -> list dmsg) src x y m,
    In m (send_all c src outs x y) -> In m (c x y) \/ In (y, m) outs.
  Proof.
    induction outs as [|[t m0] r IH]; simpl; intros c src x y m H; auto.
    apply IH in H as [H|H]; [|right; now right]. unfold upd_chan in H.
    destruct (Z.eqb x src && Z.eqb y t) eqn:E; [|now left].
    apply andb_true_iff in E as [E1 E2]. apply Z.eqb_eq in E1, E2. subst.
    apply in_app_iff in H as [H|[<-|[]]]; [now left | right; now left].
  Qed.

  Lemma in_reinject_all l : forall (c : node -> node -> list dmsg) dst x y m,
    In m (reinject_all c dst l x y) -> In m (c x y) \/ In (x, m) l.
  Proof.
    unfold reinject_all. induction l as [|[s m0] r IH]; intros c dst x y m H; [now left|].
    simpl in H. unfold upd_chan in H at 1. simpl in H.
    destruct (Z.eqb x s && Z.eqb y dst) eqn:E.
    - apply andb_true_iff in E as [E1 E2]. apply Z.eqb_eq in E1, E2. subst.
      destruct H as [<-|H]; [right; now left|].
      apply IH in H as [H|H]; [now left | right; now right].
    - apply IH in H as [H|H]; [now left | right; now right].
  Qed.

  (* robust to either replay order of the held messages (Net.reinject) *)
  Lemma in_reinject (l : list (node * dmsg)) x : In x (reinject l) -> In x l.
  Proof. unfold reinject. first [exact (fun H => H) | intros H; now apply in_rev]. Qed.

  Definition st (cf : cfg) (n : node) : dst := w_st (nodes cf n).

  Lemma upd_node_at (f : node -> nwrap dst dmsg) n w x :
    upd_node f n w x = if Z.eqb x n then w else f x.
  Proof. reflexivity. Qed.

  (* ---- no nested replay *)
  Definition ninv (cf : cfg) (n : node) : Prop :=
    linv (st cf n) /\ (w_running (nodes cf n) = false -> d_pimp (st cf n) = []).

  Lemma step_ninv cf a n :
    ninv cf n ->
    let '(cf1, e1) := step P cf a in
    ~ In (EvRaise n 9) e1 /\ (ninv cf1 n \/ In (EvRaise n 1) e1).
  Proof.
    intros [L Hp]. destruct a as [n0|s0 d0]; simpl.
    - destruct (w_running (nodes cf n0)) eqn:Ru; [split; [intros [] | left; split; auto]|].
      pose proof (dba_start_ok n0 (w_st (nodes cf n0))) as H.
      destruct (dba_start n0 (w_st (nodes cf n0))) as [[s' o] e]. destruct H as [[Fa _] C].
      destruct (Z.eq_dec n n0) as [->|Hne].
      + destruct (C (Hp Ru)) as [N Q]. split; auto. destruct Q as [Q|Q]; auto.
        left. unfold ninv, st. simpl. rewrite upd_node_at, Z.eqb_refl. simpl. split; auto. discriminate.
      + split.
        * intros H. rewrite Forall_forall in Fa. apply Fa in H. simpl in H. congruence.
        * left. unfold ninv, st in *. simpl. rewrite upd_node_at. apply Z.eqb_neq in Hne. rewrite Hne. auto.
    - destruct (chan cf s0 d0) as [|m q]; [split; [intros [] | left; split; auto]|].
      destruct (w_running (nodes cf d0)) eqn:Ru.
      + pose proof (dba_recv_ok d0 (w_st (nodes cf d0)) s0 m) as H.
        destruct (dba_recv d0 (w_st (nodes cf d0)) s0 m) as [[s' o] e]. destruct H as [[Fa _] C].
        destruct (Z.eq_dec n d0) as [->|Hne].
        * destruct (C L) as [N Q]. split; auto. destruct Q as [Q|Q]; auto.
          left. unfold ninv, st. simpl. rewrite upd_node_at, Z.eqb_refl. simpl. split; auto. discriminate.
        * split.
          -- intros H. rewrite Forall_forall in Fa. apply Fa in H. simpl in H. congruence.
          -- left. unfold ninv, st in *. simpl. rewrite upd_node_at. apply Z.eqb_neq in Hne. rewrite Hne. auto.
      + split; [intros []|]. left. unfold ninv, st in *. simpl. rewrite upd_node_at.
        destruct (Z.eqb n d0) eqn:E; auto. apply Z.eqb_eq in E. subst. simpl. split; auto.
  Qed.

  Lemma exec_ninv sched : forall cf (R : node -> Prop),
    (forall n, R n \/ ninv cf n) ->
    let '(cf', evs) := exec P cf sched in
    (forall n, In (EvRaise n 9) evs -> R n \/ In (EvRaise n 1) evs).
  Proof.
    induction sched as [|a r IH]; intros cf R H; simpl; [intros n []|].
    pose proof (fun n => step_ninv cf a n) as S.
    destruct (step P cf a) as [cf1 e1].
    specialize (IH cf1 (fun n => R n \/ In (EvRaise n 1) e1)).
    destruct (exec P cf1 r) as [cf2 e2].
    assert (H1 : forall n, (R n \/ In (EvRaise n 1) e1) \/ ninv cf1 n).
    { intros n. destruct (H n) as [Hr|Hn]; [now left; left|]. destruct (S n Hn) as [_ [A|A]]; auto. }
    specialize (IH H1). intros n Hin. apply in_app_iff in Hin as [Hin|Hin].
    - destruct (H n) as [Hr|Hn]; [now left|]. destruct (S n Hn) as [N _]. contradiction.
    - destruct (IH n Hin) as [[A|A]|A]; [now left | right; apply in_app_iff; now left | right; apply in_app_iff; now right].
  Qed.

  Theorem no_nested_replay sched n :
    In (EvRaise n 9) (snd (run P sched)) -> In (EvRaise n 1) (snd (run P sched)).
  Proof.
    unfold run. pose proof (exec_ninv sched (init P) (fun _ => False)) as H.
    destruct (exec P (init P) sched) as [cf evs]. simpl. intros Hin.
    destruct (H (fun n => or_intror (conj I (fun _ => eq_refl))) n Hin) as [[]|A]; auto.
  Qed.

  (* ---- a dba_end message exists only after some finished() *)
  Definition no_end (cf : cfg) : Prop :=
    (forall s d, ~ In MEnd (chan cf s d)) /\ (forall n s, ~ In (s, MEnd) (w_held (nodes cf n))).

  Lemma step_no_end cf a : no_end cf ->
    no_end (fst (step P cf a)) \/ exists n, In (EvFinished n) (snd (step P cf a)).
  Proof.
    intros [Hc Hh]. destruct a as [n0|s0 d0]; simpl.
    - destruct (w_running (nodes cf n0)) eqn:Ru; [left; split; auto|].
      pose proof (dba_start_ok n0 (w_st (nodes cf n0))) as H.
      destruct (dba_start n0 (w_st (nodes cf n0))) as [[s' o] e]. destruct H as [[_ Fe] _]. simpl.
      destruct (classic_has_end_gen o) as [He|He]; [right; exists n0; auto|]. left. split; simpl.
      + intros s d H. apply in_reinject_all in H as [H|H].
        * apply in_send_all in H as [H|H]; [now apply (Hc s d) | apply He; now exists d].
        * apply (Hh n0 s). now apply in_reinject.
      + intros n s. rewrite upd_node_at. destruct (Z.eqb n n0); simpl; auto.
    - destruct (chan cf s0 d0) as [|m q] eqn:Ch; [left; split; auto|].
      assert (Hm : m <> MEnd) by (intros ->; apply (Hc s0 d0); rewrite Ch; now left).
      assert (Hq : forall x y, ~ In MEnd (upd_chan (chan cf) s0 d0 q x y)).
      { intros x y H. apply in_upd_chan in H as [H|H]; [apply (Hc s0 d0); rewrite Ch; now right | now apply (Hc x y)]. }
      destruct (w_running (nodes cf d0)) eqn:Ru.
      + pose proof (dba_recv_ok d0 (w_st (nodes cf d0)) s0 m) as H.
        destruct (dba_recv d0 (w_st (nodes cf d0)) s0 m) as [[s' o] e]. destruct H as [[_ Fe] _]. simpl.
        destruct (classic_has_end_gen o) as [He|He]; [right; exists d0; auto|]. left. split; simpl.
        * intros s d H. apply in_send_all in H as [H|H]; [now apply (Hq s d) | apply He; now exists d].
        * intros n s. rewrite upd_node_at. destruct (Z.eqb n d0); simpl; auto.
      + left. split; simpl; auto.
        intros n s. rewrite upd_node_at. destruct (Z.eqb n d0) eqn:E; simpl; auto.
        intros H. apply in_app_iff in H as [H|[H|[]]]; [now apply (Hh d0 s) | congruence].
  Qed.

  Lemma exec_no_end sched : forall cf, no_end cf ->
    no_end (fst (exec P cf sched)) \/ exists n, In (EvFinished n) (snd (exec P cf sched)).
  Proof.
    induction sched as [|a r IH]; intros cf H; simpl; [now left|].
    pose proof (step_no_end cf a H) as S. destruct (step P cf a) as [cf1 e1]. simpl in S.
    specialize (IH cf1). destruct (exec P cf1 r) as [cf2 e2]. simpl in *.
    destruct S as [S|[n S]]; [|right; exists n; apply in_app_iff; now left].
    destruct (IH S) as [A|[n A]]; [now left | right; exists n; apply in_app_iff; now right].
  Qed.

  Lemma init_no_end : no_end (init P).
  Proof. split; intros; simpl; auto. Qed.

  (* for every schedule: as long as nobody called finished(), no dba_end message exists anywhere *)
  Theorem end_after_finish sched :
    no_end (fst (run P sched)) \/ exists n, In (EvFinished n) (snd (run P sched)).
  Proof. apply exec_no_end. apply init_no_end. Qed.

  (* a computation that has not been started still is in its initial state *)
  Lemma reachable_unstarted cf : reachable P cf ->
    forall n, w_running (nodes cf n) = false -> w_st (nodes cf n) = dba_init n.
  Proof.
    induction 1 as [|cf a R IH]; intros n; [reflexivity|].
    destruct a as [n0|s0 d0]; simpl.
    - destruct (w_running (nodes cf n0)) eqn:Ru; [apply IH|].
      destruct (dba_start n0 (w_st (nodes cf n0))) as [[s' o] e]. simpl.
      rewrite upd_node_at. destruct (Z.eqb n n0); simpl; [discriminate | apply IH].
    - destruct (chan cf s0 d0) as [|m q]; [apply IH|].
      destruct (w_running (nodes cf d0)) eqn:Ru.
      + destruct (dba_recv d0 (w_st (nodes cf d0)) s0 m) as [[s' o] e]. simpl.
        rewrite upd_node_at. destruct (Z.eqb n d0); simpl; [discriminate | apply IH].
      + simpl. rewrite upd_node_at. destruct (Z.eqb n d0) eqn:E; simpl; [|apply IH].
        apply Z.eqb_eq in E. subst. intros _. now apply IH.
  Qed.

  Lemma start_no_finish n m : ~ In (EvFinished m) (snd (dba_start n (dba_init n))).
  Proof.
    unfold M_Dba.dba_start, M_Dba.dba_init. simpl.
    destruct (pick (orc0 n) (dom n)) as [[v|] o]; simpl; intuition discriminate.
  Qed.

  (* the step that produces the first finished() of a run handles an ok or improve message
     (so it is _send_ok's stop_condition that fired), never a dba_end message *)
  Theorem first_finish_by_counter sched a n :
    (forall m, ~ In (EvFinished m) (snd (run P sched))) ->
    In (EvFinished n) (snd (step P (fst (run P sched)) a)) ->
    exists s m q, a = Deliver s n /\ chan (fst (run P sched)) s n = m :: q /\ m <> MEnd
                  /\ w_running (nodes (fst (run P sched)) n) = true.
  Proof.
    intros Hno Hin.
    assert (R : reachable P (fst (run P sched))) by (apply exec_reachable; constructor).
    destruct (end_after_finish sched) as [[Hc _]|[m Hm]]; [|exfalso; now apply (Hno m)].
    set (cf := fst (run P sched)) in *. clearbody cf.
    destruct a as [n0|s0 d0]; simpl in Hin.
    - destruct (w_running (nodes cf n0)) eqn:Ru; [destruct Hin|].
      rewrite (reachable_unstarted cf R n0 Ru) in Hin.
      pose proof (start_no_finish n0 n) as S.
      destruct (dba_start n0 (dba_init n0)) as [[s' o] e]. simpl in *. contradiction.
    - destruct (chan cf s0 d0) as [|m q] eqn:Ch; [destruct Hin|].
      destruct (w_running (nodes cf d0)) eqn:Ru; [|destruct Hin].
      pose proof (dba_recv_ok d0 (w_st (nodes cf d0)) s0 m) as H.
      destruct (dba_recv d0 (w_st (nodes cf d0)) s0 m) as [[s' o] e]. destruct H as [[Fa _] _]. simpl in Hin.
      rewrite Forall_forall in Fa. pose proof (Fa _ Hin) as E. simpl in E. subst d0.
      exists s0, m, q. repeat split; auto.
      intros ->. apply (Hc s0 n). rewrite Ch. now left.
  Qed.

  (* _send_ok only calls finished() when stop_condition holds on a locally consistent node *)
  Theorem stop_needs_counter n s :
    In (EvFinished n) (snd (send_ok n s)) -> d_cons s = Some true /\ d_tc s + 1 = maxd.
  Proof.
    pose proof (send_ok_keep n s) as H. destruct (send_ok n s) as [[s2 o2] e2].
    destruct H as [_ [_ [_ [_ H]]]]. exact H.
  Qed.

  (* the state in which the rounds start (every computation started) is a legal initial state *)
  Lemma ones_pos {A} (l : list A) : Forall (fun w => 0 < w) (map (fun _ => 1) l).
  Proof. induction l; simpl; constructor; auto; lia. Qed.

  Theorem sinit_init : gst_init ncs (sinit cs ncs dom infinity orc0).
  Proof.
    split; [intros n | intros n]; unfold M_Dba.sinit, M_Dba.dba_start, M_Dba.dba_init; simpl;
      destruct (pick (orc0 n) (dom n)) as [[v|] o]; simpl; repeat split;
      try apply map_length; try apply ones_pos; try lia.
  Qed.
End Async.

(* ---------------------------------------------------------------------- non-vacuity instance:
   two variables with domain {0,1}, one "different values" constraint, max_distance 1, both draw
   value 0: the lower variable moves in round 0, both stop in round 1 on a satisfying assignment *)
Definition ex_cs : list constr := [([0; 1], [([0; 0], 10000); ([1; 1], 10000)])].
Definition ex_ncs (n : node) : list nat := if (n =? 0) || (n =? 1) then [0%nat] else [].
Definition ex_dom (n : node) : list Z := [0; 1].
Definition ex_orc (n : node) : list Z := [0; 0; 0].
Definition ex_g0 : gst := sinit ex_cs ex_ncs ex_dom 10000 ex_orc.

Lemma ex_wf : wf_problem ex_cs ex_ncs.
Proof.
  split; [|split].
  - intros c x [<-|[]] Hx. simpl in Hx. destruct Hx as [<-|[<-|[]]]; now left.
  - intros c [<-|[]]. discriminate.
  - intros n c. unfold node_cs, ex_ncs. destruct ((n =? 0) || (n =? 1)) eqn:E; simpl; [|intros []].
    intros [<-|[]]. split; [now left|]. simpl. lia.
Qed.

Lemma ex_conn : forall x, occurs ex_cs x -> within ex_cs ex_ncs (Z.to_nat 1) 0 x.
Proof.
  intros x [c [[<-|[]] Hx]]. simpl in Hx. destruct Hx as [<-|[<-|[]]].
  - constructor.
  - apply within_step with (m := 1); [vm_compute; now left | constructor].
Qed.

Lemma ex_stops :
  stops ex_cs ex_ncs ex_dom 10000 1 (srounds ex_cs ex_ncs ex_dom 10000 1 1 ex_g0) 0 = true
  /\ stops ex_cs ex_ncs ex_dom 10000 1 (srounds ex_cs ex_ncs ex_dom 10000 1 0 ex_g0) 0 = false
  /\ satisfyingb ex_cs 10000 (sassign (srounds ex_cs ex_ncs ex_dom 10000 1 0 ex_g0)) = false
  /\ satisfyingb ex_cs 10000 (sassign (srounds ex_cs ex_ncs ex_dom 10000 1 1 ex_g0)) = true.
Proof. vm_compute. repeat split. Qed.

(* the asynchronous model on the same instance: a schedule after which both computations have
   called finished() (twice for the one that receives the other's dba_end) *)
Definition ex_sched : list (@action) :=
  [Start 0; Start 1; Deliver 0 1; Deliver 1 0; Deliver 0 1; Deliver 1 0;
   Deliver 0 1; Deliver 1 0; Deliver 0 1; Deliver 1 0; Deliver 0 1; Deliver 1 0].
Lemma ex_async :
  let r := run (dba_proto ex_cs ex_ncs ex_dom 10000 1 ex_orc) ex_sched in
  existsb (fun e => match e with EvFinished 0 => true | _ => false end) (snd r) = true
  /\ satisfyingb ex_cs 10000 (held (fst r)) = true.
Proof. vm_compute. split; reflexivity. Qed.
