(* P_SelectDba2.v -- property C10 for the DBA model (M_Dba), FULL statement on well-formed problems:
   for every schedule of Net.v -- before AND after computations call finished(), including the
   "zombie" computations that stopped through stop_condition and are put back in 'ok' mode -- every
   value-selection event carries a member of the variable's domain.

   The missing piece of P_SelectDba.v was: _send_ok never runs with _can_move = True and
   _new_value = None.  That state is created only by the IndexError of random.choice([]) in improve();
   the invariant below shows that a computation is then in 'ok' mode with a complete agent view
   ("stuck") and stays so for ever, because no neighbour can send it a further ok? message before
   receiving its improve message.

   The invariant [KI] is a COUNTING version of C09's barrier invariant (M_Dba2.Inv) that survives
   finished(): for neighbours a, b
     - the ok? (improve) messages of a that b handled + those still in the pipe from a to b
       (postponed list, pre-start buffer, channel) are at most the ok? (improve) broadcasts a made
       according to its mode and cycle ([K_ok], [K_imp]);
     - a made at most as many improve broadcasts as b made ok? broadcasts, and a's cycle is at most
       the number of improve broadcasts of b ([K_bal]);
   the counts of a computation that received dba_end ('finished' mode) are frozen through the ghost
   mode [gm] (its mode just before).  A computation that sent dba_end without an ok? message
   (stop_condition) is merely over-counted.  No assumption on infinity, max_distance, the domains or
   the random draws; the only hypothesis is [wf_problem] (it gives symmetric neighbour lists). *)
From PyDcop Require Import Base Net M_Dba P_Dba M_Dba2 P_Dba2 P_SelectDba.
From Coq Require Import ZifyBool.

Local Notation length := List.length.

(* ---------------------------------------------------------------- counting messages by kind *)
Definition isOk (m : dmsg) : bool := match m with MOk _ => true | _ => false end.
Definition isImp (m : dmsg) : bool := match m with MImp _ _ _ => true | _ => false end.
Definition nO (l : list dmsg) : nat := length (filter isOk l).
Definition nI (l : list dmsg) : nat := length (filter isImp l).

Lemma nO_app l1 l2 : nO (l1 ++ l2) = (nO l1 + nO l2)%nat.
Proof. unfold nO. now rewrite filter_app, app_length. Qed.
Lemma nI_app l1 l2 : nI (l1 ++ l2) = (nI l1 + nI l2)%nat.
Proof. unfold nI. now rewrite filter_app, app_length. Qed.

Lemma nO_fromO a l : nO (fromO a l) = length (fromO a l).
Proof.
  unfold nO, fromO. induction (filter (fun p => Z.eqb (fst p) a) l) as [|p r IH]; simpl; auto.
Qed.
Lemma nI_fromO a l : nI (fromO a l) = 0%nat.
Proof.
  unfold nI, fromO. induction (filter (fun p => Z.eqb (fst p) a) l) as [|p r IH]; simpl; auto.
Qed.
Lemma nI_fromI a l : nI (fromI a l) = length (fromI a l).
Proof.
  unfold nI, fromI. induction (filter (fun p => Z.eqb (fst p) a) l) as [|[x [[p q] r]] t IH]; simpl; auto.
Qed.
Lemma nO_fromI a l : nO (fromI a l) = 0%nat.
Proof.
  unfold nO, fromI. induction (filter (fun p => Z.eqb (fst p) a) l) as [|[x [[p q] r]] t IH]; simpl; auto.
Qed.

(* broadcasts made, by mode and cycle *)
Definition okS (m : dmode) (c : nat) : nat := match m with OkM | ImpM => S c | _ => 0%nat end.
Definition impS (m : dmode) (c : nat) : nat := match m with OkM => c | ImpM => S c | _ => 0%nat end.
Definition cycS (m : dmode) (c : nat) : nat := match m with OkM | ImpM => c | _ => 0%nat end.

(* messages of neighbour a handled *)
Definition okH (s : dst) (a : node) : nat :=
  match d_mode s with
  | OkM => (cyc s + (if got s a then 1 else 0))%nat
  | ImpM => S (cyc s)
  | _ => 0%nat
  end.
Definition impH (s : dst) (a : node) : nat :=
  match d_mode s with
  | OkM => cyc s
  | ImpM => (cyc s + (if got s a then 1 else 0))%nat
  | _ => 0%nat
  end.
(* postponed messages of a still to be handled (the ok? list is ignored in 'ok' mode: it is empty
   there, or stale when improve() raised during its replay) *)
Definition rO (s : dst) (a : node) : nat :=
  match d_mode s with OkM => 0%nat | _ => length (fromO a (d_pok s)) end.
Definition rI (s : dst) (a : node) : nat := length (fromI a (d_pimp s)).

(* effective mode: the mode a finished computation had when it received dba_end *)
Definition em (gm : node -> dmode) (n : node) (s : dst) : dmode :=
  match d_mode s with FinM => gm n | m => m end.

Section Count.
  Variable cs : list constr.
  Variable ncs : node -> list nat.
  Variable dom : node -> list Z.
  Variable infinity maxd : Z.
  Variable orc0 : node -> list Z.

  Notation nbrs := (nbrs cs ncs).
  Notation nnb := (nnb cs ncs).
  Notation to_all := (to_all cs ncs).
  Notation do_improve := (do_improve cs ncs dom infinity).
  Notation send_ok := (send_ok cs ncs maxd).
  Notation dba_recv := (dba_recv cs ncs dom infinity maxd).
  Notation dba_start := (dba_start cs ncs dom infinity).
  Notation dba_init := (dba_init ncs orc0).
  Notation P := (dba_proto cs ncs dom infinity maxd orc0).
  Notation cfg := (config dst dmsg).

  Hypothesis Hsym : forall a b, In a (nbrs b) -> In b (nbrs a).

  Local Open Scope nat_scope.

  Definition stt (cf : cfg) (n : node) : dst := w_st (nodes cf n).

  (* node-local part *)
  Definition NL (b : node) (s : dst) : Prop :=
    (0 <= d_cycle s)%Z /\
    match d_mode s with
    | OkM =>
        NoDup (map fst (d_nvals s)) /\ incl (map fst (d_nvals s)) (nbrs b)
        /\ ( ((nbrs b <> [] -> length (d_nvals s) < nnb b)
              /\ d_pok s = [] /\ d_nimps s = [] /\ selI s)
             \/ (* improve() raised IndexError: stuck with a complete view *)
             (length (d_nvals s) = nnb b /\ nbrs b <> []) )
    | ImpM =>
        NoDup (d_nimps s) /\ incl (d_nimps s) (nbrs b) /\ length (d_nimps s) < nnb b
        /\ d_pimp s = [] /\ selI s
    | _ => True
    end.

  Record KI (cf : cfg) (gm : node -> dmode) : Prop := {
    K_idle : forall b, w_running (nodes cf b) = false -> stt cf b = dba_init b;
    K_held : forall b, w_running (nodes cf b) = true -> w_held (nodes cf b) = [];
    K_non : forall a b, ~ In a (nbrs b) -> chan cf a b = [] /\ fromH a (w_held (nodes cf b)) = [];
    K_post : forall b, incl (map fst (d_pok (stt cf b))) (nbrs b)
                       /\ incl (map fst (d_pimp (stt cf b))) (nbrs b);
    K_ok : forall a b, In a (nbrs b) -> d_mode (stt cf b) <> FinM ->
       okH (stt cf b) a + rO (stt cf b) a + nO (fromH a (w_held (nodes cf b))) + nO (chan cf a b)
       <= okS (em gm a (stt cf a)) (cyc (stt cf a));
    K_imp : forall a b, In a (nbrs b) -> d_mode (stt cf b) <> FinM ->
       impH (stt cf b) a + rI (stt cf b) a + nI (fromH a (w_held (nodes cf b))) + nI (chan cf a b)
       <= impS (em gm a (stt cf a)) (cyc (stt cf a));
    K_bal : forall a b, In a (nbrs b) ->
       impS (em gm a (stt cf a)) (cyc (stt cf a)) <= okS (em gm b (stt cf b)) (cyc (stt cf b))
       /\ cycS (em gm a (stt cf a)) (cyc (stt cf a)) <= impS (em gm b (stt cf b)) (cyc (stt cf b));
    K_node : forall b, w_running (nodes cf b) = true -> NL b (stt cf b)
  }.

  Lemma nbrs_nd b : NoDup (nbrs b).
  Proof. unfold M_Dba.nbrs. apply NoDup_nodup. Qed.
  Lemma nbrs_ir b : ~ In b (nbrs b).
  Proof. intros H. now apply (nbrs_neq cs ncs b b). Qed.

  Lemma upd_eq (f : node -> nwrap dst dmsg) n w : upd_node f n w n = w.
  Proof. unfold upd_node. now rewrite Z.eqb_refl. Qed.
  Lemma upd_ne (f : node -> nwrap dst dmsg) n w x : x <> n -> upd_node f n w x = f x.
  Proof. intros H. unfold upd_node. destruct (Z.eqb_spec x n); [contradiction|reflexivity]. Qed.

  (* ---------------------------------------------------------------- consequences of the counts *)
  Section Facts.
    Variable cf : cfg.
    Variable gm : node -> dmode.
    Hypothesis HK : KI cf gm.

    Lemma chan_nbr a0 b0 m q : chan cf a0 b0 = m :: q -> In a0 (nbrs b0).
    Proof.
      intros Hc. destruct (in_dec Z.eq_dec a0 (nbrs b0)) as [H|H]; auto.
      destruct (K_non _ _ HK a0 b0 H) as [E _]. congruence.
    Qed.

    (* P1: in 'ok' mode, the head of a channel is never an ok? of a neighbour already in the view *)
    Lemma head_ok_new a0 b0 v q :
      chan cf a0 b0 = MOk v :: q -> d_mode (stt cf b0) = OkM -> got (stt cf b0) a0 = false.
    Proof.
      intros Hc Hm. pose proof (chan_nbr _ _ _ _ Hc) as Ha.
      destruct (got (stt cf b0) a0) eqn:Hg; auto. exfalso.
      assert (Hnf : d_mode (stt cf b0) <> FinM) by congruence.
      pose proof (K_ok _ _ HK a0 b0 Ha Hnf) as K1.
      destruct (K_bal _ _ HK a0 b0 Ha) as [_ K3].
      unfold okH in K1. rewrite Hm, Hg, Hc in K1. unfold nO in K1 at 2. simpl in K1.
      unfold em in K3 at 2. rewrite Hm in K3. simpl in K3.
      destruct (em gm a0 (stt cf a0)); simpl in *; lia.
    Qed.

    (* P2: in 'improve' mode, never an improve of a neighbour already heard *)
    Lemma head_imp_new a0 b0 x y z q :
      chan cf a0 b0 = MImp x y z :: q -> d_mode (stt cf b0) = ImpM -> got (stt cf b0) a0 = false.
    Proof.
      intros Hc Hm. pose proof (chan_nbr _ _ _ _ Hc) as Ha.
      destruct (got (stt cf b0) a0) eqn:Hg; auto. exfalso.
      assert (Hnf : d_mode (stt cf b0) <> FinM) by congruence.
      pose proof (K_imp _ _ HK a0 b0 Ha Hnf) as K2.
      destruct (K_bal _ _ HK a0 b0 Ha) as [K3 _].
      unfold impH in K2. rewrite Hm, Hg, Hc in K2. unfold nI in K2 at 2. simpl in K2.
      unfold em in K3 at 2. rewrite Hm in K3. simpl in K3.
      destruct (em gm a0 (stt cf a0)); simpl in *; lia.
    Qed.

    (* P3: in 'ok' mode at most one postponed improve per neighbour *)
    Lemma pimp_one a b : In a (nbrs b) -> d_mode (stt cf b) = OkM -> length (fromI a (d_pimp (stt cf b))) <= 1.
    Proof.
      intros Ha Hm.
      assert (Hnf : d_mode (stt cf b) <> FinM) by congruence.
      pose proof (K_imp _ _ HK a b Ha Hnf) as K2.
      destruct (K_bal _ _ HK a b Ha) as [K3 _].
      unfold impH, rI in K2. rewrite Hm in K2.
      unfold em in K3 at 2. rewrite Hm in K3. simpl in K3.
      destruct (em gm a (stt cf a)); simpl in *; lia.
    Qed.

    (* P4: in 'improve' mode at most one postponed ok? per neighbour *)
    Lemma pok_one a b : In a (nbrs b) -> d_mode (stt cf b) = ImpM -> length (fromO a (d_pok (stt cf b))) <= 1.
    Proof.
      intros Ha Hm.
      assert (Hnf : d_mode (stt cf b) <> FinM) by congruence.
      pose proof (K_ok _ _ HK a b Ha Hnf) as K1.
      destruct (K_bal _ _ HK a b Ha) as [_ K3].
      unfold okH, rO in K1. rewrite Hm in K1.
      unfold em in K3 at 2. rewrite Hm in K3. simpl in K3.
      destruct (em gm a (stt cf a)); simpl in *; lia.
    Qed.
  End Facts.

  (* ---------------------------------------------------------------- what a handler sends *)
  Definition outs_cnt (b0 : node) (outs : list (node * dmsg)) (jO jI : nat) : Prop :=
    (forall y, In y (nbrs b0) -> nO (fromH y outs) = jO /\ nI (fromH y outs) = jI)
    /\ (forall y, ~ In y (nbrs b0) -> fromH y outs = []).

  Lemma fromH_all y b m : fromH y (to_all b m) = if zmem y (nbrs b) then [m] else [].
  Proof.
    unfold M_Dba.to_all, fromH. pose proof (nbrs_nd b) as Hnd.
    induction (nbrs b) as [|x l IH]; simpl; auto.
    inversion Hnd as [|? ? Hnin Hnd']; subst.
    rewrite (Z.eqb_sym y x). destruct (Z.eqb_spec x y) as [->|Hne]; simpl.
    - rewrite filter_none'; auto.
      intros [t m'] Hin. simpl. apply in_map_iff in Hin as [t' [E Hin]]. inversion E; subst.
      destruct (Z.eqb_spec t y); auto. subst. contradiction.
    - now apply IH.
  Qed.

  Lemma outs_nil b0 : outs_cnt b0 [] 0 0.
  Proof. split; intros; unfold fromH; simpl; auto. Qed.

  Lemma outs_all b0 m : outs_cnt b0 (to_all b0 m) (if isOk m then 1 else 0) (if isImp m then 1 else 0).
  Proof.
    split; intros y Hy; rewrite fromH_all.
    - apply zmem_In in Hy. rewrite Hy. unfold nO, nI. simpl. destruct m; simpl; auto.
    - destruct (zmem y (nbrs b0)) eqn:E; auto. apply zmem_In in E. contradiction.
  Qed.

  Lemma outs_app b0 o1 o2 j1 i1 j2 i2 :
    outs_cnt b0 o1 j1 i1 -> outs_cnt b0 o2 j2 i2 -> outs_cnt b0 (o1 ++ o2) (j1 + j2) (i1 + i2).
  Proof.
    intros [A1 B1] [A2 B2]. split; intros y Hy; rewrite fromH_app.
    - destruct (A1 y Hy), (A2 y Hy). rewrite nO_app, nI_app. lia.
    - rewrite B1, B2; auto.
  Qed.

  Lemma em_alive gm n s : d_mode s <> FinM -> em gm n s = d_mode s.
  Proof. unfold em. destruct (d_mode s); auto. congruence. Qed.

  (* ---------------------------------------------------------------- generic preservation lemmas *)
  Lemma KI_deliver cf gm a0 b0 m q s' outs jO jI :
    KI cf gm -> w_running (nodes cf b0) = true -> chan cf a0 b0 = m :: q ->
    d_mode (stt cf b0) <> FinM -> d_mode s' <> FinM ->
    outs_cnt b0 outs jO jI ->
    okS (d_mode (stt cf b0)) (cyc (stt cf b0)) + jO <= okS (d_mode s') (cyc s') ->
    impS (d_mode (stt cf b0)) (cyc (stt cf b0)) + jI <= impS (d_mode s') (cyc s') ->
    (forall x, In x (nbrs b0) ->
       impS (d_mode s') (cyc s') <= okS (em gm x (stt cf x)) (cyc (stt cf x))
       /\ cycS (d_mode s') (cyc s') <= impS (em gm x (stt cf x)) (cyc (stt cf x))) ->
    (forall a, In a (nbrs b0) ->
       okH s' a + rO s' a + nO (if Z.eqb a a0 then q else chan cf a b0)
       <= okH (stt cf b0) a + rO (stt cf b0) a + nO (chan cf a b0)) ->
    (forall a, In a (nbrs b0) ->
       impH s' a + rI s' a + nI (if Z.eqb a a0 then q else chan cf a b0)
       <= impH (stt cf b0) a + rI (stt cf b0) a + nI (chan cf a b0)) ->
    incl (map fst (d_pok s')) (nbrs b0) -> incl (map fst (d_pimp s')) (nbrs b0) ->
    NL b0 s' ->
    KI (mkConfig (upd_node (nodes cf) b0 (mkWrap true (w_held (nodes cf b0)) s'))
                 (send_all (upd_chan (chan cf) a0 b0 q) b0 outs)) gm.
  Proof.
    intros HK Hr Hc Hnf Hnf' [Ocnt Onon] HoS HiS Hbal HokR HimpR Hpo Hpi Hnl.
    set (cf' := mkConfig _ _).
    pose proof (chan_nbr cf gm HK _ _ _ _ Hc) as Ha0.
    assert (Hne0 : a0 <> b0) by (intros ->; now apply (nbrs_ir b0)).
    assert (Hheld := K_held _ _ HK b0 Hr).
    assert (Hn : forall x, x <> b0 -> nodes cf' x = nodes cf x) by (intros x Hx; unfold cf'; simpl; now apply upd_ne).
    assert (Hs : forall x, x <> b0 -> stt cf' x = stt cf x) by (intros x Hx; unfold stt; now rewrite Hn).
    assert (Hn0 : nodes cf' b0 = mkWrap true (w_held (nodes cf b0)) s') by (unfold cf'; simpl; apply upd_eq).
    assert (Hs0 : stt cf' b0 = s') by (unfold stt; now rewrite Hn0).
    assert (Hch : forall a b, chan cf' a b =
              (if Z.eqb a a0 && Z.eqb b b0 then q else chan cf a b)
              ++ (if Z.eqb a b0 then fromH b outs else [])).
    { intros a b. unfold cf'; simpl. rewrite send_all_spec. unfold upd_chan.
      destruct (Z.eqb a b0); [reflexivity | now rewrite app_nil_r]. }
    assert (E0 : em gm b0 (stt cf b0) = d_mode (stt cf b0)) by now apply em_alive.
    assert (E0' : em gm b0 s' = d_mode s') by now apply em_alive.
    constructor.
    - intros b Hb. destruct (Z.eq_dec b b0) as [->|Hbn]; [rewrite Hn0 in Hb; discriminate|].
      rewrite Hs by auto. rewrite Hn in Hb by auto. now apply (K_idle _ _ HK).
    - intros b Hb. destruct (Z.eq_dec b b0) as [->|Hbn]; [rewrite Hn0; simpl; exact Hheld|].
      rewrite Hn in * by auto. now apply (K_held _ _ HK).
    - intros a b Hab. destruct (K_non _ _ HK a b Hab) as [C1 C2]. split.
      + rewrite Hch.
        assert (X1 : (if Z.eqb a a0 && Z.eqb b b0 then q else chan cf a b) = []).
        { destruct (Z.eqb_spec a a0) as [Ea|]; destruct (Z.eqb_spec b b0) as [Eb|]; simpl; auto.
          subst a b. contradiction. }
        rewrite X1. simpl. destruct (Z.eqb_spec a b0) as [Ea|]; [|reflexivity].
        apply Onon. intros Hc'. apply Hab. subst a. now apply Hsym.
      + destruct (Z.eq_dec b b0) as [->|Hbn]; [rewrite Hn0; simpl; exact C2 | rewrite Hn by auto; exact C2].
    - intros b. destruct (Z.eq_dec b b0) as [->|Hbn]; [rewrite Hs0; auto | rewrite Hs by auto; apply (K_post _ _ HK)].
    - intros a b Hab Hmb. rewrite Hch.
      destruct (Z.eq_dec b b0) as [->|Hbn].
      + assert (Han : a <> b0) by (intros ->; now apply (nbrs_ir b0)).
        rewrite Hs0, Hn0, (Hs a Han). simpl w_held.
        pose proof (K_ok _ _ HK a b0 Hab Hnf) as K1. specialize (HokR a Hab).
        rewrite Z.eqb_refl, andb_true_r. apply Z.eqb_neq in Han. rewrite Han, app_nil_r. lia.
      + rewrite (Hs b Hbn), (Hn b Hbn) in *. pose proof (K_ok _ _ HK a b Hab Hmb) as K1.
        replace (Z.eqb b b0) with false by (symmetry; now apply Z.eqb_neq). rewrite andb_false_r.
        destruct (Z.eqb_spec a b0) as [->|Han].
        * rewrite Hs0, E0'. rewrite E0 in K1. rewrite nO_app.
          destruct (Ocnt b (Hsym _ _ Hab)) as [Oo _]. lia.
        * rewrite (Hs a Han), app_nil_r. exact K1.
    - intros a b Hab Hmb. rewrite Hch.
      destruct (Z.eq_dec b b0) as [->|Hbn].
      + assert (Han : a <> b0) by (intros ->; now apply (nbrs_ir b0)).
        rewrite Hs0, Hn0, (Hs a Han). simpl w_held.
        pose proof (K_imp _ _ HK a b0 Hab Hnf) as K1. specialize (HimpR a Hab).
        rewrite Z.eqb_refl, andb_true_r. apply Z.eqb_neq in Han. rewrite Han, app_nil_r. lia.
      + rewrite (Hs b Hbn), (Hn b Hbn) in *. pose proof (K_imp _ _ HK a b Hab Hmb) as K1.
        replace (Z.eqb b b0) with false by (symmetry; now apply Z.eqb_neq). rewrite andb_false_r.
        destruct (Z.eqb_spec a b0) as [->|Han].
        * rewrite Hs0, E0'. rewrite E0 in K1. rewrite nI_app.
          destruct (Ocnt b (Hsym _ _ Hab)) as [_ Oi]. lia.
        * rewrite (Hs a Han), app_nil_r. exact K1.
    - intros a b Hab. pose proof (K_bal _ _ HK a b Hab) as [B1 B2].
      destruct (Z.eq_dec a b0) as [->|Han].
      + assert (Hbn : b <> b0) by (intros ->; now apply (nbrs_ir b0)).
        rewrite Hs0, E0', (Hs b Hbn). apply Hbal. now apply Hsym.
      + rewrite (Hs a Han). destruct (Z.eq_dec b b0) as [->|Hbn].
        * rewrite Hs0, E0'. rewrite E0 in B1, B2. lia.
        * rewrite (Hs b Hbn). auto.
    - intros b Hb. destruct (Z.eq_dec b b0) as [->|Hbn]; [now rewrite Hs0|].
      rewrite Hs by auto. rewrite Hn in Hb by auto. now apply (K_node _ _ HK).
  Qed.

  Lemma fromH_one a a0 (m : dmsg) : fromH a [(a0, m)] = if Z.eqb a a0 then [m] else [].
  Proof. unfold fromH. simpl. rewrite (Z.eqb_sym a0 a). destruct (Z.eqb a a0); reflexivity. Qed.

  (* a message that reaches a computation that has not started is buffered *)
  Lemma KI_hold cf gm a0 b0 m q :
    KI cf gm -> w_running (nodes cf b0) = false -> chan cf a0 b0 = m :: q ->
    KI (mkConfig (upd_node (nodes cf) b0 (mkWrap false (w_held (nodes cf b0) ++ [(a0, m)]) (w_st (nodes cf b0))))
                 (upd_chan (chan cf) a0 b0 q)) gm.
  Proof.
    intros HK Hr Hc. set (cf' := mkConfig _ _).
    pose proof (chan_nbr cf gm HK _ _ _ _ Hc) as Ha0.
    assert (Hn : forall x, x <> b0 -> nodes cf' x = nodes cf x) by (intros x Hx; unfold cf'; simpl; now apply upd_ne).
    assert (Hn0 : nodes cf' b0 = mkWrap false (w_held (nodes cf b0) ++ [(a0, m)]) (w_st (nodes cf b0)))
      by (unfold cf'; simpl; apply upd_eq).
    assert (Hs : forall x, stt cf' x = stt cf x).
    { intros x. unfold stt. destruct (Z.eq_dec x b0) as [->|Hx]; [now rewrite Hn0 | now rewrite Hn]. }
    assert (Hch : forall a b, chan cf' a b = if Z.eqb a a0 && Z.eqb b b0 then q else chan cf a b) by reflexivity.
    assert (Hh : forall a b, fromH a (w_held (nodes cf' b)) =
               fromH a (w_held (nodes cf b)) ++ (if Z.eqb a a0 && Z.eqb b b0 then [m] else [])).
    { intros a b. destruct (Z.eqb_spec b b0) as [->|Hb].
      - rewrite Hn0. simpl. rewrite fromH_app, fromH_one, andb_true_r. reflexivity.
      - rewrite Hn by auto. now rewrite andb_false_r, app_nil_r. }
    constructor.
    - intros b Hb. rewrite Hs. destruct (Z.eq_dec b b0) as [->|Hbn]; [now apply (K_idle _ _ HK)|].
      rewrite Hn in Hb by auto. now apply (K_idle _ _ HK).
    - intros b Hb. destruct (Z.eq_dec b b0) as [->|Hbn]; [rewrite Hn0 in Hb; discriminate|].
      rewrite Hn in * by auto. now apply (K_held _ _ HK).
    - intros a b Hab. destruct (K_non _ _ HK a b Hab) as [C1 C2]. rewrite Hch, Hh, C1, C2.
      destruct (Z.eqb_spec a a0) as [Ea|]; destruct (Z.eqb_spec b b0) as [Eb|]; simpl; auto.
      subst a b. contradiction.
    - intros b. rewrite Hs. apply (K_post _ _ HK).
    - intros a b Hab Hmb. rewrite !Hs in *. rewrite Hch, Hh, nO_app.
      pose proof (K_ok _ _ HK a b Hab Hmb) as K1.
      destruct (Z.eqb a a0 && Z.eqb b b0) eqn:E; [|change (nO []) with 0; lia].
      apply andb_true_iff in E as [E1 E2]. apply Z.eqb_eq in E1, E2. subst a b.
      rewrite Hc in K1. change (nO (m :: q)) with (nO ([m] ++ q)) in K1. rewrite nO_app in K1. lia.
    - intros a b Hab Hmb. rewrite !Hs in *. rewrite Hch, Hh, nI_app.
      pose proof (K_imp _ _ HK a b Hab Hmb) as K1.
      destruct (Z.eqb a a0 && Z.eqb b b0) eqn:E; [|change (nI []) with 0; lia].
      apply andb_true_iff in E as [E1 E2]. apply Z.eqb_eq in E1, E2. subst a b.
      rewrite Hc in K1. change (nI (m :: q)) with (nI ([m] ++ q)) in K1. rewrite nI_app in K1. lia.
    - intros a b Hab. rewrite !Hs. now apply (K_bal _ _ HK).
    - intros b Hb. rewrite Hs. destruct (Z.eq_dec b b0) as [->|Hbn]; [rewrite Hn0 in Hb; discriminate|].
      rewrite Hn in Hb by auto. now apply (K_node _ _ HK).
  Qed.

  (* a computation reaches (or is in) 'finished' mode: its counts are frozen *)
  Lemma KI_fin cf gm a0 b0 m q s' outs :
    KI cf gm -> w_running (nodes cf b0) = true -> chan cf a0 b0 = m :: q ->
    d_mode s' = FinM -> d_cycle s' = d_cycle (stt cf b0) ->
    incl (map fst (d_pok s')) (nbrs b0) -> incl (map fst (d_pimp s')) (nbrs b0) ->
    outs_cnt b0 outs 0 0 ->
    KI (mkConfig (upd_node (nodes cf) b0 (mkWrap true (w_held (nodes cf b0)) s'))
                 (send_all (upd_chan (chan cf) a0 b0 q) b0 outs))
       (fun x => if Z.eqb x b0 then em gm b0 (stt cf b0) else gm x).
  Proof.
    intros HK Hr Hc Hm' Hcy Hpo Hpi [Ocnt Onon].
    set (cf' := mkConfig _ _). set (gm' := fun x => _).
    pose proof (chan_nbr cf gm HK _ _ _ _ Hc) as Ha0.
    assert (Hheld := K_held _ _ HK b0 Hr).
    assert (Hn : forall x, x <> b0 -> nodes cf' x = nodes cf x) by (intros x Hx; unfold cf'; simpl; now apply upd_ne).
    assert (Hs : forall x, x <> b0 -> stt cf' x = stt cf x) by (intros x Hx; unfold stt; now rewrite Hn).
    assert (Hn0 : nodes cf' b0 = mkWrap true (w_held (nodes cf b0)) s') by (unfold cf'; simpl; apply upd_eq).
    assert (Hs0 : stt cf' b0 = s') by (unfold stt; now rewrite Hn0).
    assert (Hch : forall a b, chan cf' a b =
              (if Z.eqb a a0 && Z.eqb b b0 then q else chan cf a b)
              ++ (if Z.eqb a b0 then fromH b outs else [])).
    { intros a b. unfold cf'; simpl. rewrite send_all_spec. unfold upd_chan.
      destruct (Z.eqb a b0); [reflexivity | now rewrite app_nil_r]. }
    assert (Ecy : cyc s' = cyc (stt cf b0)) by (unfold cyc; now rewrite Hcy).
    assert (Eem : forall x, em gm' x (stt cf' x) = em gm x (stt cf x) /\ cyc (stt cf' x) = cyc (stt cf x)).
    { intros x. destruct (Z.eq_dec x b0) as [->|Hx].
      - rewrite Hs0. split; [|exact Ecy]. unfold em at 1. rewrite Hm'. unfold gm'. now rewrite Z.eqb_refl.
      - rewrite (Hs x Hx). split; [|reflexivity]. unfold em, gm'. apply Z.eqb_neq in Hx. now rewrite Hx. }
    constructor.
    - intros b Hb. destruct (Z.eq_dec b b0) as [->|Hbn]; [rewrite Hn0 in Hb; discriminate|].
      rewrite Hs by auto. rewrite Hn in Hb by auto. now apply (K_idle _ _ HK).
    - intros b Hb. destruct (Z.eq_dec b b0) as [->|Hbn]; [rewrite Hn0; simpl; exact Hheld|].
      rewrite Hn in * by auto. now apply (K_held _ _ HK).
    - intros a b Hab. destruct (K_non _ _ HK a b Hab) as [C1 C2]. split.
      + rewrite Hch.
        assert (X1 : (if Z.eqb a a0 && Z.eqb b b0 then q else chan cf a b) = []).
        { destruct (Z.eqb_spec a a0) as [Ea|]; destruct (Z.eqb_spec b b0) as [Eb|]; simpl; auto.
          subst a b. contradiction. }
        rewrite X1. simpl. destruct (Z.eqb_spec a b0) as [Ea|]; [|reflexivity].
        apply Onon. intros Hc'. apply Hab. subst a. now apply Hsym.
      + destruct (Z.eq_dec b b0) as [->|Hbn]; [rewrite Hn0; simpl; exact C2 | rewrite Hn by auto; exact C2].
    - intros b. destruct (Z.eq_dec b b0) as [->|Hbn]; [rewrite Hs0; auto | rewrite Hs by auto; apply (K_post _ _ HK)].
    - intros a b Hab Hmb. destruct (Eem a) as [-> ->].
      destruct (Z.eq_dec b b0) as [->|Hbn]; [rewrite Hs0 in Hmb; contradiction|].
      rewrite Hch. rewrite (Hs b Hbn), (Hn b Hbn) in *. pose proof (K_ok _ _ HK a b Hab Hmb) as K1.
      replace (Z.eqb b b0) with false by (symmetry; now apply Z.eqb_neq). rewrite andb_false_r.
      destruct (Z.eqb_spec a b0) as [->|Han]; [|now rewrite app_nil_r].
      rewrite nO_app. destruct (Ocnt b (Hsym _ _ Hab)) as [Oo _]. lia.
    - intros a b Hab Hmb. destruct (Eem a) as [-> ->].
      destruct (Z.eq_dec b b0) as [->|Hbn]; [rewrite Hs0 in Hmb; contradiction|].
      rewrite Hch. rewrite (Hs b Hbn), (Hn b Hbn) in *. pose proof (K_imp _ _ HK a b Hab Hmb) as K1.
      replace (Z.eqb b b0) with false by (symmetry; now apply Z.eqb_neq). rewrite andb_false_r.
      destruct (Z.eqb_spec a b0) as [->|Han]; [|now rewrite app_nil_r].
      rewrite nI_app. destruct (Ocnt b (Hsym _ _ Hab)) as [_ Oi]. lia.
    - intros a b Hab. destruct (Eem a) as [-> ->]. destruct (Eem b) as [-> ->]. now apply (K_bal _ _ HK).
    - intros b Hb. destruct (Z.eq_dec b b0) as [->|Hbn].
      + rewrite Hs0. pose proof (K_node _ _ HK b0 Hr) as [Hc0 _]. split; [now rewrite Hcy|]. now rewrite Hm'.
      + rewrite Hs by auto. rewrite Hn in Hb by auto. now apply (K_node _ _ HK).
  Qed.

  (* start() *)
  Lemma KI_start cf gm n0 s' outs jO :
    KI cf gm -> w_running (nodes cf n0) = false ->
    d_mode s' <> FinM -> outs_cnt n0 outs jO 0 -> jO <= okS (d_mode s') (cyc s') ->
    impS (d_mode s') (cyc s') = 0 -> cycS (d_mode s') (cyc s') = 0 ->
    (forall a, okH s' a + rO s' a = 0 /\ impH s' a + rI s' a = 0) ->
    d_pok s' = [] -> d_pimp s' = [] -> NL n0 s' ->
    KI (mkConfig (upd_node (nodes cf) n0 (mkWrap true [] s'))
                 (reinject_all (send_all (chan cf) n0 outs) n0 (reinject (w_held (nodes cf n0))))) gm.
  Proof.
    intros HK Hr Hnf' [Ocnt Onon] HoS HiS HcS Hrecv Hpo Hpi Hnl.
    set (cf' := mkConfig _ _).
    pose proof (K_idle _ _ HK n0 Hr) as Hinit.
    assert (Hn : forall x, x <> n0 -> nodes cf' x = nodes cf x) by (intros x Hx; unfold cf'; simpl; now apply upd_ne).
    assert (Hs : forall x, x <> n0 -> stt cf' x = stt cf x) by (intros x Hx; unfold stt; now rewrite Hn).
    assert (Hn0 : nodes cf' n0 = mkWrap true [] s') by (unfold cf'; simpl; apply upd_eq).
    assert (Hs0 : stt cf' n0 = s') by (unfold stt; now rewrite Hn0).
    assert (Hch : forall a b, chan cf' a b =
              (if Z.eqb b n0 then fromH a (w_held (nodes cf n0)) else [])
              ++ chan cf a b ++ (if Z.eqb a n0 then fromH b outs else [])).
    { intros a b. unfold cf', reinject; simpl. rewrite reinject_all_spec, send_all_spec.
      destruct (Z.eqb b n0), (Z.eqb a n0); simpl; rewrite ?app_nil_r; reflexivity. }
    assert (E0 : em gm n0 (stt cf n0) = Starting) by (rewrite Hinit; reflexivity).
    assert (E0' : em gm n0 s' = d_mode s') by now apply em_alive.
    assert (Hst0 : forall a, okH (stt cf n0) a = 0 /\ rO (stt cf n0) a = 0 /\ impH (stt cf n0) a = 0 /\ rI (stt cf n0) a = 0).
    { intros a. rewrite Hinit. repeat split. }
    constructor.
    - intros b Hb. destruct (Z.eq_dec b n0) as [->|Hbn]; [rewrite Hn0 in Hb; discriminate|].
      rewrite Hs by auto. rewrite Hn in Hb by auto. now apply (K_idle _ _ HK).
    - intros b Hb. destruct (Z.eq_dec b n0) as [->|Hbn]; [rewrite Hn0; reflexivity|].
      rewrite Hn in * by auto. now apply (K_held _ _ HK).
    - intros a b Hab. destruct (K_non _ _ HK a b Hab) as [C1 C2]. split.
      + rewrite Hch, C1.
        assert (X1 : (if Z.eqb b n0 then fromH a (w_held (nodes cf n0)) else []) = []).
        { destruct (Z.eqb_spec b n0) as [Eb|]; auto. subst b. exact C2. }
        rewrite X1. simpl. destruct (Z.eqb_spec a n0) as [Ea|]; [|reflexivity].
        apply Onon. intros Hc'. apply Hab. subst a. now apply Hsym.
      + destruct (Z.eq_dec b n0) as [->|Hbn]; [rewrite Hn0; reflexivity | rewrite Hn by auto; exact C2].
    - intros b. destruct (Z.eq_dec b n0) as [->|Hbn]; [rewrite Hs0, Hpo, Hpi; split; intros x [] | rewrite Hs by auto; apply (K_post _ _ HK)].
    - intros a b Hab Hmb. rewrite Hch, !nO_app.
      destruct (Z.eq_dec b n0) as [->|Hbn].
      + assert (Han : a <> n0) by (intros ->; now apply (nbrs_ir n0)).
        rewrite Hs0, Hn0, (Hs a Han). simpl w_held.
        assert (Hnf0 : d_mode (stt cf n0) <> FinM) by (rewrite Hinit; discriminate).
        pose proof (K_ok _ _ HK a n0 Hab Hnf0) as K1. destruct (Hst0 a) as [Z1 [Z2 _]]. destruct (Hrecv a) as [R1 _].
        rewrite Z.eqb_refl. apply Z.eqb_neq in Han. rewrite Han. cbv iota. change (fromH a []) with (@nil dmsg). change (nO []) with 0. lia.
      + rewrite (Hs b Hbn), (Hn b Hbn) in *. pose proof (K_ok _ _ HK a b Hab Hmb) as K1.
        replace (Z.eqb b n0) with false by (symmetry; now apply Z.eqb_neq).
        destruct (Z.eqb_spec a n0) as [->|Han].
        * rewrite Hs0, E0'. rewrite E0 in K1. simpl in K1.
          destruct (Ocnt b (Hsym _ _ Hab)) as [Oo _]. cbv iota. change (nO []) with 0. lia.
        * rewrite (Hs a Han). cbv iota. change (nO []) with 0. lia.
    - intros a b Hab Hmb. rewrite Hch, !nI_app.
      destruct (Z.eq_dec b n0) as [->|Hbn].
      + assert (Han : a <> n0) by (intros ->; now apply (nbrs_ir n0)).
        rewrite Hs0, Hn0, (Hs a Han). simpl w_held.
        assert (Hnf0 : d_mode (stt cf n0) <> FinM) by (rewrite Hinit; discriminate).
        pose proof (K_imp _ _ HK a n0 Hab Hnf0) as K1. destruct (Hst0 a) as [_ [_ [Z1 Z2]]]. destruct (Hrecv a) as [_ R1].
        rewrite Z.eqb_refl. apply Z.eqb_neq in Han. rewrite Han. cbv iota. change (fromH a []) with (@nil dmsg). change (nI []) with 0. lia.
      + rewrite (Hs b Hbn), (Hn b Hbn) in *. pose proof (K_imp _ _ HK a b Hab Hmb) as K1.
        replace (Z.eqb b n0) with false by (symmetry; now apply Z.eqb_neq).
        destruct (Z.eqb_spec a n0) as [->|Han].
        * rewrite Hs0, E0'. rewrite E0 in K1. simpl in K1.
          destruct (Ocnt b (Hsym _ _ Hab)) as [_ Oi]. cbv iota. change (nI []) with 0. lia.
        * rewrite (Hs a Han). cbv iota. change (nI []) with 0. lia.
    - intros a b Hab. pose proof (K_bal _ _ HK a b Hab) as [B1 B2].
      destruct (Z.eq_dec a n0) as [->|Han].
      + assert (Hbn : b <> n0) by (intros ->; now apply (nbrs_ir n0)).
        rewrite Hs0, E0', (Hs b Hbn), HiS, HcS. lia.
      + rewrite (Hs a Han). destruct (Z.eq_dec b n0) as [->|Hbn].
        * rewrite Hs0, E0'. rewrite E0 in B1, B2. simpl in B1, B2. lia.
        * rewrite (Hs b Hbn). auto.
    - intros b Hb. destruct (Z.eq_dec b n0) as [->|Hbn]; [now rewrite Hs0|].
      rewrite Hs by auto. rewrite Hn in Hb by auto. now apply (K_node _ _ HK).
  Qed.

End Count.
