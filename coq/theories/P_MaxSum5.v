(* P_MaxSum5.v -- C05 deepening, part 4: synchronous Max-Sum is exact on forests, for every schedule.
   Assembles the refinement (P_MaxSum2), the lifted suppression lemma (P_MaxSum3) and the tree induction
   (P_MaxSum4). *)
From Coq Require Import QArith Qabs Lia Permutation.
From PyDcop Require Import Base Net M_SyncMixin P_SyncMixin M_MaxSum P_MaxSum P_MaxSum2 P_MaxSum3 P_MaxSum4.
Local Open Scope nat_scope.
Local Notation length := List.length.

(* the factor graph is a forest of height <= H: seen from every variable, the unrolling to depth H+1 is
   closed (nothing left to explore) and meets no computation twice *)
Definition forest_ok_b (G : dcop) (H : nat) : bool :=
  forallb (fun x => if low G (S H) x x then nodupb Z.eqb (SN G (S H) x x) else false) (var_ids G).

(* the executable (lazy) versions used by the correspondence are the same functions *)
Lemma u_others_eq G a b : u_others G a b = others G a b.
Proof. reflexivity. Qed.
Lemma unroll_eq G h : forall a b, unroll G h a b = SN G h a b.
Proof.
  induction h as [|h IH]; intros a b; simpl; [reflexivity|]. f_equal.
  rewrite u_others_eq. apply flat_map_ext. intros c. apply IH.
Qed.
Lemma lazy_forallb_eq {A} (p : A -> bool) l : lazy_forallb p l = forallb p l.
Proof. induction l as [|x r IH]; simpl; [reflexivity|]. rewrite IH. destruct (p x); reflexivity. Qed.
Lemma u_closed_eq G h : forall a b, u_closed G h a b = low G h a b.
Proof.
  induction h as [|h IH]; intros a b; simpl; [reflexivity|].
  rewrite lazy_forallb_eq, u_others_eq. apply forallb_ext'. intros c. apply IH.
Qed.
Lemma forest_height_ok_eq G H : forest_height_ok G H = forest_ok_b G H.
Proof.
  unfold forest_height_ok, forest_ok_b. rewrite lazy_forallb_eq. apply forallb_ext'. intros x.
  now rewrite u_closed_eq, unroll_eq.
Qed.
Lemma wf_b_eq G : wf_b G = wf_dcop_b G.
Proof. reflexivity. Qed.

Lemma dom_pos_of_valid G a : valid_assignment G a -> forall x vd, In (x, vd) (d_vars G) -> 0 < v_dom vd.
Proof.
  unfold valid_assignment. generalize (d_vars G). intros l. revert a.
  induction l as [|[y vy] r IH]; intros a Ha x vd Hin; [contradiction|].
  simpl in Ha. inversion Ha as [|v n a' l' Hvn Ha']; subst.
  destruct Hin as [Hin|Hin]; [inversion Hin; subst; simpl in Hvn; lia | eapply IH; eauto].
Qed.

Section Final.
  Variable P : params.
  Variable G : dcop.
  Hypothesis Hwf : wf_dcop G.
  Hypothesis Hstab : (p_stab P == 0)%Q.
  Hypothesis Hdamp : (p_damp P == 0)%Q.
  Notation mx := (p_max P).
  Notation R := (ms_rounds P G).

  (* value selection in lock-step round j (the on_new_cycle call with id j) *)
  Lemma sel_at_round x vd H j a :
    zlookup x (d_vars G) = Some vd ->
    low G (S H) x x = true -> NoDup (SN G (S H) x x) ->
    unique_optimum mx G a ->
    (nbrs G x = [] \/ H <= j) ->
    fst (select_value mx vd (costs_at P G j x)) = val_of G a x.
  Proof.
    intros Hv Hl Hsn Hu Hj.
    assert (Hdom : forall y vy, In (y, vy) (d_vars G) -> 0 < v_dom vy) by (apply (dom_pos_of_valid G a); apply Hu).
    pose proof (maxsum_graph_ok_l G Hwf) as [_ [Hsym _]].
    destruct (costs_at_keys P G j x) as [Hk1 Hk2].
    apply (root_select P G Hwf Hdom x vd (costs_at P G j x) H
             (fun g => T P G (pred j) g x) (fun g => KK P G H (pred j) g x) a Hv Hk1 Hk2); auto.
    intros g Hg.
    destruct Hj as [Hj|Hj]; [rewrite Hj in Hg; contradiction|].
    pose proof Hl as Hl'. pose proof Hsn as Hsn'.
    simpl in Hl', Hsn'. rewrite (others_self G Hwf) in Hl', Hsn'. rewrite forallb_forall in Hl'.
    inversion Hsn' as [|? ? Hxn Hndf]; subst.
    pose proof (Hl' g Hg) as Hlg.
    destruct H as [|H']; [discriminate|]. destruct j as [|j']; [lia|]. simpl pred.
    split; [apply (view_spec P G Hwf Hstab Hdamp j' g x); now apply Hsym|].
    destruct (tree_messages_l P G Hwf Hdom Hstab Hdamp (S H') g x j') as [_ Hm].
    - now apply Hsym.
    - exact Hlg.
    - exact (NoDup_flat_map_in (fun c => SN G (S H') c x) (nbrs G x) g Hndf Hg).
    - intros Hc. apply Hxn. apply in_flat_map. exists g. auto.
    - lia.
    - assert (Hxg : xv G g x = x).
      { rewrite (nbrs_var G x vd Hv) in Hg. apply (factors_of_In G) in Hg as [fd [Hin _]].
        unfold xv, is_var. now rewrite (fac_not_var G Hwf g fd Hin). }
      rewrite Hxg in Hm. unfold dom_of in Hm. rewrite Hv in Hm. exact Hm.
  Qed.

  Lemma n_sel_round j x vd : zlookup x (d_vars G) = Some vd ->
    n_sel (fst (R (S j) x)) =
    n_sel (fst (R j x)) ++ [(fst (select_value mx vd (costs_at P G j x)),
                             Some (snd (select_value mx vd (costs_at P G j x))))].
  Proof.
    intros Hv. destruct (round_nf P G j x) as [Hc _]. rewrite Hc.
    simpl. unfold ms_round. rewrite (ms_cycle_var P G x vd) by auto. reflexivity.
  Qed.

  Lemma current_value_snoc st l d c : n_sel st = l ++ [(d, c)] -> current_value st = Some d.
  Proof. intros H. unfold current_value. rewrite H, rev_unit. reflexivity. Qed.

  Lemma init_sel x vd : zlookup x (d_vars G) = Some vd -> v_init vd = None ->
    current_value (fst (R 0 x)) = Some (fst (select_value mx vd [])).
  Proof.
    intros Hv Hi. simpl. unfold ms_init, node_start. rewrite Hv. unfold var_start. rewrite Hi. simpl.
    destruct (select_value mx vd []) as [d c]. simpl. reflexivity.
  Qed.

  (* LOCK-STEP EXACTNESS: after more rounds than the height of the forest every variable's selected value
     is its value in the unique optimum *)
  Theorem tree_select_l a H : unique_optimum mx G a -> forest_ok_b G H = true ->
    (forall x vd, In (x, vd) (d_vars G) -> nbrs G x = [] -> v_init vd = None) ->
    forall x k, In x (var_ids G) -> (nbrs G x = [] \/ S H <= k) ->
    current_value (fst (R k x)) = Some (val_of G a x).
  Proof.
    intros Hu Hf Hiso x k Hx Hk.
    assert (Hdom : forall y vy, In (y, vy) (d_vars G) -> 0 < v_dom vy) by (apply (dom_pos_of_valid G a); apply Hu).
    unfold forest_ok_b in Hf. rewrite forallb_forall in Hf. specialize (Hf x Hx).
    destruct (low G (S H) x x) eqn:Hl; [|discriminate]. apply nodupb_sound in Hf.
    apply (var_lookup G Hwf) in Hx as [vd Hv].
    destruct k as [|j].
    - destruct Hk as [Hk|Hk]; [|lia].
      rewrite (init_sel x vd Hv (Hiso x vd (zlookup_In _ _ _ Hv) Hk)). f_equal.
      apply (root_select P G Hwf Hdom x vd [] H (fun _ => []) (fun _ => 0%Q) a Hv); auto.
      + constructor.
      + intros y [].
      + intros g Hg. rewrite Hk in Hg. contradiction.
    - rewrite (current_value_snoc _ _ _ _ (n_sel_round j x vd Hv)). f_equal.
      apply (sel_at_round x vd H j a Hv Hl Hf Hu). destruct Hk as [Hk|Hk]; [left; exact Hk | right; lia].
  Qed.

  (* EXACTNESS FOR EVERY SCHEDULE of the asynchronous network: once every computation that has a neighbour
     has completed more than H cycles, the assignment selected by the variables is the unique optimum *)
  Theorem maxsum_tree_exact_l a H sched : unique_optimum mx G a -> forest_ok_b G H = true ->
    (forall x vd, In (x, vd) (d_vars G) -> nbrs G x = [] -> v_init vd = None) ->
    let cf := fst (run (maxsum_proto P G) sched) in
    rounds_done P G cf (S H) = true -> selected_sync G cf = map Some a.
  Proof.
    intros Hu Hf Hiso cf Hrd.
    assert (Hre : reachable (maxsum_proto P G) cf) by (apply exec_reachable; constructor).
    destruct (maxsum_refines_rounds_l P G Hwf) as [_ Href].
    destruct Hu as [Hva Huq].
    destruct (list_to_valid G Hwf (dom_pos_of_valid G a Hva) a Hva) as [_ Hmap].
    unfold selected_sync.
    transitivity (map Some (map (val_of G a) (var_ids G))); [|now rewrite Hmap].
    rewrite map_map. apply map_ext_in. intros x Hx.
    unfold rounds_done in Hrd. rewrite forallb_forall in Hrd.
    assert (Hxn : In x (all_nodes G)) by (unfold all_nodes; apply in_or_app; left; exact Hx).
    specialize (Hrd x Hxn). apply andb_true_iff in Hrd as [Hrun Hcur].
    destruct (Href cf x Hre Hrun) as [_ [_ [_ [_ [Hsel _]]]]].
    assert (Hcv : current_value (ast (w_st (nodes cf x))) = current_value (fst (R (cur (w_st (nodes cf x))) x))).
    { unfold current_value. now rewrite Hsel. }
    rewrite Hcv. apply (tree_select_l a H (conj Hva Huq) Hf Hiso x _ Hx).
    destruct (nbrs G x); [left; reflexivity | right; now apply Nat.leb_le].
  Qed.
End Final.
