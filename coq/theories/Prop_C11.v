(* Prop_C11.v -- C11: relations evaluate and slice consistently with their definition.
   Only statements; each closed by an exact lemma of P_RelKinds.

   Vocabulary (M_RelKinds): [rel] = RBase of one of the kinds zero-ary / unary function / unary
   boolean / n-ary function (expression or python def, keyword or positional mapping) / matrix /
   neutral, or RCond (conditional).  [call_kw r kw] is r( **kw ), [call_pos r l] is r( *l ),
   [gv_dict]/[gv_list] are get_value_for_assignment, [call_dictarg] is r(dict); results are
   [Ok z] or [Err exception].  [wf_b] is what the constructors establish from pairwise distinct
   variable names (theorems mk_fun_wf / mk_mat_wf).  The iteration order of an expression's
   variable set (PYTHONHASHSEED) is the field [fparams] of the function: every theorem below
   quantifies over it. *)
From PyDcop Require Import Base M_RelKinds P_RelKinds P_RelKinds2 P_RelKinds3 P_RelKinds4 P_RelKinds5.
From Coq Require Import Permutation.
Open Scope Z_scope.

(* the three call forms (and the list form) agree on every full assignment, given in ANY
   keyword order, for every non-conditional kind, every variable order, every set order; the
   equality includes the raised exception when the value is not defined *)
Theorem call_forms_agree : forall b vals kw,
  wf_b b -> List.length vals = List.length (dims (RBase b)) ->
  Permutation kw (combine (names (RBase b)) vals) ->
  call_kw (RBase b) kw = call_pos (RBase b) vals /\
  gv_dict (RBase b) kw = call_pos (RBase b) vals /\
  gv_list (RBase b) vals = call_pos (RBase b) vals /\
  (forall o, call_dictarg (RBase b) kw = Some o -> o = call_pos (RBase b) vals).
Proof. exact call_forms_agree_l. Qed.

(* slicing on any partial assignment p (a dict: distinct keys): the result is a well-formed
   relation over exactly the remaining variables, in the original order, and agrees with the
   original on every completion *)
Theorem slice_spec : forall b p r',
  wf_b b -> NoDup (map fst p) -> slice (RBase b) p = Ok r' ->
  exists b', r' = RBase b' /\ wf_b b' /\
    dims r' = remaining p (dims (RBase b)) /\
    forall c, (forall k, In k (map fst c) -> In k (names r')) ->
              gv_dict r' c = gv_dict (RBase b) (p ++ c).
Proof. exact slice_spec_l. Qed.

(* several steps = one step *)
Theorem slice_compose : forall b p1 p2 r1 r2 r12,
  wf_b b -> NoDup (map fst (p1 ++ p2)) ->
  slice (RBase b) p1 = Ok r1 -> slice r1 p2 = Ok r2 -> slice (RBase b) (p1 ++ p2) = Ok r12 ->
  (forall k, In k (map fst p2) -> In k (names r1)) ->
  dims r12 = dims r2 /\
  forall c, (forall k, In k (map fst c) -> In k (names r2)) -> gv_dict r12 c = gv_dict r2 c.
Proof. exact slice_compose_l. Qed.

(* the order of the keys of the partial assignment does not matter: the same view is returned *)
Theorem matrix_slice_order_irrelevant : forall mdims data off p p',
  NoDup (map fst p) -> Permutation p p' ->
  slice (RBase (RMat mdims data off)) p = slice (RBase (RMat mdims data off)) p'.
Proof. exact matrix_slice_order_irrelevant_l. Qed.

(* hash seed: the value of an expression relation with keyword mapping is the same for every
   iteration order of the expression's variable set *)
Theorem expr_value_set_order_irrelevant : forall params params' body vars d,
  Permutation params params' ->
  gv_dict (RBase (RFun (mkFn FExpr params body []) vars (ident_mapping vars) true)) d =
  gv_dict (RBase (RFun (mkFn FExpr params' body []) vars (ident_mapping vars) true)) d.
Proof. exact expr_value_set_order_irrelevant_l. Qed.

(* the constructors establish well-formedness, for any order of the variable list *)
Theorem mk_fun_wf : forall f vars fkw b,
  NoDup (map vname vars) -> NoDup (fparams f) -> ffixed f = [] ->
  (match fkw return Prop with
   | true => forall a, In a (map vname vars) <-> In a (fparams f)
   | false => List.length vars = List.length (fparams f)
   end) ->
  mk_fun f vars fkw = Ok b -> wf_b b.
Proof. exact mk_fun_wf_l. Qed.

Theorem mk_mat_wf : forall vars shape data b,
  NoDup (map vname vars) -> mk_mat vars shape data = Ok b -> wf_b b.
Proof. exact mk_mat_wf_l. Qed.

(* Conditional relations.  Full statement wanted (NOT proved):
     forall c t rn p r', wf_b c -> wf_b t -> NoDup (map fst p) -> slice (RCond c t rn) p = Ok r' ->
       Permutation (names r') (filter (fun n => negb (has_key n p)) (names (RCond c t rn))) /\
       forall d, (keys of d = names r') -> gv_dict r' d = gv_dict (RCond c t rn) (p ++ d)
   and call_forms_agree for RCond.  It is FALSE of the code for rn = false (next theorem).
   Proved parts: when p decides the condition (all its variables given) and it is true, the slice
   is the slice of the consequence on ITS variables of p (shared ones included) and agrees with
   the consequence on every completion; when it is false and return_neutral is set the result is
   the neutral relation on the remaining variables of the consequence.  Missing: the case where
   the condition stays undecided (RCond of the two slices) and the link between cond_gv_dict and
   the two call orders; these rest on the correspondence run only. *)
Theorem cond_slice_true_partial : forall c t rn p cv r',
  wf_b t -> NoDup (map fst p) ->
  List.length (cond_part c p) = List.length (bdims c) ->
  bcall_kw c (cond_part c p) = Ok cv -> truthy cv = true ->
  slice (RCond c t rn) p = Ok r' ->
  dims r' = remaining (cond_part t p) (bdims t) /\
  forall d, (forall k, In k (map fst d) -> In k (names r')) ->
            gv_dict r' d = bgv_dict t (cond_part t p ++ d).
Proof. exact cond_slice_true_spec_l. Qed.

Theorem cond_slice_false_neutral_partial : forall c t p cv,
  List.length (cond_part c p) = List.length (bdims c) ->
  bcall_kw c (cond_part c p) = Ok cv -> truthy cv = false ->
  slice (RCond c t true) p = Ok (RBase (RNeutral (remaining p (bdims t)))).
Proof. exact cond_slice_false_neutral_l. Qed.

(* known finding C11-cond-false-zeroary: with return_neutral = False a false condition yields
   ZeroAryRelation(0): the dimensions are NOT the remaining variables *)
Theorem cond_false_zeroary_refuted :
  exists c t p r', wf_b c /\ wf_b t /\ NoDup (map fst p) /\
    slice (RCond c t false) p = Ok r' /\
    names r' <> filter (fun n => negb (has_key n p)) (names (RCond c t false)).
Proof. exact cond_false_zeroary_refuted_l. Qed.

(* non-vacuity: 'v0 - 2*v1 + 5*v2' over the variables listed as [v2; v0; v1], the set iterating
   as [v0; v1; v2] (the order seen under PYTHONHASHSEED=2, where the unrepaired code answered 1):
   well-formed; sliced on v1=2 it depends on [v2; v0] and gives -3 on v0=1, v2=0 through every
   call form; slicing again on v0=1 works and gives the same; a 3x3 matrix likewise *)
Example c11_nonvacuous :
  let d := [0; 1; 2] in
  let e := EAdd (ESub (EV 0) (EMul (EC 2) (EV 1))) (EMul (EC 5) (EV 2)) in
  exists b b1 b2 m m1,
    mk_fun (mkFn FExpr [0; 1; 2] e []) [(2, d); (0, d); (1, d)] true = Ok b /\ wf_b b /\
    slice (RBase b) [(1, 2)] = Ok (RBase b1) /\ names (RBase b1) = [2; 0] /\
    call_kw (RBase b1) [(0, 1); (2, 0)] = Ok (-3) /\ call_pos (RBase b1) [0; 1] = Ok (-3) /\
    gv_dict (RBase b) [(1, 2); (0, 1); (2, 0)] = Ok (-3) /\
    slice (RBase b1) [(0, 1)] = Ok (RBase b2) /\ names (RBase b2) = [2] /\
    call_kw (RBase b2) [(2, 0)] = Ok (-3) /\
    mk_mat [(0, d); (1, d)] [3; 3]%nat [1; 2; 3; 4; 5; 6; 7; 8; 9] = Ok m /\ wf_b m /\
    slice (RBase m) [(1, 2)] = Ok (RBase m1) /\ call_pos (RBase m1) [1] = Ok 6 /\
    call_kw (RBase m) [(1, 2); (0, 1)] = Ok 6.
Proof.
  intros d e. do 5 eexists.
  split; [vm_compute; reflexivity|].
  split.
  { eapply (mk_fun_wf_l (mkFn FExpr [0; 1; 2] e []) [(2, d); (0, d); (1, d)] true); try reflexivity.
    - repeat constructor; simpl; intuition congruence.
    - repeat constructor; simpl; intuition congruence.
    - intros a; simpl; intuition. }
  split; [vm_compute; reflexivity|].
  split; [reflexivity|]. split; [reflexivity|]. split; [reflexivity|]. split; [reflexivity|].
  split; [vm_compute; reflexivity|].
  split; [reflexivity|]. split; [reflexivity|].
  split; [vm_compute; reflexivity|].
  split.
  { eapply (mk_mat_wf_l [(0, d); (1, d)] [3; 3]%nat [1; 2; 3; 4; 5; 6; 7; 8; 9]); [|reflexivity].
    repeat constructor; simpl; intuition congruence. }
  split; [vm_compute; reflexivity|].
  split; reflexivity.
Qed.

(* ======================= Deepening: conditional relations, all 8 kinds =======================
   (proofs in P_RelKinds2).  [wf_cond c t]: both parts well-formed and a variable name used by
   both denotes the same Variable (name and domain: Variable.__eq__).  [wf r] = wf_b / wf_cond.
   [complete_for d ns]: d is a dict (distinct keys) whose key set is exactly ns -- a completion.
   [neutral_ok r]: a conditional has return_neutral = True. *)

(* (1) the call forms of a ConditionalRelation agree (value or raised exception) on every full
   assignment given as keywords in any order *)
Theorem cond_call_forms_agree : forall c t rn vals kw,
  wf_cond c t -> List.length vals = List.length (dims (RCond c t rn)) ->
  Permutation kw (combine (names (RCond c t rn)) vals) ->
  call_kw (RCond c t rn) kw = call_pos (RCond c t rn) vals /\
  gv_dict (RCond c t rn) kw = call_pos (RCond c t rn) vals /\
  gv_list (RCond c t rn) vals = call_pos (RCond c t rn) vals /\
  (forall o, call_dictarg (RCond c t rn) kw = Some o -> o = call_pos (RCond c t rn) vals).
Proof. exact cond_call_forms_agree_l. Qed.

(* ... hence for all 8 kinds *)
Theorem call_forms_agree_all : forall r vals kw,
  wf r -> List.length vals = List.length (dims r) ->
  Permutation kw (combine (names r) vals) ->
  call_kw r kw = call_pos r vals /\ gv_dict r kw = call_pos r vals /\ gv_list r vals = call_pos r vals /\
  (forall o, call_dictarg r kw = Some o -> o = call_pos r vals).
Proof. exact call_forms_agree_all_l. Qed.

(* (2) slicing a conditional relation (return_neutral = True) on ANY partial assignment p,
   deciding the condition or not: the result is well-formed (a conditional again keeps
   return_neutral), its dimensions are exactly the remaining variables (a conditional lists its
   dimensions sorted by name, a sliced consequence in its own order: hence Permutation), and it
   agrees with the original on every completion *)
Theorem cond_slice_spec : forall c t p r',
  wf_cond c t -> NoDup (map fst p) -> slice (RCond c t true) p = Ok r' ->
  wf r' /\ neutral_ok r' /\
  Permutation (dims r') (remaining p (dims (RCond c t true))) /\
  forall d, complete_for d (names r') -> gv_dict r' d = gv_dict (RCond c t true) (p ++ d).
Proof. exact cond_slice_spec_l. Qed.

(* with return_neutral = False the same holds for every slice except the one of the known
   finding (condition decided and false), see cond_false_zeroary_refuted *)
Theorem cond_slice_spec_no_neutral : forall c t p r',
  wf_cond c t -> NoDup (map fst p) ->
  (forall cv, List.length (cond_part c p) = List.length (bdims c) ->
              bcall_kw c (cond_part c p) = Ok cv -> truthy cv = true) ->
  slice (RCond c t false) p = Ok r' ->
  wf r' /\
  Permutation (dims r') (remaining p (dims (RCond c t false))) /\
  forall d, complete_for d (names r') -> gv_dict r' d = gv_dict (RCond c t false) (p ++ d).
Proof. exact cond_slice_spec_no_neutral_l. Qed.

(* slice spec for every kind at once *)
Theorem slice_spec_all : forall r p r',
  wf r -> neutral_ok r -> NoDup (map fst p) -> slice r p = Ok r' ->
  wf r' /\ neutral_ok r' /\
  Permutation (dims r') (remaining p (dims r)) /\
  forall d, complete_for d (names r') -> gv_dict r' d = gv_dict r (p ++ d).
Proof. exact slice_spec_all_l. Qed.

(* (3) several steps = one step, including when the intermediate relation is a partially
   sliced conditional (nested) *)
Theorem cond_slice_compose : forall c t p1 p2 r1 r2 r12,
  wf_cond c t -> NoDup (map fst (p1 ++ p2)) ->
  slice (RCond c t true) p1 = Ok r1 -> slice r1 p2 = Ok r2 -> slice (RCond c t true) (p1 ++ p2) = Ok r12 ->
  (forall k, In k (map fst p2) -> In k (names r1)) ->
  Permutation (dims r12) (dims r2) /\
  forall d, complete_for d (names r2) -> gv_dict r12 d = gv_dict r2 d.
Proof. exact cond_slice_compose_l. Qed.

Theorem slice_compose_all : forall r p1 p2 r1 r2 r12,
  wf r -> neutral_ok r -> NoDup (map fst (p1 ++ p2)) ->
  slice r p1 = Ok r1 -> slice r1 p2 = Ok r2 -> slice r (p1 ++ p2) = Ok r12 ->
  (forall k, In k (map fst p2) -> In k (names r1)) ->
  Permutation (dims r12) (dims r2) /\
  forall d, complete_for d (names r2) -> gv_dict r12 d = gv_dict r2 d.
Proof. exact slice_compose_all_l. Qed.

(* non-vacuity of the conditional theorems: condition = 2x2 matrix over v0, v1 (true only on
   v0=1,v1=1), consequence 'v1 + 10*v2' (keyword mapping), sharing v1.  Slicing on v1=1 leaves the
   condition undecided: a conditional over [v0; v2]; then v0=1 decides it (true) and v0=0
   decides it (false: neutral relation over v2) *)
Example c11_cond_nonvacuous :
  let d := [0; 1] in
  let c := RMat [((0, d), 2%nat); ((1, d), 1%nat)] [0; 0; 0; 1] 0%nat in
  let e := EAdd (EV 1) (EMul (EC 10) (EV 2)) in
  let vt := [(2, d); (1, d)] in
  let t := RFun (mkFn FExpr [1; 2] e []) vt (ident_mapping vt) true in
  wf_cond c t /\ names (RCond c t true) = [0; 1; 2] /\
  call_kw (RCond c t true) [(2, 1); (0, 1); (1, 1)] = Ok 11 /\ call_pos (RCond c t true) [1; 1; 1] = Ok 11 /\
  call_pos (RCond c t true) [0; 1; 1] = Ok 0 /\
  exists sc st r2 r3,
    slice (RCond c t true) [(1, 1)] = Ok (RCond sc st true) /\ names (RCond sc st true) = [0; 2] /\
    gv_dict (RCond sc st true) [(2, 1); (0, 1)] = Ok 11 /\
    slice (RCond sc st true) [(0, 1)] = Ok r2 /\ names r2 = [2] /\ gv_dict r2 [(2, 1)] = Ok 11 /\
    slice (RCond sc st true) [(0, 0)] = Ok r3 /\ names r3 = [2] /\ gv_dict r3 [(2, 1)] = Ok 0.
Proof.
  intros d c e vt t. split.
  { split; [|split].
    - vm_compute. repeat constructor; simpl; intuition congruence.
    - simpl. split; [repeat constructor; simpl; intuition congruence|].
      split; [repeat constructor; simpl; intuition congruence|].
      split; [simpl; tauto|]. split; [reflexivity|]. intros a; simpl; intuition.
    - simpl. intros v v' [<-|[<-|[]]] [<-|[<-|[]]]; simpl; intros H; try discriminate; reflexivity. }
  split; [reflexivity|]. split; [reflexivity|]. split; [reflexivity|]. split; [reflexivity|].
  do 4 eexists. split; [vm_compute; reflexivity|].
  split; [reflexivity|]. split; [reflexivity|]. split; [vm_compute; reflexivity|].
  split; [reflexivity|]. split; [reflexivity|]. split; [vm_compute; reflexivity|].
  split; reflexivity.
Qed.

(* ======================= Deepening: exceptions (proofs in P_RelKinds3) =======================
   Which malformed slices / calls of a well-formed NON-conditional relation raise which
   exception, as equivalences (so every other slice / call succeeds).  The predicates are
   definitions by cases on the kind (P_RelKinds3), built from:
     unknown_key p ns      some key of p is not in ns
     missing_key d ns      some name of ns is not a key of d
     out_of_domain dims p  p gives some matrix dimension a value outside its domain
     not_single dims d     a dimension not in d has a domain that is not a singleton (.item())
     free_name f           the body of f uses a name that is not a parameter of f
     wrong_unary_slice v p p is one pair on another variable, or has >= 2 pairs
   slice_raises:   zero-ary: ValueError iff p <> {} | unary: ValueError iff wrong_unary_slice,
                   NameError iff p = {v: x} and the lambda has a free name | boolean: ValueError
                   iff wrong_unary_slice | function: ValueError iff unknown_key | matrix:
                   AttributeError iff unknown_key, else ValueError iff out_of_domain | neutral: never.
   gv_dict_raises: zero-ary: ValueError iff d <> {} | unary/boolean: KeyError iff its variable is
                   not in d (NameError: free name) | function: KeyError iff unknown_key, else
                   TypeError iff missing_key, else NameError iff free_name | matrix: AttributeError
                   iff unknown_key, else ValueError iff out_of_domain or not_single | neutral: never.
   gv_list_raises: zero-ary: ValueError iff l <> [] | unary/boolean: ValueError iff len(l) <> 1 |
                   function/matrix: IndexError iff more values than variables, else what the dict
                   form raises on the zipped prefix | neutral: never.
   call_kw_raises: unary/boolean: ValueError iff len(kw) <> 1, else as gv_dict; others as gv_dict. *)
Theorem slice_exceptions_spec : forall b p e,
  wf_b b -> NoDup (map fst p) -> (bslice b p = Err e <-> slice_raises b p e).
Proof. exact slice_exceptions_spec_l. Qed.

Theorem slice_succeeds_iff : forall b p,
  wf_b b -> NoDup (map fst p) -> ((exists b', bslice b p = Ok b') <-> forall e, ~ slice_raises b p e).
Proof. exact slice_succeeds_iff_l. Qed.

Theorem gv_dict_exceptions_spec : forall b d e,
  wf_b b -> NoDup (map fst d) -> (bgv_dict b d = Err e <-> gv_dict_raises b d e).
Proof. exact gv_dict_exceptions_spec_l. Qed.

Theorem gv_list_exceptions_spec : forall b l e,
  wf_b b -> (bgv_list b l = Err e <-> gv_list_raises b l e) /\ bcall_pos b l = bgv_list b l.
Proof. exact gv_list_exceptions_spec_l. Qed.

Theorem call_kw_exceptions_spec : forall b kw e,
  wf_b b -> NoDup (map fst kw) -> (bcall_kw b kw = Err e <-> call_kw_raises b kw e).
Proof. exact call_kw_exceptions_spec_l. Qed.

(* non-vacuity: each exception kind is reached on a well-formed relation *)
Example c11_exceptions_nonvacuous :
  let d := [0; 1] in
  let m := RMat [((0, d), 2%nat); ((1, d), 1%nat)] [0; 0; 0; 1] 0%nat in
  let vt := [(2, d); (1, d)] in
  let t := RFun (mkFn FExpr [1; 2] (EAdd (EV 1) (EV 2)) []) vt (ident_mapping vt) true in
  wf_b m /\ wf_b t /\
  bslice m [(7, 0)] = Err EAttr /\ bslice m [(0, 5)] = Err EValue /\ bslice t [(7, 0)] = Err EValue /\
  bgv_dict t [(1, 0)] = Err EType /\ bgv_dict t [(1, 0); (7, 0)] = Err EKey /\
  bgv_list t [0; 0; 0] = Err EIndex /\ bgv_dict m [(0, 1)] = Err EValue /\
  bslice (RUnary (0, d) 10 (EV 11)) [(0, 1)] = Err EName /\
  (exists b', bslice t [(1, 0)] = Ok b').
Proof.
  intros d m vt t. split; [vm_compute; repeat constructor; simpl; intuition congruence|].
  split.
  { simpl. split; [repeat constructor; simpl; intuition congruence|].
    split; [repeat constructor; simpl; intuition congruence|].
    split; [simpl; tauto|]. split; [reflexivity|]. intros a; simpl; intuition. }
  repeat (split; [vm_compute; reflexivity|]). eexists. vm_compute. reflexivity.
Qed.

(* ======================= Deepening: failures compose; conditionals' exceptions (P_RelKinds4) ===== *)
(* after a successful first step the second step raises e iff the one-step slice raises e:
   "in one step or several" also holds for the failures (non-conditional kinds) *)
Theorem slice_compose_exceptions : forall b p1 p2 b1 e,
  wf_b b -> NoDup (map fst (p1 ++ p2)) -> bslice b p1 = Ok b1 ->
  (bslice b1 p2 = Err e <-> bslice b (p1 ++ p2) = Err e).
Proof. exact slice_compose_exceptions_l. Qed.

Theorem slice_compose_succeeds : forall b p1 p2 b1,
  wf_b b -> NoDup (map fst (p1 ++ p2)) -> bslice b p1 = Ok b1 ->
  ((exists b2, bslice b1 p2 = Ok b2) <-> (exists b12, bslice b (p1 ++ p2) = Ok b12)).
Proof. exact slice_compose_succeeds_l. Qed.

(* exceptions of a conditional relation, in terms of the statements about its two parts:
   cond_slice_raises: p decides the condition -> what calling the condition on its share of p
   raises, or (condition true) what slicing the consequence on its share raises; undecided ->
   what slicing the condition / the consequence on their shares raises.  Keys of p in neither
   part never raise.  cond_gv_dict_raises: KeyError for a missing condition variable, what the
   condition raises, then (true) KeyError for a missing consequence variable, what it raises. *)
Theorem cond_slice_exceptions_spec : forall c t rn p e,
  wf_b c -> wf_b t -> NoDup (map fst p) ->
  (slice (RCond c t rn) p = Err e <-> cond_slice_raises c t p e).
Proof. exact cond_slice_exceptions_spec_l. Qed.

Theorem cond_gv_dict_exceptions_spec : forall c t rn d e,
  wf_b c -> wf_b t -> (gv_dict (RCond c t rn) d = Err e <-> cond_gv_dict_raises c t d e).
Proof. exact cond_gv_dict_exceptions_spec_l. Qed.

(* exact order of the dimensions after slicing a conditional (P_RelKinds5): a partially sliced
   conditional lists exactly the remaining dimensions of the original in the same (name) order;
   when the condition is decided (return_neutral = True) the result lists the remaining
   variables of the consequence in the consequence's own order -- this is why cond_slice_spec
   states a Permutation *)
Theorem cond_slice_dims_exact : forall c t rn p r',
  wf_b c -> wf_b t -> NoDup (map fst p) -> slice (RCond c t rn) p = Ok r' ->
  match r' with
  | RCond _ _ _ => dims r' = remaining p (dims (RCond c t rn))
  | RBase _ => rn = true -> dims r' = remaining p (bdims t)
  end.
Proof. exact cond_slice_dims_exact_l. Qed.
