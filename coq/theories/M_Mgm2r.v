(* M_Mgm2r.v -- round-level functional model of pydcop/algorithms/mgm2.py (Mgm2Computation), C03/C04.

   One complete MGM2 cycle of all computations as a function on total assignments: what the
   handlers of M_Mgm2.v compute when every node holds the values its neighbours had at the start
   of the cycle (value phase), then the offers computed from them (offer phase), the answers
   (answer? phase), the gains (gain phase) and the go / no-go of its partner (go? phase).
   Every node draws from its OWN oracle stream, in the order of the handlers:
     _handle_value_messages : uniform k (offerer iff k < thr); if offerer the rank of the partner
                              among the sorted neighbours; if the unilateral gain is improving the
                              index of the potential value among the best values;
     _handle_offer_messages : (non-offerer only) if the best offer ties the unilateral gain and
                              favor = "no" a uniform k (commit iff 500 < k); if committed the rank
                              of the accepted offer among the sorted best offers.
   The offers of the offering neighbours are evaluated in ascending order of the offerers; the
   handlers evaluate them in arrival order: the best gain and the SET of best offers do not depend on
   that order and the list is sorted before the draw (as the driver's logged rank is).
   Nodes without neighbour do not take part in cycles.
   Models only; proofs are in P_Mgm2r.v.  The refinement "asynchronous handlers = mgm2_next at every
   cycle boundary" is not proved; it is checked by [r2check_case] on the real executions. *)
From PyDcop Require Import Base Net M_Mgm M_Mgm2.

Section Round2.
  Variable d : dcop.
  Variable thr : Z.              (* threshold * 1000 *)
  Variable favor : Z.            (* 0 unilateral, 1 no, 2 coordinated *)
  Variable a : Z -> Z.           (* the assignment at the start of the cycle *)
  Variable orc : Z -> list Z.    (* remaining draws of every node at the start of the cycle *)
  Let mx := d_max d.

  (* ---------------------------------------------------------------- value phase *)
  (* _current_local_cost: the node's constraints and the cost of its own value *)
  Definition r2_cost (n : Z) : Z := local_at d n a.
  Definition r2_offerer (n : Z) : bool := fst (draw (orc n)) <? thr.
  (* the partner chosen by an offerer *)
  Definition r2_choice (n : Z) : option Z :=
    if r2_offerer n then Some (choose (nbrs d n) (fst (draw (snd (draw (orc n))))) 0) else None.
  Definition r2_orc1 (n : Z) : list Z :=
    let o1 := snd (draw (orc n)) in if r2_offerer n then snd (draw o1) else o1.
  (* _compute_best_value *)
  Definition r2_ubest (n : Z) : list Z * Z :=
    find_arg_optimal mx (fun x => local_at d n (fupd a n x)) (dom_of d n).
  Definition r2_ugain (n : Z) : Z := r2_cost n - snd (r2_ubest n).
  Definition r2_uimproving (n : Z) : bool := if mx then r2_ugain n <? 0 else 0 <? r2_ugain n.
  (* the draw used for the potential value, if one is taken *)
  Definition r2_dr (n : Z) : Z := fst (draw (r2_orc1 n)).
  Definition r2_uval (n : Z) : Z :=
    if r2_uimproving n then choose (fst (r2_ubest n)) (r2_dr n) (a n) else a n.
  Definition r2_orc2 (n : Z) : list Z := if r2_uimproving n then snd (draw (r2_orc1 n)) else r2_orc1 n.

  (* _compute_offers_to_send of offerer o for partner p: (o's value, p's value, o's local gain) *)
  Definition r2_offer_gain (o p vo vp : Z) : Z := r2_cost o - local_at d o (fupd (fupd a p vp) o vo).
  Definition r2_offers (o p : Z) : list (Z * Z * Z) :=
    flat_map (fun dp => flat_map (fun ds =>
        if better mx (local_at d o (fupd (fupd a p dp) o ds)) (r2_cost o)
        then [(ds, dp, r2_offer_gain o p ds dp)] else []) (dom_of d o)) (dom_of d p).

  (* ---------------------------------------------------------------- offer phase (non-offerer) *)
  (* the neighbours that made an offer to n *)
  Definition r2_offerers (n : Z) : list Z :=
    filter (fun o => match r2_choice o with Some p => p =? n | None => false end) (nbrs d n).
  (* the "global gain" _find_best_offer attributes to the offer (vo, vp) of o with local gain pg:
     p's FULL current cost, minus p's constraints NOT shared with o under the new values, plus pg *)
  Definition r2_claimed (p o vo vp pg : Z) : Z :=
    r2_cost p
    - cost_at (filter (fun c => negb (zmem o (c_scope c))) (cons_of d p)) (fupd (fupd a o vo) p vp)
    + pg.
  (* _find_best_offer: best offers as (offerer's value, own value, offerer) and their gain *)
  Definition r2_best_offer (n : Z) : list (Z * Z * Z) * Z :=
    fold_left (fun acc o =>
      fold_left (fun acc2 ofr =>
        let '(vo, vme, pg) := ofr in
        let '(bests, best) := acc2 in
        let gg := r2_claimed n o vo vme pg in
        if (if mx then gg <? best else best <? gg) then ([(vo, vme, o)], gg)
        else if gg =? best then (bests ++ [(vo, vme, o)], best)
        else acc2) (r2_offers o n) acc) (r2_offerers n) ([], 0).
  (* commit to a coordinated move? *)
  Definition r2_decide (n : Z) : bool * list Z :=
    let '(bests, gain) := r2_best_offer n in
    let o0 := r2_orc2 n in
    if (gain =? 0) || (match bests with [] => true | _ => false end) then (false, o0)
    else if (if mx then gain <? r2_ugain n else r2_ugain n <? gain) then (true, o0)
    else if gain =? r2_ugain n then
      if favor =? 2 then (true, o0)
      else if favor =? 1 then let '(k, o) := draw o0 in (500 <? k, o)
      else (false, o0)
    else (false, o0).
  (* the accepted offer, drawn among the sorted best offers *)
  Definition r2_accept (n : Z) : option (Z * Z * Z) * list Z :=
    let '(c, o1) := r2_decide n in
    if c then
      let '(x, o) := draw o1 in
      let sorted := isort t3_leb (fst (r2_best_offer n)) in
      (Some (nth (Z.to_nat (x mod (zlen sorted))) sorted (0, 0, 0)), o)
    else (None, o1).
  Definition r2_acc (n : Z) : option (Z * Z * Z) := if r2_offerer n then None else fst (r2_accept n).
  Definition r2_orc_end (n : Z) : list Z := if r2_offerer n then r2_orc2 n else snd (r2_accept n).

  (* ---------------------------------------------------------------- answer? phase (offerer) *)
  (* the answer the offerer o gets: its partner accepted ITS offer *)
  Definition r2_accepted_by (o : Z) : option (Z * Z * Z) :=
    match r2_choice o with
    | Some p => match r2_acc p with
                | Some (vo, vp, o') => if o' =? o then Some (vo, vp, p) else None
                | None => None
                end
    | None => None
    end.

  (* ---------------------------------------------------------------- state when the gains are sent *)
  Definition r2_partner (n : Z) : option Z :=
    if r2_offerer n then r2_choice n
    else match r2_acc n with Some (_, _, o) => Some o | None => None end.
  Definition r2_committed (n : Z) : bool :=
    if r2_offerer n then match r2_accepted_by n with Some _ => true | None => false end
    else match r2_acc n with Some _ => true | None => false end.
  Definition r2_pgain (n : Z) : Z :=
    if r2_offerer n then match r2_accepted_by n with Some (_, _, p) => snd (r2_best_offer p) | None => r2_ugain n end
    else match r2_acc n with Some _ => snd (r2_best_offer n) | None => r2_ugain n end.
  Definition r2_pval (n : Z) : Z :=
    if r2_offerer n then match r2_accepted_by n with Some (vo, _, _) => vo | None => r2_uval n end
    else match r2_acc n with Some (_, vme, _) => vme | None => r2_uval n end.

  (* ---------------------------------------------------------------- gain and go? phases *)
  Definition r2_ng (n : Z) : list (Z * Z) := map (fun m => (m, r2_pgain m)) (nbrs d n).
  (* committed: GO iff the pair gain is strictly the best among the OTHER neighbours' gains *)
  Definition r2_go (n : Z) : bool :=
    negb (r2_pgain n =? 0) && r2_committed n &&
    match r2_partner n with
    | None => false
    | Some p =>
        let others := map snd (filter (fun q => negb (fst q =? p)) (r2_ng n)) in
        match others with
        | [] => true
        | _ => if mx then r2_pgain n <? bestl d others else bestl d others <? r2_pgain n
        end
    end.
  (* not committed: strict best, or tie won lexically *)
  Definition r2_umoves (n : Z) : bool :=
    let mxn := bestl d (map snd (r2_ng n)) in
    (if mx then r2_pgain n <? mxn else mxn <? r2_pgain n)
    || ((r2_pgain n =? mxn) && forallb (fun q => negb (snd q =? mxn) || (n <? fst q)) (r2_ng n)).
  Definition r2_moves (n : Z) : bool :=
    r_active d n && negb (r2_pgain n =? 0) &&
    (if r2_committed n
     then match r2_partner n with Some p => r2_go n && r2_go p | None => false end
     else r2_umoves n).

  Definition mgm2_next : Z -> Z := fun v => if r2_moves v then r2_pval v else a v.
  Definition mgm2_next_orc : Z -> list Z := fun v => if r_active d v then r2_orc_end v else orc v.
End Round2.

(* the constraints of p whose scope also holds o: _find_best_offer leaves their CURRENT cost in the
   gain it attributes to an offer of o (P_Mgm2r.mgm2_coordinated_gain_error_l) *)
Definition shared_cons (d : dcop) (p o : Z) : list constr :=
  filter (fun c => zmem o (c_scope c)) (cons_of d p).

(* executable form on association lists, with per-node draw streams *)
Definition round2_exec (d : dcop) (thr favor : Z) (al : list (Z * Z)) (orcs : list (Z * list Z))
  : list (Z * Z) * list (Z * list Z) :=
  let a := aget al in
  let orc := orc_of orcs in
  (map (fun p => (fst p, mgm2_next d thr favor a orc (fst p))) al,
   map (fun p => (fst p, mgm2_next_orc d thr favor a orc (fst p))) orcs).

Fixpoint rounds2_check (d : dcop) (thr favor : Z) (al : list (Z * Z)) (orcs : list (Z * list Z))
                       (obs : list (list (Z * Z))) : bool :=
  match obs with
  | [] => true
  | o :: r => let '(al', orcs') := round2_exec d thr favor al orcs in
              list_eqb (pair_eqb Z.eqb Z.eqb) al' o && rounds2_check d thr favor al' orcs' r
  end.

(* round-level correspondence: from the observed initial assignment, with the observed draws of
   every node (the draw spent on the initial value removed), iterating [round2_exec] reproduces the
   assignment observed at every cycle boundary of the real asynchronous run *)
Record r2case := mkR2Case {
  r2_dcop : dcop; r2_thr : Z; r2_favor : Z;
  r2_init : list (Z * Z);                 (* observed assignment before the first cycle *)
  r2_orcs : list (Z * list Z);            (* draws of every node from its first cycle on *)
  r2_obs : list (list (Z * Z))            (* observed assignment after cycle 1, 2, ... *)
}.
Definition r2check_case (c : r2case) : bool :=
  wf_dcop (r2_dcop c) && rounds2_check (r2_dcop c) (r2_thr c) (r2_favor c) (r2_init c) (r2_orcs c) (r2_obs c).
