(* P_IlpRows2.v -- proofs about the row-level model of ilp_fgdp.factor_graph_lp_model
   (M_IlpRows, C24): the linearisation rows force every alpha to the product of the "is on agent k"
   indicators of its variable and factor ends (pre-hosted ends included); a 0/1 vector satisfies
   the rows iff it is the indicator of a distribution meeting the method's hard rules; the solver
   as an oracle on the rows returns a cost-minimal distribution. *)
From PyDcop Require Import Base M_Dist M_Ilp P_Ilp M_IlpRows P_IlpRows P_IlpRowsObj.
From Coq Require Import ZifyBool.

(* ------------------------------------------------------------------ (1) linearisation rows *)
(* "end i is on agent k", as the rows see it: the x / f variable when the computation is to be
   hosted, the agent it was pre-hosted on (zero hosting cost) otherwise *)
Definition on_var (I : inst) (s : assignment) (i k : Z) : bool :=
  if zmem i (vars_to_host I) then s (VX i k) else fixed_agent I i =? k.
Definition on_fac (I : inst) (s : assignment) (j k : Z) : bool :=
  if zmem j (facs_to_host I) then s (VF j k) else fixed_agent I j =? k.
Definition alpha_product (I : inst) (s : assignment) (l : list Z) (k : Z) : Prop :=
  s (VA (fst (orient I l)) (snd (orient I l)) k)
  = on_var I s (fst (orient I l)) k && on_fac I s (snd (orient I l)) k.

Lemma lin_rows_spec I s l k : rows_sat s (lin_rows I l k) = true <-> alpha_product I s l k.
Proof.
  unfold alpha_product, lin_rows, on_var, on_fac. destruct (orient I l) as [i j]. simpl fst. simpl snd.
  destruct (zmem i (vars_to_host I)), (zmem j (facs_to_host I)); simpl andb; cbv iota.
  - unfold rows_sat, row_sat, lin_eval; simpl.
    destruct (s (VA i j k)), (s (VX i k)), (s (VF j k)); simpl; split; congruence.
  - destruct (fixed_agent I j =? k); unfold rows_sat, row_sat, lin_eval; simpl;
      destruct (s (VA i j k)), (s (VX i k)); simpl; split; congruence.
  - destruct (fixed_agent I i =? k); unfold rows_sat, row_sat, lin_eval; simpl;
      destruct (s (VA i j k)), (s (VF j k)); simpl; split; congruence.
  - destruct (fixed_agent I i =? k), (fixed_agent I j =? k); unfold rows_sat, row_sat, lin_eval; simpl;
      destruct (s (VA i j k)); simpl; split; congruence.
Qed.

Definition alphas_products (G : ginst) (s : assignment) : Prop :=
  forall l g, In l (g_links G) -> In g (i_agents (g_inst G)) -> alpha_product (g_inst G) s l (g_id g).

Lemma lin_part_sat G s :
  rows_sat s (flat_map (fun l => flat_map (fun g => lin_rows (g_inst G) l (g_id g)) (i_agents (g_inst G)))
                       (g_links G)) = true <-> alphas_products G s.
Proof.
  rewrite rows_sat_flat_map. unfold alphas_products. split.
  - intros H l g Hl Hg. specialize (H l Hl). rewrite rows_sat_flat_map in H.
    apply lin_rows_spec. auto.
  - intros H l Hl. apply rows_sat_flat_map. intros g Hg. apply lin_rows_spec. auto.
Qed.

Definition fg_hosted_v (I : inst) := map (fun i => mkLRow (map (fun g => (VX i (g_id g), 1)) (i_agents I)) 0 1) (vars_to_host I).
Definition fg_hosted_f (I : inst) := map (fun j => mkLRow (map (fun g => (VF j (g_id g), 1)) (i_agents I)) 0 1) (facs_to_host I).
Definition fg_atleast (I : inst) :=
  map (fun g => mkLRow (map (fun i => (VX i (g_id g), 1)) (vars_to_host I)
                        ++ map (fun j => (VF j (g_id g), 1)) (facs_to_host I)) 1 1)
      (filter (fun g => match must_host_of I g with [] => true | _ => false end) (i_agents I)).
Definition fg_memory (I : inst) :=
  map (fun g => mkLRow (map (fun i => (VX i (g_id g), fp_of I i)) (vars_to_host I)
                        ++ map (fun j => (VF j (g_id g), fp_of I j)) (facs_to_host I))
                       (-1) (g_cap g - zsum (map (fp_of I) (must_host_of I g))))
      (i_agents I).

Lemma fgdp_rows_split G s :
  rows_sat s (fgdp_rows_of G) = true <->
  rows_sat s (fg_hosted_v (g_inst G)) = true /\ rows_sat s (fg_hosted_f (g_inst G)) = true /\
  rows_sat s (fg_atleast (g_inst G)) = true /\ rows_sat s (fg_memory (g_inst G)) = true /\
  alphas_products G s.
Proof.
  unfold fgdp_rows_of. cbv zeta. rewrite !rows_sat_app, !andb_true_iff, lin_part_sat.
  unfold fg_hosted_v, fg_hosted_f, fg_atleast, fg_memory. tauto.
Qed.

(* (1) the rows force each alpha to the product; no hypothesis on the instance *)
Lemma fgdp_rows_force_product_l G s :
  rows_sat s (fgdp_rows_of G) = true -> alphas_products G s.
Proof. intros H. apply fgdp_rows_split in H. tauto. Qed.

(* ------------------------------------------------------------------ sums *)
Lemma zsum_filter_if {A} (T : A -> Z) (P : A -> bool) l :
  zsum (map T (filter P l)) = zsum (map (fun x => if P x then T x else 0) l).
Proof. induction l as [|x l IH]; simpl; auto. destruct (P x); simpl; lia. Qed.

Lemma zsum_map_add {A} (f g : A -> Z) l :
  zsum (map f l) + zsum (map g l) = zsum (map (fun x => f x + g x) l).
Proof. induction l as [|x l IH]; simpl; lia. Qed.

Lemma zsum_map_opp {A} (f : A -> Z) l : zsum (map (fun x => - f x) l) = - zsum (map f l).
Proof. induction l as [|x l IH]; simpl; lia. Qed.

Lemma zsum01_nonneg {A} (T : A -> Z) l : (forall x, In x l -> T x = 0 \/ T x = 1) ->
  0 <= zsum (map T l).
Proof.
  induction l as [|y l IHl]; intros H; simpl; [lia|].
  pose proof (IHl (fun z Hz => H z (or_intror Hz))). destruct (H y (or_introl eq_refl)); lia.
Qed.

Lemma zsum01_ge1 {A} (T : A -> Z) l : (forall x, In x l -> T x = 0 \/ T x = 1) ->
  (1 <= zsum (map T l) <-> exists x, In x l /\ T x = 1).
Proof.
  induction l as [|x l IH]; intros H; simpl.
  - split; [lia|]. intros [x [[] _]].
  - assert (IH' := IH (fun y Hy => H y (or_intror Hy))).
    pose proof (zsum01_nonneg T l (fun y Hy => H y (or_intror Hy))) as Hnn.
    destruct (H x (or_introl eq_refl)) as [E|E]; rewrite E; split.
    + intros Hs. assert (H1 : 1 <= zsum (map T l)) by lia. apply IH' in H1 as [y [Hy Ey]]. eauto.
    + intros [y [[<-|Hy] Ey]]; [lia|]. assert (1 <= zsum (map T l)) by (apply IH'; eauto). lia.
    + intros _. exists x. auto.
    + intros _. lia.
Qed.

Lemma NoDup_map_inj {A} (f : A -> Z) l x y :
  NoDup (map f l) -> In x l -> In y l -> f x = f y -> x = y.
Proof.
  induction l as [|z l IH]; simpl; intros Hnd Hx Hy E; [destruct Hx|].
  inversion Hnd as [|? ? Hnin Hnd']; subst.
  destruct Hx as [->|Hx], Hy as [->|Hy]; auto.
  - exfalso. apply Hnin. rewrite E. now apply in_map.
  - exfalso. apply Hnin. rewrite <- E. now apply in_map.
Qed.

(* ------------------------------------------------------------------ pre-hosted computations *)
Record fg_wf (G : ginst) : Prop := mkFgWf {
  wf_agents : NoDup (agent_ids (g_inst G));
  wf_nodes : NoDup (node_ids (g_inst G));
  wf_kinds : forall nd, In nd (i_nodes (g_inst G)) -> n_kind nd = 0 \/ n_kind nd = 1;
  wf_noconf : fixed_conflict (g_inst G) = false }.

Lemma in_fixed_pairs I c a :
  In (c, a) (fixed_pairs I) <->
  exists g nd, In g (i_agents I) /\ In nd (i_nodes I) /\ hosting_cost g (n_id nd) = 0 /\
               c = n_id nd /\ a = g_id g.
Proof.
  unfold fixed_pairs, must_host_of. rewrite in_flat_map. split.
  - intros [g [Hg H]]. apply in_map_iff in H as [c' [E H]]. inversion E; subst.
    apply in_map_iff in H as [nd [<- H]]. apply filter_In in H as [Hn Hc].
    exists g, nd. repeat split; auto. lia.
  - intros (g & nd & Hg & Hn & E & -> & ->). exists g. split; auto.
    apply in_map_iff. exists (n_id nd). split; auto. apply in_map_iff. exists nd. split; auto.
    apply filter_In. split; auto. lia.
Qed.

Lemma is_fixed_iff I c : is_fixed I c = true <-> exists a, In (c, a) (fixed_pairs I).
Proof.
  unfold is_fixed. rewrite zmem_In, in_map_iff. split.
  - intros [[c' a] [E H]]. simpl in E. subst. eauto.
  - intros [a H]. exists (c, a). auto.
Qed.

Lemma nodup_lookup (l : list (Z * Z)) c a :
  nodupb Z.eqb (map fst l) = true -> In (c, a) l -> zlookup c l = Some a.
Proof.
  induction l as [|[c' a'] l IH]; simpl; intros Hn Hin; [destruct Hin|].
  apply andb_true_iff in Hn as [Hn1 Hn2]. unfold zlookup. simpl. destruct Hin as [E|Hin].
  - inversion E; subst. now rewrite Z.eqb_refl.
  - destruct (c =? c') eqn:Ec.
    + apply Z.eqb_eq in Ec. subst. exfalso. apply negb_true_iff in Hn1.
      assert (existsb (Z.eqb c') (map fst l) = true); [|congruence].
      apply existsb_exists. exists c'. split; [|apply Z.eqb_refl].
      apply in_map_iff. exists (c', a). auto.
    + apply IH; auto.
Qed.

Lemma fixed_agent_of I c a :
  fixed_conflict I = false -> In (c, a) (fixed_pairs I) -> fixed_agent I c = a.
Proof.
  unfold fixed_agent, fixed_conflict. intros Hc Hin. apply negb_false_iff in Hc.
  now rewrite (nodup_lookup _ c a Hc Hin).
Qed.

Lemma zero_cost_fixed I g nd : fixed_conflict I = false ->
  In g (i_agents I) -> In nd (i_nodes I) -> hosting_cost g (n_id nd) = 0 ->
  is_fixed I (n_id nd) = true /\ fixed_agent I (n_id nd) = g_id g.
Proof.
  intros Hc Hg Hn E.
  assert (Hin : In (n_id nd, g_id g) (fixed_pairs I)) by (apply in_fixed_pairs; exists g, nd; auto).
  split; [apply is_fixed_iff; eauto | now apply fixed_agent_of].
Qed.

Lemma fixed_zero_cost I c : fixed_conflict I = false -> is_fixed I c = true ->
  exists g nd, In g (i_agents I) /\ In nd (i_nodes I) /\ hosting_cost g (n_id nd) = 0 /\
               c = n_id nd /\ fixed_agent I c = g_id g.
Proof.
  intros Hc H. apply is_fixed_iff in H as [a H]. pose proof (fixed_agent_of I c a Hc H) as E.
  apply in_fixed_pairs in H as (g & nd & Hg & Hn & E0 & -> & ->). exists g, nd. auto.
Qed.

Lemma fp_of_node I nd : NoDup (node_ids I) -> In nd (i_nodes I) -> fp_of I (n_id nd) = n_fp nd.
Proof.
  intros Hnd Hn. unfold fp_of, node_of.
  destruct (find (fun nd' => n_id nd' =? n_id nd) (i_nodes I)) as [nd'|] eqn:E.
  - apply find_some in E as [Hn' E]. apply Z.eqb_eq in E.
    now rewrite (NoDup_map_inj n_id _ nd' nd Hnd Hn' Hn E).
  - pose proof (find_none _ _ E nd Hn) as H. simpl in H. rewrite Z.eqb_refl in H. discriminate.
Qed.

(* ------------------------------------------------------------------ decoding *)
Definition node_var (s : assignment) (nd : node) (a : Z) : bool :=
  if n_kind nd =? 0 then s (VX (n_id nd) a) else s (VF (n_id nd) a).
Definition nf_indicator (I : inst) (s : assignment) (D : list (Z * Z)) : Prop :=
  forall nd g, In nd (i_nodes I) -> In g (i_agents I) -> is_fixed I (n_id nd) = false ->
    node_var s nd (g_id g) = (dget D (n_id nd) =? g_id g).
Definition fixed_ok (I : inst) (D : list (Z * Z)) : Prop :=
  forall nd, In nd (i_nodes I) -> is_fixed I (n_id nd) = true ->
    dget D (n_id nd) = fixed_agent I (n_id nd).
Definition nf_valid (I : inst) (D : list (Z * Z)) : Prop :=
  forall nd, In nd (i_nodes I) -> is_fixed I (n_id nd) = false ->
    exists g, In g (i_agents I) /\ dget D (n_id nd) = g_id g.

Lemma dget_map_nodes2 (F : node -> Z) nodes nd : NoDup (map n_id nodes) -> In nd nodes ->
  dget (map (fun nd => (n_id nd, F nd)) nodes) (n_id nd) = F nd.
Proof.
  unfold dget, zlookup. induction nodes as [|n0 nodes IH]; intros Hnd H; [destruct H|]. simpl.
  inversion Hnd as [|? ? Hnin Hnd']; subst.
  destruct (n_id nd =? n_id n0) eqn:E.
  - apply Z.eqb_eq in E. destruct H as [->|H]; auto. exfalso. apply Hnin. rewrite <- E. now apply in_map.
  - destruct H as [->|H]; [rewrite Z.eqb_refl in E; discriminate|]. now apply IH.
Qed.

Lemma dget_fgdp_decode G s nd : NoDup (node_ids (g_inst G)) -> In nd (i_nodes (g_inst G)) ->
  dget (fgdp_decode G s) (n_id nd) = fgdp_decode_agent (g_inst G) s nd.
Proof. intros. unfold fgdp_decode. now apply (dget_map_nodes2 (fgdp_decode_agent (g_inst G) s)). Qed.

Lemma fixed_ok_decode G s : NoDup (node_ids (g_inst G)) -> fixed_ok (g_inst G) (fgdp_decode G s).
Proof.
  intros Hnd nd Hn Hf. rewrite dget_fgdp_decode; auto. unfold fgdp_decode_agent. now rewrite Hf.
Qed.

(* ------------------------------------------------------------------ "hosted once" rows *)
Lemma once_row_sat (X : Z -> Z -> lvar) agents s c : NoDup (map g_id agents) ->
  (row_sat s (mkLRow (map (fun g => (X c (g_id g), 1)) agents) 0 1) = true <->
   exists g, In g agents /\ forall g', In g' agents -> s (X c (g_id g')) = (g_id g =? g_id g')).
Proof.
  intros Hnd. unfold row_sat. cbn [lr_sense lr_rhs lr_coefs]. rewrite lin_eval_map.
  cbn [fst snd]. change (0 =? 0) with true. cbv iota. rewrite Z.eqb_eq.
  rewrite (map_ext _ (fun g => b2z (s (X c (g_id g))))) by (intros; apply Z.mul_1_l).
  apply hosted_sum_spec; auto.
Qed.

Lemma in_vars_to_host I i :
  In i (vars_to_host I) <-> exists nd, In nd (i_nodes I) /\ n_id nd = i /\ n_kind nd = 0 /\ is_fixed I i = false.
Proof.
  unfold vars_to_host. rewrite in_map_iff. split.
  - intros [nd [<- H]]. apply filter_In in H as [Hn H]. apply andb_true_iff in H as [H1 H2].
    exists nd. repeat split; auto; [lia|]. now apply negb_true_iff.
  - intros (nd & Hn & <- & Hk & Hf). exists nd. split; auto. apply filter_In. split; auto.
    rewrite Hf. simpl. lia.
Qed.

Lemma in_facs_to_host I j :
  In j (facs_to_host I) <-> exists nd, In nd (i_nodes I) /\ n_id nd = j /\ n_kind nd = 1 /\ is_fixed I j = false.
Proof.
  unfold facs_to_host. rewrite in_map_iff. split.
  - intros [nd [<- H]]. apply filter_In in H as [Hn H]. apply andb_true_iff in H as [H1 H2].
    exists nd. repeat split; auto; [lia|]. now apply negb_true_iff.
  - intros (nd & Hn & <- & Hk & Hf). exists nd. split; auto. apply filter_In. split; auto.
    rewrite Hf. simpl. lia.
Qed.

Lemma node_var_kind0 s nd a : n_kind nd = 0 -> node_var s nd a = s (VX (n_id nd) a).
Proof. intros H. unfold node_var. now rewrite H. Qed.
Lemma node_var_kind1 s nd a : n_kind nd = 1 -> node_var s nd a = s (VF (n_id nd) a).
Proof. intros H. unfold node_var. now rewrite H. Qed.

Lemma hosted_node_sat G s nd : fg_wf G -> In nd (i_nodes (g_inst G)) ->
  is_fixed (g_inst G) (n_id nd) = false ->
  rows_sat s (fg_hosted_v (g_inst G)) = true -> rows_sat s (fg_hosted_f (g_inst G)) = true ->
  exists g, In g (i_agents (g_inst G)) /\
    forall g', In g' (i_agents (g_inst G)) -> node_var s nd (g_id g') = (g_id g =? g_id g').
Proof.
  intros W Hn Hf Hv Hfa. destruct (wf_kinds G W nd Hn) as [Hk|Hk].
  - rewrite rows_sat_forall in Hv.
    assert (Hr : In (n_id nd) (vars_to_host (g_inst G))) by (apply in_vars_to_host; exists nd; auto).
    specialize (Hv _ (in_map _ _ _ Hr)). apply once_row_sat in Hv; [|apply (wf_agents G W)].
    destruct Hv as [g [Hg Hind]]. exists g. split; auto. intros g' Hg'.
    rewrite node_var_kind0; auto.
  - rewrite rows_sat_forall in Hfa.
    assert (Hr : In (n_id nd) (facs_to_host (g_inst G))) by (apply in_facs_to_host; exists nd; auto).
    specialize (Hfa _ (in_map _ _ _ Hr)). apply once_row_sat in Hfa; [|apply (wf_agents G W)].
    destruct Hfa as [g [Hg Hind]]. exists g. split; auto. intros g' Hg'.
    rewrite node_var_kind1; auto.
Qed.

Lemma hosted_fg_ind G s : fg_wf G ->
  rows_sat s (fg_hosted_v (g_inst G)) = true -> rows_sat s (fg_hosted_f (g_inst G)) = true ->
  nf_indicator (g_inst G) s (fgdp_decode G s) /\ nf_valid (g_inst G) (fgdp_decode G s).
Proof.
  intros W Hv Hfa.
  assert (H : forall nd, In nd (i_nodes (g_inst G)) -> is_fixed (g_inst G) (n_id nd) = false ->
            exists g, In g (i_agents (g_inst G)) /\ dget (fgdp_decode G s) (n_id nd) = g_id g /\
              forall g', In g' (i_agents (g_inst G)) -> node_var s nd (g_id g') = (g_id g =? g_id g')).
  { intros nd Hn Hf. destruct (hosted_node_sat G s nd W Hn Hf Hv Hfa) as [g [Hg Hind]].
    exists g. repeat split; auto. rewrite dget_fgdp_decode; auto; [|apply (wf_nodes G W)].
    unfold fgdp_decode_agent. rewrite Hf.
    destruct (find _ (i_agents (g_inst G))) as [g'|] eqn:E.
    - apply find_some in E as [Hg' E]. change (node_var s nd (g_id g') = true) in E.
      rewrite (Hind g' Hg') in E. lia.
    - pose proof (find_none _ _ E g Hg) as H. change (node_var s nd (g_id g) = false) in H.
      rewrite (Hind g Hg), Z.eqb_refl in H. discriminate. }
  split.
  - intros nd g' Hn Hg' Hf. destruct (H nd Hn Hf) as [g [Hg [E Hind]]]. rewrite E. auto.
  - intros nd Hn Hf. destruct (H nd Hn Hf) as [g [Hg [E _]]]. eauto.
Qed.

Lemma hosted_fg_sat G s D : fg_wf G -> nf_indicator (g_inst G) s D -> nf_valid (g_inst G) D ->
  rows_sat s (fg_hosted_v (g_inst G)) = true /\ rows_sat s (fg_hosted_f (g_inst G)) = true.
Proof.
  intros W Hi Hv. split; apply rows_sat_forall; intros r Hr; apply in_map_iff in Hr as [c [<- Hc]].
  - apply in_vars_to_host in Hc as (nd & Hn & <- & Hk & Hf).
    apply once_row_sat; [apply (wf_agents G W)|]. destruct (Hv nd Hn Hf) as [g [Hg E]].
    exists g. split; auto. intros g' Hg'. rewrite <- node_var_kind0, (Hi nd g' Hn Hg' Hf), E; auto.
  - apply in_facs_to_host in Hc as (nd & Hn & <- & Hk & Hf).
    apply once_row_sat; [apply (wf_agents G W)|]. destruct (Hv nd Hn Hf) as [g [Hg E]].
    exists g. split; auto. intros g' Hg'. rewrite <- node_var_kind1, (Hi nd g' Hn Hg' Hf), E; auto.
Qed.

(* ------------------------------------------------------------------ sums over the x / f variables *)
Lemma nf_sum G s D (wv : Z -> Z) g : fg_wf G -> nf_indicator (g_inst G) s D ->
  In g (i_agents (g_inst G)) ->
  lin_eval s (map (fun i => (VX i (g_id g), wv i)) (vars_to_host (g_inst G))
              ++ map (fun j => (VF j (g_id g), wv j)) (facs_to_host (g_inst G)))
  = zsum (map (fun nd => if is_fixed (g_inst G) (n_id nd) then 0
                         else wv (n_id nd) * b2z (dget D (n_id nd) =? g_id g)) (i_nodes (g_inst G))).
Proof.
  intros W Hi Hg. rewrite lin_eval_app, !lin_eval_map. cbn [fst snd].
  unfold vars_to_host, facs_to_host. rewrite !map_map, !zsum_filter_if, zsum_map_add.
  apply zsum_map_ext_in. intros nd Hn.
  destruct (is_fixed (g_inst G) (n_id nd)) eqn:Hf; simpl.
  - rewrite !andb_false_r. lia.
  - rewrite !andb_true_r. rewrite <- (Hi nd g Hn Hg Hf).
    destruct (wf_kinds G W nd Hn) as [Hk|Hk]; unfold node_var; rewrite Hk; simpl; lia.
Qed.

(* ------------------------------------------------------------------ at-least-one rows *)
Lemma atleast_sat G s D : fg_wf G -> nf_indicator (g_inst G) s D -> fixed_ok (g_inst G) D ->
  (rows_sat s (fg_atleast (g_inst G)) = true <-> all_host (g_inst G) D = true).
Proof.
  intros W Hi Hfx. set (I := g_inst G) in *.
  assert (Hrow : forall g, In g (i_agents I) ->
     (row_sat s (mkLRow (map (fun i => (VX i (g_id g), 1)) (vars_to_host I)
                         ++ map (fun j => (VF j (g_id g), 1)) (facs_to_host I)) 1 1) = true <->
      exists nd, In nd (i_nodes I) /\ is_fixed I (n_id nd) = false /\ dget D (n_id nd) = g_id g)).
  { intros g Hg. unfold row_sat. cbn [lr_sense lr_rhs lr_coefs].
    pose proof (nf_sum G s D (fun _ => 1) g W Hi Hg) as Hs. cbv beta in Hs. fold I in Hs. rewrite Hs.
    change (1 =? 0) with false. change (1 <? 0) with false. cbv iota. rewrite Z.leb_le.
    rewrite zsum01_ge1.
    - split.
      + intros [nd [Hn E]]. exists nd. destruct (is_fixed I (n_id nd)); [lia|].
        destruct (dget D (n_id nd) =? g_id g) eqn:E'; simpl in E; [|lia]. repeat split; auto. lia.
      + intros (nd & Hn & Hf & E). exists nd. split; auto. rewrite Hf, E, Z.eqb_refl. reflexivity.
    - intros nd _. destruct (is_fixed I (n_id nd)); auto.
      destruct (dget D (n_id nd) =? g_id g); simpl; auto. }
  unfold all_host. rewrite rows_sat_forall, forallb_forall. split.
  - intros H g Hg. apply existsb_exists.
    destruct (must_host_of I g) as [|c rest] eqn:Em.
    + assert (Hr : In g (filter (fun g => match must_host_of I g with [] => true | _ => false end) (i_agents I)))
        by (apply filter_In; split; auto; now rewrite Em).
      specialize (H _ (in_map _ _ _ Hr)). apply Hrow in H as (nd & Hn & _ & E); auto.
      exists nd. split; auto. lia.
    + assert (Hc : In c (must_host_of I g)) by (rewrite Em; now left).
      unfold must_host_of in Hc. apply in_map_iff in Hc as [nd [<- Hc]].
      apply filter_In in Hc as [Hn Hc]. exists nd. split; auto.
      destruct (zero_cost_fixed I g nd (wf_noconf G W) Hg Hn ltac:(lia)) as [Hf Ha].
      rewrite (Hfx nd Hn Hf), Ha. apply Z.eqb_refl.
  - intros H r Hr. apply in_map_iff in Hr as [g [<- Hg]]. apply filter_In in Hg as [Hg Em].
    apply Hrow; auto. specialize (H g Hg). apply existsb_exists in H as [nd [Hn E]].
    exists nd. repeat split; auto; [|lia].
    destruct (is_fixed I (n_id nd)) eqn:Hf; auto. exfalso.
    destruct (fixed_zero_cost I _ (wf_noconf G W) Hf) as (g' & nd' & Hg' & Hn' & E0 & Eid & Ea).
    rewrite (Hfx nd Hn Hf), Ea in E.
    assert (g' = g) by (apply (NoDup_map_inj g_id (i_agents I)); auto; [apply (wf_agents G W)|lia]).
    subst g'. assert (Hc : In (n_id nd') (must_host_of I g)).
    { unfold must_host_of. apply in_map. apply filter_In. split; auto. lia. }
    destruct (must_host_of I g); [destruct Hc|discriminate].
Qed.

(* ------------------------------------------------------------------ memory rows *)
Lemma memory_sat G s D : fg_wf G -> nf_indicator (g_inst G) s D -> fixed_ok (g_inst G) D ->
  (rows_sat s (fg_memory (g_inst G)) = true <-> cap_ok (g_inst G) D = true).
Proof.
  intros W Hi Hfx. set (I := g_inst G) in *.
  assert (Hsum : forall g, In g (i_agents I) ->
     hosted_on I D (g_id g) =
     zsum (map (fun nd => if is_fixed I (n_id nd) then 0
                          else fp_of I (n_id nd) * b2z (dget D (n_id nd) =? g_id g)) (i_nodes I))
     + zsum (map (fp_of I) (must_host_of I g))).
  { intros g Hg. unfold hosted_on, must_host_of. rewrite map_map, zsum_filter_if, zsum_map_add.
    apply zsum_map_ext_in. intros nd Hn. rewrite (fp_of_node I nd (wf_nodes G W) Hn).
    destruct (is_fixed I (n_id nd)) eqn:Hf.
    - destruct (hosting_cost g (n_id nd) =? 0) eqn:Ec.
      + destruct (zero_cost_fixed I g nd (wf_noconf G W) Hg Hn ltac:(lia)) as [_ Ha].
        rewrite (Hfx nd Hn Hf), Ha, Z.eqb_refl. lia.
      + destruct (dget D (n_id nd) =? g_id g) eqn:E; [|lia]. exfalso.
        destruct (fixed_zero_cost I _ (wf_noconf G W) Hf) as (g' & nd' & Hg' & Hn' & E0 & Eid & Ea).
        rewrite (Hfx nd Hn Hf), Ea in E.
        assert (g' = g) by (apply (NoDup_map_inj g_id (i_agents I)); auto; [apply (wf_agents G W)|lia]).
        subst g'. rewrite <- Eid in E0. lia.
    - destruct (hosting_cost g (n_id nd) =? 0) eqn:Ec.
      + destruct (zero_cost_fixed I g nd (wf_noconf G W) Hg Hn ltac:(lia)) as [Hf' _]. congruence.
      + destruct (dget D (n_id nd) =? g_id g); simpl; lia. }
  unfold cap_ok. rewrite rows_sat_forall, forallb_forall. split.
  - intros H g Hg. specialize (H _ (in_map _ _ _ Hg)). unfold row_sat in H.
    cbn [lr_sense lr_rhs lr_coefs] in H.
    pose proof (nf_sum G s D (fp_of I) g W Hi Hg) as Hs. cbv beta in Hs. fold I in Hs. rewrite Hs in H.
    change (-1 =? 0) with false in H. change (-1 <? 0) with true in H. cbv iota in H.
    rewrite (Hsum g Hg). lia.
  - intros H r Hr. apply in_map_iff in Hr as [g [<- Hg]]. unfold row_sat.
    cbn [lr_sense lr_rhs lr_coefs].
    pose proof (nf_sum G s D (fp_of I) g W Hi Hg) as Hs. cbv beta in Hs. fold I in Hs. rewrite Hs.
    change (-1 =? 0) with false. change (-1 <? 0) with true. cbv iota.
    specialize (H g Hg). rewrite (Hsum g Hg) in H. lia.
Qed.

(* ------------------------------------------------------------------ pinning holds by construction *)
Lemma pin_ok_of_fixed G D : fg_wf G -> fixed_ok (g_inst G) D -> pin_ok (g_inst G) D = true.
Proof.
  intros W Hfx. unfold pin_ok. apply forallb_forall. intros g Hg. apply forallb_forall. intros nd Hn.
  destruct (hosting_cost g (n_id nd) =? 0) eqn:Ec; auto.
  destruct (zero_cost_fixed _ g nd (wf_noconf G W) Hg Hn ltac:(lia)) as [Hf Ha].
  rewrite (Hfx nd Hn Hf), Ha. apply Z.eqb_refl.
Qed.

Lemma fixed_of_pin_ok G D : fg_wf G -> pin_ok (g_inst G) D = true -> fixed_ok (g_inst G) D.
Proof.
  intros W Hp nd Hn Hf.
  destruct (fixed_zero_cost _ _ (wf_noconf G W) Hf) as (g & nd' & Hg & Hn' & E0 & Eid & Ea).
  unfold pin_ok in Hp. rewrite forallb_forall in Hp. specialize (Hp g Hg).
  rewrite forallb_forall in Hp. specialize (Hp nd' Hn'). rewrite <- Eid in *.
  rewrite (proj2 (Z.eqb_eq _ _) E0) in Hp. rewrite Ea. lia.
Qed.

Lemma valid_of_parts G D : fg_wf G -> fixed_ok (g_inst G) D -> nf_valid (g_inst G) D ->
  valid_dist (g_inst G) D.
Proof.
  intros W Hfx Hv nd Hn. destruct (is_fixed (g_inst G) (n_id nd)) eqn:Hf; auto.
  destruct (fixed_zero_cost _ _ (wf_noconf G W) Hf) as (g & nd' & Hg & _ & _ & _ & Ea).
  exists g. split; auto. now rewrite (Hfx nd Hn Hf).
Qed.

(* (2) a 0/1 vector satisfies all rows iff its x/f part is the indicator of a distribution (read
   off by [fgdp_decode], pre-hosted computations on their agent) that hosts every computation on
   a declared agent and meets the hard rules, and the alphas are the products *)
Lemma fgdp_rows_feasible_iff_l G s : fg_wf G ->
  (rows_sat s (fgdp_rows_of G) = true <->
   valid_dist (g_inst G) (fgdp_decode G s) /\ nf_indicator (g_inst G) s (fgdp_decode G s) /\
   fgdp_feasible G (fgdp_decode G s) = true /\ alphas_products G s).
Proof.
  intros W. rewrite fgdp_rows_split. unfold fgdp_feasible. rewrite !andb_true_iff.
  pose proof (fixed_ok_decode G s (wf_nodes G W)) as Hfx. split.
  - intros (Hv & Hf & Ha & Hm & Hl). destruct (hosted_fg_ind G s W Hv Hf) as [Hi Hnv].
    repeat split; auto.
    + apply valid_of_parts; auto.
    + apply (memory_sat G s); auto.
    + apply pin_ok_of_fixed; auto.
    + apply (atleast_sat G s); auto.
  - intros (Hv & Hi & [[Hc Hp] Ha] & Hl).
    assert (Hnv : nf_valid (g_inst G) (fgdp_decode G s)) by (intros nd Hn _; auto).
    destruct (hosted_fg_sat G s _ W Hi Hnv). repeat split; auto.
    + apply (atleast_sat G s (fgdp_decode G s)); auto.
    + apply (memory_sat G s (fgdp_decode G s)); auto.
Qed.

(* ------------------------------------------------------------------ (3) objective and optimality *)
(* a link of a factor graph joins a variable computation and a factor computation of the graph *)
Definition fg_links_wf (G : ginst) : Prop :=
  forall l, In l (g_links G) -> (exists x y, l = [x; y]) /\
    (exists ni, In ni (i_nodes (g_inst G)) /\ n_id ni = fst (orient (g_inst G) l) /\ n_kind ni = 0) /\
    (exists nj, In nj (i_nodes (g_inst G)) /\ n_id nj = snd (orient (g_inst G) l) /\ n_kind nj = 1).

Lemma on_ends_D G s D l g : fg_wf G -> fg_links_wf G ->
  nf_indicator (g_inst G) s D -> fixed_ok (g_inst G) D ->
  In l (g_links G) -> In g (i_agents (g_inst G)) ->
  on_var (g_inst G) s (fst (orient (g_inst G) l)) (g_id g) = (dget D (fst (orient (g_inst G) l)) =? g_id g) /\
  on_fac (g_inst G) s (snd (orient (g_inst G) l)) (g_id g) = (dget D (snd (orient (g_inst G) l)) =? g_id g).
Proof.
  intros W Hlw Hi Hfx Hl Hg.
  destruct (Hlw l Hl) as (_ & (ni & Hni & Ei & Ki) & (nj & Hnj & Ej & Kj)).
  set (i := fst (orient (g_inst G) l)) in *. set (j := snd (orient (g_inst G) l)) in *. split.
  - unfold on_var. destruct (zmem i (vars_to_host (g_inst G))) eqn:E.
    + apply zmem_In, in_vars_to_host in E as (nd & Hn & En & Hk & Hf). rewrite <- En in *.
      rewrite <- (node_var_kind0 s nd) by auto. apply Hi; auto.
    + destruct (is_fixed (g_inst G) i) eqn:Hf.
      * rewrite <- Ei in *. now rewrite (Hfx ni Hni Hf).
      * assert (H : In i (vars_to_host (g_inst G))) by (apply in_vars_to_host; exists ni; auto).
        apply zmem_In in H. congruence.
  - unfold on_fac. destruct (zmem j (facs_to_host (g_inst G))) eqn:E.
    + apply zmem_In, in_facs_to_host in E as (nd & Hn & En & Hk & Hf). rewrite <- En in *.
      rewrite <- (node_var_kind1 s nd) by auto. apply Hi; auto.
    + destruct (is_fixed (g_inst G) j) eqn:Hf.
      * rewrite <- Ej in *. now rewrite (Hfx nj Hnj Hf).
      * assert (H : In j (facs_to_host (g_inst G))) by (apply in_facs_to_host; exists nj; auto).
        apply zmem_In in H. congruence.
Qed.

Lemma fgdp_lin_obj_at G s D : fg_wf G -> fg_links_wf G -> valid_dist (g_inst G) D ->
  nf_indicator (g_inst G) s D -> fixed_ok (g_inst G) D -> alphas_products G s ->
  fgdp_lin_obj G s = fst (fgdp_obj G D).
Proof.
  intros W Hlw Hv Hi Hfx Ha. unfold fgdp_lin_obj, fgdp_comm_coefs, lin_eval.
  rewrite zsum_map_flat_map. unfold fgdp_obj. simpl fst. rewrite <- zsum_map_opp.
  apply zsum_map_ext_in. intros l Hl.
  destruct (Hlw l Hl) as (_ & (ni & Hni & Ei & Ki) & _).
  assert (Hprod : forall g, In g (i_agents (g_inst G)) ->
            s (VA (fst (orient (g_inst G) l)) (snd (orient (g_inst G) l)) (g_id g)) =
            (dget D (fst (orient (g_inst G) l)) =? g_id g) && (dget D (snd (orient (g_inst G) l)) =? g_id g)).
  { intros g Hg. destruct (on_ends_D G s D l g W Hlw Hi Hfx Hl Hg) as [E1 E2].
    rewrite <- E1, <- E2. apply Ha; auto. }
  assert (Hin : In (dget D (fst (orient (g_inst G) l))) (agent_ids (g_inst G))).
  { rewrite <- Ei. destruct (Hv ni Hni) as [g [Hg ->]]. now apply in_map. }
  destruct (orient (g_inst G) l) as [i j]. simpl fst in *. simpl snd in *.
  rewrite map_map. simpl.
  rewrite (zsum_map_ext_in _ (fun g => (fun a => (- load (g_inst G) i j * b2z (dget D j =? a))
                                                 * b2z (dget D i =? a)) (g_id g))).
  - rewrite <- (map_map g_id (fun a => (- load (g_inst G) i j * b2z (dget D j =? a)) * b2z (dget D i =? a))).
    rewrite (sum_ind _ (fun a => - load (g_inst G) i j * b2z (dget D j =? a))); auto;
      [|apply (wf_agents G W)].
    rewrite (Z.eqb_sym (dget D j)). destruct (dget D i =? dget D j); simpl; lia.
  - intros g Hg. rewrite (Hprod g Hg).
    destruct (dget D i =? g_id g), (dget D j =? g_id g); simpl; lia.
Qed.

Lemma nf_indicator_encode I D : nf_indicator I (fgdp_encode D) D.
Proof. intros nd g _ _ _. unfold node_var. destruct (n_kind nd =? 0); reflexivity. Qed.

Lemma fgdp_encode_sat_l G D : fg_wf G -> fg_links_wf G ->
  valid_dist (g_inst G) D -> fgdp_feasible G D = true ->
  rows_sat (fgdp_encode D) (fgdp_rows_of G) = true.
Proof.
  intros W Hlw Hv Hf. unfold fgdp_feasible in Hf. apply andb_true_iff in Hf as [Hf Ha].
  apply andb_true_iff in Hf as [Hc Hp].
  pose proof (nf_indicator_encode (g_inst G) D) as Hi.
  pose proof (fixed_of_pin_ok G D W Hp) as Hfx.
  assert (Hnv : nf_valid (g_inst G) D) by (intros nd Hn _; auto).
  destruct (hosted_fg_sat G _ D W Hi Hnv). apply fgdp_rows_split. repeat split; auto.
  - apply (atleast_sat G _ D); auto.
  - apply (memory_sat G _ D); auto.
  - intros l g Hl Hg. unfold alpha_product.
    destruct (on_ends_D G _ D l g W Hlw Hi Hfx Hl Hg) as [E1 E2]. rewrite E1, E2. reflexivity.
Qed.

Lemma fg_links_two_ended G : fg_links_wf G -> two_ended G.
Proof. intros H l Hl. destruct (H l Hl) as [E _]. exact E. Qed.

(* the solver as an oracle on the ROWS of ilp_fgdp *)
Lemma fgdp_rows_optimal_is_min_cost_l G sstar : fg_wf G -> fg_links_wf G -> sym_load G ->
  rows_sat sstar (fgdp_rows_of G) = true ->
  (forall s, rows_sat s (fgdp_rows_of G) = true -> fgdp_lin_obj G sstar <= fgdp_lin_obj G s) ->
  valid_dist (g_inst G) (fgdp_decode G sstar) /\ fgdp_feasible G (fgdp_decode G sstar) = true /\
  forall D, valid_dist (g_inst G) D -> fgdp_feasible G D = true ->
            fst (fgdp_cost G (fgdp_decode G sstar)) <= fst (fgdp_cost G D).
Proof.
  intros W Hlw Hsym Hs Hopt.
  pose proof (proj1 (fgdp_rows_feasible_iff_l G sstar W) Hs) as (Hv & Hi & Hf & Ha).
  repeat split; auto. intros D HvD HfD.
  pose proof (fg_links_two_ended G Hlw) as H2.
  rewrite !(fgdp_objective_is_cost_l G) by auto.
  pose proof (fgdp_encode_sat_l G D W Hlw HvD HfD) as HsD.
  rewrite <- (fgdp_lin_obj_at G sstar (fgdp_decode G sstar)); auto;
    [|apply fixed_ok_decode; apply (wf_nodes G W)].
  rewrite <- (fgdp_lin_obj_at G (fgdp_encode D) D); auto.
  - specialize (Hopt _ HsD). lia.
  - apply nf_indicator_encode.
  - apply (fixed_of_pin_ok G D W). unfold fgdp_feasible in HfD.
    apply andb_true_iff in HfD as [HfD _]. apply andb_true_iff in HfD as [_ Hp]. exact Hp.
  - now apply fgdp_rows_force_product_l.
Qed.
