(* P_Discovery2C.v -- C20 deepening, part 4: the computation sub-protocol again, now INCLUDING
   unregister_computation(c, agent) naming an agent (the directory ignores a stale un-publication:
   the message is consumed without any notification) and register_computation without an address.
   Only unregister_agent stays excluded from the histories.  Same guard as P_Discovery
   (the directory holds an address for the agent of every computation it lists). *)
From PyDcop Require Import Base Net M_Discovery P_Discovery P_Discovery2.
From Coq Require Import Lia.

Local Arguments bind : simpl never.

Definition frag2 (o : op) : bool := match o with OpUnregAgent _ => false | _ => true end.
Definition okmsg2 (m : msg) : bool := match m with MOp o => frag2 o | MUnpubAgent _ => false | _ => true end.

Definition tellsc (c : Z) (m : msg) : option (option Z) :=
  match m with
  | MPubComp c' g (Some _) => if c' =? c then Some (Some g) else None
  | MUnpubComp c' _ => if c' =? c then Some None else None
  | _ => None
  end.
(* the own publications about c that the directory acts on while it lists c on g: an un-publication
   naming another agent is ignored (stale_unpub) *)
Definition aboutc2 (c g : Z) (m : msg) : bool :=
  match m with
  | MPubComp c' _ _ => c' =? c
  | MUnpubComp c' None => c' =? c
  | MUnpubComp c' (Some g') => (c' =? c) && (g' =? g)
  | _ => false
  end.

Definition JC (a : Z) (st : nst) (d : dstate) (N O : list msg) : Prop :=
  forall c, Jg (tellsc c) (aboutc2 c) (In a (Sc st c)) (Dc st c) (vc d c) N O.

Lemma zmemk_some {V} k (l : list (Z * V)) v : zlookup k l = Some v -> zmemk k l = true.
Proof. unfold zmemk, mem_key, zlookup. intros ->. reflexivity. Qed.
Lemma zmemk_none {V} k (l : list (Z * V)) : zlookup k l = None -> zmemk k l = false.
Proof. unfold zmemk, mem_key, zlookup. intros ->. reflexivity. Qed.

(* ---- Discovery methods, general arguments *)
Lemma reg_comp_gen s c ag addr p :
  let g := match ag with Some g => g | None => d_own s end in
  let r := d_register_computation s c ag addr p in
  (is_none addr && negb (zmemk g (d_agents s)) = true /\ rS r = s /\ rO r = [])
  \/ (is_none addr && negb (zmemk g (d_agents s)) = false /\ rX r = None /\
      d_comps (rS r) = zset c g (d_comps s) /\ rO r = if p then [MPubComp c g addr] else []).
Proof.
  simpl. unfold d_register_computation. destruct (is_none addr && _) eqn:E; [left; auto|right].
  split; auto. rewrite bind_X, bind_S, bind_O.
  match goal with |- context[rX ?r] => set (r2 := r) end.
  assert (H2 : rX r2 = None /\ d_comps (rS r2) = zset c (match ag with Some g => g | None => d_own s end) (d_comps s) /\ rO r2 = []).
  { subst r2. destruct addr as [ad|]; simpl; auto. destruct (zmemk _ _); simpl; auto.
    rewrite reg_agent_X, reg_agent_comps, reg_agent_O. auto. }
  destruct H2 as (-> & H2 & ->). dm; simpl; auto.
Qed.

Lemma unreg_comp_pub2 s c ag :
  vc (rS (d_unregister_computation s c ag true)) c = vc s c
  \/ (In (MUnpubComp c ag) (rO (d_unregister_computation s c ag true)) /\
      forall g', ag = Some g' -> vc s c = Some g').
Proof.
  unfold d_unregister_computation, vc. destruct (zlookup c (d_comps s)) as [known|] eqn:El; simpl; auto.
  destruct ag as [g'|]; simpl.
  - destruct (known =? g') eqn:E; simpl; auto. right. apply Z.eqb_eq in E. subst. split; [|intros ? H; inversion H; auto].
    rewrite !bind_O. simpl.
    assert (Hx : rX (d_unsubscribe_comp (set_comps s (zdel c (d_comps s))) c None) = None).
    { unfold d_unsubscribe_comp.
      pose proof (unsub_none_noerr (d_ccbs (set_comps s (zdel c (d_comps s)))) c) as Hn.
      destruct (unsub_cbs _ c None) as [[t snd0] err]. simpl in Hn. subst err. reflexivity. }
    rewrite Hx. simpl. rewrite ?in_app_iff. simpl. auto 6.
  - right. split; [|discriminate]. rewrite !bind_O. simpl.
    assert (Hx : rX (d_unsubscribe_comp (set_comps s (zdel c (d_comps s))) c None) = None).
    { unfold d_unsubscribe_comp.
      pose proof (unsub_none_noerr (d_ccbs (set_comps s (zdel c (d_comps s)))) c) as Hn.
      destruct (unsub_cbs _ c None) as [[t snd0] err]. simpl in Hn. subst err. reflexivity. }
    rewrite Hx. simpl. rewrite ?in_app_iff. simpl. auto 6.
Qed.

Lemma unreg_agent_comps_pub s a : d_comps (rS (d_unregister_agent s a true)) = d_comps s.
Proof.
  unfold d_unregister_agent. destruct (agent_computations s a false).
  - rewrite bind_S. simpl. dm; reflexivity.
  - rewrite bind_S. reflexivity.
Qed.

(* ---- the subscriber's side *)
Lemma agent_effect_c s m c : okmsg2 m = true -> noaddrnone m = true ->
  let r := disc_recv s m in
  match tellsc c m with
  | Some (Some u) => vc (rS r) c = Some u
  | Some None => True
  | None => vc (rS r) c = vc s c \/ (forall w, vc s c = Some w -> existsb (aboutc2 c w) (rO r) = true)
  end.
Proof.
  intros Hok Hna.
  destruct m as [o|y ad|l|y|y b|c' g [ad|]|c' ag|c' b|r' g' b|r' b]; try discriminate; cbn [tellsc disc_recv].
  - destruct (is_subop o) eqn:Es; [left; unfold vc; now rewrite subop_comps|].
    destruct o as [y ad|y|c' g addr|c' g|r' g'|r' g'| | | | | | |]; simpl in *; try discriminate.
    + left. unfold vc. now rewrite reg_agent_comps.
    + pose proof (reg_comp_gen s c' g addr true) as H. simpl in H.
      destruct H as [(_ & -> & _)|(_ & _ & Hc & Ho)]; auto.
      destruct (Z.eq_dec c' c) as [->|Hne].
      * right. intros w _. rewrite Ho. simpl. now rewrite Z.eqb_refl.
      * left. unfold vc. rewrite Hc. apply zlookup_zset_other. congruence.
    + destruct (Z.eq_dec c' c) as [->|Hne]; [|left; apply unreg_comp_other; congruence].
      destruct (unreg_comp_pub2 s c g) as [H|[Hin Hg]]; auto.
      right. intros w Hw. apply existsb_exists. exists (MUnpubComp c g). split; auto.
      simpl. destruct g as [g'|]; [|apply Z.eqb_refl]. rewrite Z.eqb_refl. simpl.
      rewrite (Hg g' eq_refl) in Hw. inversion Hw. apply Z.eqb_refl.
    + left. unfold vc. now rewrite reg_rep_comps.
    + left. unfold vc. now rewrite unreg_rep_comps.
  - left. unfold vc. now rewrite reg_agent_comps.
  - left. unfold vc. now rewrite register_agents_comps.
  - left; reflexivity.
  - destruct (c' =? c) eqn:E.
    + apply Z.eqb_eq in E; subst. apply disc_recv_pub.
    + left. unfold vc. rewrite reg_comp_comps. apply zlookup_zset_other. apply Z.eqb_neq in E. congruence.
  - destruct (c' =? c) eqn:E; auto. left. apply unreg_comp_other. apply Z.eqb_neq in E. congruence.
  - left; reflexivity.
  - destruct b; cbn [disc_recv]; left; unfold vc; [now rewrite reg_rep_comps|now rewrite unreg_rep_comps].
  - left; reflexivity.
Qed.

Lemma JC_agent a st s m q d N O :
  (s = 0 -> N = m :: q) -> (s <> 0 -> is_op m = true) -> okmsg2 m = true -> noaddrnone m = true ->
  JC a st d N O ->
  JC a st (rS (disc_recv d m)) (if 0 =? s then q else N) (O ++ rO (disc_recv d m)).
Proof.
  intros H0 Hop Hok Hna HJ c. eapply Jg_agent; [| apply (agent_effect_c d m c Hok Hna) | apply HJ].
  destruct (0 =? s) eqn:E.
  - left. apply H0. apply Z.eqb_eq in E. auto.
  - right. split; auto. apply Z.eqb_neq in E. destruct m; try (discriminate (Hop (not_eq_sym E))). reflexivity.
Qed.

(* outputs stay within the fragment *)
Lemma disc_recv_outs2 s m x : okmsg2 m = true -> In x (rO (disc_recv s m)) -> okmsg2 x = true.
Proof.
  intros Hok. destruct m as [o|y ad|l|y|y b|c' g addr|c' ag|c' b|r' g' b|r' b]; simpl in *; try discriminate; try tauto.
  - destruct (is_subop o) eqn:Es.
    { intros H. destruct o; try discriminate; simpl in H;
        unfold d_subscribe_agent, d_unsubscribe_agent, d_subscribe_all, d_subscribe_comp, d_unsubscribe_comp,
               d_subscribe_rep, d_unsubscribe_rep, sub_cbs in H;
        repeat match type of H with context[match ?e with _ => _ end] => destruct e end;
        simpl in H; intuition; subst; reflexivity. }
    destruct o as [y ad|y|c' g addr|c' g|r' g'|r' g'| | | | | | |]; simpl in *; try discriminate.
    + rewrite reg_agent_O. simpl. intuition; subst; auto.
    + pose proof (reg_comp_gen s c' g addr true) as H. simpl in H.
      destruct H as [(_ & _ & ->)|(_ & _ & _ & ->)]; simpl; intuition; subst; auto.
    + intros H. apply unreg_comp_O in H as [->| ->]; auto.
    + intros H. apply reg_rep_O in H as ->; auto.
    + intros H. apply unreg_rep_O in H as ->; auto.
  - rewrite reg_agent_O. simpl. tauto.
  - rewrite register_agents_O. simpl. tauto.
  - pose proof (reg_comp_gen s c' (Some g) addr false) as H. simpl in H.
    destruct H as [(_ & _ & ->)|(_ & _ & _ & ->)]; simpl; tauto.
  - intros H. apply unreg_comp_O in H as [->| ->]; auto.
  - destruct b; intros H; [apply reg_rep_O in H|apply unreg_rep_O in H]; subst; auto.
Qed.

Lemma dir_recv_outs2 st s m d x : okmsg2 m = true -> In (d, x) (rO (dir_recv st s m)) -> okmsg2 x = true.
Proof.
  intros Hok H. apply dir_outs_class in H.
  destruct m as [o|y ad|l|y|y b|c' g addr|c' ag|c' b|r' g' b|r' b]; try discriminate; try contradiction; subst; auto.
  - destruct b; [|contradiction]. destruct (y =? STAR); [subst; auto|]. destruct H as (_ & ad & -> & _); auto.
  - destruct H as (ad & ->); auto.
  - destruct H as (c & [->|(ag' & ->)]); auto.
  - destruct b; [|contradiction]. destruct H as (_ & g & ad & ->); auto.
  - destruct b; [|contradiction]. destruct H as (_ & g & -> & _); auto.
Qed.

(* ---- the directory's side *)
Lemma dir_recv_comps st s m :
  match m with
  | MPubComp _ _ _ | MUnpubComp _ _ | MSubComp _ _ | MUnpubAgent _ => True
  | _ => gc (rS (dir_recv st s m)) = gc st /\ gsc (rS (dir_recv st s m)) = gsc st
  end.
Proof.
  unfold gc, gsc.
  destruct m as [o|y ad|l|y|y b|c g addr|c ag|c b|r g b|r b]; simpl; auto.
  - unfold dir_register_agent.
    destruct (d_register_agent (n_disc st) y ad false) as [[[d1 o1] e1] x1]. simpl in *. auto.
  - destruct b; [destruct (y =? STAR)|]; simpl; auto.
  - destruct b; simpl.
    + destruct (d_register_replica (n_disc st) r g false) as [[[d1 o1] e1] [x1|]]; simpl in *; auto.
    + destruct (d_unregister_replica (n_disc st) r g true) as [[[d1 o1] e1] x1]; simpl in *; auto.
  - destruct b; simpl; auto. destruct (zmemk r (d_comps (n_disc st))); simpl; auto.
Qed.

Definition addr_ok' (st : nst) : Prop :=
  forall c g, Dc st c = Some g -> zmemk g (g_agents (n_dir st)) = true.

(* publish_computation under the guard: the registration is carried out and notified *)
Lemma dir_pubcomp2 st s c g addr :
  Binv st -> addr_ok' (rS (dir_recv st s (MPubComp c g addr))) ->
  let r := dir_recv st s (MPubComp c g addr) in
  gc (rS r) = zset c g (gc st) /\ gsc (rS r) = gsc st /\
  exists ad, rO r = to_all (sm_get c (gsc st)) (MPubComp c g (Some ad)).
Proof.
  intros (_ & B2 & _) Hok. simpl in *. unfold dir_register_computation, gc, gsc in *.
  pose proof (reg_comp_gen (n_disc st) c (Some g) addr false) as H. simpl in H.
  assert (Hg : zmemk g (g_agents (n_dir st)) = true).
  { specialize (Hok c g). unfold Dc in Hok.
    destruct (d_register_computation (n_disc st) c (Some g) addr false) as [[[d1 o1] e1] [x1|]]; simpl in *.
    - apply Hok. apply zlookup_zset_same.
    - destruct (match addr with Some x => Some x | None => _ end); simpl in *; apply Hok; apply zlookup_zset_same. }
  apply zmemk_lookup in Hg as [ad0 Hg].
  pose proof (B2 g ad0 Hg) as Hv. unfold va in Hv.
  assert (Hm : zmemk g (d_agents (n_disc st)) = true) by (eapply zmemk_some; eauto).
  rewrite Hm in H. simpl in H. rewrite andb_false_r in H.
  destruct H as [(H & _)|(_ & HX & _)]; [discriminate|].
  destruct (d_register_computation (n_disc st) c (Some g) addr false) as [[[d1 o1] e1] x1]. simpl in *. subst x1.
  destruct addr as [ad|]; simpl.
  - repeat split; auto. exists ad. reflexivity.
  - rewrite Hg. simpl. repeat split; auto. exists ad0. reflexivity.
Qed.

Lemma dir_unpubcomp2 st s c ag :
  let r := dir_recv st s (MUnpubComp c ag) in
  gsc (rS r) = gsc st /\
  ((rS r = st /\ rO r = [] /\ forall w, Dc st c = Some w -> exists g', ag = Some g' /\ g' <> w)
   \/ (gc (rS r) = zdel c (gc st) /\
       forall d x, In (d, x) (rO r) -> x = MSubComp c false \/ exists ag', x = MUnpubComp c ag')).
Proof.
  simpl. unfold dir_unregister_computation, stale_unpub, gc, gsc, Dc.
  destruct ag as [g'|].
  - destruct (zlookup c (g_comps (n_dir st))) as [host|] eqn:El.
    + destruct (host =? g') eqn:E; simpl.
      * rewrite (zmemk_some _ _ _ El).
        pose proof (unreg_comp_O (n_disc st) c None false) as HO.
        destruct (d_unregister_computation (n_disc st) c None false) as [[[d1 o1] e1] x1]. simpl in *.
        split; auto. right. split; auto. intros d x H. apply in_app_or in H as [H|H].
        -- apply to_self_In in H as [_ H]. apply HO in H as [->| ->]; eauto.
        -- apply to_all_In in H as [_ ->]. eauto.
      * split; auto. left. repeat split; auto. intros w Hw. inversion Hw; subst. exists g'. split; auto.
        apply Z.eqb_neq in E. congruence.
    + rewrite (zmemk_none _ _ El). simpl.
      split; auto. left. repeat split; auto. discriminate.
  - simpl. destruct (zmemk c (g_comps (n_dir st))) eqn:Ek.
    + pose proof (unreg_comp_O (n_disc st) c None false) as HO.
      destruct (d_unregister_computation (n_disc st) c None false) as [[[d1 o1] e1] x1]. simpl in *.
      split; auto. right. split; auto. intros d x H. apply in_app_or in H as [H|H].
      * apply to_self_In in H as [_ H]. apply HO in H as [->| ->]; eauto.
      * apply to_all_In in H as [_ ->]. eauto.
    + split; auto. left. repeat split; auto. intros w Hw. apply zmemk_false in Ek. congruence.
Qed.

Lemma JC_dir a st s m q d N O :
  Binv st -> (s = a -> O = m :: q) -> okmsg2 m = true -> addr_ok' (rS (dir_recv st s m)) ->
  JC a st d N O ->
  JC a (rS (dir_recv st s m)) d (N ++ msgs_to a (rO (dir_recv st s m))) (if a =? s then q else O).
Proof.
  intros HB HO Hok HG HJ c.
  assert (Frame : (In a (Sc (rS (dir_recv st s m)) c) -> In a (Sc st c)) ->
                  Dc (rS (dir_recv st s m)) c = Dc st c ->
                  (forall d' m', In (d', m') (rO (dir_recv st s m)) -> d' = a -> tellsc c m' = None) ->
                  (s = a -> forall w, Dc st c = Some w -> aboutc2 c w m = false) ->
                  Jg (tellsc c) (aboutc2 c) (In a (Sc (rS (dir_recv st s m)) c)) (Dc (rS (dir_recv st s m)) c) (vc d c)
                     (N ++ msgs_to a (rO (dir_recv st s m))) (if a =? s then q else O)).
  { intros F1 F2 F3 F4. rewrite F2. eapply Jg_frame; [exact F1| | |apply HJ].
    - intros m' Hm'. apply msgs_to_In in Hm'. eapply F3; eauto.
    - intros w HD Hw. destruct (a =? s) eqn:E; auto. apply Z.eqb_eq in E. symmetry in E.
      rewrite (HO E) in Hw. eapply existsb_tail_gen; [|exact Hw]. apply (F4 E w HD). }
  pose proof (dir_recv_comps st s m) as HC.
  unfold Sc, Dc in *. fold (gsc (rS (dir_recv st s m))) in *. fold (gc (rS (dir_recv st s m))) in *.
  fold (gsc st) in *. fold (gc st) in *.
  destruct m as [o|y ad|l|y|y b|c' g addr|c' ag|c' b|r' g' b|r' b]; try discriminate;
    try (destruct HC as [HC1 HC2]; apply Frame; [rewrite HC2; auto | rewrite HC1; auto | | intros; reflexivity]).
  - intros d' m' Hm' _. apply dir_outs_class in Hm'. contradiction.
  - intros d' m' Hm' _. apply dir_outs_class in Hm'. subst. reflexivity.
  - intros d' m' Hm' _. apply dir_outs_class in Hm'. contradiction.
  - intros d' m' Hm' _. apply dir_outs_class in Hm'. destruct b; [|contradiction].
    destruct (y =? STAR); [subst; reflexivity|]. destruct Hm' as (_ & ad & -> & _). reflexivity.
  - (* publish_computation c' *)
    destruct (dir_pubcomp2 st s c' g addr HB HG) as (E1 & E2 & ad & E3).
    destruct (Z.eq_dec c' c) as [->|Hne].
    + apply Jg_told. intros w Hsub HD. rewrite E1, zlookup_zset_same in HD. inversion HD; subst w.
      rewrite E2 in Hsub. rewrite E3. split.
      * exists (MPubComp c g (Some ad)). split; [|simpl; now rewrite Z.eqb_refl].
        apply msgs_to_In. unfold to_all. apply in_map_iff. exists a. auto.
      * intros m' Hm'. apply msgs_to_In in Hm'. apply to_all_In in Hm' as [_ ->]. right. simpl. now rewrite Z.eqb_refl.
    + apply Frame.
      * rewrite E2; auto.
      * rewrite E1. apply zlookup_zset_other. congruence.
      * intros d' m' Hm' _. rewrite E3 in Hm'. apply to_all_In in Hm' as [_ ->]. simpl.
        destruct (c' =? c) eqn:E; auto. apply Z.eqb_eq in E. contradiction.
      * intros _ w _. simpl. now apply Z.eqb_neq.
  - (* unpublish_computation c' ag *)
    destruct (dir_unpubcomp2 st s c' ag) as (E2 & [(E1 & E3 & Hst)|(E1 & E3)]).
    + apply Frame; rewrite ?E1, ?E3; auto.
      * intros ? ? [].
      * intros _ w Hw. simpl. destruct (Z.eq_dec c' c) as [->|Hne].
        -- destruct (Hst w Hw) as (g' & -> & Hg). rewrite Z.eqb_refl. simpl. now apply Z.eqb_neq.
        -- destruct ag; [|now apply Z.eqb_neq]. assert (E : (c' =? c) = false) by now apply Z.eqb_neq. now rewrite E.
    + destruct (Z.eq_dec c' c) as [->|Hne].
      * intros w _ HD. rewrite E1, zlookup_zdel_same in HD. discriminate.
      * apply Frame.
        -- rewrite E2; auto.
        -- rewrite E1. apply zlookup_zdel_other. congruence.
        -- intros d' m' Hm' _. apply E3 in Hm' as [->|(ag' & ->)]; simpl; auto.
           destruct (c' =? c) eqn:E; auto. apply Z.eqb_eq in E. contradiction.
        -- intros _ w _. simpl. assert (E : (c' =? c) = false) by now apply Z.eqb_neq.
           destruct ag; now rewrite E.
  - (* subscribe_computation c' from s *)
    destruct b.
    + destruct (dir_subcomp_true st s c') as (E1 & E2 & E3).
      destruct (Z.eq_dec c' c) as [->|Hne]; [destruct (Z.eq_dec s a) as [->|Hsa]|].
      * apply Jg_told. intros w _ HD. pose proof (HG c w HD) as Hadr. rewrite E1 in HD.
        assert (Hag : g_agents (n_dir (rS (dir_recv st a (MSubComp c true)))) = g_agents (n_dir st)) by reflexivity.
        rewrite Hag in Hadr. apply zmemk_lookup in Hadr as [adr Hadr].
        rewrite E3, HD, Hadr. unfold msgs_to. simpl. rewrite Z.eqb_refl. simpl. split.
        -- eexists; split; [left; reflexivity|]. simpl. now rewrite Z.eqb_refl.
        -- intros m' [<-|[]]. right. simpl. now rewrite Z.eqb_refl.
      * apply Frame.
        -- rewrite E2. intros Hin. apply sm_add_In in Hin as [[_ Hin]|Hin]; auto. congruence.
        -- rewrite E1; auto.
        -- intros d' m' Hm' ->. rewrite E3 in Hm'.
           destruct (zlookup c (gc st)); [|contradiction]. destruct (zlookup z _); [|contradiction].
           destruct Hm' as [Hx|[]]. inversion Hx. congruence.
        -- intros; reflexivity.
      * apply Frame.
        -- rewrite E2. unfold sm_add. rewrite sm_get_put_other; auto.
        -- rewrite E1; auto.
        -- intros d' m' Hm' _. rewrite E3 in Hm'.
           destruct (zlookup c' (gc st)); [|contradiction]. destruct (zlookup z _); [|contradiction].
           destruct Hm' as [Hx|[]]. inversion Hx; subst. simpl.
           destruct (c' =? c) eqn:E; auto. apply Z.eqb_eq in E. contradiction.
        -- intros; reflexivity.
    + destruct (dir_subcomp_false st s c') as (E1 & E2 & E3). apply Frame.
      * rewrite E2. apply sm_del_In.
      * rewrite E1; auto.
      * intros d' m' Hm' _. rewrite E3 in Hm'. contradiction.
      * intros; reflexivity.
  - intros d' m' Hm' _. apply dir_outs_class in Hm'. subst. reflexivity.
  - intros d' m' Hm' _. apply dir_outs_class in Hm'. destruct b; [|contradiction].
    destruct Hm' as (_ & g & -> & _). reflexivity.
Qed.

(* ------------------------------------------------------------------ the network level *)
Section CompNet.
  Variable h : hist_t.
  Hypothesis hist_ok2 : forall k o, In o (hist_of h k) -> frag2 o = true.
  Variable a : Z.
  Hypothesis a_pos : 0 < a.

  Notation P := (disc_proto h).
  Notation cfg := (config nst msg).

  (* no un-registration of an agent travels *)
  Definition msgs_ok2 (cf : cfg) : Prop :=
    (forall s d m, In m (chan cf s d) -> okmsg2 m = true) /\
    (forall n s m, In (s, m) (w_held (nodes cf n)) -> okmsg2 m = true).

  Lemma node_outs_ok2 d st s m st' outs evs y x :
    okmsg2 m = true -> node_recv d st s m = (st', outs, evs) -> In (y, x) outs -> okmsg2 x = true.
  Proof.
    unfold node_recv. intros Hok H Hin. destruct (d =? 0) eqn:E0.
    - pose proof (dir_recv_outs2 st s m y x Hok) as Hd.
      destruct (dir_recv st s m) as [[[st1 o1] e1] x1]. inversion H; subst. auto.
    - destruct (0 <? d).
      + pose proof (disc_recv_outs2 (n_disc st) m x Hok) as Hd.
        destruct (disc_recv (n_disc st) m) as [[[d1 o1] e1] x1]. inversion H; subst.
        apply to_self_In in Hin as [_ Hin]. auto.
      + inversion H; subst. contradiction.
  Qed.

  Lemma msgs_ok2_step act cf : msgs_ok2 cf -> msgs_ok2 (fst (step P cf act)).
  Proof.
    intros [Hc Hh]. destruct (step_cases h act cf) as [E|[(n & _ & Hr & outs & Ho & E)|[(s & d & m & q & _ & Hcd & Hr & st' & outs & evs & Hn & E)|(s & d & m & q & _ & Hcd & Hr & E)]]];
      rewrite E; clear E; [split; auto| | |].
    - split; simpl.
      + intros x y z Hz. apply reinject_all_In in Hz as [Hz|[-> Hz]].
        * rewrite send_all_spec in Hz. destruct (x =? n) eqn:Ex; [|eauto].
          apply in_app_or in Hz as [Hz|Hz]; [eauto|]. apply msgs_to_In in Hz.
          destruct Ho as [->|[Hn ->]]; [contradiction|]. apply in_map_iff in Hz as [o [Eo Hin]].
          inversion Eo; subst. simpl. eapply hist_ok2; eauto.
        * unfold reinject in Hz. eapply Hh; eauto.
      + intros k x z. unfold upd_node. destruct (k =? n) eqn:Ek; simpl; [contradiction|apply Hh].
    - assert (Hm : okmsg2 m = true) by (apply (Hc s d); rewrite Hcd; left; auto).
      split; simpl.
      + intros x y z Hz. rewrite send_all_spec in Hz. destruct (x =? d) eqn:Ex.
        * apply Z.eqb_eq in Ex; subst x. apply in_app_or in Hz as [Hz|Hz].
          -- eapply upd_chan_In in Hz; eauto.
          -- apply msgs_to_In in Hz. eapply node_outs_ok2; eauto.
        * eapply upd_chan_In in Hz; eauto.
      + intros k x z. unfold upd_node. destruct (k =? d) eqn:Ek; simpl; [|apply Hh].
        apply Z.eqb_eq in Ek; subst k. apply Hh.
    - split; simpl.
      + intros x y z Hz. eapply upd_chan_In in Hz; eauto.
      + intros k x z. unfold upd_node. destruct (k =? d) eqn:Ek; simpl; [|apply Hh].
        apply Z.eqb_eq in Ek; subst k. intros Hz. apply in_app_or in Hz as [Hz|[Hz|[]]]; [eauto|].
        inversion Hz; subst. eapply Hc. rewrite Hcd. left; auto.
  Qed.

  Definition GC (cf : cfg) (act : action) : Prop := addr_ok (fst (step P cf act)).
  Definition IC (cf : cfg) : Prop := msgs_ok2 cf /\ Qc a (JC a) cf.

  Lemma dirst_deliver0 (cf : cfg) s m q : w_running (nodes cf 0) = true -> chan cf s 0 = m :: q ->
    dirst (fst (step P cf (Deliver s 0))) = rS (dir_recv (dirst cf) s m).
  Proof.
    intros R0 Hc. unfold step. rewrite Hc, R0. cbn [p_recv disc_proto]. unfold node_recv. simpl.
    unfold dirst. destruct (dir_recv (w_st (nodes cf 0)) s m) as [[[st1 o1] e1] x1]. simpl.
    rewrite ?upd_node_same. reflexivity.
  Qed.

  Lemma IC_step act cf : Base a cf -> IC cf -> GC cf act -> IC (fst (step P cf act)).
  Proof.
    intros (R0 & Ra & T & B) [HM HI] HG. split; [now apply msgs_ok2_step|].
    apply (Q_step h a a_pos); auto.
    - intros s m q Ea Hc. subst act. apply JC_dir; auto.
      + intros ->. exact Hc.
      + apply (proj1 HM s 0). rewrite Hc. left; auto.
      + unfold GC in HG. unfold addr_ok in HG. rewrite (dirst_deliver0 cf s m q R0 Hc) in HG. exact HG.
    - intros s m q Ea Hc Hop. apply JC_agent; auto.
      + intros ->. exact Hc.
      + apply (proj1 HM s a). rewrite Hc. left; auto.
      + destruct (Z.eq_dec s 0) as [->|Hs].
        * apply (proj1 T 0 a m); [rewrite Hc; left; auto|reflexivity].
        * specialize (Hop Hs). destruct m; try discriminate. reflexivity.
  Qed.

  Lemma IC_init cf : Kinit2 h cf -> IC cf.
  Proof.
    intros HK. destruct (Kinit2_quiet h a a_pos cf HK) as (E1 & E2 & E3). destruct HK as [Kn Kc]. split.
    - split.
      + intros s d m H. apply Kc in H as (o & -> & Hin & _). simpl. eapply hist_ok2; eauto.
      + intros n s m H. destruct (Kn n) as [Hh _]. rewrite Hh in H. contradiction.
    - unfold Qc. rewrite E1. intros c w H. simpl in H. contradiction.
  Qed.

  Lemma guard_along_GC sched : forall cf, guard_along h cf sched -> along h GC cf sched.
  Proof. induction sched as [|act r IH]; intros cf H; simpl in *; auto. Qed.
End CompNet.

Lemma disc_comp2_inv_l : forall (h : hist_t) (a : Z) (ns : list node) (sched : list (@action)),
  (forall k o, In o (hist_of h k) -> frag2 o = true) -> 0 < a -> In 0 ns -> In a ns ->
  let P := disc_proto h in
  let cf0 := fst (exec P (init P) (map (@Start) ns)) in
  guard_along h cf0 sched ->
  Base a (fst (exec P cf0 sched)) /\ IC a (fst (exec P cf0 sched)).
Proof.
  intros h a ns sched Hh Ha H0 Hna P cf0 HG.
  destruct (starts_spec2 h ns (init P) (Kinit2_init h)) as [K R].
  apply (I_exec h a (GC h) (IC a)).
  - intros act cf. apply IC_step; auto.
  - apply (Kinit2_Base h); auto.
  - apply (IC_init h); auto.
  - now apply guard_along_GC.
Qed.

Lemma disc_comp2_converges_l : forall (h : hist_t) (a : Z) (ns : list node) (sched : list (@action)),
  (forall k o, In o (hist_of h k) -> frag2 o = true) -> 0 < a -> In 0 ns -> In a ns ->
  let P := disc_proto h in
  let cf0 := fst (exec P (init P) (map (@Start) ns)) in
  guard_along h cf0 sched ->
  let cf := fst (exec P cf0 sched) in
  forall c g,
    In a (sm_get c (g_sub_comps (n_dir (w_st (nodes cf 0))))) ->
    zlookup c (g_comps (n_dir (w_st (nodes cf 0)))) = Some g ->
    chan cf 0 a = [] -> chan cf a 0 = [] ->
    zlookup c (d_comps (n_disc (w_st (nodes cf a)))) = Some g.
Proof.
  intros h a ns sched Hh Ha H0 Hna P cf0 HG cf c g Hsub HD E1 E2.
  destruct (disc_comp2_inv_l h a ns sched Hh Ha H0 Hna HG) as [_ [_ HI]].
  fold P cf0 cf in HI. unfold Qc in HI. specialize (HI c g Hsub HD).
  rewrite E1, E2 in HI. simpl in HI. destruct HI as [H|H]; [exact H|discriminate].
Qed.

Definition frag2b (h : hist_t) : bool := forallb (fun p => forallb frag2 (snd p)) h.
Lemma frag2b_sound h : frag2b h = true -> forall k o, In o (hist_of h k) -> frag2 o = true.
Proof.
  unfold frag2b, hist_of, get_or_nil. intros H k o Hin.
  destruct (zlookup k h) as [l|] eqn:E; [|contradiction].
  apply zlookup_In in E. rewrite forallb_forall in H. specialize (H (k, l) E). simpl in H.
  rewrite forallb_forall in H. auto.
Qed.

(* non-vacuity with a stale named un-publication that the directory ignores: agents 1 and 2 both
   register computation 0 (2 wins at the directory), 1 un-registers it naming itself *)
Definition okc_h : hist_t :=
  [(1, [OpRegAgent 1 1001; OpSubComp 0 (Some 7) false; OpRegComp 0 (Some 1) (Some 1001); OpUnregComp 0 (Some 1); OpSubComp 0 (Some 8) false]);
   (2, [OpRegAgent 2 1002; OpRegComp 0 (Some 2) None])].
Definition okc_sched :=
  [Deliver (-1) 1; Deliver 1 0; Deliver (-2) 2; Deliver 2 0; Deliver (-1) 1; Deliver 1 0;
   Deliver (-1) 1; Deliver 1 0; Deliver (-1) 1; Deliver (-2) 2; Deliver 2 0; Deliver 1 0; Deliver 1 0;
   Deliver (-1) 1; Deliver 1 0; Deliver 0 1; Deliver 0 1; Deliver 0 1; Deliver 0 1].
