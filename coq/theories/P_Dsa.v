(* P_Dsa.v -- node-local facts about M_Dsa.v used by C07. *)
From Coq Require Import ZArith List Bool Lia.
From PyDcop Require Import Base Net M_Mgm M_Dsa.
Import ListNotations.
Open Scope Z_scope.

(* a variable without neighbour selects its optimal-cost value, reports finished and stops at
   start; it sends nothing *)
Lemma dsa_isolated_finishes_l d stop variant prob fovc orc n :
  nbrs d n = [] ->
  exists s, dsa_start d stop variant prob fovc n (dsa_init orc n)
            = (s, [], [EvValue n (fst (optimal_cost_value d n)) (Some (snd (optimal_cost_value d n))) 0; EvFinished n 0])
            /\ ds_fin s = 1 /\ ds_stopped s = true.
Proof.
  intros H. unfold dsa_start. rewrite H. destruct (optimal_cost_value d n) as [v c]. simpl.
  eexists. split; [reflexivity|]. split; reflexivity.
Qed.

(* once finished (stop() called) a computation never reports, selects or sends anything again *)
Lemma dsa_stopped_silent_l d stop variant prob fovc n s src m :
  ds_stopped s = true ->
  (exists s', dsa_recv d stop variant prob fovc n s src m = (s', [], [])
              /\ ds_stopped s' = true /\ ds_fin s' = ds_fin s /\ ds_value s' = ds_value s /\ ds_cycle s' = ds_cycle s)
  \/ (exists g, m = MGain g).
Proof.
  intros H. destruct m as [v|g]; [left|right; eauto].
  unfold dsa_recv. rewrite H. eexists. split; [reflexivity|]. simpl. auto.
Qed.

(* finished() is reported only when the cycle just completed reaches stop_cycle, and then the
   computation stops and sends nothing *)
Lemma dsa_evaluate_finished_l d stop variant prob fovc n s s' o e k :
  evaluate_cycle d stop variant prob fovc n s = (s', o, e) -> In (EvFinished n k) e ->
  stop <> 0 /\ stop <= k /\ k = ds_cycle s' /\ o = [] /\ ds_stopped s' = true.
Proof.
  unfold evaluate_cycle. destruct (zlen (ds_cur s) =? zlen (nbrs d n)); [|intros H; inversion H; subst; intros []].
  repeat match goal with |- context [let '(a, b) := ?X in _] => destruct X as [? ?] eqn:? end.
  assert (Hc : forall t l (ee : list mev), (t, ee) = (d0, l) -> (forall q, In (EvFinished n q) ee -> False) -> forall q, In (EvFinished n q) l -> False)
    by (intros t l ee Heq Hh; inversion Heq; subst; exact Hh).
  assert (Hl : forall q, In (EvFinished n q) l0 -> False).
  { clear Hc. revert Heqp0.
    assert (Hp : forall t b vs t' ee, probabilistic_change prob n t b vs = (t', ee) -> forall q, In (EvFinished n q) ee -> False).
    { intros t b vs t' ee. unfold probabilistic_change. destruct (draw (ds_orc t)) as [kk o1].
      destruct (kk <? prob).
      - destruct (draw o1) as [x o2]. unfold dvalue_selection. intros H; inversion H; subst.
        intros q. destruct (option_eqb Z.eqb _ _); intros Hin; [destruct Hin|destruct Hin as [Hin|[]]; discriminate].
      - intros H; inversion H; subst. intros q []. }
    destruct (0 <? Z.abs _); [intros H; eapply Hp; eauto|].
    destruct (variant =? 0); [intros H; inversion H; subst; intros q []|].
    destruct (variant =? 1).
    - destruct (exists_violated _ _ _ _); [intros H; eapply Hp; eauto|intros H; inversion H; subst; intros q []].
    - intros H; eapply Hp; eauto. }
  destruct (negb (stop =? 0) && (stop <=? ds_cycle d0 + 1)) eqn:E; intros H Hin; inversion H; subst; simpl.
  - apply in_app_or in Hin as [Hin|Hin]; [exfalso; eapply Hl; eauto|].
    destruct Hin as [Hin|[Hin|[]]]; inversion Hin; subst.
    apply andb_true_iff in E as [E1 E2]. destruct (stop =? 0) eqn:E3; [discriminate|]. repeat split; lia.
  - apply in_app_or in Hin as [Hin|Hin]; [exfalso; eapply Hl; eauto|].
    destruct Hin as [Hin|[]]. discriminate.
Qed.
