(* P_Dsa.v -- node-local facts about M_Dsa.v used by C07. *)
From Coq Require Import ZArith List Bool Lia.
From PyDcop Require Import Base Net M_Mgm M_Dsa.
Import ListNotations.
Open Scope Z_scope.

(* a variable without neighbour selects its optimal-cost value, reports finished and stops at
   start; it sends nothing *)
Lemma dsa_isolated_finishes_l d stop variant prob fovc orc n :
  nbrs d n = [] ->
  exists s, dsa_start d stop variant prob fovc n (dsa_init orc n)
            = (s, [], [EvValue n (fst (optimal_cost_value d n)) (Some (snd (optimal_cost_value d n))) 0; EvFinished n 0])
            /\ ds_fin s = 1 /\ ds_stopped s = true.
Proof.
  intros H. unfold dsa_start. rewrite H. destruct (optimal_cost_value d n) as [v c]. simpl.
  eexists. split; [reflexivity|]. split; reflexivity.
Qed.

(* once finished (stop() called) a computation never reports, selects or sends anything again *)
Lemma dsa_stopped_silent_l d stop variant prob fovc n s src m :
  ds_stopped s = true ->
  (exists s', dsa_recv d stop variant prob fovc n s src m = (s', [], [])
              /\ ds_stopped s' = true /\ ds_fin s' = ds_fin s /\ ds_value s' = ds_value s /\ ds_cycle s' = ds_cycle s)
  \/ (exists g, m = MGain g).
Proof.
  intros H. destruct m as [v|g]; [left|right; eauto].
  unfold dsa_recv. rewrite H. eexists. split; [reflexivity|]. simpl. auto.
Qed.

Lemma pc_no_finished prob n t b vs t' ee q :
  probabilistic_change prob n t b vs = (t', ee) -> In (EvFinished n q) ee -> False.
Proof.
  unfold probabilistic_change. destruct (draw (ds_orc t)) as [kk o1].
  destruct (kk <? prob).
  - destruct (draw o1) as [x o2]. unfold dvalue_selection. intros H; inversion H; subst.
    destruct (option_eqb Z.eqb _ _); intros Hin; [destruct Hin|destruct Hin as [Hin|[]]; discriminate].
  - intros H; inversion H; subst. intros [].
Qed.

(* finished() is reported only when the cycle just completed reaches stop_cycle, and then the
   computation stops and sends nothing *)
Lemma dsa_evaluate_finished_l d stop variant prob fovc n s s' o e k :
  evaluate_cycle d stop variant prob fovc n s = (s', o, e) -> In (EvFinished n k) e ->
  stop <> 0 /\ stop <= k /\ k = ds_cycle s' /\ o = [] /\ ds_stopped s' = true.
Proof.
  unfold evaluate_cycle. destruct (zlen (ds_cur s) =? zlen (nbrs d n)); [|intros H; inversion H; subst; intros []].
  destruct (find_arg_optimal _ _ _) as [vals best].
  match goal with |- context [let '(a, b) := ?X in _] => destruct X as [s1 e1] eqn:E1 end.
  assert (Hl : forall q, In (EvFinished n q) e1 -> False).
  { intros q. revert E1.
    destruct (0 <? Z.abs _); [intros H; eapply pc_no_finished; eauto|].
    destruct (variant =? 0); [intros H; inversion H; subst; intros []|].
    destruct (variant =? 1).
    - destruct (exists_violated _ _ _ _); [intros H; eapply pc_no_finished; eauto|intros H; inversion H; subst; intros []].
    - intros H; eapply pc_no_finished; eauto. }
  destruct (negb (stop =? 0) && (stop <=? ds_cycle s1 + 1)) eqn:E; intros H Hin; inversion H; subst; simpl.
  - apply in_app_or in Hin as [Hin|Hin]; [exfalso; eapply Hl; eauto|].
    destruct Hin as [Hin|[Hin|[]]]; inversion Hin; subst.
    apply andb_true_iff in E as [E2 E3]. destruct (stop =? 0) eqn:E4; [discriminate|]. repeat split; lia.
  - apply in_app_or in Hin as [Hin|Hin]; [exfalso; eapply Hl; eauto|].
    destruct Hin as [Hin|[]]. discriminate.
Qed.
