(* P_Ilp.v -- proofs about M_Ilp (C24). *)
From PyDcop Require Import Base M_Dist M_Ilp.
From Coq Require Import ZifyBool.

Lemma zz_eqb_eq p q : zz_eqb p q = true <-> p = q.
Proof.
  destruct p as [a b], q as [c d]. unfold zz_eqb. simpl. rewrite andb_true_iff, !Z.eqb_eq.
  split; [intros [-> ->]; auto | intros H; inversion H; auto].
Qed.

Lemma zsum_app_ilp a b : zsum (a ++ b) = zsum a + zsum b.
Proof. induction a; simpl; lia. Qed.

Lemma existsb_zz_false p seen : ~ In p seen -> existsb (zz_eqb p) seen = false.
Proof.
  intros H. destruct (existsb (zz_eqb p) seen) eqn:E; auto.
  apply existsb_exists in E as [q [Hq Eq]]. apply zz_eqb_eq in Eq. subst. contradiction.
Qed.

Lemma dedup_pairs_nodup l : forall seen,
  NoDup l -> (forall p, In p l -> ~ In p seen) -> dedup_pairs l seen = l.
Proof.
  induction l as [|p r IH]; intros seen Hnd Hdis; simpl; auto.
  inversion Hnd as [|? ? Hnin Hnd']; subst.
  rewrite existsb_zz_false by (apply Hdis; now left).
  f_equal. apply IH; auto.
  intros q Hq [->|Hs]; [contradiction|]. eapply Hdis; [right; exact Hq|exact Hs].
Qed.

(* ---- oilp_cgdp: objective = distribution_cost when no ordered pair of computations is
   shared by two links *)
Lemma oilp_objective_is_cost_l G D : NoDup (link_pairs G) -> oilp_obj G D = oilp_cost G D.
Proof.
  intros H. unfold oilp_obj, oilp_cost. rewrite dedup_pairs_nodup; auto.
Qed.

Definition scal (c : Z * Z) : Z := 4 * fst c + snd c.   (* 5 * (0.8 comm + 0.2 hosting) *)

Lemma oilp_feasible_iff_l G D :
  oilp_feasible G D = true <->
  (forall g, In g (i_agents (g_inst G)) -> hosted_on (g_inst G) D (g_id g) <= g_cap g) /\
  (forall g nd, In g (i_agents (g_inst G)) -> In nd (i_nodes (g_inst G)) ->
                hosting_cost g (n_id nd) = 0 -> dget D (n_id nd) = g_id g).
Proof.
  unfold oilp_feasible, cap_ok, pin_ok. rewrite andb_true_iff, !forallb_forall. split.
  - intros [Hc Hp]. split.
    + intros g Hg. specialize (Hc g Hg). lia.
    + intros g nd Hg Hn E. specialize (Hp g Hg). rewrite forallb_forall in Hp.
      specialize (Hp nd Hn). rewrite E in Hp. simpl in Hp. lia.
  - intros [Hc Hp]. split.
    + intros g Hg. specialize (Hc g Hg). lia.
    + intros g Hg. apply forallb_forall. intros nd Hn.
      destruct (hosting_cost g (n_id nd) =? 0) eqn:E; auto.
      apply Z.eqb_eq in E. rewrite (Hp g nd Hg Hn E). apply Z.eqb_refl.
Qed.

Lemma fgdp_feasible_iff_l G D :
  fgdp_feasible G D = true <->
  oilp_feasible G D = true /\
  (forall g, In g (i_agents (g_inst G)) ->
     exists nd, In nd (i_nodes (g_inst G)) /\ dget D (n_id nd) = g_id g).
Proof.
  unfold fgdp_feasible, oilp_feasible, all_host. rewrite !andb_true_iff, forallb_forall. split.
  - intros [[Hc Hp] Ha]. repeat split; auto. intros g Hg. specialize (Ha g Hg).
    apply existsb_exists in Ha as [nd [Hn E]]. exists nd. split; auto. lia.
  - intros [[Hc Hp] Ha]. repeat split; auto. intros g Hg. destruct (Ha g Hg) as [nd [Hn E]].
    apply existsb_exists. exists nd. split; auto. lia.
Qed.

(* the solver is an oracle: it returns a feasible point that minimises the objective *)
Section Solver.
  Variable T : Type.
  Variables (feasible : T -> bool) (obj cost : T -> Z) (k : Z).
  Hypothesis Hobj : forall D, feasible D = true -> cost D = obj D + k.
  Variable Dstar : T.
  Hypothesis Hfeas : feasible Dstar = true.
  Hypothesis Hopt : forall D, feasible D = true -> obj Dstar <= obj D.
  Lemma optimal_is_min_cost : forall D, feasible D = true -> cost Dstar <= cost D.
  Proof. intros D HD. rewrite (Hobj _ Hfeas), (Hobj _ HD). specialize (Hopt D HD). lia. Qed.
End Solver.

Lemma oilp_optimal_is_min_cost_l G Dstar :
  NoDup (link_pairs G) -> oilp_feasible G Dstar = true ->
  (forall D, oilp_feasible G D = true -> scal (oilp_obj G Dstar) <= scal (oilp_obj G D)) ->
  forall D, oilp_feasible G D = true -> scal (oilp_cost G Dstar) <= scal (oilp_cost G D).
Proof.
  intros Hn Hf Ho. apply (optimal_is_min_cost _ (oilp_feasible G) (fun D => scal (oilp_obj G D))
                            (fun D => scal (oilp_cost G D)) 0); auto.
  intros D _. rewrite oilp_objective_is_cost_l; auto. lia.
Qed.

(* parallel links: the objective is not the cost (finding C24-oilp-parallel-links) *)
Definition witness_par : ginst :=
  mkG (mkInst [mkNode 0 0 1 [[0;1];[0;1]]; mkNode 1 0 1 [[0;1];[0;1]]]
              [mkAg 0 9 1 [] 1 []; mkAg 1 9 1 [] 1 []] [] 1 [] [])
      [[0;1];[0;1]].
Lemma oilp_parallel_links_refuted_l :
  exists D, oilp_feasible witness_par D = true /\ oilp_obj witness_par D <> oilp_cost witness_par D.
Proof. exists [(0, 0); (1, 1)]. vm_compute. split; [reflexivity | discriminate]. Qed.

(* ---- ilp_fgdp *)
Definition two_ended (G : ginst) : Prop := forall l, In l (g_links G) -> exists x y, l = [x; y].
Definition sym_load (G : ginst) : Prop :=
  forall x y, In [x; y] (g_links G) -> load (g_inst G) x y = load (g_inst G) y x.
Definition fgdp_total (G : ginst) : Z :=
  zsum (map (fun l => let '(v, f) := orient (g_inst G) l in load (g_inst G) v f) (g_links G)).

Lemma fgdp_objective_is_cost_l G D : two_ended G -> sym_load G ->
  fst (fgdp_cost G D) = fgdp_total G + fst (fgdp_obj G D).
Proof.
  unfold fgdp_cost, fgdp_obj, fgdp_total, link_pairs, two_ended, sym_load. simpl.
  generalize (g_inst G) as I. intros I.
  induction (g_links G) as [|l r IH]; intros H2 Hs; simpl; [lia|].
  destruct (H2 l (or_introl eq_refl)) as [x [y ->]]. simpl.
  specialize (IH (fun l Hl => H2 l (or_intror Hl)) (fun a b Hl => Hs a b (or_intror Hl))).
  pose proof (Hs x y (or_introl eq_refl)) as Hxy.
  destruct (is_var I x); simpl.
  - destruct (dget D x =? dget D y); lia.
  - rewrite (Z.eqb_sym (dget D y) (dget D x)). destruct (dget D x =? dget D y); lia.
Qed.

Lemma fgdp_optimal_is_min_cost_l G Dstar :
  two_ended G -> sym_load G -> fgdp_feasible G Dstar = true ->
  (forall D, fgdp_feasible G D = true -> fst (fgdp_obj G Dstar) <= fst (fgdp_obj G D)) ->
  forall D, fgdp_feasible G D = true -> fst (fgdp_cost G Dstar) <= fst (fgdp_cost G D).
Proof.
  intros H2 Hs Hf Ho. apply (optimal_is_min_cost _ (fgdp_feasible G) (fun D => fst (fgdp_obj G D))
                               (fun D => fst (fgdp_cost G D)) (fgdp_total G)); auto.
  intros D _. rewrite fgdp_objective_is_cost_l; auto. lia.
Qed.

(* asymmetric loads: the objective uses load(variable, factor), distribution_cost the end that
   comes first in the link's frozenset: the ILP optimum is not cost-minimal
   (finding C24-ilp-fgdp-asymmetric-load).  Two variables, one binary factor, two agents;
   link [102;0] is stored factor-first. *)
Definition witness_asym : ginst :=
  mkG (mkInst [mkNode 0 0 1 [[102;0]]; mkNode 1 0 1 [[1;102]]; mkNode 102 1 1 [[102;0];[1;102]]]
              [mkAg 0 2 1 [] 1 []; mkAg 1 2 1 [] 1 []]
              [((0, 102), 5); ((102, 0), 1); ((1, 102), 2); ((102, 1), 2)] 0 [] [])
      [[102;0];[1;102]].
Lemma fgdp_asymmetric_refuted_l :
  exists D1 D2, fgdp_feasible witness_asym D1 = true /\ fgdp_feasible witness_asym D2 = true /\
    (forall D, fgdp_feasible witness_asym D = true ->
       In (dget D 0) [0;1] -> In (dget D 1) [0;1] -> In (dget D 102) [0;1] ->
       fst (fgdp_obj witness_asym D1) <= fst (fgdp_obj witness_asym D)) /\
    fst (fgdp_cost witness_asym D2) < fst (fgdp_cost witness_asym D1).
Proof.
  exists [(0, 0); (1, 1); (102, 0)], [(0, 1); (1, 0); (102, 0)].
  split; [vm_compute; reflexivity|]. split; [vm_compute; reflexivity|]. split.
  - intros D Hf H0 H1 H2. unfold fgdp_obj, fgdp_feasible, cap_ok, pin_ok, all_host, hosted_on in *.
    simpl in *.
    destruct H0 as [E0|[E0|[]]], H1 as [E1|[E1|[]]], H2 as [E2|[E2|[]]];
      rewrite <- E0, <- E1, <- E2 in *; vm_compute in Hf |- *; try discriminate; try congruence.
  - vm_compute. reflexivity.
Qed.
