(* P_SyncBB.v -- proofs about M_SyncBB (C02).

   Layout
     1. get_next_assignment: scan / first_ok / after
     2. well-formed paths, full assignments, the explored set
     3. the branch-and-bound invariant of the token and its preservation by every handler
     3b. the termination measure of a token and its decrease in every handler
     4. the network invariant (exactly one message, indexed by a potential) for every schedule,
        and the theorems (one token, optimality, no deadlock, finished once, termination)
     5. concrete DCOPs: path cost = sum of the constraint tables
     6. the refutation witness for min mode with negative costs *)
From PyDcop Require Import Base Net M_SyncBB.
From Coq Require Import ZifyBool.
From Coq Require FinFun.

Section Proofs.
  Variable is_min : bool.
  Variable n : Z.
  Variable dom : Z -> list Z.
  Variable pc : Z -> Z -> Z -> Z -> Z.

  Notation scan := (scan is_min pc).
  Notation better := (better is_min).
  Notation first_ok := (first_ok is_min pc).
  Notation next_assignment := (next_assignment is_min dom pc).
  Notation last_loop := (last_loop is_min pc).

  (* ---------------------------------------------------------------- 1. next assignment *)
  (* cost of giving value v to variable j against the path: sum of the pair costs *)
  Definition ccost (rp : rpath) (j v : Z) : Z :=
    zsum (map (fun e => pc (e_var e) (e_val e) j v) rp).

  Lemma ccost_cons var val c rest j v :
    ccost ((var, val, c) :: rest) j v = pc var val j v + ccost rest j v.
  Proof. reflexivity. Qed.

  Lemma path_bound_cons var val c rest : path_bound ((var, val, c) :: rest) = c + path_bound rest.
  Proof. reflexivity. Qed.

  Lemma path_bound_app a b : path_bound (a ++ b) = path_bound a + path_bound b.
  Proof.
    unfold path_bound. induction a as [|e a IH]; simpl; [reflexivity|]. rewrite IH. lia.
  Qed.

  Lemma scan_some rp j v u c : scan rp j v u = Some c -> c = ccost rp j v.
  Proof.
    revert c; induction rp as [|[[var val] c0] rest IH]; simpl; intros c H.
    - inversion H; reflexivity.
    - destruct (M_SyncBB.scan is_min pc rest j v u) as [acc|] eqn:E; [|discriminate].
      specialize (IH _ eq_refl).
      destruct (is_min && _); [discriminate|]. inversion H. rewrite ccost_cons. lia.
  Qed.

  Lemma scan_max rp j v u : is_min = false -> scan rp j v u = Some (ccost rp j v).
  Proof.
    intros Hm; induction rp as [|[[var val] c0] rest IH]; simpl; [reflexivity|].
    rewrite IH, Hm. simpl. rewrite ccost_cons. f_equal. lia.
  Qed.

  Definition pc_nonneg := forall i vi j vj, 0 <= pc i vi j vj.

  Lemma ccost_nonneg rp j v : pc_nonneg -> 0 <= ccost rp j v.
  Proof.
    intros Hp; induction rp as [|[[var val] c0] rest IH]; [unfold ccost; simpl; lia|].
    rewrite ccost_cons. specialize (Hp var val j v). lia.
  Qed.

  Lemma path_bound_nonneg rp : (forall e, In e rp -> 0 <= e_cost e) -> 0 <= path_bound rp.
  Proof.
    induction rp as [|[[var val] c0] rest IH]; intros H; [unfold path_bound; simpl; lia|].
    rewrite path_bound_cons. assert (0 <= c0) by (apply (H (var, val, c0)); now left).
    assert (0 <= path_bound rest) by (apply IH; intros; apply H; now right). lia.
  Qed.

  (* the heart of the pruning rule: a break means the bound is below
     (cost of the candidate against the path) + (cost already in the path) *)
  Lemma scan_none_sound rp j v u :
    pc_nonneg -> (forall e, In e rp -> 0 <= e_cost e) ->
    scan rp j v u = None ->
    is_min = true /\ exists b, u = Some b /\ b <= ccost rp j v + path_bound rp.
  Proof.
    intros Hp. induction rp as [|[[var val] c0] rest IH]; simpl; intros Hc H; [discriminate|].
    assert (Hc' : forall e, In e rest -> 0 <= e_cost e) by (intros; apply Hc; now right).
    assert (H0 : 0 <= c0) by (apply (Hc (var, val, c0)); now left).
    pose proof (path_bound_nonneg rest Hc') as Hpb.
    pose proof (ccost_nonneg rest j v Hp) as Hcc.
    pose proof (Hp var val j v) as Hpv.
    rewrite ccost_cons, path_bound_cons.
    destruct (M_SyncBB.scan is_min pc rest j v u) as [acc|] eqn:E.
    - apply scan_some in E. subst acc.
      destruct is_min; simpl in H; [|discriminate]. split; [reflexivity|].
      destruct u as [b|]; simpl in H; [|discriminate]. exists b; split; [reflexivity|].
      destruct (b <=? ccost rest j v + pc var val j v) eqn:E1; [lia|].
      destruct (b <=? pc var val j v + c0) eqn:E2; [lia|]. simpl in H. discriminate.
    - destruct (IH Hc' eq_refl) as [Hm [b [Hu Hb]]]. split; [exact Hm|]. exists b; split; [exact Hu|]. lia.
  Qed.

  Lemma first_ok_some cands rp j u v c :
    first_ok cands rp j u = Some (v, c) ->
    exists mid suf, cands = mid ++ v :: suf /\ (forall x, In x mid -> scan rp j x u = None)
                    /\ scan rp j v u = Some c.
  Proof.
    induction cands as [|x r IH]; simpl; [discriminate|].
    destruct (M_SyncBB.scan is_min pc rp j x u) as [cx|] eqn:E; intros H.
    - inversion H; subst. exists [], r. repeat split; auto. intros ? [].
    - destruct (IH H) as [mid [suf [H1 [H2 H3]]]]. exists (x :: mid), suf. subst r.
      repeat split; auto. intros y [<-|Hy]; auto.
  Qed.

  Lemma first_ok_none cands rp j u :
    first_ok cands rp j u = None -> forall x, In x cands -> scan rp j x u = None.
  Proof.
    induction cands as [|x r IH]; simpl; [intros _ ? []|].
    destruct (M_SyncBB.scan is_min pc rp j x u) as [cx|] eqn:E; [discriminate|].
    intros H y [<-|Hy]; auto.
  Qed.

  (* values strictly before the first occurrence of [cur] *)
  Fixpoint upto (cur : Z) (d : list Z) : list Z :=
    match d with
    | [] => []
    | x :: r => if x =? cur then [] else x :: upto cur r
    end.

  Lemma split_after v d : In v d -> d = upto v d ++ v :: after v d.
  Proof.
    induction d as [|x r IH]; simpl; [intros []|].
    destruct (x =? v) eqn:E; intros H.
    - apply Z.eqb_eq in E. subst. reflexivity.
    - destruct H as [->|H]; [rewrite Z.eqb_refl in E; discriminate|].
      simpl. f_equal. now apply IH.
  Qed.

  Lemma upto_app w a b : ~ In w a -> upto w (a ++ w :: b) = a.
  Proof.
    induction a as [|x a IH]; simpl; intros H.
    - now rewrite Z.eqb_refl.
    - destruct (x =? w) eqn:E; [apply Z.eqb_eq in E; subst; exfalso; apply H; now left|].
      f_equal. apply IH. intros Hw; apply H; now right.
  Qed.

  Lemma after_app w a b : ~ In w a -> after w (a ++ w :: b) = b.
  Proof.
    induction a as [|x a IH]; simpl; intros H.
    - now rewrite Z.eqb_refl.
    - destruct (x =? w) eqn:E; [apply Z.eqb_eq in E; subst; exfalso; apply H; now left|].
      apply IH. intros Hw; apply H; now right.
  Qed.

  Lemma after_incl v d x : In x (after v d) -> In x d.
  Proof.
    induction d as [|y r IH]; simpl; [intros []|].
    destruct (y =? v); intros H; auto.
  Qed.

  Lemma NoDup_mid_notin {A} (a : list A) x b : NoDup (a ++ x :: b) -> ~ In x a.
  Proof.
    intros H Hin. apply NoDup_remove_2 in H. apply H. apply in_or_app. now left.
  Qed.

  (* DESIGN: next_assignment_spec -- what get_next_assignment returns, in terms of the ordered
     domain and the path: the first value after the current one that no path prefix prunes,
     with its exact cost against the path; None iff every later value is pruned. *)
  Lemma next_assignment_spec_l j cur rp u :
    match next_assignment j cur rp u with
    | Some (v, c) =>
        exists mid suf, candidates dom j cur = mid ++ v :: suf
          /\ (forall x, In x mid -> scan rp j x u = None)
          /\ scan rp j v u = Some c /\ c = ccost rp j v
    | None => forall x, In x (candidates dom j cur) -> scan rp j x u = None
    end.
  Proof.
    unfold M_SyncBB.next_assignment.
    destruct (M_SyncBB.first_ok is_min pc (candidates dom j cur) rp j u) as [[v c]|] eqn:E.
    - destruct (first_ok_some _ _ _ _ _ _ E) as [mid [suf [H1 [H2 H3]]]].
      exists mid, suf. repeat split; auto. now apply scan_some in H3.
    - now apply first_ok_none.
  Qed.

  (* ---------------------------------------------------------------- 2. paths *)
  (* a well-formed (reversed) path: labels length-1 .. 0, values in their domains, each cost
     is the exact cost of that value against the earlier part of the path *)
  Fixpoint wfp (rp : rpath) : Prop :=
    match rp with
    | [] => True
    | (j, v, c) :: rest =>
        j = Z.of_nat (List.length rest) /\ In v (dom j) /\ c = ccost rest j v /\ wfp rest
    end.

  (* a total assignment, as a path through all n variables; its cost is [path_bound] *)
  Definition full (f : rpath) : Prop := wfp f /\ Z.of_nat (List.length f) = n.

  Fixpoint pval (rp : rpath) (j : Z) : option Z :=
    match rp with
    | [] => None
    | (var, val, _) :: rest => if var =? j then Some val else pval rest j
    end.

  Lemma wfp_app a b : wfp (a ++ b) -> wfp b.
  Proof.
    induction a as [|[[j v] c] a IH]; simpl; auto. intros (_ & _ & _ & H). auto.
  Qed.

  Lemma pval_none rp j : wfp rp -> Z.of_nat (List.length rp) <= j -> pval rp j = None.
  Proof.
    induction rp as [|[[var val] c] rest IH]; simpl; auto.
    intros (Hj & _ & _ & Hw) Hl. destruct (var =? j) eqn:E; [lia|]. apply IH; auto. lia.
  Qed.

  Lemma pval_some rp j : wfp rp -> 0 <= j < Z.of_nat (List.length rp) ->
    exists v, pval rp j = Some v /\ In v (dom j).
  Proof.
    induction rp as [|[[var val] c] rest IH]; simpl; [lia|].
    intros (Hj & Hv & _ & Hw) Hl. destruct (var =? j) eqn:E.
    - apply Z.eqb_eq in E. subst j. eauto.
    - apply IH; auto. lia.
  Qed.

  Lemma pval_lt rp j v : wfp rp -> pval rp j = Some v -> 0 <= j < Z.of_nat (List.length rp).
  Proof.
    intros Hw H. destruct (Z_lt_le_dec j (Z.of_nat (List.length rp))) as [Hl|Hl].
    - split; auto. clear Hl. induction rp as [|[[var val] c] rest IH]; simpl in *; [discriminate|].
      destruct Hw as (Hj & _ & _ & Hw). destruct (var =? j) eqn:E; [lia|auto].
    - rewrite pval_none in H; auto. discriminate.
  Qed.

  Lemma wfp_costs_nonneg rp : pc_nonneg -> wfp rp -> forall e, In e rp -> 0 <= e_cost e.
  Proof.
    intros Hp. induction rp as [|[[var val] c] rest IH]; simpl; [intros _ ? []|].
    intros (_ & _ & Hc & Hw) e [<-|He]; auto. simpl. subst c. now apply ccost_nonneg.
  Qed.

  (* f goes through the path [rest] extended with value u for the next variable *)
  Definition through (f rest : rpath) (u : Z) : Prop :=
    exists ext c, f = ext ++ (Z.of_nat (List.length rest), u, c) :: rest.

  (* total assignments lexicographically before the subtree of rp: already explored *)
  Fixpoint Expl (f rp : rpath) : Prop :=
    match rp with
    | [] => False
    | (j, v, _) :: rest => Expl f rest \/ exists u, In u (upto v (dom j)) /\ through f rest u
    end.

  Definition Ext (f rp : rpath) : Prop := exists ext, f = ext ++ rp.

  Lemma ext_step f rest : full f -> Ext f rest -> Z.of_nat (List.length rest) < n ->
    exists u, In u (dom (Z.of_nat (List.length rest))) /\ through f rest u.
  Proof.
    intros [Hw Hl] [ext ->] Hk.
    assert (Hne : ext <> []) by (intros ->; simpl in Hl; lia).
    destruct (exists_last Hne) as [l' [[[j v] c] ->]].
    rewrite <- app_assoc in Hw. simpl in Hw. apply wfp_app in Hw.
    destruct Hw as (Hj & Hv & Hc & _). subst j. exists v. split; auto.
    exists l', c. now rewrite <- app_assoc.
  Qed.

  Lemma through_wfp f rest u : wfp f -> through f rest u ->
    wfp rest /\ In u (dom (Z.of_nat (List.length rest))) /\
    exists ext, f = ext ++ (Z.of_nat (List.length rest), u, ccost rest (Z.of_nat (List.length rest)) u) :: rest.
  Proof.
    intros Hw [ext [c ->]]. pose proof (wfp_app _ _ Hw) as (_ & Hv & -> & Hr).
    repeat split; auto. now exists ext.
  Qed.

  Lemma through_pb f rest u : pc_nonneg -> wfp f -> through f rest u ->
    ccost rest (Z.of_nat (List.length rest)) u + path_bound rest <= path_bound f.
  Proof.
    intros Hp Hw Ht. destruct (through_wfp _ _ _ Hw Ht) as (_ & _ & ext & Hf).
    assert (0 <= path_bound ext).
    { apply path_bound_nonneg. intros e He. apply (wfp_costs_nonneg f Hp Hw). subst f.
      apply in_or_app. now left. }
    rewrite Hf, path_bound_app, path_bound_cons. lia.
  Qed.

  Lemma through_last f rest u : full f -> Z.of_nat (List.length rest) = n - 1 -> through f rest u ->
    path_bound f = ccost rest (n - 1) u + path_bound rest.
  Proof.
    intros [Hw Hl] Hk Ht. destruct (through_wfp _ _ _ Hw Ht) as (_ & _ & ext & Hf).
    subst f. rewrite app_length in Hl. cbn [List.length] in Hl. unfold rpath, elt in *.
    destruct ext; [|cbn [List.length] in Hl; lia].
    simpl. rewrite path_bound_cons, Hk. reflexivity.
  Qed.

  (* ---------------------------------------------------------------- 3. the B&B invariant *)
  Definition nworse (b x : Z) : Prop := if is_min then b <= x else x <= b.
  Definition LB (B : option Z) (f : rpath) : Prop :=
    exists b, B = Some b /\ nworse b (path_bound f).

  Definition pc_ok : Prop := is_min = true -> pc_nonneg.

  Lemma pruned_covered rest u B f :
    pc_ok -> wfp rest -> scan rest (Z.of_nat (List.length rest)) u B = None ->
    wfp f -> through f rest u -> LB B f.
  Proof.
    intros Hok Hr Hs Hw Ht.
    assert (Hm : is_min = true \/ is_min = false) by (destruct is_min; auto).
    destruct Hm as [Hm|Hm]; [|rewrite scan_max in Hs; [discriminate|exact Hm]].
    pose proof (Hok Hm) as Hp.
    destruct (scan_none_sound _ _ _ _ Hp (wfp_costs_nonneg rest Hp Hr) Hs) as (_ & b & -> & Hb).
    exists b. split; auto. unfold nworse. rewrite Hm.
    pose proof (through_pb _ _ _ Hp Hw Ht). lia.
  Qed.

  Lemma better_irrefl a : better a a = false.
  Proof. unfold M_SyncBB.better. destruct a; auto. destruct is_min; lia. Qed.

  Lemma better_trans a b c : better a b = true -> better b c = true -> better a c = true.
  Proof.
    unfold M_SyncBB.better. destruct a, b, c; auto; try discriminate. destruct is_min; lia.
  Qed.

  Lemma better_some_false y B : better (Some y) B = false -> exists b, B = Some b /\ nworse b y.
  Proof.
    unfold M_SyncBB.better, nworse. destruct B as [b|]; [|discriminate]. intros H. exists b.
    split; auto. destruct is_min; lia.
  Qed.

  Lemma LB_better B B' f : LB B f -> better B' B = true -> LB B' f.
  Proof.
    intros [b [-> Hb]]. unfold M_SyncBB.better. destruct B' as [b'|]; [|discriminate].
    intros H. exists b'. split; auto. unfold nworse in *. destruct is_min; lia.
  Qed.

  Definition inr (j : Z) : Prop := 0 <= j < n.

  (* the witness part: the bound B is the cost of a total assignment g, and every computation
     either already holds (B, g's value) or holds a strictly worse bound while the path still
     carries g's value for it (it will adopt it when the backward message reaches it) *)
  Definition Wit (st : Z -> nst) (rp : rpath) (B : option Z) : Prop :=
    (B = None /\ forall j, inr j -> ub (st j) = None)
    \/ (exists b g, B = Some b /\ full g /\ path_bound g = b /\
          forall j, inr j ->
            (ub (st j) = B /\ value (st j) = pval g j)
            \/ (better B (ub (st j)) = true /\ pval rp j = pval g j)).

  Definition Fin0 (st : Z -> nst) : Prop := forall j, inr j -> fin (st j) = 0%nat.

  Definition BB (cov : rpath -> Prop) (st : Z -> nst) (rp : rpath) (B : option Z) : Prop :=
    wfp rp /\ (forall f, full f -> cov f -> LB B f) /\ Wit st rp B /\ Fin0 st.

  Definition FinalInv (st : Z -> nst) : Prop :=
    exists g, full g /\ (forall f, full f -> nworse (path_bound g) (path_bound f))
              /\ forall j, inr j -> value (st j) = pval g j.

  Definition TokInv (st : Z -> nst) (k : Z) (m : msg) : Prop :=
    match m with
    | Forward rp _ =>
        0 < k < n /\ Z.of_nat (List.length rp) = k /\ BB (fun f => Expl f rp) st rp (ub (st k))
    | Backward rp u =>
        0 <= k < n - 1 /\ Z.of_nat (List.length rp) = k + 1
        /\ BB (fun f => Expl f rp \/ Ext f rp) st rp u
    | Terminate =>
        0 < k < n /\ FinalInv st /\ (forall j, 0 <= j < k -> fin (st j) = 1%nat)
        /\ (forall j, k <= j < n -> fin (st j) = 0%nat)
    end.

  Definition DoneInv (st : Z -> nst) : Prop :=
    FinalInv st /\ forall j, inr j -> fin (st j) = 1%nat.

  Definition upd (st : Z -> nst) (k : Z) (s : nst) : Z -> nst :=
    fun j => if j =? k then s else st j.

  Lemma upd_same st k s : upd st k s k = s.
  Proof. unfold upd. now rewrite Z.eqb_refl. Qed.
  Lemma upd_other st k s j : j <> k -> upd st k s j = st j.
  Proof. unfold upd. intros H. destruct (j =? k) eqn:E; auto. lia. Qed.

  Lemma Wit_ub st rp B j : Wit st rp B -> wfp rp -> Z.of_nat (List.length rp) <= j -> inr j ->
    ub (st j) = B.
  Proof.
    intros [[-> H]|(b & g & -> & [Hg Hgl] & _ & H)] Hw Hl Hj; auto.
    destruct (H j Hj) as [[H1 _]|[_ H2]]; auto.
    rewrite (pval_none rp j Hw Hl) in H2.
    destruct (pval_some g j Hg) as (v & Hv & _); [unfold inr in Hj; lia|]. congruence.
  Qed.

  (* the state of the other computations and the part of the path below them is unchanged *)
  Lemma Wit_same st st' rp rp' B :
    Wit st rp B -> wfp rp ->
    (forall j, inr j -> ub (st' j) = ub (st j) /\ value (st' j) = value (st j)) ->
    (forall j, 0 <= j < Z.of_nat (List.length rp) -> pval rp' j = pval rp j) ->
    Wit st' rp' B.
  Proof.
    intros [[-> H]|(b & g & -> & Hg & Hb & H)] Hw Hs Hp.
    - left. split; auto. intros j Hj. destruct (Hs j Hj) as [-> _]. auto.
    - right. exists b, g. repeat split; auto; try apply Hg. intros j Hj.
      destruct (Hs j Hj) as [-> ->]. destruct (H j Hj) as [H1|[H1 H2]]; auto.
      right. split; auto. destruct Hg as [Hg Hgl].
      destruct (pval_some g j Hg) as (v & Hv & _); [unfold inr in Hj; lia|].
      rewrite Hp; auto. rewrite Hv in H2. eapply pval_lt; eauto.
  Qed.

  Lemma Fin0_upd st k s : Fin0 st -> fin s = 0%nat -> Fin0 (upd st k s).
  Proof.
    intros H Hs j Hj. unfold upd. destruct (j =? k); auto.
  Qed.

  Lemma upd_id_facts st k j : ub (upd st k (st k) j) = ub (st j) /\ value (upd st k (st k) j) = value (st j).
  Proof. unfold upd. destruct (j =? k) eqn:E; auto. apply Z.eqb_eq in E. now subst. Qed.

  Lemma select_spec k s v c :
    ub (fst (select k s v c)) = ub s /\ value (fst (select k s v c)) = Some v
    /\ fin (fst (select k s v c)) = fin s.
  Proof.
    unfold select. destruct (option_eqb Z.eqb (value s) (Some v)) eqn:E; simpl; auto.
    repeat split; auto. destruct (value s) as [x|]; simpl in E; [|discriminate].
    apply Z.eqb_eq in E. now subst.
  Qed.

  (* hypotheses on the problem *)
  Definition WF : Prop :=
    1 <= n /\ (forall k, inr k -> dom k <> [] /\ NoDup (dom k)) /\ pc_ok.

  (* what a handler leaves behind: nothing in flight and everything finished, or one token *)
  Definition Next (st : Z -> nst) (k : Z) (s' : nst) (outs : list (node * msg)) : Prop :=
    (outs = [] /\ DoneInv (upd st k s'))
    \/ (exists k' m', outs = [(k', m')] /\ TokInv (upd st k s') k' m').

  Lemma full_prefix_exists : WF -> forall m : nat, Z.of_nat m <= n ->
    exists rp, wfp rp /\ List.length rp = m.
  Proof.
    intros (_ & Hdom & _). induction m as [|m IH]; intros Hm.
    - exists []. split; simpl; auto.
    - destruct IH as (rp & Hw & Hl); [lia|].
      destruct (Hdom (Z.of_nat m)) as [Hne _]; [unfold inr; lia|].
      destruct (dom (Z.of_nat m)) as [|v r] eqn:Ed; [congruence|].
      exists ((Z.of_nat m, v, ccost rp (Z.of_nat m) v) :: rp). simpl. rewrite Hl.
      repeat split; auto. rewrite Ed. now left.
  Qed.

  Lemma full_exists : WF -> exists f, full f.
  Proof.
    intros HWF. destruct (full_prefix_exists HWF (Z.to_nat n)) as (f & Hw & Hl).
    - destruct HWF as (Hn & _). lia.
    - exists f. split; auto. destruct HWF as (Hn & _). lia.
  Qed.

  Lemma LB_of_not_better pb cx B f :
    better (Some (pb + cx)) B = false -> path_bound f = cx + pb -> LB B f.
  Proof.
    intros H Hf. destruct (better_some_false _ _ H) as (b & -> & Hb). exists b. split; auto.
    rewrite Hf. replace (cx + pb) with (pb + cx) by lia. auto.
  Qed.

  Lemma last_loop_spec rp k B pb cands : forall bv bb bv' bb',
    last_loop cands rp k B pb bv bb = (bv', bb') ->
    ((bb' = bb /\ bv' = bv) \/
     (exists w cw, In w cands /\ scan rp k w B = Some cw /\ bv' = Some w /\ bb' = Some (pb + cw)
                   /\ better bb' bb = true))
    /\ (forall x cx, In x cands -> scan rp k x B = Some cx -> better (Some (pb + cx)) bb' = false)
    /\ (forall y, better (Some y) bb = false -> better (Some y) bb' = false).
  Proof.
    induction cands as [|x r IH]; cbn [M_SyncBB.last_loop]; intros bv bb bv' bb' H.
    - inversion H; subst. repeat split; auto. intros ? ? [].
    - destruct (M_SyncBB.scan is_min pc rp k x B) as [c|] eqn:E.
      + destruct (better (Some (pb + c)) bb) eqn:Eb.
        * destruct (IH _ _ _ _ H) as (H1 & H2 & H3).
          assert (H3' : forall y, better (Some y) bb = false -> better (Some y) bb' = false).
          { intros y Hy. apply H3. destruct (better (Some y) (Some (pb + c))) eqn:Ey; auto.
            rewrite (better_trans _ _ _ Ey Eb) in Hy. discriminate. }
          split; [|split; auto].
          -- right. destruct H1 as [[-> ->]|(w & cw & Hw & Hs & -> & -> & Hb)].
             ++ exists x, c. repeat split; auto. now left.
             ++ exists w, cw. repeat split; auto. now right. eapply better_trans; eauto.
          -- intros y cy [<-|Hy] Hs.
             ++ rewrite E in Hs. inversion Hs; subst. apply H3. apply better_irrefl.
             ++ eapply H2; eauto.
        * destruct (IH _ _ _ _ H) as (H1 & H2 & H3). split; [|split; auto].
          -- destruct H1 as [H1|(w & cw & Hw & Hs & Hr)]; auto. right. exists w, cw.
             split; [now right|tauto].
          -- intros y cy [<-|Hy] Hs; [|eapply H2; eauto]. rewrite E in Hs. inversion Hs; subst. auto.
      + destruct (IH _ _ _ _ H) as (H1 & H2 & H3). split; [|split; auto].
        * destruct H1 as [H1|(w & cw & Hw & Hs & Hr)]; auto. right. exists w, cw.
          split; [now right|tauto].
        * intros y cy [<-|Hy] Hs; [congruence|eapply H2; eauto].
  Qed.

  Lemma pval_head k val c rest : pval ((k, val, c) :: rest) k = Some val.
  Proof. simpl. now rewrite Z.eqb_refl. Qed.
  Lemma pval_tail k val c rest j : j <> k -> pval ((k, val, c) :: rest) j = pval rest j.
  Proof. simpl. intros H. destruct (k =? j) eqn:E; auto. lia. Qed.

  Lemma Wit_after_back st k val c rest B s1 rp' :
    Wit st ((k, val, c) :: rest) B ->
    ub s1 = (if better B (ub (st k)) then B else ub (st k)) ->
    value s1 = (if better B (ub (st k)) then Some val else value (st k)) ->
    inr k ->
    (forall j, j <> k -> pval rp' j = pval rest j) ->
    Wit (upd st k s1) rp' B /\ ub s1 = B.
  Proof.
    intros [[-> H]|(b & g & -> & Hg & Hb & H)] Hu Hv Hk Hp.
    - assert (better None (ub (st k)) = false) as E by reflexivity. rewrite E in *.
      rewrite (H k Hk) in Hu. split; auto. left. split; auto. intros j Hj. unfold upd.
      destruct (j =? k); auto.
    - assert (Hk1 : ub s1 = Some b /\ value s1 = pval g k).
      { destruct (H k Hk) as [[H1 H2]|[H1 H2]].
        - rewrite H1, better_irrefl in *. rewrite Hu, Hv. auto.
        - rewrite H1 in *. rewrite pval_head in H2. rewrite Hu, Hv. auto. }
      destruct Hk1 as [Hk1 Hk2]. split; auto. right. exists b, g.
      repeat split; auto; try apply Hg.
      intros j Hj. unfold upd. destruct (j =? k) eqn:E.
      + left. apply Z.eqb_eq in E. subst j. auto.
      + assert (j <> k) by lia. destruct (H j Hj) as [H1|[H1 H2]]; auto. right. split; auto.
        rewrite Hp; auto. rewrite pval_tail in H2; auto.
  Qed.

  Lemma Wit_improve st rp B k w b' s1 :
    wfp rp -> Z.of_nat (List.length rp) = k -> k = n - 1 -> Wit st rp B ->
    better (Some b') B = true -> In w (dom k) -> b' = path_bound rp + ccost rp k w ->
    ub s1 = Some b' -> value s1 = Some w ->
    Wit (upd st k s1) rp (Some b').
  Proof.
    intros Hw Hl Hk HW Hb Hin Hb' Hu Hv. right. exists b', ((k, w, ccost rp k w) :: rp).
    split; auto. split; [|split].
    - split. simpl. repeat split; auto. simpl List.length. lia.
    - rewrite path_bound_cons. lia.
    - intros j Hj. unfold upd. destruct (j =? k) eqn:E.
      + left. apply Z.eqb_eq in E. subst j. rewrite pval_head. auto.
      + right. assert (j <> k) by lia. rewrite pval_tail; auto. split; auto.
        destruct HW as [[-> H0]|(b & g & -> & _ & _ & H0)].
        * rewrite (H0 j Hj). reflexivity.
        * destruct (H0 j Hj) as [[H1 _]|[H1 _]].
          -- rewrite H1. exact Hb.
          -- eapply better_trans; eauto.
  Qed.

  Lemma dom_split_upto k mid v suf :
    NoDup (dom k) -> dom k = mid ++ v :: suf -> upto v (dom k) = mid.
  Proof.
    intros Hnd Hd. rewrite Hd. apply upto_app. rewrite Hd in Hnd. eapply NoDup_mid_notin; eauto.
  Qed.

  (* ---- forward message *)
  Lemma fwd_step st k rp u0 s' outs evs :
    WF -> TokInv st k (Forward rp u0) ->
    on_forward is_min n dom pc k (st k) rp = (s', outs, evs) -> Next st k s' outs.
  Proof.
    intros (Hn & Hdom & Hok) (Hk & Hlen & Hwf & Hcov & Hwit & Hfin) H.
    unfold on_forward in H.
    pose proof (next_assignment_spec_l k None rp (ub (st k))) as Hna.
    assert (Hik : inr k) by (unfold inr; lia).
    destruct (Hdom k Hik) as [Hne Hnd].
    assert (Hpr : forall f x, full f -> scan rp k x (ub (st k)) = None -> through f rp x ->
                  LB (ub (st k)) f).
    { intros f x Hf Hs Ht. eapply pruned_covered; eauto. rewrite Hlen; auto. apply Hf. }
    assert (Hback : forall st',
              (forall j, inr j -> ub (st' j) = ub (st j) /\ value (st' j) = value (st j)) ->
              Fin0 st' ->
              (forall x, In x (dom k) -> scan rp k x (ub (st k)) = None) ->
              TokInv st' (k - 1) (Backward rp (ub (st k)))).
    { intros st' Hst Hf0 Hall. simpl. split; [lia|]. split; [lia|]. split; auto.
      split; [|split; auto].
      - intros f Hf [He|He]; auto.
        destruct (ext_step f rp Hf He) as (x & Hx & Ht); [lia|]. rewrite Hlen in Hx.
        apply (Hpr f x); auto.
      - eapply Wit_same; eauto. }
    destruct (next_assignment k None rp (ub (st k))) as [[v c]|] eqn:E.
    - destruct Hna as (mid & suf & Hd & Hmid & Hsc & Hc). simpl in Hd.
      destruct (has_next n k) eqn:Hnx.
      + (* a middle computation: extend the path *)
        injection H as <- <- _. right. exists (k + 1), (Forward ((k, v, c) :: rp) (ub (st k))).
        split; auto. unfold has_next in Hnx. simpl.
        split; [lia|]. split; [simpl List.length; lia|].
        assert (Hub : ub (upd st k (st k) (k + 1)) = ub (st k)).
        { rewrite upd_other by lia. apply (Wit_ub st rp (ub (st k)) (k + 1)); auto.
          lia. unfold inr; lia. }
        rewrite Hub. split; [|split; [|split]].
        * simpl. repeat split; auto. rewrite Hd. apply in_or_app. right. now left.
        * intros f Hf [He|(x & Hx & Ht)]; auto.
          rewrite (dom_split_upto k mid v suf Hnd Hd) in Hx.
          apply (Hpr f x); auto.
        * eapply Wit_same; eauto. intros j _. apply upd_id_facts.
          intros j Hj. apply pval_tail. lia.
        * apply Fin0_upd; auto.
      + (* the last computation: evaluate every value *)
        unfold has_next in Hnx. assert (Hkn : k = n - 1) by lia.
        destruct (last_loop (dom k) rp k (ub (st k)) (path_bound rp) None (ub (st k)))
          as [bv bb] eqn:EL.
        destruct (last_loop_spec _ _ _ _ _ _ _ _ _ EL) as (HL1 & HL2 & HL3).
        assert (Hcov2 : forall f, full f -> Ext f rp -> LB bb f).
        { intros f Hf He. destruct (ext_step f rp Hf He) as (x & Hx & Ht); [lia|].
          rewrite Hlen in Hx.
          destruct (scan rp k x (ub (st k))) as [cx|] eqn:Es.
          - eapply LB_of_not_better. eapply HL2; eauto.
            rewrite (through_last f rp x Hf); [|lia|auto]. apply scan_some in Es.
            rewrite <- Hkn. lia.
          - assert (LB (ub (st k)) f) as HLB by (apply (Hpr f x); auto).
            destruct HL1 as [[-> _]|(w & cw & _ & _ & _ & _ & Hb)]; auto.
            eapply LB_better; eauto. }
        destruct HL1 as [[-> ->]|(w & cw & Hw & Hs & -> & -> & Hb)].
        * (* no improvement *)
          simpl in H. injection H as <- <- _. right.
          exists (k - 1), (Backward rp (ub (st k))). split; auto.
          simpl. split; [lia|]. split; [lia|]. split; auto. split; [|split].
          -- intros f Hf [He|He]; auto.
          -- eapply Wit_same; eauto. intros j _. apply upd_id_facts.
          -- apply Fin0_upd; auto.
        * (* a better total assignment: new bound, new value *)
          pose proof (select_spec k (set_ub (st k) (Some (path_bound rp + cw))) w
                                  (Some (path_bound rp + cw))) as (Su & Sv & Sf).
          destruct (select k (set_ub (st k) (Some (path_bound rp + cw))) w
                           (Some (path_bound rp + cw))) as [s1 e1] eqn:ES.
          simpl in Su, Sv, Sf.
          injection H as <- <- _. right. rewrite Su.
          exists (k - 1), (Backward rp (Some (path_bound rp + cw))). split; auto.
          simpl. split; [lia|]. split; [lia|]. split; auto. split; [|split].
          -- intros f Hf [He|He]; auto. eapply LB_better; eauto.
          -- eapply Wit_improve; eauto. apply scan_some in Hs. subst cw. reflexivity.
          -- apply Fin0_upd; auto. rewrite Sf. apply Hfin; auto.
    - (* no value left: backtrack *)
      destruct (is_first k) eqn:Hf1; [unfold is_first in Hf1; lia|].
      injection H as <- <- _. right. exists (k - 1), (Backward rp (ub (st k))). split; auto.
      apply Hback; auto. intros j _; apply upd_id_facts. apply Fin0_upd; auto.
  Qed.

  (* ---- backward message *)
  Lemma bwd_step st k rp u s' outs evs :
    WF -> TokInv st k (Backward rp u) ->
    on_backward is_min dom pc k (st k) rp u = (s', outs, evs) -> Next st k s' outs.
  Proof.
    intros HWF (Hk & Hlen & Hwf & Hcov & Hwit & Hfin) H. pose proof HWF as (Hn & Hdom & Hok).
    unfold on_backward in H.
    destruct rp as [|[[var val] c] rest]; [simpl in Hlen; lia|].
    pose proof Hwf as (Hvar & Hval & Hc & Hwr). simpl List.length in Hlen.
    assert (Hkl : Z.of_nat (List.length rest) = k) by lia.
    assert (Hvk : var = k) by lia. clear Hvar. subst var.
    assert (Hik : inr k) by (unfold inr; lia).
    destruct (Hdom k Hik) as [_ Hnd].
    (* the conditional adoption of the bound and of the path's value *)
    remember (if better u (ub (st k)) then select k (set_ub (st k) u) val u else (st k, []))
      as s1e eqn:Es1e.
    assert (Hs1 : ub (fst s1e) = (if better u (ub (st k)) then u else ub (st k)) /\
                  value (fst s1e) = (if better u (ub (st k)) then Some val else value (st k)) /\
                  fin (fst s1e) = fin (st k)).
    { subst s1e. destruct (better u (ub (st k))); auto.
      pose proof (select_spec k (set_ub (st k) u) val u) as (A & B' & C). simpl in *. auto. }
    destruct s1e as [s1 e1]. simpl in Hs1. destruct Hs1 as (Hu1 & Hv1 & Hf1). clear Es1e.
    rewrite Z.eqb_refl in H. simpl negb in H. cbv iota in H.
    assert (Hub : ub s1 = u).
    { destruct (Wit_after_back st k val c rest u s1 rest Hwit Hu1 Hv1 Hik) as [_ HH]; auto. }
    pose proof (split_after val (dom k) Hval) as Hsplit.
    pose proof (next_assignment_spec_l k (Some val) rest (ub s1)) as Hna.
    rewrite Hub in H, Hna. simpl candidates in Hna.
    assert (Hcv : forall mid, (forall x, In x mid -> scan rest k x u = None) ->
              forall f w, full f -> In w (upto val (dom k) ++ val :: mid) ->
                          through f rest w -> LB u f).
    { intros mid Hmid f w Hf Hin Ht. apply in_app_or in Hin. destruct Hin as [Hin|[<-|Hin]].
      - apply Hcov; auto. left. simpl. right. exists w. split; auto.
      - apply Hcov; auto. right.
        destruct (through_wfp f rest val (proj1 Hf) Ht) as (_ & _ & ext & Hext).
        exists ext. rewrite Hext, Hkl, <- Hc. reflexivity.
      - eapply pruned_covered; eauto. rewrite Hkl. auto. apply Hf. }
    assert (HF1 : forall s2, fin s2 = fin s1 -> Fin0 (upd st k s2)).
    { intros s2 Hs2. apply Fin0_upd; auto. rewrite Hs2, Hf1. apply Hfin; auto. }
    destruct (next_assignment k (Some val) rest u) as [[v2 c2]|] eqn:E.
    - (* try the next value *)
      destruct Hna as (mid & suf & Hd & Hmid & Hsc & Hc2).
      injection H as <- <- _. right. exists (k + 1), (Forward ((k, v2, c2) :: rest) u).
      split; auto.
      destruct (Wit_after_back st k val c rest u s1 ((k, v2, c2) :: rest) Hwit Hu1 Hv1 Hik)
        as [HW _]. { intros j Hj. apply pval_tail; auto. }
      simpl. split; [lia|]. split; [simpl List.length; lia|].
      assert (ub (upd st k s1 (k + 1)) = u) as ->.
      { eapply Wit_ub; eauto. simpl. repeat split; auto.
        apply (after_incl val). rewrite Hd. apply in_or_app; right; now left.
        simpl List.length; lia. unfold inr; lia. }
      split; [|split; [|split]]; auto.
      + simpl. repeat split; auto. apply (after_incl val). rewrite Hd.
        apply in_or_app; right; now left.
      + intros f Hf [He|(w & Hw & Ht)].
        * apply Hcov; auto. left. simpl. now left.
        * apply (Hcv mid Hmid f w Hf); auto.
          assert (upto v2 (dom k) = upto val (dom k) ++ val :: mid) as <-; auto.
          rewrite Hd in Hsplit.
          assert (Hs2 : dom k = (upto val (dom k) ++ val :: mid) ++ v2 :: suf).
          { rewrite <- app_assoc. exact Hsplit. }
          rewrite Hs2 at 1. apply upto_app. rewrite Hs2 in Hnd. eapply NoDup_mid_notin; eauto.
    - (* every later value is pruned *)
      assert (Hall : forall f, full f -> Ext f rest -> LB u f).
      { intros f Hf He. destruct (ext_step f rest Hf He) as (w & Hw & Ht); [lia|].
        rewrite Hkl in Hw. apply (Hcv (after val (dom k)) Hna f w Hf); auto.
        rewrite <- Hsplit. auto. }
      destruct (is_first k) eqn:Hf0.
      + (* the first computation: the search is over *)
        unfold is_first in Hf0. assert (Hk0 : k = 0) by lia.
        destruct rest; [|simpl in Hkl; lia]. clear Hkl. subst k.
        injection H as <- <- _. right. exists 1, Terminate. split; auto.
        destruct (Wit_after_back st 0 val c [] u (finish s1) [] Hwit Hu1 Hv1 Hik) as [HW _]; auto.
        simpl. split; [lia|]. split; [|split].
        * destruct (full_exists HWF) as [f0 Hf0'].
          destruct (Hall f0 Hf0') as (b & -> & Hb0). { exists f0. now rewrite app_nil_r. }
          destruct HW as [[HN _]|(b' & g & Hbb & Hg & Hpb & HJ)]; [discriminate|].
          injection Hbb as <-. exists g. split; auto. split.
          -- intros f Hf. destruct (Hall f Hf) as (b2 & Hb2 & Hnw).
             { exists f. now rewrite app_nil_r. }
             injection Hb2 as <-. rewrite Hpb. auto.
          -- intros j Hj. destruct (HJ j Hj) as [[_ H2]|[_ H2]]; auto.
             simpl in H2. destruct (pval_some g j (proj1 Hg)) as (x & Hx & _).
             { destruct Hg as [_ Hgl]. unfold inr in Hj. lia. }
             congruence.
        * intros j Hj. assert (j = 0) by lia. subst j. rewrite upd_same. simpl.
          rewrite Hf1. rewrite Hfin; auto.
        * intros j Hj. rewrite upd_other by lia. apply Hfin. unfold inr. lia.
      + (* backtrack further *)
        unfold is_first in Hf0.
        injection H as <- <- _. right. exists (k - 1), (Backward rest u). split; auto.
        destruct (Wit_after_back st k val c rest u s1 rest Hwit Hu1 Hv1 Hik) as [HW _]; auto.
        simpl. split; [lia|]. split; [lia|]. split; auto. split; [|split]; auto.
        intros f Hf [He|He]; auto. apply Hcov; auto. left; simpl; now left.
  Qed.

  (* ---- terminate message *)
  Lemma term_step st k s' outs evs :
    TokInv st k Terminate -> on_terminate n k (st k) = (s', outs, evs) -> Next st k s' outs.
  Proof.
    intros (Hk & Hfi & Hd1 & Hd0) H. unfold on_terminate in H.
    assert (HF : FinalInv (upd st k (finish (st k)))).
    { destruct Hfi as (g & Hg & Hopt & Hv). exists g. repeat split; auto; try apply Hg.
      intros j Hj. unfold upd. destruct (j =? k) eqn:E; auto.
      apply Z.eqb_eq in E; subst; simpl; auto. }
    assert (Hfk : fin (finish (st k)) = 1%nat) by (simpl; rewrite Hd0; auto; lia).
    destruct (has_next n k) eqn:Hnx; injection H as <- <- _; unfold has_next in Hnx.
    - right. exists (k + 1), Terminate. split; auto. simpl. split; [lia|]. split; auto.
      split; intros j Hj; unfold upd; destruct (j =? k) eqn:E; auto; try lia.
      + apply Hd1; lia.
      + apply Hd0; lia.
    - left. split; auto. split; auto. intros j Hj. unfold upd, inr in *.
      destruct (j =? k) eqn:E; auto. apply Hd1; lia.
  Qed.

  Lemma tok_step st k src m s' outs evs :
    WF -> TokInv st k m ->
    on_recv is_min n dom pc k (st k) src m = (s', outs, evs) -> Next st k s' outs.
  Proof.
    intros HWF HT H. destruct m as [rp u0|rp u|]; simpl in H.
    - eapply fwd_step; eauto.
    - eapply bwd_step; eauto.
    - eapply term_step; eauto.
  Qed.

  (* ---- start of the first computation *)
  Lemma start_step st s' outs evs :
    WF -> (forall j, st j = init_st j) ->
    on_start n dom 0 (st 0) = (s', outs, evs) -> Next st 0 s' outs.
  Proof.
    intros (Hn & Hdom & Hok) Hinit H. unfold on_start in H. simpl is_first in H. cbv iota in H.
    destruct (Hdom 0) as [Hne Hnd]; [unfold inr; lia|].
    destruct (dom 0) as [|d0 r] eqn:Ed; [congruence|].
    destruct (has_next n 0) eqn:Hnx; unfold has_next in Hnx.
    - injection H as <- <- _. right. exists (0 + 1), (Forward [(0, d0, 0)] None). split; auto.
      simpl. split; [lia|]. split; [reflexivity|].
      assert (Hub : forall j, ub (upd st 0 (st 0) j) = None).
      { intros j. destruct (upd_id_facts st 0 j) as [-> _]. rewrite Hinit. reflexivity. }
      rewrite Hub. split; [|split; [|split]].
      + simpl. repeat split; auto. rewrite Ed. now left.
      + intros f Hf [[]|(x & Hx & _)]. rewrite Ed in Hx. simpl in Hx.
        rewrite Z.eqb_refl in Hx. destruct Hx.
      + left. split; auto.
      + intros j Hj. unfold upd. destruct (j =? 0); rewrite Hinit; reflexivity.
    - pose proof (select_spec 0 (st 0) d0 (Some 0)) as (Su & Sv & Sf).
      destruct (select 0 (st 0) d0 (Some 0)) as [s1 e1]. simpl in Su, Sv, Sf.
      injection H as <- <- _. left. split; auto. assert (n = 1) by lia.
      split.
      + exists [(0, d0, 0)]. split; [|split].
        * split; simpl; [|lia]. repeat split; auto. rewrite Ed. now left.
        * intros f [Hw Hl]. destruct f as [|[[j v] c] [|e f]]; simpl in Hl; try lia.
          destruct Hw as (_ & _ & -> & _). unfold path_bound, ccost, nworse. simpl.
          destruct is_min; lia.
        * intros j Hj. assert (j = 0) by (unfold inr in Hj; lia). subst j.
          rewrite upd_same. simpl. rewrite Sv. reflexivity.
      + intros j Hj. assert (j = 0) by (unfold inr in Hj; lia). subst j.
        rewrite upd_same. simpl. rewrite Sf, Hinit. reflexivity.
  Qed.

  (* ---------------------------------------------------------------- 3b. termination measure
     T k bounds the handler steps between a forward message reaching computation k and the
     matching backward message leaving it; a path element weighs the work still to do for the
     values after it in its domain. *)
  Definition dsz (j : Z) : nat := List.length (dom j).
  Fixpoint Tf (fuel : nat) (k : Z) : nat :=
    match fuel with
    | O => 1
    | S m => 1 + dsz k * (Tf m (k + 1) + 1)
    end.
  Definition T (k : Z) : nat := Tf (Z.to_nat (n - k)) k.

  Lemma T_unfold k : k < n -> T k = (1 + dsz k * (T (k + 1) + 1))%nat.
  Proof.
    intros H. unfold T. replace (Z.to_nat (n - k)) with (S (Z.to_nat (n - (k + 1)))) by lia.
    reflexivity.
  Qed.
  Lemma T_pos k : (1 <= T k)%nat.
  Proof. unfold T. destruct (Z.to_nat (n - k)); simpl; lia. Qed.

  Definition wt (e : elt) : nat :=
    1 + List.length (after (e_val e) (dom (e_var e))) * (T (e_var e + 1) + 1).
  Fixpoint W (rp : rpath) : nat := match rp with [] => 0%nat | e :: r => (wt e + W r)%nat end.

  Definition mu (k : Z) (m : msg) : nat :=
    match m with
    | Forward rp _ => T k + W rp + Z.to_nat n
    | Backward rp _ => W rp + Z.to_nat n
    | Terminate => Z.to_nat (n - k)
    end.

  Lemma after_len_lt v d : In v d -> (List.length (after v d) + 1 <= List.length d)%nat.
  Proof.
    intros H. rewrite (split_after v d H) at 2. rewrite app_length. simpl. lia.
  Qed.

  Lemma mu_fwd st k rp u0 s' evs k' m' : TokInv st k (Forward rp u0) ->
    on_forward is_min n dom pc k (st k) rp = (s', [(k', m')], evs) ->
    (mu k' m' < mu k (Forward rp u0))%nat.
  Proof.
    intros (Hk & Hlen & _) H. unfold on_forward in H. pose proof (T_pos k) as HT.
    pose proof (next_assignment_spec_l k None rp (ub (st k))) as Hna.
    destruct (next_assignment k None rp (ub (st k))) as [[v c]|].
    - destruct Hna as (mid & suf & Hd & _). simpl in Hd.
      destruct (has_next n k) eqn:Hnx.
      + inversion H; subst; clear H. unfold has_next in Hnx. cbn [mu W].
        rewrite (T_unfold (Z.of_nat (List.length rp))) by lia.
        unfold wt. cbn [e_var e_val fst snd].
        assert (Hin : In v (dom (Z.of_nat (List.length rp)))).
        { rewrite Hd. apply in_or_app. right. now left. }
        pose proof (after_len_lt _ _ Hin). unfold dsz. nia.
      + destruct (last_loop (dom k) rp k (ub (st k)) (path_bound rp) None (ub (st k))) as [bv bb].
        destruct bv as [w|].
        * destruct (select k (set_ub (st k) bb) w bb) as [s1 e1]. inversion H; subst. simpl. lia.
        * inversion H; subst. simpl. lia.
    - destruct (is_first k); inversion H; subst; simpl; lia.
  Qed.

  Lemma mu_bwd st k rp u s' evs k' m' : WF -> TokInv st k (Backward rp u) ->
    on_backward is_min dom pc k (st k) rp u = (s', [(k', m')], evs) ->
    (mu k' m' < mu k (Backward rp u))%nat.
  Proof.
    intros (Hn & Hdom & _) (Hk & Hlen & Hwf & _) H. unfold on_backward in H.
    destruct rp as [|[[var val] c] rest]; [simpl in Hlen; lia|].
    pose proof Hwf as (Hvar & Hval & _). simpl List.length in Hlen.
    assert (Hvk : var = k) by lia. clear Hvar. subst var.
    destruct (Hdom k) as [_ Hnd]; [unfold inr; lia|].
    destruct (if better u (ub (st k)) then select k (set_ub (st k) u) val u else (st k, []))
      as [s1 e1].
    rewrite Z.eqb_refl in H. simpl negb in H. cbv iota in H.
    pose proof (next_assignment_spec_l k (Some val) rest (ub s1)) as Hna.
    destruct (next_assignment k (Some val) rest (ub s1)) as [[v2 c2]|].
    - destruct Hna as (mid & suf & Hd & _). simpl in Hd.
      inversion H; subst; clear H. cbn [mu W]. unfold wt. cbn [e_var e_val fst snd].
      pose proof (split_after val (dom k) Hval) as Hsplit. rewrite Hd in Hsplit.
      assert (Hs2 : dom k = (upto val (dom k) ++ val :: mid) ++ v2 :: suf).
      { rewrite <- app_assoc. exact Hsplit. }
      assert (Ha2 : after v2 (dom k) = suf).
      { rewrite Hs2 at 1. apply after_app. rewrite Hs2 in Hnd. eapply NoDup_mid_notin; eauto. }
      rewrite Ha2, Hd, app_length. simpl List.length. nia.
    - destruct (is_first k); inversion H; subst; cbn [mu W]; unfold wt; lia.
  Qed.

  Lemma mu_step st k src m s' evs k' m' : WF -> TokInv st k m ->
    on_recv is_min n dom pc k (st k) src m = (s', [(k', m')], evs) -> (mu k' m' < mu k m)%nat.
  Proof.
    intros HWF HT H. destruct m as [rp u0|rp u|]; simpl in H.
    - eapply mu_fwd; eauto.
    - eapply mu_bwd; eauto.
    - unfold on_terminate in H. destruct HT as (Hk & _).
      destruct (has_next n k) eqn:Hnx; inversion H; subst. simpl. lia.
  Qed.

  (* ---------------------------------------------------------------- 4. the network, any schedule *)
  Definition P : proto nst msg ev := syncbb_proto is_min n dom pc.
  Notation cfg := (config nst msg).

  Definition sts (cf : cfg) : Z -> nst := fun j => w_st (nodes cf j).
  Definition quiet (cf : cfg) : Prop := forall a b, chan cf a b = [].
  Definition noheld (cf : cfg) : Prop := forall a, w_held (nodes cf a) = [].

  Lemma TokInv_range st k m : TokInv st k m -> inr k.
  Proof. destruct m; simpl; intros (Hk & _); unfold inr; lia. Qed.

  (* computations of the problem that have not started yet *)
  Definition zrange : list Z := map Z.of_nat (seq 0 (Z.to_nat n)).
  Definition unst (f : node -> nwrap nst msg) : nat :=
    List.length (filter (fun j => negb (w_running (f j))) zrange).
  Definition unstarted (cf : cfg) : nat := unst (nodes cf).

  Lemma zrange_In j : In j zrange <-> inr j.
  Proof.
    unfold zrange, inr. rewrite in_map_iff. split.
    - intros (x & <- & Hx). apply in_seq in Hx. lia.
    - intros H. exists (Z.to_nat j). split; [lia|]. apply in_seq. lia.
  Qed.
  Lemma zrange_NoDup : NoDup zrange.
  Proof.
    unfold zrange. apply FinFun.Injective_map_NoDup; [|apply seq_NoDup]. intros a b H; lia.
  Qed.

  Lemma filter_len_ext (p q : Z -> bool) l :
    (forall x, In x l -> p x = q x) -> List.length (filter p l) = List.length (filter q l).
  Proof.
    induction l as [|a l IH]; simpl; intros H; auto. rewrite (H a) by now left.
    destruct (q a); simpl; rewrite IH; auto; intros; apply H; now right.
  Qed.

  Lemma filter_len_flip (p q : Z -> bool) l j :
    NoDup l -> In j l -> p j = true -> q j = false -> (forall x, x <> j -> p x = q x) ->
    List.length (filter p l) = S (List.length (filter q l)).
  Proof.
    induction l as [|a l IH]; intros Hnd Hin Hp Hq Hne; [destruct Hin|].
    inversion Hnd; subst. simpl. destruct (Z.eq_dec a j) as [->|Haj].
    - rewrite Hp, Hq. simpl. f_equal. apply filter_len_ext. intros x Hx. apply Hne.
      intros ->. contradiction.
    - destruct Hin as [->|Hin]; [congruence|]. rewrite (Hne a Haj).
      destruct (q a); simpl; rewrite (IH H2 Hin Hp Hq Hne); auto.
  Qed.

  Lemma unst_start f j s' hl : inr j -> w_running (f j) = false ->
    unst f = S (unst (upd_node f j (mkWrap true hl s'))).
  Proof.
    intros Hj Hr. unfold unst. apply filter_len_flip with (j := j).
    - apply zrange_NoDup.
    - now apply zrange_In.
    - now rewrite Hr.
    - unfold upd_node. now rewrite Z.eqb_refl.
    - intros x Hx. unfold upd_node. destruct (x =? j) eqn:E; auto. lia.
  Qed.
  Lemma unst_same f j w' : w_running w' = w_running (f j) -> unst (upd_node f j w') = unst f.
  Proof.
    intros H. unfold unst. apply filter_len_ext. intros x _. unfold upd_node.
    destruct (x =? j) eqn:E; auto. apply Z.eqb_eq in E. subst. now rewrite H.
  Qed.
  Lemma unst_out f j w' : ~ inr j -> unst (upd_node f j w') = unst f.
  Proof.
    intros H. unfold unst. apply filter_len_ext. intros x Hx. apply zrange_In in Hx.
    unfold upd_node. destruct (x =? j) eqn:E; auto. apply Z.eqb_eq in E. subst. contradiction.
  Qed.

  (* potential of the very first token *)
  Definition M0 : nat := mu 1 (Forward [(0, hd 0 (dom 0), 0)] None).

  (* the whole network holds at most one message: none before the first computation starts,
     one token (in a channel, or buffered by a computation that has not started yet), none after
     the last terminate message.  The index is a potential that every effective step decreases. *)
  Inductive Inv (cf : cfg) : nat -> Prop :=
  | InvInit : quiet cf -> noheld cf -> w_running (nodes cf 0) = false ->
              (forall j, sts cf j = init_st j) -> Inv cf (2 * unstarted cf + 2 * M0 + 2)
  | InvTok k s m : chan cf s k = [m] -> (forall a b, a <> s \/ b <> k -> chan cf a b = []) ->
              noheld cf -> w_running (nodes cf 0) = true -> TokInv (sts cf) k m ->
              Inv cf (2 * unstarted cf + 2 * mu k m + 1)
  | InvHeld k s m : quiet cf -> w_running (nodes cf k) = false ->
              w_held (nodes cf k) = [(s, m)] -> (forall a, a <> k -> w_held (nodes cf a) = []) ->
              w_running (nodes cf 0) = true -> TokInv (sts cf) k m ->
              Inv cf (2 * unstarted cf + 2 * mu k m)
  | InvDone : quiet cf -> noheld cf -> w_running (nodes cf 0) = true -> DoneInv (sts cf) ->
              Inv cf (2 * unstarted cf).

  Lemma Wit_ext st st' rp B : (forall j, st' j = st j) -> Wit st rp B -> Wit st' rp B.
  Proof.
    intros He [[-> H]|(b & g & -> & Hg & Hb & H)]; [left|right].
    - split; auto. intros j Hj. rewrite He. auto.
    - exists b, g. repeat split; auto; try apply Hg. intros j Hj. rewrite He. auto.
  Qed.

  Lemma FinalInv_ext st st' : (forall j, st' j = st j) -> FinalInv st -> FinalInv st'.
  Proof.
    intros He (g & Hg & Ho & Hv). exists g. repeat split; auto; try apply Hg.
    intros j Hj. rewrite He. auto.
  Qed.

  Lemma TokInv_ext st st' k m : (forall j, st' j = st j) -> TokInv st k m -> TokInv st' k m.
  Proof.
    intros He. destruct m as [rp u0|rp u|]; simpl.
    - intros (Hk & Hl & Hw & Hc & HW & HF). rewrite He. repeat split; auto; try apply Hk.
      + eapply Wit_ext; eauto.
      + intros j Hj. rewrite He. auto.
    - intros (Hk & Hl & Hw & Hc & HW & HF). repeat split; auto; try apply Hk.
      + eapply Wit_ext; eauto.
      + intros j Hj. rewrite He. auto.
    - intros (Hk & HF & H1 & H0). repeat split; auto; try apply Hk.
      + eapply FinalInv_ext; eauto.
      + intros j Hj. rewrite He. auto.
      + intros j Hj. rewrite He. auto.
  Qed.

  Lemma DoneInv_ext st st' : (forall j, st' j = st j) -> DoneInv st -> DoneInv st'.
  Proof.
    intros He [HF H1]. split; [eapply FinalInv_ext; eauto|]. intros j Hj. rewrite He. auto.
  Qed.

  Lemma upd_node_same (f : node -> nwrap nst msg) x w : upd_node f x w x = w.
  Proof. unfold upd_node. now rewrite Z.eqb_refl. Qed.
  Lemma upd_node_other (f : node -> nwrap nst msg) x w y : y <> x -> upd_node f x w y = f y.
  Proof. unfold upd_node. intros H. destruct (y =? x) eqn:E; auto. lia. Qed.
  Lemma upd_chan_same {M} (c : node -> node -> list M) s d l : upd_chan c s d l s d = l.
  Proof. unfold upd_chan. now rewrite !Z.eqb_refl. Qed.
  Lemma upd_chan_other {M} (c : node -> node -> list M) s d l x y :
    x <> s \/ y <> d -> upd_chan c s d l x y = c x y.
  Proof.
    unfold upd_chan. intros H. destruct (x =? s) eqn:E1; destruct (y =? d) eqn:E2; auto. lia.
  Qed.

  Lemma start_other n0 s : n0 <> 0 -> on_start n dom n0 s = (s, [], []).
  Proof.
    intros H. unfold on_start, is_first. destruct (n0 =? 0) eqn:E; auto. lia.
  Qed.

  Lemma sts_upd_node cf k hb hl s' j chans :
    sts (mkConfig (upd_node (nodes cf) k (mkWrap hb hl s')) chans) j = upd (sts cf) k s' j.
  Proof. unfold sts, upd, upd_node. simpl. destruct (j =? k); reflexivity. Qed.

  Lemma upd_self st k j : upd st k (st k) j = st j.
  Proof. unfold upd. destruct (j =? k) eqn:E; auto. apply Z.eqb_eq in E. now subst. Qed.

  Lemma start_mu s s' outs evs k' m' :
    on_start n dom 0 s = (s', outs, evs) -> outs = [(k', m')] -> mu k' m' = M0.
  Proof.
    unfold on_start. simpl is_first. cbv iota. unfold M0.
    destruct (dom 0) as [|d0 r]; [intros H; inversion H; subst; discriminate|].
    destruct (has_next n 0).
    - intros H; inversion H; subst. intros H2; inversion H2; subst. reflexivity.
    - destruct (select 0 s d0 (Some 0)). intros H; inversion H; subst. discriminate.
  Qed.

  (* a handler result turned into the next network invariant *)
  Lemma next_inv cf k s' outs hl chans phi0 :
    Next (sts cf) k s' outs -> (forall a b, chans a b = []) ->
    (forall a, w_held (nodes cf a) = []) -> hl = [] ->
    (k = 0 \/ w_running (nodes cf 0) = true) ->
    (forall k' m', outs = [(k', m')] -> (2 * mu k' m' + 1 < phi0)%nat) -> (0 < phi0)%nat ->
    exists phi', Inv (mkConfig (upd_node (nodes cf) k (mkWrap true hl s')) (send_all chans k outs)) phi'
      /\ (phi' < 2 * unst (upd_node (nodes cf) k (mkWrap true hl s')) + phi0)%nat.
  Proof.
    intros HN Hq Hnh -> Hr Hmu Hpos.
    assert (Hr0 : w_running (upd_node (nodes cf) k (mkWrap true [] s') 0) = true).
    { unfold upd_node. destruct (0 =? k) eqn:E; auto. destruct Hr; auto. lia. }
    assert (Hh : forall a, w_held (upd_node (nodes cf) k (mkWrap true [] s') a) = []).
    { intros a. unfold upd_node. destruct (a =? k); auto. }
    destruct HN as [[-> HD]|(k' & m' & -> & HT)].
    - eexists. split.
      + apply InvDone; unfold quiet, noheld in *; simpl; auto.
        eapply DoneInv_ext; [|exact HD]. intros j. apply sts_upd_node.
      + unfold unstarted. cbn [nodes]. lia.
    - eexists. split.
      + apply (InvTok _ k' k m'); unfold quiet, noheld in *; simpl; auto.
        * rewrite upd_chan_same, Hq. reflexivity.
        * intros a b Hab. rewrite upd_chan_other; auto.
        * eapply TokInv_ext; [|exact HT]. intros j. apply sts_upd_node.
      + unfold unstarted. cbn [nodes]. specialize (Hmu k' m' eq_refl). lia.
  Qed.

  (* an action that changes the configuration: the start of a computation of the problem that
     has not started yet, or the delivery of a message *)
  Definition effective (cf : cfg) (a : action) : bool :=
    match a with
    | Start j => (0 <=? j) && (j <? n) && negb (w_running (nodes cf j))
    | Deliver s d => match chan cf s d with [] => false | _ => true end
    end.

  Lemma inv_step cf a phi : WF -> Inv cf phi ->
    exists phi', Inv (fst (step P cf a)) phi' /\ (phi' <= phi)%nat
                 /\ (effective cf a = true -> (phi' < phi)%nat).
  Proof.
    intros HWF HI. destruct a as [n0|s0 d0]; simpl.
    - (* Start n0 *)
      destruct (w_running (nodes cf n0)) eqn:Er.
      { exists phi. split; auto. split; auto. rewrite andb_false_r. discriminate. }
      destruct (Z.eq_dec n0 0) as [->|Hn0].
      + (* the first computation starts: the token is created *)
        destruct HI as [Hq Hnh Hr0 Hin|k s m _ _ _ Hr0 _|k s m _ _ _ _ Hr0 _|_ _ Hr0 _];
          try congruence.
        destruct (on_start n dom 0 (w_st (nodes cf 0))) as [[s' outs] evs] eqn:Eo. simpl.
        rewrite (Hnh 0). simpl.
        assert (H0r : inr 0) by (destruct HWF; unfold inr; lia).
        destruct (next_inv cf 0 s' outs [] (chan cf) (2 * M0 + 2)) as (phi' & HI' & Hlt); auto.
        { eapply start_step; eauto. }
        { intros k' m' ->. rewrite (start_mu _ _ _ _ _ _ Eo eq_refl). lia. }
        { lia. }
        exists phi'. split; auto.
        pose proof (unst_start (nodes cf) 0 s' [] H0r Er) as HU. unfold unstarted.
        split; [lia|intros _; lia].
      + (* another computation starts: on_start does nothing, a held token is re-injected *)
        rewrite (start_other n0 _ Hn0). simpl.
        set (w := nodes cf n0).
        assert (Hs : forall chans j,
                  sts (mkConfig (upd_node (nodes cf) n0 (mkWrap true [] (w_st w))) chans) j
                  = sts cf j).
        { intros chans j. rewrite sts_upd_node. apply upd_self. }
        assert (HU1 : inr n0 -> unst (nodes cf) = S (unst (upd_node (nodes cf) n0 (mkWrap true [] (w_st w))))).
        { intros Hi. apply unst_start; auto. }
        assert (HU2 : ~ inr n0 -> unst (upd_node (nodes cf) n0 (mkWrap true [] (w_st w))) = unst (nodes cf)).
        { intros Hi. apply unst_out; auto. }
        assert (Hdec : inr n0 \/ (~ inr n0 /\ (0 <=? n0) && (n0 <? n) = false)).
        { unfold inr. destruct (0 <=? n0) eqn:E1; destruct (n0 <? n) eqn:E2; simpl; [left|right..]; lia. }
        destruct HI as [Hq Hnh Hr0 Hin|k s m Hc Hoth Hnh Hr0 HT|k s m Hq Hrk Hhk Hho Hr0 HT
                        |Hq Hnh Hr0 HD].
        * unfold w. rewrite (Hnh n0). simpl. eexists. split.
          { apply InvInit; unfold quiet, noheld in *; simpl; auto.
            -- intros a. unfold upd_node. destruct (a =? n0); simpl; auto.
            -- rewrite upd_node_other; auto.
            -- intros j. rewrite Hs. auto. }
          unfold unstarted. cbn [nodes]. fold w.
          destruct Hdec as [Hi|[Hi Hb]]; [rewrite (HU1 Hi)|rewrite (HU2 Hi), Hb]; split; try lia; discriminate.
        * unfold w. rewrite (Hnh n0). simpl. eexists. split.
          { apply (InvTok _ k s m); unfold quiet, noheld in *; simpl; auto.
            -- intros a. unfold upd_node. destruct (a =? n0); simpl; auto.
            -- rewrite upd_node_other; auto.
            -- eapply TokInv_ext; [|exact HT]. apply Hs. }
          unfold unstarted. cbn [nodes]. fold w.
          destruct Hdec as [Hi|[Hi Hb]]; [rewrite (HU1 Hi)|rewrite (HU2 Hi), Hb]; split; try lia; discriminate.
        * destruct (Z.eq_dec n0 k) as [->|Hnk].
          -- unfold w. rewrite Hhk. simpl. eexists. split.
             { apply (InvTok _ k s m); unfold quiet, noheld in *; simpl; auto.
               ++ rewrite upd_chan_same, Hq. reflexivity.
               ++ intros a b Hab. rewrite upd_chan_other; auto.
               ++ intros a. unfold upd_node. destruct (a =? k) eqn:E; auto. apply Hho. lia.
               ++ rewrite upd_node_other; auto.
               ++ eapply TokInv_ext; [|exact HT]. apply Hs. }
             unfold unstarted. cbn [nodes]. fold w.
             rewrite (HU1 (TokInv_range _ _ _ HT)). split; [lia|intros _; lia].
          -- unfold w. rewrite (Hho n0 Hnk). simpl. eexists. split.
             { apply (InvHeld _ k s m); unfold quiet, noheld in *; simpl; auto.
               ++ rewrite upd_node_other; auto.
               ++ rewrite upd_node_other; auto.
               ++ intros a Ha. unfold upd_node. destruct (a =? n0); simpl; auto.
               ++ rewrite upd_node_other; auto.
               ++ eapply TokInv_ext; [|exact HT]. apply Hs. }
             unfold unstarted. cbn [nodes]. fold w.
             destruct Hdec as [Hi|[Hi Hb]]; [rewrite (HU1 Hi)|rewrite (HU2 Hi), Hb]; split; try lia; discriminate.
        * unfold w. rewrite (Hnh n0). simpl. eexists. split.
          { apply InvDone; unfold quiet, noheld in *; simpl; auto.
            -- intros a. unfold upd_node. destruct (a =? n0); simpl; auto.
            -- rewrite upd_node_other; auto.
            -- eapply DoneInv_ext; [|exact HD]. apply Hs. }
          unfold unstarted. cbn [nodes]. fold w.
          destruct Hdec as [Hi|[Hi Hb]]; [rewrite (HU1 Hi)|rewrite (HU2 Hi), Hb]; split; try lia; discriminate.
    - (* Deliver s0 d0 *)
      destruct (chan cf s0 d0) as [|m0 q] eqn:Ec.
      { exists phi. split; auto. split; auto. discriminate. }
      destruct HI as [Hq Hnh Hr0 Hin|k s m Hc Hoth Hnh Hr0 HT|k s m Hq Hrk Hhk Hho Hr0 HT
                      |Hq Hnh Hr0 HD]; try (rewrite Hq in Ec; discriminate).
      destruct (Z.eq_dec s0 s) as [->|Hs0]; [|rewrite Hoth in Ec; [discriminate|auto]].
      destruct (Z.eq_dec d0 k) as [->|Hd0]; [|rewrite Hoth in Ec; [discriminate|auto]].
      rewrite Hc in Ec. injection Ec as <- <-.
      assert (Hq0 : forall a b, upd_chan (chan cf) s k [] a b = []).
      { intros a b. unfold upd_chan. destruct (a =? s) eqn:E1; destruct (b =? k) eqn:E2; simpl; auto;
          apply Hoth; lia. }
      destruct (w_running (nodes cf k)) eqn:Erk.
      + destruct (on_recv is_min n dom pc k (w_st (nodes cf k)) s m) as [[s' outs] evs] eqn:Eo.
        simpl.
        destruct (next_inv cf k s' outs (w_held (nodes cf k)) (upd_chan (chan cf) s k [])
                           (2 * mu k m + 1)) as (phi' & HI' & Hlt); auto.
        { eapply tok_step; eauto. }
        { intros k' m' ->. pose proof (mu_step _ _ _ _ _ _ _ _ HWF HT Eo). lia. }
        { lia. }
        exists phi'. split; auto. rewrite unst_same in Hlt by (simpl; auto).
        unfold unstarted. split; [lia|intros _; lia].
      + simpl. rewrite (Hnh k). simpl. eexists. split.
        { apply (InvHeld _ k s m); unfold quiet, noheld in *; simpl; auto.
          * rewrite upd_node_same. reflexivity.
          * rewrite upd_node_same. reflexivity.
          * intros a Ha. rewrite upd_node_other; auto.
          * rewrite upd_node_other; auto. intros E0. rewrite <- E0 in Erk. congruence.
          * eapply TokInv_ext; [|exact HT]. intros j. rewrite sts_upd_node. apply upd_self. }
        unfold unstarted. cbn [nodes]. rewrite unst_same by (simpl; auto).
        split; [lia|intros _; lia].
  Qed.

  Lemma inv_reachable cf : WF -> reachable P cf -> exists phi, Inv cf phi.
  Proof.
    intros HWF H. induction H as [|cf a H [phi IH]].
    - eexists. apply InvInit; unfold quiet, noheld; simpl; auto; intros ?; reflexivity.
    - destruct (inv_step cf a phi HWF IH) as (phi' & HI & _). eauto.
  Qed.

  Lemma bb_inv_l sched : WF -> exists phi, Inv (fst (run P sched)) phi.
  Proof. intros H. apply inv_reachable; [exact H|]. apply exec_reachable. constructor. Qed.

  (* ---- what the invariant gives *)
  Definition one_message (cf : cfg) : Prop :=
    (forall a b, (List.length (chan cf a b) <= 1)%nat) /\
    (forall a, (List.length (w_held (nodes cf a)) <= 1)%nat) /\
    (forall a b a' b', chan cf a b <> [] -> chan cf a' b' <> [] -> a = a' /\ b = b') /\
    (forall a a', w_held (nodes cf a) <> [] -> w_held (nodes cf a') <> [] -> a = a') /\
    (forall a b c, chan cf a b <> [] -> w_held (nodes cf c) = []).

  Lemma inv_one_message cf phi : Inv cf phi -> one_message cf.
  Proof.
    intros [Hq Hnh Hr0 Hin|k s m Hc Hoth Hnh Hr0 HT|k s m Hq Hrk Hhk Hho Hr0 HT|Hq Hnh Hr0 HD];
      unfold one_message, quiet, noheld in *.
    - repeat split; intros; try rewrite Hq in *; try rewrite Hnh in *; simpl; auto; congruence.
    - repeat split; intros; try rewrite Hnh in *; simpl; auto; try congruence.
      + destruct (Z.eq_dec a s) as [->|]; [destruct (Z.eq_dec b k) as [->|]|];
          [rewrite Hc; simpl; lia| |]; rewrite Hoth; simpl; auto.
      + destruct (Z.eq_dec a s) as [->|]; [|rewrite Hoth in H; auto; congruence].
        destruct (Z.eq_dec a' s) as [->|]; [|rewrite Hoth in H0; auto; congruence]. reflexivity.
      + destruct (Z.eq_dec b k) as [->|]; [|rewrite Hoth in H; auto; congruence].
        destruct (Z.eq_dec b' k) as [->|]; [|rewrite Hoth in H0; auto; congruence]. reflexivity.
    - repeat split; intros; try rewrite Hq in *; simpl; auto; try congruence.
      + destruct (Z.eq_dec a k) as [->|]; [rewrite Hhk; simpl; lia|rewrite Hho; simpl; auto].
      + destruct (Z.eq_dec a k) as [->|]; [|rewrite Hho in H; auto; congruence].
        destruct (Z.eq_dec a' k) as [->|]; [|rewrite Hho in H0; auto; congruence]. reflexivity.
    - repeat split; intros; try rewrite Hq in *; try rewrite Hnh in *; simpl; auto; congruence.
  Qed.

  Lemma TokInv_fin st k m : WF -> TokInv st k m ->
    (forall j, inr j -> (fin (st j) <= 1)%nat) /\ ((1 <= fin (st 0%Z))%nat -> FinalInv st).
  Proof.
    intros (Hn & _) HT. assert (H0 : inr 0) by (unfold inr; lia).
    destruct m as [rp u0|rp u|]; simpl in HT.
    - destruct HT as (_ & _ & _ & _ & _ & HF). split.
      + intros j Hj. rewrite HF; auto.
      + rewrite HF; auto. lia.
    - destruct HT as (_ & _ & _ & _ & _ & HF). split.
      + intros j Hj. rewrite HF; auto.
      + rewrite HF; auto. lia.
    - destruct HT as (Hk & HF & H1 & H0'). split; auto.
      intros j Hj. unfold inr in Hj. destruct (Z_lt_le_dec j k); [rewrite H1|rewrite H0']; lia.
  Qed.

  Lemma syncbb_one_token_l sched : WF -> one_message (fst (run P sched)).
  Proof.
    intros HWF. destruct (inv_reachable (fst (run P sched)) HWF) as [phi HI].
    - apply exec_reachable. constructor.
    - eapply inv_one_message; eauto.
  Qed.

  (* optimality: as soon as the first computation has finished, the held values are an optimum *)
  Lemma syncbb_optimal_l sched : WF ->
    (1 <= fin (sts (fst (run P sched)) 0%Z))%nat -> FinalInv (sts (fst (run P sched))).
  Proof.
    intros HWF. set (cf := fst (run P sched)).
    assert (HI : exists phi, Inv cf phi) by (apply inv_reachable; auto; apply exec_reachable; constructor).
    destruct HI as [phi HI].
    destruct HI as [Hq Hnh Hr0 Hin|k s m Hc Hoth Hnh Hr0 HT|k s m Hq Hrk Hhk Hho Hr0 HT|Hq Hnh Hr0 HD].
    - rewrite Hin. simpl. lia.
    - apply (TokInv_fin _ _ _ HWF HT).
    - apply (TokInv_fin _ _ _ HWF HT).
    - intros _. apply HD.
  Qed.

  Definition quiescent (cf : cfg) : Prop :=
    (forall j, inr j -> w_running (nodes cf j) = true) /\ quiet cf.

  (* no deadlock: a configuration in which nothing can happen any more (all started, no message)
     is one where the terminate message has reached every computation *)
  Lemma syncbb_quiescent_l sched : WF -> quiescent (fst (run P sched)) ->
    (forall j, inr j -> fin (sts (fst (run P sched)) j) = 1%nat)
    /\ FinalInv (sts (fst (run P sched))).
  Proof.
    intros HWF. set (cf := fst (run P sched)). intros [Hrun Hqu].
    assert (HI : exists phi, Inv cf phi) by (apply inv_reachable; auto; apply exec_reachable; constructor).
    destruct HI as [phi HI].
    assert (H0 : inr 0) by (destruct HWF; unfold inr; lia).
    destruct HI as [Hq Hnh Hr0 Hin|k s m Hc Hoth Hnh Hr0 HT|k s m Hq Hrk Hhk Hho Hr0 HT|Hq Hnh Hr0 HD].
    - rewrite Hrun in Hr0; auto. discriminate.
    - rewrite Hqu in Hc. discriminate.
    - rewrite Hrun in Hrk; [discriminate|]. eapply TokInv_range; eauto.
    - destruct HD. split; auto.
  Qed.

  Lemma syncbb_fin_once_l sched j : WF -> inr j -> (fin (sts (fst (run P sched)) j) <= 1)%nat.
  Proof.
    intros HWF Hj. set (cf := fst (run P sched)).
    assert (HI : exists phi, Inv cf phi) by (apply inv_reachable; auto; apply exec_reachable; constructor).
    destruct HI as [phi HI].
    destruct HI as [Hq Hnh Hr0 Hin|k s m Hc Hoth Hnh Hr0 HT|k s m Hq Hrk Hhk Hho Hr0 HT|Hq Hnh Hr0 HD].
    - rewrite Hin. simpl. lia.
    - apply (TokInv_fin _ _ _ HWF HT); auto.
    - apply (TokInv_fin _ _ _ HWF HT); auto.
    - destruct HD as [_ H1]. rewrite H1; auto.
  Qed.

  (* ---- termination: the number of effective actions of any schedule is bounded *)
  Fixpoint eff_count (cf : cfg) (sched : list action) : nat :=
    match sched with
    | [] => 0%nat
    | a :: r => ((if effective cf a then 1 else 0) + eff_count (fst (step P cf a)) r)%nat
    end.

  Lemma eff_bound sched : WF -> forall cf phi, Inv cf phi -> (eff_count cf sched <= phi)%nat.
  Proof.
    intros HWF. induction sched as [|a r IH]; intros cf phi HI; simpl; [lia|].
    destruct (inv_step cf a phi HWF HI) as (phi' & HI' & Hle & Hlt).
    specialize (IH _ _ HI'). destruct (effective cf a); [specialize (Hlt eq_refl)|]; lia.
  Qed.

  Definition step_bound : nat := 2 * Z.to_nat n + 2 * M0 + 2.

  Lemma filter_len_le {A} (p : A -> bool) l : (List.length (filter p l) <= List.length l)%nat.
  Proof. induction l as [|a l IH]; simpl; auto. destruct (p a); simpl; lia. Qed.

  Lemma syncbb_terminates_l sched : WF -> (eff_count (init P) sched <= step_bound)%nat.
  Proof.
    intros HWF.
    assert (HI : Inv (init P) (2 * unstarted (init P) + 2 * M0 + 2)).
    { apply InvInit; unfold quiet, noheld; simpl; auto; intros ?; reflexivity. }
    pose proof (eff_bound sched HWF _ _ HI) as H.
    assert (unstarted (init P) <= Z.to_nat n)%nat.
    { unfold unstarted, unst. etransitivity; [apply filter_len_le|].
      unfold zrange. rewrite map_length, seq_length. lia. }
    unfold step_bound. lia.
  Qed.
End Proofs.

(* ------------------------------------------------------------------ 5. concrete DCOPs:
   the cost carried along a path is the DCOP's objective (sum of the constraint tables) *)
Lemma zsum_nonneg l : (forall x, In x l -> 0 <= x) -> 0 <= zsum l.
Proof.
  induction l as [|x l IH]; simpl; intros H; [lia|].
  assert (0 <= x) by (apply H; now left). assert (0 <= zsum l) by (apply IH; intros; apply H; now right). lia.
Qed.

Lemma zsum_map_add {A} (f g : A -> Z) l :
  zsum (map (fun x => f x + g x) l) = zsum (map f l) + zsum (map g l).
Proof. induction l as [|x l IH]; simpl; lia. Qed.

Lemma zsum_map_ext {A} (f g : A -> Z) l : (forall x, In x l -> f x = g x) -> zsum (map f l) = zsum (map g l).
Proof.
  induction l as [|x l IH]; simpl; intros H; [reflexivity|].
  rewrite (H x) by now left. rewrite IH; auto.
Qed.

Lemma mcost_nonneg m va vb :
  (forall row x, In row m -> In x row -> 0 <= x) -> 0 <= mcost m va vb.
Proof.
  intros H. unfold mcost.
  destruct (nth_in_or_default (Z.to_nat va) m []) as [Hin| ->].
  - destruct (nth_in_or_default (Z.to_nat vb) (nth (Z.to_nat va) m []) 0) as [Hin2| ->]; [eauto|lia].
  - destruct (Z.to_nat vb); simpl; lia.
Qed.

Section Concrete.
  Variable is_min : bool.
  Variable doms : list (list Z).
  Variable cons : list con.
  Notation n := (Z.of_nat (List.length doms)).
  Notation dom := (dom_of doms).
  Notation pc := (pc_of cons).

  Definition scopes_ok : Prop :=
    forall a b m, In (a, b, m) cons -> 0 <= a < n /\ 0 <= b < n /\ a <> b.

  Definition WFc : Prop :=
    doms <> [] /\ (forall d, In d doms -> d <> [] /\ NoDup d) /\ scopes_ok
    /\ (is_min = true -> forall a b m row x, In (a, b, m) cons -> In row m -> In x row -> 0 <= x).

  Lemma WFc_WF : WFc -> WF is_min n dom pc.
  Proof.
    intros (Hne & Hd & Hsc & Hnn). split; [|split].
    - destruct doms; [congruence|]. simpl List.length. lia.
    - intros k Hk. unfold inr in Hk. apply Hd. unfold dom_of.
      destruct (k <? 0) eqn:E; [lia|]. apply nth_In. lia.
    - intros Hm i vi j vj. unfold pc_of. apply zsum_nonneg. intros x Hx.
      apply in_map_iff in Hx as ([[a b] m] & <- & Hin). unfold con_pc.
      assert (Hmm : forall va vb, 0 <= mcost m va vb).
      { intros. apply mcost_nonneg. intros row y Hr Hy. eapply (Hnn Hm); eauto. }
      destruct ((a =? i) && (b =? j)); auto. destruct ((a =? j) && (b =? i)); auto. lia.
  Qed.

  (* value of variable j in a path (0 when absent) *)
  Definition asg (f : rpath) (j : Z) : Z := match pval f j with Some v => v | None => 0 end.

  Fixpoint pb_with (q : Z -> Z -> Z -> Z -> Z) (f : rpath) : Z :=
    match f with
    | [] => 0
    | (j, v, _) :: rest => zsum (map (fun e => q (e_var e) (e_val e) j v) rest) + pb_with q rest
    end.

  Lemma path_bound_pb_with q f : wfp dom q f -> path_bound f = pb_with q f.
  Proof.
    induction f as [|[[j v] c] rest IH]; simpl; [reflexivity|].
    intros (_ & _ & -> & Hw). rewrite path_bound_cons, IH; auto.
  Qed.

  Lemma pb_with_add q1 q2 f :
    pb_with (fun i vi j vj => q1 i vi j vj + q2 i vi j vj) f = pb_with q1 f + pb_with q2 f.
  Proof.
    induction f as [|[[j v] c] rest IH]; simpl; [reflexivity|]. rewrite IH, zsum_map_add. lia.
  Qed.

  Lemma pb_with_sum cs f :
    pb_with (pc_of cs) f = zsum (map (fun c => pb_with (con_pc c) f) cs).
  Proof.
    induction cs as [|c cs IH]; simpl.
    - induction f as [|[[j v] c0] rest IHf]; simpl; auto. rewrite IHf.
      rewrite (zsum_map_ext _ (fun _ => 0)); [|reflexivity]. clear. induction rest; simpl; auto.
    - rewrite <- IH. apply (pb_with_add (con_pc c) (pc_of cs)).
  Qed.

  Lemma wfp_labels q f e : wfp dom q f -> In e f -> 0 <= e_var e < Z.of_nat (List.length f).
  Proof.
    induction f as [|[[j v] c] rest IH]; [intros _ []|].
    intros (Hj & _ & _ & Hw) [<-|He]; cbn [List.length].
    - unfold e_var. cbn [fst]. lia.
    - specialize (IH Hw He). lia.
  Qed.

  Lemma sum_label q (g : Z -> Z) rest a : wfp dom q rest ->
    zsum (map (fun e => if e_var e =? a then g (e_val e) else 0) rest)
    = if (0 <=? a) && (a <? Z.of_nat (List.length rest)) then g (asg rest a) else 0.
  Proof.
    induction rest as [|[[j v] c] rest IH]; simpl List.length; intros Hw.
    - simpl. destruct (0 <=? a) eqn:E0; destruct (a <? 0) eqn:E; simpl; auto; lia.
    - destruct Hw as (Hj & _ & _ & Hw). cbn [map zsum]. rewrite (IH Hw). unfold e_var, e_val, asg. cbn [fst snd pval].
      destruct (j =? a) eqn:E.
      + apply Z.eqb_eq in E. subst a.
        destruct (0 <=? j) eqn:E1; destruct (j <? Z.of_nat (List.length rest)) eqn:E2;
          destruct (j <? Z.of_nat (S (List.length rest))) eqn:E3; simpl; lia.
      + destruct (0 <=? a) eqn:E1; destruct (a <? Z.of_nat (List.length rest)) eqn:E2;
          destruct (a <? Z.of_nat (S (List.length rest))) eqn:E3; simpl; lia.
  Qed.

  Lemma asg_head j v c rest : asg ((j, v, c) :: rest) j = v.
  Proof. unfold asg. simpl. now rewrite Z.eqb_refl. Qed.
  Lemma asg_tail j v c rest a : a <> j -> asg ((j, v, c) :: rest) a = asg rest a.
  Proof. unfold asg. simpl. intros H. destruct (j =? a) eqn:E; auto. lia. Qed.

  Lemma pb_with_con q a b m f : wfp dom q f -> a <> b -> 0 <= a -> 0 <= b ->
    pb_with (con_pc (a, b, m)) f
    = if (a <? Z.of_nat (List.length f)) && (b <? Z.of_nat (List.length f))
      then mcost m (asg f a) (asg f b) else 0.
  Proof.
    intros Hw Hab Ha Hb. induction f as [|[[j v] c] rest IH].
    - simpl. destruct (a <? 0) eqn:E; auto. lia.
    - destruct Hw as (Hj & _ & _ & Hw). specialize (IH Hw). cbn [pb_with]. rewrite IH.
      set (g1 := fun vi => if b =? j then mcost m vi v else 0).
      set (g2 := fun vi => if a =? j then mcost m v vi else 0).
      rewrite (zsum_map_ext _ (fun e => (if e_var e =? a then g1 (e_val e) else 0)
                                        + (if e_var e =? b then g2 (e_val e) else 0))).
      2:{ intros e _. unfold con_pc, g1, g2.
          destruct (a =? e_var e) eqn:E1; destruct (b =? j) eqn:E2; destruct (a =? j) eqn:E3;
            destruct (b =? e_var e) eqn:E4; destruct (e_var e =? a) eqn:E5;
            destruct (e_var e =? b) eqn:E6; simpl; lia. }
      rewrite zsum_map_add, (sum_label q g1 rest a Hw), (sum_label q g2 rest b Hw).
      unfold g1, g2. simpl List.length.
      destruct (Z.eq_dec a j) as [->|Haj]; destruct (Z.eq_dec b j) as [->|Hbj]; try lia.
      + rewrite asg_head, asg_tail by auto. rewrite Z.eqb_refl.
        destruct (0 <=? j) eqn:E0; destruct (0 <=? b) eqn:E1; destruct (b =? j) eqn:E2;
          destruct (j <? Z.of_nat (List.length rest)) eqn:E3;
          destruct (b <? Z.of_nat (List.length rest)) eqn:E4;
          destruct (j <? Z.of_nat (S (List.length rest))) eqn:E5;
          destruct (b <? Z.of_nat (S (List.length rest))) eqn:E6; simpl; lia.
      + rewrite asg_head, asg_tail by auto. rewrite Z.eqb_refl.
        destruct (0 <=? j) eqn:E0; destruct (0 <=? a) eqn:E1; destruct (a =? j) eqn:E2;
          destruct (j <? Z.of_nat (List.length rest)) eqn:E3;
          destruct (a <? Z.of_nat (List.length rest)) eqn:E4;
          destruct (j <? Z.of_nat (S (List.length rest))) eqn:E5;
          destruct (a <? Z.of_nat (S (List.length rest))) eqn:E6; simpl; lia.
      + rewrite !asg_tail by auto.
        destruct (0 <=? a) eqn:E0; destruct (0 <=? b) eqn:E1; destruct (a =? j) eqn:E2;
          destruct (b =? j) eqn:E2';
          destruct (a <? Z.of_nat (List.length rest)) eqn:E3;
          destruct (b <? Z.of_nat (List.length rest)) eqn:E4;
          destruct (a <? Z.of_nat (S (List.length rest))) eqn:E5;
          destruct (b <? Z.of_nat (S (List.length rest))) eqn:E6; simpl; lia.
  Qed.

  Lemma path_bound_total f : scopes_ok -> full n dom pc f -> path_bound f = total_cost cons (asg f).
  Proof.
    intros Hsc [Hw Hl]. rewrite (path_bound_pb_with pc f Hw), pb_with_sum. unfold total_cost.
    apply zsum_map_ext. intros [[a b] m] Hin. destruct (Hsc a b m Hin) as (Ha & Hb & Hab).
    rewrite (pb_with_con pc a b m f Hw Hab); try lia. rewrite Hl.
    destruct (a <? n) eqn:E1; destruct (b <? n) eqn:E2; simpl; auto; lia.
  Qed.

  Lemma total_cost_ext a1 a2 : scopes_ok -> (forall j, 0 <= j < n -> a1 j = a2 j) ->
    total_cost cons a1 = total_cost cons a2.
  Proof.
    intros Hsc H. unfold total_cost. apply zsum_map_ext. intros [[a b] m] Hin.
    destruct (Hsc a b m Hin) as (Ha & Hb & _). rewrite !H; auto.
  Qed.

  (* every in-domain assignment is a full path *)
  Lemma path_of_assignment (a : Z -> Z) : (forall j, 0 <= j < n -> In (a j) (dom j)) ->
    forall k : nat, Z.of_nat k <= n ->
    exists rp, wfp dom pc rp /\ List.length rp = k /\ forall j, 0 <= j < Z.of_nat k -> pval rp j = Some (a j).
  Proof.
    intros Ha. induction k as [|k IH]; intros Hk.
    - exists []. simpl. repeat split; auto. intros; lia.
    - destruct IH as (rp & Hw & Hl & Hv); [lia|].
      exists ((Z.of_nat k, a (Z.of_nat k), ccost pc rp (Z.of_nat k) (a (Z.of_nat k))) :: rp).
      simpl. rewrite Hl. repeat split; auto. apply Ha. lia.
      intros j Hj. destruct (Z.of_nat k =? j) eqn:E.
      + apply Z.eqb_eq in E. now subst.
      + apply Hv. lia.
  Qed.

  (* C02 in the DCOP's own terms *)
  Lemma syncbb_optimal_total_cost_l sched : WFc ->
    let cf := fst (run (proto_of is_min doms cons) sched) in
    (1 <= fin (w_st (nodes cf 0%Z)))%nat ->
    exists a : Z -> Z,
      (forall j, 0 <= j < n -> value (w_st (nodes cf j)) = Some (a j) /\ In (a j) (dom j))
      /\ forall a', (forall j, 0 <= j < n -> In (a' j) (dom j)) ->
           if is_min then total_cost cons a <= total_cost cons a'
           else total_cost cons a' <= total_cost cons a.
  Proof.
    intros HW cf Hfin. pose proof (WFc_WF HW) as HWF. destruct HW as (_ & _ & Hsc & _).
    destruct (syncbb_optimal_l is_min n dom pc sched HWF Hfin) as (g & Hg & Hopt & Hval).
    exists (asg g). split.
    - intros j Hj. unfold asg. specialize (Hval j Hj). unfold sts, P in Hval. unfold cf, proto_of.
      destruct (pval_some dom pc g j (proj1 Hg)) as (v & Hv & Hin); [destruct Hg; lia|].
      rewrite Hval, Hv. auto.
    - intros a' Ha'. destruct (path_of_assignment a' Ha' (List.length doms)) as (f & Hw & Hl & Hv); [lia|].
      assert (Hf : full n dom pc f) by (split; auto; lia).
      specialize (Hopt f Hf). rewrite (path_bound_total g Hsc Hg), (path_bound_total f Hsc Hf) in Hopt.
      rewrite (total_cost_ext (asg f) a' Hsc) in Hopt.
      + unfold nworse in Hopt. destruct is_min; auto.
      + intros j Hj. unfold asg. rewrite Hv; auto.
  Qed.
End Concrete.

(* ------------------------------------------------------------------ 6. min mode with a negative
   cost: the pruning rule `candidate_cost >= upper_bound` is unsound, the run ends on cost 0
   while (0,0,0) costs -1 *)
Definition neg_doms : list (list Z) := [[0]; [1; 0]; [0]].
Definition neg_cons : list con := [(1, 2, [[-1]; [0]])].
Definition neg_sched : list (@action) :=
  [Start 0; Start 1; Start 2; Deliver 0 1; Deliver 1 2; Deliver 2 1; Deliver 1 0; Deliver 0 1; Deliver 1 2].

Lemma syncbb_min_negative_costs_refuted_l :
  exists doms cons sched,
    doms <> [] /\ (forall d, In d doms -> d <> [] /\ NoDup d) /\ scopes_ok doms cons /\
    let cf := fst (run (proto_of true doms cons) sched) in
    let n := Z.of_nat (List.length doms) in
    exists a a' : Z -> Z,
      (forall j, 0 <= j < n -> fin (w_st (nodes cf j)) = 1%nat /\ value (w_st (nodes cf j)) = Some (a j))
      /\ (forall j, 0 <= j < n -> In (a' j) (dom_of doms j))
      /\ total_cost cons a' < total_cost cons a.
Proof.
  exists neg_doms, neg_cons, neg_sched. split; [discriminate|]. split; [|split].
  - intros d [<-|[<-|[<-|[]]]]; (split; [discriminate|]); repeat constructor; simpl; intuition lia.
  - intros a b m [H|[]]. inversion H. simpl. lia.
  - exists (fun j => nth (Z.to_nat j) [0; 1; 0] 0), (fun _ => 0). split; [|split].
    + intros j Hj. simpl in Hj. assert (j = 0 \/ j = 1 \/ j = 2) as [-> | [-> | ->]] by lia; vm_compute; auto.
    + intros j Hj. simpl in Hj. assert (j = 0 \/ j = 1 \/ j = 2) as [-> | [-> | ->]] by lia; vm_compute; auto.
    + vm_compute. reflexivity.
Qed.
