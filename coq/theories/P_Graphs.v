(* P_Graphs.v -- proofs about the computation-graph models of M_Graphs.v (C16). *)
From PyDcop Require Import Base M_Graphs.
From Coq Require Import Permutation Sorting.Sorted.

(* ------------------------------------------------------------------ *)
(* insertion sort                                                      *)
(* ------------------------------------------------------------------ *)
Lemma insert_sorted_perm (x : Z) l : Permutation (insert_sorted Z.leb x l) (x :: l).
Proof.
  induction l as [|y r IH]; simpl; auto.
  destruct (Z.leb x y); auto.
  eapply perm_trans; [apply perm_skip, IH | apply perm_swap].
Qed.

Lemma isort_perm (l : list Z) : Permutation (isort Z.leb l) l.
Proof.
  induction l as [|x r IH]; simpl; auto.
  eapply perm_trans; [apply insert_sorted_perm | apply perm_skip, IH].
Qed.

Lemma In_isort x (l : list Z) : In x (isort Z.leb l) <-> In x l.
Proof.
  split; intro H.
  - eapply Permutation_in; [apply isort_perm | exact H].
  - eapply Permutation_in; [apply Permutation_sym, isort_perm | exact H].
Qed.

Lemma insert_sorted_sorted x l :
  StronglySorted Z.le l -> StronglySorted Z.le (insert_sorted Z.leb x l).
Proof.
  induction l as [|y r IH]; simpl; intro H.
  - constructor; constructor.
  - inversion H as [|? ? Hs Hf]; subst.
    destruct (Z.leb x y) eqn:E.
    + apply Z.leb_le in E. constructor; auto. constructor; auto.
      eapply Forall_impl; [|exact Hf]. intros; lia.
    + apply Z.leb_gt in E. constructor; auto.
      apply Forall_forall. intros z Hz.
      apply (Permutation_in _ (insert_sorted_perm x r)) in Hz. destruct Hz as [->|Hz]; [lia|].
      rewrite Forall_forall in Hf. auto.
Qed.

Lemma isort_sorted (l : list Z) : StronglySorted Z.le (isort Z.leb l).
Proof. induction l; simpl; [constructor | now apply insert_sorted_sorted]. Qed.

Lemma sorted_nodup_strict (l : list Z) :
  StronglySorted Z.le l -> NoDup l -> StronglySorted Z.lt l.
Proof.
  induction l as [|a r IH]; intros Hs Hn; [constructor|].
  inversion Hs; inversion Hn; subst. constructor; auto.
  apply Forall_forall. intros z Hz.
  assert (a <= z) by (rewrite Forall_forall in *; auto).
  assert (a <> z) by (intros ->; contradiction). lia.
Qed.

Lemma isort_nodup (l : list Z) : NoDup l -> NoDup (isort Z.leb l).
Proof. intro H. eapply Permutation_NoDup; [apply Permutation_sym, isort_perm | exact H]. Qed.

Lemma fset_In x l : In x (fset l) <-> In x l.
Proof. unfold fset. rewrite In_isort. apply nodup_In. Qed.

Lemma fset_NoDup l : NoDup (fset l).
Proof. unfold fset. apply isort_nodup, NoDup_nodup. Qed.

Lemma nodupb_NoDup (l : list Z) : nodupb Z.eqb l = true <-> NoDup l.
Proof.
  induction l as [|x r IH]; simpl.
  - split; auto. constructor.
  - rewrite andb_true_iff, negb_true_iff, IH. fold (zmem x r). split.
    + intros [H1 H2]. constructor; auto. rewrite <- zmem_In. congruence.
    + intro H; inversion H; subst. split; auto.
      destruct (zmem x r) eqn:E; auto. apply zmem_In in E. contradiction.
Qed.

(* ------------------------------------------------------------------ *)
(* find_dependent, neighbour derivation                                *)
(* ------------------------------------------------------------------ *)
Lemma find_dependent_In v cs c :
  In c (find_dependent v cs) <-> In c cs /\ In v (c_scope c).
Proof. unfold find_dependent. rewrite filter_In, zmem_In. tauto. Qed.

Lemma derive_neighbors_In name links w :
  In w (derive_neighbors name links) <->
  w <> name /\ exists l, In l links /\ In w (link_nodes l).
Proof.
  unfold derive_neighbors. rewrite nodup_In, filter_In, in_flat_map, negb_true_iff, Z.eqb_neq. tauto.
Qed.

Lemma derive_neighbors_NoDup name links : NoDup (derive_neighbors name links).
Proof. apply NoDup_nodup. Qed.

(* ------------------------------------------------------------------ *)
(* constraints hyper-graph                                             *)
(* ------------------------------------------------------------------ *)
Lemma chg_build_In vars cs n :
  In n (chg_build vars cs) <-> exists v, In v vars /\ n = chg_node cs v.
Proof. unfold chg_build. rewrite in_map_iff. split; intros [v [A B]]; exists v; auto. Qed.

Lemma chg_nodes_l vars cs :
  map n_name (chg_build vars cs) = vars /\
  (forall n, In n (chg_build vars cs) -> n_kind n = VarNode).
Proof.
  split.
  - unfold chg_build. rewrite map_map. simpl. apply map_id.
  - intros n H. apply chg_build_In in H as [v [_ ->]]. reflexivity.
Qed.

Lemma chg_constraints_exact_l vars cs n : In n (chg_build vars cs) ->
  n_constraints n = map c_name (find_dependent (n_name n) cs) /\
  (forall c, In c (find_dependent (n_name n) cs) <-> In c cs /\ In (n_name n) (c_scope c)).
Proof.
  intro H. apply chg_build_In in H as [v [_ ->]]. simpl. split; auto.
  intro c. apply find_dependent_In.
Qed.

Lemma chg_links_exact_l vars cs n : In n (chg_build vars cs) ->
  n_links n = map (fun c => CLink (c_name c) (fset (c_scope c))) (find_dependent (n_name n) cs) /\
  (forall l x, In x (fset l) <-> In x l).
Proof.
  intro H. apply chg_build_In in H as [v [_ ->]]. simpl. split; auto.
  intros; apply fset_In.
Qed.

Lemma chg_node_neighbors cs v w :
  In w (n_neighbors (chg_node cs v)) <->
  w <> v /\ exists c, In c cs /\ In v (c_scope c) /\ In w (c_scope c).
Proof.
  unfold chg_node, node_of_links; simpl. rewrite derive_neighbors_In.
  split; intros [Hne H]; split; auto.
  - destruct H as [l [Hl Hw]]. apply in_map_iff in Hl as [c [<- Hc]].
    apply find_dependent_In in Hc as [Hc Hv]. unfold clink_of, link_nodes in Hw.
    rewrite fset_In in Hw. exists c; auto.
  - destruct H as [c [Hc [Hv Hw]]]. exists (clink_of c). split.
    + apply in_map. apply find_dependent_In; auto.
    + unfold clink_of, link_nodes. now apply fset_In.
Qed.

Lemma chg_neighbors_iff_share_l vars cs n : In n (chg_build vars cs) ->
  forall w, In w (n_neighbors n) <->
    w <> n_name n /\ exists c, In c cs /\ In (n_name n) (c_scope c) /\ In w (c_scope c).
Proof.
  intro H. apply chg_build_In in H as [v [_ ->]]. intro w. apply chg_node_neighbors.
Qed.

Lemma chg_neighbors_sym_l vars cs n m :
  In n (chg_build vars cs) -> In m (chg_build vars cs) ->
  (In (n_name m) (n_neighbors n) <-> In (n_name n) (n_neighbors m)).
Proof.
  intros Hn Hm. apply chg_build_In in Hn as [v [_ ->]]. apply chg_build_In in Hm as [w [_ ->]].
  rewrite !chg_node_neighbors. simpl.
  split; intros [Hne [c [Hc [H1 H2]]]]; (split; [congruence | exists c; auto]).
Qed.

Lemma chg_neighbors_nodup_l vars cs n : In n (chg_build vars cs) ->
  NoDup (n_neighbors n) /\ ~ In (n_name n) (n_neighbors n).
Proof.
  intro H. apply chg_build_In in H as [v [_ ->]]. split.
  - apply derive_neighbors_NoDup.
  - rewrite chg_node_neighbors. simpl. intros [Hne _]. congruence.
Qed.

(* ------------------------------------------------------------------ *)
(* factor graph                                                        *)
(* ------------------------------------------------------------------ *)
Lemma fg_names vars cs : map n_name (fg_nodes vars cs) = vars ++ map c_name cs.
Proof.
  unfold fg_nodes. rewrite map_app, !map_map. simpl. now rewrite map_id.
Qed.

Lemma fg_build_Some vars cs g :
  fg_build vars cs = Some g <-> NoDup (vars ++ map c_name cs) /\ g = fg_nodes vars cs.
Proof.
  unfold fg_build. destruct (nodupb Z.eqb (map n_name (fg_nodes vars cs))) eqn:E.
  - apply nodupb_NoDup in E. rewrite fg_names in E. split.
    + intro H; inversion H; auto.
    + intros [_ ->]; auto.
  - split; [discriminate|]. intros [H _]. rewrite <- fg_names in H.
    apply nodupb_NoDup in H. congruence.
Qed.

Lemma fg_rejects_iff_duplicate_names_l vars cs :
  fg_build vars cs = None <-> ~ NoDup (vars ++ map c_name cs).
Proof.
  unfold fg_build. destruct (nodupb Z.eqb (map n_name (fg_nodes vars cs))) eqn:E.
  - apply nodupb_NoDup in E. rewrite fg_names in E. split; [discriminate | contradiction].
  - split; auto. intros _ H. rewrite <- fg_names in H. apply nodupb_NoDup in H. congruence.
Qed.

Lemma fg_nodes_one_per_l vars cs g : fg_build vars cs = Some g ->
  map (fun n => (n_name n, n_kind n)) g =
    map (fun v => (v, VarNode)) vars ++ map (fun c => (c_name c, FactorNode)) cs.
Proof.
  intro H. apply fg_build_Some in H as [_ ->]. unfold fg_nodes.
  rewrite map_app, !map_map. reflexivity.
Qed.

Lemma flink_nodes_In f v x : In x (link_nodes (FLink f v)) <-> x = f \/ x = v.
Proof. simpl. rewrite fset_In. simpl. intuition. Qed.

Lemma fg_var_node_neighbors cs v f :
  In f (n_neighbors (fg_var_node cs v)) <->
  f <> v /\ exists c, In c cs /\ c_name c = f /\ In v (c_scope c).
Proof.
  unfold fg_var_node, node_of_links; simpl. rewrite derive_neighbors_In.
  split; intros [Hne H]; split; auto.
  - destruct H as [l [Hl Hw]]. apply in_map_iff in Hl as [cn [<- Hcn]].
    apply in_map_iff in Hcn as [c [<- Hc]]. apply find_dependent_In in Hc as [Hc Hv].
    rewrite flink_nodes_In in Hw; destruct Hw as [->| ->]; [|congruence]. exists c; auto.
  - destruct H as [c [Hc [<- Hv]]]. exists (FLink (c_name c) v). split.
    + apply in_map_iff. exists (c_name c). split; auto. apply in_map. now apply find_dependent_In.
    + apply flink_nodes_In; auto.
Qed.

Lemma fg_factor_node_neighbors c x :
  In x (n_neighbors (fg_factor_node c)) <-> x <> c_name c /\ In x (c_scope c).
Proof.
  unfold fg_factor_node, node_of_links; simpl. rewrite derive_neighbors_In.
  split; intros [Hne H]; split; auto.
  - destruct H as [l [Hl Hw]]. apply in_map_iff in Hl as [v [<- Hv]].
    rewrite flink_nodes_In in Hw; destruct Hw as [->| ->]; [congruence | auto].
  - exists (FLink (c_name c) x). split; [now apply in_map|]. apply flink_nodes_In; auto.
Qed.

Lemma NoDup_app_disjoint {A} (l1 l2 : list A) x :
  NoDup (l1 ++ l2) -> In x l1 -> In x l2 -> False.
Proof.
  induction l1 as [|a r IH]; simpl; intros Hn H1 H2; [contradiction|].
  inversion Hn; subst. destruct H1 as [->|H1].
  - apply H3. apply in_or_app; auto.
  - eauto.
Qed.

Lemma NoDup_app_l {A} (l1 l2 : list A) : NoDup (l1 ++ l2) -> NoDup l1.
Proof.
  induction l1 as [|a r IH]; simpl; intro H; [constructor|].
  inversion H; subst. constructor; auto. intro Hin. apply H2. apply in_or_app; auto.
Qed.

Lemma NoDup_app_r {A} (l1 l2 : list A) : NoDup (l1 ++ l2) -> NoDup l2.
Proof. induction l1 as [|a r IH]; simpl; intro H; auto. inversion H; auto. Qed.

Lemma NoDup_map_inj {A B} (f : A -> B) l x y :
  NoDup (map f l) -> In x l -> In y l -> f x = f y -> x = y.
Proof.
  induction l as [|a r IH]; simpl; intros Hn Hx Hy E; [contradiction|].
  inversion Hn; subst. destruct Hx as [->|Hx], Hy as [->|Hy]; auto.
  - exfalso. apply H1. rewrite E. now apply in_map.
  - exfalso. apply H1. rewrite <- E. now apply in_map.
Qed.

Definition scopes_closed (vars : list Z) (cs : list constraint) : Prop :=
  forall c x, In c cs -> In x (c_scope c) -> In x vars.

Lemma fg_In_nodes vars cs n : In n (fg_nodes vars cs) <->
  (exists v, In v vars /\ n = fg_var_node cs v) \/ (exists c, In c cs /\ n = fg_factor_node c).
Proof.
  unfold fg_nodes. rewrite in_app_iff, !in_map_iff.
  split; (intros [[x [A B]]|[x [A B]]]; [left|right]; exists x; auto).
Qed.

Lemma fg_bipartite_l vars cs g : fg_build vars cs = Some g -> scopes_closed vars cs ->
  (forall n m, In n g -> In m g -> In (n_name m) (n_neighbors n) -> n_kind n <> n_kind m) /\
  (forall n l, In n g -> In l (n_links n) ->
     exists c x, l = FLink (c_name c) x /\ In c cs /\ In x vars /\ In x (c_scope c) /\
                 (n_name n = x \/ n_name n = c_name c)).
Proof.
  intros H Hcl. apply fg_build_Some in H as [Hnd ->]. split.
  - intros n m Hn Hm Hnb.
    apply fg_In_nodes in Hn as [[v [Hv ->]]|[c [Hc ->]]];
    apply fg_In_nodes in Hm as [[w [Hw ->]]|[c' [Hc' ->]]]; simpl in *; try discriminate.
    + apply fg_var_node_neighbors in Hnb as [_ [c [Hc [E _]]]].
      exfalso. eapply (NoDup_app_disjoint _ _ w Hnd); auto. rewrite <- E. now apply in_map.
    + apply fg_factor_node_neighbors in Hnb as [_ Hs].
      exfalso. eapply (NoDup_app_disjoint _ _ (c_name c') Hnd); eauto. now apply in_map.
  - intros n l Hn Hl.
    apply fg_In_nodes in Hn as [[v [Hv ->]]|[c [Hc ->]]]; simpl in Hl.
    + apply in_map_iff in Hl as [cn [<- Hcn]]. apply in_map_iff in Hcn as [c [<- Hc]].
      apply find_dependent_In in Hc as [Hc Hs]. exists c, v. simpl. auto 10.
    + apply in_map_iff in Hl as [x [<- Hx]]. exists c, x. simpl. split; auto.
      split; auto. split; eauto.
Qed.

Lemma find_node_app_l g1 g2 name n :
  find_node g1 name = Some n -> find_node (g1 ++ g2) name = Some n.
Proof.
  unfold find_node. induction g1 as [|a r IH]; simpl; [discriminate|].
  destruct (Z.eqb (n_name a) name); auto.
Qed.

Lemma find_node_app_r g1 g2 name :
  ~ In name (map n_name g1) -> find_node (g1 ++ g2) name = find_node g2 name.
Proof.
  unfold find_node. induction g1 as [|a r IH]; simpl; auto. intro H.
  destruct (Z.eqb (n_name a) name) eqn:E.
  - apply Z.eqb_eq in E. exfalso; auto.
  - apply IH. auto.
Qed.

Lemma find_node_map {A} (f : A -> node) (key : A -> Z) (l : list A) x :
  (forall a, n_name (f a) = key a) -> NoDup (map key l) -> In x l ->
  find_node (map f l) (key x) = Some (f x).
Proof.
  intros Hk. unfold find_node. induction l as [|a r IH]; simpl; intros Hn Hx; [contradiction|].
  inversion Hn; subst. rewrite Hk. destruct Hx as [->|Hx].
  - now rewrite Z.eqb_refl.
  - destruct (Z.eqb (key a) (key x)) eqn:E; auto.
    apply Z.eqb_eq in E. exfalso. apply H1. rewrite E. now apply in_map.
Qed.

Lemma fg_link_iff_scope_l vars cs g v c : fg_build vars cs = Some g ->
  In v vars -> In c cs ->
  find_node g v = Some (fg_var_node cs v) /\
  find_node g (c_name c) = Some (fg_factor_node c) /\
  (In (c_name c) (n_neighbors (fg_var_node cs v)) <-> In v (c_scope c)) /\
  (In v (n_neighbors (fg_factor_node c)) <-> In v (c_scope c)).
Proof.
  intros H Hv Hc. apply fg_build_Some in H as [Hnd ->].
  assert (Hne : c_name c <> v).
  { intro E. eapply (NoDup_app_disjoint _ _ v Hnd); auto. rewrite <- E. now apply in_map. }
  split; [|split; [|split]].
  - unfold fg_nodes. apply find_node_app_l.
    apply (find_node_map (fg_var_node cs) (fun x => x)); auto.
    rewrite map_id. eapply NoDup_app_l; eauto.
  - unfold fg_nodes. rewrite find_node_app_r.
    + apply (find_node_map fg_factor_node c_name); auto. eapply NoDup_app_r; eauto.
    + rewrite map_map. simpl. rewrite map_id. intro Hin.
      eapply (NoDup_app_disjoint _ _ (c_name c) Hnd); auto. now apply in_map.
  - rewrite fg_var_node_neighbors. split.
    + intros [_ [c' [Hc' [E Hs]]]].
      assert (c' = c) as <-; auto.
      eapply NoDup_map_inj; eauto. eapply NoDup_app_r; eauto.
    + intro Hs. split; auto. exists c; auto.
  - rewrite fg_factor_node_neighbors. split; [tauto|]. intro; split; auto.
Qed.

(* graph.links (a Python set) *)
Lemma dedup_links_incl ls l : In l (dedup_links ls) -> In l ls.
Proof.
  revert l; induction ls as [|a r IH]; simpl; intros l H; auto.
  destruct H as [->|H]; auto. apply filter_In in H as [H _]. auto.
Qed.

Lemma dedup_links_covers ls l : In l ls ->
  exists l', In l' (dedup_links ls) /\ link_eqb_py l' l = true.
Proof.
  induction ls as [|a r IH]; simpl; intro H; [contradiction|].
  destruct (link_eqb_py a l) eqn:E.
  - exists a; auto.
  - destruct H as [->|H].
    + exists l. split; auto. destruct l; simpl in *.
      * rewrite Z.eqb_refl in E. simpl in E.
        assert (zlist_eqb nodes nodes = true) by (apply list_eqb_spec; auto; apply Z.eqb_eq).
        congruence.
      * assert (zlist_eqb (fset [factor; var]) (fset [factor; var]) = true)
          by (apply list_eqb_spec; auto; apply Z.eqb_eq). congruence.
      * rewrite eqb_reflx in E. simpl in E.
        assert (zlist_eqb (fset [src; tgt]) (fset [src; tgt]) = true)
          by (apply list_eqb_spec; auto; apply Z.eqb_eq). congruence.
    + destruct (IH H) as [l' [Hl' El']]. exists l'. split; auto.
      right. apply filter_In. split; auto.
      destruct (link_eqb_py a l') eqn:E2; auto.
      (* a ~ l' and l' ~ l would give a ~ l : python equality is transitive *)
      exfalso. clear - E E2 El'.
      assert (T : forall x y, zlist_eqb x y = true <-> x = y) by (apply list_eqb_spec; apply Z.eqb_eq).
      destruct a, l', l; simpl in *; try discriminate;
        repeat match goal with
        | H : _ && _ = true |- _ => apply andb_true_iff in H as [? ?]
        | H : Z.eqb _ _ = true |- _ => apply Z.eqb_eq in H
        | H : Bool.eqb _ _ = true |- _ => apply eqb_prop in H
        | H : zlist_eqb _ _ = true |- _ => apply T in H
        end; subst.
      * rewrite Z.eqb_refl in E. simpl in E.
        assert (zlist_eqb nodes1 nodes1 = true) by now apply T. congruence.
      * assert (zlist_eqb (fset [factor; var]) (fset [factor1; var1]) = true) by (apply T; congruence).
        congruence.
      * rewrite eqb_reflx in E. simpl in E.
        assert (zlist_eqb (fset [src; tgt]) (fset [src1; tgt1]) = true) by (apply T; congruence).
        congruence.
Qed.

Lemma fset_pair_eq a b c d : fset [a; b] = fset [c; d] ->
  (a = c \/ a = d) /\ (b = c \/ b = d) /\ (c = a \/ c = b) /\ (d = a \/ d = b).
Proof.
  intro E.
  assert (H : forall x, In x [a; b] <-> In x [c; d]).
  { intro x. rewrite <- (fset_In x [a; b]), <- (fset_In x [c; d]), E. tauto. }
  pose proof (proj1 (H a)). pose proof (proj1 (H b)).
  pose proof (proj2 (H c)). pose proof (proj2 (H d)). simpl in *. intuition.
Qed.

Lemma fg_graph_links_iff_scope_l vars cs g : fg_build vars cs = Some g -> scopes_closed vars cs ->
  forall l, In l (graph_links g) <->
            exists c x, In c cs /\ In x (c_scope c) /\ l = FLink (c_name c) x.
Proof.
  intros H Hcl. pose proof (fg_bipartite_l _ _ _ H Hcl) as [_ Hlinks].
  pose proof H as H0. apply fg_build_Some in H0 as [Hnd Hg].
  intro l. unfold graph_links. split.
  - intro Hl. apply dedup_links_incl in Hl. apply in_flat_map in Hl as [n [Hn Hl]].
    destruct (Hlinks n l Hn Hl) as [c [x [-> [Hc [_ [Hs _]]]]]]. exists c, x; auto.
  - intros [c [x [Hc [Hs ->]]]].
    assert (Hin : In (FLink (c_name c) x) (flat_map n_links g)).
    { apply in_flat_map. exists (fg_factor_node c). split.
      - subst g. apply fg_In_nodes. right. exists c; auto.
      - simpl. now apply in_map. }
    destruct (dedup_links_covers _ _ Hin) as [l' [Hl' E]].
    assert (Hl'' := dedup_links_incl _ _ Hl').
    apply in_flat_map in Hl'' as [n [Hn Hl'']].
    destruct (Hlinks n l' Hn Hl'') as [c' [x' [-> [Hc' [Hx' [Hs' _]]]]]].
    simpl in E. apply list_eqb_spec in E; [|apply Z.eqb_eq].
    apply fset_pair_eq in E as [E1 [E2 [E3 E4]]].
    assert (D : forall cc xx, In cc cs -> In xx vars -> c_name cc <> xx).
    { intros cc xx Hcc Hxx Ee. eapply (NoDup_app_disjoint _ _ xx Hnd); auto.
      rewrite <- Ee. now apply in_map. }
    assert (Hx : In x vars) by eauto.
    assert (En : c_name c' = c_name c).
    { destruct E1 as [E1|E1]; auto. exfalso. eapply D; eauto. }
    assert (Ex : x' = x).
    { destruct E2 as [E2|E2]; auto. exfalso. eapply (D c x'); eauto. }
    subst x'. rewrite <- En. exact Hl'.
Qed.

(* ------------------------------------------------------------------ *)
(* ordered graph                                                       *)
(* ------------------------------------------------------------------ *)
Lemma og_nodes_as_hypergraph_l vars cs :
  map n_name (og_build vars cs) = vars /\
  forall v, n_name (og_node vars cs v) = v /\
            n_kind (og_node vars cs v) = VarNode /\
            n_constraints (og_node vars cs v) = n_constraints (chg_node cs v) /\
            n_neighbors (og_node vars cs v) = n_neighbors (chg_node cs v) /\
            n_links (og_node vars cs v) = n_links (chg_node cs v) ++ order_links vars v.
Proof.
  split.
  - unfold og_build. rewrite map_map. simpl. apply map_id.
  - intro v. repeat split.
Qed.

Definition prev_of (s : list Z) (p : option Z) (i : nat) : option Z :=
  match i with O => p | S j => nth_error s j end.

Lemma chain_links_lookup s : forall p i v, NoDup s -> nth_error s i = Some v ->
  zlookup v (chain_links s p) =
    Some ((match prev_of s p i with Some q => [OLink false v q] | None => [] end)
          ++ (match nth_error s (S i) with Some b => [OLink true v b] | None => [] end)).
Proof.
  unfold zlookup. induction s as [|a r IH]; intros p i v Hn Hi.
  - destruct i; discriminate.
  - inversion Hn; subst. destruct i as [|j]; simpl in Hi.
    + inversion Hi; subst. simpl. rewrite Z.eqb_refl. destruct r; reflexivity.
    + assert (Hv : In v r) by (eapply nth_error_In; eauto).
      assert (v <> a) by (intros ->; contradiction).
      simpl. destruct (Z.eqb v a) eqn:E; [apply Z.eqb_eq in E; contradiction|].
      rewrite (IH (Some a) j v H2 Hi). destruct j; reflexivity.
Qed.

Lemma first_order_link_skip k cl r :
  first_order_link k (map clink_of cl ++ r) = first_order_link k r.
Proof. induction cl; simpl; auto. Qed.

Lemma og_next_prev vars cs i v : NoDup vars ->
  nth_error (isort Z.leb vars) i = Some v ->
  get_next (og_node vars cs v) = nth_error (isort Z.leb vars) (S i) /\
  get_previous (og_node vars cs v) = prev_of (isort Z.leb vars) None i.
Proof.
  intros Hn Hi.
  pose proof (chain_links_lookup _ None i v (isort_nodup _ Hn) Hi) as L.
  remember (nth_error (isort Z.leb vars) (S i)) as N.
  remember (prev_of (isort Z.leb vars) None i) as P.
  unfold get_next, get_previous, og_node, chg_node, node_of_links; simpl.
  rewrite !first_order_link_skip. unfold order_links. rewrite L.
  destruct P, N; simpl; auto.
Qed.

Lemma ordered_chain_l vars cs : NoDup vars ->
  let s := isort Z.leb vars in
  Permutation s vars /\ StronglySorted Z.lt s /\
  forall i v, nth_error s i = Some v ->
    get_next (og_node vars cs v) = nth_error s (S i) /\
    get_previous (og_node vars cs v) = match i with O => None | S j => nth_error s j end.
Proof.
  intros Hn s. split; [apply isort_perm|]. split.
  - apply sorted_nodup_strict; [apply isort_sorted | now apply isort_nodup].
  - intros i v Hi. apply (og_next_prev vars cs i v Hn Hi).
Qed.

Lemma ordered_next_previous_inverse_l vars cs a b : NoDup vars -> In a vars -> In b vars ->
  (get_next (og_node vars cs a) = Some b <-> get_previous (og_node vars cs b) = Some a).
Proof.
  intros Hn Ha Hb.
  assert (Hs := isort_nodup _ Hn).
  apply In_isort in Ha. apply In_isort in Hb.
  apply In_nth_error in Ha as [i Hi]. apply In_nth_error in Hb as [j Hj].
  destruct (og_next_prev vars cs i a Hn Hi) as [Ea _].
  destruct (og_next_prev vars cs j b Hn Hj) as [_ Eb].
  rewrite Ea, Eb. split; intro H.
  - assert (j = S i).
    { eapply (proj1 (NoDup_nth_error _) Hs).
      - apply nth_error_Some. congruence.
      - congruence. }
    subst j. simpl. exact Hi.
  - destruct j as [|j']; simpl in H; [discriminate|].
    assert (i = j').
    { eapply (proj1 (NoDup_nth_error _) Hs).
      - apply nth_error_Some. congruence.
      - congruence. }
    subst j'. exact Hj.
Qed.

(* follow the next links from a start node, at most [fuel] steps *)
Fixpoint walk (next : Z -> option Z) (fuel : nat) (cur : option Z) : list Z :=
  match fuel, cur with
  | S f, Some v => v :: walk next f (next v)
  | _, _ => []
  end.

Lemma walk_suffix (next : Z -> option Z) (s : list Z) :
  (forall i v, nth_error s i = Some v -> next v = nth_error s (S i)) ->
  forall l pre, s = pre ++ l -> walk next (List.length l) (hd_error l) = l.
Proof.
  intros Hnext. induction l as [|v l' IH]; intros pre E; simpl; auto.
  f_equal.
  assert (Hv : nth_error s (List.length pre) = Some v).
  { rewrite E, nth_error_app2, Nat.sub_diag; auto. }
  rewrite (Hnext _ _ Hv).
  assert (E2 : s = (pre ++ [v]) ++ l') by (rewrite <- app_assoc; exact E).
  replace (nth_error s (S (List.length pre))) with (hd_error l').
  - apply (IH (pre ++ [v])); auto.
  - assert (L : List.length (pre ++ [v]) = S (List.length pre))
      by (rewrite app_length; change (List.length [v]) with 1%nat; lia).
    rewrite E2. rewrite nth_error_app2 by lia. rewrite L, Nat.sub_diag.
    destruct l'; reflexivity.
Qed.

Lemma ordered_chain_visits_all_once_l vars cs : NoDup vars ->
  let s := walk (fun v => get_next (og_node vars cs v)) (List.length vars)
                (hd_error (isort Z.leb vars)) in
  Permutation s vars /\ NoDup s /\ StronglySorted Z.lt s.
Proof.
  intros Hn.
  assert (E : walk (fun v => get_next (og_node vars cs v)) (List.length vars)
                   (hd_error (isort Z.leb vars)) = isort Z.leb vars).
  { rewrite <- (Permutation_length (isort_perm vars)).
    apply (walk_suffix _ (isort Z.leb vars)) with (pre := []); auto.
    intros i v Hi. apply (og_next_prev vars cs i v Hn Hi). }
  simpl. rewrite E. split; [apply isort_perm|]. split; [now apply isort_nodup|].
  apply sorted_nodup_strict; [apply isort_sorted | now apply isort_nodup].
Qed.
