(* P_Dist4.v -- C23: the executable validity test M_Dist2.valid_b, which the correspondence run
   applies to the mapping OBSERVED from the implementation whenever the guards of
   valid_or_impossible_adhoc hold, is sound for the Prop-level notion used by the theorems. *)
From PyDcop Require Import Base M_Dist P_Dist M_Dist2 P_Dist2.
From Coq Require Import Permutation ZifyBool.

Lemma valid_b_sound_l I m : valid_b I m = true ->
  hosts_once I m /\ agents_declared I m /\ must_host_honoured I m /\ within_capacity I m.
Proof.
  unfold valid_b. rewrite !andb_true_iff. intros [[[H1 H2] H3] H4].
  split; [|split; [|split]].
  - unfold hosts_once. apply (proj1 (list_eqb_spec Z.eqb Z.eqb_eq _ _)) in H1.
    rewrite <- (isort_perm Z.leb (map fst m)). rewrite H1. apply isort_perm.
  - intros c a Hin. rewrite forallb_forall in H2. specialize (H2 (c, a) Hin). simpl in H2.
    now apply zmem_In.
  - intros a cs c Hacs Hc. rewrite forallb_forall in H3. specialize (H3 (a, cs) Hacs). simpl in H3.
    rewrite forallb_forall in H3. specialize (H3 c Hc). apply existsb_exists in H3 as [[c' a'] [Hp E]].
    unfold zz_eqb in E. simpl in E. apply andb_true_iff in E as [E1 E2].
    apply Z.eqb_eq in E1. apply Z.eqb_eq in E2. now subst.
  - intros ag Hag. rewrite forallb_forall in H4. specialize (H4 ag Hag). lia.
Qed.

(* the guards are decidable statements about the input: wfb reflects wf *)
Lemma wfb_wf I : wfb I = true <-> wf I.
Proof. unfold wfb, wf. now rewrite andb_true_iff, !nodupb_NoDup. Qed.
