(* P_SelectNet.v -- generic invariant principle for Net.v used by all C10 lemmas.

   For ANY protocol: if a per-node state predicate [J], a per-message predicate [Mok src dst m]
   and an event predicate [Pev] are such that
     - the initial state of every node satisfies J,
     - p_start from a J-state yields a J-state, only Mok messages and only Pev events,
     - p_recv of a Mok message in a J-state yields a J-state, only Mok messages, only Pev events,
   then for EVERY schedule (any interleaving of starts and per-channel-FIFO deliveries, including
   messages held before start and re-injected) every emitted event satisfies Pev, every node state
   satisfies J and every message in a channel or in a pre-start buffer satisfies Mok. *)
From PyDcop Require Import Base Net.

Section NetMsgInv.
  Context {St Msg Ev : Type}.
  Variable PR : proto St Msg Ev.
  Variable J : node -> St -> Prop.
  Variable Mok : node -> node -> Msg -> Prop.      (* sender, destination, message *)
  Variable Pev : Ev -> Prop.

  Definition outs_ok (n : node) (outs : list (node * Msg)) : Prop :=
    Forall (fun dm => Mok n (fst dm) (snd dm)) outs.

  Hypothesis Hinit : forall n, J n (p_init PR n).
  Hypothesis Hstart : forall n s s' outs evs, J n s -> p_start PR n s = (s', outs, evs) ->
    J n s' /\ outs_ok n outs /\ Forall Pev evs.
  Hypothesis Hrecv : forall n s src m s' outs evs, J n s -> Mok src n m ->
    p_recv PR n s src m = (s', outs, evs) ->
    J n s' /\ outs_ok n outs /\ Forall Pev evs.

  Definition good (cf : config St Msg) : Prop :=
    (forall n, J n (w_st (nodes cf n))) /\
    (forall n, Forall (fun sm => Mok (fst sm) n (snd sm)) (w_held (nodes cf n))) /\
    (forall s d, Forall (Mok s d) (chan cf s d)).

  Lemma upd_node_same' (f : node -> nwrap St Msg) n w : upd_node f n w n = w.
  Proof. unfold upd_node. rewrite Z.eqb_refl. reflexivity. Qed.
  Lemma upd_node_other' (f : node -> nwrap St Msg) n w x : x <> n -> upd_node f n w x = f x.
  Proof. intros H. unfold upd_node. apply Z.eqb_neq in H. rewrite H. reflexivity. Qed.

  Lemma upd_chan_forall (c : node -> node -> list Msg) s d l :
    (forall x y, Forall (Mok x y) (c x y)) -> Forall (Mok s d) l ->
    forall x y, Forall (Mok x y) (upd_chan c s d l x y).
  Proof.
    intros Hc Hl x y. unfold upd_chan.
    destruct (Z.eqb x s) eqn:E1; destruct (Z.eqb y d) eqn:E2; simpl; auto.
    apply Z.eqb_eq in E1, E2. subst. exact Hl.
  Qed.

  Lemma send_all_forall src outs : forall (c : node -> node -> list Msg),
    (forall x y, Forall (Mok x y) (c x y)) -> outs_ok src outs ->
    forall x y, Forall (Mok x y) (send_all c src outs x y).
  Proof.
    induction outs as [|[d m] r IH]; intros c Hc Ho; simpl; auto.
    inversion Ho; subst. apply IH; auto.
    apply upd_chan_forall; auto. apply Forall_app. split; auto.
  Qed.

  Lemma reinject_all_forall dst l : forall (c : node -> node -> list Msg),
    (forall x y, Forall (Mok x y) (c x y)) ->
    Forall (fun sm => Mok (fst sm) dst (snd sm)) l ->
    forall x y, Forall (Mok x y) (reinject_all c dst l x y).
  Proof.
    induction l as [|[s m] r IH]; intros c Hc Hl; simpl; auto.
    inversion Hl; subst. simpl in *.
    apply upd_chan_forall.
    - apply IH; auto.
    - constructor; [auto|apply IH; auto].
  Qed.

  Lemma step_good cf a : good cf -> good (fst (step PR cf a)) /\ Forall Pev (snd (step PR cf a)).
  Proof.
    intros (G1 & G2 & G3). destruct a as [n|s d]; unfold step.
    - destruct (w_running (nodes cf n)) eqn:Er.
      + simpl. split; [split; [|split]; auto|constructor].
      + destruct (p_start PR n (w_st (nodes cf n))) as [[st' outs] evs] eqn:Es.
        destruct (Hstart _ _ _ _ _ (G1 n) Es) as (H1 & H2 & H3). cbn [fst snd].
        split; [|exact H3]. split; [|split]; cbn [nodes chan].
        * intros x. destruct (Z.eq_dec x n) as [->|E].
          -- rewrite upd_node_same'. exact H1.
          -- rewrite upd_node_other' by auto. apply G1.
        * intros x. destruct (Z.eq_dec x n) as [->|E].
          -- rewrite upd_node_same'. constructor.
          -- rewrite upd_node_other' by auto. apply G2.
        * apply reinject_all_forall; [apply send_all_forall; auto|]. unfold reinject. apply G2.
    - destruct (chan cf s d) as [|mm q] eqn:Ec.
      + simpl. split; [split; [|split]; auto|constructor].
      + pose proof (G3 s d) as Hsd. rewrite Ec in Hsd. inversion Hsd as [|? ? Hm Hq]; subst.
        destruct (w_running (nodes cf d)) eqn:Er.
        * destruct (p_recv PR d (w_st (nodes cf d)) s mm) as [[st' outs] evs] eqn:Es.
          destruct (Hrecv _ _ _ _ _ _ _ (G1 d) Hm Es) as (H1 & H2 & H3). cbn [fst snd].
          split; [|exact H3]. split; [|split]; cbn [nodes chan].
          -- intros x. destruct (Z.eq_dec x d) as [->|E].
             ++ rewrite upd_node_same'. exact H1.
             ++ rewrite upd_node_other' by auto. apply G1.
          -- intros x. destruct (Z.eq_dec x d) as [->|E].
             ++ rewrite upd_node_same'. apply G2.
             ++ rewrite upd_node_other' by auto. apply G2.
          -- apply send_all_forall; auto. apply upd_chan_forall; auto.
        * cbn [fst snd]. split; [|constructor]. split; [|split]; cbn [nodes chan].
          -- intros x. destruct (Z.eq_dec x d) as [->|E].
             ++ rewrite upd_node_same'. apply G1.
             ++ rewrite upd_node_other' by auto. apply G1.
          -- intros x. destruct (Z.eq_dec x d) as [->|E].
             ++ rewrite upd_node_same'. cbn [w_held]. apply Forall_app. split; [apply G2|].
                constructor; [exact Hm|constructor].
             ++ rewrite upd_node_other' by auto. apply G2.
          -- apply upd_chan_forall; auto.
  Qed.

  Lemma exec_good sched : forall cf, good cf ->
    good (fst (exec PR cf sched)) /\ Forall Pev (snd (exec PR cf sched)).
  Proof.
    induction sched as [|a r IH]; intros cf Hg; simpl.
    - split; [exact Hg|constructor].
    - pose proof (step_good cf a Hg) as (S1 & S2).
      destruct (step PR cf a) as [cf1 e1]. cbn [fst snd] in *.
      pose proof (IH cf1 S1) as (R1 & R2).
      destruct (exec PR cf1 r) as [cf2 e2]. cbn [fst snd] in *.
      split; [exact R1|apply Forall_app; auto].
  Qed.

  Lemma init_good : good (init PR).
  Proof. split; [|split]; intros; simpl; auto. Qed.

  Theorem net_inv sched : good (fst (run PR sched)) /\ Forall Pev (snd (run PR sched)).
  Proof. apply exec_good. apply init_good. Qed.

  Corollary net_inv_events sched e : In e (snd (run PR sched)) -> Pev e.
  Proof. intros H. pose proof (net_inv sched) as [_ F]. rewrite Forall_forall in F. auto. Qed.

  Corollary net_inv_state sched n : J n (w_st (nodes (fst (run PR sched)) n)).
  Proof. pose proof (net_inv sched) as [(G & _) _]. apply G. Qed.
End NetMsgInv.
