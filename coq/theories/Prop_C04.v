(* [deepened: mgm_async_no_move_1opt is now a theorem about asynchronous executions, see below] *)
(* Prop_C04.v -- C04: a cycle with no MGM/MGM2 move means the assignment is 1-opt.
   Only statements; each closed by an exact lemma from P_Mgm / P_Mgm2.

   Full statement: in every asynchronous execution (any FIFO schedule), if all computations
   complete a cycle in which none changes its value, no single variable can improve the global cost
   by changing its value alone.  Proved here for one complete cycle as a function ([mgm_next]),
   for all inputs, both objectives -- suffix _partial because the refinement of the asynchronous
   handlers to [mgm_next] is checked by the correspondence run (M_Mgm.rcheck_case), not proved. *)
From PyDcop Require Import Base Net M_Mgm P_Mgm M_Mgm2 P_Mgm2 P_Mgm3 P_Mgm3c P_Mgm3b M_Mgm2r P_Mgm2r.

(* variables that take part in cycles (they have a neighbour) *)
Theorem mgm_no_move_1opt_partial : forall d, wf_dcop d = true -> forall a dr,
  (forall v, In v (ids d) -> mgm_next d a dr v = a v) ->
  forall n x, In n (ids d) -> r_active d n = true -> In x (dom_of d n) ->
  better (d_max d) (gcost d (fupd a n x)) (gcost d a) = false.
Proof. exact mgm_no_move_1opt_lemma. Qed.

(* variables without neighbour hold the value selected at start: a best response too *)
Theorem mgm_isolated_1opt : forall d, wf_dcop d = true -> forall a n x,
  In n (ids d) -> nbrs d n = [] -> a n = fst (isolated_choice d n) -> In x (dom_of d n) ->
  better (d_max d) (gcost d (fupd a n x)) (gcost d a) = false.
Proof. exact mgm_isolated_1opt_lemma. Qed.

(* the converse direction that makes the hypothesis meaningful: while some participating variable
   can improve, a cycle does change a value (the algorithm is not merely stuck) *)
Theorem mgm_improvable_moves_partial : forall d, wf_dcop d = true -> forall a dr n0,
  In n0 (ids d) -> r_active d n0 = true -> r_improving d a n0 = true ->
  exists n, In n (ids d) /\ mgm_next d a dr n <> a n.
Proof. exact some_improving_moves. Qed.

(* ------------------------------------------------------------------ deepening (P_Mgm3*.v)
   C04 for asynchronous executions (the refinement to mgm_next is proved, Prop_C03.mgm_refines_rounds):
   if between a reachable configuration at cycle boundary j and one at boundary j+1 (every schedule)
   no variable has changed its value, then no variable -- with or without neighbour -- can improve
   the global cost by changing its value alone *)
Theorem mgm_async_no_move_1opt : forall d stop orc, 0 <= stop -> forall cf1 cf2 j, wf_dcop d = true ->
  reachable (mgm_proto d stop orc) cf1 -> reachable (mgm_proto d stop orc) cf2 ->
  at_boundary d cf1 j -> at_boundary d cf2 (S j) ->
  (forall n, In n (ids d) -> held cf2 n = held cf1 n) ->
  forall n x, In n (ids d) -> In x (dom_of d n) ->
  better (d_max d) (gcost d (fupd (held cf2) n x)) (gcost d (held cf2)) = false.
Proof. exact mgm_async_no_move_1opt_l. Qed.

(* MGM2: the statement is FALSE of the code as it is (known finding C04-mgm2-idle-after-commitment):
   a variable committed to a coordinated move gets NO-GO when another neighbour ties the pair gain,
   and that neighbour loses its lexical tie-break against it: the cycle is idle although a
   unilateral change improves the global cost.  Witness: an execution of the asynchronous model. *)
Theorem mgm2_no_move_1opt_refuted :
  let evs := snd (run w04_proto w04_sched) in
  d_max w04_d = false
  /\ (forall n, In n [0; 1; 2] -> 2 <= cycles_reached evs n)
  /\ map (val_at evs 0) [0; 1; 2] = map (val_at evs 1) [0; 1; 2]
  /\ gcost w04_d (val_at evs 1) = 1 /\ In 5 (dom_of w04_d 2)
  /\ gcost w04_d (fupd (val_at evs 1) 2 5) = 0.
Proof. exact mgm2_no_move_1opt_refuted_l. Qed.

(* ------------------------------------------------------------------ deepening 2 (M_Mgm2r.v / P_Mgm2r.v)
   MGM2 at ROUND level ([mgm2_next] = one complete MGM2 cycle of all computations as a function on
   assignments, see Prop_C03).  Positive, guarded statement, every well-formed DCOP, min and max, every
   threshold / favor mode / draws: in a round in which NO node committed to a coordinated move (the guard
   that excludes finding C04-mgm2-idle-after-commitment, whose witness needs a committed variable getting
   NO-GO), if no variable changes its value then no variable that takes part in cycles can improve the global
   cost by a unilateral change.  Full statement NOT claimed (false, mgm2_no_move_1opt_refuted): the same
   without the guard.  _partial: the refinement of the asynchronous handlers to [mgm2_next] is not proved;
   it is checked on every run by M_Mgm2r.r2check_case. *)
Theorem mgm2_no_commit_no_move_1opt_partial : forall d thr favor a orc, wf_dcop d = true ->
  (forall n, In n (ids d) -> r2_committed d thr favor a orc n = false) ->
  (forall v, In v (ids d) -> mgm2_next d thr favor a orc v = a v) ->
  forall n x, In n (ids d) -> r_active d n = true -> In x (dom_of d n) ->
  better (d_max d) (gcost d (fupd a n x)) (gcost d a) = false.
Proof. exact mgm2_no_commit_no_move_1opt_l. Qed.

(* non-vacuity: on the instance below, (0,1,1), v0 and v2 are offerers (100 < 500) and offer to v1, v1 is
   not; no offer improves, nobody commits, nobody moves: the hypotheses hold and the assignment is 1-opt.
   On the witness instance of mgm2_no_move_1opt_refuted the guard fails: the idle round has committed nodes *)
Definition ex2_d : dcop :=
  mkD [(0, mkV [0; 1] None []); (1, mkV [0; 1] None [(0, 3); (1, 0)]); (2, mkV [0; 1] None [])]
      [mkC [0; 1] [([0; 0], 1); ([0; 1], 0); ([1; 0], 0); ([1; 1], 2)];
       mkC [1; 2] [([0; 0], 8); ([0; 1], 4); ([1; 0], 6); ([1; 1], 3)]] false.
Example c04_mgm2_round_nonvacuous :
  let a := fun v : Z => if v =? 0 then 0 else 1 in
  let orc := fun v : Z => if v =? 1 then [700; 0] else [100; 0; 0] in
  wf_dcop ex2_d = true
  /\ map (r2_offerer 500 orc) [0; 1; 2] = [true; false; true]
  /\ map (r2_choice ex2_d 500 orc) [0; 1; 2] = [Some 1; None; Some 1]
  /\ map (r2_committed ex2_d 500 0 a orc) [0; 1; 2] = [false; false; false]
  /\ map (mgm2_next ex2_d 500 0 a orc) [0; 1; 2] = map a [0; 1; 2]
  /\ gcost ex2_d a = 3
  /\ map (fun p => gcost ex2_d (fupd a (fst p) (snd p))) [(0, 1); (1, 0); (2, 0)] = [5; 8; 6]
  /\ (let a4 := fun v : Z => if v =? 0 then 0 else if v =? 1 then 3 else 1 in
      let orc4 := orc_of w04_orc in
      map (mgm2_next w04_d 500 0 a4 orc4) [0; 1; 2] = map a4 [0; 1; 2]
      /\ existsb (r2_committed w04_d 500 0 a4 orc4) [0; 1; 2] = true).
Proof. vm_compute. repeat split; reflexivity. Qed.

(* non-vacuity: on the instance of Prop_C03, (0,1,1) is a fixed point of the cycle function and is
   1-opt (cost 3; the six unilateral changes give 4, 7, 5 ...), while (0,0,0) is not a fixed point *)
Definition ex_d : dcop :=
  mkD [(0, mkV [0; 1] None []); (1, mkV [0; 1] None [(0, 3); (1, 0)]); (2, mkV [0; 1] None [])]
      [mkC [0; 1] [([0; 0], 1); ([0; 1], 0); ([1; 0], 0); ([1; 1], 2)];
       mkC [1; 2] [([0; 0], 8); ([0; 1], 4); ([1; 0], 6); ([1; 1], 3)]] false.
Example c04_nonvacuous :
  let a := fun v : Z => if v =? 0 then 0 else 1 in
  wf_dcop ex_d = true /\ map (mgm_next ex_d a (fun _ => 0)) [0; 1; 2] = map a [0; 1; 2]
  /\ gcost ex_d a = 3
  /\ map (fun p => gcost ex_d (fupd a (fst p) (snd p))) [(0, 1); (1, 0); (2, 0)] = [5; 8; 6]
  /\ map (r_active ex_d) [0; 1; 2] = [true; true; true].
Proof. vm_compute. repeat split; reflexivity. Qed.

(* ------------------------------------------------------------------ deepening 3 (P_Mgm2pA/B/C.v)
   The payload refinement of the asynchronous MGM2 handlers to the round function is proved
   (Prop_C03.mgm2_refines_rounds / mgm2_payload_invariant), so the guarded round theorem above holds of real
   executions: for ANY reachable configuration at cycle boundary j and ANY at boundary j+1 (every schedule), if
   no computation committed to a coordinated move in that cycle and no variable changed its value, no variable
   with a neighbour can improve the global cost by a unilateral change.  The guard is what the known finding
   C04-mgm2-idle-after-commitment violates. *)
From PyDcop Require Import M_Mgm2x P_Mgm2y P_Mgm2z P_Mgm2pA P_Mgm2pB P_Mgm2pC.

Theorem mgm2_async_no_commit_no_move_1opt : forall d stop thr favor orc fuel cf1 cf2 j, fuel_ok d fuel -> wf_dcop d = true ->
  reachable (mgm2_proto_f d stop thr favor orc fuel) cf1 -> reachable (mgm2_proto_f d stop thr favor orc fuel) cf2 ->
  at_boundary2 d cf1 j -> at_boundary2 d cf2 (S j) ->
  (forall n, In n (ids d) -> r2_committed d thr favor (RA2 d thr favor orc j) (RO2 d thr favor orc j) n = false) ->
  (forall n, In n (ids d) -> held2 cf2 n = held2 cf1 n) ->
  forall n x, In n (ids d) -> nbrs d n <> [] -> In x (dom_of d n) ->
  better (d_max d) (gcost d (fupd (held2 cf2) n x)) (gcost d (held2 cf2)) = false.
Proof. exact mgm2_async_no_commit_no_move_1opt_closed. Qed.

(* the hypotheses are met by a real run: ex2_d, stop_cycle 4, nobody ever offers (draw 700); the third cycle is
   idle: boundaries 2 and 3 hold (0, 1, 1), nobody commits in round 2, and (0, 1, 1) is 1-opt (3 vs 5, 8, 6) *)
Definition ex4_orc : node -> list Z := fun _ => [0; 700; 700; 700; 700; 700; 700; 700; 700].
Definition ex4_s (k : nat) : list (@action) :=
  [Start 0; Start 1; Start 2] ++ List.concat (repeat [Deliver 0 1; Deliver 1 0; Deliver 1 2; Deliver 2 1] k).
Example c04_mgm2_async_nonvacuous :
  let P := mgm2_proto_f ex2_d 4 500 0 ex4_orc 60 in
  let c2 := fst (run P (ex4_s 6)) in let c3 := fst (run P (ex4_s 9)) in
  at_boundary2b ex2_d c2 2 = true /\ at_boundary2b ex2_d c3 3 = true
  /\ map (r2_committed ex2_d 500 0 (RA2 ex2_d 500 0 ex4_orc 2) (RO2 ex2_d 500 0 ex4_orc 2)) [0; 1; 2] = [false; false; false]
  /\ map (held2 c2) [0; 1; 2] = [0; 1; 1] /\ map (held2 c3) [0; 1; 2] = [0; 1; 1]
  /\ gcost ex2_d (held2 c3) = 3
  /\ map (fun p => gcost ex2_d (fupd (held2 c3) (fst p) (snd p))) [(0, 1); (1, 0); (2, 0)] = [5; 8; 6].
Proof. vm_compute. repeat split; reflexivity. Qed.
