(* P_RelKinds4.v -- C11 deepening: (a) slicing in several steps fails exactly when slicing in one
   step fails, with the same exception (non-conditional kinds); (b) which slices / dict calls of
   a conditional relation raise which exception, in terms of the statements about its parts. *)
From PyDcop Require Import Base M_RelKinds P_RelKinds P_RelKinds2 P_RelKinds3.
From Coq Require Import Permutation.
Open Scope Z_scope.

(* ================= (a) several steps = one step, failures included ================= *)
Lemma NoDup_keys_app_disjoint (p1 p2 : asg) :
  NoDup (map fst (p1 ++ p2)) -> forall k, In k (map fst p1) -> ~ In k (map fst p2).
Proof.
  rewrite map_app. induction (map fst p1) as [|x l IH]; simpl; intros H k; [tauto|].
  inversion H as [|? ? Hni Hnd]; subst. intros [<-|Hk] Hk2.
  - apply Hni. apply in_or_app. auto.
  - now apply (IH Hnd k).
Qed.

Lemma unknown_key_compose p1 p2 (ns : list Z) :
  NoDup (map fst (p1 ++ p2)) -> (forall k, In k (map fst p1) -> In k ns) ->
  (unknown_key p2 (filter (fun n => negb (has_key n p1)) ns) <-> unknown_key (p1 ++ p2) ns).
Proof.
  intros Hnd Hp1. pose proof (NoDup_keys_app_disjoint _ _ Hnd) as Hdisj. unfold unknown_key. split.
  - intros [k [Hk Hn]]. exists k. rewrite map_app, in_app_iff. split; auto.
    intros Hin. apply Hn. apply filter_In. split; auto. apply negb_true_iff, has_key_false.
    intros Hk1. now apply (Hdisj k).
  - intros [k [Hk Hn]]. rewrite map_app, in_app_iff in Hk. destruct Hk as [Hk|Hk]; [exfalso; auto|].
    exists k. split; auto. intros Hin. apply filter_In in Hin. tauto.
Qed.

Lemma slice_raises_compose b p1 p2 b1 e :
  wf_b b -> NoDup (map fst (p1 ++ p2)) -> bslice b p1 = Ok b1 ->
  (slice_raises b1 p2 e <-> slice_raises b (p1 ++ p2) e).
Proof.
  intros Hwf Hnd H1.
  pose proof Hnd as Hnd'. rewrite map_app in Hnd'. destruct (NoDup_app_inv _ _ Hnd') as [Hnd1 Hnd2].
  pose proof (NoDup_keys_app_disjoint _ _ Hnd) as Hdisj.
  assert (Hok : forall e', ~ slice_raises b p1 e').
  { intros e' He. apply (slice_exceptions_spec_l b p1 e' Hwf Hnd1) in He. congruence. }
  destruct b as [value|v par body|v|f vars mapping fkw|mdims data off|nvars].
  - simpl in H1. destruct p1; simpl in H1; [|discriminate]. inversion H1; subst. reflexivity.
  - simpl in H1. destruct p1 as [|[k x] [|? ?]]; try discriminate.
    + inversion H1; subst. reflexivity.
    + destruct (k =? vname v) eqn:E; simpl in H1; [|discriminate]. apply Z.eqb_eq in E. subst k.
      apply bind_ok in H1 as [y [Hy H1]]. inversion H1; subst b1. simpl.
      pose proof (wrong_unary_slice_cases v ((vname v, x) :: p2)) as W.
      destruct p2 as [|kv p2]; simpl in *.
      * split; [intros [_ H]; congruence|].
        intros [[_ H]|[_ [_ H]]]; [apply W in H; congruence|].
        assert (unary_f par body x = Err EName) by (apply unary_f_err; auto). congruence.
      * split; [intros [-> _]; left; split; auto|].
        intros [[-> _]|[_ [[x' H] _]]]; [split; [auto|discriminate] | discriminate].
  - simpl in H1. destruct p1 as [|[k x] [|? ?]]; try discriminate.
    + inversion H1; subst. reflexivity.
    + destruct (k =? vname v) eqn:E; simpl in H1; [|discriminate]. apply Z.eqb_eq in E. subst k.
      inversion H1; subst b1. simpl.
      pose proof (wrong_unary_slice_cases v ((vname v, x) :: p2)) as W.
      destruct p2 as [|kv p2]; simpl in *.
      * split; [intros [_ H]; congruence|]. intros [_ H]. apply W in H. congruence.
      * split; [intros [-> _]; split; auto|]. intros [-> _]. split; [auto|discriminate].
  - destruct p1 as [|kv0 p0]; [simpl in H1; inversion H1; subst; reflexivity|].
    assert (Hne : kv0 :: p0 <> []) by discriminate.
    destruct (slice_fun_inv _ _ _ _ _ _ Hwf Hnd1 Hne H1) as (f' & m' & -> & _ & _ & Hin & _ & _).
    simpl. rewrite remaining_names. rewrite unknown_key_compose; auto. reflexivity.
  - pose proof (Hok EAttr) as HnA. pose proof (Hok EValue) as HnV. simpl in HnA, HnV.
    assert (Hknown : ~ unknown_key p1 (mnames mdims)) by tauto.
    assert (Hnood : ~ out_of_domain mdims p1) by tauto.
    pose proof (not_unknown_all _ _ Hknown) as Hin.
    simpl in H1. apply slice_mat_is_mat in H1 as [o ->]. simpl.
    assert (En : mnames (filter (fun vs => negb (has_key (vname (fst vs)) p1)) mdims)
                 = filter (fun n => negb (has_key n p1)) (mnames mdims)).
    { unfold mnames. clear. induction mdims as [|[v s] l IH]; simpl; auto.
      destruct (negb (has_key (vname v) p1)); simpl; now rewrite IH. }
    rewrite En, unknown_key_compose; auto.
    assert (Eo : out_of_domain (filter (fun vs => negb (has_key (vname (fst vs)) p1)) mdims) p2
                 <-> out_of_domain mdims (p1 ++ p2)).
    { unfold out_of_domain. split.
      - intros (v & s & x & Hv & Hl & Hx). apply filter_In in Hv as [Hv Hk]. simpl in Hk.
        exists v, s, x. split; auto. split; auto. rewrite zlookup_app.
        apply negb_true_iff in Hk. rewrite has_key_lookup in Hk. now destruct (zlookup (vname v) p1).
      - intros (v & s & x & Hv & Hl & Hx). rewrite zlookup_app in Hl.
        destruct (zlookup (vname v) p1) as [x'|] eqn:E1.
        + inversion Hl; subst x'. exfalso. apply Hnood. exists v, s, x. auto.
        + exists v, s, x. split; auto. apply filter_In. split; auto. simpl.
          apply negb_true_iff. now rewrite has_key_lookup, E1. }
    rewrite Eo. reflexivity.
  - simpl in H1. inversion H1; subst. reflexivity.
Qed.

Lemma slice_compose_exceptions_l b p1 p2 b1 e :
  wf_b b -> NoDup (map fst (p1 ++ p2)) -> bslice b p1 = Ok b1 ->
  (bslice b1 p2 = Err e <-> bslice b (p1 ++ p2) = Err e).
Proof.
  intros Hwf Hnd H1.
  pose proof Hnd as Hnd'. rewrite map_app in Hnd'. destruct (NoDup_app_inv _ _ Hnd') as [Hnd1 Hnd2].
  assert (Hwf1 : wf_b b1) by (apply (bslice_wf_l b p1 b1); auto).
  rewrite (slice_exceptions_spec_l b1 p2 e Hwf1 Hnd2), (slice_exceptions_spec_l b (p1 ++ p2) e Hwf Hnd).
  now apply slice_raises_compose.
Qed.

(* hence: the second step succeeds iff the one-step slice does *)
Lemma slice_compose_succeeds_l b p1 p2 b1 :
  wf_b b -> NoDup (map fst (p1 ++ p2)) -> bslice b p1 = Ok b1 ->
  ((exists b2, bslice b1 p2 = Ok b2) <-> (exists b12, bslice b (p1 ++ p2) = Ok b12)).
Proof.
  intros Hwf Hnd H1. split; intros [x Hx].
  - destruct (bslice b (p1 ++ p2)) eqn:E; eauto.
    apply (slice_compose_exceptions_l b p1 p2 b1 e Hwf Hnd H1) in E. congruence.
  - destruct (bslice b1 p2) eqn:E; eauto.
    apply (slice_compose_exceptions_l b p1 p2 b1 e Hwf Hnd H1) in E. congruence.
Qed.

(* ================= (b) conditional relations: exceptions ================= *)
Definition decided (c : brel) (p : asg) : bool :=
  Nat.eqb (List.length (cond_part c p)) (List.length (bdims c)).

(* ConditionalRelation.slice raises what evaluating the condition raises (when p decides it),
   what slicing the consequence on its share of p raises (condition true or undecided), what
   slicing the condition on its share raises (undecided).  Keys of p that belong to neither
   part are ignored: they never raise. *)
Definition cond_slice_raises (c t : brel) (p : asg) (e : err) : Prop :=
  if decided c p then
    call_kw_raises c (cond_part c p) e \/
    (exists cv, bcall_kw c (cond_part c p) = Ok cv /\ truthy cv = true /\ slice_raises t (cond_part t p) e)
  else
    slice_raises c (cond_part c p) e \/
    ((forall e', ~ slice_raises c (cond_part c p) e') /\ slice_raises t (cond_part t p) e).

Lemma cond_slice_exceptions_spec_l c t rn p e :
  wf_b c -> wf_b t -> NoDup (map fst p) ->
  (slice (RCond c t rn) p = Err e <-> cond_slice_raises c t p e).
Proof.
  intros Hc Ht Hp. simpl. rewrite cond_slice_unfold. unfold cond_slice_raises, decided.
  pose proof (cond_part_keys_nodup c p Hp) as Nc. pose proof (cond_part_keys_nodup t p Hp) as Nt.
  pose proof (call_kw_exceptions_spec_l c (cond_part c p) e Hc Nc) as Kc.
  pose proof (slice_exceptions_spec_l t (cond_part t p) e Ht Nt) as St.
  pose proof (slice_exceptions_spec_l c (cond_part c p) e Hc Nc) as Sc.
  destruct (Nat.eqb _ _).
  - destruct (bcall_kw c (cond_part c p)) as [cv|e0] eqn:Ec; simpl.
    + destruct (truthy cv) eqn:Etr.
      * destruct (bslice t (cond_part t p)) as [s|e1] eqn:Es; simpl.
        -- split; [discriminate|]. intros [H|[cv' [_ [_ H]]]].
           ++ apply Kc in H. discriminate.
           ++ apply St in H. discriminate.
        -- split.
           ++ intros H. inversion H; subst. right. exists cv. split; auto. split; auto. now apply St.
           ++ intros [H|[cv' [_ [_ H]]]]; [apply Kc in H; discriminate | apply St in H; congruence].
      * split.
        -- destruct rn; discriminate.
        -- intros [H|[cv' [E [Htr' _]]]]; [apply Kc in H; discriminate|]. inversion E; subst. congruence.
    + split.
      * intros H. inversion H; subst. left. now apply Kc.
      * intros [H|[cv' [E _]]]; [apply Kc in H; now inversion H | discriminate].
  - destruct (bslice c (cond_part c p)) as [sc|e0] eqn:Ec; simpl.
    + assert (Hnone : forall e', ~ slice_raises c (cond_part c p) e').
      { intros e' He. apply (slice_exceptions_spec_l c (cond_part c p) e' Hc Nc) in He. congruence. }
      destruct (bslice t (cond_part t p)) as [st|e1] eqn:Es; simpl.
      * split; [discriminate|]. intros [H|[_ H]]; [apply Sc in H; discriminate | apply St in H; discriminate].
      * split.
        -- intros H. inversion H; subst. right. split; auto. now apply St.
        -- intros [H|[_ H]]; [apply Sc in H; discriminate | apply St in H; congruence].
    + split.
      * intros H. inversion H; subst. left. now apply Sc.
      * intros [H|[Hn _]]; [apply Sc in H; now inversion H|]. exfalso. apply (Hn e0). now apply slice_exceptions_spec_l.
Qed.

(* get_value_for_assignment(dict) of a conditional: KeyError for a missing variable of the
   condition; what calling the condition raises; when it is true, KeyError for a missing
   variable of the consequence, else what calling the consequence raises *)
Definition cond_gv_dict_raises (c t : brel) (d : asg) (e : err) : Prop :=
  (e = EKey /\ missing_key d (bnames c)) \/
  (~ missing_key d (bnames c) /\
   (call_kw_raises c (pickf (bdims c) d) e \/
    exists cv, bcall_kw c (pickf (bdims c) d) = Ok cv /\ truthy cv = true /\
      ((e = EKey /\ missing_key d (bnames t)) \/
       (~ missing_key d (bnames t) /\ call_kw_raises t (pickf (bdims t) d) e)))).

Lemma pick_missing b d :
  (forallb (fun v => has_key (vname v) d) (bdims b) = false <-> missing_key d (bnames b)) /\
  (forallb (fun v => has_key (vname v) d) (bdims b) = true <-> ~ missing_key d (bnames b)).
Proof.
  assert (H : forallb (fun v => has_key (vname v) d) (bdims b) = false <-> missing_key d (bnames b)).
  { rewrite forallb_false_ex. unfold missing_key, bnames. split.
    - intros [v [Hv Hk]]. exists (vname v). split; [now apply in_map | now apply has_key_false].
    - intros [n [Hn Hk]]. apply in_map_iff in Hn as [v [<- Hv]]. exists v. split; auto. now apply has_key_false. }
  split; auto. rewrite <- H. destruct (forallb _ (bdims b)); split; intros H'; auto; discriminate.
Qed.

Lemma cond_gv_dict_exceptions_spec_l c t rn d e :
  wf_b c -> wf_b t -> (gv_dict (RCond c t rn) d = Err e <-> cond_gv_dict_raises c t d e).
Proof.
  intros Hc Ht. simpl. unfold cond_gv_dict, cond_gv_dict_raises. rewrite !pick_spec.
  destruct (pick_missing c d) as [Mc1 Mc2]. destruct (pick_missing t d) as [Mt1 Mt2].
  assert (Nc : NoDup (map fst (pickf (bdims c) d))) by (rewrite pickf_keys; now apply wf_b_names_nodup).
  assert (Nt : NoDup (map fst (pickf (bdims t) d))) by (rewrite pickf_keys; now apply wf_b_names_nodup).
  pose proof (call_kw_exceptions_spec_l c (pickf (bdims c) d) e Hc Nc) as Kc.
  pose proof (call_kw_exceptions_spec_l t (pickf (bdims t) d) e Ht Nt) as Kt.
  destruct (forallb (fun v => has_key (vname v) d) (bdims c)) eqn:Ec; simpl.
  - pose proof (proj1 Mc2 eq_refl) as Hnm.
    destruct (bcall_kw c (pickf (bdims c) d)) as [cv|e0] eqn:Ecv; simpl.
    + destruct (truthy cv) eqn:Etr.
      * destruct (forallb (fun v => has_key (vname v) d) (bdims t)) eqn:Etk; simpl.
        -- pose proof (proj1 Mt2 eq_refl) as Hnt. split.
           ++ intros H. right. split; auto. right. exists cv. split; auto. split; auto. right. split; auto. now apply Kt.
           ++ intros [[_ H]|[_ [H|[cv' [_ [_ [[_ H]|[_ H]]]]]]]]; try contradiction.
              ** apply Kc in H. discriminate.
              ** now apply Kt.
        -- pose proof (proj1 Mt1 eq_refl) as Hmt. split.
           ++ intros H. inversion H; subst. right. split; auto. right. exists cv. auto.
           ++ intros [[_ H]|[_ [H|[cv' [_ [_ [[-> _]|[H _]]]]]]]]; try contradiction; auto.
              apply Kc in H. discriminate.
      * split; [discriminate|].
        intros [[_ H]|[_ [H|[cv' [E [Htr' _]]]]]]; [contradiction | apply Kc in H; discriminate|].
        inversion E; subst. congruence.
    + split.
      * intros H. right. split; auto. left. now apply Kc.
      * intros [[_ H]|[_ [H|[cv' [E _]]]]]; [contradiction | now apply Kc | discriminate].
  - pose proof (proj1 Mc1 eq_refl) as Hm. split.
    + intros H. inversion H; subst. auto.
    + intros [[-> _]|[H _]]; [reflexivity | contradiction].
Qed.
