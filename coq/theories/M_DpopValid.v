(* M_DpopValid.v -- executable checker of the hypothesis of the all-schedules theorem of C01
   (P_Dpop2*.v): [dpop_check P] says that the pseudo-tree given with the dcop is a forest over the
   listed nodes with converse parent / children links, that domains are non-empty, that the
   constraints a node keeps after DpopAlgo.__init__'s ownership filter mention only the node and
   its ancestors, that every non-root node is tied to its parent by a cost kept in its subtree,
   and that the ownership filter keeps every constraint of the dcop at exactly one node.
   The correspondence evaluates it on every pseudo-tree pydcop builds.  Definitions only. *)
From PyDcop Require Import Base Net M_Dpop.

(* the variables the costs a node is responsible for can mention *)
Definition svars (P : dcop) (x : Z) : list Z :=
  x :: flat_map (fun k => r_dims (con P k)) (owned P x).

(* depth of x (number of parent links to a root), ancestors of x, nearest first; fuel-bounded *)
Fixpoint depf (P : dcop) (f : nat) (x : Z) : nat :=
  match parent P x with
  | None => O
  | Some p => match f with O => O | S k => S (depf P k p) end
  end.
Fixpoint ancs (P : dcop) (f : nat) (x : Z) : list Z :=
  match f with
  | O => []
  | S k => match parent P x with None => [] | Some p => p :: ancs P k p end
  end.

Definition cons_ids (P : dcop) : list Z := map fst (dc_cons P).
Definition all_owned (P : dcop) : list Z := flat_map (owned P) (tree_ids P).

Definition dpop_check (P : dcop) : bool :=
  let N := tree_ids P in
  let F := List.length N in
  nodupb Z.eqb N
  && forallb (fun x => Nat.ltb 0 (dsize P x)) N
  && forallb (fun x => match parent P x with
                       | None => true
                       | Some p => zmem p N && zmem x (children P p)
                                   && Nat.eqb (depf P F x) (S (depf P F p))
                       end) N
  && forallb (fun x => nodupb Z.eqb (children P x)
                       && forallb (fun c => option_eqb Z.eqb (parent P c) (Some x)) (children P x)) N
  && forallb (fun x => forallb (fun d => Z.eqb d x || zmem d (ancs P F x)) (svars P x)) N
  && forallb (fun c => match parent P c with
                       | None => true
                       | Some p => existsb (fun y => (Z.eqb y c || zmem c (ancs P F y)) && zmem p (svars P y)) N
                       end) N
  (* the ownership filter keeps every constraint exactly once *)
  && nodupb Z.eqb (cons_ids P)
  && nodupb Z.eqb (all_owned P)
  && forallb (fun k => zmem k (cons_ids P)) (all_owned P)
  && forallb (fun k => zmem k (all_owned P)) (cons_ids P).

(* the cost of an assignment: the cost of every variable's value + every constraint of the dcop *)
Definition dcop_cost (P : dcop) (a : asg) : Z :=
  zsum (map (fun x => nth (aval a x) (vcosts P x) 0) (tree_ids P))
  + zsum (map (fun kr => eval (snd kr) a) (dc_cons P)).

(* correspondence: the run of M_Dpop + the hypothesis of the theorem holds for the real tree *)
Definition check_case (c : M_Dpop.case) : bool :=
  M_Dpop.check_case c && dpop_check (c_dcop c).
